import CifModel.Model.WalkH
import CifModel.Model.StoreRead
import CifModel.Lemmas.StoreIterSpec
import CifModel.Lemmas.StoreCodec
import CifModel.Lemmas.StoreTotalS
import CifModel.Lemmas.StoreQuiet
import CifModel.Lemmas.Walk
import CifModel.Lemmas.StoreRefineQ
/-
  Lemmas/StoreReadPaths (group gY, property C07) — what the two packet-delivering read paths of Model/StoreRead hand to the caller:

    * `drain_spec` / `readLoop_spec`: a caller who opens a packet iterator on a loop (valid handle, outside any transaction, store
      satisfying `Good`) and calls next_packet until it stops gets CIF_FINISHED after exactly one packet per row of the loop, in
      ascending row order, and packet j is `storedPacket`: for every item of the loop, in the loop's order, the value STORED in that row
      (composition of gF/gL's `nextPacket_spec_abs`, i.e. C06_packet_is_stored + position bookkeeping, over the whole iteration);
    * `readLoop_cell`: hence an occupied cell (cid, k, row) = v of an item of the loop is delivered as item k of the packet of that row;
    * `walk_delivers_item`: a walk whose handlers always continue shows every entry of every packet of every loop of every container
      of the tree to the item handler (from gH's `C14_all_continue`);
    * `wloopOf_packets`: the packets walk_loop shows are those `readLoop` delivers.
-/
namespace CifModel.Store
open Gen.ErrCodes CifModel.Walk CifModel.Spec.Traversal CifModel.Lemmas.Walk

/-- the packet of row `row` of loop (cid, ln) as stored: every item of the loop, in the loop's order, with the value stored for it in
    that row (`cellK`: the unknown value if none is stored) -/
def storedPacket (d : Db) (cid ln row : Nat) : List (Str × V) :=
  (d.loopItems cid ln).map (fun i => (i.name, cellK d cid i.name row))

theorem cellK_of_cell (d : Db) (cid : Nat) (k : Str) (row : Nat) (v : V) (h : d.cell cid k row = some v) : cellK d cid k row = v := by
  have : cellK d cid k row = (d.cell cid k row).getD .unk := rfl
  rw [this, h]; rfl

theorem pktGet_map_items (d : Db) (cid row : Nat) (k : Str) : ∀ (items : List ItemRow), items.any (fun i => i.name == k) = true →
    pktGet (items.map (fun i => (i.name, cellK d cid i.name row))) k = some (cellK d cid k row)
  | [], h => by simp at h
  | i :: is, h => by
    unfold pktGet
    simp only [List.map_cons, List.find?_cons]
    by_cases hi : (i.name == k) = true
    · have : i.name = k := by simpa using hi
      simp [this]
    · have hi' : (i.name == k) = false := by simpa using hi
      simp only [List.any_cons, hi', Bool.false_or] at h
      simp only [hi']
      exact pktGet_map_items d cid row k is h

/-- cif_packet_get_item(k) on the stored packet of a row: the value stored for item k in that row -/
theorem storedPacket_get (d : Db) (cid ln row : Nat) (k : Str) (hk : (d.loopItems cid ln).any (fun i => i.name == k) = true) :
    pktGet (storedPacket d cid ln row) k = some (cellK d cid k row) :=
  pktGet_map_items d cid row k _ hk

theorem storedPacket_keys (d : Db) (cid ln row : Nat) : (storedPacket d cid ln row).map (·.1) = (d.loopItems cid ln).map (·.name) := by
  unfold storedPacket
  rw [List.map_map]; rfl

theorem drop_of_getElem? {α} : ∀ (l : List α) (n : Nat) (a : α), l[n]? = some a → l.drop n = a :: l.drop (n + 1)
  | [], n, a, h => by simp at h
  | x :: xs, 0, a, h => by simp at h; subst h; rfl
  | x :: xs, n + 1, a, h => by
    simp only [List.getElem?_cons_succ] at h
    simp only [List.drop_succ_cons]
    exact drop_of_getElem? xs n a h

theorem drop_of_getElem?_none {α} (l : List α) (n : Nat) (h : l[n]? = none) : l.drop n = [] := by
  have := List.getElem?_eq_none_iff.mp h
  exact List.drop_eq_nil_of_le this

/-- **the whole iteration**: from any position of a tied iterator (inside its transaction, store `Good`), calling next_packet until it
    no longer answers CIF_OK delivers — after `doneIn` packets already passed — exactly the remaining rows of the loop, in order, each
    as its stored packet, and stops with CIF_FINISHED -/
theorem drain_spec (s : Store) (hg : Good s.db) (hs : s.autocommit = false) :
    ∀ (fuel : Nat) (it : Iter), IterOk it s.db → (s.db.loopRows it.cid it.loopNum).length - it.doneIn s.db < fuel →
      drain s fuel it = (((s.db.loopRows it.cid it.loopNum).drop (it.doneIn s.db)).map (storedPacket s.db it.cid it.loopNum),
                         some CIF_FINISHED)
  | 0, it, _, hf => by omega
  | fuel + 1, it, h, hf => by
    obtain ⟨x, hx, k1, k2, hfind⟩ := findLoop_of_iter it s.db h hg.inv
    obtain ⟨hit, hres⟩ := nextPacket_spec_abs s it h hg hs
    have hfind' : (absS s.db).findLoop (absIter it s).cid (absIter it s).num = some (absALoop s.db x) := hfind
    unfold specItNext at hit hres
    rw [hfind'] at hit hres
    simp only [] at hit hres
    rw [packets_absALoop, k1, k2] at hit hres
    have hdone : (absIter it s).done = it.doneIn s.db := rfl
    rw [hdone] at hit hres
    have hok := nextPacket_iterOk s it s.db h
    cases hnp : nextPacket s it with
    | mk it' r =>
      rw [hnp] at hit hres hok
      simp only [] at hit hres hok
      unfold drain
      rw [hnp]
      cases hget : (s.db.loopRows it.cid it.loopNum)[it.doneIn s.db]? with
      | none =>
        rw [List.getElem?_map, hget] at hres
        simp only [Option.map_none] at hres
        subst hres
        simp only []
        rw [drop_of_getElem?_none _ _ hget]; rfl
      | some row =>
        rw [List.getElem?_map, hget] at hit hres
        simp only [Option.map_some] at hit hres
        subst hres
        simp only []
        have hcid : it'.cid = it.cid := congrArg AIter.cid hit
        have hnum : it'.loopNum = it.loopNum := congrArg AIter.num hit
        have hd' : it'.doneIn s.db = it.doneIn s.db + 1 := congrArg AIter.done hit
        have hlen : it.doneIn s.db < (s.db.loopRows it.cid it.loopNum).length := by
          have := List.getElem?_eq_some_iff.mp hget
          exact this.1
        have ih := drain_spec s hg hs fuel it' hok (by rw [hcid, hnum, hd']; omega)
        rw [ih, hcid, hnum, hd', drop_of_getElem? _ _ _ hget]
        simp only [List.map_cons]
        congr 1
        congr 1
        -- the packet
        have hitems : (absALoop s.db x).items.map (·.1) = (s.db.loopItems it.cid it.loopNum).map (·.name) := by
          show ((s.db.loopItems x.cid x.loopNum).map (fun i => (i.name, i.nameOrig))).map (·.1) = _
          rw [k1, k2, List.map_map]; rfl
        rw [hitems, zip_map_map]
        rfl

theorem loopRows_length_le (d : Db) (cid ln : Nat) : (d.loopRows cid ln).length ≤ d.values.length := by
  unfold Db.loopRows
  have hins : ∀ (x : Nat) (l : List Nat), (Db.insertNat x l).length ≤ l.length + 1 := by
    intro x l
    induction l with
    | nil => simp [Db.insertNat]
    | cons y ys ih =>
      unfold Db.insertNat
      split
      · simp
      · split
        · simp
        · simp only [List.length_cons]; omega
  have : ∀ (vs : List ValueRow) (acc : List Nat),
      (vs.foldl (fun acc v => Db.insertNat v.rowNum acc) acc).length ≤ acc.length + vs.length := by
    intro vs
    induction vs with
    | nil => intro acc; simp
    | cons v vs ih =>
      intro acc
      simp only [List.foldl_cons, List.length_cons]
      have := ih (Db.insertNat v.rowNum acc)
      have := hins v.rowNum acc
      omega
  have h1 := this (d.values.filter (fun v => v.cid == cid && (d.loopItems cid ln).any (fun i => i.name == v.name))) []
  have h2 := List.length_filter_le (fun v : ValueRow => v.cid == cid && (d.loopItems cid ln).any (fun i => i.name == v.name)) d.values
  simp only [List.length_nil, Nat.zero_add] at h1
  omega

/-- **cif_loop_get_packets + next_packet to the end**, through a valid handle, outside any transaction, on a loop that has packets:
    the iterator is granted, the iteration ends with CIF_FINISHED and has delivered exactly one packet per row of the loop, in order,
    each holding for every item of the loop the value stored in that row -/
theorem readLoop_spec (s : Store) (hg : Good s.db) (hac : s.autocommit = true) (l : LH) (hv : l.validB s.db = true)
    (hrows : s.db.loopRows l.cid l.loopNum ≠ []) (fuel : Nat) (hf : (s.db.loopRows l.cid l.loopNum).length < fuel) :
    readLoop s l fuel = .ok ((s.db.loopRows l.cid l.loopNum).map (storedPacket s.db l.cid l.loopNum), some CIF_FINISHED) := by
  have hspec := getPackets_spec_abs s l hg hv hac
  obtain ⟨x, hx, k1, k2, _⟩ := LH.valid_of_validB hv
  have hfind : (absS s.db).findLoop l.cid l.loopNum = some (absALoop s.db x) := by
    rw [← k1, ← k2]; exact findLoop_valid s.db hg.inv x hx
  have hitems : s.db.loopItems l.cid l.loopNum ≠ [] := by
    obtain ⟨r, hr⟩ := List.exists_mem_of_ne_nil _ hrows
    obtain ⟨w, _, _, hany, _⟩ := (mem_loopRows_iff _ _ _ _).mp hr
    intro h0; rw [h0] at hany; simp at hany
  have hopen : specItOpen (absS s.db) l = .ok { cid := l.cid, num := l.loopNum, done := 0, hasCur := false, start := absS s.db } := by
    unfold specItOpen
    rw [hfind]
    simp only []
    have h1 : (absALoop s.db x).items.isEmpty = false := by
      show ((s.db.loopItems x.cid x.loopNum).map (fun i => (i.name, i.nameOrig))).isEmpty = false
      rw [k1, k2]
      cases hli : s.db.loopItems l.cid l.loopNum with
      | nil => exact absurd hli hitems
      | cons a b => rfl
    have h2 : (absALoop s.db x).packets.isEmpty = false := by
      rw [packets_absALoop, k1, k2]
      cases hlr : s.db.loopRows l.cid l.loopNum with
      | nil => exact absurd hlr hrows
      | cons a b => rfl
    simp [h1, h2]
  unfold readLoop
  cases hgp : getPackets s l with
  | mk s2 r =>
    rw [hgp] at hspec
    cases r with
    | error c =>
      simp only [] at hspec
      rw [hopen] at hspec
      exact absurd hspec.1 (by simp)
    | ok it =>
      simp only [] at hspec
      obtain ⟨ho, hdb, htx, hok⟩ := hspec
      rw [hopen] at ho
      have ho' := Except.ok.inj ho
      have hcid : it.cid = l.cid := (congrArg AIter.cid ho').symm
      have hnum : it.loopNum = l.loopNum := (congrArg AIter.num ho').symm
      have hdone : it.doneIn s2.db = 0 := (congrArg AIter.done ho').symm
      have hs2 : s2.autocommit = false := autocommit_of_txn s2 _ htx
      have hg2 : Good s2.db := by rw [hdb]; exact hg
      have hok2 : IterOk it s2.db := by rw [hdb]; exact hok
      have := drain_spec s2 hg2 hs2 fuel it hok2 (by rw [hdb, hcid, hnum]; omega)
      simp only []
      rw [this, hdone, hdb, hcid, hnum]
      rfl

/-- **an occupied cell is delivered by packet iteration**: if item `k` belongs to the loop of the (valid) handle and the cell
    (container, k, row) holds `v`, then opening an iterator on the loop and reading it to the end delivers CIF_FINISHED after one
    packet per row of the loop, and the packet at the position of `row` answers `v` for item `k` -/
theorem readLoop_cell (s : Store) (hg : Good s.db) (hac : s.autocommit = true) (l : LH) (hv : l.validB s.db = true) (k : Str)
    (row : Nat) (v : V) (hk : (s.db.loopItems l.cid l.loopNum).any (fun i => i.name == k) = true)
    (hc : s.db.cell l.cid k row = some v) :
    ∃ ps, readLoop s l (readFuel s) = .ok (ps, some CIF_FINISHED) ∧ ps.length = (s.db.loopRows l.cid l.loopNum).length ∧
      ∃ (j : Nat) (p : List (Str × V)), (s.db.loopRows l.cid l.loopNum)[j]? = some row ∧ ps[j]? = some p ∧ pktGet p k = some v ∧
        p.map (·.1) = (s.db.loopItems l.cid l.loopNum).map (·.name) := by
  obtain ⟨w, hw, hwc, hwn, hwr, _⟩ := Codec.mem_of_cell s.db l.cid k row v hc
  have hrow : row ∈ s.db.loopRows l.cid l.loopNum :=
    (mem_loopRows_iff _ _ _ _).mpr ⟨w, hw, hwc, by rw [hwn]; exact hk, hwr⟩
  have hne : s.db.loopRows l.cid l.loopNum ≠ [] := List.ne_nil_of_mem hrow
  have hfuel : (s.db.loopRows l.cid l.loopNum).length < readFuel s := by
    have := loopRows_length_le s.db l.cid l.loopNum
    unfold readFuel; omega
  refine ⟨(s.db.loopRows l.cid l.loopNum).map (storedPacket s.db l.cid l.loopNum), readLoop_spec s hg hac l hv hne _ hfuel,
    List.length_map _, ?_⟩
  obtain ⟨j, hj, hjr⟩ := List.mem_iff_getElem.mp hrow
  refine ⟨j, storedPacket s.db l.cid l.loopNum row, ?_, ?_, ?_, storedPacket_keys _ _ _ _⟩
  · rw [List.getElem?_eq_getElem hj, hjr]
  · rw [List.getElem?_map, List.getElem?_eq_getElem hj, hjr]; rfl
  · rw [storedPacket_get _ _ _ _ _ hk, cellK_of_cell _ _ _ _ _ hc]

-- ---- cif_walk ----------------------------------------------------------------------------------------------------------------------------------

/-- container `c'` is `c` or a save frame somewhere below it -/
inductive InCont : WCont → WCont → Prop where
  | here (c : WCont) : InCont c c
  | frame {c' : WCont} {code : Str} {frames : List WCont} {loops : List WLoop} {f : WCont} :
      f ∈ frames → InCont c' f → InCont c' (.mk code frames loops)

-- (WCont.loops is defined in Model/WalkH.lean)

theorem mem_flattenList (t : ETree) (e : Ev) : ∀ ts : List ETree, t ∈ ts → e ∈ flatten t → e ∈ flattenList ts
  | [], h, _ => by cases h
  | u :: us, h, he => by
    simp only [flattenList, List.mem_append]
    rcases List.mem_cons.mp h with rfl | h
    · exact Or.inl he
    · exact Or.inr (mem_flattenList t e us h he)

theorem mem_contTrees (d : Nat) (f : WCont) : ∀ fs : List WCont, f ∈ fs → contTree d f ∈ contTrees d fs
  | [], h => by cases h
  | g :: gs, h => by
    simp only [contTrees]
    rcases List.mem_cons.mp h with rfl | h
    · exact List.mem_cons_self
    · exact List.mem_cons_of_mem _ (mem_contTrees d f gs h)

theorem item_mem_loopTree (L : WLoop) (pk : List (Str × V)) (k : Str) (v : V) (hpk : pk ∈ L.packets) (hkv : (k, v) ∈ pk) :
    Ev.item k v ∈ flatten (loopTree L) := by
  have hne : L.packets.isEmpty = false := by
    cases hp : L.packets with
    | nil => rw [hp] at hpk; cases hpk
    | cons a b => rfl
  simp only [loopTree, flatten, hne, Bool.false_eq_true, if_false, flattenList, List.nil_append, List.mem_cons, List.mem_append]
  right; left
  apply mem_flattenList (packetTree pk) _ _ (List.mem_map.mpr ⟨pk, hpk, rfl⟩)
  simp only [packetTree, flatten, flattenList, List.nil_append, List.mem_cons, List.mem_append]
  right; left
  exact mem_flattenList (itemTree (k, v)) _ _ (List.mem_map.mpr ⟨(k, v), hkv, rfl⟩) (by simp [itemTree, flatten])

theorem item_mem_contTree_here (k : Str) (v : V) (L : WLoop) (pk : List (Str × V)) (hpk : pk ∈ L.packets) (hkv : (k, v) ∈ pk) :
    ∀ (c : WCont), L ∈ c.loops → ∀ d, Ev.item k v ∈ flatten (contTree d c)
  | .mk code frames loops, hL, d => by
    simp only [contTree, flatten, List.mem_cons, List.mem_append]
    right; right; left
    exact mem_flattenList (loopTree L) _ _ (List.mem_map.mpr ⟨L, hL, rfl⟩) (item_mem_loopTree L pk k v hpk hkv)

theorem item_mem_contTree (k : Str) (v : V) (L : WLoop) (pk : List (Str × V)) (hpk : pk ∈ L.packets) (hkv : (k, v) ∈ pk) :
    ∀ {c' c : WCont}, InCont c' c → L ∈ c'.loops → ∀ d, Ev.item k v ∈ flatten (contTree d c) := by
  intro c' c hin
  induction hin with
  | here => exact fun hL d => item_mem_contTree_here k v L pk hpk hkv _ hL d
  | frame hf _ ih =>
    intro hL d
    simp only [contTree, flatten, List.mem_cons, List.mem_append]
    right; left
    exact mem_flattenList _ _ _ (mem_contTrees (d + 1) _ _ hf) (ih hL (d + 1))

/-- **a walk whose handlers always continue shows every entry of every packet to the item handler**: on a CIF without packet-less
    loops, for any block `B`, any container `C` in or below it, any loop of `C`, any packet of it, any entry (k, v) of the packet, the
    callbacks made include `handle_item(k, v)` (and cif_walk returns CIF_OK) -/
theorem walk_delivers_item (c : WCif) (hc : noEmptyLoops c = true) (B C : WCont) (hB : B ∈ c) (hC : InCont C B) (L : WLoop)
    (hL : L ∈ C.loops) (pk : List (Str × V)) (hpk : pk ∈ L.packets) (k : Str) (v : V) (hkv : (k, v) ∈ pk) :
    Ev.item k v ∈ (walk allCont c).1 ∧ (walk allCont c).2 = OK := by
  have hw : walk allCont c = (fullTraversal c, OK) := by
    rw [walk_eq_spec allCont c]
    simp only [walkSpec, fullTraversal, run_allCont _ _ (noFail_cif c hc), finalCode]
    simp [W.init]
  rw [hw]
  refine ⟨?_, rfl⟩
  simp only [fullTraversal, cifTree, flatten, flattenList, List.nil_append, List.mem_cons, List.mem_append]
  right; left
  exact mem_flattenList _ _ _ (mem_contTrees 0 B c hB) (item_mem_contTree k v L pk hpk hkv hC hL 0)

/-- the packets walk_loop shows for a loop that has packets are the stored packets, one per row, in order -/
theorem wloopOf_packets (s : Store) (hg : Good s.db) (hac : s.autocommit = true) (l : LH) (hv : l.validB s.db = true)
    (hrows : s.db.loopRows l.cid l.loopNum ≠ []) :
    (wloopOf s l).packets = (s.db.loopRows l.cid l.loopNum).map (storedPacket s.db l.cid l.loopNum) := by
  have hfuel : (s.db.loopRows l.cid l.loopNum).length < readFuel s := by
    have := loopRows_length_le s.db l.cid l.loopNum
    unfold readFuel; omega
  unfold wloopOf
  simp only [readLoop_spec s hg hac l hv hrows _ hfuel]

/-- cif_container_get_all_loops hands out a handle for every loop of the container: a valid loop handle of container `h` is among them -/
theorem mem_allLoops (s : Store) (h : CH) (l : LH) (hc : s.db.hasContainer h.id = true) (hv : l.validB s.db = true) (hcid : l.cid = h.id) :
    ∃ ls, (allLoops s h).2 = .ok ls ∧ l ∈ ls := by
  unfold allLoops
  rw [nestRO_snd]
  simp only [hc, Bool.not_true, Bool.false_eq_true, if_false]
  refine ⟨_, rfl, ?_⟩
  obtain ⟨x, hx, k1, k2, k3⟩ := LH.valid_of_validB hv
  refine List.mem_map.mpr ⟨x, List.mem_filter.mpr ⟨hx, by simp [k1, hcid]⟩, ?_⟩
  cases l with
  | mk cid ln cat =>
    simp only at k1 k2 k3 hcid
    simp [k2, k3, hcid]

/-- … so walk_loops shows the loop: `wloopOf s l` is among the loops of the container's node at any fuel -/
theorem wloopOf_mem_wcontOf (s : Store) (h : CH) (l : LH) (hc : s.db.hasContainer h.id = true) (hv : l.validB s.db = true)
    (hcid : l.cid = h.id) (fuel : Nat) : wloopOf s l ∈ (wcontOf s fuel h).loops := by
  obtain ⟨ls, hls, hl⟩ := mem_allLoops s h l hc hv hcid
  have : wloopOf s l ∈ wloopsOf s h := by
    unfold wloopsOf; rw [hls]; exact List.mem_map.mpr ⟨l, hl, rfl⟩
  cases fuel <;> exact this

-- ---- handles, and the states the storing routes leave ---------------------------------------------------------------------------------------------

/-- `l` is a valid handle of the loop of container `cid` that contains item `k` -/
def HandleFor (d : Db) (l : LH) (cid : Nat) (k : Str) : Prop :=
  l.validB d = true ∧ l.cid = cid ∧ (d.loopItems cid l.loopNum).any (fun i => i.name == k) = true

/-- what GET_ITEM_LOOP_SQL found when cif_container_get_item_loop succeeds: the loop row, and the item in it -/
theorem itemLoop_rows (d : Db) (cid : Nat) (k : Str) (l : LH) (h : getItemLoopInternal d cid k = .ok l) :
    ∃ x ∈ d.loops, x.cid = cid ∧ l = { cid := cid, loopNum := x.loopNum, category := x.category } ∧
      ∃ i ∈ d.loopItems cid x.loopNum, i.name = k := by
  unfold getItemLoopInternal at h
  cases hr : itemLoopRows d cid k with
  | nil => simp [hr] at h
  | cons x rest =>
    cases rest with
    | cons y ys => simp [hr] at h
    | nil =>
      simp only [hr, Except.ok.injEq] at h
      have hm : x ∈ itemLoopRows d cid k := by rw [hr]; exact List.mem_cons_self
      simp only [itemLoopRows, List.mem_filter, Bool.and_eq_true, List.any_eq_true, beq_iff_eq] at hm
      obtain ⟨hx, hxc, i, hi, ⟨hic, hin⟩, hil⟩ := hm
      refine ⟨x, hx, hxc, h.symm, i, ?_, hin⟩
      simp only [Db.loopItems, List.mem_filter, Bool.and_eq_true, beq_iff_eq]
      exact ⟨hi, hic, hil⟩

/-- the handle cif_container_get_item_loop hands out is a valid handle of the item's loop -/
theorem handleFor_of_itemLoop (d : Db) (hinv : Inv d) (cid : Nat) (k : Str) (l : LH) (h : getItemLoopInternal d cid k = .ok l) :
    HandleFor d l cid k := by
  obtain ⟨x, hx, hxc, rfl, i, hi, hik⟩ := itemLoop_rows d cid k l h
  refine ⟨?_, rfl, List.any_eq_true.mpr ⟨i, hi, by simp [hik]⟩⟩
  unfold LH.validB
  have := find_loop_of_mem d hinv x hx
  rw [hxc] at this
  simp only [this]
  simp

/-- SET_ALL_VALUES_SQL does not change which packets the item's loop has -/
theorem loopRows_setAllValues (d : Db) (cid : Nat) (k : Str) (v : V) (ln : Nat) (hl : d.loopOfItem cid k = some ln) :
    (d.setAllValues cid k v).1.loopRows cid ln = d.loopRows cid ln := by
  apply sorted_eq_of_mem_iff _ _ (loopRows_sorted _ _ _) (loopRows_sorted _ _ _)
  intro r
  have hitem := loopOfItem_mem d cid k ln hl
  have hitems : (d.setAllValues cid k v).1.loopItems cid ln = d.loopItems cid ln := by
    simp only [Db.setAllValues, hl, Db.loopItems]
  have hvals : (d.setAllValues cid k v).1.values
      = d.values.filter (fun w => !(w.cid == cid && w.name == k && (d.loopRows cid ln).contains w.rowNum))
        ++ (d.loopRows cid ln).map (fun r => { cid := cid, name := k, rowNum := r, val := v }) := by
    simp only [Db.setAllValues, hl]
  rw [mem_loopRows_iff, mem_loopRows_iff, hitems, hvals]
  constructor
  · rintro ⟨w, hw, hc, hany, hr⟩
    rcases List.mem_append.mp hw with hw | hw
    · exact ⟨w, (List.mem_filter.mp hw).1, hc, hany, hr⟩
    · obtain ⟨r', hr', rfl⟩ := List.mem_map.mp hw
      simp only at hr
      subst hr
      exact (mem_loopRows_iff _ _ _ _).mp hr'
  · intro hex
    have hr : r ∈ d.loopRows cid ln := (mem_loopRows_iff _ _ _ _).mpr hex
    exact ⟨{ cid := cid, name := k, rowNum := r, val := v }, List.mem_append.mpr (Or.inr (List.mem_map.mpr ⟨r, hr, rfl⟩)), rfl, hitem, rfl⟩

/-- the state a storing call leaves, as far as the read paths care: it satisfies the store invariants, no transaction is open, and the
    cell (container, item, row) holds `v` -/
structure Stored (s : Store) (cid : Nat) (k : Str) (row : Nat) (v : V) : Prop where
  good : GoodS s
  ac : s.autocommit = true
  cell : s.db.cell cid k row = some v

theorem GoodS.invS {s : Store} (h : GoodS s) : InvS s :=
  ⟨h.db.inv, fun d hd => (h.txn d hd).inv, fun d hd => (h.saves d hd).inv, h.txwf⟩

/-- cif_pktitr_close inside the iterator's transaction: CIF_OK, the content stays, autocommit again -/
theorem closeIter_in_txn (s : Store) (d0 : Db) (ht : s.txn = some d0) :
    closeIter s = ({ db := s.db, txn := none, saves := [] }, .ok ()) := by
  simp [closeIter, Store.commit, autocommit_of_txn s d0 ht]

/-- **iteration**: in such a state, through any valid handle of the item's loop, the iterator delivers `v` as item `k` of the packet
    of `row` -/
theorem Stored.iter {s : Store} {cid : Nat} {k : Str} {row : Nat} {v : V} (h : Stored s cid k row v) (l : LH)
    (hl : HandleFor s.db l cid k) :
    ∃ ps, readLoop s l (readFuel s) = .ok (ps, some CIF_FINISHED) ∧ ps.length = (s.db.loopRows l.cid l.loopNum).length ∧
      ∃ (j : Nat) (p : List (Str × V)), (s.db.loopRows l.cid l.loopNum)[j]? = some row ∧ ps[j]? = some p ∧ pktGet p k = some v ∧
        p.map (·.1) = (s.db.loopItems l.cid l.loopNum).map (·.name) := by
  obtain ⟨hv, hc, hk⟩ := hl
  subst hc
  exact readLoop_cell s h.good.db h.ac l hv k row v hk h.cell

theorem storedPacket_mem (d : Db) (cid ln row : Nat) (k : Str) (v : V) (hk : (d.loopItems cid ln).any (fun i => i.name == k) = true)
    (hc : d.cell cid k row = some v) : (k, v) ∈ storedPacket d cid ln row := by
  obtain ⟨i, hi, hik⟩ := List.any_eq_true.mp hk
  have hik' : i.name = k := by simpa using hik
  refine List.mem_map.mpr ⟨i, hi, ?_⟩
  rw [hik', cellK_of_cell d cid k row v hc]

/-- **cif_walk**: in such a state, wherever the item's container `hC` sits in the tree the walker builds (block `B` of `wcifOf s`, `hC`'s
    node in or below it), a walk whose handlers always continue calls the item handler with (k, v) — provided the CIF has no
    packet-less loop (cif_walk stops with CIF_EMPTY_LOOP at such a loop) -/
theorem Stored.walk {s : Store} {cid : Nat} {k : Str} {row : Nat} {v : V} (h : Stored s cid k row v) (l : LH)
    (hl : HandleFor s.db l cid k) (B : WCont) (hB : B ∈ wcifOf s) (fuel : Nat) (hC : CH) (hid : hC.id = cid)
    (hin : InCont (wcontOf s fuel hC) B) (hne : noEmptyLoops (wcifOf s) = true) :
    Ev.item k v ∈ (walkStore allCont s).1 ∧ (walkStore allCont s).2 = OK := by
  obtain ⟨hv, hc, hk⟩ := hl
  subst hc
  obtain ⟨w, hw, hwc, hwn, hwr, _⟩ := Codec.mem_of_cell s.db l.cid k row v h.cell
  have hrow : row ∈ s.db.loopRows l.cid l.loopNum := (mem_loopRows_iff _ _ _ _).mpr ⟨w, hw, hwc, by rw [hwn]; exact hk, hwr⟩
  have hrows : s.db.loopRows l.cid l.loopNum ≠ [] := List.ne_nil_of_mem hrow
  obtain ⟨x, hx, k1, _, _⟩ := LH.valid_of_validB hv
  have hcont : s.db.hasContainer hC.id = true := by rw [hid, ← k1]; exact h.good.db.inv.loopFK x hx
  have hL := wloopOf_mem_wcontOf s hC l hcont hv hid.symm fuel
  have hpk : storedPacket s.db l.cid l.loopNum row ∈ (wloopOf s l).packets := by
    rw [wloopOf_packets s h.good.db h.ac l hv hrows]
    exact List.mem_map.mpr ⟨row, hrow, rfl⟩
  exact walk_delivers_item (wcifOf s) hne B _ hB hin _ hL _ hpk k v (storedPacket_mem _ _ _ _ k v hk h.cell)

/-- an all-continue walk of a CIF without packet-less loops IS the full traversal of its event tree (gH's C14_all_continue) -/
theorem walk_allCont_full (c : WCif) (hc : noEmptyLoops c = true) : walk allCont c = (fullTraversal c, OK) := by
  rw [walk_eq_spec allCont c]
  simp only [walkSpec, fullTraversal, run_allCont _ _ (noFail_cif c hc), finalCode]
  simp [W.init]

/-- **cif_walk, positionally**: in a `Stored` state, for the node of the item's OWN container `hC` in the tree the walker builds, the loop
    node walk_loop shows for THIS loop handle is among that container's loops; it has one packet per row of the loop, and the packet at the
    position of THIS row answers `v` for item `k`; and the all-continue walk is the full depth-first traversal of that tree — so the
    item callbacks made for that packet of that loop of that container are exactly the packet's entries, (k, v) among them -/
theorem Stored.walkPos {s : Store} {cid : Nat} {k : Str} {row : Nat} {v : V} (h : Stored s cid k row v) (l : LH)
    (hl : HandleFor s.db l cid k) (fuel : Nat) (hC : CH) (hid : hC.id = cid) (hne : noEmptyLoops (wcifOf s) = true) :
    wloopOf s l ∈ (wcontOf s fuel hC).loops ∧
    (wloopOf s l).packets.length = (s.db.loopRows l.cid l.loopNum).length ∧
    (∃ (j : Nat) (p : List (Str × V)), (s.db.loopRows l.cid l.loopNum)[j]? = some row ∧ (wloopOf s l).packets[j]? = some p ∧
        pktGet p k = some v ∧ (k, v) ∈ p ∧ p.map (·.1) = (s.db.loopItems l.cid l.loopNum).map (·.name)) ∧
    walkStore allCont s = (fullTraversal (wcifOf s), OK) := by
  obtain ⟨hv, hc, hk⟩ := hl
  subst hc
  obtain ⟨w, hw, hwc, hwn, hwr, _⟩ := Codec.mem_of_cell s.db l.cid k row v h.cell
  have hrow : row ∈ s.db.loopRows l.cid l.loopNum := (mem_loopRows_iff _ _ _ _).mpr ⟨w, hw, hwc, by rw [hwn]; exact hk, hwr⟩
  have hrows : s.db.loopRows l.cid l.loopNum ≠ [] := List.ne_nil_of_mem hrow
  obtain ⟨x, hx, k1, _, _⟩ := LH.valid_of_validB hv
  have hcont : s.db.hasContainer hC.id = true := by rw [hid, ← k1]; exact h.good.db.inv.loopFK x hx
  have hpk := wloopOf_packets s h.good.db h.ac l hv hrows
  refine ⟨wloopOf_mem_wcontOf s hC l hcont hv hid.symm fuel, by rw [hpk]; exact List.length_map _, ?_, walk_allCont_full _ hne⟩
  obtain ⟨j, hj, hjr⟩ := List.mem_iff_getElem.mp hrow
  refine ⟨j, storedPacket s.db l.cid l.loopNum row, ?_, ?_, ?_, storedPacket_mem _ _ _ _ k v hk h.cell, storedPacket_keys _ _ _ _⟩
  · rw [List.getElem?_eq_getElem hj, hjr]
  · rw [hpk, List.getElem?_map, List.getElem?_eq_getElem hj, hjr]; rfl
  · rw [storedPacket_get _ _ _ _ _ hk, cellK_of_cell _ _ _ _ _ h.cell]

/-- a data block's node is a block of the tree the walker builds -/
theorem wcontOf_block_mem (s : Store) (hB : CH) (bs : List CH) (hbs : (allBlocks s).2 = .ok bs) (hm : hB ∈ bs) :
    wcontOf s (s.db.frames.length + 1) hB ∈ wcifOf s := by
  unfold wcifOf; rw [hbs]; exact List.mem_map.mpr ⟨hB, hm, rfl⟩

/-- one step down the container tree: a save frame the parent's cif_container_get_all_frames hands out -/
theorem wcontOf_frame_step (s : Store) (fuel : Nat) (hP hF : CH) (fs : List CH) (h : (allFrames s hP).2 = .ok fs) (hm : hF ∈ fs)
    {C : WCont} (hin : InCont C (wcontOf s fuel hF)) : InCont C (wcontOf s (fuel + 1) hP) := by
  unfold wcontOf
  rw [h]
  exact InCont.frame (List.mem_map.mpr ⟨hF, hm, rfl⟩) hin

/-- a chain of save frames below `p`: each one among the frames cif_container_get_all_frames reports for the one before -/
def FrameChain (s : Store) : CH → List CH → Prop
  | _, [] => True
  | p, f :: fs => (∃ l, (allFrames s p).2 = .ok l ∧ f ∈ l) ∧ FrameChain s f fs

/-- the node of the last frame of a chain lies in or below the node of the container the chain starts from (the walker's fuel permitting) -/
theorem inCont_of_chain (s : Store) (fuel : Nat) : ∀ (path : List CH) (p : CH), FrameChain s p path →
    InCont (wcontOf s fuel (path.getLast?.getD p)) (wcontOf s (fuel + path.length) p)
  | [], p, _ => InCont.here _
  | f :: fs, p, h => by
    obtain ⟨⟨l, hl, hm⟩, hrest⟩ := h
    have ih := inCont_of_chain s fuel fs f hrest
    have hlast : (f :: fs).getLast?.getD p = fs.getLast?.getD f := by
      cases fs with
      | nil => rfl
      | cons g gs =>
        simp only [List.getLast?_cons_cons]
        cases hg : (g :: gs).getLast? with
        | none => simp at hg
        | some z => rfl
    rw [hlast]
    have : fuel + (f :: fs).length = (fuel + fs.length) + 1 := by simp; omega
    rw [this]
    exact wcontOf_frame_step s _ p f l hl hm ih

end CifModel.Store
