import CifModel.Lemmas.LadderPacket
import CifModel.Lemmas.LadderSummary
import CifModel.Model.LadderHeader
/-
  CifModel.Lemmas.LadderHeader — parse_loop_header and the release of its name list (Model/LadderHeader).
-/
namespace CifModel.Lemmas.Ladder
open CifModel.Model.Ladder CifModel.Spec.HeapTrace

def hdrIds : List (Nat × Option Nat) → List Nat
  | [] => []
  | (nd, str) :: rest => nd :: (str.toList ++ hdrIds rest)

theorem hdrIds_append (a b : List (Nat × Option Nat)) : hdrIds (a ++ b) = hdrIds a ++ hdrIds b := by
  induction a with
  | nil => simp [hdrIds]
  | cons e es ih => obtain ⟨nd, str⟩ := e; simp [hdrIds, ih]

theorem freeHeader_spec : ∀ (done : List (Nat × Option Nat)) (s : St) (L : List Nat), Inv s (hdrIds done ++ L) →
    Inv (freeHeader done s) L ∧ Same s (freeHeader done s)
  | [], s, L, h => ⟨by simpa [hdrIds, freeHeader] using h, Same.refl s⟩
  | (nd, none) :: rest, s, L, h => by
    simp only [freeHeader]
    have h1 : Inv s (nd :: (hdrIds rest ++ L)) := by simpa [hdrIds] using h
    have ⟨f1, f2⟩ := freeHeader_spec rest _ L h1.free
    exact ⟨f1, ((Same.refl s).free _).trans f2⟩
  | (nd, some t) :: rest, s, L, h => by
    simp only [freeHeader]
    have h1 : Inv s (t :: nd :: (hdrIds rest ++ L)) := h.perm (by simp only [hdrIds]; perm_ac)
    have ⟨f1, f2⟩ := freeHeader_spec rest _ L h1.free.free
    exact ⟨f1, (((Same.refl s).free _).free _).trans f2⟩

theorem cmpEarlier_spec (k : Nat) : ∀ (m : Nat) (s : St) (L : List Nat), Inv s L →
    Inv (cmpEarlier k m s).2 L ∧
    (((cmpEarlier k m s).1 = true ∧ Good k (3 * m) s (cmpEarlier k m s).2) ∨
      ((cmpEarlier k m s).1 = false ∧ Bad k (3 * m) s (cmpEarlier k m s).2))
  | 0, s, L, h => ⟨h, .inl ⟨rfl, Good.refl k s⟩⟩
  | m + 1, s, L, h => by
    simp only [cmpEarlier]
    have hh := normalize_spec k s L h
    generalize normalize k s = r at hh ⊢
    obtain ⟨ro, rs⟩ := r
    rcases hh with ⟨b, h1, h2, h3⟩ | ⟨h1, h2, h3⟩ <;> simp only at h1 h2 h3 <;> subst h1 <;> simp only
    · have ⟨i1, o1⟩ := cmpEarlier_spec k m (free b rs) L h3.free
      refine ⟨i1, ?_⟩
      rcases o1 with ⟨e1, e2⟩ | ⟨e1, e2⟩
      · exact .inl ⟨e1, ((h2.free b).trans' e2 (by omega))⟩
      · exact .inr ⟨e1, (h2.free b).bad' e2 (by omega)⟩
    · exact ⟨h3, .inr ⟨by trivial, h2.mono (by omega)⟩⟩

/-- requests of the header loop for `n` further names when `m` names precede them -/
def hdrAllocs : Nat → Nat → Nat
  | 0, _ => 0
  | n + 1, m => 5 + 3 * m + hdrAllocs n (m + 1)

theorem headerNames_spec (k : Nat) : ∀ (n : Nat) (done : List (Nat × Option Nat)) (s : St) (L : List Nat),
    Inv s (hdrIds done ++ L) →
    Inv (headerNames k n done s).2.2 (hdrIds (headerNames k n done s).2.1 ++ L) ∧
    (((headerNames k n done s).1 = true ∧ Good k (hdrAllocs n done.length) s (headerNames k n done s).2.2) ∨
      ((headerNames k n done s).1 = false ∧ Bad k (hdrAllocs n done.length) s (headerNames k n done s).2.2))
  | 0, done, s, L, h => ⟨h, .inl ⟨rfl, Good.refl k s⟩⟩
  | n + 1, done, s, L, h => by
    simp only [headerNames, hdrAllocs]
    rcases alloc_cases k s with ⟨hk, ha⟩ | ⟨hk, ha⟩ <;> simp only [ha]
    · exact ⟨h.fail, .inr ⟨trivial, (Bad.alloc hk).mono (by omega)⟩⟩
    · have g1 := Good.alloc hk
      have i1 := h.alloc
      generalize ({ count := s.count + 1, evs := s.evs ++ [.alloc (s.count + 1)] } : St) = s1 at g1 i1 ⊢
      generalize s.count + 1 = nd at g1 i1 ⊢
      rcases alloc_cases k s1 with ⟨hk, ha⟩ | ⟨hk, ha⟩ <;> simp only [ha]
      · refine ⟨?_, .inr ⟨trivial, g1.bad' (Bad.alloc hk) (by omega)⟩⟩
        rw [hdrIds_append]
        exact i1.fail.perm (by simp only [hdrIds, Option.toList]; perm_ac)
      · have g2 := g1.trans (Good.alloc hk)
        have i2 : Inv { count := s1.count + 1, evs := s1.evs ++ [.alloc (s1.count + 1)] }
            (hdrIds (done ++ [(nd, some (s1.count + 1))]) ++ L) := by
          rw [hdrIds_append]
          exact i1.alloc.perm (by simp only [hdrIds, Option.toList]; perm_ac)
        generalize ({ count := s1.count + 1, evs := s1.evs ++ [.alloc (s1.count + 1)] } : St) = s2 at g2 i2 ⊢
        generalize s1.count + 1 = str at g2 i2 ⊢
        have hh := normalize_spec k s2 _ i2
        generalize normalize k s2 = r at hh ⊢
        obtain ⟨ro, s3⟩ := r
        rcases hh with ⟨nn, h1, h2, h3⟩ | ⟨h1, h2, h3⟩ <;> simp only at h1 h2 h3 <;> subst h1 <;> simp only
        · have g3 := g2.trans h2
          have ⟨c1, c2⟩ := cmpEarlier_spec k done.length s3 _ h3
          generalize cmpEarlier k done.length s3 = r at c1 c2 ⊢
          obtain ⟨ok, s4⟩ := r
          simp only at c1 c2
          rcases c2 with ⟨e1, e2⟩ | ⟨e1, e2⟩ <;> subst e1 <;> simp only
          · have ih := headerNames_spec k n (done ++ [(nd, some str)]) (free nn s4) L c1.free
            have hl : (done ++ [(nd, some str)]).length = done.length + 1 := by simp
            rw [hl] at ih
            refine ⟨ih.1, ?_⟩
            rcases ih.2 with ⟨f1, f2⟩ | ⟨f1, f2⟩
            · exact .inl ⟨f1, ((g3.trans e2).free nn).trans' f2 (by omega)⟩
            · exact .inr ⟨f1, ((g3.trans e2).free nn).bad' f2 (by omega)⟩
          · exact ⟨c1.free, .inr ⟨trivial, ((g3.bad e2).free nn).mono (by omega)⟩⟩
        · exact ⟨h3, .inr ⟨trivial, (g2.bad h2).mono (by omega)⟩⟩

/-- requests of `loopHeaderAbort` (fault-free): the n names, then node, string, normalised form of the repetition and
    (when there is an earlier name) the normalised form of the first name -/
def loopHeaderAllocs (n : Nat) : Nat := hdrAllocs n 0 + 5 + (if n = 0 then 0 else 3)

theorem loopHeaderAbort_spec (k n : Nat) (s : St) (L : List Nat) (h : Inv s L) :
    Inv (loopHeaderAbort k n s).2 L ∧
    (((loopHeaderAbort k n s).1 = (if n = 0 then OK else DUP_ITEMNAME) ∧ Good k (loopHeaderAllocs n) s (loopHeaderAbort k n s).2) ∨
      ((loopHeaderAbort k n s).1 = MEMORY_ERROR ∧ Bad k (loopHeaderAllocs n) s (loopHeaderAbort k n s).2)) := by
  simp only [loopHeaderAbort, loopHeaderAllocs]
  have ⟨a1, a2⟩ := headerNames_spec k n [] s L (by simpa [hdrIds] using h)
  simp only [List.length_nil] at a2
  generalize headerNames k n [] s = r at a1 a2 ⊢
  obtain ⟨ok, done, s1⟩ := r
  simp only at a1 a2
  rcases a2 with ⟨e1, g0⟩ | ⟨e1, b0⟩ <;> subst e1 <;> simp only
  · rcases alloc_cases k s1 with ⟨hk, ha⟩ | ⟨hk, ha⟩ <;> simp only [ha]
    · have ⟨f1, f2⟩ := freeHeader_spec done _ L a1.fail
      exact ⟨f1, .inr ⟨trivial, ((g0.bad (Bad.alloc hk)).same f2).mono (by omega)⟩⟩
    · have g1 := g0.trans (Good.alloc hk)
      have i1 := a1.alloc
      generalize ({ count := s1.count + 1, evs := s1.evs ++ [.alloc (s1.count + 1)] } : St) = s2 at g1 i1 ⊢
      generalize s1.count + 1 = nd at g1 i1 ⊢
      rcases alloc_cases k s2 with ⟨hk, ha⟩ | ⟨hk, ha⟩ <;> simp only [ha]
      · have i2 : Inv { count := s2.count + 1, evs := s2.evs ++ [.fail (s2.count + 1)] } (hdrIds (done ++ [(nd, none)]) ++ L) := by
          rw [hdrIds_append]; exact i1.fail.perm (by simp only [hdrIds, Option.toList]; perm_ac)
        have ⟨f1, f2⟩ := freeHeader_spec _ _ L i2
        exact ⟨f1, .inr ⟨trivial, ((g1.bad (Bad.alloc hk)).same f2).mono (by omega)⟩⟩
      · have g2 := g1.trans (Good.alloc hk)
        have i2 : Inv { count := s2.count + 1, evs := s2.evs ++ [.alloc (s2.count + 1)] }
            (hdrIds (done ++ [(nd, some (s2.count + 1))]) ++ L) := by
          rw [hdrIds_append]; exact i1.alloc.perm (by simp only [hdrIds, Option.toList]; perm_ac)
        generalize ({ count := s2.count + 1, evs := s2.evs ++ [.alloc (s2.count + 1)] } : St) = s3 at g2 i2 ⊢
        generalize s2.count + 1 = str at g2 i2 ⊢
        have hh := normalize_spec k s3 _ i2
        generalize normalize k s3 = r at hh ⊢
        obtain ⟨ro, s4⟩ := r
        rcases hh with ⟨nn, h1, h2, h3⟩ | ⟨h1, h2, h3⟩ <;> simp only at h1 h2 h3 <;> subst h1 <;> simp only
        · have g3 := g2.trans h2
          by_cases hn : n = 0
          · simp only [hn, if_true]
            have ⟨f1, f2⟩ := freeHeader_spec _ _ L h3.free
            refine ⟨f1, .inl ⟨trivial, ?_⟩⟩
            subst hn
            exact ((g3.free nn).same f2).trans' (Good.refl k _) (by simp [hdrAllocs])
          · simp only [hn, if_false]
            have hh := normalize_spec k s4 _ h3
            generalize normalize k s4 = r at hh ⊢
            obtain ⟨ro, s5⟩ := r
            rcases hh with ⟨o, j1, j2, j3⟩ | ⟨j1, j2, j3⟩ <;> simp only at j1 j2 j3 <;> subst j1 <;> simp only
            · have ⟨f1, f2⟩ := freeHeader_spec _ _ L j3.free.free
              exact ⟨f1, .inl ⟨trivial, ((((g3.trans j2).free o).free nn).same f2).trans' (Good.refl k _) (by omega)⟩⟩
            · have ⟨f1, f2⟩ := freeHeader_spec _ _ L j3.free
              exact ⟨f1, .inr ⟨trivial, (((g3.bad j2).free nn).same f2).mono (by omega)⟩⟩
        · have ⟨f1, f2⟩ := freeHeader_spec _ _ L h3
          exact ⟨f1, .inr ⟨trivial, ((g2.bad h2).same f2).mono (by omega)⟩⟩
  · have ⟨f1, f2⟩ := freeHeader_spec done _ L a1
    exact ⟨f1, .inr ⟨trivial, (b0.same f2).mono (by omega)⟩⟩

theorem DUP_ne_MEMORY_ERROR : DUP_ITEMNAME ≠ MEMORY_ERROR := by decide

theorem loopHeader_summary (k n : Nat) (hn : 0 < n) (s : St) (rest : List Nat) (hb : Balanced s.evs rest)
    (hc : ∀ i ∈ rest, i ≤ s.count) :
    Balanced (loopHeaderAbort k n s).2.evs rest ∧
    ((loopHeaderAbort k n s).1 = DUP_ITEMNAME ∨ (loopHeaderAbort k n s).1 = MEMORY_ERROR) ∧
    ((loopHeaderAbort k n s).1 = MEMORY_ERROR ↔ s.count < k ∧ k ≤ s.count + loopHeaderAllocs n) ∧
    ((loopHeaderAbort k n s).1 = MEMORY_ERROR →
        failIds (loopHeaderAbort k n s).2.evs = failIds s.evs ++ [k] ∧ (loopHeaderAbort k n s).2.count = k) ∧
    ((loopHeaderAbort k n s).1 = DUP_ITEMNAME → failIds (loopHeaderAbort k n s).2.evs = failIds s.evs ∧
        (loopHeaderAbort k n s).2.count = s.count + loopHeaderAllocs n) := by
  have hn0 : n ≠ 0 := by omega
  have ⟨h0, h1⟩ := loopHeaderAbort_spec k n s rest ⟨hb, hc⟩
  rw [if_neg hn0] at h1
  rcases h1 with ⟨e1, g⟩ | ⟨e1, b⟩
  · rw [e1]
    unfold Good at g
    exact ⟨h0.1, .inl rfl, ⟨fun h => absurd h DUP_ne_MEMORY_ERROR, fun h => absurd h g.2.1⟩,
      fun h => absurd h DUP_ne_MEMORY_ERROR, fun _ => ⟨g.2.2, g.1⟩⟩
  · rw [e1]
    unfold Bad at b
    exact ⟨h0.1, .inr rfl, ⟨fun _ => ⟨b.1, b.2.1⟩, fun _ => rfl⟩, fun _ => ⟨b.2.2.2, b.2.2.1⟩,
      fun h => absurd h DUP_ne_MEMORY_ERROR.symm⟩

-- ---------------------------------------------------------------------------------------------------------------
-- cif_container_get_all_loops

def countTrueB : List Bool → Nat
  | [] => 0
  | b :: bs => (if b then 1 else 0) + countTrueB bs

/-- requests of the row loop: a node per loop, a string per category -/
def allLoopsRowsAllocs (cats : List Bool) : Nat := cats.length + countTrueB cats

theorem allLoopsRows_spec (k : Nat) : ∀ (cats : List Bool) (done : List (Nat × Option Nat)) (s : St) (L : List Nat),
    Inv s (hdrIds done ++ L) →
    Inv (allLoopsRows k cats done s).2.2 (hdrIds (allLoopsRows k cats done s).2.1 ++ L) ∧
    (((allLoopsRows k cats done s).1 = true ∧ Good k (allLoopsRowsAllocs cats) s (allLoopsRows k cats done s).2.2) ∨
      ((allLoopsRows k cats done s).1 = false ∧ Bad k (allLoopsRowsAllocs cats) s (allLoopsRows k cats done s).2.2))
  | [], done, s, L, h => ⟨h, .inl ⟨rfl, Good.refl k s⟩⟩
  | c :: rest, done, s, L, h => by
    have hN : allLoopsRowsAllocs (c :: rest) = 1 + (if c then 1 else 0) + allLoopsRowsAllocs rest := by
      simp only [allLoopsRowsAllocs, List.length_cons, countTrueB]; omega
    rw [hN]
    simp only [allLoopsRows]
    rcases alloc_cases k s with ⟨hk, ha⟩ | ⟨hk, ha⟩ <;> simp only [ha]
    · exact ⟨h.fail, .inr ⟨trivial, (Bad.alloc hk).mono (by omega)⟩⟩
    · have g1 := Good.alloc hk
      have i1 := h.alloc
      generalize ({ count := s.count + 1, evs := s.evs ++ [.alloc (s.count + 1)] } : St) = s1 at g1 i1 ⊢
      generalize s.count + 1 = nd at g1 i1 ⊢
      cases c with
      | false =>
        simp only [Bool.false_eq_true, if_false]
        have i2 : Inv s1 (hdrIds (done ++ [(nd, none)]) ++ L) := by
          rw [hdrIds_append]; exact i1.perm (by simp only [hdrIds, Option.toList]; perm_ac)
        have ih := allLoopsRows_spec k rest (done ++ [(nd, none)]) s1 L i2
        refine ⟨ih.1, ?_⟩
        rcases ih.2 with ⟨f1, f2⟩ | ⟨f1, f2⟩
        · exact .inl ⟨f1, g1.trans' f2 (by omega)⟩
        · exact .inr ⟨f1, g1.bad' f2 (by omega)⟩
      | true =>
        simp only [if_true]
        rcases alloc_cases k s1 with ⟨hk, ha⟩ | ⟨hk, ha⟩ <;> simp only [ha]
        · refine ⟨?_, .inr ⟨trivial, g1.bad' (Bad.alloc hk) (by omega)⟩⟩
          rw [hdrIds_append]
          exact i1.fail.perm (by simp only [hdrIds, Option.toList]; perm_ac)
        · have g2 := g1.trans (Good.alloc hk)
          have i2 : Inv { count := s1.count + 1, evs := s1.evs ++ [.alloc (s1.count + 1)] }
              (hdrIds (done ++ [(nd, some (s1.count + 1))]) ++ L) := by
            rw [hdrIds_append]; exact i1.alloc.perm (by simp only [hdrIds, Option.toList]; perm_ac)
          have ih := allLoopsRows_spec k rest (done ++ [(nd, some (s1.count + 1))]) _ L i2
          refine ⟨ih.1, ?_⟩
          rcases ih.2 with ⟨f1, f2⟩ | ⟨f1, f2⟩
          · exact .inl ⟨f1, g2.trans' f2 (by omega)⟩
          · exact .inr ⟨f1, g2.bad' f2 (by omega)⟩

def getAllLoopsAllocs (cats : List Bool) : Nat := allLoopsRowsAllocs cats + 1

theorem getAllLoops_summary (k : Nat) (cats : List Bool) (s : St) (rest : List Nat) (hb : Balanced s.evs rest)
    (hc : ∀ i ∈ rest, i ≤ s.count) :
    Balanced (getAllLoops k cats s).2.2.evs
      ((match (getAllLoops k cats s).2.1 with | some (arr, nodes) => arr :: hdrIds nodes | none => []) ++ rest) ∧
    ((getAllLoops k cats s).1 = OK ∨ (getAllLoops k cats s).1 = MEMORY_ERROR) ∧
    ((getAllLoops k cats s).1 = OK ↔ (getAllLoops k cats s).2.1.isSome) ∧
    ((getAllLoops k cats s).1 = MEMORY_ERROR ↔ s.count < k ∧ k ≤ s.count + getAllLoopsAllocs cats) ∧
    ((getAllLoops k cats s).1 = MEMORY_ERROR →
        failIds (getAllLoops k cats s).2.2.evs = failIds s.evs ++ [k] ∧ (getAllLoops k cats s).2.2.count = k) ∧
    ((getAllLoops k cats s).1 = OK → failIds (getAllLoops k cats s).2.2.evs = failIds s.evs ∧
        (getAllLoops k cats s).2.2.count = s.count + getAllLoopsAllocs cats) := by
  simp only [getAllLoops, getAllLoopsAllocs]
  have ⟨a1, a2⟩ := allLoopsRows_spec k cats [] s rest (show Inv s (hdrIds [] ++ rest) from ⟨hb, hc⟩)
  generalize allLoopsRows k cats [] s = r at a1 a2 ⊢
  obtain ⟨ok, done, s1⟩ := r
  simp only at a1 a2
  rcases a2 with ⟨e1, g0⟩ | ⟨e1, b0⟩ <;> subst e1 <;> simp only
  · rcases alloc_cases k s1 with ⟨hk, ha⟩ | ⟨hk, ha⟩ <;> simp only [ha]
    · have ⟨f1, f2⟩ := freeHeader_spec done _ rest a1.fail
      have b := (g0.bad (Bad.alloc hk)).same f2
      unfold Bad at b
      exact ⟨by simpa using f1.1, .inr (by trivial), by simp [OK_ne_MEMORY_ERROR], ⟨fun _ => ⟨b.1, b.2.1⟩, fun _ => by trivial⟩,
        fun _ => ⟨b.2.2.2, b.2.2.1⟩, fun h => absurd h OK_ne_MEMORY_ERROR⟩
    · have g := g0.trans (Good.alloc hk)
      unfold Good at g
      exact ⟨a1.alloc.1, .inl (by trivial), by simp, ⟨fun h => absurd h OK_ne_MEMORY_ERROR.symm, fun h => absurd h g.2.1⟩,
        fun h => absurd h OK_ne_MEMORY_ERROR.symm, fun _ => ⟨g.2.2, g.1⟩⟩
  · have ⟨f1, f2⟩ := freeHeader_spec done _ rest a1
    have b := (b0.same f2).mono (Nat.le_succ _)
    unfold Bad at b
    exact ⟨by simpa using f1.1, .inr (by trivial), by simp [OK_ne_MEMORY_ERROR], ⟨fun _ => ⟨b.1, b.2.1⟩, fun _ => by trivial⟩,
      fun _ => ⟨b.2.2.2, b.2.2.1⟩, fun h => absurd h OK_ne_MEMORY_ERROR⟩

end CifModel.Lemmas.Ladder
