import CifModel.Lemmas.ParseCBSub
/-
  CifModel.Lemmas.ParseCBLayout — layout (the whitespace runs and comments in front of the tokens) changes nothing but the
  whitespace callbacks, and those follow the layout in order.

  Two runs of the parser model on token sequences with the same skeleton (`Skel`: same types, texts, decoded values — any
  layout in front of every token) are related by `Rel` all the way: same scanner flags, same `skip_depth`, same handler count,
  logs that agree on every callback other than whitespace callbacks (`LogRel`), and a ghost list `sc` of the tokens scanned
  so far — each with the `skip_depth` at the moment next_token scanned it — such that the whitespace callbacks of either run
  are exactly `segEvents depth pre` of those tokens, in order, and the scanned tokens are a prefix of the token sequence.
  Every production preserves the relation and returns the same result and the same content.
-/
set_option linter.unusedSimpArgs false
set_option linter.unusedVariables false

namespace CifModel.Lemmas.ParseCB
open CifModel.ParseCB

/-- the same token up to the layout in front of it -/
def Skel (t t' : Tok) : Prop := t.ty = t'.ty ∧ t.text = t'.text ∧ t.v = t'.v

/-- token sequences that differ in layout only -/
inductive SkelL : List Tok → List Tok → Prop
  | nil : SkelL [] []
  | cons {t t' : Tok} {r r' : List Tok} (h : Skel t t') : SkelL r r' → SkelL (t :: r) (t' :: r')

theorem SkelL.tail {a b : List Tok} (h : SkelL a b) : SkelL a.tail b.tail := by
  cases h with
  | nil => exact SkelL.nil
  | cons _ tl => exact tl

theorem SkelL.nil_left {a b : List Tok} (h : SkelL a b) (ha : a = []) : b = [] := by
  cases h with
  | nil => rfl
  | cons _ _ => cases ha

theorem SkelL.head {a b : List Tok} (h : SkelL a b) : Skel (a.headD default) (b.headD default) := by
  cases h with
  | nil => exact ⟨rfl, rfl, rfl⟩
  | cons hd _ => exact hd

theorem SkelL.length {a b : List Tok} (h : SkelL a b) : b.length = a.length := by
  induction h with
  | nil => rfl
  | cons _ _ ih => simp [ih]

/-- a whitespace / comment callback -/
def isWsEv : Ev → Bool
  | .ws _ => true
  | _ => false

/-- the program never asks to skip -/
def NoSkipP (p : Prog) : Prop := ∀ k e, p k e ≠ SKIP_CURRENT ∧ p k e ≠ SKIP_SIBLINGS

/-- two logs (newest callback first) that differ only in the layout reported: `sc` lists (newest first) the scans of next_token —
    `skip_depth` at that moment, the token of the first run, the token of the second -/
inductive LogRel : List (Int × Tok × Tok) → List Ev → List Ev → Prop
  | nil : LogRel [] [] []
  | ev {sc l l'} (e : Ev) (he : isWsEv e = false) : LogRel sc l l' → LogRel sc (e :: l) (e :: l')
  | scan {sc l l'} (d : Int) (t t' : Tok) : LogRel sc l l' →
      LogRel ((d, t, t') :: sc) ((segEvents d t.pre).reverse ++ l) ((segEvents d t'.pre).reverse ++ l')

/-- the tokens next_token has not scanned yet -/
def pend (s : St) : List Tok := if s.scanned then s.toks.tail else s.toks

/-- the relation between the two runs; `all`, `all'` = the two complete token sequences -/
structure Rel (p : Prog) (all all' : List Tok) (s s' : St) : Prop where
  toks : SkelL s.toks s'.toks
  scanned : s'.scanned = s.scanned
  skip : s'.skip = s.skip
  n : s'.n = s.n
  ghost : ∃ sc, LogRel sc s.log s'.log ∧ all = sc.reverse.map (·.2.1) ++ pend s ∧ all' = sc.reverse.map (·.2.2) ++ pend s'
    ∧ (NoSkipP p → s.skip ≤ 0 ∧ ∀ x ∈ sc, x.1 ≤ 0)

variable {p : Prog} {all all' : List Tok}

theorem Rel.skip_le {s s' : St} (h : Rel p all all' s s') (hp : NoSkipP p) : s.skip ≤ 0 := by
  obtain ⟨sc, _, _, _, h4⟩ := h.ghost
  exact (h4 hp).1

/-- a step that touches neither the tokens nor the scanner flag, adds a callback that is not a whitespace callback (or none),
    and sets the depth to a value that is not positive when the program never skips -/
theorem Rel.step {s s' : St} (h : Rel p all all' s s') (t t' : St)
    (htk : t.toks = s.toks) (htk' : t'.toks = s'.toks) (hsc : t.scanned = s.scanned) (hsc' : t'.scanned = s'.scanned)
    (hsk : t'.skip = t.skip) (hn : t'.n = t.n) (hle : NoSkipP p → t.skip ≤ 0)
    (hlog : (t.log = s.log ∧ t'.log = s'.log) ∨ ∃ e, isWsEv e = false ∧ t.log = e :: s.log ∧ t'.log = e :: s'.log) :
    Rel p all all' t t' := by
  obtain ⟨sc, g1, g2, g3, g4⟩ := h.ghost
  refine ⟨by rw [htk, htk']; exact h.toks, by rw [hsc, hsc']; exact h.scanned, hsk, hn, sc, ?_, ?_, ?_, ?_⟩
  · rcases hlog with ⟨a, b⟩ | ⟨e, he, a, b⟩
    · rw [a, b]; exact g1
    · rw [a, b]; exact LogRel.ev e he g1
  · rw [g2]; simp only [pend, htk, hsc]
  · rw [g3]; simp only [pend, htk', hsc']
  · intro hp; exact ⟨hle hp, (g4 hp).2⟩

theorem note_rel {s s' : St} (h : Rel p all all' s s') (e : Ev) (he : isWsEv e = false) :
    Rel p all all' (note s e) (note s' e) :=
  h.step _ _ rfl rfl rfl rfl h.skip h.n (fun hp => h.skip_le hp) (Or.inr ⟨e, he, rfl, rfl⟩)

theorem push_rel {s s' : St} (h : Rel p all all' s s') (e : Ev) (he : isWsEv e = false) :
    Rel p all all' (push s e) (push s' e) :=
  h.step _ _ rfl rfl rfl rfl h.skip (by simp [push, h.n]) (fun hp => h.skip_le hp) (Or.inr ⟨e, he, rfl, rfl⟩)

/-- assigning the depth -/
theorem withSkip_rel {s s' : St} (h : Rel p all all' s s') (d : Int) (hd : NoSkipP p → d ≤ 0) :
    Rel p all all' { s with skip := d } { s' with skip := d } :=
  h.step _ _ rfl rfl rfl rfl rfl h.n hd (Or.inl ⟨rfl, rfl⟩)

theorem inc_rel {s s' : St} (h : Rel p all all' s s') : Rel p all all' (inc s) (inc s') := by
  unfold inc
  rw [h.skip]
  by_cases hs : s.skip > 0
  · simp only [hs, if_true]
    exact withSkip_rel h _ (fun hp => by have := h.skip_le hp; omega)
  · simp only [hs, if_false]; exact h

theorem dec_rel {s s' : St} (h : Rel p all all' s s') : Rel p all all' (dec s) (dec s') := by
  unfold dec
  rw [h.skip]
  by_cases hs : s.skip > 0
  · simp only [hs, if_true]
    exact withSkip_rel h _ (fun hp => by have := h.skip_le hp; omega)
  · simp only [hs, if_false]; exact h

theorem setSkip_rel {s s' : St} (h : Rel p all all' s s') (d : Option Int) (hno : ¬ NoSkipP p) :
    Rel p all all' (setSkip s d) (setSkip s' d) := by
  cases d with
  | none => exact h
  | some d => exact withSkip_rel h d (fun hp => absurd hp hno)

/-- a handler call site -/
theorem site_rel {s s' : St} (h : Rel p all all' s s') (e : Ev) (he : isWsEv e = false) (cur sib : Option Int) :
    (site p s' e cur sib).1 = (site p s e cur sib).1 ∧ Rel p all all' (site p s e cur sib).2 (site p s' e cur sib).2 := by
  unfold site
  rw [h.n]
  by_cases h1 : p s.n e = CONTINUE
  · simp only [h1, if_true]; exact ⟨trivial, push_rel h e he⟩
  · simp only [h1, if_false]
    by_cases h2 : p s.n e = SKIP_CURRENT
    · simp only [h2, if_true]
      exact ⟨trivial, setSkip_rel (push_rel h e he) cur (fun hp => (hp s.n e).1 h2)⟩
    · simp only [h2, if_false]
      by_cases h3 : p s.n e = SKIP_SIBLINGS
      · simp only [h3, if_true]
        exact ⟨trivial, setSkip_rel (push_rel h e he) sib (fun hp => (hp s.n e).2 h3)⟩
      · simp only [h3, if_false]; exact ⟨trivial, push_rel h e he⟩

theorem cur_rel {s s' : St} (h : Rel p all all' s s') : (cur s').text = (cur s).text ∧ (cur s').v = (cur s).v := by
  unfold cur
  exact ⟨h.toks.head.2.1.symm, h.toks.head.2.2.symm⟩

/-- next_token -/
theorem nextToken_rel {s s' : St} (h : Rel p all all' s s') :
    (nextToken s').1 = (nextToken s).1 ∧ Rel p all all' (nextToken s).2 (nextToken s').2 := by
  obtain ⟨sc, g1, g2, g3, g4⟩ := h.ghost
  have ht := h.toks
  unfold nextToken
  generalize hts : s.toks = ts at ht
  generalize hts' : s'.toks = ts' at ht
  cases ht with
  | nil => exact ⟨rfl, h⟩
  | @cons t t' r r' hd htl =>
    dsimp only
    rw [h.scanned]
    by_cases hsc : s.scanned = true
    · simp only [hsc, if_true]; exact ⟨hd.1.symm, h⟩
    · have hsc0 : s.scanned = false := by simpa using hsc
      have hsc0' : s'.scanned = false := by rw [h.scanned]; exact hsc0
      simp only [hsc0, Bool.false_eq_true, if_false]
      refine ⟨hd.1.symm, ?_⟩
      obtain ⟨a1, a2, a3, a4, a5⟩ := reportPre_spec t.pre s
      obtain ⟨b1, b2, b3, b4, b5⟩ := reportPre_spec t'.pre s'
      refine ⟨?_, rfl, ?_, ?_, (s.skip, t, t') :: sc, ?_, ?_, ?_, ?_⟩
      · show SkelL (reportPre t.pre s).toks (reportPre t'.pre s').toks
        rw [a4, b4, hts, hts']; exact SkelL.cons hd htl
      · show (reportPre t'.pre s').skip = (reportPre t.pre s).skip
        rw [a2, b2]; exact h.skip
      · show (reportPre t'.pre s').n = (reportPre t.pre s).n
        rw [a3, b3]; exact h.n
      · show LogRel _ (reportPre t.pre s).log (reportPre t'.pre s').log
        rw [a1, b1, h.skip]; exact LogRel.scan s.skip t t' g1
      · show all = _ ++ pend { reportPre t.pre s with scanned := true }
        rw [g2]
        simp only [pend, hsc0, Bool.false_eq_true, if_false, if_true, a4, hts, List.tail_cons, List.reverse_cons, List.map_append,
          List.map_cons, List.map_nil, List.append_assoc, List.cons_append, List.nil_append]
      · show all' = _ ++ pend { reportPre t'.pre s' with scanned := true }
        rw [g3]
        simp only [pend, hsc0', Bool.false_eq_true, if_false, if_true, b4, hts', List.tail_cons, List.reverse_cons, List.map_append,
          List.map_cons, List.map_nil, List.append_assoc, List.cons_append, List.nil_append]
      · intro hp
        show (reportPre t.pre s).skip ≤ 0 ∧ _
        rw [a2]
        refine ⟨(g4 hp).1, ?_⟩
        intro x hx
        rcases List.mem_cons.mp hx with rfl | hx
        · exact (g4 hp).1
        · exact (g4 hp).2 x hx

@[simp] theorem nextToken_scanned_or (s : St) : (nextToken s).2.scanned = true ∨ (nextToken s).2.toks = [] := by
  unfold nextToken
  split
  · right; assumption
  · split
    · left; assumption
    · left; rfl

/-- CONSUME_TOKEN of a token that next_token has delivered -/
theorem consume_rel {s s' : St} (h : Rel p all all' s s') (hs : s.scanned = true ∨ s.toks = []) :
    Rel p all all' (consume s) (consume s') := by
  obtain ⟨sc, g1, g2, g3, g4⟩ := h.ghost
  have hs' : s'.scanned = true ∨ s'.toks = [] := by
    rcases hs with hs | hs
    · left; rw [h.scanned]; exact hs
    · right; exact h.toks.nil_left hs
  refine ⟨?_, rfl, h.skip, h.n, sc, g1, ?_, ?_, g4⟩
  · exact h.toks.tail
  · rw [g2]
    show _ ++ pend s = _ ++ pend (consume s)
    congr 1
    unfold pend consume
    rcases hs with hs | hs
    · simp [hs]
    · simp [hs]
  · rw [g3]
    show _ ++ pend s' = _ ++ pend (consume s')
    congr 1
    unfold pend consume
    rcases hs' with hs | hs
    · simp [hs]
    · simp [hs]

macro "tr" : tactic => `(tactic| first | trivial | rfl)

/-- next_token followed by CONSUME_TOKEN -/
theorem consume_next_rel {s s' : St} (h : Rel p all all' s s') :
    Rel p all all' (consume (nextToken s).2) (consume (nextToken s').2) :=
  consume_rel (nextToken_rel h).2 (nextToken_scanned_or s)

-- ---- values ---------------------------------------------------------------------------------------------------------

theorem value_rel : ∀ (fuel : Nat),
    (∀ s s', Rel p all all' s s' → (parseValue fuel s').1 = (parseValue fuel s).1 ∧ (parseValue fuel s').2.1 = (parseValue fuel s).2.1
        ∧ Rel p all all' (parseValue fuel s).2.2 (parseValue fuel s').2.2)
    ∧ (∀ s s' acc, Rel p all all' s s' → (listLoop fuel s' acc).1 = (listLoop fuel s acc).1 ∧ (listLoop fuel s' acc).2.1 = (listLoop fuel s acc).2.1
        ∧ Rel p all all' (listLoop fuel s acc).2.2 (listLoop fuel s' acc).2.2)
    ∧ (∀ s s' acc, Rel p all all' s s' → (tableLoop fuel s' acc).1 = (tableLoop fuel s acc).1 ∧ (tableLoop fuel s' acc).2.1 = (tableLoop fuel s acc).2.1
        ∧ Rel p all all' (tableLoop fuel s acc).2.2 (tableLoop fuel s' acc).2.2)
  | 0 => by
    refine ⟨fun s s' h => ?_, fun s s' acc h => ?_, fun s s' acc h => ?_⟩ <;> simp only [parseValue, listLoop, tableLoop] <;> exact ⟨(by tr), (by tr), h⟩
  | fuel + 1 => by
    obtain ⟨ihv, ihl, iht⟩ := value_rel fuel
    refine ⟨?_, ?_, ?_⟩
    · intro s s' h
      obtain ⟨n1, n2⟩ := nextToken_rel h
      have hc := consume_next_rel h
      have hcur := cur_rel n2
      simp only [parseValue]
      rw [n1]
      cases hty : (nextToken s).1 <;> dsimp only
      case olist =>
        obtain ⟨a, b, c⟩ := ihl _ _ [] hc
        exact ⟨a, by rw [b], c⟩
      case otable =>
        obtain ⟨a, b, c⟩ := iht _ _ [] hc
        exact ⟨a, by rw [b], c⟩
      case tvalue => exact ⟨(by tr), hcur.2, hc⟩
      case qvalue => exact ⟨(by tr), hcur.2, hc⟩
      case value => exact ⟨(by tr), hcur.2, hc⟩
      all_goals exact ⟨(by tr), (by tr), n2⟩
    · intro s s' acc h
      obtain ⟨n1, n2⟩ := nextToken_rel h
      have hc := consume_next_rel h
      simp only [listLoop]
      rw [n1]
      by_cases hv : isValueStart (nextToken s).1 = true
      · simp only [hv, if_true]
        obtain ⟨a, b, c⟩ := ihv _ _ n2
        rw [a, b]
        by_cases hok : (parseValue fuel (nextToken s).2).1 = OK
        · simp only [hok, if_true]; exact ihl _ _ _ c
        · simp only [hok, if_false]; exact ⟨(by tr), (by tr), c⟩
      · simp only [hv, Bool.false_eq_true, if_false]
        by_cases hcl : (nextToken s).1 = TokType.clist
        · simp only [hcl, if_true]; exact ⟨(by tr), (by tr), hc⟩
        · simp only [hcl, if_false]; exact ⟨(by tr), (by tr), n2⟩
    · intro s s' acc h
      obtain ⟨n1, n2⟩ := nextToken_rel h
      have hc := consume_next_rel h
      have hcur := cur_rel n2
      obtain ⟨m1, m2⟩ := nextToken_rel hc
      simp only [tableLoop]
      rw [n1]
      by_cases hk : (nextToken s).1 = TokType.key
      · simp only [hk, if_true]
        rw [m1]
        by_cases hv : isValueStart (nextToken (consume (nextToken s).2)).1 = true
        · simp only [hv, if_true]
          obtain ⟨a, b, c⟩ := ihv _ _ m2
          rw [a, b, hcur.1]
          by_cases hok : (parseValue fuel (nextToken (consume (nextToken s).2)).2).1 = OK
          · simp only [hok, if_true]; exact iht _ _ _ c
          · simp only [hok, if_false]; exact ⟨(by tr), (by tr), c⟩
        · simp only [hv, Bool.false_eq_true, if_false]; exact ⟨(by tr), (by tr), m2⟩
      · simp only [hk, if_false]
        by_cases hcl : (nextToken s).1 = TokType.ctable
        · simp only [hcl, if_true]; exact ⟨(by tr), (by tr), hc⟩
        · simp only [hcl, if_false]; exact ⟨(by tr), (by tr), n2⟩

theorem pv_rel (fuel : Nat) {s s' : St} (h : Rel p all all' s s') :
    (parseValue fuel s').1 = (parseValue fuel s).1 ∧ (parseValue fuel s').2.1 = (parseValue fuel s).2.1
      ∧ Rel p all all' (parseValue fuel s).2.2 (parseValue fuel s').2.2 :=
  (value_rel fuel).1 s s' h

-- ---- items ----------------------------------------------------------------------------------------------------------

theorem item_rel (fuel : Nat) (cont : Bool) (name : Option Str) {s s' : St} (h : Rel p all all' s s') :
    (parseItem p fuel cont name s').1 = (parseItem p fuel cont name s).1
    ∧ Rel p all all' (parseItem p fuel cont name s).2.1 (parseItem p fuel cont name s').2.1
    ∧ (parseItem p fuel cont name s').2.2 = (parseItem p fuel cont name s).2.2 := by
  obtain ⟨n1, n2⟩ := nextToken_rel h
  have hi := inc_rel n2
  obtain ⟨a, b, c⟩ := pv_rel fuel hi
  unfold parseItem
  simp only [n1]
  by_cases h1 : (!isValueStart (nextToken s).1) = true
  · simp only [h1, if_true]; exact ⟨(by tr), dec_rel hi, (by tr)⟩
  · simp only [h1, Bool.false_eq_true, if_false]
    rw [a]
    by_cases h2 : (parseValue fuel (inc (nextToken s).2)).1 = OK
    · simp only [h2, if_true]
      cases name with
      | none => exact ⟨(by tr), dec_rel c, (by tr)⟩
      | some nm =>
        dsimp only
        simp only [scalarItemStep, b, c.n]
        obtain ⟨q1, q2⟩ := site_rel c (.item nm (parseValue fuel (inc (nextToken s).2)).2.1) rfl none (some 2)
        exact ⟨q1, dec_rel q2, (by tr)⟩
    · simp only [h2, if_false]; exact ⟨(by tr), dec_rel c, (by tr)⟩

-- ---- loops ----------------------------------------------------------------------------------------------------------

theorem header_rel : ∀ (fuel : Nat) (s s' : St) (acc : List Str), Rel p all all' s s' →
    (headerLoop fuel s' acc).1 = (headerLoop fuel s acc).1 ∧ (headerLoop fuel s' acc).2.1 = (headerLoop fuel s acc).2.1
    ∧ Rel p all all' (headerLoop fuel s acc).2.2 (headerLoop fuel s' acc).2.2
  | 0, s, s', acc, h => ⟨rfl, rfl, h⟩
  | fuel + 1, s, s', acc, h => by
    obtain ⟨n1, n2⟩ := nextToken_rel h
    have hcur := cur_rel n2
    simp only [headerLoop]
    rw [n1, n2.skip, hcur.1]
    by_cases hn : (nextToken s).1 = TokType.name
    · simp only [hn, if_true]
      by_cases hk : (nextToken s).2.skip ≤ 0
      · simp only [hk, if_true]
        exact header_rel fuel _ _ _ (consume_rel (note_rel n2 _ rfl) (nextToken_scanned_or s))
      · simp only [hk, if_false]
        exact header_rel fuel _ _ _ (consume_rel n2 (nextToken_scanned_or s))
    · simp only [hn, if_false]; exact ⟨(by tr), (by tr), n2⟩

theorem pktStart_rel {s s' : St} (h : Rel p all all' s s') :
    (pktStartStep p s').1 = (pktStartStep p s).1 ∧ Rel p all all' (pktStartStep p s).2 (pktStartStep p s').2 := by
  unfold pktStartStep
  rw [h.skip]
  by_cases hs : s.skip > 0
  · simp only [hs, if_true]
    exact ⟨(by tr), withSkip_rel h _ (fun hp => by have := h.skip_le hp; omega)⟩
  · simp only [hs, if_false]; exact site_rel h _ rfl _ _

theorem itemStep_rel (nm : Str) (r : Int) (v : V) {s s' : St} (h : Rel p all all' s s') :
    (itemStep p nm r v s').1 = (itemStep p nm r v s).1 ∧ Rel p all all' (itemStep p nm r v s).2 (itemStep p nm r v s').2 := by
  unfold itemStep
  rw [h.skip]
  by_cases hc : r = OK ∧ s.skip ≤ 0
  · simp only [hc, and_self, if_true]; exact site_rel h _ rfl _ _
  · simp only [hc, if_false]; exact ⟨(by tr), h⟩

theorem pktEnd_rel (items : List (Str × V)) {s s' : St} (h : Rel p all all' s s') :
    (pktEndStep p items s').1 = (pktEndStep p items s).1 ∧ Rel p all all' (pktEndStep p items s).2.1 (pktEndStep p items s').2.1
    ∧ (pktEndStep p items s').2.2 = (pktEndStep p items s).2.2 := by
  unfold pktEndStep
  rw [h.skip]
  by_cases hs : s.skip > 0
  · simp only [hs, if_true]
    exact ⟨(by tr), withSkip_rel h _ (fun hp => by have := h.skip_le hp; omega), (by tr)⟩
  · simp only [hs, if_false]
    rw [h.n]
    obtain ⟨q1, q2⟩ := site_rel h (.pktEnd items) rfl none (some 1)
    exact ⟨q1, q2, (by tr)⟩

theorem packets_rel (loopH : Bool) (names : List Str) : ∀ (fuel : Nat) (s s' : St) (k : PkSt), Rel p all all' s s' →
    (packetsLoop p loopH names fuel s' k).1 = (packetsLoop p loopH names fuel s k).1
    ∧ Rel p all all' (packetsLoop p loopH names fuel s k).2.1 (packetsLoop p loopH names fuel s' k).2.1
    ∧ (packetsLoop p loopH names fuel s' k).2.2 = (packetsLoop p loopH names fuel s k).2.2
  | 0, s, s', k, h => ⟨rfl, h, rfl⟩
  | fuel + 1, s, s', k, h => by
    have ih := packets_rel loopH names fuel
    obtain ⟨n1, n2⟩ := nextToken_rel h
    unfold packetsLoop
    simp only [n1]
    by_cases hval : isValueStart (nextToken s).1 = true
    · simp only [hval, if_true]
      have hs1 : (if k.col = 0 then pktStartStep p (nextToken s').2 else (OK, (nextToken s').2)).1
            = (if k.col = 0 then pktStartStep p (nextToken s).2 else (OK, (nextToken s).2)).1
          ∧ Rel p all all' (if k.col = 0 then pktStartStep p (nextToken s).2 else (OK, (nextToken s).2)).2
              (if k.col = 0 then pktStartStep p (nextToken s').2 else (OK, (nextToken s').2)).2 := by
        by_cases h0 : k.col = 0
        · simp only [h0, if_true]; exact pktStart_rel n2
        · simp only [h0, if_false]; exact ⟨(by tr), n2⟩
      generalize (if k.col = 0 then pktStartStep p (nextToken s).2 else (OK, (nextToken s).2)) = s1 at hs1 ⊢
      generalize (if k.col = 0 then pktStartStep p (nextToken s').2 else (OK, (nextToken s').2)) = s1' at hs1 ⊢
      obtain ⟨e1, e2⟩ := hs1
      rw [e1]
      by_cases h1 : s1.1 = OK
      · simp only [h1, ne_eq, not_true_eq_false, if_false]
        obtain ⟨a, b, c⟩ := pv_rel fuel e2
        rw [a, b]
        obtain ⟨i1, i2⟩ := itemStep_rel (p := p) (names.getD k.col []) (parseValue fuel s1.2).1 (parseValue fuel s1.2).2.1 c
        generalize itemStep p (names.getD k.col []) (parseValue fuel s1.2).1 (parseValue fuel s1.2).2.1 (parseValue fuel s1.2).2.2 = it at i1 i2 ⊢
        generalize itemStep p (names.getD k.col []) (parseValue fuel s1.2).1 (parseValue fuel s1.2).2.1 (parseValue fuel s1'.2).2.2 = it' at i1 i2 ⊢
        rw [i1]
        by_cases h2 : it.1 = OK
        · simp only [h2, not_true_eq_false, if_false]
          by_cases hcol : (k.col + 1) % names.length = 0
          · simp only [hcol, if_true]
            obtain ⟨pe1, pe2, pe3⟩ := pktEnd_rel (p := p) (List.zip names (k.row ++ [(parseValue fuel s1.2).2.1])) i2
            generalize pktEndStep p (List.zip names (k.row ++ [(parseValue fuel s1.2).2.1])) it.2 = pe at pe1 pe2 pe3 ⊢
            generalize pktEndStep p (List.zip names (k.row ++ [(parseValue fuel s1.2).2.1])) it'.2 = pe' at pe1 pe2 pe3 ⊢
            rw [pe1, pe3]
            by_cases h3 : pe.1 = OK
            · simp only [h3, not_true_eq_false, if_false]
              exact ih _ _ _ pe2
            · simp only [h3, not_false_eq_true, if_true]; exact ⟨(by tr), pe2, (by tr)⟩
          · simp only [hcol, if_false]
            exact ih _ _ _ i2
        · simp only [h2, not_false_eq_true, if_true]; exact ⟨(by tr), i2, (by tr)⟩
      · simp only [h1, ne_eq, not_false_eq_true, if_true]; exact ⟨(by tr), e2, (by tr)⟩
    · simp only [hval, Bool.false_eq_true, if_false]
      split
      · exact ⟨rfl, n2, rfl⟩
      · split
        · exact ⟨rfl, n2, rfl⟩
        · split
          · exact ⟨rfl, n2, rfl⟩
          · exact ⟨rfl, n2, rfl⟩

theorem loopStart_rel (cont : Bool) (names : List Str) {s s' : St} (h : Rel p all all' s s') :
    (loopStartStep p cont names s').1 = (loopStartStep p cont names s).1
    ∧ Rel p all all' (loopStartStep p cont names s).2.1 (loopStartStep p cont names s').2.1
    ∧ (loopStartStep p cont names s').2.2 = (loopStartStep p cont names s).2.2 := by
  unfold loopStartStep
  rw [h.skip, h.n]
  by_cases hs : s.skip ≤ 0
  · simp only [hs, if_true]
    obtain ⟨q1, q2⟩ := site_rel h (.loopStart names) rfl (some 1) (some 2)
    exact ⟨q1, q2, by rw [q1]⟩
  · simp only [hs, if_false]; exact ⟨(by tr), h, (by tr)⟩

theorem loopEnd_rel (hd : Option (List Str)) (r : Int) {s s' : St} (h : Rel p all all' s s') :
    (loopEndStep p hd r s').1 = (loopEndStep p hd r s).1 ∧ Rel p all all' (loopEndStep p hd r s).2 (loopEndStep p hd r s').2 := by
  unfold loopEndStep
  rw [h.skip]
  by_cases hs : s.skip > 0
  · simp only [hs, if_true]
    exact ⟨(by tr), withSkip_rel h _ (fun hp => by have := h.skip_le hp; omega)⟩
  · simp only [hs, if_false]
    by_cases hr : r = OK
    · simp only [hr, if_true]; exact site_rel h _ rfl _ _
    · simp only [hr, if_false]; exact ⟨(by tr), h⟩

theorem loop_rel (fuel : Nat) (cont : Bool) {s s' : St} (h : Rel p all all' s s') :
    (parseLoop p fuel cont s').1 = (parseLoop p fuel cont s).1
    ∧ Rel p all all' (parseLoop p fuel cont s).2.1 (parseLoop p fuel cont s').2.1
    ∧ (parseLoop p fuel cont s').2.2 = (parseLoop p fuel cont s).2.2 := by
  obtain ⟨a, b, c⟩ := header_rel fuel _ _ [] (inc_rel h)
  unfold parseLoop
  generalize headerLoop fuel (inc s) [] = hd at a b c ⊢
  generalize headerLoop fuel (inc s') [] = hd' at a b c ⊢
  simp only [a, b]
  by_cases h1 : hd.1 = OK
  · simp only [h1, ne_eq, not_true_eq_false, if_false]
    by_cases h2 : hd.2.1.isEmpty = true
    · simp only [h2, if_true]
      obtain ⟨q1, q2⟩ := loopEnd_rel (p := p) none MALFORMED c
      exact ⟨q1, q2, (by tr)⟩
    · simp only [h2, Bool.false_eq_true, if_false]
      obtain ⟨e1, e2, e3⟩ := loopStart_rel (p := p) cont hd.2.1 c
      generalize loopStartStep p cont hd.2.1 hd.2.2 = ls at e1 e2 e3 ⊢
      generalize loopStartStep p cont hd.2.1 hd'.2.2 = ls' at e1 e2 e3 ⊢
      rw [e3, e1]
      by_cases h3 : ls.2.2.2 = true
      · simp only [h3, if_true]
        obtain ⟨k1, k2, k3⟩ := packets_rel (p := p) ls.2.2.1 hd.2.1 fuel _ _ { col := 0, row := [], havePk := false, stored := [] } e2
        rw [k1, k3]
        obtain ⟨q1, q2⟩ := loopEnd_rel (p := p) (if ls.2.2.1 = true then some hd.2.1 else none)
          (packetsLoop p ls.2.2.1 hd.2.1 fuel ls.2.1 { col := 0, row := [], havePk := false, stored := [] }).1 k2
        exact ⟨q1, q2, (by tr)⟩
      · simp only [h3, Bool.false_eq_true, if_false]
        obtain ⟨q1, q2⟩ := loopEnd_rel (p := p) (if ls.2.2.1 = true then some hd.2.1 else none) ls.1 e2
        exact ⟨q1, q2, (by tr)⟩
  · simp only [h1, ne_eq, not_false_eq_true, if_true]
    obtain ⟨q1, q2⟩ := loopEnd_rel (p := p) none hd.1 c
    exact ⟨q1, q2, (by tr)⟩

-- ---- containers -----------------------------------------------------------------------------------------------------

theorem contStart_rel (cont isBlock : Bool) (code : Str) {s s' : St} (h : Rel p all all' s s') :
    (contStartStep p cont isBlock code s').1 = (contStartStep p cont isBlock code s).1
    ∧ Rel p all all' (contStartStep p cont isBlock code s).2 (contStartStep p cont isBlock code s').2 := by
  unfold contStartStep
  rw [h.skip]
  by_cases hs : s.skip > 0
  · simp only [hs, if_true]; exact ⟨(by tr), inc_rel h⟩
  · simp only [hs, if_false]
    exact site_rel h _ (by cases isBlock <;> rfl) _ _

theorem containerEnd_rel (cont isBlock : Bool) (code : Str) (r : Int) (c : Content) {s s' : St} (h : Rel p all all' s s') :
    (containerEnd p cont isBlock code r s' c).1 = (containerEnd p cont isBlock code r s c).1
    ∧ Rel p all all' (containerEnd p cont isBlock code r s c).2.1 (containerEnd p cont isBlock code r s' c).2.1
    ∧ (containerEnd p cont isBlock code r s' c).2.2 = (containerEnd p cont isBlock code r s c).2.2 := by
  have hd := dec_rel h
  unfold containerEnd
  rw [hd.skip]
  by_cases hc : r = OK ∧ (dec s).skip ≤ 0
  · simp only [hc, and_self, if_true]
    obtain ⟨q1, q2⟩ := site_rel hd (if isBlock then Ev.blockEnd (if cont then some code else none)
      else Ev.frameEnd (if cont then some code else none)) (by cases isBlock <;> rfl) none (some 1)
    exact ⟨q1, q2, (by tr)⟩
  · simp only [hc, if_false]; exact ⟨(by tr), hd, (by tr)⟩

/-- the three outputs of a production agree up to layout -/
def Out3 {α : Type} (p : Prog) (all all' : List Tok) (x x' : Int × St × α) : Prop :=
  x'.1 = x.1 ∧ Rel p all all' x.2.1 x'.2.1 ∧ x'.2.2 = x.2.2

/-- sequencing: an element production, then the rest of the loop -/
theorem seq_rel {α : Type} (x1 x1' : Int) (xs xs' : St) (c : α) (rest rest' : Int × St × α)
    (h1 : x1' = x1) (hs : Rel p all all' xs xs') (hrest : x1 = OK → Out3 p all all' rest rest') :
    Out3 p all all' (if x1 = OK then rest else (x1, xs, c)) (if x1' = OK then rest' else (x1', xs', c)) := by
  rw [h1]
  by_cases h : x1 = OK
  · simp only [h, if_true]; exact hrest h
  · simp only [h, if_false]; exact ⟨rfl, hs, rfl⟩

theorem container_rel (m : Int) : ∀ (fuel : Nat),
    (∀ cont isBlock code s s', Rel p all all' s s' →
      Out3 p all all' (parseContainer p m fuel cont isBlock code s) (parseContainer p m fuel cont isBlock code s'))
    ∧ (∀ cont isBlock s s' c, Rel p all all' s s' →
      Out3 p all all' (elemsLoop p m fuel cont isBlock s c) (elemsLoop p m fuel cont isBlock s' c))
  | 0 => by
    constructor
    · intro cont isBlock code s s' h; simp only [parseContainer]; exact ⟨rfl, h, rfl⟩
    · intro cont isBlock s s' c h; simp only [elemsLoop]; exact ⟨rfl, h, rfl⟩
  | fuel + 1 => by
    obtain ⟨ihc, ihe⟩ := container_rel m fuel
    constructor
    · intro cont isBlock code s s' h
      obtain ⟨a1, a2⟩ := contStart_rel (p := p) cont isBlock code h
      unfold parseContainer
      generalize contStartStep p cont isBlock code s = st at a1 a2 ⊢
      generalize contStartStep p cont isBlock code s' = st' at a1 a2 ⊢
      simp only [a1]
      by_cases h1 : st.1 = OK
      · simp only [h1, ne_eq, not_true_eq_false, if_false]
        obtain ⟨e1, e2, e3⟩ := ihe cont isBlock st.2 st'.2 Content.empty a2
        rw [e1, e3]
        exact containerEnd_rel cont isBlock code _ _ e2
      · simp only [h1, ne_eq, not_false_eq_true, if_true]
        exact containerEnd_rel cont isBlock code _ _ a2
    · intro cont isBlock s0 s0' c h
      obtain ⟨n1, n2⟩ := nextToken_rel h
      have hsc := nextToken_scanned_or s0
      have hcur := cur_rel n2
      have hskip := n2.skip
      unfold elemsLoop
      generalize nextToken s0 = nt at n1 n2 hsc hcur hskip ⊢
      generalize nextToken s0' = nt' at n1 n2 hcur hskip ⊢
      rcases nt with ⟨ty, s⟩
      rcases nt' with ⟨ty', s'⟩
      dsimp only at n1 n2 hsc hcur hskip ⊢
      subst n1
      rw [hcur.1, hskip]
      cases ty' <;> dsimp only
      case blockHead => cases isBlock <;> exact ⟨rfl, n2, rfl⟩
      case frameHead =>
        by_cases hcond : (!cont ∨ s.skip > 0)
        · simp only [hcond, if_true]
          obtain ⟨f1, f2, f3⟩ := ihc false false (cur s).text _ _ (consume_rel n2 hsc)
          exact seq_rel _ _ _ _ _ _ _ f1 f2 (fun _ => ihe cont isBlock _ _ c f2)
        · simp only [hcond, if_false]
          by_cases hm0 : m = 0
          · simp only [hm0, if_true]; exact ⟨rfl, n2, rfl⟩
          · simp only [hm0, if_false]
            by_cases hm1 : m = 1 ∧ (!isBlock) = true
            · simp only [hm1, and_self, if_true]; exact ⟨rfl, n2, rfl⟩
            · simp only [hm1, if_false]
              obtain ⟨f1, f2, f3⟩ := ihc true false (cur s).text _ _ (consume_rel n2 hsc)
              rw [f3]
              exact seq_rel _ _ _ _ _ _ _ f1 f2 (fun _ => ihe cont isBlock _ _ _ f2)
      case frameTerm => cases isBlock <;> exact ⟨rfl, consume_rel n2 hsc, rfl⟩
      case loopKw =>
        have hs1 : Rel p all all' (consume (if s.skip ≤ 0 then note s (Ev.keyword (cur s).text) else s))
            (consume (if s.skip ≤ 0 then note s' (Ev.keyword (cur s).text) else s')) := by
          by_cases hk : s.skip ≤ 0
          · simp only [hk, if_true]; exact consume_rel (note_rel n2 _ rfl) hsc
          · simp only [hk, if_false]; exact consume_rel n2 hsc
        obtain ⟨l1, l2, l3⟩ := loop_rel (p := p) fuel cont hs1
        rw [l3]
        exact seq_rel _ _ _ _ _ _ _ l1 l2 (fun _ => ihe cont isBlock _ _ _ l2)
      case name =>
        by_cases hpos : s.skip > 0
        · simp only [hpos, if_true]
          obtain ⟨i1, i2, i3⟩ := item_rel (p := p) fuel cont none (consume_rel n2 hsc)
          exact seq_rel _ _ _ _ _ _ _ i1 i2 (fun _ => ihe cont isBlock _ _ _ i2)
        · simp only [hpos, if_false]
          obtain ⟨i1, i2, i3⟩ := item_rel (p := p) fuel cont (some (cur s).text)
            (consume_rel (note_rel n2 (.dataname (cur s).text) rfl) hsc)
          rw [i3]
          exact seq_rel _ _ _ _ _ _ _ i1 i2 (fun _ => ihe cont isBlock _ _ _ i2)
      case end_ => cases isBlock <;> exact ⟨rfl, n2, rfl⟩
      all_goals exact ⟨rfl, n2, rfl⟩

theorem blocks_rel (m : Int) (cif : Bool) : ∀ (fuel : Nat) (s s' : St) (acc : List Container), Rel p all all' s s' →
    Out3 p all all' (blocksLoop p m cif fuel s acc) (blocksLoop p m cif fuel s' acc)
  | 0, s, s', acc, h => ⟨rfl, h, rfl⟩
  | fuel + 1, s0, s0', acc, h => by
    obtain ⟨n1, n2⟩ := nextToken_rel h
    have hsc := nextToken_scanned_or s0
    have hcur := cur_rel n2
    have hskip := n2.skip
    unfold blocksLoop
    generalize nextToken s0 = nt at n1 n2 hsc hcur hskip ⊢
    generalize nextToken s0' = nt' at n1 n2 hcur hskip ⊢
    rcases nt with ⟨ty, s⟩
    rcases nt' with ⟨ty', s'⟩
    dsimp only at n1 n2 hsc hcur hskip ⊢
    subst n1
    rw [hcur.1, hskip]
    cases ty' <;> dsimp only
    case blockHead =>
      obtain ⟨b1, b2, b3⟩ := (container_rel (p := p) (all := all) (all' := all') m fuel).1 (cif && decide (s.skip ≤ 0)) true (cur s).text _ _
        (consume_rel n2 hsc)
      rw [b3]
      exact seq_rel _ _ _ _ _ _ _ b1 b2 (fun _ => blocks_rel m cif fuel _ _ _ b2)
    case end_ => exact ⟨rfl, n2, rfl⟩
    all_goals exact ⟨rfl, n2, rfl⟩

theorem cifEnd_rel (cif : Bool) (r : Int) {s s' : St} (h : Rel p all all' s s') :
    (cifEndStep p cif r s').1 = (cifEndStep p cif r s).1 ∧ Rel p all all' (cifEndStep p cif r s).2 (cifEndStep p cif r s').2 := by
  have hd := dec_rel h
  unfold cifEndStep
  rw [hd.n]
  by_cases hr : r = OK
  · simp only [hr, if_true]; exact ⟨(by tr), push_rel hd _ rfl⟩
  · simp only [hr, if_false]; exact ⟨(by tr), hd⟩

theorem cif_rel (m : Int) (cif : Bool) (fuel : Nat) {s s' : St} (h : Rel p all all' s s') :
    Out3 p all all' (parseCif p m cif fuel s) (parseCif p m cif fuel s') := by
  obtain ⟨q1, q2⟩ := site_rel h (.cifStart cif) rfl (some 1) (some 1)
  unfold parseCif
  rw [h.n]
  by_cases hend : p s.n (.cifStart cif) = END
  · simp only [hend, if_true]; exact ⟨rfl, push_rel h _ rfl, rfl⟩
  · simp only [hend, if_false]
    generalize site p s (.cifStart cif) (some 1) (some 1) = st at q1 q2 ⊢
    generalize site p s' (.cifStart cif) (some 1) (some 1) = st' at q1 q2 ⊢
    rw [q1]
    by_cases h2 : st.1 = OK
    · simp only [h2, if_true]
      obtain ⟨b1, b2, b3⟩ := blocks_rel (p := p) m cif fuel _ _ [] q2
      rw [b1, b3]
      obtain ⟨c1, c2⟩ := cifEnd_rel (p := p) cif (blocksLoop p m cif fuel st.2 []).1 b2
      exact ⟨c1, c2, rfl⟩
    · simp only [h2, if_false]
      obtain ⟨c1, c2⟩ := cifEnd_rel (p := p) cif st.1 q2
      exact ⟨c1, c2, rfl⟩

-- ---- what the relation says about the two logs -------------------------------------------------------------------------

theorem segEvents_all_ws (d : Int) : ∀ (l : List Seg) (e : Ev), e ∈ segEvents d l → isWsEv e = true
  | [], e, h => by simp [segEvents] at h
  | .ws t :: r, e, h => by
    simp only [segEvents, List.mem_append] at h
    rcases h with h | h
    · by_cases hd : d ≤ 0
      · simp only [hd, if_true, List.mem_singleton] at h; rw [h]; rfl
      · simp only [hd, if_false, List.not_mem_nil] at h
    · exact segEvents_all_ws d r e h
  | .comment t :: r, e, h => by
    simp only [segEvents, List.mem_cons] at h
    rcases h with h | h
    · rw [h]; rfl
    · exact segEvents_all_ws d r e h

theorem segEvents_ws (d : Int) (l : List Seg) : (segEvents d l).filter isWsEv = segEvents d l :=
  List.filter_eq_self.mpr (segEvents_all_ws d l)

theorem segEvents_notWs (d : Int) (l : List Seg) : (segEvents d l).filter (fun e => !isWsEv e) = [] := by
  have h := segEvents_ws d l
  rw [List.filter_eq_nil_iff]
  intro e he
  have : e ∈ (segEvents d l).filter isWsEv := by rw [h]; exact he
  simp [(List.mem_filter.mp this).2]

/-- the callbacks other than whitespace callbacks agree (chronological order) -/
theorem LogRel.struct {sc : List (Int × Tok × Tok)} {l l' : List Ev} (h : LogRel sc l l') :
    l'.reverse.filter (fun e => !isWsEv e) = l.reverse.filter (fun e => !isWsEv e) := by
  induction h with
  | nil => rfl
  | ev e he _ ih => simp [List.filter_append, ih]
  | scan d t t' _ ih => simp [List.filter_append, ih, segEvents_notWs]

/-- the whitespace callbacks of the first run: the layout in front of the scanned tokens, in order -/
theorem LogRel.ws1 {sc : List (Int × Tok × Tok)} {l l' : List Ev} (h : LogRel sc l l') :
    l.reverse.filter isWsEv = (sc.reverse.map (fun x => segEvents x.1 x.2.1.pre)).flatten := by
  induction h with
  | nil => rfl
  | ev e he _ ih => simp [List.filter_append, ih, he]
  | scan d t t' _ ih => simp [List.filter_append, ih, segEvents_ws]

theorem LogRel.ws2 {sc : List (Int × Tok × Tok)} {l l' : List Ev} (h : LogRel sc l l') :
    l'.reverse.filter isWsEv = (sc.reverse.map (fun x => segEvents x.1 x.2.2.pre)).flatten := by
  induction h with
  | nil => rfl
  | ev e he _ ih => simp [List.filter_append, ih, he]
  | scan d t t' _ ih => simp [List.filter_append, ih, segEvents_ws]

theorem zipWith_prefix {α : Type} (f : Int → List Seg → List Ev) (g : α → Int) (tk : α → Tok) : ∀ (sc : List α) (rest : List Tok),
    List.zipWith f (sc.map g) ((sc.map tk ++ rest).map (·.pre)) = sc.map (fun x => f (g x) (tk x).pre)
  | [], rest => by simp
  | x :: sc, rest => by
    simp only [List.map_cons, List.cons_append, List.zipWith_cons_cons]
    rw [zipWith_prefix f g tk sc rest]

theorem Rel.init (p : Prog) {toks toks' : List Tok} (h : SkelL toks toks') : Rel p toks toks' (St.init toks) (St.init toks') :=
  ⟨h, rfl, rfl, rfl, [], LogRel.nil, by simp [pend, St.init], by simp [pend, St.init], fun _ => ⟨by simp [St.init], by simp⟩⟩

/-- **two layouts of one token sequence, whole parse**: same result, same stored CIF, same callbacks other than whitespace
    callbacks; and there is ONE list of depths `marks` — one per token that next_token scanned, a prefix of the sequence — such that
    the whitespace callbacks of either run are `segEvents mark pre` of its own tokens, in order: every comment, and every
    whitespace run unless the token was scanned inside a skipped region (depth > 0); if the program never asks to skip, no depth is positive;
    the tokens not scanned are those the final state still holds (all but the pending one) -/
theorem cif_layout (p : Prog) (m : Int) (cif : Bool) (fuel : Nat) {toks toks' : List Tok} (h : SkelL toks toks') :
    (parseCif p m cif fuel (St.init toks')).1 = (parseCif p m cif fuel (St.init toks)).1
    ∧ (parseCif p m cif fuel (St.init toks')).2.2 = (parseCif p m cif fuel (St.init toks)).2.2
    ∧ (parseCif p m cif fuel (St.init toks')).2.1.log.reverse.filter (fun e => !isWsEv e)
        = (parseCif p m cif fuel (St.init toks)).2.1.log.reverse.filter (fun e => !isWsEv e)
    ∧ ∃ marks : List Int,
        marks.length + (pend (parseCif p m cif fuel (St.init toks)).2.1).length = toks.length
        ∧ (parseCif p m cif fuel (St.init toks)).2.1.log.reverse.filter isWsEv
            = (List.zipWith segEvents marks (toks.map (·.pre))).flatten
        ∧ (parseCif p m cif fuel (St.init toks')).2.1.log.reverse.filter isWsEv
            = (List.zipWith segEvents marks (toks'.map (·.pre))).flatten
        ∧ (NoSkipP p → ∀ d ∈ marks, d ≤ 0) := by
  obtain ⟨r1, r2, r3⟩ := cif_rel (p := p) m cif fuel (Rel.init p h)
  obtain ⟨sc, g1, g2, g3, g4⟩ := r2.ghost
  refine ⟨r1, r3, g1.struct, sc.reverse.map (·.1), ?_, ?_, ?_, ?_⟩
  · have := congrArg List.length g2
    simp only [List.length_append, List.length_map, List.length_reverse] at this ⊢
    omega
  · rw [g1.ws1]
    conv => rhs; rw [g2]
    exact (congrArg List.flatten (zipWith_prefix segEvents (fun x => x.1) (fun x => x.2.1) sc.reverse _)).symm
  · rw [g1.ws2]
    conv => rhs; rw [g3]
    exact (congrArg List.flatten (zipWith_prefix segEvents (fun x => x.1) (fun x => x.2.2) sc.reverse _)).symm
  · intro hp d hd
    obtain ⟨x, hx, rfl⟩ := List.mem_map.mp hd
    exact (g4 hp).2 x (List.mem_reverse.mp hx)

end CifModel.Lemmas.ParseCB
