import CifModel.Spec.StoreSpec
import CifModel.Lemmas.StoreSpecProps
import CifModel.Lemmas.ParserStoreOps
import CifModel.Lemmas.ParserTraceInv
import CifModel.Lemmas.ParserTraceShape
import CifModel.Model.ParserStoreOps
/-
  Lemmas/ParserStoreSim — the store calls of a parse on the documented model WITH OBJECT IDENTITIES (`Store.AState`, Spec/StoreSpec),
  related to the tree the parser model builds (group gX).

  Layer 1 (this file): for a state WITHOUT save frames (`AInv.frames`), `AState.tree` is "one container per block row"
  (`tree_noframes`), and every change of the loops of ONE container is `updIn … [key of its block]` on the tree (`tree_upd`):
  block keys and container ids are unique.  Then, per API function, the call of `specStep`'s function on a state that shows `cif`
  succeeds and the new state shows `SOp.apply … cif`:

      specCreateBlock (lenient or not)   ↦ SOp.mkBlock      (`sim_mkBlock`)
      specPrune                          ↦ SOp.prune        (`sim_prune`)
      specCreateLoop (category NULL)     ↦ SOp.mkLoop       (`sim_mkLoop`)
      specAddPacket on the last loop     ↦ SOp.addPkt       (`sim_addPkt`)
      specSetValue                       ↦ SOp.setVal       (`sim_setVal_…`)

  The hypotheses are what the parser side proves about every call of every trace (`SOp.docOk`, `SOp.wf`, `OkR` before the call:
  Lemmas/ParserTraceInv).  Save frames (paths longer than one key) are NOT covered: `tree_upd` would have to say that the container
  with a given id occurs once in the tree (unique parents).
-/
set_option linter.unusedSimpArgs false
set_option linter.unusedVariables false

namespace CifModel.ParserSimF
open CifModel CifModel.Model CifModel.Model.Parser CifModel.Gen.ErrCodes
open CifModel.Store (AState ALoop BlockRow ContainerRow CH LH Name)

/-- what a state reached by the store calls of a parse satisfies (save frames included) -/
structure AInv (o : Opts) (A : AState) : Prop where
  blkNorm : ∀ b ∈ A.blocks, b.name = o.norm b.nameOrig
  blkCont : ∀ b ∈ A.blocks, ∃ c ∈ A.containers, c.id = b.cid
  blkUniq : ∀ b ∈ A.blocks, ∀ b' ∈ A.blocks, (b.name = b'.name ∨ b.cid = b'.cid) → b = b'
  ids : ∀ b ∈ A.blocks, b.cid < A.nextId
  frmNorm : ∀ f ∈ A.frames, f.name = o.norm f.nameOrig
  frmCont : ∀ f ∈ A.frames, ∃ c ∈ A.containers, c.id = f.cid
  frmIds : ∀ f ∈ A.frames, f.cid < A.nextId
  frmPar : ∀ f ∈ A.frames, f.parent < f.cid
  frmUniq : ∀ f ∈ A.frames, ∀ f' ∈ A.frames, (f.cid = f'.cid ∨ (f.parent = f'.parent ∧ f.name = f'.name)) → f = f'
  blkFrm : ∀ b ∈ A.blocks, ∀ f ∈ A.frames, b.cid ≠ f.cid
  cids : ∀ c ∈ A.containers, c.id < A.nextId
  contUniq : ∀ c ∈ A.containers, ∀ c' ∈ A.containers, c.id = c'.id → c = c'
  loopCids : ∀ y ∈ A.loops, y.cid < A.nextId
  loopNums : ∀ y ∈ A.loops, ∀ c ∈ A.containers, c.id = y.cid → y.num < c.nextLoopNum
  loopPw : A.loops.Pairwise (fun y z => ¬ (y.cid = z.cid ∧ y.num = z.num))
  itemNorm : ∀ y ∈ A.loops, ∀ it ∈ y.items, it.1 = o.norm it.2

theorem pairwise_unique {α} {R : α → α → Prop} (hs : ∀ a b, R a b → R b a) : ∀ l : List α, l.Pairwise R →
    ∀ y ∈ l, ∀ z ∈ l, ¬ R y z → y = z
  | [], _, _, hy, _, _, _ => by cases hy
  | a :: r, hp, y, hy, z, hz, hn => by
    rw [List.pairwise_cons] at hp
    rcases List.mem_cons.mp hy with rfl | hy' <;> rcases List.mem_cons.mp hz with rfl | hz'
    · rfl
    · exact absurd (hp.1 z hz') hn
    · exact absurd (hs _ _ (hp.1 y hy')) hn
    · exact pairwise_unique hs r hp.2 y hy' z hz' hn

/-- a loop is determined by (container id, loop number) -/
theorem AInv.loopKeys {o : Opts} {A : AState} (hi : AInv o A) : ∀ y ∈ A.loops, ∀ z ∈ A.loops, y.cid = z.cid → y.num = z.num → y = z := by
  intro y hy z hz e1 e2
  apply pairwise_unique (R := fun y z : ALoop => ¬ (y.cid = z.cid ∧ y.num = z.num)) _ A.loops hi.loopPw y hy z hz
  · intro h; exact h ⟨e1, e2⟩
  · intro a b h h'; exact h ⟨h'.1.symm, h'.2.symm⟩

theorem AInv.empty (o : Opts) : AInv o {} where
  blkNorm := by intro b h; cases h
  blkCont := by intro b h; cases h
  blkUniq := by intro b h; cases h
  ids := by intro b h; cases h
  frmNorm := by intro b h; cases h
  frmCont := by intro b h; cases h
  frmIds := by intro b h; cases h
  frmPar := by intro b h; cases h
  frmUniq := by intro b h; cases h
  blkFrm := by intro b h; cases h
  cids := by intro b h; cases h
  contUniq := by intro b h; cases h
  loopCids := by intro b h; cases h
  loopNums := by intro b h; cases h
  loopPw := List.Pairwise.nil
  itemNorm := by intro b h; cases h

/-- the loops of a container, as the tree shows them -/
def loopsOf (A : AState) (cid : Nat) : List Loop := (A.loops.filter (fun y => y.cid == cid)).map ALoop.toLoop

/-- `t` is the id of a container of the state -/
def Node (A : AState) (t : Nat) : Prop := (∃ c ∈ A.containers, c.id = t) ∧ t < A.nextId

/-- `A'` differs from `A` in the loops of container `t` only, which change by `g` (as the tree shows them) -/
def LoopsUpd (A A' : AState) (t : Nat) (g : List Loop → List Loop) : Prop :=
  A'.blocks = A.blocks ∧ A'.frames = A.frames ∧ (∀ c, c ≠ t → loopsOf A' c = loopsOf A c) ∧ loopsOf A' t = g (loopsOf A t)

theorem find_map_unique {α β} (f : α → β) (p : β → Bool) (b : α) : ∀ (l : List α), b ∈ l → p (f b) = true →
    (∀ b' ∈ l, p (f b') = true → b' = b) → (l.map f).find? p = some (f b)
  | [], hb, _, _ => by cases hb
  | x :: r, hb, hp, hu => by
    simp only [List.map_cons, List.find?_cons]
    by_cases hx : p (f x) = true
    · rw [hx, hu x List.mem_cons_self hx]
    · have hx' : p (f x) = false := by simpa using hx
      rw [hx']
      rcases List.mem_cons.mp hb with rfl | hb'
      · exact absurd hp hx
      · exact find_map_unique f p b r hb' hp (fun b' h' => hu b' (List.mem_cons_of_mem _ h'))

theorem any_congr' {α} (p q : α → Bool) : ∀ l : List α, (∀ x ∈ l, p x = q x) → l.any p = l.any q
  | [], _ => rfl
  | x :: r, h => by
    simp only [List.any_cons, h x List.mem_cons_self, any_congr' p q r (fun y hy => h y (List.mem_cons_of_mem _ hy))]

/-! ### cif_create_block(_internal) -/

/-- the state with one more (empty) block -/
def addBlock (A : AState) (key orig : Str) : AState :=
  { A with containers := A.containers ++ [{ id := A.nextId, nextLoopNum := 0 }], nextId := A.nextId + 1,
           blocks := A.blocks ++ [{ cid := A.nextId, name := key, nameOrig := orig }] }

theorem loopsOf_fresh (o : Opts) (A : AState) (hi : AInv o A) : loopsOf A A.nextId = [] := by
  unfold loopsOf
  rw [List.filter_eq_nil_iff.mpr, List.map_nil]
  intro y hy
  have := hi.loopCids y hy
  simp only [beq_iff_eq]
  omega

theorem AInv.addBlock {o : Opts} {A : AState} (hi : AInv o A) (code : Str)
    (hfresh : A.blocks.any (fun b => b.name == o.norm code) = false) : AInv o (addBlock A (o.norm code) code) where
  frmNorm := hi.frmNorm
  frmCont := by
    intro f hf
    obtain ⟨c, hc, e⟩ := hi.frmCont f hf
    exact ⟨c, List.mem_append_left _ hc, e⟩
  frmIds := by
    intro f hf
    show f.cid < A.nextId + 1
    have := hi.frmIds f hf; omega
  frmPar := hi.frmPar
  frmUniq := hi.frmUniq
  blkFrm := by
    intro b hb f hf
    rcases List.mem_append.mp hb with h | h
    · exact hi.blkFrm b h f hf
    · simp only [List.mem_singleton] at h; subst h
      have := hi.frmIds f hf
      simp only []; omega
  blkNorm := by
    intro b hb
    rcases List.mem_append.mp hb with h | h
    · exact hi.blkNorm b h
    · simp only [List.mem_singleton] at h; subst h; rfl
  blkCont := by
    intro b hb
    rcases List.mem_append.mp hb with h | h
    · obtain ⟨c, hc, e⟩ := hi.blkCont b h
      exact ⟨c, List.mem_append_left _ hc, e⟩
    · simp only [List.mem_singleton] at h; subst h
      exact ⟨_, List.mem_append_right _ (List.mem_singleton.mpr rfl), rfl⟩
  blkUniq := by
    have hnew : ∀ b ∈ A.blocks, ¬ (b.name = o.norm code ∨ b.cid = A.nextId) := by
      intro b hb h
      rcases h with h | h
      · have := List.any_eq_false.mp hfresh b hb
        simp [h] at this
      · have := hi.ids b hb; omega
    intro b hb b' hb' h
    rcases List.mem_append.mp hb with h1 | h1 <;> rcases List.mem_append.mp hb' with h2 | h2
    · exact hi.blkUniq b h1 b' h2 h
    · simp only [List.mem_singleton] at h2; subst h2; exact absurd h (hnew b h1)
    · simp only [List.mem_singleton] at h1; subst h1
      exact absurd (h.imp Eq.symm Eq.symm) (hnew b' h2)
    · simp only [List.mem_singleton] at h1 h2; rw [h1, h2]
  ids := by
    intro b hb
    show b.cid < A.nextId + 1
    rcases List.mem_append.mp hb with h | h
    · have := hi.ids b h; omega
    · simp only [List.mem_singleton] at h; subst h; exact Nat.lt_succ_self _
  cids := by
    intro c hc
    show c.id < A.nextId + 1
    rcases List.mem_append.mp hc with h | h
    · have := hi.cids c h; omega
    · simp only [List.mem_singleton] at h; subst h; exact Nat.lt_succ_self _
  contUniq := by
    intro c hc c' hc' h
    rcases List.mem_append.mp hc with h1 | h1 <;> rcases List.mem_append.mp hc' with h2 | h2
    · exact hi.contUniq c h1 c' h2 h
    · simp only [List.mem_singleton] at h2; subst h2; have := hi.cids c h1; simp only [] at h; omega
    · simp only [List.mem_singleton] at h1; subst h1; have := hi.cids c' h2; simp only [] at h; omega
    · simp only [List.mem_singleton] at h1 h2; rw [h1, h2]
  loopCids := by
    intro y hy
    show y.cid < A.nextId + 1
    have := hi.loopCids y hy; omega
  loopNums := by
    intro y hy c hc e
    rcases List.mem_append.mp hc with h | h
    · exact hi.loopNums y hy c h e
    · simp only [List.mem_singleton] at h; subst h
      have := hi.loopCids y hy; simp only [] at e; omega
  loopPw := hi.loopPw
  itemNorm := hi.itemNorm

/-- **cif_create_block(_internal)**: a code that is valid (or the lenient call) and not in use — the call succeeds -/
theorem sim_mkBlock (o : Opts) (A : AState) (hi : AInv o A) (code : Str) (len : Bool)
    (hl : len = true ∨ isValidName false code = true) (hdup : A.blocks.any (fun b => b.name == o.norm code) = false) :
    Store.specCreateBlock A (some (mkName o false code)) len
        = (addBlock A (o.norm code) code, .ok { id := A.nextId, code := code, isBlock := true }) ∧
      AInv o (addBlock A (o.norm code) code) := by
  have hi' := hi.addBlock code hdup
  refine ⟨?_, hi'⟩
  unfold Store.specCreateBlock
  have hv : (!len && !(mkName o false code).valid) = false := by
    rcases hl with h | h
    · simp [h]
    · simp [mkName, h]
  simp only [hv, Bool.false_eq_true, if_false]
  have hk : (mkName o false code).key = o.norm code := rfl
  simp only [hk, hdup, Bool.false_eq_true, if_false]
  rfl

/-! ### states that differ in their loops only -/

theorem AInv.ofLoops {o : Opts} {A : AState} (hi : AInv o A) (ls : List ALoop)
    (hcid : ∀ y ∈ ls, y.cid < A.nextId) (hnum : ∀ y ∈ ls, ∀ c ∈ A.containers, c.id = y.cid → y.num < c.nextLoopNum)
    (hkeys : ls.Pairwise (fun y z => ¬ (y.cid = z.cid ∧ y.num = z.num))) (hnorm : ∀ y ∈ ls, ∀ it ∈ y.items, it.1 = o.norm it.2) :
    AInv o { A with loops := ls } where
  frmNorm := hi.frmNorm
  frmCont := hi.frmCont
  frmIds := hi.frmIds
  frmPar := hi.frmPar
  frmUniq := hi.frmUniq
  blkFrm := hi.blkFrm
  blkNorm := hi.blkNorm
  blkCont := hi.blkCont
  blkUniq := hi.blkUniq
  ids := hi.ids
  cids := hi.cids
  contUniq := hi.contUniq
  loopCids := hcid
  loopNums := hnum
  loopPw := hkeys
  itemNorm := hnorm

theorem AInv.filter {o : Opts} {A : AState} (hi : AInv o A) (q : ALoop → Bool) : AInv o { A with loops := A.loops.filter q } :=
  hi.ofLoops _ (fun y hy => hi.loopCids y (List.mem_filter.mp hy).1) (fun y hy => hi.loopNums y (List.mem_filter.mp hy).1)
    (List.Pairwise.filter q hi.loopPw)
    (fun y hy => hi.itemNorm y (List.mem_filter.mp hy).1)

/-- `onLoop` with a function that keeps the identity of the loop and normalised item keys -/
theorem AInv.onLoop {o : Opts} {A : AState} (hi : AInv o A) (cid num : Nat) (f : ALoop → ALoop)
    (hf : ∀ y ∈ A.loops, (f y).cid = y.cid ∧ (f y).num = y.num ∧ ∀ it ∈ (f y).items, it.1 = o.norm it.2) :
    AInv o (A.onLoop cid num f) := by
  have hF : ∀ y ∈ A.loops, (if (y.cid == cid && y.num == num) = true then f y else y).cid = y.cid ∧
      (if (y.cid == cid && y.num == num) = true then f y else y).num = y.num := by
    intro y hy; split
    · exact ⟨(hf y hy).1, (hf y hy).2.1⟩
    · exact ⟨rfl, rfl⟩
  unfold AState.onLoop
  apply hi.ofLoops
  · intro y hy
    obtain ⟨y0, hy0, rfl⟩ := List.mem_map.mp hy
    rw [(hF y0 hy0).1]; exact hi.loopCids y0 hy0
  · intro y hy c hc e
    obtain ⟨y0, hy0, rfl⟩ := List.mem_map.mp hy
    rw [(hF y0 hy0).2]; rw [(hF y0 hy0).1] at e; exact hi.loopNums y0 hy0 c hc e
  · rw [List.pairwise_map]
    apply List.Pairwise.imp_of_mem _ hi.loopPw
    intro y0 z0 hy0 hz0 hR
    rw [(hF y0 hy0).1, (hF z0 hz0).1, (hF y0 hy0).2, (hF z0 hz0).2]
    exact hR
  · intro y hy
    obtain ⟨y0, hy0, rfl⟩ := List.mem_map.mp hy
    split
    · exact (hf y0 hy0).2.2
    · exact hi.itemNorm y0 hy0

theorem loopsOf_filter (A : AState) (q : ALoop → Bool) (c : Nat) :
    loopsOf { A with loops := A.loops.filter q } c = ((A.loops.filter (fun y => y.cid == c)).filter q).map ALoop.toLoop := by
  unfold loopsOf
  simp only [List.filter_filter]
  congr 1
  apply List.filter_congr
  intro y _
  exact Bool.and_comm _ _

theorem filter_self_of {α} (q : α → Bool) (l : List α) (h : ∀ y ∈ l, q y = true) : l.filter q = l :=
  List.filter_eq_self.mpr h

/-! ### cif_container_prune -/

def pruned (A : AState) (cid : Nat) : AState := { A with loops := A.loops.filter (fun y => !(y.cid == cid && y.packets.isEmpty)) }

theorem pruneC_eq : pruneC = fun c => Container.mk c.code c.frames (c.loops.filter fun l => !l.packets.isEmpty) := by
  funext c; cases c; rfl

/-- **cif_container_prune** on container `t` -/
theorem sim_prune (o : Opts) (A : AState) (hi : AInv o A) (t : Nat) (h : CH) (hh : h.id = t) :
    Store.specPrune A h = (pruned A t, .ok ()) ∧ AInv o (pruned A t) ∧
      LoopsUpd A (pruned A t) t (fun ls => ls.filter fun l => !l.packets.isEmpty) := by
  refine ⟨by unfold Store.specPrune pruned; rw [hh], hi.filter _, rfl, rfl, ?_, ?_⟩
  · intro c hc
    unfold pruned
    rw [loopsOf_filter, filter_self_of]
    · rfl
    · intro y hy
      have : y.cid = c := by simpa using (List.mem_filter.mp hy).2
      have hne : (y.cid == t) = false := by rw [this]; simpa using hc
      simp [hne]
  · show loopsOf (pruned A t) t = (loopsOf A t).filter fun l => !l.packets.isEmpty
    unfold pruned
    rw [loopsOf_filter]
    unfold loopsOf
    rw [List.filter_map]
    congr 1
    apply List.filter_congr
    intro y hy
    have : (y.cid == t) = true := (List.mem_filter.mp hy).2
    simp [this, Function.comp, ALoop.toLoop]

/-! ### cif_container_create_loop -/

theorem names_toLoop_any (o : Opts) (y : ALoop) (hn : ∀ it ∈ y.items, it.1 = o.norm it.2) (k : Str) :
    (y.toLoop.names.any fun n => o.norm n == k) = y.hasItem k := by
  unfold ALoop.toLoop ALoop.hasItem
  simp only [List.any_map]
  apply any_congr'
  intro it hit
  simp only [Function.comp, ← hn it hit]

/-- "the container has the item", on the tree and on the identity model -/
theorem hasItem_loops (o : Opts) (A : AState) (hi : AInv o A) (t : Nat) (cc : Container) (hcc : cc.loops = loopsOf A t) (k : Str) :
    hasItem o.norm cc k = A.hasItem t k := by
  unfold hasItem AState.hasItem
  rw [hcc]
  simp only [loopsOf, List.any_map, List.any_filter]
  apply any_congr'
  intro y hy
  simp only [Function.comp, names_toLoop_any o y (hi.itemNorm y hy)]

theorem namesFresh_of (o : Opts) (A : AState) (cid : Nat) (cc : Container) (hitem : ∀ k, hasItem o.norm cc k = A.hasItem cid k) :
    ∀ names : List Str, ((names.any fun n => hasItem o.norm cc (o.norm n)) || hasDup (names.map o.norm)) = false →
      A.namesFresh cid (names.map (mkName o true)) = true
  | [], _ => rfl
  | n :: ns, h => by
    simp only [List.any_cons, List.map_cons, hasDup, Bool.or_eq_false_iff] at h
    obtain ⟨⟨h1, h2⟩, h3, h4⟩ := h
    have ih := namesFresh_of o A cid cc hitem ns (by simp only [Bool.or_eq_false_iff]; exact ⟨h2, h4⟩)
    simp only [List.map_cons, AState.namesFresh, ih, Bool.and_true]
    have hk : (mkName o true n).key = o.norm n := rfl
    rw [hk, ← hitem, h1]
    have : (ns.map (mkName o true)).any (fun m => m.key == o.norm n) = false := by
      rw [List.any_map, List.any_eq_false]
      intro x hx
      simp only [Function.comp]
      have hk' : (mkName o true x).key = o.norm x := rfl
      rw [hk']
      intro he
      have : o.norm x = o.norm n := by simpa using he
      have hc : (ns.map o.norm).contains (o.norm n) = true := by
        rw [List.contains_iff_mem, ← this]
        exact List.mem_map_of_mem hx
      rw [hc] at h3; cases h3
    rw [this]; rfl

def incrLoopNum (cid : Nat) (r : ContainerRow) : ContainerRow := if r.id == cid then { r with nextLoopNum := r.nextLoopNum + 1 } else r

/-- the state with one more loop `x` in container `cid` -/
def withLoopG (A : AState) (cid : Nat) (x : ALoop) : AState :=
  { A with containers := A.containers.map (incrLoopNum cid), loops := A.loops ++ [x] }

def newLoop (o : Opts) (cid num : Nat) (names : List Str) : ALoop :=
  { cid := cid, num := num, category := none, items := names.map (fun n => (o.norm n, n)), packets := [] }

/-- the state with one more loop (category NULL, no packet) in container `cid` -/
def withLoop (o : Opts) (A : AState) (cid num : Nat) (names : List Str) : AState := withLoopG A cid (newLoop o cid num names)

/-- the loop the parser is filling: the LAST loop of its container, category NULL, the header's names (distinct after
    normalisation), identified by (container id, loop number) -/
def OpenLoop (o : Opts) (A : AState) (cid num : Nat) (names : List Str) : Prop :=
  ∃ ls0 x, A.loops.filter (fun y => y.cid == cid) = ls0 ++ [x] ∧ x.cid = cid ∧ x.num = num ∧ x.category = none ∧
    x.items = names.map (fun n => (o.norm n, n)) ∧ (names.map o.norm).Nodup

theorem find_container (o : Opts) (A : AState) (hi : AInv o A) (t : Nat) (hnode : Node A t) :
    ∃ c, c ∈ A.containers ∧ c.id = t ∧ A.containers.find? (fun r => r.id == t) = some c := by
  obtain ⟨c, hc, e⟩ := hnode.1
  cases hf : A.containers.find? (fun r => r.id == t) with
  | none =>
    have := List.find?_eq_none.mp hf c hc
    simp [e] at this
  | some c' =>
    have hm := List.mem_of_find?_eq_some hf
    have hk : c'.id = t := by simpa using List.find?_some hf
    exact ⟨c', hm, hk, rfl⟩

theorem nodup_of_hasDup : ∀ ks : List Str, hasDup ks = false → ks.Nodup
  | [], _ => List.nodup_nil
  | k :: ks, h => by
    simp only [hasDup, Bool.or_eq_false_iff] at h
    rw [List.nodup_cons]
    refine ⟨?_, nodup_of_hasDup ks h.2⟩
    intro hm
    have : ks.contains k = true := List.contains_iff_mem.mpr hm
    rw [this] at h; cases h.1

theorem AInv.withLoopG {o : Opts} {A : AState} (hi : AInv o A) (t : Nat) (hnode : Node A t) (c : ContainerRow)
    (hc : c ∈ A.containers) (hcb : c.id = t) (x : ALoop) (hx1 : x.cid = t) (hx2 : x.num = c.nextLoopNum)
    (hx3 : ∀ it ∈ x.items, it.1 = o.norm it.2) : AInv o (withLoopG A t x) where
  frmNorm := hi.frmNorm
  frmCont := by
    intro f hf
    obtain ⟨c', hc', e⟩ := hi.frmCont f hf
    refine ⟨incrLoopNum t c', List.mem_map_of_mem hc', ?_⟩
    unfold incrLoopNum; split <;> exact e
  frmIds := hi.frmIds
  frmPar := hi.frmPar
  frmUniq := hi.frmUniq
  blkFrm := hi.blkFrm
  blkNorm := hi.blkNorm
  blkCont := by
    intro b' hb'
    obtain ⟨c', hc', e⟩ := hi.blkCont b' hb'
    refine ⟨incrLoopNum t c', List.mem_map_of_mem hc', ?_⟩
    unfold incrLoopNum; split <;> exact e
  blkUniq := hi.blkUniq
  ids := hi.ids
  cids := by
    intro c' hc'
    obtain ⟨c0, hc0, rfl⟩ := List.mem_map.mp hc'
    have := hi.cids c0 hc0
    unfold incrLoopNum; split <;> exact this
  contUniq := by
    intro c1 h1 c2 h2 e
    obtain ⟨a1, ha1, rfl⟩ := List.mem_map.mp h1
    obtain ⟨a2, ha2, rfl⟩ := List.mem_map.mp h2
    have e' : a1.id = a2.id := by
      unfold incrLoopNum at e
      split at e <;> split at e <;> exact e
    rw [hi.contUniq a1 ha1 a2 ha2 e']
  loopCids := by
    intro y hy
    rcases List.mem_append.mp hy with h | h
    · exact hi.loopCids y h
    · simp only [List.mem_singleton] at h; subst h; rw [hx1]; exact hnode.2
  loopNums := by
    intro y hy c' hc' e
    obtain ⟨c0, hc0, rfl⟩ := List.mem_map.mp hc'
    have hid : (incrLoopNum t c0).id = c0.id := by unfold incrLoopNum; split <;> rfl
    rw [hid] at e
    have hmono : c0.nextLoopNum ≤ (incrLoopNum t c0).nextLoopNum := by
      unfold incrLoopNum; split
      · exact Nat.le_succ _
      · exact Nat.le_refl _
    rcases List.mem_append.mp hy with h | h
    · have := hi.loopNums y h c0 hc0 e; omega
    · simp only [List.mem_singleton] at h; subst h
      rw [hx1] at e
      have : c0 = c := hi.contUniq c0 hc0 c hc (by rw [e, hcb])
      subst this
      rw [hx2]
      unfold incrLoopNum
      have : (c0.id == t) = true := by simp [hcb]
      simp [this]
  loopPw := by
    show (A.loops ++ [_]).Pairwise _
    rw [List.pairwise_append]
    refine ⟨hi.loopPw, List.pairwise_singleton _ _, ?_⟩
    intro y hy z hz
    simp only [List.mem_singleton] at hz; subst hz
    rintro ⟨e1, e2⟩
    rw [hx1] at e1
    rw [hx2] at e2
    have := hi.loopNums y hy c hc (by rw [hcb, e1])
    omega
  itemNorm := by
    intro y hy it hit
    rcases List.mem_append.mp hy with h | h
    · exact hi.itemNorm y h it hit
    · simp only [List.mem_singleton] at h; subst h
      exact hx3 it hit

theorem AInv.withLoop {o : Opts} {A : AState} (hi : AInv o A) (t : Nat) (hnode : Node A t) (c : ContainerRow)
    (hc : c ∈ A.containers) (hcb : c.id = t) (names : List Str) : AInv o (withLoop o A t c.nextLoopNum names) :=
  hi.withLoopG t hnode c hc hcb _ rfl rfl (by
    intro it hit
    obtain ⟨n, _, rfl⟩ := List.mem_map.mp hit
    rfl)

theorem toLoop_newLoop (o : Opts) (cid num : Nat) (names : List Str) :
    (newLoop o cid num names).toLoop = { category := none, names := names, packets := [] } := by
  unfold newLoop ALoop.toLoop
  simp only [List.map_map]
  congr 1
  conv => rhs; rw [← List.map_id names]
  apply List.map_congr_left
  intro n _; rfl

theorem loopsOf_withLoopG_same (A : AState) (cid : Nat) (x : ALoop) (hx : x.cid = cid) :
    loopsOf (withLoopG A cid x) cid = loopsOf A cid ++ [x.toLoop] := by
  unfold loopsOf withLoopG
  simp only [List.filter_append, List.map_append]
  congr 1
  have : ([x].filter fun y => y.cid == cid) = [x] := by simp [List.filter_cons, hx]
  rw [this, List.map_cons, List.map_nil]

theorem loopsOf_withLoopG_other (A : AState) (cid : Nat) (x : ALoop) (hx : x.cid = cid) (c : Nat) (hc : c ≠ cid) :
    loopsOf (withLoopG A cid x) c = loopsOf A c := by
  unfold loopsOf withLoopG
  simp only [List.filter_append, List.map_append]
  have : ([x].filter fun y => y.cid == c) = [] := by
    have : (cid == c) = false := by simpa using (Ne.symm hc)
    simp [List.filter_cons, hx, this]
  rw [this, List.map_nil, List.append_nil]

theorem loopsOf_withLoop_same (o : Opts) (A : AState) (cid num : Nat) (names : List Str) :
    loopsOf (withLoop o A cid num names) cid = loopsOf A cid ++ [{ category := none, names := names, packets := [] }] := by
  unfold withLoop
  rw [loopsOf_withLoopG_same A cid _ rfl, toLoop_newLoop]

theorem loopsOf_withLoop_other (o : Opts) (A : AState) (cid num : Nat) (names : List Str) (c : Nat) (hc : c ≠ cid) :
    loopsOf (withLoop o A cid num names) c = loopsOf A c :=
  loopsOf_withLoopG_other A cid _ rfl c hc

/-- **cif_container_create_loop** (category NULL) in container `t`, which the tree shows as `cc`: names valid, absent from the
    container, pairwise distinct (`SOp.docOk`) — the call succeeds; the new loop is the last one of the container -/
theorem sim_mkLoop (o : Opts) (A : AState) (hi : AInv o A) (t : Nat) (hnode : Node A t) (cc : Container) (hcc : cc.loops = loopsOf A t)
    (h : CH) (hh : h.id = t)
    (names : List Str) (hne : names ≠ []) (hv : (names.any fun n => !isValidName true n) = false)
    (hcl : ((names.any fun n => hasItem o.norm cc (o.norm n)) || hasDup (names.map o.norm)) = false) :
    ∃ c, c ∈ A.containers ∧ c.id = t ∧
      Store.specCreateLoop A h none (names.map (mkName o true))
        = (withLoop o A t c.nextLoopNum names, .ok { cid := t, loopNum := c.nextLoopNum, category := none }) ∧
      AInv o (withLoop o A t c.nextLoopNum names) ∧
      LoopsUpd A (withLoop o A t c.nextLoopNum names) t (fun ls => ls ++ [{ category := none, names := names, packets := [] }]) ∧
      OpenLoop o (withLoop o A t c.nextLoopNum names) t c.nextLoopNum names := by
  obtain ⟨c, hc, hcb, hfind⟩ := find_container o A hi t hnode
  refine ⟨c, hc, hcb, ?_, hi.withLoop t hnode c hc hcb names, ?_, ?_⟩
  · have h1 : (names.map (mkName o true)).isEmpty = false := by
      cases names with
      | nil => exact absurd rfl hne
      | cons _ _ => rfl
    have h2 : (names.map (mkName o true)).any (fun n => !n.valid) = false := by
      rw [List.any_map]; exact hv
    have h3 : A.namesFresh t (names.map (mkName o true)) = true :=
      namesFresh_of o A t cc (hasItem_loops o A hi t cc hcc) names hcl
    unfold Store.specCreateLoop Store.specCreateLoopI
    simp only [h1, h2, hh, hfind, h3, Bool.false_eq_true, if_false, Bool.not_true]
    have : ((none : Option Str) == some []) = false := rfl
    simp only [this, Bool.false_and, Bool.false_eq_true, if_false]
    unfold withLoop withLoopG newLoop
    simp only [List.map_map]
    rfl
  · exact ⟨rfl, rfl, fun c' hc' => loopsOf_withLoop_other o A t _ names c' hc', loopsOf_withLoop_same o A t _ names⟩
  · refine ⟨A.loops.filter (fun y => y.cid == t), newLoop o t c.nextLoopNum names, ?_, rfl, rfl, rfl, rfl, ?_⟩
    · show (A.loops ++ [newLoop o t c.nextLoopNum names]).filter (fun y => y.cid == t) = _
      rw [List.filter_append]
      congr 1
      simp [List.filter_cons, newLoop]
    · simp only [Bool.or_eq_false_iff] at hcl
      exact nodup_of_hasDup _ hcl.2

/-! ### cif_loop_add_packet on the loop being filled -/

def withPkt (A : AState) (cid num : Nat) (vals : List V) : AState :=
  A.onLoop cid num (fun y => { y with packets := y.packets ++ [vals] })

/-- `onLoop` with a function that keeps the container id commutes with the selection of a container's loops -/
theorem filter_onLoop (A : AState) (cid num : Nat) (f : ALoop → ALoop) (hf : ∀ y, (f y).cid = y.cid) (c : Nat) :
    (A.onLoop cid num f).loops.filter (fun y => y.cid == c) =
      (A.loops.filter (fun y => y.cid == c)).map (fun y => if (y.cid == cid && y.num == num) = true then f y else y) := by
  unfold AState.onLoop
  simp only [List.filter_map]
  congr 1
  apply List.filter_congr
  intro y _
  simp only [Function.comp]
  split
  · rw [hf y]
  · rfl

theorem loopsOf_onLoop_other (A : AState) (cid num : Nat) (f : ALoop → ALoop) (hf : ∀ y, (f y).cid = y.cid) (c : Nat) (hc : c ≠ cid) :
    loopsOf (A.onLoop cid num f) c = loopsOf A c := by
  unfold loopsOf
  rw [filter_onLoop A cid num f hf c]
  congr 1
  conv => rhs; rw [← List.map_id (A.loops.filter fun y => y.cid == c)]
  apply List.map_congr_left
  intro y hy
  have : y.cid = c := by simpa using (List.mem_filter.mp hy).2
  have hne : (y.cid == cid) = false := by rw [this]; simpa using hc
  simp [hne]

/-- when the loop (cid, num) is the last loop `x` of its container, `onLoop` changes exactly that one -/
theorem loopsOf_onLoop_last (o : Opts) (A : AState) (hi : AInv o A) (cid num : Nat) (f : ALoop → ALoop) (hf : ∀ y, (f y).cid = y.cid)
    (ls0 : List ALoop) (x : ALoop) (hfl : A.loops.filter (fun y => y.cid == cid) = ls0 ++ [x]) (hxc : x.cid = cid) (hxn : x.num = num) :
    (A.onLoop cid num f).loops.filter (fun y => y.cid == cid) = ls0 ++ [f x] := by
  rw [filter_onLoop A cid num f hf cid, hfl]
  have hpw : (ls0 ++ [x]).Pairwise (fun y z => ¬ (y.cid = z.cid ∧ y.num = z.num)) := by
    rw [← hfl]; exact List.Pairwise.filter _ hi.loopPw
  rw [List.pairwise_append] at hpw
  rw [← hxc, ← hxn]
  apply Store.map_onLoop_append
  intro y hy
  have := hpw.2.2 y hy x (List.mem_singleton.mpr rfl)
  rw [Bool.eq_false_iff]
  intro hk
  simp only [Bool.and_eq_true, beq_iff_eq] at hk
  exact this hk

theorem mem_of_filter_eq {A : AState} {cid : Nat} {ls0 : List ALoop} {x : ALoop}
    (hfl : A.loops.filter (fun y => y.cid == cid) = ls0 ++ [x]) : x ∈ A.loops := by
  have : x ∈ A.loops.filter (fun y => y.cid == cid) := by rw [hfl]; simp
  exact (List.mem_filter.mp this).1

theorem findLoop_of_mem (o : Opts) (A : AState) (hi : AInv o A) (x : ALoop) (hx : x ∈ A.loops) : A.findLoop x.cid x.num = some x := by
  unfold AState.findLoop
  cases hf : A.loops.find? (fun y => y.cid == x.cid && y.num == x.num) with
  | none =>
    have := List.find?_eq_none.mp hf x hx
    simp at this
  | some x' =>
    have hm := List.mem_of_find?_eq_some hf
    have hk := List.find?_some hf
    simp only [Bool.and_eq_true, beq_iff_eq] at hk
    rw [hi.loopKeys x' hm x hx hk.1 hk.2]

/-- **cif_loop_add_packet** of the packet `names ↦ values` on the open loop: the call succeeds and adds exactly the row of values to
    the last loop of the container -/
theorem sim_addPkt (o : Opts) (A : AState) (hi : AInv o A) (t : Nat) (num : Nat) (names : List Str)
    (hop : OpenLoop o A t num names) (vals : List V) (hne : vals ≠ []) (hlen : names.length = vals.length)
    (l : LH) (hl1 : l.cid = t) (hl2 : l.loopNum = num) :
    Store.specAddPacket A l ((names.map o.norm).zip vals) = (withPkt A t num vals, .ok ()) ∧ AInv o (withPkt A t num vals) ∧
      LoopsUpd A (withPkt A t num vals) t (fun ls => addPacketLast ls vals) ∧
      OpenLoop o (withPkt A t num vals) t num names := by
  obtain ⟨ls0, x, hfl, hxc, hxn, hcat, hitems, hnd⟩ := hop
  have hxm : x ∈ A.loops := mem_of_filter_eq hfl
  have hfind : A.findLoop t num = some x := by rw [← hxc, ← hxn]; exact findLoop_of_mem o A hi x hxm
  have hfcid : ∀ y : ALoop, ({ y with packets := y.packets ++ [vals] } : ALoop).cid = y.cid := fun _ => rfl
  have hlast := loopsOf_onLoop_last o A hi t num (fun y => { y with packets := y.packets ++ [vals] }) hfcid ls0 x hfl hxc hxn
  have hinv : AInv o (withPkt A t num vals) := hi.onLoop t num _ (fun y hy => ⟨rfl, rfl, hi.itemNorm y hy⟩)
  refine ⟨?_, hinv, ?_, ?_⟩
  · have hpkt : x.packetOf ((names.map o.norm).zip vals) = vals := by
      unfold ALoop.packetOf
      rw [hitems, List.map_map]
      have := zip_lookup (names.map o.norm) vals hnd (by simp [hlen])
      rw [List.map_map] at this
      exact this
    have h1 : ((names.map o.norm).zip vals).isEmpty = false := by
      cases names with
      | nil => cases vals with
        | nil => exact absurd rfl hne
        | cons _ _ => simp at hlen
      | cons _ _ => cases vals with
        | nil => exact absurd rfl hne
        | cons _ _ => rfl
    have h2 : (x.category == some [] && !x.packets.isEmpty) = false := by rw [hcat]; rfl
    have h3 : ((names.map o.norm).zip vals).any (fun e => !x.hasItem e.1) = false := by
      rw [List.any_eq_false]
      intro e he
      have hm := (List.of_mem_zip he).1
      obtain ⟨n, hn1, hn2⟩ := List.mem_map.mp hm
      have : x.hasItem e.1 = true := by
        unfold ALoop.hasItem
        rw [hitems, List.any_map, List.any_eq_true]
        exact ⟨n, hn1, by simp [hn2]⟩
      simp [this]
    unfold Store.specAddPacket
    simp only [h1, hl1, hl2, hfind, h2, h3, Bool.false_eq_true, if_false]
    congr 1
    unfold withPkt
    apply Store.onLoop_congr
    intro z hz hk
    simp only [Bool.and_eq_true, beq_iff_eq] at hk
    have : z = x := hi.loopKeys z hz x hxm (by rw [hk.1, hxc]) (by rw [hk.2, hxn])
    rw [this, hpkt]
  · refine ⟨rfl, rfl, fun c hc => loopsOf_onLoop_other A t num _ hfcid c hc, ?_⟩
    show loopsOf (withPkt A t num vals) t = addPacketLast (loopsOf A t) vals
    unfold loopsOf
    rw [show (withPkt A t num vals).loops.filter (fun y => y.cid == t) = ls0 ++ [{ x with packets := x.packets ++ [vals] }] from hlast,
      hfl, List.map_append, List.map_append, List.map_cons, List.map_nil, List.map_cons, List.map_nil, addPacketLast_append]
    rfl
  · exact ⟨ls0, { x with packets := x.packets ++ [vals] }, hlast, hxc, hxn, hcat, hitems, hnd⟩

/-! ### cif_container_set_value -/

/-- one packet: "the given value in the item's cell" as the identity model says it (`ALoop.setColumn`) and as the parser model does
    it (`setAll`: the first matching cell) — the same, because keys are distinct and the packet is as wide as the header -/
theorem cells_set (o : Opts) (k : Str) (v : V) : ∀ (items : List (Str × Str)) (p : List V),
    (∀ it ∈ items, it.1 = o.norm it.2) → (items.map (·.1)).Nodup → p.length = items.length →
    (items.zip p).map (fun e => if e.1.1 == k then v else e.2) =
      (match (items.map (·.2)).findIdx? (fun n => o.norm n == k) with
       | none => p
       | some i => p.set i v)
  | [], p, _, _, hl => by
    cases p with
    | nil => rfl
    | cons _ _ => simp at hl
  | it :: r, p, hn, hnd, hl => by
    cases p with
    | nil => simp at hl
    | cons c p' =>
      have hit : it.1 = o.norm it.2 := hn it List.mem_cons_self
      have hn' : ∀ it' ∈ r, it'.1 = o.norm it'.2 := fun it' h' => hn it' (List.mem_cons_of_mem _ h')
      simp only [List.map_cons, List.nodup_cons] at hnd
      have hl' : p'.length = r.length := by simpa using hl
      have ih := cells_set o k v r p' hn' hnd.2 hl'
      simp only [List.zip_cons_cons, List.map_cons, List.findIdx?_cons, ← hit]
      by_cases hk : (it.1 == k) = true
      · simp only [hk, if_true, List.set_cons_zero]
        congr 1
        rw [ih]
        have : (r.map (·.2)).findIdx? (fun n => o.norm n == k) = none := by
          rw [List.findIdx?_eq_none_iff]
          intro x hx
          obtain ⟨it', hit', rfl⟩ := List.mem_map.mp hx
          rw [← hn' it' hit']
          have hk' : it.1 = k := by simpa using hk
          rw [Bool.eq_false_iff]
          intro he
          have : it'.1 = k := by simpa using he
          exact hnd.1 (by rw [hk', ← this]; exact List.mem_map_of_mem hit')
        rw [this]
      · have hk' : (it.1 == k) = false := by simpa using hk
        simp only [hk', Bool.false_eq_true, if_false]
        rw [ih]
        cases (r.map (·.2)).findIdx? (fun n => o.norm n == k) with
        | none => rfl
        | some i => simp only [Option.map_some, List.set_cons_succ]

/-- one loop: `setColumn` on the identity model is `setAll` on the tree (keys normalised and distinct, packets rectangular) -/
theorem toLoop_setColumn (o : Opts) (z : ALoop) (k : Str) (v : V) (hn : ∀ it ∈ z.items, it.1 = o.norm it.2)
    (hnd : (z.items.map (·.1)).Nodup) (hrect : ∀ p ∈ z.packets, p.length = z.items.length) :
    (z.setColumn k v).toLoop = setAll o.norm k v z.toLoop := by
  unfold ALoop.setColumn ALoop.toLoop setAll
  simp only []
  cases hfi : (z.items.map (·.2)).findIdx? (fun n => o.norm n == k) with
  | none =>
    simp only []
    congr 1
    conv => rhs; rw [← List.map_id z.packets]
    apply List.map_congr_left
    intro p hp
    rw [cells_set o k v z.items p hn hnd (hrect p hp), hfi]
    rfl
  | some i =>
    simp only []
    congr 1
    apply List.map_congr_left
    intro p hp
    rw [cells_set o k v z.items p hn hnd (hrect p hp), hfi]

theorem keys_eq_norm_names (o : Opts) (z : ALoop) (hn : ∀ it ∈ z.items, it.1 = o.norm it.2) :
    z.toLoop.names.map o.norm = z.items.map (·.1) := by
  unfold ALoop.toLoop
  simp only [List.map_map]
  apply List.map_congr_left
  intro it hit
  simp only [Function.comp, hn it hit]

theorem mem_normNames (o : Opts) (k : Str) (L : List ALoop) (hn : ∀ y ∈ L, ∀ it ∈ y.items, it.1 = o.norm it.2) (z : ALoop) (hz : z ∈ L)
    (hk : z.hasItem k = true) : k ∈ normNames o (L.map ALoop.toLoop) := by
  unfold normNames
  rw [List.mem_flatten]
  refine ⟨z.toLoop.names.map o.norm, ?_, ?_⟩
  · rw [List.map_map]; exact List.mem_map_of_mem (f := (fun l => l.names.map o.norm) ∘ ALoop.toLoop) hz
  · rw [keys_eq_norm_names o z (hn z hz)]
    unfold ALoop.hasItem at hk
    obtain ⟨it, hit, he⟩ := List.any_eq_true.mp hk
    have : it.1 = k := by simpa using he
    rw [← this]
    exact List.mem_map_of_mem hit

/-- at most one loop of a consistent container holds a given item -/
theorem unique_holder (o : Opts) (k : Str) : ∀ (L : List ALoop), (∀ y ∈ L, ∀ it ∈ y.items, it.1 = o.norm it.2) →
    (normNames o (L.map ALoop.toLoop)).Nodup → ∀ y ∈ L, ∀ z ∈ L, y.hasItem k = true → z.hasItem k = true → y = z
  | [], _, _, y, hy, _, _, _, _ => by cases hy
  | a :: r, hn, hnd, y, hy, z, hz, hyk, hzk => by
    rw [List.map_cons, normNames_cons, List.nodup_append] at hnd
    have hn' : ∀ y ∈ r, ∀ it ∈ y.items, it.1 = o.norm it.2 := fun y h' => hn y (List.mem_cons_of_mem _ h')
    have hain : ∀ x : ALoop, x = a → x.hasItem k = true → k ∈ a.toLoop.names.map o.norm := by
      intro x hx hxk
      subst hx
      have := mem_normNames o k [x] (fun y hy' => by simp only [List.mem_singleton] at hy'; subst hy'; exact hn y List.mem_cons_self) x
        (List.mem_singleton.mpr rfl) hxk
      simpa [normNames] using this
    rcases List.mem_cons.mp hy with rfl | hy' <;> rcases List.mem_cons.mp hz with rfl | hz'
    · rfl
    · exact absurd rfl (hnd.2.2 k (hain y rfl hyk) k (mem_normNames o k r hn' z hz' hzk))
    · exact absurd rfl (hnd.2.2 k (hain z rfl hzk) k (mem_normNames o k r hn' y hy' hyk))
    · exact unique_holder o k r hn' hnd.2.1 y hy' z hz' hyk hzk

/-- what the consistency of the container (`LoopsOk`, `LoopsRect` of its loops as the tree shows them) says about its loops in the
    identity model -/
theorem loop_facts (o : Opts) (A : AState) (hi : AInv o A) (cid : Nat) (hok : LoopsOk o (loopsOf A cid)) (hrect : LoopsRect (loopsOf A cid))
    (z : ALoop) (hz : z ∈ A.loops.filter (fun y => y.cid == cid)) :
    (z.items.map (·.1)).Nodup ∧ ∀ p ∈ z.packets, p.length = z.items.length := by
  have hzm : z ∈ A.loops := (List.mem_filter.mp hz).1
  have hzl : z.toLoop ∈ loopsOf A cid := List.mem_map_of_mem hz
  refine ⟨?_, ?_⟩
  · rw [← keys_eq_norm_names o z (hi.itemNorm z hzm)]
    exact nodup_names_of_mem o _ _ hok.1 hzl
  · intro p hp
    have := hrect _ hzl p hp
    simpa [ALoop.toLoop] using this

theorem setAll_lacks (o : Opts) (z : ALoop) (k : Str) (v : V) (hn : ∀ it ∈ z.items, it.1 = o.norm it.2) (hk : z.hasItem k = false) :
    setAll o.norm k v z.toLoop = z.toLoop := by
  unfold setAll
  have : z.toLoop.names.findIdx? (fun n => o.norm n == k) = none := by
    rw [List.findIdx?_eq_none_iff]
    intro x hx
    unfold ALoop.toLoop at hx
    obtain ⟨it, hit, rfl⟩ := List.mem_map.mp hx
    rw [← hn it hit]
    unfold ALoop.hasItem at hk
    exact List.any_eq_false.mp hk it hit |> fun h => by simpa using h
  rw [this]

/-- the loops of container `cid` that hold item `k`: exactly one, when the container has the item -/
theorem holder (o : Opts) (A : AState) (hi : AInv o A) (cid : Nat) (k : Str) (hok : LoopsOk o (loopsOf A cid))
    (hhas : A.hasItem cid k = true) :
    ∃ y, A.loops.filter (fun y => y.cid == cid && y.hasItem k) = [y] ∧ y ∈ A.loops ∧ y.cid = cid ∧ y.hasItem k = true := by
  have hinL : ∀ z, z ∈ A.loops.filter (fun y => y.cid == cid && y.hasItem k) →
      z ∈ A.loops.filter (fun y => y.cid == cid) ∧ z.hasItem k = true := by
    intro z hz
    obtain ⟨hzm, hzp⟩ := List.mem_filter.mp hz
    simp only [Bool.and_eq_true] at hzp
    exact ⟨List.mem_filter.mpr ⟨hzm, hzp.1⟩, hzp.2⟩
  have hnL : ∀ y ∈ A.loops.filter (fun y => y.cid == cid), ∀ it ∈ y.items, it.1 = o.norm it.2 :=
    fun y hy => hi.itemNorm y (List.mem_filter.mp hy).1
  have hpw := List.Pairwise.filter (fun y => y.cid == cid && y.hasItem k) hi.loopPw
  cases hF : A.loops.filter (fun y => y.cid == cid && y.hasItem k) with
  | nil =>
    exfalso
    unfold AState.hasItem at hhas
    obtain ⟨y, hy, hp⟩ := List.any_eq_true.mp hhas
    have : y ∈ A.loops.filter (fun y => y.cid == cid && y.hasItem k) := List.mem_filter.mpr ⟨hy, hp⟩
    rw [hF] at this; cases this
  | cons y rest =>
    have hy := hinL y (by rw [hF]; exact List.mem_cons_self)
    cases rest with
    | nil =>
      have hyc : y.cid = cid := by simpa using (List.mem_filter.mp hy.1).2
      exact ⟨y, rfl, (List.mem_filter.mp hy.1).1, hyc, hy.2⟩
    | cons y2 r2 =>
      exfalso
      have hy2 := hinL y2 (by rw [hF]; simp)
      have he : y = y2 := unique_holder o k _ hnL hok.1 y hy.1 y2 hy2.1 hy.2 hy2.2
      rw [hF, List.pairwise_cons] at hpw
      exact hpw.1 y2 List.mem_cons_self ⟨by rw [he], by rw [he]⟩

/-- **cif_container_set_value of an item the container has**: the value in every packet of the item's loop -/
theorem sim_setVal_existing (o : Opts) (A : AState) (hi : AInv o A) (t : Nat) (h : CH)
    (hh : h.id = t) (n : Str) (v : V) (hvn : isValidName true n = true) (hok : LoopsOk o (loopsOf A t))
    (hrect : LoopsRect (loopsOf A t)) (hhas : A.hasItem t (o.norm n) = true) :
    ∃ A', Store.specSetValue A h (some (mkName o true n)) (some v) = (A', .ok ()) ∧ AInv o A' ∧
      LoopsUpd A A' t (fun ls => ls.map (setAll o.norm (o.norm n) v)) := by
  obtain ⟨y, hF, hym, hyc, hyk⟩ := holder o A hi t (o.norm n) hok hhas
  have hkey : (mkName o true n).key = o.norm n := rfl
  have hgi : Store.specGetItemLoop A h (some (mkName o true n)) = .ok { cid := h.id, loopNum := y.num, category := y.category } := by
    unfold Store.specGetItemLoop
    have hv : (mkName o true n).valid = true := hvn
    simp only [hv, Bool.not_true, Bool.false_eq_true, if_false, hkey, hh, hF]
  have hspec := Store.specSetValue_existing A h (mkName o true n) (some v) _ hvn hgi
  simp only [hkey, Option.getD_some, hh] at hspec
  have hfcid : ∀ z : ALoop, (z.setColumn (o.norm n) v).cid = z.cid := fun _ => rfl
  refine ⟨_, hspec, hi.onLoop _ _ _ (fun z hz => ⟨rfl, rfl, hi.itemNorm z hz⟩), rfl, rfl, ?_, ?_⟩
  · intro c hc
    exact loopsOf_onLoop_other A t y.num _ hfcid c hc
  · show loopsOf (A.onLoop t y.num fun y => y.setColumn (o.norm n) v) t = (loopsOf A t).map (setAll o.norm (o.norm n) v)
    unfold loopsOf
    rw [filter_onLoop A t y.num _ hfcid t, List.map_map, List.map_map]
    apply List.map_congr_left
    intro z hz
    simp only [Function.comp]
    have hzm : z ∈ A.loops := (List.mem_filter.mp hz).1
    have hzc : z.cid = t := by simpa using (List.mem_filter.mp hz).2
    obtain ⟨hnd, hr⟩ := loop_facts o A hi t hok hrect z hz
    split
    · exact toLoop_setColumn o z (o.norm n) v (hi.itemNorm z hzm) hnd hr
    · rename_i hne
      have hzk : z.hasItem (o.norm n) = false := by
        rw [Bool.eq_false_iff]
        intro hzk
        have hyL : y ∈ A.loops.filter (fun y => y.cid == t) := List.mem_filter.mpr ⟨hym, by simp [hyc]⟩
        have : z = y := unique_holder o (o.norm n) _ (fun y hy => hi.itemNorm y (List.mem_filter.mp hy).1) hok.1 z hz y hyL hzk hyk
        apply hne
        rw [this]; simp [hyc]
      exact (setAll_lacks o z (o.norm n) v (hi.itemNorm z hzm) hzk).symm

/-- the parser model's `addScalar` when the container has no scalar loop: a new one, last -/
theorem addScalar_none (nm : Str) (v : V) : ∀ ls : List Loop, (∀ l ∈ ls, isScalarLoop l = false) →
    addScalar ls nm v = ls ++ [{ category := some [], names := [nm], packets := [[v]] }]
  | [], _ => rfl
  | l :: r, h => by
    have hl := h l List.mem_cons_self
    simp only [addScalar, hl, Bool.false_eq_true, if_false, List.cons_append]
    rw [addScalar_none nm v r (fun x hx => h x (List.mem_cons_of_mem _ hx))]

/-- what `addScalar` does to the scalar loop -/
def scalarUpd (nm : Str) (v : V) (l : Loop) : Loop :=
  { l with names := l.names ++ [nm],
           packets := if l.packets.isEmpty then [l.names.map (fun _ => V.unk) ++ [v]] else l.packets.map (· ++ [v]) }

theorem addScalar_map (nm : Str) (v : V) : ∀ ls : List Loop, (ls.filter isScalarLoop).length ≤ 1 → ls.any isScalarLoop = true →
    addScalar ls nm v = ls.map (fun l => if isScalarLoop l then scalarUpd nm v l else l)
  | [], _, h => by cases h
  | l :: r, hlen, hany => by
    by_cases hl : isScalarLoop l = true
    · simp only [addScalar, hl, if_true, List.map_cons, scalarUpd]
      congr 1
      have hr : ∀ x ∈ r, isScalarLoop x = false := by
        intro x hx
        rw [Bool.eq_false_iff]
        intro hxs
        have : x ∈ r.filter isScalarLoop := List.mem_filter.mpr ⟨hx, hxs⟩
        simp only [List.filter_cons, hl, if_true, List.length_cons] at hlen
        have h0 : (r.filter isScalarLoop).length = 0 := by omega
        rw [List.length_eq_zero_iff] at h0
        rw [h0] at this; cases this
      conv => lhs; rw [← List.map_id r]
      apply List.map_congr_left
      intro x hx
      simp [hr x hx]
    · have hl' : isScalarLoop l = false := by simpa using hl
      simp only [addScalar, hl', Bool.false_eq_true, if_false, List.map_cons]
      congr 1
      apply addScalar_map nm v r
      · simpa [List.filter_cons, hl'] using hlen
      · simpa [List.any_cons, hl'] using hany

/-- the scalar loops of container `cid` in the identity model: at most one in a consistent container -/
theorem scalar_loops (o : Opts) (A : AState) (cid : Nat) (hok : LoopsOk o (loopsOf A cid)) :
    (A.loops.filter (fun z => z.cid == cid && z.category == some [])).length ≤ 1 := by
  have h := hok.2.1
  unfold loopsOf at h
  rw [List.filter_map, List.length_map, List.filter_filter] at h
  have : A.loops.filter (fun z => z.cid == cid && z.category == some []) =
      A.loops.filter (fun a => (isScalarLoop ∘ ALoop.toLoop) a && (a.cid == cid)) := by
    apply List.filter_congr
    intro z _
    rw [Bool.and_comm]; rfl
  rw [this]; exact h

theorem findLoop_fresh (o : Opts) (A : AState) (hi : AInv o A) (c : ContainerRow) (hc : c ∈ A.containers) :
    A.findLoop c.id c.nextLoopNum = none := by
  unfold AState.findLoop
  rw [List.find?_eq_none]
  intro y hy hp
  simp only [Bool.and_eq_true, beq_iff_eq] at hp
  have := hi.loopNums y hy c hc hp.1.symm
  omega

/-- **cif_container_set_value of an item the container does not have**: the item joins the scalar loop (created when absent) -/
theorem sim_setVal_new (o : Opts) (A : AState) (hi : AInv o A) (t : Nat) (hnode : Node A t) (h : CH)
    (hh : h.id = t) (n : Str) (v : V) (hvn : isValidName true n = true) (hok : LoopsOk o (loopsOf A t))
    (hhas : A.hasItem t (o.norm n) = false) :
    ∃ A', Store.specSetValue A h (some (mkName o true n)) (some v) = (A', .ok ()) ∧ AInv o A' ∧
      LoopsUpd A A' t (fun ls => addScalar ls n v) := by
  have hkey : (mkName o true n).key = o.norm n := rfl
  have horig : (mkName o true n).orig = n := rfl
  have hitem : A.loops.filter (fun y => y.cid == h.id && y.hasItem (mkName o true n).key) = [] := by
    rw [List.filter_eq_nil_iff, hh, hkey]
    intro y hy hp
    unfold AState.hasItem at hhas
    have := List.any_eq_false.mp hhas y hy
    exact this hp
  have hsl := scalar_loops o A t hok
  cases hS : A.loops.filter (fun z => z.cid == t && z.category == some []) with
  | nil =>
    obtain ⟨c, hc, hcb, hfind⟩ := find_container o A hi t hnode
    have hfresh : A.findLoop h.id c.nextLoopNum = none := by rw [hh, ← hcb]; exact findLoop_fresh o A hi c hc
    have hspec := Store.specSetValue_creates A h (mkName o true n) (some v) c hvn (by rw [hh]; exact hfind) hitem (by rw [hh]; exact hS) hfresh
    simp only [hkey, horig, Option.getD_some, hh] at hspec
    let x : ALoop := { cid := t, num := c.nextLoopNum, category := some [], items := [(o.norm n, n)], packets := [[v]] }
    have hA' : Store.specSetValue A h (some (mkName o true n)) (some v) = (withLoopG A t x, .ok ()) := hspec
    refine ⟨withLoopG A t x, hA', hi.withLoopG t hnode c hc hcb x rfl rfl ?_, rfl, rfl, ?_, ?_⟩
    · intro it hit
      simp only [x, List.mem_singleton] at hit
      subst hit; rfl
    · intro c' hc'
      exact loopsOf_withLoopG_other A t x rfl c' hc'
    · show loopsOf (withLoopG A t x) t = addScalar (loopsOf A t) n v
      rw [loopsOf_withLoopG_same A t x rfl]
      symm
      apply addScalar_none
      intro l hl
      unfold loopsOf at hl
      obtain ⟨z, hz, rfl⟩ := List.mem_map.mp hl
      rw [Bool.eq_false_iff]
      intro hsc
      have hzc : (z.category == some []) = true := hsc
      obtain ⟨hzm, hzp⟩ := List.mem_filter.mp hz
      have : z ∈ A.loops.filter (fun z => z.cid == t && z.category == some []) :=
        List.mem_filter.mpr ⟨hzm, by simp [hzp, hzc]⟩
      rw [hS] at this; cases this
  | cons y rest =>
    have hrest : rest = [] := by
      rw [hS] at hsl
      cases rest with
      | nil => rfl
      | cons _ _ => simp at hsl
    subst hrest
    have hyS : y ∈ A.loops.filter (fun z => z.cid == t && z.category == some []) := by rw [hS]; exact List.mem_cons_self
    obtain ⟨hym, hyp⟩ := List.mem_filter.mp hyS
    simp only [Bool.and_eq_true, beq_iff_eq] at hyp
    obtain ⟨hyc, hycat⟩ := hyp
    have hspec := Store.specSetValue_joins A h (mkName o true n) (some v) y hvn hitem (by rw [hh]; exact hS)
      (fun z hz hk => by
        simp only [Bool.and_eq_true, beq_iff_eq] at hk
        exact hi.loopKeys z hz y hym hk.1 hk.2)
    simp only [hkey, horig, Option.getD_some] at hspec
    let f : ALoop → ALoop := fun z => { z with
      items := z.items ++ [(o.norm n, n)]
      packets := (if z.packets.isEmpty then [z.items.map (fun _ => V.unk) ++ [v]] else z.packets.map (· ++ [v])) }
    have hcongr : A.onLoop y.cid y.num (fun _ => f y) = A.onLoop y.cid y.num f := by
      apply Store.onLoop_congr
      intro z hz hk
      simp only [Bool.and_eq_true, beq_iff_eq] at hk
      rw [hi.loopKeys z hz y hym hk.1 hk.2]
    have hA' : Store.specSetValue A h (some (mkName o true n)) (some v) = (A.onLoop t y.num f, .ok ()) := by
      rw [hspec, ← hyc, ← hcongr]
    have hfcid : ∀ z : ALoop, (f z).cid = z.cid := fun _ => rfl
    refine ⟨_, hA', hi.onLoop _ _ f (fun z hz => ⟨rfl, rfl, ?_⟩), rfl, rfl, ?_, ?_⟩
    · intro it hit
      rcases List.mem_append.mp hit with h1 | h1
      · exact hi.itemNorm z hz it h1
      · simp only [List.mem_singleton] at h1; subst h1; rfl
    · intro c' hc'
      exact loopsOf_onLoop_other A t y.num f hfcid c' hc'
    · show loopsOf (A.onLoop t y.num f) t = addScalar (loopsOf A t) n v
      have hyL : y ∈ A.loops.filter (fun z => z.cid == t) := List.mem_filter.mpr ⟨hym, by simp [hyc]⟩
      have hany : (loopsOf A t).any isScalarLoop = true := by
        rw [List.any_eq_true]
        exact ⟨y.toLoop, List.mem_map_of_mem hyL, by show (y.category == some []) = true; simp [hycat]⟩
      rw [addScalar_map n v _ hok.2.1 hany]
      unfold loopsOf
      rw [filter_onLoop A t y.num f hfcid t, List.map_map, List.map_map]
      apply List.map_congr_left
      intro z hz
      simp only [Function.comp]
      obtain ⟨hzm, hzp⟩ := List.mem_filter.mp hz
      have hzc : z.cid = t := by simpa using hzp
      have hsc : isScalarLoop z.toLoop = (z.category == some []) := rfl
      by_cases hm : (z.cid == t && z.num == y.num) = true
      · simp only [hm, if_true]
        simp only [Bool.and_eq_true, beq_iff_eq] at hm
        have hzy : z = y := hi.loopKeys z hzm y hym (by rw [hm.1, hyc]) hm.2
        have : isScalarLoop z.toLoop = true := by rw [hsc, hzy, hycat]; rfl
        rw [this, if_pos rfl]
        simp only [f, ALoop.toLoop, scalarUpd, List.map_append, List.map_cons, List.map_nil, List.map_map]
        rfl
      · have hm' : (z.cid == t && z.num == y.num) = false := by simpa using hm
        simp only [hm', Bool.false_eq_true, if_false]
        have : isScalarLoop z.toLoop = false := by
          rw [hsc, Bool.eq_false_iff]
          intro hzs
          have : z ∈ A.loops.filter (fun z => z.cid == t && z.category == some []) :=
            List.mem_filter.mpr ⟨hzm, by simp [hzp, hzs]⟩
          rw [hS, List.mem_singleton] at this
          apply hm
          rw [this]; simp [hyc]
        rw [this]; rfl

/-- what cif_container_set_value does to the loops of a container (the parser model's `setValueC`, as a function of the loops) -/
def setValLoops (o : Opts) (n : Str) (v : V) (ls : List Loop) : List Loop :=
  if ls.any (fun l => l.names.any fun x => o.norm x == o.norm n) then ls.map (setAll o.norm (o.norm n) v) else addScalar ls n v

theorem setValueC_eq (o : Opts) (n : Str) (v : V) :
    setValueC o n v = fun c => Container.mk c.code c.frames (setValLoops o n v c.loops) := by
  funext c
  unfold setValueC setValLoops hasItem
  split <;> rfl

/-- **cif_container_set_value** with a valid data name on container `t` whose loops are consistent and rectangular: the call
    succeeds and changes the loops of `t` as the parser model's `setValueC` does -/
theorem sim_setVal (o : Opts) (A : AState) (hi : AInv o A) (t : Nat) (hnode : Node A t) (h : CH)
    (hh : h.id = t) (n : Str) (v : V) (hvn : isValidName true n = true) (hok : LoopsOk o (loopsOf A t)) (hrect : LoopsRect (loopsOf A t)) :
    ∃ A', Store.specSetValue A h (some (mkName o true n)) (some v) = (A', .ok ()) ∧ AInv o A' ∧ LoopsUpd A A' t (setValLoops o n v) := by
  have hany : (loopsOf A t).any (fun l => l.names.any fun x => o.norm x == o.norm n) = A.hasItem t (o.norm n) :=
    hasItem_loops o A hi t (Container.mk [] [] (loopsOf A t)) rfl (o.norm n)
  cases hhas : A.hasItem t (o.norm n) with
  | true =>
    obtain ⟨A', h1, h2, h3, h4, h5, h6⟩ := sim_setVal_existing o A hi t h hh n v hvn hok hrect hhas
    refine ⟨A', h1, h2, h3, h4, h5, ?_⟩
    rw [h6]
    unfold setValLoops
    rw [hany, hhas, if_pos rfl]
  | false =>
    obtain ⟨A', h1, h2, h3, h4, h5, h6⟩ := sim_setVal_new o A hi t hnode h hh n v hvn hok hhas
    refine ⟨A', h1, h2, h3, h4, h5, ?_⟩
    rw [h6]
    unfold setValLoops
    rw [hany, hhas]
    rfl

/-! ### reading back: cif_container_get_value after cif_container_set_value (property C07, route `parser`) -/

theorem find?_congr_mem {α} (p q : α → Bool) : ∀ l : List α, (∀ z ∈ l, p z = q z) → l.find? p = l.find? q
  | [], _ => rfl
  | x :: r, h => by
    simp only [List.find?_cons, h x List.mem_cons_self, find?_congr_mem p q r (fun z hz => h z (List.mem_cons_of_mem _ hz))]

/-- the first loop of the container that has the item holds `v` in the item's cell of every packet, and has a packet: get_value
    delivers `v` -/
theorem getVal_of_column (A : AState) (h : CH) (nm : Name) (v : V) (x : ALoop) (hv : nm.valid = true)
    (hf : A.loops.find? (fun y => y.cid == h.id && y.hasItem nm.key) = some x) (hne : x.packets ≠ [])
    (hcell : ∀ p ∈ x.packets, p.getD (x.items.findIdx (fun it => it.1 == nm.key)) V.unk = v) :
    ∃ amb, Store.specGetValue A h (some nm) = .ok (v, amb) := by
  unfold Store.specGetValue AState.columnOf
  simp only [hv, Bool.not_true, Bool.false_eq_true, if_false, hf, ALoop.column]
  cases hp : x.packets with
  | nil => exact absurd hp hne
  | cons p r =>
    have h1 : p.getD (x.items.findIdx (fun it => it.1 == nm.key)) V.unk = v := hcell p (by rw [hp]; exact List.mem_cons_self)
    cases r with
    | nil => exact ⟨false, by simp only [List.map_cons, List.map_nil, h1]⟩
    | cons p2 r2 => exact ⟨true, by simp only [List.map_cons, h1]⟩

theorem zipmap_getD (k : Str) (v : V) : ∀ (items : List (Str × Str)) (p : List V), items.any (fun it => it.1 == k) = true →
    p.length = items.length →
    ((items.zip p).map (fun e => if e.1.1 == k then v else e.2)).getD (items.findIdx (fun it => it.1 == k)) V.unk = v
  | [], _, h, _ => by simp at h
  | it :: r, p, h, hl => by
    cases p with
    | nil => simp at hl
    | cons c p' =>
      simp only [List.zip_cons_cons, List.map_cons, List.findIdx_cons]
      by_cases hk : (it.1 == k) = true
      · simp only [hk, if_true, cond_true, List.getD_cons_zero]
      · have hk' : (it.1 == k) = false := by simpa using hk
        simp only [hk', Bool.false_eq_true, if_false, cond_false, List.getD_cons_succ]
        apply zipmap_getD k v r p'
        · simpa [List.any_cons, hk'] using h
        · simpa using hl

theorem findIdx_none_length {α} (p : α → Bool) : ∀ l : List α, (∀ x ∈ l, p x = false) → l.findIdx p = l.length
  | [], _ => rfl
  | x :: r, h => by
    simp only [List.findIdx_cons, h x List.mem_cons_self, cond_false, List.length_cons,
      findIdx_none_length p r (fun y hy => h y (List.mem_cons_of_mem _ hy))]

theorem getD_append_len {α} (l : List α) (a d : α) : (l ++ [a]).getD l.length d = a := by
  simp [List.getD]

theorem find?_map_inv {α} (G : α → α) (p : α → Bool) : ∀ l : List α, (∀ z ∈ l, p (G z) = p z) → (l.map G).find? p = (l.find? p).map G
  | [], _ => rfl
  | x :: r, h => by
    simp only [List.map_cons, List.find?_cons, h x List.mem_cons_self]
    cases p x with
    | true => rfl
    | false => exact find?_map_inv G p r (fun z hz => h z (List.mem_cons_of_mem _ hz))

/-- **set_value then get_value, existing item**: when the item's loop has a packet, get_value delivers the value just set -/
theorem reads_existing (o : Opts) (A : AState) (hi : AInv o A) (t : Nat) (h : CH) (hh : h.id = t) (n : Str) (v : V)
    (hvn : isValidName true n = true) (hok : LoopsOk o (loopsOf A t)) (hrect : LoopsRect (loopsOf A t))
    (hhas : A.hasItem t (o.norm n) = true) :
    ∃ y, y ∈ A.loops ∧ y.cid = t ∧ y.hasItem (o.norm n) = true ∧
      (y.packets ≠ [] → ∀ A', Store.specSetValue A h (some (mkName o true n)) (some v) = (A', .ok ()) →
        ∃ amb, Store.specGetValue A' h (some (mkName o true n)) = .ok (v, amb)) := by
  obtain ⟨y, hF, hym, hyc, hyk⟩ := holder o A hi t (o.norm n) hok hhas
  refine ⟨y, hym, hyc, hyk, ?_⟩
  intro hne A' hA'
  have hkey : (mkName o true n).key = o.norm n := rfl
  have hgi : Store.specGetItemLoop A h (some (mkName o true n)) = .ok { cid := h.id, loopNum := y.num, category := y.category } := by
    unfold Store.specGetItemLoop
    have hv : (mkName o true n).valid = true := hvn
    simp only [hv, Bool.not_true, Bool.false_eq_true, if_false, hkey, hh, hF]
  have hspec := Store.specSetValue_existing A h (mkName o true n) (some v) _ hvn hgi
  simp only [hkey, Option.getD_some, hh] at hspec
  rw [hspec] at hA'
  have hAe : A' = A.onLoop t y.num (fun z => z.setColumn (o.norm n) v) := (Prod.mk.inj hA').1.symm
  subst hAe
  have hyL : y ∈ A.loops.filter (fun z => z.cid == t) := List.mem_filter.mpr ⟨hym, by simp [hyc]⟩
  obtain ⟨hnd, hr⟩ := loop_facts o A hi t hok hrect y hyL
  have hfind0 : A.loops.find? (fun z => z.cid == t && z.hasItem (o.norm n)) = some y := by
    rw [← List.head?_filter, hF]; rfl
  apply getVal_of_column _ h (mkName o true n) v (y.setColumn (o.norm n) v) hvn
  · show (A.loops.map _).find? _ = _
    rw [hkey, hh, find?_map_inv _ _ A.loops, hfind0]
    · simp only [Option.map_some]
      have : (y.cid == t && y.num == y.num) = true := by simp [hyc]
      simp only [this, if_true]
    · intro z _
      split <;> rfl
  · show y.packets.map _ ≠ []
    intro e
    exact hne (List.map_eq_nil_iff.mp e)
  · intro p hp
    obtain ⟨p0, hp0, rfl⟩ := List.mem_map.mp hp
    exact zipmap_getD (o.norm n) v y.items p0 hyk (hr p0 hp0)

/-- **set_value then get_value, new item**: get_value delivers the value just stored, whatever the container held -/
theorem reads_new (o : Opts) (A : AState) (hi : AInv o A) (t : Nat) (hnode : Node A t) (h : CH) (hh : h.id = t) (n : Str) (v : V)
    (hvn : isValidName true n = true) (hok : LoopsOk o (loopsOf A t)) (hrect : LoopsRect (loopsOf A t))
    (hhas : A.hasItem t (o.norm n) = false) :
    ∀ A', Store.specSetValue A h (some (mkName o true n)) (some v) = (A', .ok ()) →
      ∃ amb, Store.specGetValue A' h (some (mkName o true n)) = .ok (v, amb) := by
  intro A' hA'
  have hkey : (mkName o true n).key = o.norm n := rfl
  have horig : (mkName o true n).orig = n := rfl
  have hno : ∀ z ∈ A.loops, (z.cid == t && z.hasItem (o.norm n)) = false := by
    intro z hz
    unfold AState.hasItem at hhas
    exact List.any_eq_false.mp hhas z hz |> fun h => by simpa using h
  have hitem : A.loops.filter (fun y => y.cid == h.id && y.hasItem (mkName o true n).key) = [] := by
    rw [List.filter_eq_nil_iff, hh, hkey]
    intro y hy hp
    rw [hno y hy] at hp; cases hp
  have hsl := scalar_loops o A t hok
  cases hS : A.loops.filter (fun z => z.cid == t && z.category == some []) with
  | nil =>
    obtain ⟨c, hc, hcb, hfind⟩ := find_container o A hi t hnode
    have hfresh : A.findLoop h.id c.nextLoopNum = none := by rw [hh, ← hcb]; exact findLoop_fresh o A hi c hc
    have hspec := Store.specSetValue_creates A h (mkName o true n) (some v) c hvn (by rw [hh]; exact hfind) hitem (by rw [hh]; exact hS) hfresh
    simp only [hkey, horig, Option.getD_some, hh] at hspec
    rw [hspec] at hA'
    have hAe := (Prod.mk.inj hA').1.symm
    subst hAe
    let x : ALoop := { cid := t, num := c.nextLoopNum, category := some [], items := [(o.norm n, n)], packets := [[v]] }
    apply getVal_of_column _ h (mkName o true n) v x hvn
    · show (A.loops ++ [x]).find? _ = _
      rw [hkey, hh, List.find?_append]
      have : A.loops.find? (fun y => y.cid == t && y.hasItem (o.norm n)) = none := by
        rw [List.find?_eq_none]
        intro z hz
        rw [hno z hz]; simp
      rw [this]
      simp [x, ALoop.hasItem]
    · simp [x]
    · intro p hp
      simp only [x, List.mem_singleton] at hp
      subst hp
      simp [x, hkey, List.findIdx_cons]
  | cons y rest =>
    have hrest : rest = [] := by
      rw [hS] at hsl
      cases rest with
      | nil => rfl
      | cons _ _ => simp at hsl
    subst hrest
    have hyS : y ∈ A.loops.filter (fun z => z.cid == t && z.category == some []) := by rw [hS]; exact List.mem_cons_self
    obtain ⟨hym, hyp⟩ := List.mem_filter.mp hyS
    simp only [Bool.and_eq_true, beq_iff_eq] at hyp
    obtain ⟨hyc, hycat⟩ := hyp
    have hspec := Store.specSetValue_joins A h (mkName o true n) (some v) y hvn hitem (by rw [hh]; exact hS)
      (fun z hz hk => by
        simp only [Bool.and_eq_true, beq_iff_eq] at hk
        exact hi.loopKeys z hz y hym hk.1 hk.2)
    simp only [hkey, horig, Option.getD_some] at hspec
    rw [hspec] at hA'
    have hAe := (Prod.mk.inj hA').1.symm
    subst hAe
    have hyL : y ∈ A.loops.filter (fun z => z.cid == t) := List.mem_filter.mpr ⟨hym, by simp [hyc]⟩
    obtain ⟨_, hr⟩ := loop_facts o A hi t hok hrect y hyL
    have hylack : ∀ it ∈ y.items, (it.1 == o.norm n) = false := by
      have := hno y hym
      simp only [hyc, beq_self_eq_true, Bool.true_and] at this
      unfold ALoop.hasItem at this
      exact fun it hit => List.any_eq_false.mp this it hit |> fun h => by simpa using h
    let y' : ALoop := { y with
      items := y.items ++ [(o.norm n, n)]
      packets := (if y.packets.isEmpty then [y.items.map (fun _ => V.unk) ++ [v]] else y.packets.map (· ++ [v])) }
    have hidx : y'.items.findIdx (fun it => it.1 == o.norm n) = y.items.length := by
      show (y.items ++ [(o.norm n, n)]).findIdx _ = _
      rw [List.findIdx_append, findIdx_none_length _ _ hylack]
      simp [List.findIdx_cons]
    apply getVal_of_column _ h (mkName o true n) v y' hvn
    · show (A.loops.map _).find? _ = _
      rw [hkey, hh, List.find?_map]
      have hcg : A.loops.find? ((fun z => z.cid == t && z.hasItem (o.norm n)) ∘
          fun z => if (z.cid == y.cid && z.num == y.num) = true then y' else z) =
          A.loops.find? (fun z => z.cid == y.cid && z.num == y.num) := by
        apply find?_congr_mem
        intro z hz
        simp only [Function.comp]
        by_cases hm : (z.cid == y.cid && z.num == y.num) = true
        · simp only [hm, if_true]
          simp [y', hyc, ALoop.hasItem]
        · have hm' : (z.cid == y.cid && z.num == y.num) = false := by simpa using hm
          simp only [hm', Bool.false_eq_true, if_false]
          exact hno z hz
      rw [hcg]
      have := findLoop_of_mem o A hi y hym
      unfold AState.findLoop at this
      rw [this]
      have hself : (y.cid == y.cid && y.num == y.num) = true := by simp
      simp only [Option.map_some, hself, if_true]
      rfl
    · show (if y.packets.isEmpty then _ else _) ≠ []
      cases hp : y.packets with
      | nil => simp
      | cons p r => simp
    · intro p hp
      rw [hkey, hidx]
      have hp' : p ∈ (if y.packets.isEmpty then [y.items.map (fun _ => V.unk) ++ [v]] else y.packets.map (· ++ [v])) := hp
      cases hpk : y.packets with
      | nil =>
        rw [hpk] at hp'
        simp only [List.isEmpty_nil, if_true, List.mem_singleton] at hp'
        subst hp'
        have := getD_append_len (y.items.map (fun _ => V.unk)) v V.unk
        simpa using this
      | cons q r =>
        rw [hpk] at hp'
        simp only [List.isEmpty_cons, Bool.false_eq_true, if_false] at hp'
        obtain ⟨p0, hp0, rfl⟩ := List.mem_map.mp hp'
        have hl := hr p0 (by rw [hpk]; exact hp0)
        rw [← hl]
        exact getD_append_len p0 v V.unk

/-! ### the tree of a state WITH save frames -/

open CifModel.Store (FrameRow)

theorem treeFrames_eq_map (A : AState) (fuel : Nat) : ∀ fs : List FrameRow,
    A.treeFrames fuel fs = fs.map (fun f => A.treeContainer fuel f.cid f.nameOrig)
  | [] => by simp [AState.treeFrames]
  | f :: r => by simp [AState.treeFrames, treeFrames_eq_map A fuel r]

def kids (A : AState) (cid : Nat) : List FrameRow := A.frames.filter (fun f => f.parent == cid)

theorem treeContainer_succ (A : AState) (fuel cid : Nat) (code : Str) :
    A.treeContainer (fuel + 1) cid code =
      Container.mk code ((kids A cid).map (fun f => A.treeContainer fuel f.cid f.nameOrig)) (loopsOf A cid) := by
  simp only [AState.treeContainer, treeFrames_eq_map, kids, loopsOf]

/-- the number of frames younger than `cid` bounds the depth of the tree below `cid` -/
def younger (A : AState) (cid : Nat) : Nat := (A.frames.filter (fun f => decide (cid < f.cid))).length

theorem younger_lt (A : AState) (cid : Nat) (f : FrameRow) (hf : f ∈ A.frames) (hlt : cid < f.cid) : younger A f.cid < younger A cid := by
  unfold younger
  have hsub : ∀ x ∈ A.frames.filter (fun g => decide (f.cid < g.cid)), x ∈ A.frames.filter (fun g => decide (cid < g.cid)) := by
    intro x hx
    obtain ⟨hxm, hxp⟩ := List.mem_filter.mp hx
    have : f.cid < x.cid := by simpa using hxp
    exact List.mem_filter.mpr ⟨hxm, by simp; omega⟩
  -- f is counted on the right, not on the left
  have h1 : (A.frames.filter (fun g => decide (f.cid < g.cid))) = (A.frames.filter (fun g => decide (cid < g.cid))).filter (fun g => decide (f.cid < g.cid)) := by
    rw [List.filter_filter]
    apply List.filter_congr
    intro x _
    by_cases hx : f.cid < x.cid
    · have : cid < x.cid := by omega
      simp [hx, this]
    · simp [hx]
  rw [h1]
  have hfm : f ∈ A.frames.filter (fun g => decide (cid < g.cid)) := List.mem_filter.mpr ⟨hf, by simpa using hlt⟩
  have : ((A.frames.filter (fun g => decide (cid < g.cid))).filter (fun g => decide (f.cid < g.cid))).length <
      (A.frames.filter (fun g => decide (cid < g.cid))).length := by
    apply List.length_filter_lt_length_iff_exists.mpr
    exact ⟨f, hfm, by simp⟩
  exact this

theorem kid_facts {o : Opts} {A : AState} (hi : AInv o A) {cid : Nat} {f : FrameRow} (hf : f ∈ kids A cid) :
    f ∈ A.frames ∧ f.parent = cid ∧ cid < f.cid := by
  obtain ⟨hm, hp⟩ := List.mem_filter.mp hf
  have hp' : f.parent = cid := by simpa using hp
  exact ⟨hm, hp', by rw [← hp']; exact hi.frmPar f hm⟩

/-- fuel beyond the number of younger frames changes nothing -/
theorem tree_fuel (o : Opts) (A : AState) (hi : AInv o A) : ∀ (n cid : Nat) (code : Str) (fuel fuel' : Nat), younger A cid ≤ n →
    n < fuel → n < fuel' → A.treeContainer fuel cid code = A.treeContainer fuel' cid code := by
  intro n
  induction n with
  | zero =>
    intro cid code fuel fuel' hy h1 h2
    obtain ⟨k, rfl⟩ : ∃ k, fuel = k + 1 := ⟨fuel - 1, by omega⟩
    obtain ⟨k', rfl⟩ : ∃ k, fuel' = k + 1 := ⟨fuel' - 1, by omega⟩
    have hch : kids A cid = [] := by
      unfold kids
      rw [List.filter_eq_nil_iff]
      intro f hf hp
      have hk : f ∈ kids A cid := List.mem_filter.mpr ⟨hf, hp⟩
      have := younger_lt A cid f hf (kid_facts hi hk).2.2
      omega
    simp only [treeContainer_succ, hch, List.map_nil]
  | succ m ih =>
    intro cid code fuel fuel' hy h1 h2
    obtain ⟨k, rfl⟩ : ∃ k, fuel = k + 1 := ⟨fuel - 1, by omega⟩
    obtain ⟨k', rfl⟩ : ∃ k, fuel' = k + 1 := ⟨fuel' - 1, by omega⟩
    simp only [treeContainer_succ]
    congr 1
    apply List.map_congr_left
    intro f hf
    obtain ⟨hfm, _, hlt⟩ := kid_facts hi hf
    have := younger_lt A cid f hfm hlt
    exact ih f.cid f.nameOrig k k' (by omega) (by omega) (by omega)

theorem younger_le (A : AState) (cid : Nat) : younger A cid ≤ A.frames.length := List.length_filter_le _ _

/-- the tree below a container, at any sufficient fuel -/
theorem tree_full (o : Opts) (A : AState) (hi : AInv o A) (cid : Nat) (code : Str) (fuel : Nat) (hf : younger A cid < fuel) :
    A.treeContainer fuel cid code = A.treeContainer (A.frames.length + 1) cid code :=
  tree_fuel o A hi (younger A cid) cid code _ _ (Nat.le_refl _) hf (by have := younger_le A cid; omega)

/-! ### paths -/

/-- `p` leads from container `c` down (through save frames, by normalised code) to container `t` -/
def Below (A : AState) : Nat → Path → Nat → Prop
  | c, [], t => c = t
  | c, k :: p, t => ∃ f ∈ A.frames, f.parent = c ∧ f.name = k ∧ Below A f.cid p t

/-- the path denotes container `t`: a block, then save frames -/
def ContAt (A : AState) : Path → Nat → Prop
  | [], _ => False
  | k :: p, t => ∃ b ∈ A.blocks, b.name = k ∧ Below A b.cid p t

theorem below_le {o : Opts} {A : AState} (hi : AInv o A) : ∀ (p : Path) (c t : Nat), Below A c p t → c ≤ t ∧ (p ≠ [] → c < t)
  | [], c, t, h => by cases h; exact ⟨Nat.le_refl _, fun h => absurd rfl h⟩
  | k :: p, c, t, h => by
    obtain ⟨f, hf, hp, _, hb⟩ := h
    have h1 := (below_le hi p f.cid t hb).1
    have h2 := hi.frmPar f hf
    exact ⟨by omega, fun _ => by omega⟩

theorem below_snoc (A : AState) (k : Str) : ∀ (p : Path) (c t : Nat),
    Below A c (p ++ [k]) t ↔ ∃ pc, Below A c p pc ∧ ∃ f ∈ A.frames, f.parent = pc ∧ f.name = k ∧ f.cid = t
  | [], c, t => by
    simp only [List.nil_append, Below]
    constructor
    · rintro ⟨f, hf, hp, hn, he⟩
      exact ⟨c, rfl, f, hf, hp, hn, he⟩
    · rintro ⟨pc, rfl, f, hf, hp, hn, he⟩
      exact ⟨f, hf, hp, hn, he⟩
  | k' :: p, c, t => by
    simp only [List.cons_append, Below]
    constructor
    · rintro ⟨f, hf, hp, hn, hb⟩
      obtain ⟨pc, h1, h2⟩ := (below_snoc A k p f.cid t).mp hb
      exact ⟨pc, ⟨f, hf, hp, hn, h1⟩, h2⟩
    · rintro ⟨pc, ⟨f, hf, hp, hn, h1⟩, h2⟩
      exact ⟨f, hf, hp, hn, (below_snoc A k p f.cid t).mpr ⟨pc, h1, h2⟩⟩

/-- two containers above `t`: one is above the other (a frame has ONE parent) -/
theorem below_chain {o : Opts} {A : AState} (hi : AInv o A) : ∀ (n : Nat) (p1 p2 : Path) (c1 c2 t : Nat), p1.length ≤ n →
    Below A c1 p1 t → Below A c2 p2 t → (∃ q, Below A c1 q c2) ∨ (∃ q, Below A c2 q c1) := by
  intro n
  induction n with
  | zero =>
    intro p1 p2 c1 c2 t hl h1 h2
    have : p1 = [] := List.length_eq_zero_iff.mp (by omega)
    subst this
    cases h1
    exact Or.inr ⟨p2, h2⟩
  | succ n ih =>
    intro p1 p2 c1 c2 t hl h1 h2
    rcases List.eq_nil_or_concat p1 with rfl | ⟨p1', k1, rfl⟩
    · cases h1; exact Or.inr ⟨p2, h2⟩
    rcases List.eq_nil_or_concat p2 with rfl | ⟨p2', k2, rfl⟩
    · cases h2; exact Or.inl ⟨_, h1⟩
    rw [List.concat_eq_append] at h1 h2 hl
    obtain ⟨pc1, hb1, f1, hf1, hp1, _, he1⟩ := (below_snoc A k1 p1' c1 t).mp h1
    obtain ⟨pc2, hb2, f2, hf2, hp2, _, he2⟩ := (below_snoc A k2 p2' c2 t).mp h2
    have : f1 = f2 := hi.frmUniq f1 hf1 f2 hf2 (Or.inl (by rw [he1, he2]))
    subst this
    rw [hp1] at hp2
    subst hp2
    exact ih p1' p2' c1 c2 pc1 (by simp at hl; omega) hb1 hb2

/-- two different children of one container: what lies below one does not lie below the other -/
theorem sibling_disjoint {o : Opts} {A : AState} (hi : AInv o A) (f f0 : FrameRow) (hf : f ∈ A.frames) (hf0 : f0 ∈ A.frames)
    (hpar : f.parent = f0.parent) (hne : f ≠ f0) (t : Nat) (p0 : Path) (h0 : Below A f0.cid p0 t) : ¬ ∃ p, Below A f.cid p t := by
  rintro ⟨p, hp⟩
  have key : ∀ (g g' : FrameRow), g ∈ A.frames → g' ∈ A.frames → g.parent = g'.parent → g ≠ g' → ∀ q, ¬ Below A g.cid q g'.cid := by
    intro g g' hg hg' hgp hgn q hq
    rcases List.eq_nil_or_concat q with rfl | ⟨q', k, rfl⟩
    · have : g.cid = g'.cid := hq
      exact hgn (hi.frmUniq g hg g' hg' (Or.inl this))
    · rw [List.concat_eq_append] at hq
      obtain ⟨pc, hb, fr, hfr, hfp, _, hfe⟩ := (below_snoc A k q' g.cid g'.cid).mp hq
      have : fr = g' := hi.frmUniq fr hfr g' hg' (Or.inl hfe)
      subst this
      have h1 := (below_le hi q' g.cid pc hb).1
      have h2 := hi.frmPar g hg
      rw [hfp] at hgp
      omega
  rcases below_chain hi p0.length p0 p f0.cid f.cid t (Nat.le_refl _) h0 hp with ⟨q, hq⟩ | ⟨q, hq⟩
  · exact key f0 f hf0 hf hpar.symm (Ne.symm hne) q hq
  · exact key f f0 hf hf0 hpar hne q hq

/-! ### a change of the loops of ONE container, anywhere in the tree -/

theorem tc_code (A : AState) : ∀ (fuel cid : Nat) (code : Str), (A.treeContainer fuel cid code).code = code
  | 0, _, _ => by simp [AState.treeContainer, Container.code]
  | _ + 1, _, _ => by rw [treeContainer_succ]; rfl

theorem kids_eq {A A' : AState} (h : A'.frames = A.frames) (c : Nat) : kids A' c = kids A c := by unfold kids; rw [h]

/-- containers that are not above `t` show the same tree -/
theorem tree_other {o : Opts} {A A' : AState} (hi : AInv o A) (t : Nat) (g : List Loop → List Loop) (hu : LoopsUpd A A' t g) :
    ∀ (fuel c : Nat) (code : Str), (¬ ∃ p, Below A c p t) → A'.treeContainer fuel c code = A.treeContainer fuel c code
  | 0, _, _, _ => by simp [AState.treeContainer]
  | fuel + 1, c, code, hn => by
    rw [treeContainer_succ, treeContainer_succ, kids_eq hu.2.1]
    have hct : c ≠ t := fun e => hn ⟨[], e⟩
    rw [hu.2.2.1 c hct]
    congr 1
    apply List.map_congr_left
    intro f hf
    obtain ⟨hfm, hfp, _⟩ := kid_facts hi hf
    exact tree_other hi t g hu fuel f.cid f.nameOrig (fun ⟨p, hp⟩ => hn ⟨f.name :: p, f, hfm, hfp, rfl, hp⟩)

/-- the container update at the end of a relative path -/
def updC (norm : Str → Str) (F : Container → Container) : Path → Container → Container
  | [], c => F c
  | k :: p, c => Container.mk c.code (updIn norm F (k :: p) c.frames) c.loops

theorem updIn_cons (norm : Str → Str) (F : Container → Container) (k : Str) (p : Path) (cs : List Container) :
    updIn norm F (k :: p) cs = cs.map (fun c => if codeIs norm k c then updC norm F p c else c) := by
  cases p <;> rfl

/-- **the container above `t` along `p`: its tree changes by `updC p`** -/
theorem tree_at {o : Opts} {A A' : AState} (hi : AInv o A) (t : Nat) (g : List Loop → List Loop) (hu : LoopsUpd A A' t g) :
    ∀ (p : Path) (fuel c : Nat) (code : Str), Below A c p t → younger A c < fuel →
      A'.treeContainer fuel c code =
        updC o.norm (fun cc => Container.mk cc.code cc.frames (g cc.loops)) p (A.treeContainer fuel c code)
  | [], fuel, c, code, hb, hf => by
    obtain ⟨m, rfl⟩ : ∃ m, fuel = m + 1 := ⟨fuel - 1, by omega⟩
    cases hb
    rw [treeContainer_succ, treeContainer_succ, kids_eq hu.2.1, hu.2.2.2]
    simp only [updC]
    congr 1
    apply List.map_congr_left
    intro f hf'
    obtain ⟨hfm, hfp, hlt⟩ := kid_facts hi hf'
    apply tree_other hi t g hu
    rintro ⟨p, hp⟩
    have := (below_le hi p f.cid t hp).1
    omega
  | k :: p, fuel, c, code, hb, hf => by
    obtain ⟨m, rfl⟩ : ∃ m, fuel = m + 1 := ⟨fuel - 1, by omega⟩
    obtain ⟨f0, hf0, hp0, hn0, hb0⟩ := hb
    have hct : c ≠ t := by
      have := (below_le hi p f0.cid t hb0).1
      have := hi.frmPar f0 hf0
      omega
    rw [treeContainer_succ, treeContainer_succ, kids_eq hu.2.1, hu.2.2.1 c hct]
    simp only [updC]
    rw [updIn_cons]
    simp only [Container.code, Container.frames, Container.loops, List.map_map]
    congr 1
    apply List.map_congr_left
    intro f hf'
    obtain ⟨hfm, hfp, hlt⟩ := kid_facts hi hf'
    simp only [Function.comp, codeIs, tc_code, ← hi.frmNorm f hfm]
    by_cases hk : f.name = k
    · have : f = f0 := hi.frmUniq f hfm f0 hf0 (Or.inr ⟨by rw [hfp, hp0], by rw [hk, hn0]⟩)
      subst this
      have hcond : (f.name == k) = true := by simp [hk]
      rw [hcond, if_pos rfl]
      exact tree_at hi t g hu p m f.cid f.nameOrig hb0 (by have := younger_lt A c f hfm hlt; omega)
    · have hcond : (f.name == k) = false := by simpa using hk
      rw [hcond]
      simp only [Bool.false_eq_true, if_false]
      apply tree_other hi t g hu
      exact sibling_disjoint hi f f0 hfm hf0 (by rw [hfp, hp0]) (fun e => hk (by rw [e, hn0])) t p hb0

/-- **a change of the loops of the container at `path` is `updIn` at `path`** (save frames included) -/
theorem tree_updG (o : Opts) (A A' : AState) (hi : AInv o A) (path : Path) (t : Nat) (hpath : ContAt A path t)
    (g : List Loop → List Loop) (hu : LoopsUpd A A' t g) :
    A'.tree = updIn o.norm (fun c => Container.mk c.code c.frames (g c.loops)) path A.tree := by
  cases path with
  | nil => cases hpath
  | cons k p =>
    obtain ⟨b, hb, hbk, hbelow⟩ := hpath
    unfold AState.tree
    rw [hu.1, hu.2.1, updIn_cons, List.map_map]
    apply List.map_congr_left
    intro b' hb'
    simp only [Function.comp, codeIs, tc_code, ← hi.blkNorm b' hb']
    by_cases he : b' = b
    · subst he
      have hcond : (b'.name == k) = true := by simp [hbk]
      rw [hcond, if_pos rfl]
      exact tree_at hi t g hu p _ b'.cid b'.nameOrig hbelow (by have := younger_le A b'.cid; omega)
    · have hn : ¬ b'.name = k := fun h => he (hi.blkUniq b' hb' b hb (Or.inl (by rw [h, hbk])))
      have hcond : (b'.name == k) = false := by simpa using hn
      rw [hcond]
      simp only [Bool.false_eq_true, if_false]
      apply tree_other hi t g hu
      rintro ⟨q, hq⟩
      -- b and b' are roots: neither lies below the other
      have root : ∀ (x y : BlockRow), x ∈ A.blocks → y ∈ A.blocks → x ≠ y → ∀ r, ¬ Below A x.cid r y.cid := by
        intro x y hx hy hxy r hr
        rcases List.eq_nil_or_concat r with rfl | ⟨r', kk, rfl⟩
        · exact hxy (hi.blkUniq x hx y hy (Or.inr hr))
        · rw [List.concat_eq_append] at hr
          obtain ⟨_, _, fr, hfr, _, _, hfe⟩ := (below_snoc A kk r' x.cid y.cid).mp hr
          exact hi.blkFrm y hy fr hfr hfe.symm
      rcases below_chain hi p.length p q b.cid b'.cid t (Nat.le_refl _) hbelow hq with ⟨r, hr⟩ | ⟨r, hr⟩
      · exact root b b' hb hb' (Ne.symm he) r hr
      · exact root b' b hb' hb he r hr

/-! ### what the tree shows at a path -/

/-- the container at a relative path below a container -/
def getC (norm : Str → Str) : Path → Container → Option Container
  | [], c => some c
  | k :: p, c => (c.frames.find? (codeIs norm k)).bind (getC norm p)

theorem getIn_cons (norm : Str → Str) (k : Str) : ∀ (p : Path) (cs : List Container),
    getIn norm (k :: p) cs = (cs.find? (codeIs norm k)).bind (getC norm p)
  | [], cs => by simp [getIn, getC]
  | k' :: ks, cs => by
    simp only [getIn]
    cases cs.find? (codeIs norm k) with
    | none => rfl
    | some c =>
      simp only [Option.bind_some]
      rw [getIn_cons norm k' ks c.frames]
      rfl

theorem find_kid {o : Opts} {A : AState} (hi : AInv o A) (c : Nat) (fuel : Nat) (k : Str) (f : FrameRow) (hf : f ∈ kids A c) (hk : f.name = k) :
    ((kids A c).map (fun f => A.treeContainer fuel f.cid f.nameOrig)).find? (codeIs o.norm k) = some (A.treeContainer fuel f.cid f.nameOrig) := by
  apply find_map_unique _ _ f (kids A c) hf
  · simp only [codeIs, tc_code, ← hi.frmNorm f (kid_facts hi hf).1, hk]; exact beq_self_eq_true _
  · intro f' hf' hp
    simp only [codeIs, tc_code, ← hi.frmNorm f' (kid_facts hi hf').1] at hp
    have : f'.name = k := by simpa using hp
    exact hi.frmUniq f' (kid_facts hi hf').1 f (kid_facts hi hf).1
      (Or.inr ⟨by rw [(kid_facts hi hf').2.1, (kid_facts hi hf).2.1], by rw [this, hk]⟩)

/-- the tree shows, at the relative path, the container the path leads to -/
theorem getC_below {o : Opts} {A : AState} (hi : AInv o A) : ∀ (p : Path) (fuel c t : Nat) (code : Str), Below A c p t → younger A c < fuel →
    ∃ fuel' code', younger A t < fuel' ∧ getC o.norm p (A.treeContainer fuel c code) = some (A.treeContainer fuel' t code')
  | [], fuel, c, t, code, hb, hf => by cases hb; exact ⟨fuel, code, hf, rfl⟩
  | k :: p, fuel, c, t, code, hb, hf => by
    obtain ⟨m, rfl⟩ : ∃ m, fuel = m + 1 := ⟨fuel - 1, by omega⟩
    obtain ⟨f, hfm, hp, hn, hb'⟩ := hb
    have hfk : f ∈ kids A c := List.mem_filter.mpr ⟨hfm, by simp [hp]⟩
    have hlt := younger_lt A c f hfm (kid_facts hi hfk).2.2
    obtain ⟨fuel', code', h1, h2⟩ := getC_below hi p m f.cid t f.nameOrig hb' (by omega)
    refine ⟨fuel', code', h1, ?_⟩
    simp only [getC, treeContainer_succ, Container.frames]
    rw [find_kid hi c m k f hfk hn]
    exact h2

/-- **the container a path denotes, as the tree shows it**: its loops are the loops of that container, its frames are its kids -/
theorem getIn_cont (o : Opts) (A : AState) (hi : AInv o A) (path : Path) (t : Nat) (hpath : ContAt A path t) :
    ∃ cc, getIn o.norm path A.tree = some cc ∧ cc.loops = loopsOf A t ∧
      ∀ k, cc.frames.any (codeIs o.norm k) = (kids A t).any (fun f => f.name == k) := by
  cases path with
  | nil => cases hpath
  | cons k p =>
    obtain ⟨b, hb, hbk, hbelow⟩ := hpath
    rw [getIn_cons]
    have hfind : A.tree.find? (codeIs o.norm k) = some (A.treeContainer (A.frames.length + 1) b.cid b.nameOrig) := by
      unfold AState.tree
      apply find_map_unique _ _ b A.blocks hb
      · simp only [codeIs, tc_code, ← hi.blkNorm b hb, hbk]; exact beq_self_eq_true _
      · intro b' hb' hp
        simp only [codeIs, tc_code, ← hi.blkNorm b' hb'] at hp
        have : b'.name = k := by simpa using hp
        exact hi.blkUniq b' hb' b hb (Or.inl (by rw [this, hbk]))
    rw [hfind]
    simp only [Option.bind_some]
    obtain ⟨fuel', code', h1, h2⟩ := getC_below hi p (A.frames.length + 1) b.cid t b.nameOrig hbelow
      (by have := younger_le A b.cid; omega)
    obtain ⟨m, rfl⟩ : ∃ m, fuel' = m + 1 := ⟨fuel' - 1, by omega⟩
    refine ⟨A.treeContainer (m + 1) t code', h2, by rw [treeContainer_succ]; rfl, ?_⟩
    intro k'
    rw [treeContainer_succ]
    simp only [Container.frames, List.any_map]
    apply any_congr'
    intro f hf
    simp only [Function.comp, codeIs, tc_code, ← hi.frmNorm f (kid_facts hi hf).1]

theorem getC_some {o : Opts} {A : AState} (hi : AInv o A) : ∀ (p : Path) (fuel c : Nat) (code : Str) (cc : Container),
    getC o.norm p (A.treeContainer fuel c code) = some cc → ∃ t, Below A c p t
  | [], _, c, _, _, _ => ⟨c, rfl⟩
  | k :: p, 0, c, code, cc, h => by simp [getC, AState.treeContainer, Container.frames] at h
  | k :: p, m + 1, c, code, cc, h => by
    simp only [getC, treeContainer_succ, Container.frames] at h
    cases hf : ((kids A c).map (fun f => A.treeContainer m f.cid f.nameOrig)).find? (codeIs o.norm k) with
    | none => rw [hf] at h; simp at h
    | some x =>
      rw [hf] at h
      simp only [Option.bind_some] at h
      have hm := List.mem_of_find?_eq_some hf
      have hk := List.find?_some hf
      obtain ⟨f, hfk, rfl⟩ := List.mem_map.mp hm
      simp only [codeIs, tc_code, ← hi.frmNorm f (kid_facts hi hfk).1] at hk
      obtain ⟨t, ht⟩ := getC_some hi p m f.cid f.nameOrig cc h
      exact ⟨t, f, (kid_facts hi hfk).1, (kid_facts hi hfk).2.1, by simpa using hk, ht⟩

/-- a path that resolves in the tree denotes a container of the state -/
theorem res_cont (o : Opts) (A : AState) (hi : AInv o A) (path : Path) (h : ResL o.norm path A.tree) : ∃ t, ContAt A path t := by
  unfold ResL at h
  cases path with
  | nil => simp [getIn] at h
  | cons k p =>
    rw [getIn_cons] at h
    cases hf : A.tree.find? (codeIs o.norm k) with
    | none => rw [hf] at h; simp at h
    | some x =>
      rw [hf] at h
      simp only [Option.bind_some] at h
      have hm := List.mem_of_find?_eq_some hf
      have hk := List.find?_some hf
      unfold AState.tree at hm
      obtain ⟨b, hb, rfl⟩ := List.mem_map.mp hm
      simp only [codeIs, tc_code, ← hi.blkNorm b hb] at hk
      obtain ⟨cc, hcc⟩ := Option.isSome_iff_exists.mp h
      obtain ⟨t, ht⟩ := getC_some hi p _ b.cid b.nameOrig cc hcc
      exact ⟨t, b, hb, by simpa using hk, ht⟩

theorem getIn_rectC : ∀ (norm : Str → Str) (path : Path) (cs : List Container) (c : Container), RectCs cs → getIn norm path cs = some c → RectC c
  | _, [], _, _, _, h => by simp [getIn] at h
  | norm, [k], cs, c, hr, h => by
    simp only [getIn] at h
    exact (RectCs_iff cs).mp hr c (List.mem_of_find?_eq_some h)
  | norm, k :: k' :: ks, cs, c, hr, h => by
    simp only [getIn] at h
    cases hf : cs.find? (codeIs norm k) with
    | none => rw [hf] at h; cases h
    | some x =>
      rw [hf] at h
      have hx := (RectCs_iff cs).mp hr x (List.mem_of_find?_eq_some hf)
      obtain ⟨code, fs, ls⟩ := x
      rw [RectC_mk] at hx
      exact getIn_rectC norm (k' :: ks) fs c hx.2 h

/-- the loops of a container that the consistent rectangular tree shows at a path are consistent and rectangular -/
theorem cont_facts (o : Opts) (A : AState) (hi : AInv o A) (path : Path) (t : Nat) (hpath : ContAt A path t) (hokr : OkR o A.tree) :
    LoopsOk o (loopsOf A t) ∧ LoopsRect (loopsOf A t) := by
  obtain ⟨cc, hg, hl, _⟩ := getIn_cont o A hi path t hpath
  have h1 := getIn_okC o path A.tree cc hokr.1.2 hg
  have h2 := getIn_rectC o.norm path A.tree cc hokr.2 hg
  obtain ⟨code, fs, ls⟩ := cc
  rw [OkC_mk] at h1
  rw [RectC_mk] at h2
  simp only [Container.loops] at hl
  rw [← hl]
  exact ⟨h1.1, h2.1⟩

/-- a container a path denotes is a node of the state -/
theorem node_of_cont {o : Opts} {A : AState} (hi : AInv o A) : ∀ (path : Path) (t : Nat), ContAt A path t → Node A t := by
  intro path t h
  cases path with
  | nil => cases h
  | cons k p =>
    obtain ⟨b, hb, _, hbelow⟩ := h
    rcases List.eq_nil_or_concat p with rfl | ⟨p', kk, rfl⟩
    · cases hbelow
      exact ⟨hi.blkCont b hb, hi.ids b hb⟩
    · rw [List.concat_eq_append] at hbelow
      obtain ⟨_, _, f, hf, _, _, he⟩ := (below_snoc A kk p' b.cid t).mp hbelow
      rw [← he]
      exact ⟨hi.frmCont f hf, hi.frmIds f hf⟩

/-! ### creation of containers, on the tree -/

theorem tc_congr {A A' : AState} (hf : A'.frames = A.frames) (hl : A'.loops = A.loops) : ∀ (fuel c : Nat) (code : Str),
    A'.treeContainer fuel c code = A.treeContainer fuel c code
  | 0, _, _ => by simp [AState.treeContainer]
  | fuel + 1, c, code => by
    rw [treeContainer_succ, treeContainer_succ, kids_eq hf]
    have : loopsOf A' c = loopsOf A c := by unfold loopsOf; rw [hl]
    rw [this]
    congr 1
    apply List.map_congr_left
    intro f _
    exact tc_congr hf hl fuel f.cid f.nameOrig

theorem no_kids_fresh {o : Opts} {A : AState} (hi : AInv o A) : kids A A.nextId = [] := by
  unfold kids
  rw [List.filter_eq_nil_iff]
  intro f hf hp
  have h1 := hi.frmPar f hf
  have h2 := hi.frmIds f hf
  have : f.parent = A.nextId := by simpa using hp
  omega

/-- one more block: one more (empty) container, last -/
theorem tree_addBlock (o : Opts) (A : AState) (hi : AInv o A) (key orig : Str) :
    (addBlock A key orig).tree = A.tree ++ [Container.mk orig [] []] := by
  unfold AState.tree
  show (A.blocks ++ [_]).map _ = _
  rw [List.map_append]
  congr 1
  · apply List.map_congr_left
    intro b _
    exact tc_congr (A := A) (A' := addBlock A key orig) rfl rfl _ _ _
  · simp only [List.map_cons, List.map_nil]
    show [(addBlock A key orig).treeContainer (A.frames.length + 1) A.nextId orig] = _
    rw [tc_congr (A := A) (A' := addBlock A key orig) rfl rfl, treeContainer_succ, no_kids_fresh hi, loopsOf_fresh o A hi]
    rfl

theorem below_frames {A A' : AState} (hf : A'.frames = A.frames) : ∀ (p : Path) (c t : Nat), Below A c p t → Below A' c p t
  | [], _, _, h => h
  | _ :: p, _, t, ⟨f, hfm, hp, hn, hb⟩ => ⟨f, by rw [hf]; exact hfm, hp, hn, below_frames hf p f.cid t hb⟩

theorem contAt_addBlock {A : AState} (key orig : Str) : ∀ (path : Path) (t : Nat), ContAt A path t → ContAt (addBlock A key orig) path t
  | [], _, h => h
  | _ :: p, t, ⟨b, hb, hk, hbel⟩ => ⟨b, List.mem_append_left _ hb, hk, below_frames (A := A) (A' := addBlock A key orig) rfl p b.cid t hbel⟩

theorem contAt_congr {A A' : AState} (hb : A'.blocks = A.blocks) (hf : A'.frames = A.frames) : ∀ (path : Path) (t : Nat),
    ContAt A path t → ContAt A' path t
  | [], _, h => h
  | _ :: p, t, ⟨b, hbm, hk, hbel⟩ => ⟨b, by rw [hb]; exact hbm, hk, below_frames hf p b.cid t hbel⟩

/-- the state with one more (empty) save frame below container `pid` -/
def addFrame (A : AState) (pid : Nat) (key orig : Str) : AState :=
  { A with containers := A.containers ++ [{ id := A.nextId, nextLoopNum := 0 }], nextId := A.nextId + 1,
           frames := A.frames ++ [{ cid := A.nextId, parent := pid, name := key, nameOrig := orig }] }

theorem AInv.addFrame {o : Opts} {A : AState} (hi : AInv o A) (pid : Nat) (hpid : Node A pid) (code : Str)
    (hfresh : A.frames.any (fun f => f.parent == pid && f.name == o.norm code) = false) : AInv o (addFrame A pid (o.norm code) code) where
  blkNorm := hi.blkNorm
  blkCont := by
    intro b hb
    obtain ⟨c, hc, e⟩ := hi.blkCont b hb
    exact ⟨c, List.mem_append_left _ hc, e⟩
  blkUniq := hi.blkUniq
  ids := by
    intro b hb
    show b.cid < A.nextId + 1
    have := hi.ids b hb; omega
  frmNorm := by
    intro f hf
    rcases List.mem_append.mp hf with h | h
    · exact hi.frmNorm f h
    · simp only [List.mem_singleton] at h; subst h; rfl
  frmCont := by
    intro f hf
    rcases List.mem_append.mp hf with h | h
    · obtain ⟨c, hc, e⟩ := hi.frmCont f h
      exact ⟨c, List.mem_append_left _ hc, e⟩
    · simp only [List.mem_singleton] at h; subst h
      exact ⟨_, List.mem_append_right _ (List.mem_singleton.mpr rfl), rfl⟩
  frmIds := by
    intro f hf
    show f.cid < A.nextId + 1
    rcases List.mem_append.mp hf with h | h
    · have := hi.frmIds f h; omega
    · simp only [List.mem_singleton] at h; subst h; exact Nat.lt_succ_self _
  frmPar := by
    intro f hf
    rcases List.mem_append.mp hf with h | h
    · exact hi.frmPar f h
    · simp only [List.mem_singleton] at h; subst h; exact hpid.2
  frmUniq := by
    have hnew : ∀ f ∈ A.frames, ¬ (f.cid = A.nextId ∨ (f.parent = pid ∧ f.name = o.norm code)) := by
      intro f hf h
      rcases h with h | h
      · have := hi.frmIds f hf; omega
      · have := List.any_eq_false.mp hfresh f hf
        simp [h.1, h.2] at this
    intro f hf f' hf' h
    rcases List.mem_append.mp hf with h1 | h1 <;> rcases List.mem_append.mp hf' with h2 | h2
    · exact hi.frmUniq f h1 f' h2 h
    · simp only [List.mem_singleton] at h2; subst h2; exact absurd h (hnew f h1)
    · simp only [List.mem_singleton] at h1; subst h1
      exact absurd (h.imp Eq.symm (fun x => ⟨x.1.symm, x.2.symm⟩)) (hnew f' h2)
    · simp only [List.mem_singleton] at h1 h2; rw [h1, h2]
  blkFrm := by
    intro b hb f hf
    rcases List.mem_append.mp hf with h | h
    · exact hi.blkFrm b hb f h
    · simp only [List.mem_singleton] at h; subst h
      have := hi.ids b hb
      simp only []; omega
  cids := by
    intro c hc
    show c.id < A.nextId + 1
    rcases List.mem_append.mp hc with h | h
    · have := hi.cids c h; omega
    · simp only [List.mem_singleton] at h; subst h; exact Nat.lt_succ_self _
  contUniq := by
    intro c hc c' hc' h
    rcases List.mem_append.mp hc with h1 | h1 <;> rcases List.mem_append.mp hc' with h2 | h2
    · exact hi.contUniq c h1 c' h2 h
    · simp only [List.mem_singleton] at h2; subst h2; have := hi.cids c h1; simp only [] at h; omega
    · simp only [List.mem_singleton] at h1; subst h1; have := hi.cids c' h2; simp only [] at h; omega
    · simp only [List.mem_singleton] at h1 h2; rw [h1, h2]
  loopCids := by
    intro y hy
    show y.cid < A.nextId + 1
    have := hi.loopCids y hy; omega
  loopNums := by
    intro y hy c hc e
    rcases List.mem_append.mp hc with h | h
    · exact hi.loopNums y hy c h e
    · simp only [List.mem_singleton] at h; subst h
      have := hi.loopCids y hy; simp only [] at e; omega
  loopPw := hi.loopPw
  itemNorm := hi.itemNorm

theorem kids_addFrame (A : AState) (pid : Nat) (key orig : Str) (c : Nat) :
    kids (addFrame A pid key orig) c =
      if c = pid then kids A c ++ [{ cid := A.nextId, parent := pid, name := key, nameOrig := orig }] else kids A c := by
  unfold kids addFrame
  simp only [List.filter_append, List.filter_cons, List.filter_nil]
  by_cases h : c = pid
  · subst h; simp
  · have : (pid == c) = false := by simpa using (Ne.symm h)
    simp [h, this]

theorem loopsOf_addFrame (A : AState) (pid : Nat) (key orig : Str) (c : Nat) : loopsOf (addFrame A pid key orig) c = loopsOf A c := rfl

/-- containers that are not above the parent show the same tree after the creation of the frame -/
theorem tree_other_frame {o : Opts} {A : AState} (hi : AInv o A) (pid : Nat) (key orig : Str) :
    ∀ (fuel c : Nat) (code : Str), (¬ ∃ p, Below A c p pid) →
      (addFrame A pid key orig).treeContainer fuel c code = A.treeContainer fuel c code
  | 0, _, _, _ => by simp [AState.treeContainer]
  | fuel + 1, c, code, hn => by
    have hct : c ≠ pid := fun e => hn ⟨[], e⟩
    rw [treeContainer_succ, treeContainer_succ, kids_addFrame, if_neg hct, loopsOf_addFrame]
    congr 1
    apply List.map_congr_left
    intro f hf
    obtain ⟨hfm, hfp, _⟩ := kid_facts hi hf
    exact tree_other_frame hi pid key orig fuel f.cid f.nameOrig (fun ⟨p, hp⟩ => hn ⟨f.name :: p, f, hfm, hfp, rfl, hp⟩)

theorem tree_new_frame {o : Opts} {A : AState} (hi : AInv o A) (pid : Nat) (hpid : pid < A.nextId) (key orig : Str) (fuel : Nat) :
    (addFrame A pid key orig).treeContainer (fuel + 1) A.nextId orig = Container.mk orig [] [] := by
  rw [treeContainer_succ, kids_addFrame, loopsOf_addFrame, loopsOf_fresh o A hi, no_kids_fresh hi]
  have : A.nextId ≠ pid := by omega
  simp [this]

theorem tree_at_frame {o : Opts} {A : AState} (hi : AInv o A) (pid : Nat) (hpid : pid < A.nextId) (key orig : Str) :
    ∀ (p : Path) (fuel c : Nat) (code : Str), Below A c p pid → 1 < fuel → younger A c + 1 < fuel →
      (addFrame A pid key orig).treeContainer fuel c code =
        updC o.norm (fun cc => Container.mk cc.code (cc.frames ++ [Container.mk orig [] []]) cc.loops) p (A.treeContainer fuel c code)
  | [], fuel, c, code, hb, h1, hf => by
    obtain ⟨m, rfl⟩ : ∃ m, fuel = m + 2 := ⟨fuel - 2, by omega⟩
    cases hb
    rw [show m + 2 = (m + 1) + 1 from rfl, treeContainer_succ, treeContainer_succ, kids_addFrame, if_pos rfl, loopsOf_addFrame]
    simp only [updC, List.map_append, List.map_cons, List.map_nil]
    congr 1
    congr 1
    · apply List.map_congr_left
      intro f hf'
      obtain ⟨hfm, hfp, hlt⟩ := kid_facts hi hf'
      apply tree_other_frame hi pid key orig
      rintro ⟨p, hp⟩
      have := (below_le hi p f.cid pid hp).1
      omega
    · rw [tree_new_frame hi pid hpid key orig m]
  | k :: p, fuel, c, code, hb, h1, hf => by
    obtain ⟨m, rfl⟩ : ∃ m, fuel = m + 1 := ⟨fuel - 1, by omega⟩
    obtain ⟨f0, hf0, hp0, hn0, hb0⟩ := hb
    have hlt0 := hi.frmPar f0 hf0
    have hle0 := (below_le hi p f0.cid pid hb0).1
    have hct : c ≠ pid := by omega
    rw [treeContainer_succ, treeContainer_succ, kids_addFrame, if_neg hct, loopsOf_addFrame]
    simp only [updC]
    rw [updIn_cons]
    simp only [Container.code, Container.frames, Container.loops, List.map_map]
    congr 1
    apply List.map_congr_left
    intro f hf'
    obtain ⟨hfm, hfp, hlt⟩ := kid_facts hi hf'
    simp only [Function.comp, codeIs, tc_code, ← hi.frmNorm f hfm]
    by_cases hk : f.name = k
    · have : f = f0 := hi.frmUniq f hfm f0 hf0 (Or.inr ⟨by rw [hfp, hp0], by rw [hk, hn0]⟩)
      subst this
      have hcond : (f.name == k) = true := by simp [hk]
      rw [hcond, if_pos rfl]
      have hy := younger_lt A c f hfm hlt
      -- the fuel left for the child: at least 2 (the child has the new frame below it or is its parent)
      have hm : 1 < m := by omega
      exact tree_at_frame hi pid hpid key orig p m f.cid f.nameOrig hb0 hm (by omega)
    · have hcond : (f.name == k) = false := by simpa using hk
      rw [hcond]
      simp only [Bool.false_eq_true, if_false]
      apply tree_other_frame hi pid key orig
      exact sibling_disjoint hi f f0 hfm hf0 (by rw [hfp, hp0]) (fun e => hk (by rw [e, hn0])) pid p hb0

theorem root_disjoint {o : Opts} {A : AState} (hi : AInv o A) (b b' : BlockRow) (hb : b ∈ A.blocks) (hb' : b' ∈ A.blocks) (hne : b' ≠ b)
    (t : Nat) (p : Path) (hbelow : Below A b.cid p t) : ¬ ∃ q, Below A b'.cid q t := by
  rintro ⟨q, hq⟩
  have root : ∀ (x y : BlockRow), x ∈ A.blocks → y ∈ A.blocks → x ≠ y → ∀ r, ¬ Below A x.cid r y.cid := by
    intro x y hx hy hxy r hr
    rcases List.eq_nil_or_concat r with rfl | ⟨r', kk, rfl⟩
    · exact hxy (hi.blkUniq x hx y hy (Or.inr hr))
    · rw [List.concat_eq_append] at hr
      obtain ⟨_, _, fr, hfr, _, _, hfe⟩ := (below_snoc A kk r' x.cid y.cid).mp hr
      exact hi.blkFrm y hy fr hfr hfe.symm
  rcases below_chain hi p.length p q b.cid b'.cid t (Nat.le_refl _) hbelow hq with ⟨r, hr⟩ | ⟨r, hr⟩
  · exact root b b' hb hb' (Ne.symm hne) r hr
  · exact root b' b hb' hb hne r hr

/-- **one more save frame below the container at `ppath`**: one more (empty) container, last among its frames -/
theorem tree_addFrame (o : Opts) (A : AState) (hi : AInv o A) (ppath : Path) (pid : Nat) (hp : ContAt A ppath pid) (key orig : Str) :
    (addFrame A pid key orig).tree =
      updIn o.norm (fun cc => Container.mk cc.code (cc.frames ++ [Container.mk orig [] []]) cc.loops) ppath A.tree := by
  have hpid : pid < A.nextId := (node_of_cont hi ppath pid hp).2
  cases ppath with
  | nil => cases hp
  | cons k p =>
    obtain ⟨b, hb, hbk, hbelow⟩ := hp
    unfold AState.tree
    have hlen : (addFrame A pid key orig).frames.length = A.frames.length + 1 := by
      show (A.frames ++ [_]).length = _
      simp
    have hblk : (addFrame A pid key orig).blocks = A.blocks := rfl
    rw [hlen, hblk, updIn_cons, List.map_map]
    apply List.map_congr_left
    intro b' hb'
    simp only [Function.comp, codeIs, tc_code, ← hi.blkNorm b' hb']
    have hy := younger_le A b'.cid
    have hfull : A.treeContainer (A.frames.length + 1 + 1) b'.cid b'.nameOrig = A.treeContainer (A.frames.length + 1) b'.cid b'.nameOrig :=
      tree_full o A hi b'.cid b'.nameOrig _ (by omega)
    by_cases he : b' = b
    · subst he
      have hcond : (b'.name == k) = true := by simp [hbk]
      rw [hcond, if_pos rfl, ← hfull]
      exact tree_at_frame hi pid hpid key orig p _ b'.cid b'.nameOrig hbelow (by omega) (by omega)
    · have hn : ¬ b'.name = k := fun h => he (hi.blkUniq b' hb' b hb (Or.inl (by rw [h, hbk])))
      have hcond : (b'.name == k) = false := by simpa using hn
      rw [hcond]
      simp only [Bool.false_eq_true, if_false]
      rw [← hfull]
      exact tree_other_frame hi pid key orig _ b'.cid b'.nameOrig (root_disjoint hi b b' hb hb' he pid p hbelow)

theorem below_sub {A A' : AState} (hf : ∀ f ∈ A.frames, f ∈ A'.frames) : ∀ (p : Path) (c t : Nat), Below A c p t → Below A' c p t
  | [], _, _, h => h
  | _ :: p, _, t, ⟨f, hfm, hp, hn, hb⟩ => ⟨f, hf f hfm, hp, hn, below_sub hf p f.cid t hb⟩

theorem contAt_addFrame_old {A : AState} (pid : Nat) (key orig : Str) : ∀ (path : Path) (t : Nat),
    ContAt A path t → ContAt (addFrame A pid key orig) path t
  | [], _, h => h
  | _ :: p, t, ⟨b, hb, hk, hbel⟩ =>
    ⟨b, hb, hk, below_sub (A := A) (A' := addFrame A pid key orig) (fun f hf => List.mem_append_left _ hf) p b.cid t hbel⟩

theorem contAt_addFrame_new {A : AState} (pid : Nat) (key orig : Str) (ppath : Path) (hp : ContAt A ppath pid) :
    ContAt (addFrame A pid key orig) (ppath ++ [key]) A.nextId := by
  cases ppath with
  | nil => cases hp
  | cons k p =>
    obtain ⟨b, hb, hk, hbel⟩ := hp
    refine ⟨b, hb, hk, ?_⟩
    show Below (addFrame A pid key orig) b.cid (p ++ [key]) A.nextId
    rw [below_snoc]
    exact ⟨pid, below_sub (A := A) (A' := addFrame A pid key orig) (fun f hf => List.mem_append_left _ hf) p b.cid pid hbel,
      _, List.mem_append_right _ (List.mem_singleton.mpr rfl), rfl, rfl, rfl⟩

/-- **cif_container_create_frame(_internal)** below container `pid`: a code that is valid (or the lenient call) and not in use among
    the frames of `pid` — the call succeeds -/
theorem sim_mkFrame (o : Opts) (A : AState) (hi : AInv o A) (pid : Nat) (hnode : Node A pid) (h : CH) (hh : h.id = pid) (code : Str)
    (len : Bool) (hl : len = true ∨ isValidName false code = true)
    (hdup : (kids A pid).any (fun f => f.name == o.norm code) = false) :
    Store.specCreateFrameH A h (some (mkName o false code)) len
        = (addFrame A pid (o.norm code) code, .ok { id := A.nextId, code := code, isBlock := false }) ∧
      AInv o (addFrame A pid (o.norm code) code) := by
  have hdup' : A.frames.any (fun f => f.parent == pid && f.name == o.norm code) = false := by
    rw [List.any_eq_false]
    intro f hf hp
    simp only [Bool.and_eq_true] at hp
    have hk : f ∈ kids A pid := List.mem_filter.mpr ⟨hf, hp.1⟩
    have := List.any_eq_false.mp hdup f hk
    exact this hp.2
  refine ⟨?_, hi.addFrame pid hnode code hdup'⟩
  unfold Store.specCreateFrameH
  have hv : (!len && !(mkName o false code).valid) = false := by
    rcases hl with h | h
    · simp [h]
    · simp [mkName, h]
  simp only [hv, Bool.false_eq_true, if_false]
  have hk : (mkName o false code).key = o.norm code := rfl
  simp only [hk, hh, hdup', Bool.false_eq_true, if_false]
  rfl

/-! ### which containers a state has after a creation; the path of a container is unique -/

theorem below_addBlock_new {o : Opts} {A : AState} (hi : AInv o A) (key orig : Str) (p : Path) (t : Nat)
    (h : Below (addBlock A key orig) A.nextId p t) : p = [] := by
  cases p with
  | nil => rfl
  | cons k p' =>
    obtain ⟨f, hfm, hp, _, _⟩ := h
    have hfm' : f ∈ A.frames := hfm
    have h1 := hi.frmPar f hfm'
    have h2 := hi.frmIds f hfm'
    omega

/-- the containers of the state with one more block: the old ones, and the new block under its key -/
theorem contAt_addBlock_inv {o : Opts} {A : AState} (hi : AInv o A) (key orig : Str) (path : Path) (t : Nat)
    (h : ContAt (addBlock A key orig) path t) : ContAt A path t ∨ path = [key] := by
  cases path with
  | nil => cases h
  | cons k p =>
    obtain ⟨b, hb, hk, hbel⟩ := h
    rcases List.mem_append.mp hb with h1 | h1
    · exact Or.inl ⟨b, h1, hk, below_frames (A := addBlock A key orig) (A' := A) rfl p b.cid t hbel⟩
    · simp only [List.mem_singleton] at h1
      subst h1
      have := below_addBlock_new hi key orig p t hbel
      subst this
      exact Or.inr (by rw [← hk])

theorem below_addFrame_inv {o : Opts} {A : AState} (hi : AInv o A) (pid : Nat) (hpid : pid < A.nextId) (key orig : Str) :
    ∀ (p : Path) (c t : Nat), Below (addFrame A pid key orig) c p t →
      Below A c p t ∨ ∃ pp, p = pp ++ [key] ∧ Below A c pp pid ∧ t = A.nextId
  | [], c, t, h => Or.inl h
  | k :: p, c, t, ⟨f, hfm, hp, hn, hb⟩ => by
    rcases List.mem_append.mp hfm with h1 | h1
    · rcases below_addFrame_inv hi pid hpid key orig p f.cid t hb with h2 | ⟨pp, h2, h3, h4⟩
      · exact Or.inl ⟨f, h1, hp, hn, h2⟩
      · exact Or.inr ⟨k :: pp, by rw [h2]; rfl, ⟨f, h1, hp, hn, h3⟩, h4⟩
    · simp only [List.mem_singleton] at h1
      subst h1
      simp only [] at hp hn hb
      have hp0 : p = [] := by
        cases p with
        | nil => rfl
        | cons k2 p2 =>
          obtain ⟨g, hgm, hgp, _, _⟩ := hb
          rcases List.mem_append.mp hgm with h2 | h2
          · have := hi.frmPar g h2; have := hi.frmIds g h2; omega
          · simp only [List.mem_singleton] at h2; subst h2; simp only [] at hgp; omega
      subst hp0
      have ht : A.nextId = t := hb
      exact Or.inr ⟨[], by rw [← hn]; rfl, hp.symm, ht.symm⟩

/-- the containers of the state with one more save frame: the old ones, and the new frame below (a path of) its parent -/
theorem contAt_addFrame_inv {o : Opts} {A : AState} (hi : AInv o A) (pid : Nat) (hpid : pid < A.nextId) (key orig : Str) (path : Path) (t : Nat)
    (h : ContAt (addFrame A pid key orig) path t) : ContAt A path t ∨ ∃ pp, path = pp ++ [key] ∧ ContAt A pp pid := by
  cases path with
  | nil => cases h
  | cons k p =>
    obtain ⟨b, hb, hk, hbel⟩ := h
    rcases below_addFrame_inv hi pid hpid key orig p b.cid t hbel with h2 | ⟨pp, h2, h3, _⟩
    · exact Or.inl ⟨b, hb, hk, h2⟩
    · exact Or.inr ⟨k :: pp, by rw [h2]; rfl, b, hb, hk, h3⟩

theorem below_unique {o : Opts} {A : AState} (hi : AInv o A) : ∀ (n : Nat) (p1 p2 : Path) (c1 c2 t : Nat), p1.length ≤ n →
    (∀ f ∈ A.frames, f.cid ≠ c1) → (∀ f ∈ A.frames, f.cid ≠ c2) → Below A c1 p1 t → Below A c2 p2 t → c1 = c2 ∧ p1 = p2 := by
  intro n
  induction n with
  | zero =>
    intro p1 p2 c1 c2 t hl r1 r2 h1 h2
    have : p1 = [] := List.length_eq_zero_iff.mp (by omega)
    subst this
    cases h1
    rcases List.eq_nil_or_concat p2 with rfl | ⟨p2', k2, rfl⟩
    · cases h2; exact ⟨rfl, rfl⟩
    · rw [List.concat_eq_append] at h2
      obtain ⟨_, _, f, hf, _, _, he⟩ := (below_snoc A k2 p2' c2 c1).mp h2
      exact absurd he (r1 f hf)
  | succ n ih =>
    intro p1 p2 c1 c2 t hl r1 r2 h1 h2
    rcases List.eq_nil_or_concat p1 with rfl | ⟨p1', k1, rfl⟩
    · cases h1
      rcases List.eq_nil_or_concat p2 with rfl | ⟨p2', k2, rfl⟩
      · cases h2; exact ⟨rfl, rfl⟩
      · rw [List.concat_eq_append] at h2
        obtain ⟨_, _, f, hf, _, _, he⟩ := (below_snoc A k2 p2' c2 c1).mp h2
        exact absurd he (r1 f hf)
    rcases List.eq_nil_or_concat p2 with rfl | ⟨p2', k2, rfl⟩
    · cases h2
      rw [List.concat_eq_append] at h1
      obtain ⟨_, _, f, hf, _, _, he⟩ := (below_snoc A k1 p1' c1 c2).mp h1
      exact absurd he (r2 f hf)
    rw [List.concat_eq_append] at h1 h2 hl ⊢
    rw [List.concat_eq_append]
    obtain ⟨pc1, hb1, f1, hf1, hp1, hn1, he1⟩ := (below_snoc A k1 p1' c1 t).mp h1
    obtain ⟨pc2, hb2, f2, hf2, hp2, hn2, he2⟩ := (below_snoc A k2 p2' c2 t).mp h2
    have : f1 = f2 := hi.frmUniq f1 hf1 f2 hf2 (Or.inl (by rw [he1, he2]))
    subst this
    rw [hp1] at hp2
    subst hp2
    obtain ⟨e1, e2⟩ := ih p1' p2' c1 c2 pc1 (by simp at hl; omega) r1 r2 hb1 hb2
    exact ⟨e1, by rw [e2, ← hn1, ← hn2]⟩

/-- a container has ONE path -/
theorem contAt_unique {o : Opts} {A : AState} (hi : AInv o A) (p1 p2 : Path) (t : Nat) (h1 : ContAt A p1 t) (h2 : ContAt A p2 t) : p1 = p2 := by
  cases p1 with
  | nil => cases h1
  | cons k1 q1 =>
    cases p2 with
    | nil => cases h2
    | cons k2 q2 =>
      obtain ⟨b1, hb1, hk1, hbel1⟩ := h1
      obtain ⟨b2, hb2, hk2, hbel2⟩ := h2
      obtain ⟨e1, e2⟩ := below_unique hi q1.length q1 q2 b1.cid b2.cid t (Nat.le_refl _)
        (fun f hf e => hi.blkFrm b1 hb1 f hf e.symm) (fun f hf e => hi.blkFrm b2 hb2 f hf e.symm) hbel1 hbel2
      have : b1 = b2 := hi.blkUniq b1 hb1 b2 hb2 (Or.inr e1)
      rw [← hk1, ← hk2, this, e2]

end CifModel.ParserSimF
