import CifModel.Lemmas.StoreTx
/-
  Lemmas/StoreInv — the invariant of the relational state and its preservation by every SQL statement of the model.
-/
namespace CifModel.Store
open Gen.ErrCodes

def LoopKeyNe (a b : LoopRow) : Prop := ¬(a.cid = b.cid ∧ a.loopNum = b.loopNum)
def ItemKeyNe (a b : ItemRow) : Prop := ¬(a.cid = b.cid ∧ a.name = b.name)
def ValueKeyNe (a b : ValueRow) : Prop := ¬(a.cid = b.cid ∧ a.name = b.name ∧ a.rowNum = b.rowNum)
def ScalarNe (a b : LoopRow) : Prop := ¬(a.cid = b.cid ∧ a.category = some [] ∧ b.category = some [])

/-- the invariant of DESIGN.md: keys of loop / loop_item / item_value unique (so each normalised item name occurs once per
    container and belongs to exactly one loop); at most one scalar loop per container, and its row counter never exceeds 1;
    foreign keys: every loop belongs to an existing container, every item to an existing loop, every value to an existing
    item; row numbers are positive -/
structure InvCore (d : Db) : Prop where
  loopPK : d.loops.Pairwise LoopKeyNe
  itemPK : d.items.Pairwise ItemKeyNe
  valuePK : d.values.Pairwise ValueKeyNe
  scalar1 : d.loops.Pairwise ScalarNe
  scalarRows : ∀ l ∈ d.loops, l.category = some [] → l.lastRowNum ≤ 1
  rowPos : ∀ v ∈ d.values, 0 < v.rowNum
  loopFK : ∀ l ∈ d.loops, d.hasContainer l.cid = true
  itemFK : ∀ i ∈ d.items, d.hasLoop i.cid i.loopNum = true
  valueFK : ∀ v ∈ d.values, d.hasItem v.cid v.name = true

theorem InvCore.empty : InvCore {} :=
  ⟨List.Pairwise.nil, List.Pairwise.nil, List.Pairwise.nil, List.Pairwise.nil, (fun l h => nomatch h), (fun v h => nomatch h),
   (fun l h => nomatch h), (fun l h => nomatch h), (fun l h => nomatch h)⟩

theorem hasLoop_iff (d : Db) (c n : Nat) : d.hasLoop c n = true ↔ ∃ l ∈ d.loops, l.cid = c ∧ l.loopNum = n := by
  simp [Db.hasLoop, List.any_eq_true]
theorem hasItem_iff (d : Db) (c : Nat) (k : Str) : d.hasItem c k = true ↔ ∃ i ∈ d.items, i.cid = c ∧ i.name = k := by
  simp [Db.hasItem, List.any_eq_true]
theorem hasContainer_iff (d : Db) (c : Nat) : d.hasContainer c = true ↔ ∃ r ∈ d.containers, r.id = c := by
  simp [Db.hasContainer, List.any_eq_true]

/-- statements that leave loop / loop_item / item_value alone and lose no container -/
theorem InvCore.congr {d d' : Db} (h : InvCore d) (hl : d'.loops = d.loops) (hi : d'.items = d.items) (hv : d'.values = d.values)
    (hc : ∀ id, d.hasContainer id = true → d'.hasContainer id = true) : InvCore d' :=
  ⟨by rw [hl]; exact h.loopPK, by rw [hi]; exact h.itemPK, by rw [hv]; exact h.valuePK, by rw [hl]; exact h.scalar1,
   by rw [hl]; exact h.scalarRows, by rw [hv]; exact h.rowPos,
   by rw [hl]; intro l hm; exact hc _ (h.loopFK l hm),
   by rw [hi]; intro i hm; have := h.itemFK i hm; simp only [Db.hasLoop, hl] at this ⊢; exact this,
   by rw [hv]; intro v hm; have := h.valueFK v hm; simp only [Db.hasItem, hi] at this ⊢; exact this⟩

/-- unique loop keys in the form the atomicity lemmas use -/
theorem InvCore.toLoopPK {d : Db} (h : InvCore d) : LoopPK d := by
  intro cid ln
  have := h.loopPK
  generalize d.loops = ls at this
  induction ls with
  | nil => simp
  | cons a as ih =>
    rw [List.pairwise_cons] at this
    rw [List.filter_cons]
    split
    · rename_i ha
      have hnone : as.filter (fun l => l.cid == cid && l.loopNum == ln) = [] := by
        rw [List.filter_eq_nil_iff]
        intro b hb hbk
        simp at ha hbk
        exact this.1 b hb ⟨by rw [ha.1, hbk.1], by rw [ha.2, hbk.2]⟩
      simp [hnone]
    · exact ih this.2

theorem filter_true' {α} (l : List α) : l.filter (fun _ => true) = l := List.filter_eq_self.mpr (fun _ _ => rfl)

-- ---- statements that only remove rows -----------------------------------------------------------------------------------

/-- delete from item_value only -/
theorem InvCore.filterValues {d : Db} (h : InvCore d) (pv : ValueRow → Bool) : InvCore { d with values := d.values.filter pv } :=
  ⟨h.loopPK, h.itemPK, h.valuePK.filter _, h.scalar1, h.scalarRows, fun v hm => h.rowPos v (List.mem_filter.mp hm).1,
   h.loopFK, h.itemFK, fun v hm => h.valueFK v (List.mem_filter.mp hm).1⟩

/-- the cascade from loop_item to item_value keeps the values of the surviving items, with their items -/
theorem cascade_values (items : List ItemRow) (values : List ValueRow) (q : ItemRow → Bool)
    (hfk : ∀ v ∈ values, ∃ i ∈ items, i.cid = v.cid ∧ i.name = v.name) :
    ∀ v ∈ values.filter (fun v => !(items.filter q).any (fun i => i.cid == v.cid && i.name == v.name)),
      ∃ i ∈ items.filter (fun i => !q i), i.cid = v.cid ∧ i.name = v.name := by
  intro v hm
  obtain ⟨hv, hkeep⟩ := List.mem_filter.mp hm
  obtain ⟨i, hi, h1, h2⟩ := hfk v hv
  refine ⟨i, ?_, h1, h2⟩
  rw [List.mem_filter]
  refine ⟨hi, ?_⟩
  cases hp : q i with
  | false => rfl
  | true =>
    exfalso
    have : (items.filter q).any (fun i => i.cid == v.cid && i.name == v.name) = true := by
      rw [List.any_eq_true]
      exact ⟨i, List.mem_filter.mpr ⟨hi, hp⟩, by simp [h1, h2]⟩
    simp [this] at hkeep

theorem InvCore.deleteItems {d : Db} (h : InvCore d) (p : ItemRow → Bool) : InvCore (d.deleteItems p) := by
  unfold Db.deleteItems
  refine ⟨h.loopPK, h.itemPK.filter _, h.valuePK.filter _, h.scalar1, h.scalarRows,
    fun v hm => h.rowPos v (List.mem_filter.mp hm).1, h.loopFK, fun i hm => h.itemFK i (List.mem_filter.mp hm).1, ?_⟩
  intro v hm
  rw [hasItem_iff]
  exact cascade_values d.items d.values p (fun v hv => (hasItem_iff d _ _).mp (h.valueFK v hv)) v hm

/-- delete from loop (cascading to loop_item and item_value), possibly together with container rows none of the
    surviving loops refers to -/
theorem InvCore.deleteLoopsWith {d : Db} (h : InvCore d) (p : LoopRow → Bool) (cs : List ContainerRow) (bs : List BlockRow) (fs : List FrameRow)
    (hcs : ∀ l ∈ d.loops, p l = false → cs.any (fun c => c.id == l.cid) = true) :
    InvCore (({ d with containers := cs, blocks := bs, frames := fs } : Db).deleteLoops p) := by
  unfold Db.deleteLoops Db.deleteItems
  refine ⟨h.loopPK.filter _, h.itemPK.filter _, h.valuePK.filter _, h.scalar1.filter _,
    fun l hm => h.scalarRows l (List.mem_filter.mp hm).1, fun v hm => h.rowPos v (List.mem_filter.mp hm).1, ?_, ?_, ?_⟩
  · intro l hm
    obtain ⟨hl, hp⟩ := List.mem_filter.mp hm
    exact hcs l hl (by simpa using hp)
  · intro i hm
    obtain ⟨hi, hkeep⟩ := List.mem_filter.mp hm
    obtain ⟨l, hl, h1, h2⟩ := (hasLoop_iff d _ _).mp (h.itemFK i hi)
    rw [hasLoop_iff]
    refine ⟨l, ?_, h1, h2⟩
    show l ∈ d.loops.filter (fun l => !p l)
    rw [List.mem_filter]
    refine ⟨hl, ?_⟩
    cases hp : p l with
    | false => rfl
    | true =>
      exfalso
      have : (d.loops.filter p).any (fun l => l.cid == i.cid && l.loopNum == i.loopNum) = true := by
        rw [List.any_eq_true]
        exact ⟨l, List.mem_filter.mpr ⟨hl, hp⟩, by simp [h1, h2]⟩
      simp [this] at hkeep
  · intro v hm
    rw [hasItem_iff]
    exact cascade_values d.items d.values _ (fun v hv => (hasItem_iff d _ _).mp (h.valueFK v hv)) v hm

theorem InvCore.deleteLoops {d : Db} (h : InvCore d) (p : LoopRow → Bool) : InvCore (d.deleteLoops p) :=
  h.deleteLoopsWith p d.containers d.blocks d.frames (fun l hl _ => h.loopFK l hl)

theorem InvCore.deleteContainer {d : Db} (h : InvCore d) (id : Nat) : InvCore (d.deleteContainer id).1 := by
  unfold Db.deleteContainer
  simp only []
  split
  · exact h
  · apply h.deleteLoopsWith
    intro l hl hp
    obtain ⟨r, hr, hid⟩ := (hasContainer_iff d _).mp (h.loopFK l hl)
    rw [List.any_eq_true]
    refine ⟨r, List.mem_filter.mpr ⟨hr, ?_⟩, by simp [hid]⟩
    have : l.cid ≠ id := by simpa using hp
    simp [hid, this]

theorem InvCore.removeItem {d : Db} (h : InvCore d) (cid : Nat) (k : Str) : InvCore (d.removeItem cid k) := h.deleteItems _
theorem InvCore.destroyLoop {d : Db} (h : InvCore d) (cid ln : Nat) : InvCore (d.destroyLoop cid ln).1 := h.deleteLoops _
theorem InvCore.prune {d : Db} (h : InvCore d) (cid : Nat) : InvCore (d.prune cid) := h.deleteLoops _
theorem InvCore.removePacket {d : Db} (h : InvCore d) (cid ln row : Nat) : InvCore (d.removePacket cid ln row) := h.filterValues _

-- ---- inserts ---------------------------------------------------------------------------------------------------------------

theorem InvCore.insertContainer {d : Db} (h : InvCore d) : InvCore d.insertContainer.1 :=
  h.congr rfl rfl rfl (fun id hid => by
    obtain ⟨r, hr, he⟩ := (hasContainer_iff d id).mp hid
    exact (hasContainer_iff _ id).mpr ⟨r, List.mem_append_left _ hr, he⟩)

theorem InvCore.insertBlock {d d' : Db} (h : InvCore d) (cid : Nat) (k o : Str) (he : d.insertBlock cid k o = some d') : InvCore d' := by
  unfold Db.insertBlock at he
  split at he; · cases he
  split at he; · cases he
  split at he; · cases he
  cases he; exact h.congr rfl rfl rfl (fun _ hid => hid)

theorem InvCore.insertFrame {d d' : Db} (h : InvCore d) (cid par : Nat) (k o : Str) (he : d.insertFrame cid par k o = some d') : InvCore d' := by
  unfold Db.insertFrame at he
  split at he; · cases he
  split at he; · cases he
  split at he; · cases he
  split at he; · cases he
  split at he; · cases he
  cases he; exact h.congr rfl rfl rfl (fun _ hid => hid)

theorem pairwise_append_single {α} {R : α → α → Prop} {l : List α} {x : α} (h : l.Pairwise R) (hx : ∀ a ∈ l, R a x) :
    (l ++ [x]).Pairwise R := by
  rw [List.pairwise_append]
  exact ⟨h, List.pairwise_singleton _ _, fun a ha b hb => by simp at hb; subst hb; exact hx a ha⟩

theorem InvCore.insertLoopUnnumbered {d d' : Db} (h : InvCore d) (cid : Nat) (cat : Option Str)
    (he : d.insertLoopUnnumbered cid cat = .ok d') : InvCore d' := by
  unfold Db.insertLoopUnnumbered at he
  split at he; · cases he
  rename_i hsc
  split at he; · cases he
  rename_i c hc
  split at he; · cases he
  rename_i hfresh
  cases he
  have hcont : ∀ id, d.hasContainer id = true →
      (d.containers.map (fun r => if r.id == cid then { r with nextLoopNum := r.nextLoopNum + 1 } else r)).any (fun c => c.id == id) = true := by
    intro id hid
    obtain ⟨r, hr, hre⟩ := (hasContainer_iff d id).mp hid
    rw [List.any_eq_true]
    refine ⟨_, List.mem_map.mpr ⟨r, hr, rfl⟩, ?_⟩
    split <;> simp [hre]
  refine ⟨?_, h.itemPK, h.valuePK, ?_, ?_, h.rowPos, ?_, ?_, h.valueFK⟩
  · apply pairwise_append_single h.loopPK
    intro a ha ⟨h1, h2⟩
    apply hfresh
    simp only [Db.hasLoop, List.any_eq_true]
    exact ⟨a, ha, by simp [h1, h2]⟩
  · apply pairwise_append_single h.scalar1
    intro a ha ⟨h1, h2, h3⟩
    apply hsc
    simp only [Bool.and_eq_true, List.any_eq_true]
    simp only [] at h1 h3
    exact ⟨by simp [h3], a, ha, by simp [h1, h2]⟩
  · intro l hl
    rcases List.mem_append.mp hl with hl | hl
    · exact h.scalarRows l hl
    · simp at hl; subst hl; intro _; simp
  · intro l hl
    rcases List.mem_append.mp hl with hl | hl
    · exact hcont _ (h.loopFK l hl)
    · simp at hl; subst hl
      have hmem := List.mem_of_find?_eq_some hc
      have hkey := List.find?_some hc
      exact hcont cid ((hasContainer_iff d cid).mpr ⟨c, hmem, by simpa using hkey⟩)
  · intro i hi
    obtain ⟨l, hl, h1, h2⟩ := (hasLoop_iff d _ _).mp (h.itemFK i hi)
    exact (hasLoop_iff _ _ _).mpr ⟨l, List.mem_append_left _ hl, h1, h2⟩

theorem InvCore.insertItem {d d' : Db} (h : InvCore d) (cid : Nat) (k o : Str) (ln : Nat) (he : d.insertItem cid k o ln = some d') : InvCore d' := by
  unfold Db.insertItem at he
  split at he; · cases he
  rename_i hfresh
  split at he; · cases he
  rename_i hloop
  cases he
  refine ⟨h.loopPK, ?_, h.valuePK, h.scalar1, h.scalarRows, h.rowPos, h.loopFK, ?_, ?_⟩
  · apply pairwise_append_single h.itemPK
    intro a ha ⟨h1, h2⟩
    apply hfresh
    simp only [Db.hasItem, List.any_eq_true]
    exact ⟨a, ha, by simp [h1, h2]⟩
  · intro i hi
    rcases List.mem_append.mp hi with hi | hi
    · exact h.itemFK i hi
    · simp at hi; subst hi
      have : d.hasLoop cid ln = true := by simpa using hloop
      exact this
  · intro v hv
    obtain ⟨i, hi, h1, h2⟩ := (hasItem_iff d _ _).mp (h.valueFK v hv)
    exact (hasItem_iff _ _ _).mpr ⟨i, List.mem_append_left _ hi, h1, h2⟩

theorem InvCore.insertValue {d d' : Db} (h : InvCore d) (cid : Nat) (k : Str) (row : Nat) (v : V) (he : d.insertValue cid k row v = some d') : InvCore d' := by
  unfold Db.insertValue at he
  split at he; · cases he
  rename_i hfresh
  split at he; · cases he
  rename_i hrow
  split at he; · cases he
  rename_i hitem
  cases he
  refine ⟨h.loopPK, h.itemPK, ?_, h.scalar1, h.scalarRows, ?_, h.loopFK, h.itemFK, ?_⟩
  · apply pairwise_append_single h.valuePK
    intro a ha ⟨h1, h2, h3⟩
    apply hfresh
    simp only [Db.hasValue, List.any_eq_true]
    exact ⟨a, ha, by simp [h1, h2, h3]⟩
  · intro w hw
    rcases List.mem_append.mp hw with hw | hw
    · exact h.rowPos w hw
    · simp at hw; subst hw
      simp at hrow; exact Nat.pos_of_ne_zero hrow
  · intro w hw
    rcases List.mem_append.mp hw with hw | hw
    · exact h.valueFK w hw
    · simp at hw; subst hw
      have : d.hasItem cid k = true := by simpa using hitem
      exact this

theorem InvCore.replaceValue {d d' : Db} (h : InvCore d) (cid : Nat) (k : Str) (row : Nat) (v : V) (he : d.replaceValue cid k row v = some d') : InvCore d' := by
  unfold Db.replaceValue at he
  split at he; · cases he
  rename_i hrow
  split at he; · cases he
  rename_i hitem
  cases he
  refine ⟨h.loopPK, h.itemPK, ?_, h.scalar1, h.scalarRows, ?_, h.loopFK, h.itemFK, ?_⟩
  · apply pairwise_append_single (h.valuePK.filter _)
    intro a ha ⟨h1, h2, h3⟩
    have := (List.mem_filter.mp ha).2
    simp [h1, h2, h3] at this
  · intro w hw
    rcases List.mem_append.mp hw with hw | hw
    · exact h.rowPos w (List.mem_filter.mp hw).1
    · simp at hw; subst hw
      simp at hrow; exact Nat.pos_of_ne_zero hrow
  · intro w hw
    rcases List.mem_append.mp hw with hw | hw
    · exact h.valueFK w (List.mem_filter.mp hw).1
    · simp at hw; subst hw
      have : d.hasItem cid k = true := by simpa using hitem
      exact this

/-- FILL_PACKET_SQL -/
theorem InvCore.fillPacket {d : Db} (h : InvCore d) (cid ln row : Nat) : InvCore (d.fillPacket cid ln row) := by
  unfold Db.fillPacket
  simp only []
  split
  · exact h
  · rename_i hrow
    have hpos : 0 < row := by
      have : row ≠ 0 := by simpa using hrow
      exact Nat.pos_of_ne_zero this
    refine ⟨h.loopPK, h.itemPK, ?_, h.scalar1, h.scalarRows, ?_, h.loopFK, h.itemFK, ?_⟩
    · show (d.values ++ _).Pairwise ValueKeyNe
      rw [List.pairwise_append]
      refine ⟨h.valuePK, ?_, ?_⟩
      · rw [List.pairwise_map]
        have hp : ((d.items.filter (fun i => i.cid == cid && i.loopNum == ln)).filter (fun i => !d.hasValue cid i.name row)).Pairwise ItemKeyNe :=
          (h.itemPK.filter _).filter _
        refine hp.imp_of_mem ?_
        intro a b ha hb hab ⟨_, h2, _⟩
        have ka := (List.mem_filter.mp (List.mem_filter.mp ha).1).2
        have kb := (List.mem_filter.mp (List.mem_filter.mp hb).1).2
        simp at ka kb
        exact hab ⟨by rw [ka.1, kb.1], h2⟩
      · intro a ha b hb ⟨h1, h2, h3⟩
        obtain ⟨i, hi, rfl⟩ := List.mem_map.mp hb
        have hno := (List.mem_filter.mp hi).2
        simp only [] at h1 h2 h3
        have : d.hasValue cid i.name row = true := by
          simp only [Db.hasValue, List.any_eq_true]
          exact ⟨a, ha, by simp [h1, h2, h3]⟩
        simp [this] at hno
    · intro w hw
      rcases List.mem_append.mp hw with hw | hw
      · exact h.rowPos w hw
      · obtain ⟨i, _, rfl⟩ := List.mem_map.mp hw
        exact hpos
    · intro w hw
      rcases List.mem_append.mp hw with hw | hw
      · exact h.valueFK w hw
      · obtain ⟨i, hi, rfl⟩ := List.mem_map.mp hw
        obtain ⟨him, hik⟩ := List.mem_filter.mp (List.mem_filter.mp hi).1
        simp at hik
        exact (hasItem_iff d _ _).mpr ⟨i, him, hik.1, rfl⟩

-- ---- updates of the loop table -------------------------------------------------------------------------------------------

theorem any_map_key (ls : List LoopRow) (f : LoopRow → LoopRow) (hk : ∀ l, (f l).cid = l.cid ∧ (f l).loopNum = l.loopNum) (c n : Nat) :
    (ls.map f).any (fun l => l.cid == c && l.loopNum == n) = ls.any (fun l => l.cid == c && l.loopNum == n) := by
  induction ls with
  | nil => rfl
  | cons a as ih => simp only [List.map_cons, List.any_cons, ih, (hk a).1, (hk a).2]

/-- the foreign keys survive an update of loop rows that keeps their keys -/
theorem InvCore.fk_mapLoops {d : Db} (h : InvCore d) (f : LoopRow → LoopRow) (hk : ∀ l, (f l).cid = l.cid ∧ (f l).loopNum = l.loopNum) :
    (∀ l ∈ d.loops.map f, d.hasContainer l.cid = true) ∧
    (∀ i ∈ d.items, (d.loops.map f).any (fun l => l.cid == i.cid && l.loopNum == i.loopNum) = true) := by
  constructor
  · intro l hm
    obtain ⟨a, ha, rfl⟩ := List.mem_map.mp hm
    rw [(hk a).1]; exact h.loopFK a ha
  · intro i hi
    rw [any_map_key _ f hk]
    exact h.itemFK i hi

theorem InvCore.mapLoops {d : Db} (h : InvCore d) (f : LoopRow → LoopRow) (hk : ∀ l, (f l).cid = l.cid ∧ (f l).loopNum = l.loopNum ∧ (f l).category = l.category)
    (hr : ∀ l ∈ d.loops, (f l).category = some [] → (f l).lastRowNum ≤ 1) :
    InvCore { d with loops := d.loops.map f } := by
  have hfk := h.fk_mapLoops f (fun l => ⟨(hk l).1, (hk l).2.1⟩)
  refine ⟨?_, h.itemPK, h.valuePK, ?_, ?_, h.rowPos, hfk.1, hfk.2, h.valueFK⟩
  · show (d.loops.map f).Pairwise LoopKeyNe
    rw [List.pairwise_map]
    exact h.loopPK.imp (fun {a b} hab ⟨h1, h2⟩ => hab ⟨by rw [← (hk a).1, ← (hk b).1, h1], by rw [← (hk a).2.1, ← (hk b).2.1, h2]⟩)
  · show (d.loops.map f).Pairwise ScalarNe
    rw [List.pairwise_map]
    exact h.scalar1.imp (fun {a b} hab ⟨h1, h2, h3⟩ => hab ⟨by rw [← (hk a).1, ← (hk b).1, h1], by rw [← (hk a).2.2, h2], by rw [← (hk b).2.2, h3]⟩)
  · intro l hm
    obtain ⟨a, ha, rfl⟩ := List.mem_map.mp hm
    exact hr a ha

theorem InvCore.bumpRowNum {d d' : Db} (h : InvCore d) (cid ln : Nat) (he : d.bumpRowNum cid ln = .ok d') : InvCore d' := by
  unfold Db.bumpRowNum at he
  split at he; · cases he
  rename_i hchk
  cases he
  apply h.mapLoops (fun l => if l.cid == cid && l.loopNum == ln then { l with lastRowNum := l.lastRowNum + 1 } else l)
  · intro l; split <;> exact ⟨rfl, rfl, rfl⟩
  · intro l hl hc
    by_cases hm : (l.cid == cid && l.loopNum == ln) = true
    · simp only [hm, if_true] at hc ⊢
      -- tr4_loop did not fire
      have : ¬ (l.lastRowNum + 1 > 1) := by
        intro hgt
        apply hchk
        simp only [List.any_eq_true]
        refine ⟨l, hl, ?_⟩
        simp only [Bool.and_eq_true] at hm ⊢
        exact ⟨⟨hm, by simp [hc]⟩, by simpa using hgt⟩
      omega
    · simp only [hm, if_false] at hc ⊢
      exact h.scalarRows l hl hc

theorem InvCore.resetRowNum {d : Db} (h : InvCore d) (cid ln : Nat) : InvCore (d.resetRowNum cid ln) := by
  apply h.mapLoops (fun l => if l.cid == cid && l.loopNum == ln then { l with lastRowNum := 0 } else l)
  · intro l; split <;> exact ⟨rfl, rfl, rfl⟩
  · intro l hl hc
    split
    · simp
    · rename_i hm; simp only [hm] at hc; exact h.scalarRows l hl hc

theorem mem_insertNat (x y : Nat) : ∀ l : List Nat, y ∈ Db.insertNat x l → y = x ∨ y ∈ l
  | [], h => by simp [Db.insertNat] at h; exact Or.inl h
  | z :: zs, h => by
    unfold Db.insertNat at h
    split at h
    · rcases List.mem_cons.mp h with h | h
      · exact Or.inl h
      · exact Or.inr h
    · split at h
      · exact Or.inr h
      · rcases List.mem_cons.mp h with h | h
        · exact Or.inr (by rw [h]; exact List.mem_cons_self)
        · rcases mem_insertNat x y zs h with h | h
          · exact Or.inl h
          · exact Or.inr (List.mem_cons_of_mem _ h)

theorem insertNat_sorted (x : Nat) : ∀ l : List Nat, l.Pairwise (· < ·) → (Db.insertNat x l).Pairwise (· < ·)
  | [], _ => by simp [Db.insertNat]
  | z :: zs, h => by
    unfold Db.insertNat
    rw [List.pairwise_cons] at h
    split
    · rename_i hlt
      rw [List.pairwise_cons]
      refine ⟨?_, List.pairwise_cons.mpr h⟩
      intro b hb
      rcases List.mem_cons.mp hb with rfl | hb
      · exact hlt
      · exact Nat.lt_trans hlt (h.1 b hb)
    · split
      · exact List.pairwise_cons.mpr h
      · rename_i hnlt hne
        rw [List.pairwise_cons]
        refine ⟨?_, insertNat_sorted x zs h.2⟩
        intro b hb
        rcases mem_insertNat x b zs hb with rfl | hb
        · have : ¬ (b = z) := by simpa using hne
          omega
        · exact h.1 b hb

theorem loopRows_sorted (d : Db) (cid ln : Nat) : (d.loopRows cid ln).Pairwise (· < ·) := by
  unfold Db.loopRows
  have : ∀ (vs : List ValueRow) (acc : List Nat), acc.Pairwise (· < ·) →
      (vs.foldl (fun acc v => Db.insertNat v.rowNum acc) acc).Pairwise (· < ·) := by
    intro vs
    induction vs with
    | nil => intro acc ha; exact ha
    | cons v vs ih => intro acc ha; exact ih _ (insertNat_sorted _ _ ha)
  exact this _ [] List.Pairwise.nil

theorem loopRows_pos {d : Db} (h : InvCore d) (cid ln : Nat) : ∀ r ∈ d.loopRows cid ln, 0 < r := by
  unfold Db.loopRows
  have : ∀ (vs : List ValueRow) (acc : List Nat), (∀ v ∈ vs, 0 < v.rowNum) → (∀ r ∈ acc, 0 < r) →
      ∀ r ∈ vs.foldl (fun acc v => Db.insertNat v.rowNum acc) acc, 0 < r := by
    intro vs
    induction vs with
    | nil => intro acc _ ha r hr; exact ha r hr
    | cons v vs ih =>
      intro acc hv ha r hr
      simp only [List.foldl_cons] at hr
      apply ih _ (fun w hw => hv w (List.mem_cons_of_mem _ hw)) _ r hr
      intro r' hr'
      rcases mem_insertNat _ _ _ hr' with h1 | h1
      · rw [h1]; exact hv v List.mem_cons_self
      · exact ha r' h1
  exact this _ [] (fun v hv => h.rowPos v (List.mem_filter.mp hv).1) (fun r hr => nomatch hr)

theorem InvCore.setAllValues {d : Db} (h : InvCore d) (cid : Nat) (k : Str) (v : V) : InvCore (d.setAllValues cid k v).1 := by
  unfold Db.setAllValues
  split
  · exact h
  · rename_i ln hlo
    have hitem : d.hasItem cid k = true := by
      unfold Db.loopOfItem at hlo
      cases hf : d.items.find? (fun i => i.cid == cid && i.name == k) with
      | none => simp [hf] at hlo
      | some i =>
        have hmem := List.mem_of_find?_eq_some hf
        have hkey := List.find?_some hf
        simp at hkey
        exact (hasItem_iff d cid k).mpr ⟨i, hmem, hkey.1, hkey.2⟩
    refine ⟨h.loopPK, h.itemPK, ?_, h.scalar1, h.scalarRows, ?_, h.loopFK, h.itemFK, ?_⟩
    · show (d.values.filter _ ++ (d.loopRows cid ln).map _).Pairwise ValueKeyNe
      rw [List.pairwise_append]
      refine ⟨h.valuePK.filter _, ?_, ?_⟩
      · rw [List.pairwise_map]
        exact (loopRows_sorted d cid ln).imp (fun {a b} hab ⟨_, _, h3⟩ => by simp only [] at h3; omega)
      · intro a ha b hb ⟨h1, h2, h3⟩
        obtain ⟨r, hr, rfl⟩ := List.mem_map.mp hb
        have := (List.mem_filter.mp ha).2
        simp only [] at h1 h2 h3
        simp [h1, h2, h3, hr] at this
    · intro w hw
      rcases List.mem_append.mp hw with hw | hw
      · exact h.rowPos w (List.mem_filter.mp hw).1
      · obtain ⟨r, hr, rfl⟩ := List.mem_map.mp hw
        exact loopRows_pos h cid ln r hr
    · intro w hw
      rcases List.mem_append.mp hw with hw | hw
      · exact h.valueFK w (List.mem_filter.mp hw).1
      · obtain ⟨r, hr, rfl⟩ := List.mem_map.mp hw
        exact hitem

theorem loopKey_unique : ∀ (ls : List LoopRow), ls.Pairwise LoopKeyNe → ∀ a ∈ ls, ∀ b ∈ ls, a.cid = b.cid → a.loopNum = b.loopNum → a = b
  | [], _, a, ha, _, _, _, _ => nomatch ha
  | x :: xs, hp, a, ha, b, hb, h1, h2 => by
    rw [List.pairwise_cons] at hp
    rcases List.mem_cons.mp ha with rfl | ha' <;> rcases List.mem_cons.mp hb with rfl | hb'
    · rfl
    · exact absurd ⟨h1, h2⟩ (hp.1 b hb')
    · exact absurd ⟨h1.symm, h2.symm⟩ (hp.1 a ha')
    · exact loopKey_unique xs hp.2 a ha' b hb' h1 h2

/-- SET_CATEGORY_SQL with its triggers tr2_loop / tr4_loop -/
theorem InvCore.setCategory {d d' : Db} (h : InvCore d) (cid ln : Nat) (cat : Option Str) (n : Nat)
    (he : d.setCategory cid ln cat = .ok (d', n)) : InvCore d' := by
  unfold Db.setCategory at he
  split at he
  · cases he; exact h
  · rename_i old hfind
    split at he; · cases he
    rename_i hchk1
    split at he; · cases he
    rename_i hchk2
    cases he
    have hold_mem : old ∈ d.loops := List.mem_of_find?_eq_some hfind
    have hold_key : old.cid = cid ∧ old.loopNum = ln := by
      have := List.find?_some hfind
      simpa using this
    -- a row with the key is `old`
    have huniq : ∀ a ∈ d.loops, (a.cid == cid && a.loopNum == ln) = true → a = old := by
      intro a ha hk
      simp at hk
      exact loopKey_unique d.loops h.loopPK a ha old hold_mem (by rw [hk.1, hold_key.1]) (by rw [hk.2, hold_key.2])
    let f : LoopRow → LoopRow := fun l => if l.cid == cid && l.loopNum == ln then { l with category := cat } else l
    have hfk : ∀ l, (f l).cid = l.cid ∧ (f l).loopNum = l.loopNum ∧ (f l).lastRowNum = l.lastRowNum := by
      intro l; simp only [f]; split <;> exact ⟨rfl, rfl, rfl⟩
    have hfks := h.fk_mapLoops f (fun l => ⟨(hfk l).1, (hfk l).2.1⟩)
    refine ⟨?_, h.itemPK, h.valuePK, ?_, ?_, h.rowPos, hfks.1, hfks.2, h.valueFK⟩
    · show (d.loops.map f).Pairwise LoopKeyNe
      rw [List.pairwise_map]
      exact h.loopPK.imp (fun {a b} hab ⟨h1, h2⟩ => hab ⟨by rw [← (hfk a).1, ← (hfk b).1, h1], by rw [← (hfk a).2.1, ← (hfk b).2.1, h2]⟩)
    · show (d.loops.map f).Pairwise ScalarNe
      rw [List.pairwise_map]
      have hboth := h.loopPK.and h.scalar1
      refine hboth.imp_of_mem ?_
      intro a b ha hb ⟨hk, hs⟩ ⟨h1, h2, h3⟩
      have hcid : a.cid = b.cid := by rw [← (hfk a).1, ← (hfk b).1, h1]
      by_cases hma : (a.cid == cid && a.loopNum == ln) = true
      · -- a is the updated row, b is another row of the same container and is scalar
        have hmb : (b.cid == cid && b.loopNum == ln) = false := by
          cases hx : (b.cid == cid && b.loopNum == ln) with
          | false => rfl
          | true =>
            simp at hma hx
            exact absurd ⟨by rw [hma.1, hx.1], by rw [hma.2, hx.2]⟩ hk
        have hfa : (f a).category = cat := by simp only [f, hma, if_true]
        have hfb : f b = b := by simp only [f, hmb]; rfl
        rw [hfa] at h2; rw [hfb] at h3
        have haold := huniq a ha hma
        have hex : d.loops.any (fun l => l.cid == cid && l.category == some []) = true := by
          simp only [List.any_eq_true]
          simp at hma
          exact ⟨b, hb, by simp [← hcid, hma.1, h3]⟩
        have : old.category = some [] := by
          cases hoc : (old.category != some []) with
          | false => simpa using hoc
          | true => exact absurd (by simp [h2, hoc, hex]) hchk1
        exact hs ⟨hcid, by rw [haold]; exact this, h3⟩
      · have hfa : f a = a := by simp only [f, hma]; rfl
        by_cases hmb : (b.cid == cid && b.loopNum == ln) = true
        · have hfb : (f b).category = cat := by simp only [f, hmb, if_true]
          rw [hfa] at h2; rw [hfb] at h3
          have hbold := huniq b hb hmb
          have hex : d.loops.any (fun l => l.cid == cid && l.category == some []) = true := by
            simp only [List.any_eq_true]
            simp at hmb
            exact ⟨a, ha, by simp [hcid, hmb.1, h2]⟩
          have : old.category = some [] := by
            cases hoc : (old.category != some []) with
            | false => simpa using hoc
            | true => exact absurd (by simp [h3, hoc, hex]) hchk1
          exact hs ⟨hcid, h2, by rw [hbold]; exact this⟩
        · have hfb : f b = b := by simp only [f, hmb]; rfl
          rw [hfa] at h2; rw [hfb] at h3
          exact hs ⟨hcid, h2, h3⟩
    · show ∀ l ∈ d.loops.map f, l.category = some [] → l.lastRowNum ≤ 1
      intro l hm hc
      obtain ⟨a, ha, rfl⟩ := List.mem_map.mp hm
      rw [(hfk a).2.2]
      by_cases hma : (a.cid == cid && a.loopNum == ln) = true
      · have hfa : (f a).category = cat := by simp only [f, hma, if_true]
        rw [hfa] at hc
        have haold := huniq a ha hma
        rw [haold]
        have : ¬ (old.lastRowNum > 1) := by
          intro hgt; exact hchk2 (by simp [hc, hgt])
        omega
      · have hfa : f a = a := by simp only [f, hma]; rfl
        rw [hfa] at hc
        exact h.scalarRows a ha hc

-- ---- the second group of clauses: container keys, the id sequence, loop numbers below next_loop_num --------------------------

structure InvExt (d : Db) : Prop where
  containerPK : d.containers.Pairwise (fun a b => a.id ≠ b.id)
  idsBelow : ∀ c ∈ d.containers, c.id < d.nextId
  /-- loop numbers stay below the container's next_loop_num (tr1_unnumbered_loop hands them out in sequence) -/
  loopNumsBelow : ∀ c ∈ d.containers, ∀ l ∈ d.loops, l.cid = c.id → l.loopNum < c.nextLoopNum

theorem InvExt.empty : InvExt {} := ⟨List.Pairwise.nil, (fun c h => nomatch h), (fun c h => nomatch h)⟩

/-- statements that add no container, keep the id sequence and add no loop key -/
theorem InvExt.shrink {d d' : Db} (h : InvExt d) (hsub : d'.containers.Sublist d.containers) (hn : d'.nextId = d.nextId)
    (hl : ∀ l ∈ d'.loops, ∃ l0 ∈ d.loops, l0.cid = l.cid ∧ l0.loopNum = l.loopNum) : InvExt d' :=
  ⟨h.containerPK.sublist hsub, fun c hc => by rw [hn]; exact h.idsBelow c (hsub.subset hc),
   fun c hc l hlm hk => by
     obtain ⟨l0, hl0, h1, h2⟩ := hl l hlm
     rw [← h2]; exact h.loopNumsBelow c (hsub.subset hc) l0 hl0 (by rw [h1, hk])⟩

theorem InvExt.sameLoops {d d' : Db} (h : InvExt d) (hc : d'.containers = d.containers) (hn : d'.nextId = d.nextId)
    (hl : d'.loops = d.loops) : InvExt d' :=
  h.shrink (by rw [hc]; exact List.Sublist.refl _) hn (fun l hlm => ⟨l, by rw [← hl]; exact hlm, rfl, rfl⟩)

theorem containerKey_unique : ∀ (cs : List ContainerRow), cs.Pairwise (fun a b => a.id ≠ b.id) → ∀ a ∈ cs, ∀ b ∈ cs, a.id = b.id → a = b
  | [], _, a, ha, _, _, _ => nomatch ha
  | x :: xs, hp, a, ha, b, hb, h1 => by
    rw [List.pairwise_cons] at hp
    rcases List.mem_cons.mp ha with rfl | ha' <;> rcases List.mem_cons.mp hb with rfl | hb'
    · rfl
    · exact absurd h1 (hp.1 b hb')
    · exact absurd h1.symm (hp.1 a ha')
    · exact containerKey_unique xs hp.2 a ha' b hb' h1

theorem InvExt.insertContainer {d : Db} (h : InvExt d) (hc : InvCore d) : InvExt d.insertContainer.1 := by
  unfold Db.insertContainer
  refine ⟨?_, ?_, ?_⟩
  · apply pairwise_append_single h.containerPK
    intro a ha
    have := h.idsBelow a ha
    simp only []; omega
  · intro c hcm
    simp only [] at hcm ⊢
    rcases List.mem_append.mp hcm with hcm | hcm
    · have := h.idsBelow c hcm; omega
    · simp at hcm; subst hcm; simp
  · intro c hcm l hl hk
    simp only [] at hcm hl
    rcases List.mem_append.mp hcm with hcm | hcm
    · exact h.loopNumsBelow c hcm l hl hk
    · simp at hcm; subst hcm
      -- no loop can refer to the id that has not been handed out yet
      exfalso
      obtain ⟨r, hr, hre⟩ := (hasContainer_iff d _).mp (hc.loopFK l hl)
      have := h.idsBelow r hr
      simp only [] at hk
      omega

theorem InvExt.insertLoopUnnumbered {d d' : Db} (h : InvExt d) (cid : Nat) (cat : Option Str)
    (he : d.insertLoopUnnumbered cid cat = .ok d') : InvExt d' := by
  unfold Db.insertLoopUnnumbered at he
  split at he; · cases he
  split at he; · cases he
  rename_i c hc
  split at he; · cases he
  cases he
  have hcm := List.mem_of_find?_eq_some hc
  have hck : c.id = cid := by have := List.find?_some hc; simpa using this
  let f : ContainerRow → ContainerRow := fun r => if r.id == cid then { r with nextLoopNum := r.nextLoopNum + 1 } else r
  have hfid : ∀ r, (f r).id = r.id := by intro r; simp only [f]; split <;> rfl
  have hfn : ∀ r, r.nextLoopNum ≤ (f r).nextLoopNum := by intro r; simp only [f]; split <;> simp
  refine ⟨?_, ?_, ?_⟩
  · show (d.containers.map f).Pairwise _
    rw [List.pairwise_map]
    exact h.containerPK.imp (fun {a b} hab => by rw [hfid, hfid]; exact hab)
  · intro r hr
    obtain ⟨r0, hr0, rfl⟩ := List.mem_map.mp hr
    rw [hfid]; exact h.idsBelow r0 hr0
  · intro r hr l hl hk
    obtain ⟨r0, hr0, rfl⟩ := List.mem_map.mp hr
    rw [hfid] at hk
    rcases List.mem_append.mp hl with hl | hl
    · exact Nat.lt_of_lt_of_le (h.loopNumsBelow r0 hr0 l hl hk) (hfn r0)
    · simp at hl; subst hl
      simp only [] at hk ⊢
      have : r0 = c := containerKey_unique d.containers h.containerPK r0 hr0 c hcm (by rw [← hk, hck])
      subst this
      simp [f, hck]

-- ---- the third group: data_block / save_frame rows belong to existing containers ---------------------------------------------

structure InvTree (d : Db) : Prop where
  blockFK : ∀ b ∈ d.blocks, d.hasContainer b.cid = true
  frameFK : ∀ f ∈ d.frames, d.hasContainer f.cid = true ∧ d.hasContainer f.parent = true
  /-- a save frame's container is younger than its parent (the frame is created under an existing container and gets the next id
      of the AUTOINCREMENT sequence): the frame relation has no cycle, and `absContainer`'s fuel `frames.length + 1` suffices -/
  frameOrder : ∀ f ∈ d.frames, f.parent < f.cid

theorem InvTree.empty : InvTree {} := ⟨(fun _ h => nomatch h), (fun _ h => nomatch h), (fun _ h => nomatch h)⟩

/-- statements that touch neither data_block nor save_frame and lose no container -/
theorem InvTree.same {d d' : Db} (h : InvTree d) (hb : d'.blocks = d.blocks) (hf : d'.frames = d.frames)
    (hc : ∀ id, d.hasContainer id = true → d'.hasContainer id = true) : InvTree d' :=
  ⟨by rw [hb]; exact fun b hbm => hc _ (h.blockFK b hbm), by rw [hf]; exact fun f hfm => ⟨hc _ (h.frameFK f hfm).1, hc _ (h.frameFK f hfm).2⟩,
   by rw [hf]; exact h.frameOrder⟩

theorem hasContainer_append (d : Db) (x : ContainerRow) (id : Nat) (h : d.hasContainer id = true) :
    ({ d with containers := d.containers ++ [x] } : Db).hasContainer id = true := by
  obtain ⟨r, hr, he⟩ := (hasContainer_iff d id).mp h
  exact (hasContainer_iff _ id).mpr ⟨r, List.mem_append_left _ hr, he⟩

theorem InvTree.deleteContainer {d : Db} (h : InvTree d) (id : Nat) : InvTree (d.deleteContainer id).1 := by
  unfold Db.deleteContainer
  simp only []
  split
  · exact h
  · have hkeep : ∀ c, c ≠ id → d.hasContainer c = true →
        (d.containers.filter (fun r => !(r.id == id))).any (fun r => r.id == c) = true := by
      intro c hne hc
      obtain ⟨r, hr, hre⟩ := (hasContainer_iff d c).mp hc
      rw [List.any_eq_true]
      exact ⟨r, List.mem_filter.mpr ⟨hr, by simp [hre, hne]⟩, by simp [hre]⟩
    refine ⟨?_, ?_, fun f hf => h.frameOrder f (List.mem_filter.mp (show f ∈ d.frames.filter (fun f => !(f.cid == id) && !(f.parent == id)) from hf)).1⟩
    · intro b hb
      have hb' : b ∈ d.blocks.filter (fun b => !(b.cid == id)) := hb
      obtain ⟨hbm, hbk⟩ := List.mem_filter.mp hb'
      exact hkeep b.cid (by simpa using hbk) (h.blockFK b hbm)
    · intro f hf
      have hf' : f ∈ d.frames.filter (fun f => !(f.cid == id) && !(f.parent == id)) := hf
      obtain ⟨hfm, hfk⟩ := List.mem_filter.mp hf'
      simp at hfk
      exact ⟨hkeep f.cid hfk.1 (h.frameFK f hfm).1, hkeep f.parent hfk.2 (h.frameFK f hfm).2⟩

/-- the invariant of DESIGN.md: `InvCore` (keys, scalar loop, foreign keys, positive rows) and `InvExt` (container keys, id
    sequence, loop numbers below next_loop_num) -/
structure Inv (d : Db) : Prop where
  core : InvCore d
  ext : InvExt d
  tree : InvTree d

theorem Inv.empty : Inv {} := ⟨InvCore.empty, InvExt.empty, InvTree.empty⟩
theorem Inv.loopPK {d : Db} (h : Inv d) : d.loops.Pairwise LoopKeyNe := h.core.loopPK
theorem Inv.itemPK {d : Db} (h : Inv d) : d.items.Pairwise ItemKeyNe := h.core.itemPK
theorem Inv.valuePK {d : Db} (h : Inv d) : d.values.Pairwise ValueKeyNe := h.core.valuePK
theorem Inv.scalar1 {d : Db} (h : Inv d) : d.loops.Pairwise ScalarNe := h.core.scalar1
theorem Inv.scalarRows {d : Db} (h : Inv d) : ∀ l ∈ d.loops, l.category = some [] → l.lastRowNum ≤ 1 := h.core.scalarRows
theorem Inv.rowPos {d : Db} (h : Inv d) : ∀ v ∈ d.values, 0 < v.rowNum := h.core.rowPos
theorem Inv.loopFK {d : Db} (h : Inv d) : ∀ l ∈ d.loops, d.hasContainer l.cid = true := h.core.loopFK
theorem Inv.itemFK {d : Db} (h : Inv d) : ∀ i ∈ d.items, d.hasLoop i.cid i.loopNum = true := h.core.itemFK
theorem Inv.valueFK {d : Db} (h : Inv d) : ∀ v ∈ d.values, d.hasItem v.cid v.name = true := h.core.valueFK
theorem Inv.toLoopPK {d : Db} (h : Inv d) : LoopPK d := h.core.toLoopPK
theorem Inv.loopNumsBelow {d : Db} (h : Inv d) : ∀ c ∈ d.containers, ∀ l ∈ d.loops, l.cid = c.id → l.loopNum < c.nextLoopNum := h.ext.loopNumsBelow

theorem filter_keys_sub {d : Db} (p : LoopRow → Bool) : ∀ l ∈ d.loops.filter p, ∃ l0 ∈ d.loops, l0.cid = l.cid ∧ l0.loopNum = l.loopNum :=
  fun l hl => ⟨l, (List.mem_filter.mp hl).1, rfl, rfl⟩

theorem InvTree.insertBlock {d d' : Db} (h : InvTree d) (cid : Nat) (k o : Str) (he : d.insertBlock cid k o = some d') : InvTree d' := by
  unfold Db.insertBlock at he
  split at he; · cases he
  split at he; · cases he
  split at he; · cases he
  rename_i hc
  cases he
  refine ⟨?_, h.frameFK, h.frameOrder⟩
  intro b hb
  rcases List.mem_append.mp hb with hb | hb
  · exact h.blockFK b hb
  · simp at hb; subst hb
    have : d.hasContainer cid = true := by simpa using hc
    exact this

theorem InvTree.insertFrame {d d' : Db} (h : InvTree d) (cid par : Nat) (k o : Str) (hord : par < cid) (he : d.insertFrame cid par k o = some d') : InvTree d' := by
  unfold Db.insertFrame at he
  split at he; · cases he
  split at he; · cases he
  split at he; · cases he
  split at he; · cases he
  rename_i hc1
  split at he; · cases he
  rename_i hc2
  cases he
  refine ⟨h.blockFK, ?_, ?_⟩
  · intro f hf
    rcases List.mem_append.mp hf with hf | hf
    · exact h.frameFK f hf
    · simp at hf; subst hf
      have h1 : d.hasContainer cid = true := by simpa using hc1
      have h2 : d.hasContainer par = true := by simpa using hc2
      exact ⟨h1, h2⟩
  · intro f hf
    rcases List.mem_append.mp hf with hf | hf
    · exact h.frameOrder f hf
    · simp at hf; subst hf; exact hord

theorem InvTree.insertLoopUnnumbered {d d' : Db} (h : InvTree d) (cid : Nat) (cat : Option Str)
    (he : d.insertLoopUnnumbered cid cat = .ok d') : InvTree d' := by
  unfold Db.insertLoopUnnumbered at he
  split at he; · cases he
  split at he; · cases he
  split at he; · cases he
  cases he
  refine InvTree.same h rfl rfl ?_
  intro id hid
  obtain ⟨r, hr, hre⟩ := (hasContainer_iff d id).mp hid
  show (d.containers.map _).any _ = true
  rw [List.any_eq_true]
  refine ⟨_, List.mem_map.mpr ⟨r, hr, rfl⟩, ?_⟩
  split <;> simp [hre]

theorem Inv.insertContainer {d : Db} (h : Inv d) : Inv d.insertContainer.1 :=
  ⟨h.core.insertContainer, h.ext.insertContainer h.core, h.tree.same rfl rfl (fun id hid => hasContainer_append d _ id hid)⟩
theorem Inv.insertBlock {d d' : Db} (h : Inv d) (cid : Nat) (k o : Str) (he : d.insertBlock cid k o = some d') : Inv d' := by
  refine ⟨h.core.insertBlock cid k o he, ?_, h.tree.insertBlock cid k o he⟩
  unfold Db.insertBlock at he
  split at he; · cases he
  split at he; · cases he
  split at he; · cases he
  cases he; exact h.ext.sameLoops rfl rfl rfl
theorem Inv.insertFrame {d d' : Db} (h : Inv d) (cid par : Nat) (k o : Str) (hord : par < cid) (he : d.insertFrame cid par k o = some d') : Inv d' := by
  refine ⟨h.core.insertFrame cid par k o he, ?_, h.tree.insertFrame cid par k o hord he⟩
  unfold Db.insertFrame at he
  split at he; · cases he
  split at he; · cases he
  split at he; · cases he
  split at he; · cases he
  split at he; · cases he
  cases he; exact h.ext.sameLoops rfl rfl rfl
theorem Inv.deleteItems {d : Db} (h : Inv d) (p : ItemRow → Bool) : Inv (d.deleteItems p) :=
  ⟨h.core.deleteItems p, h.ext.sameLoops rfl rfl rfl, h.tree.same rfl rfl (fun _ hid => hid)⟩
theorem Inv.deleteLoops {d : Db} (h : Inv d) (p : LoopRow → Bool) : Inv (d.deleteLoops p) :=
  ⟨h.core.deleteLoops p, h.ext.shrink (List.Sublist.refl _) rfl (filter_keys_sub _), h.tree.same rfl rfl (fun _ hid => hid)⟩
theorem Inv.deleteContainer {d : Db} (h : Inv d) (id : Nat) : Inv (d.deleteContainer id).1 := by
  refine ⟨h.core.deleteContainer id, ?_, h.tree.deleteContainer id⟩
  unfold Db.deleteContainer
  simp only []
  split
  · exact h.ext
  · exact h.ext.shrink (List.filter_sublist) rfl (filter_keys_sub _)
theorem Inv.removeItem {d : Db} (h : Inv d) (cid : Nat) (k : Str) : Inv (d.removeItem cid k) := h.deleteItems _
theorem Inv.destroyLoop {d : Db} (h : Inv d) (cid ln : Nat) : Inv (d.destroyLoop cid ln).1 := h.deleteLoops _
theorem Inv.prune {d : Db} (h : Inv d) (cid : Nat) : Inv (d.prune cid) := h.deleteLoops _
theorem Inv.removePacket {d : Db} (h : Inv d) (cid ln row : Nat) : Inv (d.removePacket cid ln row) :=
  ⟨h.core.removePacket cid ln row, h.ext.sameLoops rfl rfl rfl, h.tree.same rfl rfl (fun _ hid => hid)⟩
theorem Inv.insertLoopUnnumbered {d d' : Db} (h : Inv d) (cid : Nat) (cat : Option Str) (he : d.insertLoopUnnumbered cid cat = .ok d') : Inv d' :=
  ⟨h.core.insertLoopUnnumbered cid cat he, h.ext.insertLoopUnnumbered cid cat he, h.tree.insertLoopUnnumbered cid cat he⟩
theorem Inv.insertItem {d d' : Db} (h : Inv d) (cid : Nat) (k o : Str) (ln : Nat) (he : d.insertItem cid k o ln = some d') : Inv d' := by
  refine ⟨h.core.insertItem cid k o ln he, ?_, ?_⟩ <;>
  · unfold Db.insertItem at he
    split at he; · cases he
    split at he; · cases he
    cases he
    first | exact h.ext.sameLoops rfl rfl rfl | exact h.tree.same rfl rfl (fun _ hid => hid)
theorem Inv.insertValue {d d' : Db} (h : Inv d) (cid : Nat) (k : Str) (row : Nat) (v : V) (he : d.insertValue cid k row v = some d') : Inv d' := by
  refine ⟨h.core.insertValue cid k row v he, ?_, ?_⟩ <;>
  · unfold Db.insertValue at he
    split at he; · cases he
    split at he; · cases he
    split at he; · cases he
    cases he
    first | exact h.ext.sameLoops rfl rfl rfl | exact h.tree.same rfl rfl (fun _ hid => hid)
theorem Inv.replaceValue {d d' : Db} (h : Inv d) (cid : Nat) (k : Str) (row : Nat) (v : V) (he : d.replaceValue cid k row v = some d') : Inv d' := by
  refine ⟨h.core.replaceValue cid k row v he, ?_, ?_⟩ <;>
  · unfold Db.replaceValue at he
    split at he; · cases he
    split at he; · cases he
    cases he
    first | exact h.ext.sameLoops rfl rfl rfl | exact h.tree.same rfl rfl (fun _ hid => hid)
theorem Inv.setAllValues {d : Db} (h : Inv d) (cid : Nat) (k : Str) (v : V) : Inv (d.setAllValues cid k v).1 := by
  refine ⟨h.core.setAllValues cid k v, ?_, ?_⟩ <;>
  · unfold Db.setAllValues
    split
    · first | exact h.ext | exact h.tree
    · first | exact h.ext.sameLoops rfl rfl rfl | exact h.tree.same rfl rfl (fun _ hid => hid)

theorem Inv.fillPacket {d : Db} (h : Inv d) (cid ln row : Nat) : Inv (d.fillPacket cid ln row) := by
  refine ⟨h.core.fillPacket cid ln row, ?_, ?_⟩ <;>
  · unfold Db.fillPacket
    simp only []
    split
    · first | exact h.ext | exact h.tree
    · first | exact h.ext.sameLoops rfl rfl rfl | exact h.tree.same rfl rfl (fun _ hid => hid)

theorem map_keys_sub {d : Db} (f : LoopRow → LoopRow) (hk : ∀ l, (f l).cid = l.cid ∧ (f l).loopNum = l.loopNum) :
    ∀ l ∈ d.loops.map f, ∃ l0 ∈ d.loops, l0.cid = l.cid ∧ l0.loopNum = l.loopNum := by
  intro l hl
  obtain ⟨a, ha, rfl⟩ := List.mem_map.mp hl
  exact ⟨a, ha, (hk a).1.symm, (hk a).2.symm⟩

theorem Inv.bumpRowNum {d d' : Db} (h : Inv d) (cid ln : Nat) (he : d.bumpRowNum cid ln = .ok d') : Inv d' := by
  refine ⟨h.core.bumpRowNum cid ln he, ?_, ?_⟩ <;>
  · unfold Db.bumpRowNum at he
    split at he; · cases he
    cases he
    first
    | exact h.ext.shrink (List.Sublist.refl _) rfl (map_keys_sub _ (fun l => by split <;> exact ⟨rfl, rfl⟩))
    | exact h.tree.same rfl rfl (fun _ hid => hid)
theorem Inv.resetRowNum {d : Db} (h : Inv d) (cid ln : Nat) : Inv (d.resetRowNum cid ln) :=
  ⟨h.core.resetRowNum cid ln, h.ext.shrink (List.Sublist.refl _) rfl (map_keys_sub _ (fun l => by split <;> exact ⟨rfl, rfl⟩)),
   h.tree.same rfl rfl (fun _ hid => hid)⟩
theorem Inv.setCategory {d d' : Db} (h : Inv d) (cid ln : Nat) (cat : Option Str) (n : Nat)
    (he : d.setCategory cid ln cat = .ok (d', n)) : Inv d' := by
  refine ⟨h.core.setCategory cid ln cat n he, ?_, ?_⟩ <;>
  · unfold Db.setCategory at he
    split at he
    · cases he; first | exact h.ext | exact h.tree
    · split at he; · cases he
      split at he; · cases he
      cases he
      first
      | exact h.ext.shrink (List.Sublist.refl _) rfl (map_keys_sub _ (fun l => by split <;> exact ⟨rfl, rfl⟩))
      | exact h.tree.same rfl rfl (fun _ hid => hid)

/-- cif_container_create_frame inserts the frame under the id it has just drawn from the sequence: the parent, an existing container
    other than the new one, is older -/
theorem insertFrame_parent_lt {d d2 : Db} (h : Inv d) (par : Nat) (k o : Str)
    (hi : d.insertContainer.1.insertFrame d.insertContainer.2 par k o = some d2) : par < d.insertContainer.2 := by
  unfold Db.insertFrame at hi
  split at hi; · cases hi
  split at hi; · cases hi
  split at hi; · cases hi
  rename_i hne
  split at hi; · cases hi
  split at hi; · cases hi
  rename_i hpar
  have hpar' : d.insertContainer.1.hasContainer par = true := by simpa using hpar
  obtain ⟨r, hr, hre⟩ := (hasContainer_iff _ _).mp hpar'
  have hr' : r ∈ d.containers ++ [{ id := d.nextId, nextLoopNum := 0 }] := hr
  show par < d.nextId
  rcases List.mem_append.mp hr' with h1 | h1
  · rw [← hre]; exact h.ext.idsBelow r h1
  · simp at h1; subst h1
    simp only [] at hre
    exfalso
    have : (d.insertContainer.2 == par) = true := by simp [Db.insertContainer, hre]
    exact hne this

-- ---- transactions: the content and every snapshot a rollback could restore satisfy the invariant ----------------------------

structure InvS (s : Store) : Prop where
  db : Inv s.db
  txn : ∀ d, s.txn = some d → Inv d
  saves : ∀ d ∈ s.saves, Inv d
  /-- savepoints exist only inside a BEGIN transaction (the C uses SAVE only when sqlite3_get_autocommit() is 0) -/
  txwf : s.txn = none → s.saves = []

theorem InvS.empty : InvS {} := ⟨Inv.empty, (fun _ h => nomatch h), (fun _ h => nomatch h), (fun _ => rfl)⟩

theorem InvS.setDb {s : Store} (h : InvS s) {d : Db} (hd : Inv d) : InvS { s with db := d } := ⟨hd, h.txn, h.saves, h.txwf⟩

theorem InvS.begin {s s1 : Store} (h : InvS s) (hb : s.begin = some s1) : InvS s1 := by
  obtain ⟨_, rfl⟩ := begin_autocommit s s1 hb
  exact ⟨h.db, fun d hd => by cases hd; exact h.db, h.saves, fun ht => nomatch ht⟩

theorem InvS.commitD {s : Store} (h : InvS s) (s0 : Store) (h0 : InvS s0) : InvS (s.commit.getD s0) := by
  unfold Store.commit; split
  · exact h0
  · exact ⟨h.db, (fun _ hd => nomatch hd), (fun _ hd => nomatch hd), (fun _ => rfl)⟩

theorem InvS.outermost {s : Store} (h : InvS s) : Inv s.outermost := by
  unfold Store.outermost
  split
  · rename_i d hd; exact h.txn d hd
  · cases hl : s.saves.getLast? with
    | none => exact h.db
    | some d => exact h.saves d (List.mem_of_getLast? hl)

theorem InvS.rollbackD {s : Store} (h : InvS s) (s0 : Store) (h0 : InvS s0) : InvS (s.rollback.getD s0) := by
  unfold Store.rollback; split
  · exact h0
  · exact ⟨h.outermost, (fun _ hd => nomatch hd), (fun _ hd => nomatch hd), (fun _ => rfl)⟩

theorem InvS.txn_of_not_autocommit {s : Store} (h : InvS s) (ha : s.autocommit = false) : ∃ d, s.txn = some d := by
  cases ht : s.txn with
  | some d => exact ⟨d, rfl⟩
  | none => simp [Store.autocommit, ht, h.txwf ht] at ha

theorem InvS.save {s : Store} (h : InvS s) (ha : s.autocommit = false) : InvS s.save := by
  obtain ⟨d0, hd0⟩ := h.txn_of_not_autocommit ha
  exact ⟨h.db, h.txn, fun d hd => by rcases List.mem_cons.mp hd with rfl | hd; exact h.db; exact h.saves d hd,
    fun ht => by simp [Store.save, hd0] at ht⟩

theorem InvS.releaseD {s : Store} (h : InvS s) : InvS (s.release.getD s) := by
  unfold Store.release; split
  · exact h
  · rename_i d r hs
    exact ⟨h.db, h.txn, fun d' hd' => h.saves d' (by rw [hs]; exact List.mem_cons_of_mem _ hd'),
      fun ht => by have := h.txwf ht; rw [hs] at this; cases this⟩

theorem InvS.rollbackToD {s : Store} (h : InvS s) : InvS (s.rollbackTo.getD s) := by
  unfold Store.rollbackTo; split
  · exact h
  · rename_i d r hs
    exact ⟨h.saves d (by rw [hs]; exact List.mem_cons_self), h.txn, h.saves, h.txwf⟩

theorem InvS.beginNest {s : Store} (h : InvS s) : InvS s.beginNest.1 := by
  unfold Store.beginNest; split
  · exact ⟨h.db, fun d hd => by cases hd; exact h.db, h.saves, fun ht => nomatch ht⟩
  · rename_i ha; exact h.save (by simpa using ha)

theorem InvS.commitNest {s : Store} (h : InvS s) (top : Bool) : InvS (s.commitNest top) := by
  unfold Store.commitNest; split
  · exact h.commitD s h
  · exact h.releaseD

theorem InvS.rollbackNest {s : Store} (h : InvS s) (top : Bool) : InvS (s.rollbackNest top) := by
  unfold Store.rollbackNest; split
  · exact h.rollbackD s h
  · exact h.rollbackToD

theorem InvS.nest {α} {s : Store} (h : InvS s) (body : Db → Except Code (Db × α))
    (hb : ∀ d d' a, Inv d → body d = .ok (d', a) → Inv d') : InvS (s.nest body).1 := by
  unfold Store.nest
  have h1 := h.beginNest
  generalize s.beginNest = b at h1
  obtain ⟨s1, top⟩ := b
  simp only []
  split
  · rename_i d2 a he
    exact (h1.setDb (hb _ _ _ h1.db he)).commitNest top
  · exact h1.rollbackNest top

theorem InvS.nestRO {α} {s : Store} (h : InvS s) (body : Db → Except Code α) : InvS (s.nestRO body).1 := by
  unfold Store.nestRO
  exact h.beginNest.rollbackNest _

-- ---- the API functions -----------------------------------------------------------------------------------------------------------

theorem addItems_inv : ∀ (ns : List Name) (d d' : Db) (cid ln : Nat), Inv d → addItems d cid ln ns = .ok d' → Inv d'
  | [], d, d', _, _, h, he => by simp [addItems] at he; subst he; exact h
  | n :: ns, d, d', cid, ln, h, he => by
    unfold addItems at he
    split at he
    · cases he
    · rename_i d1 hi
      exact addItems_inv ns d1 d' cid ln (h.insertItem _ _ _ _ hi) he

theorem addValues_inv : ∀ (p : List (Str × V)) (d d' : Db) (cid ln row : Nat), Inv d → addValues d cid ln row p = .ok d' → Inv d'
  | [], d, d', _, _, _, h, he => by simp [addValues] at he; subst he; exact h
  | (k, v) :: es, d, d', cid, ln, row, h, he => by
    unfold addValues at he
    split at he
    · cases he
    · split at he
      · cases he
      · rename_i d1 hi
        exact addValues_inv es d1 d' cid ln row (h.insertValue _ _ _ _ hi) he

theorem createLoopBody_inv (cid : Nat) (cat : Option Str) (names : List Name) (d d' : Db) (l : LH) (h : Inv d)
    (he : createLoopBody cid cat names d = .ok (d', l)) : Inv d' := by
  unfold createLoopBody at he
  split at he
  · split at he <;> cases he
  · rename_i d1 hi
    simp only [] at he
    split at he
    · cases he
    · rename_i d2 ha
      cases he
      exact addItems_inv _ _ _ _ _ (h.insertLoopUnnumbered _ _ hi) ha

theorem addItemBody_inv (l : LH) (k o : Str) (v : V) (d d' : Db) (n : Nat) (h : Inv d) (he : addItemBody l k o v d = .ok (d', n)) : Inv d' := by
  unfold addItemBody at he
  split at he
  · cases he
  · rename_i d1 hi
    have h1 := (h.insertItem _ _ _ _ hi).setAllValues l.cid k v
    simp only [Except.ok.injEq] at he
    rw [he] at h1; exact h1

theorem addPacketBody_inv (l : LH) (p : List (Str × V)) (d d' : Db) (u : Unit) (h : Inv d) (he : addPacketBody l p d = .ok (d', u)) : Inv d' := by
  unfold addPacketBody at he
  split at he
  · split at he <;> cases he
  · rename_i d1 hb
    split at he
    · cases he
    · split at he
      · cases he
      · rename_i d2 hv
        cases he
        exact (addValues_inv _ _ _ _ _ _ (h.bumpRowNum _ _ hb) hv).fillPacket _ _ _

theorem createLoopInternal_invS {s : Store} (h : InvS s) (hd : CH) (cat : Option Str) (names : List Name) :
    InvS (createLoopInternal s hd cat names).1 :=
  h.nest _ (fun d d' a hi he => createLoopBody_inv _ _ _ d d' a hi he)

theorem createLoop_invS {s : Store} (h : InvS s) (hd : CH) (cat : Option Str) (names : List Name) : InvS (createLoop s hd cat names).1 := by
  unfold createLoop
  split; · exact h
  split; · exact h
  exact createLoopInternal_invS h hd cat names

theorem addItemInternal_invS {s : Store} (h : InvS s) (l : LH) (k o : Str) (v : V) : InvS (addItemInternal s l k o v).1 :=
  h.nest _ (fun d d' a hi he => addItemBody_inv _ _ _ _ d d' a hi he)

theorem addItem_invS {s : Store} (h : InvS s) (l : LH) (n : Option Name) (v : Option V) : InvS (addItem s l n v).1 := by
  unfold addItem
  split; · exact h
  split; · exact h
  have := addItemInternal_invS h l (by assumption : Name).key (by assumption : Name).orig (v.getD .unk)
  split
  · rename_i he; rw [he] at this; exact this
  · rename_i he; rw [he] at this; exact this

theorem addPacket_invS {s : Store} (h : InvS s) (l : LH) (p : List (Str × V)) : InvS (addPacket s l p).1 := by
  unfold addPacket
  split; · exact h
  exact h.nest _ (fun d d' a hi he => addPacketBody_inv _ _ d d' a hi he)

theorem createBlock_invS {s : Store} (h : InvS s) (n : Option Name) (len : Bool) : InvS (createBlock s n len).1 := by
  unfold createBlock
  split; · exact h
  split; · exact h
  split; · exact h
  rename_i s1 hb
  have h1 := h.begin hb
  simp only []
  split
  · exact h1.rollbackD s1 h1
  · rename_i d2 hi
    exact (h1.setDb (h1.db.insertContainer.insertBlock _ _ _ hi)).commitD s1 h1

theorem createFrame_invS {s : Store} (h : InvS s) (hd : CH) (n : Option Name) (len : Bool) : InvS (createFrame s hd n len).1 := by
  unfold createFrame
  split; · exact h
  split; · exact h
  split; · exact h
  rename_i s1 hb
  have h1 := h.begin hb
  simp only []
  split
  · exact h1.rollbackD s1 h1
  · rename_i d2 hi
    exact (h1.setDb (h1.db.insertContainer.insertFrame _ _ _ _ (insertFrame_parent_lt h1.db _ _ _ hi) hi)).commitD s1 h1

theorem destroyContainer_invS {s : Store} (h : InvS s) (hd : CH) : InvS (destroyContainer s hd).1 := by
  unfold destroyContainer
  simp only []
  split <;> exact h.setDb (h.db.deleteContainer _)

theorem destroyLoop_invS {s : Store} (h : InvS s) (l : LH) : InvS (destroyLoop s l).1 := by
  unfold destroyLoop
  simp only []
  split
  · exact h.setDb (h.db.destroyLoop _ _)
  · split <;> exact h.setDb (h.db.destroyLoop _ _)

theorem prune_invS {s : Store} (h : InvS s) (hd : CH) : InvS (prune s hd).1 := h.setDb (h.db.prune _)

theorem removeItem_invS {s : Store} (h : InvS s) (hd : CH) (n : Option Name) : InvS (removeItem s hd n).1 := by
  unfold removeItem
  split; · exact h
  split; · exact h
  split; · exact h
  rename_i s1 hb
  have h1 := h.begin hb
  split
  · exact h1.rollbackD s1 h1
  · simp only []
    refine (h1.setDb ?_).commitD s1 h1
    split
    · exact h1.db.destroyLoop _ _
    · exact h1.db.removeItem _ _

theorem allLoops_invS {s : Store} (h : InvS s) (hd : CH) : InvS (allLoops s hd).1 := h.nestRO _
theorem getNames_invS {s : Store} (h : InvS s) (l : LH) : InvS (getNames s l).1 := h.nestRO _

theorem getPackets_invS {s : Store} (h : InvS s) (l : LH) : InvS (getPackets s l).1 := by
  unfold getPackets
  have hn := getNames_invS h l
  split
  · rename_i he; rw [he] at hn; exact hn
  · rename_i s1 ns he
    rw [he] at hn
    split
    · exact hn
    · rename_i s2 hb
      have h2 := hn.begin hb
      split
      · exact h2.rollbackD s2 h2
      · exact h2

theorem updateValues_inv : ∀ (p : List (Str × V)) (d d' : Db) (it : Iter), Inv d → updateValues d it p = .ok d' → Inv d'
  | [], d, d', _, h, he => by simp [updateValues] at he; subst he; exact h
  | (k, v) :: es, d, d', it, h, he => by
    unfold updateValues at he
    split at he
    · split at he
      · cases he
      · rename_i d1 hr
        exact updateValues_inv es d1 d' it (h.replaceValue _ _ _ _ hr) he
    · cases he

theorem updatePacket_invS {s : Store} (h : InvS s) (it : Iter) (p : List (Str × V)) : InvS (updatePacket s it p).1 := by
  unfold updatePacket
  split; · exact h
  rename_i ha
  have hsv := h.save (by simpa using ha)
  split; · exact h
  simp only []
  split
  · rename_i d2 hu
    exact (hsv.setDb (updateValues_inv p _ d2 it hsv.db hu)).releaseD
  · exact hsv.rollbackToD

theorem removePacket_invS {s : Store} (h : InvS s) (it : Iter) : InvS (removePacket s it).1 := by
  unfold removePacket
  split; · exact h
  rename_i ha
  have hsv := h.save (by simpa using ha)
  split; · exact h
  simp only []
  refine (hsv.setDb ?_).releaseD
  split
  · exact (hsv.db.removePacket _ _ _).resetRowNum _ _
  · exact hsv.db.removePacket _ _ _

theorem closeIter_invS {s : Store} (h : InvS s) : InvS (closeIter s).1 := by
  unfold closeIter
  split
  · rename_i s1 hc
    have := h.commitD s h; rw [hc] at this; exact this
  · exact h.rollbackD s h

theorem abortIter_invS {s : Store} (h : InvS s) : InvS (abortIter s).1 := by
  unfold abortIter
  split
  · rename_i s1 hc
    have := h.rollbackD s h; rw [hc] at this; exact this
  · exact h


theorem addScalar_invS {s : Store} (h : InvS s) (hd : CH) (key orig : Str) (v : V) : InvS (addScalar s hd key orig v).1 := by
  unfold addScalar
  have h1 : ∀ (r : R LH), InvS r.1 →
      InvS (match r.2 with
        | .error c => ((r.1, Except.error c) : R Unit)
        | .ok l => match addItemInternal r.1 l key orig v with
          | (s2, .error c) => (s2, .error c)
          | (s2, .ok numPackets) => if numPackets == 0 then addPacket s2 l [(key, v)] else (s2, .ok ())).1 := by
    intro r hr
    split
    · exact hr
    · rename_i l _
      have h2 := addItemInternal_invS hr l key orig v
      split
      · rename_i s2 c he; rw [he] at h2; exact h2
      · rename_i s2 np he
        rw [he] at h2
        split
        · exact addPacket_invS h2 l _
        · exact h2
  have h0 : InvS (match getCategoryLoop s hd (some []) with
      | (s', .error c) => if c == CIF_NOSUCH_LOOP then createLoopInternal s' hd (some []) [] else (s', .error c)
      | r => r).1 := by
    have hg : (getCategoryLoop s hd (some [])).1 = s := by
      unfold getCategoryLoop; simp only []; split <;> rfl
    split
    · rename_i s' c he
      have : s' = s := by rw [← hg, he]
      subst this
      split
      · exact createLoopInternal_invS h hd _ _
      · exact h
    · rw [hg]; exact h
  exact h1 _ h0

theorem setValue_invS {s : Store} (h : InvS s) (hd : CH) (n : Option Name) (v : Option V) : InvS (setValue s hd n v).1 := by
  unfold setValue
  split; · exact h
  split; · exact h
  split; · exact h
  rename_i nm _ _ s1 hb
  have h1 := h.begin hb
  have h2 : InvS (setValueInner s1 hd nm.key nm.orig (v.getD .unk)).1 := by
    unfold setValueInner
    split
    · split
      · exact addScalar_invS h1 hd _ _ _
      · exact h1
    · exact h1.setDb (h1.db.setAllValues _ _ _)
  split
  · rename_i s2 _ he; rw [he] at h2; exact h2.commitD s2 h2
  · rename_i s2 c he; rw [he] at h2; exact h2.rollbackD s2 h2


theorem setCategory_invS {s : Store} (h : InvS s) (l : LH) (cat : Option Str) : InvS (setCategory s l cat).1 := by
  unfold setCategory
  split; · exact h
  split
  · exact h
  · rename_i d1 n he
    simp only []
    split
    · exact h.setDb (h.db.setCategory _ _ _ _ he)
    · split <;> exact h.setDb (h.db.setCategory _ _ _ _ he)

end CifModel.Store
