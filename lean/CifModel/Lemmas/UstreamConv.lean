import CifModel.Model.Ustream
/-
  CifModel.Lemmas.UstreamConv — a converter built from a byte-at-a-time transducer (`Trans.toConv`) meets the contract
  `Laws`; the UTF-8 and UTF-16LE/BE transducers are well-formed (`Trans.Ok`).
-/
namespace CifModel.Model.Ustream

variable {t : Trans}

/-- re-reading the byte after a `badHeld` report -/
theorem Trans.evs_badHeld (ok : t.Ok) {s s' : t.σ} {b k : Nat} (h : t.feed s b = .badHeld k s') (rest : List Nat) :
    t.evs s (b :: rest) = .bad k false :: t.evs s' (b :: rest) := by
  have hn := ok.badHeld_once s b k s'
  conv => lhs; unfold Trans.evs
  simp only [h]
  congr 1
  conv => rhs; unfold Trans.evs
  cases h2 : t.feed s' b with
  | emit us s'' => rfl
  | badTake k' s'' => rfl
  | badHeld k' s'' => exact absurd h2 (hn k' s'' h)

/-- what one run of the inner loop guarantees -/
structure RunOk (t : Trans) (s : t.σ) (bs : List Nat) (flush : Bool) (room : Nat) (more : List Nat)
    (q : StepR (TS t)) : Prop where
  cap_le : q.units.length ≤ room
  used_le : q.used ≤ bs.length
  sound : t.evs s (bs ++ more) = q.units.map .unit ++ q.status.evs
            ++ (q.st.pend.map .unit ++ t.evs q.st.s (bs.drop q.used ++ more))
  ok_drained : q.status = .ok → q.used = bs.length ∧ q.st.pend = []
  ok_flushed : flush = true → q.status = .ok → t.evs q.st.s [] = []
  overflow_full : q.status = .overflow → q.units.length = room
  progress : ∀ k u, q.status = .invalid k u → t.held q.st.s + 2 * (bs.length - q.used) < t.held s + 2 * bs.length

theorem Trans.run_spec (ok : t.Ok) : ∀ (bs : List Nat) (s : t.σ) (flush : Bool) (room : Nat) (more : List Nat),
    (flush = true → more = []) → RunOk t s bs flush room more (t.run s bs flush room) := by
  intro bs
  induction bs with
  | nil =>
    intro s flush room more hm
    unfold Trans.run
    by_cases hf : flush = true
    · rw [if_pos hf]
      have hmore := hm hf
      subst hmore
      cases hfs : t.flushStep s with
      | some k =>
        simp only []
        refine ⟨by simp, by simp, ?_, by simp, by simp, by simp, ?_⟩
        · simp [Trans.evs, hfs, Status.evs, ok.init_flush]
        · intro k' u _
          have := ok.flush_pos s k hfs
          simp [ok.init_held]; omega
      | none =>
        simp only []
        refine ⟨by simp, by simp, ?_, by simp, ?_, by simp, by simp⟩
        · simp [Trans.evs, hfs, Status.evs]
        · intro _ _; simp [Trans.evs, hfs]
    · rw [if_neg hf]
      refine ⟨by simp, by simp, ?_, by simp, fun h => absurd h hf, by simp, by simp⟩
      simp [Status.evs]
  | cons b rest ih =>
    intro s flush room more hm
    unfold Trans.run
    by_cases hr : room = 0
    · rw [if_pos hr]
      refine ⟨by simp, by simp, ?_, by simp, by simp, by simp [hr], by simp⟩
      simp [Status.evs]
    · rw [if_neg hr]
      cases hfd : t.feed s b with
      | emit us s' =>
        simp only []
        have hev : t.evs s (b :: rest ++ more) = us.map .unit ++ t.evs s' (rest ++ more) := by
          rw [List.cons_append]; conv => lhs; unfold Trans.evs
          simp only [hfd]
        by_cases hl : us.length ≤ room
        · rw [if_pos hl]
          have hq := ih s' flush (room - us.length) more hm
          generalize t.run s' rest flush (room - us.length) = q at *
          have h1 := hq.cap_le
          have h2 := hq.used_le
          have hh := ok.emit_held s b us s' hfd
          refine ⟨by simp; omega, by simp; omega, ?_, ?_, hq.ok_flushed, ?_, ?_⟩
          · rw [hev, hq.sound]; simp
          · intro h; have := hq.ok_drained h; exact ⟨by simp; omega, this.2⟩
          · intro h; have := hq.overflow_full h; simp; omega
          · intro k u h; have := hq.progress k u h; simp; omega
        · rw [if_neg hl]
          refine ⟨by simp; omega, by simp, ?_, by simp, by simp, ?_, by simp⟩
          · rw [hev]
            simp only [Status.evs, List.append_nil, List.drop_succ_cons, List.drop_zero]
            rw [← List.append_assoc, ← List.map_append, List.take_append_drop]
          · intro _; simp; omega
      | badTake k s' =>
        simp only []
        have hh := ok.take_held s b k s' hfd
        refine ⟨by simp, by simp, ?_, by simp, by simp, by simp, ?_⟩
        · rw [List.cons_append]; conv => lhs; unfold Trans.evs
          simp [hfd, Status.evs]
        · intro _ _ _; simp; omega
      | badHeld k s' =>
        simp only []
        have hh := ok.badHeld_lt s b k s' hfd
        refine ⟨by simp, by simp, ?_, by simp, by simp, by simp, ?_⟩
        · rw [List.cons_append, Trans.evs_badHeld ok hfd]
          simp [Status.evs]
        · intro _ _ _; simp; omega

/-- a converter made from a well-formed transducer meets the contract -/
theorem Trans.toConv_laws (ok : t.Ok) : Laws t.toConv := by
  have key : ∀ (st : TS t) (bs : List Nat) (f : Bool) (cap : Nat), ¬ cap < st.pend.length →
      t.toConv.step st bs f cap =
        ⟨st.pend ++ (t.run st.s bs f (cap - st.pend.length)).units, (t.run st.s bs f (cap - st.pend.length)).used,
         (t.run st.s bs f (cap - st.pend.length)).st, (t.run st.s bs f (cap - st.pend.length)).status⟩ := by
    intro st bs f cap h
    simp only [Trans.toConv]
    rw [if_neg h]
  have key0 : ∀ (st : TS t) (bs : List Nat) (f : Bool) (cap : Nat), cap < st.pend.length →
      t.toConv.step st bs f cap = ⟨st.pend.take cap, 0, ⟨st.pend.drop cap, st.s⟩, .overflow⟩ := by
    intro st bs f cap h
    simp only [Trans.toConv]
    rw [if_pos h]
  refine ⟨?_, ?_, ?_, ?_, ?_, ?_, ?_⟩
  · intro st bs f cap
    by_cases h : cap < st.pend.length
    · rw [key0 st bs f cap h]; simp; omega
    · rw [key st bs f cap h]
      have := (Trans.run_spec ok bs st.s f (cap - st.pend.length) [] (fun _ => rfl)).cap_le
      simp; omega
  · intro st bs f cap
    by_cases h : cap < st.pend.length
    · rw [key0 st bs f cap h]; simp
    · rw [key st bs f cap h]
      exact (Trans.run_spec ok bs st.s f (cap - st.pend.length) [] (fun _ => rfl)).used_le
  · intro st bs f cap more hm
    by_cases h : cap < st.pend.length
    · rw [key0 st bs f cap h]
      simp only [Trans.toConv, Status.evs, List.append_nil, List.drop_zero]
      rw [← List.append_assoc, ← List.map_append, List.take_append_drop]
    · rw [key st bs f cap h]
      have := (Trans.run_spec ok bs st.s f (cap - st.pend.length) more hm).sound
      simp only [Trans.toConv]
      rw [this]; simp
  · intro st bs f cap
    by_cases h : cap < st.pend.length
    · rw [key0 st bs f cap h]; simp
    · rw [key st bs f cap h]
      intro hs
      exact ((Trans.run_spec ok bs st.s f (cap - st.pend.length) [] (fun _ => rfl)).ok_drained hs).1
  · intro st bs cap
    by_cases h : cap < st.pend.length
    · rw [key0 st bs true cap h]; simp
    · rw [key st bs true cap h]
      intro hs
      have hr := Trans.run_spec ok bs st.s true (cap - st.pend.length) [] (fun _ => rfl)
      simp only [Trans.toConv]
      rw [(hr.ok_drained hs).2, hr.ok_flushed rfl hs]; rfl
  · intro st bs f cap
    by_cases h : cap < st.pend.length
    · rw [key0 st bs f cap h]; intro _; simp; omega
    · rw [key st bs f cap h]
      intro hs
      have := (Trans.run_spec ok bs st.s f (cap - st.pend.length) [] (fun _ => rfl)).overflow_full hs
      simp; omega
  · intro st bs f cap k u
    by_cases h : cap < st.pend.length
    · rw [key0 st bs f cap h]; simp
    · rw [key st bs f cap h]
      intro hs
      exact (Trans.run_spec ok bs st.s f (cap - st.pend.length) [] (fun _ => rfl)).progress k u hs

/-! ### the UTF-8 and UTF-16 transducers are well-formed -/

theorem utf8Feed_emit_held (s : List Nat) (b : Nat) (us s' : List Nat) (h : utf8Feed s b = .emit us s') :
    s'.length ≤ s.length + 1 := by
  rcases s with _ | ⟨l, _ | ⟨m, _ | ⟨n, _ | ⟨o, r⟩⟩⟩⟩ <;> simp only [utf8Feed] at h
  all_goals (repeat' (split at h))
  all_goals (first | (injection h with h1 h2; subst h2; simp) | (exact absurd h (by simp)))

theorem utf8Feed_bad (s : List Nat) (b k : Nat) (s' : List Nat)
    (h : utf8Feed s b = .badTake k s' ∨ utf8Feed s b = .badHeld k s') : s' = [] := by
  rcases h with h | h
  all_goals (rcases s with _ | ⟨l, _ | ⟨m, _ | ⟨n, _ | ⟨o, r⟩⟩⟩⟩ <;> simp only [utf8Feed] at h)
  all_goals (repeat' (split at h))
  all_goals (first | (injection h with h1 h2; subst h2; rfl) | (exact absurd h (by simp)))

theorem utf8Feed_nil_not_badHeld (b k : Nat) (s' : List Nat) : utf8Feed [] b ≠ .badHeld k s' := by
  intro h
  simp only [utf8Feed] at h
  repeat' (split at h)
  all_goals (exact absurd h (by simp))

theorem utf8Feed_badHeld_pos (s : List Nat) (b k : Nat) (s' : List Nat) (h : utf8Feed s b = .badHeld k s') :
    0 < s.length := by
  rcases s with _ | ⟨l, r⟩
  · exact absurd h (utf8Feed_nil_not_badHeld b k s')
  · simp

theorem utf8T_ok : utf8T.Ok := by
  refine ⟨utf8Feed_emit_held, ?_, ?_, ?_, ?_, rfl, rfl⟩
  · intro s b k s' h
    have := utf8Feed_bad s b k s' (Or.inl h)
    subst this; simp [utf8T]
  · intro s b k s' h
    have := utf8Feed_bad s b k s' (Or.inr h)
    subst this
    exact utf8Feed_badHeld_pos s b k [] h
  · intro s b k s' k' s'' h
    have := utf8Feed_bad s b k s' (Or.inr h)
    subst this
    exact utf8Feed_nil_not_badHeld b k' s''
  · intro s k h
    simp only [utf8T] at h ⊢
    split at h
    · exact absurd h (by simp)
    · rename_i hne
      cases s with
      | nil => exact absurd rfl hne
      | cons _ _ => simp

/-- `utf8_incremental`: the UTF-8 converter meets the contract of an incremental converter — decoding a byte stream in
    any pieces with any target capacities denotes the same unit / report sequence as decoding it at once -/
theorem utf8_incremental : Laws utf8 := Trans.toConv_laws utf8T_ok

theorem utf16Feed_emit_held (be : Bool) (s : List Nat) (b : Nat) (us s' : List Nat)
    (h : utf16Feed be s b = .emit us s') : s'.length ≤ s.length + 1 := by
  rcases s with _ | ⟨l, _ | ⟨m, _ | ⟨n, _ | ⟨o, r⟩⟩⟩⟩ <;> simp only [utf16Feed] at h
  all_goals (repeat' (split at h))
  all_goals (first | (injection h with h1 h2; subst h2; simp) | (exact absurd h (by simp)))

theorem utf16Feed_take (be : Bool) (s : List Nat) (b k : Nat) (s' : List Nat)
    (h : utf16Feed be s b = .badTake k s') : s' = [] := by
  rcases s with _ | ⟨l, _ | ⟨m, _ | ⟨n, _ | ⟨o, r⟩⟩⟩⟩ <;> simp only [utf16Feed] at h
  all_goals (repeat' (split at h))
  all_goals (first | (injection h with h1 h2; subst h2; rfl) | (exact absurd h (by simp)))

theorem utf16Feed_badHeld (be : Bool) (s : List Nat) (b k : Nat) (s' : List Nat)
    (h : utf16Feed be s b = .badHeld k s') :
    (∃ x y z, s = [x, y, z] ∧ s' = [z] ∧ isTrail (unit16 be z b) = false) ∨ (4 ≤ s.length ∧ s' = []) := by
  rcases s with _ | ⟨l, _ | ⟨m, _ | ⟨n, _ | ⟨o, r⟩⟩⟩⟩ <;> simp only [utf16Feed] at h
  all_goals (repeat' (split at h))
  all_goals (first
    | (injection h with h1 h2; subst h2; left; exact ⟨_, _, _, rfl, rfl, by simp_all⟩)
    | (injection h with h1 h2; subst h2; right; exact ⟨by simp, rfl⟩)
    | (exact absurd h (by simp)))

theorem utf16T_ok (be : Bool) : (utf16T be).Ok := by
  refine ⟨utf16Feed_emit_held be, ?_, ?_, ?_, ?_, rfl, rfl⟩
  · intro s b k s' h
    have := utf16Feed_take be s b k s' h
    subst this; simp [utf16T]
  · intro s b k s' h
    rcases utf16Feed_badHeld be s b k s' h with ⟨x, y, z, rfl, rfl, _⟩ | ⟨h4, rfl⟩
    · simp [utf16T]
    · simp only [utf16T, List.length_nil]; omega
  · intro s b k s' k' s'' h h2
    rcases utf16Feed_badHeld be s b k s' h with ⟨x, y, z, rfl, rfl, hz⟩ | ⟨h4, rfl⟩
    · simp only [utf16T, utf16Feed] at h2
      repeat' (split at h2)
      all_goals (exact absurd h2 (by simp))
    · simp only [utf16T, utf16Feed] at h2
      exact absurd h2 (by simp)
  · intro s k h
    simp only [utf16T] at h ⊢
    split at h
    · exact absurd h (by simp)
    · rename_i hne
      cases s with
      | nil => exact absurd rfl hne
      | cons _ _ => simp

/-- the UTF-16LE / UTF-16BE converters meet the contract -/
theorem utf16_incremental (be : Bool) : Laws (utf16 be) := Trans.toConv_laws (utf16T_ok be)

end CifModel.Model.Ustream
