import CifModel.Lemmas.StoreRefine
import CifModel.Lemmas.StoreIter
/-
  Lemmas/StoreRefineQ — get_value against the documented data model: the values it sees are the item's column of the loop's packets.
-/
namespace CifModel.Store
open Gen.ErrCodes

theorem sorted_eq_of_mem_iff : ∀ (l1 l2 : List Nat), l1.Pairwise (· < ·) → l2.Pairwise (· < ·) → (∀ x, x ∈ l1 ↔ x ∈ l2) → l1 = l2
  | [], [], _, _, _ => rfl
  | [], b :: bs, _, _, h => absurd ((h b).mpr List.mem_cons_self) (by simp)
  | a :: as, [], _, _, h => absurd ((h a).mp List.mem_cons_self) (by simp)
  | a :: as, b :: bs, h1, h2, h => by
    rw [List.pairwise_cons] at h1 h2
    have hab : a = b := by
      rcases List.mem_cons.mp ((h a).mp List.mem_cons_self) with hab | ha
      · exact hab
      · rcases List.mem_cons.mp ((h b).mpr List.mem_cons_self) with hba | hb
        · exact hba.symm
        · have := h2.1 a ha; have := h1.1 b hb; omega
    subst hab
    congr 1
    apply sorted_eq_of_mem_iff as bs h1.2 h2.2
    intro x
    constructor
    · intro hx
      rcases List.mem_cons.mp ((h x).mp (List.mem_cons_of_mem _ hx)) with hxa | hxb
      · have := h1.1 x hx; omega
      · exact hxb
    · intro hx
      rcases List.mem_cons.mp ((h x).mpr (List.mem_cons_of_mem _ hx)) with hxa | hxb
      · have := h2.1 x hx; omega
      · exact hxb

theorem mem_insertNat_self (x : Nat) : ∀ l : List Nat, x ∈ Db.insertNat x l
  | [] => by simp [Db.insertNat]
  | z :: zs => by
    unfold Db.insertNat
    split
    · exact List.mem_cons_self
    · split
      · rename_i h; have : x = z := by simpa using h
        rw [this]; exact List.mem_cons_self
      · exact List.mem_cons_of_mem _ (mem_insertNat_self x zs)

theorem mem_insertNat_of_mem (x y : Nat) : ∀ l : List Nat, y ∈ l → y ∈ Db.insertNat x l
  | [], h => nomatch h
  | z :: zs, h => by
    unfold Db.insertNat
    split
    · exact List.mem_cons_of_mem _ h
    · split
      · exact h
      · rcases List.mem_cons.mp h with rfl | h'
        · exact List.mem_cons_self
        · exact List.mem_cons_of_mem _ (mem_insertNat_of_mem x y zs h')

theorem mem_foldl_insertNat_of : ∀ (vs : List ValueRow) (acc : List Nat) (r : Nat),
    (r ∈ acc ∨ ∃ v ∈ vs, v.rowNum = r) → r ∈ vs.foldl (fun acc v => Db.insertNat v.rowNum acc) acc
  | [], acc, r, h => by
    rcases h with h | ⟨v, hv, _⟩
    · exact h
    · cases hv
  | v :: vs, acc, r, h => by
    simp only [List.foldl_cons]
    apply mem_foldl_insertNat_of vs
    rcases h with h | ⟨w, hw, hr⟩
    · exact Or.inl (mem_insertNat_of_mem _ _ _ h)
    · rcases List.mem_cons.mp hw with rfl | hw'
      · exact Or.inl (hr ▸ mem_insertNat_self _ _)
      · exact Or.inr ⟨w, hw', hr⟩

theorem mem_insertByRow_of (x y : ValueRow) : ∀ l : List ValueRow, (y = x ∨ y ∈ l) → y ∈ Db.insertByRow x l
  | [], h => by
    rcases h with rfl | h
    · simp [Db.insertByRow]
    · cases h
  | z :: zs, h => by
    unfold Db.insertByRow
    split
    · rcases h with rfl | h
      · exact List.mem_cons_self
      · exact List.mem_cons_of_mem _ h
    · rcases h with rfl | h
      · exact List.mem_cons_of_mem _ (mem_insertByRow_of _ _ zs (Or.inl rfl))
      · rcases List.mem_cons.mp h with rfl | h'
        · exact List.mem_cons_self
        · exact List.mem_cons_of_mem _ (mem_insertByRow_of _ _ zs (Or.inr h'))

theorem mem_sortByRow_of : ∀ (l : List ValueRow) (y : ValueRow), y ∈ l → y ∈ l.foldr Db.insertByRow []
  | [], _, h => nomatch h
  | x :: xs, y, h => by
    simp only [List.foldr_cons]
    rcases List.mem_cons.mp h with rfl | h'
    · exact mem_insertByRow_of _ _ _ (Or.inl rfl)
    · exact mem_insertByRow_of _ _ _ (Or.inr (mem_sortByRow_of xs y h'))

theorem insertByRow_sorted (x : ValueRow) : ∀ l : List ValueRow, l.Pairwise (fun a b => a.rowNum ≤ b.rowNum) →
    (Db.insertByRow x l).Pairwise (fun a b => a.rowNum ≤ b.rowNum)
  | [], _ => by simp [Db.insertByRow]
  | z :: zs, h => by
    unfold Db.insertByRow
    rw [List.pairwise_cons] at h
    split
    · rename_i hlt
      rw [List.pairwise_cons]
      refine ⟨?_, List.pairwise_cons.mpr h⟩
      intro b hb
      rcases List.mem_cons.mp hb with rfl | hb'
      · exact Nat.le_of_lt hlt
      · exact Nat.le_trans (Nat.le_of_lt hlt) (h.1 b hb')
    · rename_i hnlt
      rw [List.pairwise_cons]
      refine ⟨?_, insertByRow_sorted x zs h.2⟩
      intro b hb
      rcases mem_insertByRow x b zs hb with rfl | hb'
      · omega
      · exact h.1 b hb'

theorem sortByRow_sorted : ∀ l : List ValueRow, (l.foldr Db.insertByRow []).Pairwise (fun a b => a.rowNum ≤ b.rowNum)
  | [] => List.Pairwise.nil
  | x :: xs => by simp only [List.foldr_cons]; exact insertByRow_sorted x _ (sortByRow_sorted xs)

/-- the column of one item in the packets of its loop, as `abs` shows it -/
def absColumn (d : Db) (x : LoopRow) (i : ItemRow) : List V :=
  (d.loopRows x.cid x.loopNum).map (fun r => ((d.values.find? (fun v => v.cid == x.cid && v.name == i.name && v.rowNum == r)).map (·.val)).getD .unk)

/-- get_value, refinement of the query: provided every packet of the loop stores a value for the item (what the
    documentation promises and F30 breaks), the values GET_VALUE_SQL yields — of which cif_container_get_value reports
    CIF_NOSUCH_ITEM for none, the value for one, CIF_AMBIGUOUS_ITEM with the first for several — are exactly the item's column
    of the loop's packets in the documented model, in packet order. -/
theorem getValue_refines (d : Db) (x : LoopRow) (i : ItemRow) (h : Inv d) (hi : i ∈ d.loopItems x.cid x.loopNum)
    (hcomplete : ∀ r ∈ d.loopRows x.cid x.loopNum, d.hasValue x.cid i.name r = true) :
    (d.valuesOf x.cid i.name).map (·.val) = absColumn d x i := by
  have hsym : ∀ a b : ValueRow, ValueKeyNe a b → ValueKeyNe b a := fun a b hab ⟨h1, h2, h3⟩ => hab ⟨h1.symm, h2.symm, h3.symm⟩
  let F := d.values.filter (fun v => v.cid == x.cid && v.name == i.name)
  obtain ⟨hpw, hmem⟩ := sortByRow_spec hsym F (h.valuePK.filter _)
  have hW : d.valuesOf x.cid i.name = F.foldr Db.insertByRow [] := rfl
  have hkey : ∀ w ∈ d.valuesOf x.cid i.name, w ∈ d.values ∧ w.cid = x.cid ∧ w.name = i.name := by
    intro w hw
    have := List.mem_filter.mp (hmem w (hW ▸ hw))
    exact ⟨this.1, by simpa using this.2⟩
  -- strictly increasing row numbers
  have hstrict : ((d.valuesOf x.cid i.name).map (·.rowNum)).Pairwise (· < ·) := by
    rw [List.pairwise_map]
    have := (sortByRow_sorted F).and hpw
    rw [hW]
    refine this.imp_of_mem ?_
    intro a b ha hb ⟨hle, hne⟩
    have ka := hkey a (hW ▸ ha)
    have kb := hkey b (hW ▸ hb)
    have : a.rowNum ≠ b.rowNum := fun he => hne ⟨by rw [ka.2.1, kb.2.1], by rw [ka.2.2, kb.2.2], he⟩
    omega
  have hrows : (d.valuesOf x.cid i.name).map (·.rowNum) = d.loopRows x.cid x.loopNum := by
    apply sorted_eq_of_mem_iff _ _ hstrict (loopRows_sorted d _ _)
    intro r
    constructor
    · intro hr
      obtain ⟨w, hw, rfl⟩ := List.mem_map.mp hr
      have kw := hkey w hw
      unfold Db.loopRows
      apply mem_foldl_insertNat_of
      right
      refine ⟨w, List.mem_filter.mpr ⟨kw.1, ?_⟩, rfl⟩
      simp only [Bool.and_eq_true, List.any_eq_true]
      exact ⟨by simp [kw.2.1], i, hi, by simp [kw.2.2]⟩
    · intro hr
      have := hcomplete r hr
      simp only [Db.hasValue, List.any_eq_true] at this
      obtain ⟨v, hv, hk⟩ := this
      simp at hk
      refine List.mem_map.mpr ⟨v, ?_, hk.2⟩
      rw [hW]
      apply mem_sortByRow_of
      exact List.mem_filter.mpr ⟨hv, by simp [hk.1.1, hk.1.2]⟩
  unfold absColumn
  rw [← hrows, List.map_map]
  apply List.map_congr_left
  intro w hw
  have kw := hkey w hw
  -- `find?` returns the unique row with that key
  have : d.values.find? (fun v => v.cid == x.cid && v.name == i.name && v.rowNum == w.rowNum) = some w := by
    have hex : ∃ v, d.values.find? (fun v => v.cid == x.cid && v.name == i.name && v.rowNum == w.rowNum) = some v := by
      cases hf : d.values.find? (fun v => v.cid == x.cid && v.name == i.name && v.rowNum == w.rowNum) with
      | some v => exact ⟨v, rfl⟩
      | none =>
        have := List.find?_eq_none.mp hf w kw.1
        simp [kw.2.1, kw.2.2] at this
    obtain ⟨v, hv⟩ := hex
    have hvm := List.mem_of_find?_eq_some hv
    have hvk := List.find?_some hv
    simp at hvk
    have : v = w := by
      -- same key ⇒ same row (PRIMARY KEY of item_value)
      have hp := h.valuePK
      generalize d.values = vs at hp hvm kw
      induction vs with
      | nil => cases hvm
      | cons y ys ih =>
        rw [List.pairwise_cons] at hp
        rcases List.mem_cons.mp hvm with rfl | hv' <;> rcases List.mem_cons.mp kw.1 with hw' | hw'
        · exact hw'.symm ▸ rfl
        · exact absurd ⟨by rw [hvk.1.1, kw.2.1], by rw [hvk.1.2, kw.2.2], hvk.2⟩ (hp.1 w hw')
        · subst hw'
          exact absurd ⟨by rw [hvk.1.1, kw.2.1], by rw [hvk.1.2, kw.2.2], hvk.2.symm⟩ (hp.1 v hv')
        · exact ih hp.2 hv' ⟨hw', kw.2⟩
    rw [hv, this]
  simp only [Function.comp, this, Option.map_some, Option.getD_some]

end CifModel.Store

namespace CifModel.Store

/-- `absColumn` is the k-th column of the packets `abs` shows, k = position of the item among the loop's names -/
theorem absColumn_is_column (d : Db) (x : LoopRow) (i : ItemRow) (k : Nat) (hk : (d.loopItems x.cid x.loopNum)[k]? = some i) :
    (absLoop d x).packets.map (fun p => p.getD k .unk) = absColumn d x i := by
  simp only [absLoop, absColumn, List.map_map]
  apply List.map_congr_left
  intro r _
  simp [Function.comp, List.getD, List.getElem?_map, hk]

end CifModel.Store

namespace CifModel.Store

/-- the caller's packet after cif_pktitr_next_packet holds, for every item name, exactly the value just read — whatever the
    caller's packet held before (other values, foreign names, other spellings) -/
theorem mergeCallerPacket_lookup (caller : List (Str × Str)) (p : List (Str × V)) (k : Str) :
    ((mergeCallerPacket caller p).find? (fun e => e.1 == k)).map (fun e => e.2.2) = (p.find? (fun e => e.1 == k)).map (·.2) := by
  unfold mergeCallerPacket
  rw [List.find?_append]
  induction caller with
  | nil =>
    simp only [List.filterMap_nil, List.find?_nil, Option.none_or, List.any_nil, Bool.not_false]
    have : p.filter (fun _ => true) = p := List.filter_eq_self.mpr (fun _ _ => rfl)
    rw [this, List.find?_map]
    have hcomp : ((fun e : Str × Str × V => e.1 == k) ∘ fun e : Str × V => (e.1, e.1, e.2)) = (fun e : Str × V => e.1 == k) := rfl
    rw [hcomp]
    cases p.find? (fun e => e.1 == k) <;> rfl
  | cons c cs ih =>
    simp only [List.filterMap_cons]
    cases hc : p.find? (fun e => e.1 == c.1) with
    | none =>
      simp only [Option.map_none]
      -- c's key is not an item of the packet read: dropping it from `caller` changes nothing
      have hfil : p.filter (fun e => !(c :: cs).any (fun c' => c'.1 == e.1)) = p.filter (fun e => !cs.any (fun c' => c'.1 == e.1)) := by
        apply List.filter_congr
        intro e he
        have : (c.1 == e.1) = false := by
          cases hx : (c.1 == e.1) with
          | false => rfl
          | true =>
            have := List.find?_eq_none.mp hc e he
            simp at hx this
            exact absurd hx.symm this
        simp [List.any_cons, this]
      rw [hfil]; exact ih
    | some e0 =>
      have he0 := List.find?_some hc
      simp only [Option.map_some, List.find?_cons]
      cases hk : (c.1 == k) with
      | true =>
        have hck : c.1 = k := by simpa using hk
        simp only [Option.some_or, Option.map_some]
        rw [← hck, hc]
        rfl
      | false =>
        simp only []
        have hfil : ((p.filter (fun e => !(c :: cs).any (fun c' => c'.1 == e.1))).map (fun e => (e.1, e.1, e.2))).find? (fun e => e.1 == k) =
            ((p.filter (fun e => !cs.any (fun c' => c'.1 == e.1))).map (fun e => (e.1, e.1, e.2))).find? (fun e => e.1 == k) := by
          rw [List.find?_map, List.find?_map, List.find?_filter, List.find?_filter]
          congr 1
          apply find?_congr'
          intro e _
          cases hek : (e.1 == k) with
          | false => simp [Function.comp, hek]
          | true =>
            have : (c.1 == e.1) = false := by
              have h1 : e.1 = k := by simpa using hek
              rw [h1]; exact hk
            simp only [Function.comp, hek, List.any_cons, this, Bool.false_or, and_true]
            try (cases (cs.any fun c' => c'.1 == e.1) <;> rfl)
        rw [hfil]; exact ih

end CifModel.Store
