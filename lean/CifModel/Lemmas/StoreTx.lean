import CifModel.Model.StoreStep
/-
  Lemmas/StoreTx — transactional atomicity of every modelled API function (used by Props/C05, C06).

  `Same s s'` : the content and the BEGIN snapshot are those of `s`; the savepoint stack of `s'` is that of `s` with `k` more
  entries on top, every one of them a snapshot of the very content `s.db` (a `rollback to s` never `release`s); outside a
  transaction `k = 0`, i.e. `s' = s`.
-/
namespace CifModel.Store
open Gen.ErrCodes

def Same (s s' : Store) : Prop :=
  s'.db = s.db ∧ s'.txn = s.txn ∧ ∃ k, s'.saves = List.replicate k s.db ++ s.saves ∧ (s.autocommit = true → k = 0)

theorem Same.refl (s : Store) : Same s s := ⟨rfl, rfl, 0, by simp, fun _ => rfl⟩

theorem Same.eq_of_autocommit {s s' : Store} (h : Same s s') (ha : s.autocommit = true) : s' = s := by
  obtain ⟨h1, h2, k, h3, h4⟩ := h
  have hk := h4 ha
  subst hk
  cases s; cases s'; simp_all

theorem Same.autocommit_eq {s s' : Store} (h : Same s s') : s'.autocommit = s.autocommit := by
  obtain ⟨h1, h2, k, h3, h4⟩ := h
  by_cases ha : s.autocommit = true
  · have hk := h4 ha; subst hk; simp [Store.autocommit, h2, h3]
  · simp [Store.autocommit] at ha ⊢
    rw [h2, h3]
    cases hs : s.saves <;> cases ht : s.txn <;> simp_all

theorem Same.trans {a b c : Store} (h1 : Same a b) (h2 : Same b c) : Same a c := by
  obtain ⟨d1, t1, k1, s1, a1⟩ := h1
  obtain ⟨d2, t2, k2, s2, a2⟩ := h2
  refine ⟨by rw [d2, d1], by rw [t2, t1], k2 + k1, ?_, ?_⟩
  · rw [s2, s1, d1, ← List.append_assoc, List.replicate_append_replicate]
  · intro ha
    have hb : b.autocommit = true := by rw [Same.autocommit_eq ⟨d1, t1, k1, s1, a1⟩]; exact ha
    rw [a1 ha, a2 hb]

/-- pushing one savepoint and rolling back to it -/
theorem same_save_rollbackTo (s : Store) (h : s.autocommit = false) : Same s (s.save.rollbackTo.getD s.save) := by
  refine ⟨by simp [Store.save, Store.rollbackTo], by simp [Store.save, Store.rollbackTo], 1, by simp [Store.save, Store.rollbackTo, List.replicate], ?_⟩
  intro ha; rw [h] at ha; cases ha

theorem begin_rollback (s s1 : Store) (h : s.begin = some s1) (d : Db) :
    (({ s1 with db := d } : Store).rollback).getD s1 = s := by
  unfold Store.begin at h
  split at h
  · rename_i ha
    cases h
    cases s with | mk db txn saves =>
    simp [Store.autocommit] at ha
    simp [Store.rollback, Store.autocommit, Store.outermost, ha]
  · cases h

theorem begin_autocommit (s s1 : Store) (h : s.begin = some s1) : s.autocommit = true ∧ s1 = { s with txn := some s.db } := by
  unfold Store.begin at h
  split at h
  · cases h; simp_all
  · cases h

/-- BEGIN_NESTTX … ROLLBACK_NESTTX leaves the content as it was -/
theorem nest_error {α} (s : Store) (body : Db → Except Code (Db × α)) (c : Code)
    (h : (s.nest body).2 = .error c) : Same s (s.nest body).1 := by
  unfold Store.nest Store.beginNest at *
  by_cases ha : s.autocommit = true
  · simp only [ha, if_true] at h ⊢
    split at h
    · cases h
    · rename_i hb
      simp only [hb]
      have : (({ s with txn := some s.db } : Store).rollbackNest true) = s := by
        cases s with | mk db txn saves =>
        simp [Store.autocommit] at ha
        simp [Store.rollbackNest, Store.rollback, Store.autocommit, Store.outermost, ha]
      rw [this]; exact Same.refl s
  · have ha' : s.autocommit = false := by simpa using ha
    simp only [ha', Bool.false_eq_true, if_false] at h ⊢
    split at h
    · cases h
    · rename_i hb
      simp only [hb]
      exact same_save_rollbackTo s ha'

theorem nestRO_same {α} (s : Store) (body : Db → Except Code α) : Same s (s.nestRO body).1 := by
  unfold Store.nestRO Store.beginNest
  by_cases ha : s.autocommit = true
  · simp only [ha, if_true]
    have : (({ s with txn := some s.db } : Store).rollbackNest true) = s := by
      cases s with | mk db txn saves =>
      simp [Store.autocommit] at ha
      simp [Store.rollbackNest, Store.rollback, Store.autocommit, Store.outermost, ha]
    rw [this]; exact Same.refl s
  · have ha' : s.autocommit = false := by simpa using ha
    simp only [ha', Bool.false_eq_true, if_false]
    exact same_save_rollbackTo s ha'


theorem begin_rollback' (s s1 : Store) (h : s.begin = some s1) : (s1.rollback).getD s1 = s :=
  begin_rollback s s1 h s1.db

/-- loops have unique keys (a fragment of the invariant; SQLite's PRIMARY KEY) -/
def LoopPK (d : Db) : Prop := ∀ cid ln, (d.loops.filter (fun l => l.cid == cid && l.loopNum == ln)).length ≤ 1

theorem deleteItems_none (d : Db) (p : ItemRow → Bool) (h : ∀ i ∈ d.items, p i = false) : d.deleteItems p = d := by
  unfold Db.deleteItems
  have h1 : d.items.filter p = [] := by
    rw [List.filter_eq_nil_iff]; intro i hi; simp [h i hi]
  have h2 : d.items.filter (fun i => !p i) = d.items := by
    rw [List.filter_eq_self]; intro i hi; simp [h i hi]
  have h3 : d.values.filter (fun _ => true) = d.values := List.filter_eq_self.mpr (fun _ _ => rfl)
  simp only [h1, h2, List.any_nil, Bool.not_false, h3]

theorem deleteLoops_none (d : Db) (p : LoopRow → Bool) (h : (d.loops.filter p).length = 0) : d.deleteLoops p = d := by
  have h0 : d.loops.filter p = [] := List.eq_nil_of_length_eq_zero h
  have h1 : ∀ l ∈ d.loops, p l = false := by
    intro l hl
    have := List.filter_eq_nil_iff.mp h0 l hl
    simpa using this
  unfold Db.deleteLoops
  have h2 : d.loops.filter (fun l => !p l) = d.loops := by
    rw [List.filter_eq_self]; intro l hl; simp [h1 l hl]
  simp only [h0, h2]
  have : ({ d with loops := d.loops } : Db) = d := rfl
  rw [this]
  apply deleteItems_none
  intro i _; simp

-- ---- every API function: an error return leaves the content as it was ------------------------------------------

theorem createBlock_error (s : Store) (n : Option Name) (len : Bool) (c : Code)
    (h : (createBlock s n len).2 = .error c) : Same s (createBlock s n len).1 := by
  revert h
  unfold createBlock
  split
  · intro _; exact Same.refl s
  · split
    · intro _; exact Same.refl s
    · split
      · intro _; exact Same.refl s
      · rename_i s1 hb
        simp only []
        split
        · intro _; rw [begin_rollback' s s1 hb]; exact Same.refl s
        · intro h; cases h


theorem createFrame_error (s : Store) (hd : CH) (n : Option Name) (len : Bool) (c : Code)
    (h : (createFrame s hd n len).2 = .error c) : Same s (createFrame s hd n len).1 := by
  revert h
  unfold createFrame
  split
  · intro _; exact Same.refl s
  · split
    · intro _; exact Same.refl s
    · split
      · intro _; exact Same.refl s
      · rename_i s1 hb
        simp only []
        split
        · intro _; rw [begin_rollback' s s1 hb]; exact Same.refl s
        · intro h; cases h

theorem destroyContainer_error (s : Store) (hd : CH) (c : Code)
    (h : (destroyContainer s hd).2 = .error c) : Same s (destroyContainer s hd).1 := by
  revert h
  unfold destroyContainer Db.deleteContainer
  simp only []
  split
  · rename_i h0
    simp only [h0]
    intro _
    exact Same.refl s
  · rename_i h0
    simp only [h0]
    intro h; cases h

theorem createLoop_error (s : Store) (hd : CH) (cat : Option Str) (names : List Name) (c : Code)
    (h : (createLoop s hd cat names).2 = .error c) : Same s (createLoop s hd cat names).1 := by
  revert h
  unfold createLoop
  split
  · intro _; exact Same.refl s
  · split
    · intro _; exact Same.refl s
    · intro h; exact nest_error s _ c h

theorem addItemInternal_error (s : Store) (l : LH) (key orig : Str) (v : V) (c : Code)
    (h : (addItemInternal s l key orig v).2 = .error c) : Same s (addItemInternal s l key orig v).1 :=
  nest_error s _ c h

theorem addItem_error (s : Store) (l : LH) (n : Option Name) (v : Option V) (c : Code)
    (h : (addItem s l n v).2 = .error c) : Same s (addItem s l n v).1 := by
  revert h
  unfold addItem
  split
  · intro _; exact Same.refl s
  · split
    · intro _; exact Same.refl s
    · split
      · intro h; cases h
      · rename_i s1 c1 he
        intro _
        have := addItemInternal_error s l _ _ _ c1 (by rw [he])
        rw [he] at this; exact this

theorem addPacket_error (s : Store) (l : LH) (p : List (Str × V)) (c : Code)
    (h : (addPacket s l p).2 = .error c) : Same s (addPacket s l p).1 := by
  revert h
  unfold addPacket
  split
  · intro _; exact Same.refl s
  · intro h; exact nest_error s _ c h

theorem allLoops_same (s : Store) (hd : CH) : Same s (allLoops s hd).1 := nestRO_same s _
theorem getNames_same (s : Store) (l : LH) : Same s (getNames s l).1 := nestRO_same s _

theorem removeItem_error (s : Store) (hd : CH) (n : Option Name) (c : Code)
    (h : (removeItem s hd n).2 = .error c) : Same s (removeItem s hd n).1 := by
  revert h
  unfold removeItem
  split
  · intro _; exact Same.refl s
  · split
    · intro _; exact Same.refl s
    · split
      · intro _; exact Same.refl s
      · rename_i s1 hb
        split
        · intro _; rw [begin_rollback' s s1 hb]; exact Same.refl s
        · intro h; cases h

theorem destroyLoop_error (s : Store) (l : LH) (c : Code) (hpk : LoopPK s.db)
    (h : (destroyLoop s l).2 = .error c) : Same s (destroyLoop s l).1 := by
  revert h
  unfold destroyLoop Db.destroyLoop
  simp only []
  have hk := hpk l.cid l.loopNum
  generalize hn : (s.db.loops.filter (fun x => x.cid == l.cid && x.loopNum == l.loopNum)).length = n at hk ⊢
  split
  · rename_i h0
    intro _
    have : n = 0 := by simpa using h0
    subst this
    rw [deleteLoops_none s.db _ hn]
    exact Same.refl s
  · split
    · intro h; cases h
    · rename_i h0 h1
      exfalso
      have a : n ≠ 0 := by simpa using h0
      have b : n ≠ 1 := by simpa using h1
      omega

theorem dbSetCategory_changes (d d1 : Db) (cid ln : Nat) (cat : Option Str) (n : Nat)
    (he : d.setCategory cid ln cat = .ok (d1, n)) : (n = 0 ∧ d1 = d) ∨ n = 1 := by
  unfold Db.setCategory at he
  split at he
  · cases he; exact Or.inl ⟨rfl, rfl⟩
  · split at he
    · cases he
    · split at he
      · cases he
      · cases he; exact Or.inr rfl

theorem setCategory_error (s : Store) (l : LH) (cat : Option Str) (c : Code)
    (h : (setCategory s l cat).2.2 = .error c) : Same s (setCategory s l cat).1 := by
  revert h
  unfold setCategory
  split
  · intro _; exact Same.refl s
  · split
    · intro _; exact Same.refl s
    · rename_i d1 n he
      simp only []
      rcases dbSetCategory_changes _ _ _ _ _ _ he with ⟨h0, hd⟩ | h1
      · subst h0; subst hd
        simp only [beq_self_eq_true, if_true]
        intro _; exact Same.refl s
      · subst h1
        simp


-- ---- set_value: the outer BEGIN … ROLLBACK ------------------------------------------------------------------------

theorem nest_txn {α} (s : Store) (body : Db → Except Code (Db × α)) (d : Db) (h : s.txn = some d) :
    (s.nest body).1.txn = some d := by
  have ha : s.autocommit = false := by simp [Store.autocommit, h]
  unfold Store.nest Store.beginNest
  simp only [ha, Bool.false_eq_true, if_false]
  split <;> simp [Store.commitNest, Store.rollbackNest, Store.save, Store.release, Store.rollbackTo, h]

theorem addPacket_txn (s : Store) (l : LH) (p : List (Str × V)) (d : Db) (h : s.txn = some d) :
    (addPacket s l p).1.txn = some d := by
  unfold addPacket
  split
  · exact h
  · exact nest_txn s _ d h

theorem addScalar_txn (s : Store) (hd : CH) (key orig : Str) (v : V) (d : Db) (h : s.txn = some d) :
    (addScalar s hd key orig v).1.txn = some d := by
  unfold addScalar
  have h1 : ∀ (r : R LH), r.1.txn = some d →
      (match r.2 with
        | .error c => ((r.1, Except.error c) : R Unit)
        | .ok l => match addItemInternal r.1 l key orig v with
          | (s2, .error c) => (s2, .error c)
          | (s2, .ok numPackets) => if numPackets == 0 then addPacket s2 l [(key, v)] else (s2, .ok ())).1.txn = some d := by
    intro r hr
    split
    · exact hr
    · rename_i l _
      have h2 : (addItemInternal r.1 l key orig v).1.txn = some d := nest_txn _ _ d hr
      split
      · rename_i s2 c he; rw [he] at h2; exact h2
      · rename_i s2 np he
        rw [he] at h2
        split
        · exact addPacket_txn s2 l _ d h2
        · exact h2
  have h0 : (match getCategoryLoop s hd (some []) with
      | (s', .error c) => if c == CIF_NOSUCH_LOOP then createLoopInternal s' hd (some []) [] else (s', .error c)
      | r => r).1.txn = some d := by
    have hg : (getCategoryLoop s hd (some [])).1 = s := by
      unfold getCategoryLoop; simp only []; split <;> rfl
    split
    · rename_i s' c he
      have : s' = s := by rw [← hg, he]
      subst this
      split
      · exact nest_txn _ _ d h
      · exact h
    · rw [hg]; exact h
  exact h1 _ h0

theorem setValueInner_txn (s1 : Store) (hd : CH) (key orig : Str) (v : V) (d : Db) (h1 : s1.txn = some d) :
    (setValueInner s1 hd key orig v).1.txn = some d := by
  unfold setValueInner
  split
  · split
    · exact addScalar_txn s1 hd _ _ _ _ h1
    · exact h1
  · exact h1

theorem setValue_error (s : Store) (hd : CH) (n : Option Name) (v : Option V) (c : Code)
    (h : (setValue s hd n v).2 = .error c) : Same s (setValue s hd n v).1 := by
  revert h
  unfold setValue
  split
  · intro _; exact Same.refl s
  · split
    · intro _; exact Same.refl s
    · split
      · intro _; exact Same.refl s
      · rename_i nm _ _ s1 hb
        obtain ⟨ha, hs1⟩ := begin_autocommit s s1 hb
        have ht := setValueInner_txn s1 hd nm.key nm.orig (v.getD .unk) s.db (by rw [hs1])
        split
        · intro h; cases h
        · rename_i s2 c2 he
          intro _
          rw [he] at ht
          have : s2.rollback.getD s2 = s := by
            cases s with | mk db txn saves =>
            simp [Store.autocommit] at ha
            cases s2 with | mk db2 txn2 saves2 =>
            simp at ht
            simp [Store.rollback, Store.autocommit, Store.outermost, ht, ha]
          rw [this]; exact Same.refl s


-- ---- packet iterator ---------------------------------------------------------------------------------------------------

theorem getPackets_error (s : Store) (l : LH) (c : Code)
    (h : (getPackets s l).2 = .error c) : Same s (getPackets s l).1 := by
  revert h
  unfold getPackets
  have hn := getNames_same s l
  split
  · rename_i s1 c1 he; rw [he] at hn; intro _; exact hn
  · rename_i s1 names he
    rw [he] at hn
    split
    · intro _; exact hn
    · rename_i s2 hb
      split
      · intro _; rw [begin_rollback' s1 s2 hb]; exact hn
      · intro h; cases h

theorem updatePacket_error (s : Store) (it : Iter) (p : List (Str × V)) (c : Code)
    (h : (updatePacket s it p).2 = .error c) : Same s (updatePacket s it p).1 := by
  revert h
  unfold updatePacket
  split
  · intro _; exact Same.refl s
  · rename_i ha
    split
    · intro _; exact Same.refl s
    · simp only []
      split
      · intro h; cases h
      · intro _; exact same_save_rollbackTo s (by simpa using ha)

theorem removePacket_error (s : Store) (it : Iter) (c : Code)
    (h : (removePacket s it).2.2 = .error c) : Same s (removePacket s it).1 ∧ (removePacket s it).2.1 = it := by
  revert h
  unfold removePacket
  split
  · intro _; exact ⟨Same.refl s, rfl⟩
  · split
    · intro _; exact ⟨Same.refl s, rfl⟩
    · intro h; cases h

theorem closeIter_error (s : Store) (c : Code) (h : (closeIter s).2 = .error c) : (closeIter s).1 = s := by
  revert h
  unfold closeIter
  split
  · intro h; cases h
  · rename_i hc
    intro _
    have : s.autocommit = true := by
      unfold Store.commit at hc
      split at hc
      · assumption
      · cases hc
    simp [Store.rollback, this]

theorem abortIter_error (s : Store) (c : Code) (h : (abortIter s).2 = .error c) : (abortIter s).1 = s := by
  revert h
  unfold abortIter
  split
  · intro h; cases h
  · intro _; rfl

end CifModel.Store
