import CifModel.Lemmas.WriterLexText
/-
  (ii) The body of a text field written for a well-formed string of allowed characters is again a well-formed string of
  allowed characters: `fold_line` never separates the two units of a surrogate pair, and the protocol adds only `>`,
  blank, backslash and LF.
-/
namespace CifModel.Lemmas.WriterLexUnits
open CifModel.Model CifModel.Model.Writer
open CifModel.Spec.Lexical

/-- appending to a complete string -/
theorem okUnits_append (dia : Dialect) : ∀ (a b : Str) (pend : Option CU), okUnits dia pend a = true →
    okUnits dia pend (a ++ b) = okUnits dia none b := by
  intro a
  induction a with
  | nil => intro b pend h; cases pend with
    | none => rfl
    | some l => simp [okUnits] at h
  | cons c r ih =>
    intro b pend h
    cases pend with
    | none =>
      simp only [List.cons_append, okUnits] at h ⊢
      split at h
      · rename_i hl
        simp only [hl, ↓reduceIte]
        simp only [Bool.and_eq_true] at h
        rw [ih b _ h.2, h.1]; simp
      · rename_i hl
        simp only [hl, Bool.false_eq_true, ↓reduceIte]
        simp only [Bool.and_eq_true] at h
        rw [ih b _ h.2, h.1.1, h.1.2]; simp
    | some l =>
      simp only [List.cons_append, okUnits, Bool.and_eq_true] at h ⊢
      rw [ih b _ h.2, h.1.1, h.1.2]; simp

/-- splitting in front of a unit that is not a trail surrogate -/
theorem okUnits_split (dia : Dialect) : ∀ (a b : Str) (pend : Option CU), okUnits dia pend (a ++ b) = true →
    (∀ x, b.head? = some x → isTrailU x = false) → okUnits dia pend a = true ∧ okUnits dia none b = true := by
  intro a
  induction a with
  | nil =>
    intro b pend h hb
    cases pend with
    | none => exact ⟨rfl, h⟩
    | some l =>
      cases b with
      | nil => simp [okUnits] at h
      | cons x r =>
        simp only [List.nil_append, okUnits, Bool.and_eq_true] at h
        have := hb x rfl
        rw [this] at h; simp at h
  | cons c r ih =>
    intro b pend h hb
    cases pend with
    | none =>
      simp only [List.cons_append, okUnits] at h ⊢
      split at h
      · rename_i hl
        simp only [hl, ↓reduceIte]
        simp only [Bool.and_eq_true] at h ⊢
        obtain ⟨h1, h2⟩ := ih b _ h.2 hb
        exact ⟨⟨h.1, h1⟩, h2⟩
      · rename_i hl
        simp only [hl, Bool.false_eq_true, ↓reduceIte]
        simp only [Bool.and_eq_true] at h ⊢
        obtain ⟨h1, h2⟩ := ih b _ h.2 hb
        exact ⟨⟨h.1, h1⟩, h2⟩
    | some l =>
      simp only [List.cons_append, okUnits, Bool.and_eq_true] at h ⊢
      obtain ⟨h1, h2⟩ := ih b _ h.2 hb
      exact ⟨⟨h.1, h1⟩, h2⟩

/-- in a well-formed string a trail surrogate is preceded by a lead surrogate -/
theorem trail_after_lead (dia : Dialect) : ∀ (s : Str) (pend : Option CU) (i : Nat), okUnits dia pend s = true →
    i < s.length → isTrailU (at0 s i) = true →
    (i = 0 ∧ pend.isSome = true) ∨ (0 < i ∧ isLeadU (at0 s (i - 1)) = true) := by
  intro s
  induction s with
  | nil => intro _ i _ hi; simp at hi
  | cons c r ih =>
    intro pend i h hi ht
    cases i with
    | zero =>
      left
      refine ⟨rfl, ?_⟩
      cases pend with
      | some l => rfl
      | none =>
        simp only [at0, List.getD_cons_zero] at ht
        simp only [okUnits] at h
        split at h
        · rename_i hl
          exfalso
          simp only [isLeadU, isTrailU, Bool.and_eq_true, decide_eq_true_eq] at hl ht
          exact Nat.lt_irrefl _ (Nat.lt_of_le_of_lt ht.1 (Nat.lt_of_le_of_lt hl.2 (by decide)))
        · simp only [Bool.and_eq_true, Bool.not_eq_true'] at h
          rw [ht] at h; simp at h
    | succ j =>
      right
      refine ⟨Nat.succ_pos _, ?_⟩
      have hj : j < r.length := by simpa using hi
      have htj : isTrailU (at0 r j) = true := by simpa [at0] using ht
      -- the state after `c`
      have hstep : ∃ pend', okUnits dia pend' r = true ∧ (pend'.isSome = true → isLeadU c = true) := by
        cases pend with
        | none =>
          simp only [okUnits] at h
          split at h
          · rename_i hl
            simp only [Bool.and_eq_true] at h
            exact ⟨some c, h.2, fun _ => hl⟩
          · simp only [Bool.and_eq_true] at h
            exact ⟨none, h.2, fun e => by simp at e⟩
        | some l =>
          simp only [okUnits, Bool.and_eq_true] at h
          exact ⟨none, h.2, fun e => by simp at e⟩
      obtain ⟨pend', hr, hp⟩ := hstep
      rcases ih pend' j hr hj htj with ⟨hj0, hps⟩ | ⟨hjpos, hl⟩
      · subst hj0
        simpa [at0] using hp hps
      · have : at0 (c :: r) (j + 1 - 1) = at0 r (j - 1) := by
          cases j with
          | zero => omega
          | succ k => simp [at0]
        rw [this]; exact hl

/-! ### `fold_line` folds at character boundaries -/

theorem pair_of_lead_trail (a b : Nat) (ha : isLeadU a = true) (hb : isTrailU b = true) : isSurrogatePair a b = true := by
  simp [isLeadU, isTrailU] at ha hb
  simp [isSurrogatePair]
  exact ⟨hb.1, hb.2, ha.1, Nat.lt_succ_of_le ha.2⟩

theorem blank_not_trail (x : Nat) (h : Writer.isBlank x = true) : isTrailU x = false := by
  simp only [Writer.isBlank, Bool.or_eq_true, beq_iff_eq] at h
  rcases h with h | h <;> (rw [h]; decide)

/-- a recorded low candidate is the position of a blank -/
theorem foldScanLow_blank (line : Str) (target : Nat) :
    ∀ (fuel len : Nat) (low : Option Nat), (∀ lo, low = some lo → Writer.isBlank (at0 line lo) = true) →
      ∀ low', foldScanLow line target fuel len low = .inr low' → ∀ lo, low' = some lo → Writer.isBlank (at0 line lo) = true := by
  intro fuel
  induction fuel with
  | zero => intro len low hlow low' h lo hlo; simp [foldScanLow] at h; subst h; exact hlow lo hlo
  | succ f ih =>
    intro len low hlow low' h lo hlo
    simp only [foldScanLow] at h
    split at h
    · cases h; exact hlow lo hlo
    · split at h
      · cases h
      · apply ih (len + 1) _ _ low' h lo hlo
        intro lo' hlo'
        split at hlo'
        · rename_i hb; cases hlo'; exact hb
        · exact hlow lo' hlo'

theorem foldOk_not_trail (dia : Dialect) (line : Str) (forPrefix : Bool) (len : Nat) (hok : okUnits dia none line = true)
    (hlen : len < line.length) (h : foldOk line forPrefix len = true) : isTrailU (at0 line len) = false := by
  cases ht : isTrailU (at0 line len)
  · rfl
  · exfalso
    rcases WriterLexUnits.trail_after_lead dia line none len hok hlen ht with ⟨_, hp⟩ | ⟨_, hl⟩
    · simp at hp
    · have := pair_of_lead_trail _ _ hl ht
      simp only [foldOk, Bool.and_eq_true, Bool.not_eq_true'] at h
      rw [this] at h; simp at h

/-- whatever `fold_line` returns short of the whole line is not in front of a trail surrogate -/
theorem foldLine_not_trail (dia : Dialect) (line : Str) (doFold : Bool) (target window : Nat) (forPrefix : Bool)
    (hok : okUnits dia none line = true)
    (hlt : foldLine line doFold target window forPrefix < line.length) (hpos : 0 < foldLine line doFold target window forPrefix) :
    isTrailU (at0 line (foldLine line doFold target window forPrefix)) = false := by
  cases doFold with
  | false => simp [foldLine] at hlt
  | true =>
    simp only [foldLine, Bool.true_eq_false, ↓reduceIte] at hlt hpos ⊢
    have hs := Lemmas.WriterFold.foldScanLow_spec line target (target + 2) 0 none (Nat.zero_le _) (by intro lo h; cases h)
    have hb := foldScanLow_blank line target (target + 2) 0 none (by intro lo h; cases h)
    split
    · rename_i len hl
      simp only [hl] at hlt
      rw [hs.1 len hl] at hlt; omega
    · rename_i low hl
      simp only [hl] at hlt hpos
      have hlow := hb low hl
      split
      · rename_i hlong; simp only [hlong, ↓reduceIte] at hlt; omega
      · rename_i hlong
        simp only [hlong, ↓reduceIte] at hlt hpos
        split
        · rename_i high hh
          have hbh : Writer.isBlank (at0 line high) = true := by simpa using List.find?_some hh
          split
          · exact blank_not_trail _ hbh
          · rename_i lo
            have hbl := hlow lo rfl
            split
            · exact blank_not_trail _ hbh
            · split
              · exact blank_not_trail _ hbh
              · exact blank_not_trail _ hbl
        · rename_i hnh
          simp only [hnh] at hlt hpos
          split
          · rename_i len hf1
            simp only [hf1] at hlt
            exact foldOk_not_trail dia line forPrefix len hok hlt (by simpa using List.find?_some hf1)
          · rename_i hn1
            simp only [hn1] at hlt hpos
            split
            · rename_i len hf2
              simp only [hf2] at hlt
              exact foldOk_not_trail dia line forPrefix len hok hlt (by simpa using List.find?_some hf2)
            · rename_i hn2
              simp only [hn2] at hlt hpos
              split
              · rename_i len hf3
                simp only [hf3] at hlt
                exact foldOk_not_trail dia line forPrefix len hok hlt (by simpa using List.find?_some hf3)
              · rename_i hn3
                simp only [hn3] at hpos
                omega

/-! ### segments, lines, body -/

theorem head_drop (tok : Str) (len : Nat) (x : CU) (h : (tok.drop len).head? = some x) : x = at0 tok len := by
  induction tok generalizing len with
  | nil => simp at h
  | cons c r ih =>
    cases len with
    | zero => simp at h; simp [at0, h]
    | succ k => simp only [List.drop_succ_cons] at h; simpa [at0] using ih k h

theorem okUnits_cons_bmp (dia : Dialect) (c : CU) (r : Str) (hl : isLeadU c = false) (ht : isTrailU c = false)
    (ha : allowedBmp dia c = true) : okUnits dia none (c :: r) = okUnits dia none r := by
  simp [okUnits, hl, ht, ha]

theorem okUnits_pfx (dia : Dialect) (pre : Bool) : okUnits dia none (Lemmas.WriterText.pfx pre) = true := by
  cases pre <;> cases dia <;> decide

theorem segLines_units (dia : Dialect) (fold pre protect : Bool) (target : Nat) :
    ∀ (fuel : Nat) (tok : Str) (ps : List Str), okUnits dia none tok = true →
      segLines fold pre protect target fuel tok = .ok ps → ∀ p ∈ ps, okUnits dia none p = true := by
  intro fuel
  induction fuel with
  | zero => intro tok ps _ h p hp; simp [segLines] at h; subst h; simp at hp
  | succ f ih =>
    intro tok ps hok h p hp
    cases tok with
    | nil => simp [segLines] at h; subst h; simp at hp
    | cons c cs =>
      simp only [segLines] at h
      generalize hl : foldLine (c :: cs) fold target WINDOW pre = len at h
      have hle : len ≤ (c :: cs).length := hl ▸ Lemmas.WriterFold.foldLine_le _ _ _ _ _
      by_cases h0 : len = 0
      · simp [h0] at h
      · simp only [h0, ↓reduceIte] at h
        -- the fold point is a character boundary
        have hsplit : okUnits dia none ((c :: cs).take len) = true ∧ okUnits dia none ((c :: cs).drop len) = true := by
          apply okUnits_split dia _ _ none (by rw [List.take_append_drop]; exact hok)
          intro x hx
          have hx' := head_drop _ _ _ hx
          have hlt : len < (c :: cs).length := by
            by_cases hh : len < (c :: cs).length
            · exact hh
            · have : (c :: cs).drop len = [] := List.drop_eq_nil_of_le (by omega)
              rw [this] at hx; simp at hx
          rw [hx', ← hl]
          exact foldLine_not_trail dia _ _ _ _ _ hok (by rw [hl]; exact hlt) (by rw [hl]; omega)
        cases hr : segLines fold pre protect target f ((c :: cs).drop len) with
        | error e => simp [hr] at h
        | ok rest =>
          simp only [hr] at h
          cases h
          rcases List.mem_cons.mp hp with h1 | h1
          · subst h1
            rw [Lemmas.WriterText.printfS_take len (c :: cs) hle]
            have e : (if pre = true then PREFIX else []) = Lemmas.WriterText.pfx pre := rfl
            rw [e, List.append_assoc, okUnits_append dia _ _ none (okUnits_pfx dia pre),
              okUnits_append dia _ _ none hsplit.1]
            split
            · cases dia <;> decide
            · rfl
          · exact ih _ rest hsplit.2 hr p h1

theorem joinLines_units (dia : Dialect) : ∀ (ls : List Str), okUnits dia none (Spec.TextProtocol.joinLines ls) = true →
    ∀ l ∈ ls, okUnits dia none l = true := by
  intro ls
  induction ls with
  | nil => intro _ l hl; cases hl
  | cons a rest ih =>
    intro h l hl
    cases rest with
    | nil => simp at hl; subst hl; exact h
    | cons b r =>
      simp only [Spec.TextProtocol.joinLines] at h
      obtain ⟨h1, h2⟩ := okUnits_split dia a _ none h (by intro x hx; simp at hx; subst hx; decide)
      rcases List.mem_cons.mp hl with e | e
      · subst e; exact h1
      · apply ih _ l e
        rw [okUnits_cons_bmp dia 10 _ (by decide) (by decide) (by cases dia <;> decide)] at h2
        exact h2

theorem flat_units (dia : Dialect) : ∀ (Q : List Str), (∀ p ∈ Q, okUnits dia none p = true) → okUnits dia none (flat Q) = true := by
  intro Q
  induction Q with
  | nil => intro _; rfl
  | cons p ps ih =>
    intro h
    simp only [flat]
    rw [okUnits_cons_bmp dia 10 _ (by decide) (by decide) (by cases dia <;> decide),
      okUnits_append dia _ _ none (h p List.mem_cons_self)]
    exact ih (fun x hx => h x (List.mem_cons_of_mem _ hx))

/-- (ii) the body written for a well-formed text of allowed characters is one -/
theorem body_units (dia : Dialect) (s : Str) (fold pre : Bool) (body : Str) (hok : okUnits dia none s = true)
    (h : Writer.textBody s fold pre = .ok body) : okUnits dia none body = true := by
  unfold Writer.textBody at h
  split at h
  · cases h; exact hok
  · cases hq : textPhys fold pre (targetLength pre) (splitLines s) with
    | error e => simp [hq] at h
    | ok Q =>
      simp only [hq] at h
      cases h
      have hlines : ∀ l ∈ splitLines s, okUnits dia none l = true := by
        apply joinLines_units dia
        rw [(Lemmas.WriterText.splitLines_spec s).2]; exact hok
      have hQ : ∀ p ∈ Q, okUnits dia none p = true := by
        -- every physical line comes from the segments of a logical line, or is empty
        have : ∀ (ls : List Str) (Q : List Str), (∀ l ∈ ls, okUnits dia none l = true) →
            textPhys fold pre (targetLength pre) ls = .ok Q → ∀ p ∈ Q, okUnits dia none p = true := by
          intro ls
          induction ls with
          | nil => intro Q _ h p hp; simp [textPhys] at h; subst h; simp at hp
          | cons l rest ih =>
            intro Q hl h p hp
            simp only [textPhys] at h
            cases h1 : logicalLinePhys fold pre (targetLength pre) l with
            | error e => simp [h1] at h
            | ok ps =>
              cases h2 : textPhys fold pre (targetLength pre) rest with
              | error e => simp [h1, h2] at h
              | ok qs =>
                simp only [h1, h2] at h
                cases h
                rcases List.mem_append.mp hp with h3 | h3
                · cases l with
                  | nil => simp [logicalLinePhys] at h1; subst h1; simp at h3; subst h3; rfl
                  | cons c cs =>
                    simp only [logicalLinePhys, List.length_cons] at h1
                    cases hs : segLines fold pre (fold && endsBslBlank (c :: cs)) (targetLength pre) (cs.length + 1) (c :: cs) with
                    | error e => simp [hs] at h1
                    | ok ss =>
                      simp only [hs] at h1
                      cases h1
                      rcases List.mem_append.mp h3 with h4 | h4
                      · exact segLines_units dia _ _ _ _ _ _ _ (hl _ List.mem_cons_self) hs p h4
                      · split at h4
                        · simp at h4; subst h4; rfl
                        · simp at h4
                · exact ih qs (fun x hx => hl x (List.mem_cons_of_mem _ hx)) h2 p h3
        exact this _ Q hlines hq
      have hm : okUnits dia none (textMarker fold pre) = true := by
        cases fold <;> cases pre <;> cases dia <;> decide
      rw [okUnits_append dia _ _ none hm]
      exact flat_units dia Q hQ

end CifModel.Lemmas.WriterLexUnits
