import CifModel.Lemmas.ParserStructure
import CifModel.Props.C01
/-
  Lemmas/FeedsRender — the lexical glue of C01: the characters `render d layout` of an abstract document (Spec/Grammar.lean)
  make the scanner model (Model/Lexer.lean) hand out exactly `tokensOf d`, silently, under every policy (`Feeds`).

  Method.  The printer of Spec/Grammar.lean emits untyped pieces (separator / token characters).  Here the same traversal
  emits TYPED pieces (`XPiece`: which kind of token, with its parameters); erasing the types gives back the printer's
  pieces (`docX_erase`) and reading off the token specifications gives `tokensOf` (`docX_specs`).  The glue itself is then ONE
  induction over the linear list of typed pieces (`feeds_linear`), each step being one of the scanner theorems of Props/C01.lean
  (C01_lex_sep, C01_lex_value, C01_lex_key, C01_lex_name, C01_lex_keyword, C01_lex_bracket), with a decidable linear
  predicate `linOk` collecting what those theorems need at each piece.
-/
set_option linter.unusedSimpArgs false

namespace CifModel.FeedsRender
open CifModel CifModel.Model CifModel.Model.Lexer CifModel.Model.Parser CifModel.Spec.Grammar CifModel.Spec.Lexical

/-! ### typed pieces -/

inductive XTok where
  | val (p : Presentation) (s : Str)     -- a string in a presentation (`?` and `.` are the bare strings [63], [46])
  | key (p : Presentation) (k : Str)     -- a table key: the (quoted) presentation followed by a colon
  | name (n : Str)                       -- a data name, underscore included
  | blockHead (code : Str)
  | frameHead (code : Str)
  | frameTerm
  | loopKw
  | br (c : Nat) (ty : TokType)          -- `[` `]` `{` `}`
deriving Inhabited

inductive XPiece where
  | sep (required : Bool) (bol : Bool)
  | tok (x : XTok)
deriving Inhabited

def XTok.chars : XTok → Str
  | .val p s => renderValue p s
  | .key p k => renderKey p k
  | .name n => n
  | .blockHead c => kw [100, 97, 116, 97, 95] ++ c
  | .frameHead c => kw [115, 97, 118, 101, 95] ++ c
  | .frameTerm => kw [115, 97, 118, 101, 95]
  | .loopKw => kw [108, 111, 111, 112, 95]
  | .br c _ => [c]

def XTok.spec : XTok → TokSpec
  | .val p s => (p.tokType, s)
  | .key _ k => (.key, k)
  | .name n => (.name, n)
  | .blockHead c => (.blockHead, c)
  | .frameHead c => (.frameHead, c)
  | .frameTerm => (.frameTerm, [])
  | .loopKw => (.loopKw, [])
  | .br c ty => (ty, [c])

def erase : XPiece → Piece
  | .sep rq bol => .sep rq bol
  | .tok x => .tok x.chars

def specs : List XPiece → List TokSpec
  | [] => []
  | .sep _ _ :: r => specs r
  | .tok x :: r => x.spec :: specs r

theorem specs_append (a b : List XPiece) : specs (a ++ b) = specs a ++ specs b := by
  induction a with
  | nil => rfl
  | cons p a ih => cases p <;> simp [specs, ih]

mutual
  def valX : Val → List XPiece
    | .unk => [.tok (.val .bare [63])]
    | .na => [.tok (.val .bare [46])]
    | .str s p => [.tok (.val p s)]
    | .enc _ body => [.tok (.val .text body)]
    | .lst vs => .tok (.br 91 .olist) :: (valsX vs ++ [.sep false false, .tok (.br 93 .clist)])
    | .tbl es => .tok (.br 123 .otable) :: (entriesX es ++ [.sep false false, .tok (.br 125 .ctable)])
  def valsX : List Val → List XPiece
    | [] => []
    | v :: vs => .sep true (isTextPres v) :: (valX v ++ valsX vs)
  def entriesX : List (Str × Presentation × Val) → List XPiece
    | [] => []
    | (k, p, v) :: es => .sep true false :: .tok (.key p k) :: (valX v ++ entriesX es)
end

def packetsX : List (List Val) → List XPiece
  | [] => []
  | p :: ps => valsX p ++ packetsX ps

def namesX : List Str → List XPiece
  | [] => []
  | n :: ns => .sep true false :: .tok (.name n) :: namesX ns

def itemX : Item → List XPiece
  | .item n v => [.sep true false, .tok (.name n), .sep true (isTextPres v)] ++ valX v
  | .loop ns ps => [.sep true false, .tok .loopKw] ++ namesX ns ++ packetsX ps

def itemsX : List Item → List XPiece
  | [] => []
  | i :: r => itemX i ++ itemsX r

mutual
  def elemX : Elem → List XPiece
    | .plain i => itemX i
    | .frame c b => [.sep true false, .tok (.frameHead c)] ++ elemsX b ++ [.sep true false, .tok .frameTerm]
  def elemsX : List Elem → List XPiece
    | [] => []
    | e :: r => elemX e ++ elemsX r
end

def blockX (b : Block) : List XPiece := [.sep true false, .tok (.blockHead b.code)] ++ elemsX b.body

def blocksX : List Block → List XPiece
  | [] => []
  | b :: r => blockX b ++ blocksX r

/-- the typed pieces of a document: the first separator is optional, an optional separator ends it -/
def docX (d : Doc) : List XPiece :=
  match blocksX d with
  | .sep _ _ :: r => .sep false false :: r ++ [.sep false false]
  | r => r ++ [.sep false false]

/-! ### erasing the types gives the printer's pieces; the specifications give `tokensOf` -/

mutual
  theorem valX_erase : ∀ v : Val, (valX v).map erase = valPieces v
    | .unk => rfl
    | .na => rfl
    | .str _ _ => rfl
    | .enc _ _ => rfl
    | .lst vs => by simp [valX, valPieces, erase, XTok.chars, valsX_erase vs]
    | .tbl es => by simp [valX, valPieces, erase, XTok.chars, entriesX_erase es]
  theorem valsX_erase : ∀ vs : List Val, (valsX vs).map erase = valsPieces vs
    | [] => rfl
    | v :: vs => by simp [valsX, valsPieces, erase, valX_erase v, valsX_erase vs]
  theorem entriesX_erase : ∀ es : List (Str × Presentation × Val), (entriesX es).map erase = entriesPieces es
    | [] => rfl
    | (k, p, v) :: es => by simp [entriesX, entriesPieces, erase, XTok.chars, valX_erase v, entriesX_erase es]
end

mutual
  theorem valX_specs : ∀ v : Val, specs (valX v) = valToks v
    | .unk => rfl
    | .na => rfl
    | .str _ _ => rfl
    | .enc _ _ => rfl
    | .lst vs => by simp [valX, valToks, specs, specs_append, XTok.spec, valsX_specs vs]
    | .tbl es => by simp [valX, valToks, specs, specs_append, XTok.spec, entriesX_specs es]
  theorem valsX_specs : ∀ vs : List Val, specs (valsX vs) = valsToks vs
    | [] => rfl
    | v :: vs => by simp [valsX, valsToks, specs, specs_append, valX_specs v, valsX_specs vs]
  theorem entriesX_specs : ∀ es : List (Str × Presentation × Val), specs (entriesX es) = entriesToks es
    | [] => rfl
    | (k, p, v) :: es => by simp [entriesX, entriesToks, specs, specs_append, XTok.spec, valX_specs v, entriesX_specs es]
end

theorem packetsX_erase : ∀ ps : List (List Val), (packetsX ps).map erase = packetsPieces ps
  | [] => rfl
  | p :: ps => by simp [packetsX, packetsPieces, valsX_erase p, packetsX_erase ps]

theorem packetsX_specs : ∀ ps : List (List Val), specs (packetsX ps) = packetsToks ps
  | [] => rfl
  | p :: ps => by simp [packetsX, packetsToks, specs_append, valsX_specs p, packetsX_specs ps]

theorem namesX_erase : ∀ ns : List Str, (namesX ns).map erase = (ns.map fun n => [Piece.sep true false, .tok n]).flatten
  | [] => rfl
  | n :: ns => by simp [namesX, erase, XTok.chars, namesX_erase ns]

theorem namesX_specs : ∀ ns : List Str, specs (namesX ns) = ns.map (fun n => (TokType.name, n))
  | [] => rfl
  | n :: ns => by simp [namesX, specs, XTok.spec, namesX_specs ns]

theorem itemX_erase : ∀ i : Item, (itemX i).map erase = itemPieces i
  | .item n v => by simp [itemX, itemPieces, erase, XTok.chars, valX_erase v]
  | .loop ns ps => by simp [itemX, itemPieces, erase, XTok.chars, namesX_erase ns, packetsX_erase ps]

theorem itemX_specs : ∀ i : Item, specs (itemX i) = itemToks i
  | .item n v => by simp [itemX, itemToks, specs, XTok.spec, valX_specs v]
  | .loop ns ps => by simp [itemX, itemToks, specs, specs_append, XTok.spec, namesX_specs ns, packetsX_specs ps]

theorem itemsX_erase : ∀ r : List Item, (itemsX r).map erase = itemsPieces r
  | [] => rfl
  | i :: r => by simp [itemsX, itemsPieces, itemX_erase i, itemsX_erase r]

theorem itemsX_specs : ∀ r : List Item, specs (itemsX r) = itemsToks r
  | [] => rfl
  | i :: r => by simp [itemsX, itemsToks, specs_append, itemX_specs i, itemsX_specs r]

mutual
  theorem elemX_erase : ∀ e : Elem, (elemX e).map erase = elemPieces e
    | .plain i => by simpa [elemX, elemPieces] using itemX_erase i
    | .frame c b => by simp [elemX, elemPieces, erase, XTok.chars, elemsX_erase' b]
  theorem elemsX_erase' : ∀ r : List Elem, (elemsX r).map erase = elemsPieces r
    | [] => by simp [elemsX, elemsPieces]
    | e :: r => by simp [elemsX, elemsPieces, elemX_erase e, elemsX_erase' r]
end

mutual
  theorem elemX_specs : ∀ e : Elem, specs (elemX e) = elemToks e
    | .plain i => by simpa [elemX, elemToks] using itemX_specs i
    | .frame c b => by simp [elemX, elemToks, specs, specs_append, XTok.spec, elemsX_specs b]
  theorem elemsX_specs : ∀ r : List Elem, specs (elemsX r) = elemsToks r
    | [] => by simp [elemsX, elemsToks, specs]
    | e :: r => by simp [elemsX, elemsToks, specs_append, elemX_specs e, elemsX_specs r]
end

theorem elemsX_erase (r : List Elem) : (elemsX r).map erase = (r.map elemPieces).flatten := by
  rw [elemsX_erase', elemsPieces_eq]

theorem blocksX_erase : ∀ d : List Block, (blocksX d).map erase = (d.map blockPieces).flatten
  | [] => rfl
  | b :: r => by simp [blocksX, blockX, blockPieces, erase, XTok.chars, elemsX_erase b.body, blocksX_erase r]

theorem blocksX_specs : ∀ d : List Block, specs (blocksX d) = blocksToks d
  | [] => rfl
  | b :: r => by simp [blocksX, blockX, blocksToks, specs, specs_append, XTok.spec, elemsX_specs b.body, blocksX_specs r]

theorem docX_erase (d : Doc) : (docX d).map erase = docPieces d := by
  unfold docX docPieces
  rw [← blocksX_erase d]
  cases h : blocksX d with
  | nil => rfl
  | cons p r => cases p <;> simp [erase]

theorem docX_specs (d : Doc) : specs (docX d) ++ [(.end_, [])] = tokensOf d := by
  unfold docX tokensOf
  rw [← blocksX_specs d]
  cases h : blocksX d with
  | nil => rfl
  | cons p r => cases p <;> simp [specs, specs_append]

/-! ### rendering typed pieces -/

def renderX (l : Layout) : Nat → List XPiece → Str
  | _, [] => []
  | k, .sep _ _ :: r => renderWs (l k) ++ renderX l (k + 1) r
  | k, .tok x :: r => x.chars ++ renderX l k r

theorem renderX_eq (l : Layout) : ∀ (ps : List XPiece) (k : Nat), renderPieces l k (ps.map erase) = renderX l k ps
  | [], _ => rfl
  | .sep _ _ :: r, k => by simp [erase, renderPieces, renderX, renderX_eq l r (k + 1)]
  | .tok x :: r, k => by simp [erase, renderPieces, renderX, renderX_eq l r k]

theorem render_eq (d : Doc) (l : Layout) : render d l = renderX l 0 (docX d) := by
  unfold render; rw [← docX_erase, renderX_eq]

/-! ### what the scanner theorems need, piece by piece (decidable) -/

/-- what the token just scanned needs to see next: nothing in particular; whitespace, a closing bracket or the end; whitespace
    or the end -/
inductive Pend | none | wsClose | wsOnly
deriving DecidableEq, Repr

def isQuotedPres (p : Presentation) : Bool := p == .squote || p == .dquote || p == .tsquote || p == .tdquote

/-- lexical well-formedness of one token (the hypotheses of the C01_lex_* theorems that do not depend on the position) -/
def tokOk (dia : Dialect) : XTok → Bool
  | .val p s => admissible dia p s
  | .key p k => dia == .cif2 && isQuotedPres p && admissible .cif2 p k
  | .name n => (match n with | [] => false | c :: s => c == 95 && nonBlankOk dia s)
  | .blockHead c => nonBlankOk dia c && c != []
  | .frameHead c => nonBlankOk dia c && c != []
  | .frameTerm => true
  | .loopKw => true
  | .br c ty => dia == .cif2 && ((c == 91 && ty == .olist) || (c == 93 && ty == .clist) || (c == 123 && ty == .otable)
                  || (c == 125 && ty == .ctable))

def isClose : XTok → Bool
  | .br c _ => c == 93 || c == 125
  | _ => false

def pendAfter : XTok → Pend
  | .val _ _ => .wsClose
  | .key _ _ => .none
  | .br _ _ => .none
  | _ => .wsOnly

/-- the position rule: a text field begins a line (`cz` = the column is 0); a bare value that begins with `;` does not -/
def czOk (x : XTok) (cz : Bool) : Bool :=
  match x with
  | .val .text _ => cz
  | .val .bare s => !(s.head? == some 59 && cz)
  | _ => true

def commentFirst : List WsAtom → Bool
  | .comment _ :: _ => true
  | _ => false

/-- is the column 0 behind the separator `w`, given whether it was 0 in front of it -/
def czAfter (cz : Bool) (w : List WsAtom) : Bool :=
  match w.getLast? with
  | none => cz
  | some (.blank _) => false
  | some _ => true

/-- the linear predicate: `k` = index of the next separator, `aw` = a token may start here without whitespace, `pend` = what
    the previous token still needs to see, `cz` = the column is 0 -/
def linOk (dia : Dialect) (l : Layout) : Nat → Bool → Pend → Bool → List XPiece → Bool
  | _, _, _, _, [] => true
  | k, aw, pend, cz, .sep _ _ :: r =>
    (l k).all (WsAtom.ok dia) && ((aw && pend == .none) || !commentFirst (l k))
    && linOk dia l (k + 1) (aw || !(l k).isEmpty) (if (l k).isEmpty then pend else .none) (czAfter cz (l k)) r
  | k, aw, pend, cz, .tok x :: r =>
    tokOk dia x && (aw || isClose x) && (pend == .none || (pend == .wsClose && isClose x)) && czOk x cz
    && linOk dia l k (afterWsOf x.spec.1) (pendAfter x) false r

/-! ### separators: first character, column -/

theorem renderWs_cons (a : WsAtom) (w : List WsAtom) : renderWs (a :: w) = a.render ++ renderWs w := by simp [renderWs]

theorem renderWs_append (u w : List WsAtom) : renderWs (u ++ w) = renderWs u ++ renderWs w := by simp [renderWs]

/-- a separator that is non-empty and does not begin with a comment begins with a whitespace character -/
theorem ws_first (dia : Dialect) (a : WsAtom) (w : List WsAtom) (R : Str) (hok : a.ok dia = true) (hc : commentFirst (a :: w) = false) :
    ∃ c r, renderWs (a :: w) ++ R = c :: r ∧ isWs c = true := by
  cases a with
  | blank c => exact ⟨c, renderWs w ++ R, by simp [renderWs_cons, WsAtom.render], by simp [WsAtom.ok] at hok; simp [isWs, hok]⟩
  | eol => exact ⟨10, renderWs w ++ R, by simp [renderWs_cons, WsAtom.render], by decide⟩
  | comment b => simp [commentFirst] at hc

theorem atom_col (dia : Dialect) (a : WsAtom) (hok : a.ok dia = true) (line col : Nat) :
    ((posAfter line col a.render).2 = 0) = (match a with | .blank _ => false | _ => true) := by
  cases a with
  | blank c =>
    simp only [WsAtom.ok, isBlank, Bool.or_eq_true, beq_iff_eq] at hok
    have h10 : ¬ c = 10 := by omega_cu
    have ht : isTrailU c = false := by rcases hok with h | h <;> subst h <;> decide
    simp [WsAtom.render, posAfter, h10, ht]
  | eol => simp [WsAtom.render, posAfter]
  | comment b =>
    simp only [WsAtom.ok, Bool.and_eq_true] at hok
    simp only [WsAtom.render]
    rw [posAfter_cons 35 (by decide) (by decide), posAfter_append, posAfter_noeol b hok.2]
    simp [posAfter]

theorem ws_col (dia : Dialect) (w : List WsAtom) (hok : ∀ a ∈ w, a.ok dia = true) (line col : Nat) (cz : Bool)
    (hcz : cz = true ↔ col = 0) : czAfter cz w = true ↔ (posAfter line col (renderWs w)).2 = 0 := by
  rcases List.eq_nil_or_concat w with h | ⟨w', a, h⟩
  · subst h; simpa [czAfter, renderWs, posAfter] using hcz
  · rw [List.concat_eq_append] at h
    subst h
    have ha : a.ok dia = true := hok a (by simp)
    rw [renderWs_append, posAfter_append]
    have := atom_col dia a ha (posAfter line col (renderWs w')).1 (posAfter line col (renderWs w')).2
    simp only [renderWs, List.map_cons, List.map_nil, List.flatten_cons, List.flatten_nil, List.append_nil] at this ⊢
    rw [this]
    cases a <;> simp [czAfter]

/-! ### what follows a token -/

theorem isClose_chars {dia : Dialect} {x : XTok} (hok : tokOk dia x = true) (hc : isClose x = true) :
    dia = .cif2 ∧ ∃ c, (c = 93 ∨ c = 125) ∧ x.chars = [c] := by
  cases x with
  | br c ty =>
    simp only [tokOk, Bool.and_eq_true, beq_iff_eq] at hok
    simp only [isClose, Bool.or_eq_true, beq_iff_eq] at hc
    exact ⟨hok.1, c, hc, rfl⟩
  | _ => simp [isClose] at hc

theorem follow_of_linOk (dia : Dialect) (l : Layout) : ∀ (r : List XPiece) (k : Nat) (aw cz : Bool) (pend : Pend),
    pend ≠ .none → linOk dia l k aw pend cz r = true →
    (pend = .wsClose → followOk dia (renderX l k r) = true) ∧ (pend = .wsOnly → wsOrEnd (renderX l k r) = true)
  | [], _, _, _, _, _, _ => ⟨fun _ => rfl, fun _ => rfl⟩
  | .sep rq bol :: r, k, aw, cz, pend, hp, h => by
    simp only [linOk, Bool.and_eq_true, Bool.or_eq_true, Bool.not_eq_true', beq_iff_eq] at h
    obtain ⟨⟨hall, hcf⟩, hrest⟩ := h
    have hcf' : commentFirst (l k) = false := by
      rcases hcf with ⟨_, h⟩ | h
      · exact absurd h hp
      · exact h
    cases hw : l k with
    | nil =>
      rw [hw] at hrest
      simp only [List.isEmpty_nil, if_true] at hrest
      have := follow_of_linOk dia l r (k + 1) _ _ pend hp hrest
      simpa [renderX, hw, renderWs] using this
    | cons a w =>
      rw [hw] at hall hcf'
      have ha : a.ok dia = true := by simp only [List.all_cons, Bool.and_eq_true] at hall; exact hall.1
      obtain ⟨c, r', he, hc⟩ := ws_first dia a w (renderX l (k + 1) r) ha hcf'
      simp only [renderX, hw, he]
      exact ⟨fun _ => by simp [followOk, hc], fun _ => by simp [wsOrEnd, hc]⟩
  | .tok x :: r, k, aw, cz, pend, hp, h => by
    simp only [linOk, Bool.and_eq_true, Bool.or_eq_true, beq_iff_eq] at h
    obtain ⟨⟨⟨⟨hok, _⟩, hpd⟩, _⟩, _⟩ := h
    rcases hpd with h | ⟨h1, h2⟩
    · exact absurd h hp
    · obtain ⟨hd, c, hc, hch⟩ := isClose_chars hok h2
      subst hd
      refine ⟨fun _ => ?_, fun hq => by rw [h1] at hq; cases hq⟩
      simp only [renderX, hch, List.cons_append, List.nil_append, followOk]
      rcases hc with e | e <;> subst e <;> rfl

/-! ### Feeds: one link from one scanner equation; transport along scanner equalities -/

theorem feeds_of_lex {o : Opts} {sc sc' : Scan} {t : Tok} {ts : List TokSpec}
    (h : ∀ pol log, nextToken o.dia sc pol log = .ok (t, sc') log) (hr : Feeds o { scan := sc', tok := none } ts) :
    Feeds o { scan := sc, tok := none } ((t.ty, t.text) :: ts) := by
  refine Feeds.cons (s' := { scan := sc', tok := some t }) ?_ rfl hr
  intro pol w
  simp [nextTok, Parser.bind_eq, Parser.pure_eq, P.bind, P.pure, liftL, h]

theorem feeds_congr {o : Opts} {sc sc2 : Scan} {ts : List TokSpec}
    (h : ∀ pol log, nextToken o.dia sc pol log = nextToken o.dia sc2 pol log) (hf : Feeds o { scan := sc2, tok := none } ts) :
    Feeds o { scan := sc, tok := none } ts := by
  cases hf with
  | nil => exact Feeds.nil _
  | cons hn ht hr =>
    refine Feeds.cons ?_ ht hr
    intro pol w
    have := hn pol w
    simp only [nextTok, Parser.bind_eq, Parser.pure_eq, P.bind, P.pure, liftL] at this ⊢
    rw [h pol w.log]
    exact this

/-! ### one token -/

theorem posAfter_snoc (a : Str) (c : Nat) (h10 : ¬ c = 10) (ht : isTrailU c = false) (line col : Nat) :
    (posAfter line col (a ++ [c])).2 = (posAfter line col a).2 + 1 := by
  rw [posAfter_append]; simp [posAfter, h10, ht]

theorem colAdd_pos_of_ok (dia : Dialect) (c : Nat) (r : Str) (h : okUnits dia none (c :: r) = true) : 0 < colAdd (c :: r) := by
  have ht : isTrailU c = false := by
    by_cases hl : isLeadU c = true
    · simp [isLeadU] at hl; simp [isTrailU]; omega_cu
    · have hl' : isLeadU c = false := by simpa using hl
      simp only [okUnits, hl', Bool.false_eq_true, if_false, Bool.and_eq_true, Bool.not_eq_true'] at h
      exact h.1.1
  rw [colAdd_cons]; simp only [ht, Bool.false_eq_true, if_false]; omega

/-- behind an admissible presentation the column is not 0 -/
theorem val_col_pos (dia : Dialect) (p : Presentation) (s : Str) (h : admissible dia p s = true) (line col : Nat) :
    (posAfter line col (renderValue p s)).2 ≠ 0 := by
  cases p with
  | bare =>
    simp only [admissible, bareOk] at h
    cases s with
    | nil => simp at h
    | cons c r =>
      simp only [Bool.and_eq_true] at h
      have hne : (c :: r).all (fun x => !isEol x) = true := by
        have h' := h.1.1.1.2
        rw [List.all_eq_true] at h' ⊢
        intro x hx
        have := h' x hx
        simp only [isWs, Bool.not_eq_true', Bool.or_eq_false_iff] at this
        simp [this.2]
      simp only [renderValue]
      rw [posAfter_noeol _ hne]
      have := colAdd_pos_of_ok dia c r h.1.1.1.1
      simp only; omega
  | squote =>
    have e : renderValue .squote s = (39 :: s) ++ [39] := by simp [renderValue]
    rw [e, posAfter_snoc _ 39 (by decide) (by decide)]; omega
  | dquote =>
    have e : renderValue .dquote s = (34 :: s) ++ [34] := by simp [renderValue]
    rw [e, posAfter_snoc _ 34 (by decide) (by decide)]; omega
  | tsquote =>
    have e : renderValue .tsquote s = (39 :: 39 :: 39 :: s ++ [39, 39]) ++ [39] := by simp [renderValue]
    rw [e, posAfter_snoc _ 39 (by decide) (by decide)]; omega
  | tdquote =>
    have e : renderValue .tdquote s = (34 :: 34 :: 34 :: s ++ [34, 34]) ++ [34] := by simp [renderValue]
    rw [e, posAfter_snoc _ 34 (by decide) (by decide)]; omega
  | text =>
    have e : renderValue .text s = (59 :: s ++ [10]) ++ [59] := by simp [renderValue]
    rw [e, posAfter_snoc _ 59 (by decide) (by decide)]; omega

theorem nonBlank_noeol {dia : Dialect} {s : Str} (h : nonBlankOk dia s = true) : s.all (fun x => !isEol x) = true := by
  simp only [nonBlankOk, Bool.and_eq_true] at h
  have h' := h.2
  rw [List.all_eq_true] at h' ⊢
  intro x hx
  have := h' x hx
  simp only [isWs, Bool.not_eq_true', Bool.or_eq_false_iff] at this
  simp [this.2]

/-- one token: the scanner theorem that applies, in the uniform shape the induction needs -/
theorem tok_step (dia : Dialect) (x : XTok) (R : Str) (line col : Nat) (lt : TokType) (cz : Bool)
    (hok : tokOk dia x = true) (haw : afterWsOf lt = true ∨ isClose x = true) (hczv : cz = true ↔ col = 0)
    (hcz : czOk x cz = true) (hfit : linesFit col x.chars = true)
    (hfollow : (pendAfter x = .wsClose → followOk dia R = true) ∧ (pendAfter x = .wsOnly → wsOrEnd R = true)) :
    ∃ t : Tok, (t.ty, t.text) = x.spec ∧
      (∀ pol log, nextToken dia ⟨x.chars ++ R, line, col, lt⟩ pol log
        = .ok (t, ⟨R, (posAfter line col x.chars).1, (posAfter line col x.chars).2, x.spec.1⟩) log)
      ∧ (posAfter line col x.chars).2 ≠ 0 := by
  cases x with
  | val p s =>
    have haw' : afterWsOf lt = true := by rcases haw with h | h; exact h; simp [isClose] at h
    have hstart : Spec.Lexical.startOk p s col = true := by
      cases p with
      | text => simp only [czOk] at hcz; simp [Spec.Lexical.startOk, hczv.mp hcz]
      | bare =>
        simp only [czOk, Bool.not_eq_true', Bool.and_eq_false_iff] at hcz
        simp only [Spec.Lexical.startOk, semiOk, Bool.not_eq_true', Bool.and_eq_false_iff, beq_eq_false_iff_ne, ne_eq]
        rcases hcz with h | h
        · left; simpa using h
        · right; intro e; have := hczv.mpr e; rw [this] at h; cases h
      | _ => rfl
    refine ⟨⟨p.tokType, s, (posAfter line col (renderValue p s)).1, (posAfter line col (renderValue p s)).2⟩, rfl, ?_,
      val_col_pos dia p s hok line col⟩
    intro pol log
    exact C01_lex_value dia p s R line col lt pol log haw' hok hfit hstart (hfollow.1 rfl)
  | key p k =>
    have haw' : afterWsOf lt = true := by rcases haw with h | h; exact h; simp [isClose] at h
    simp only [tokOk, Bool.and_eq_true, beq_iff_eq, isQuotedPres, Bool.or_eq_true] at hok
    obtain ⟨⟨hd, hq⟩, hadm⟩ := hok
    subst hd
    have hfit' : linesFit col (renderValue p k) = true := by
      simp only [XTok.chars, renderKey] at hfit
      rw [linesFit_append] at hfit
      simp only [Bool.and_eq_true] at hfit; exact hfit.1
    refine ⟨⟨.key, k, (posAfter line col (renderValue p k ++ [58])).1, (posAfter line col (renderValue p k ++ [58])).2⟩, rfl, ?_, ?_⟩
    · intro pol log
      have := C01_lex_key p (by rcases hq with ((h | h) | h) | h <;> simp [h]) k R line col lt pol log haw' hadm hfit'
      simpa [XTok.chars, renderKey, XTok.spec] using this
    · simp only [XTok.chars, renderKey]
      rw [posAfter_snoc _ 58 (by decide) (by decide)]; omega
  | name n =>
    have haw' : afterWsOf lt = true := by rcases haw with h | h; exact h; simp [isClose] at h
    cases n with
    | nil => simp [tokOk] at hok
    | cons c s =>
      simp only [tokOk, Bool.and_eq_true, beq_iff_eq] at hok
      obtain ⟨hc, hs⟩ := hok
      subst hc
      have hne := nonBlank_noeol hs
      have hpos : posAfter line col (95 :: s) = (line, col + 1 + colAdd s) := by
        rw [posAfter_cons 95 (by decide) (by decide), posAfter_noeol s hne]
      refine ⟨⟨.name, 95 :: s, line, col + 1 + colAdd s⟩, rfl, ?_, ?_⟩
      · intro pol log
        simp only [XTok.chars, XTok.spec, hpos]
        exact C01_lex_name dia s R line col lt pol log haw' hs (hfollow.2 rfl)
      · simp only [XTok.chars, hpos]; omega
  | blockHead c =>
    have haw' : afterWsOf lt = true := by rcases haw with h | h; exact h; simp [isClose] at h
    simp only [tokOk, Bool.and_eq_true, bne_iff_ne, ne_eq] at hok
    have hne := nonBlank_noeol hok.1
    have hpos : posAfter line col ([100, 97, 116, 97, 95] ++ c) = (line, col + 5 + colAdd c) := by
      simp only [List.cons_append, List.nil_append]
      rw [posAfter_cons 100 (by decide) (by decide), posAfter_cons 97 (by decide) (by decide),
        posAfter_cons 116 (by decide) (by decide), posAfter_cons 97 (by decide) (by decide),
        posAfter_cons 95 (by decide) (by decide), posAfter_noeol c hne]
    refine ⟨⟨.blockHead, c, line, col + 5 + colAdd c⟩, rfl, ?_, ?_⟩
    · intro pol log
      simp only [XTok.chars, XTok.spec, kw, hpos]
      exact (C01_lex_keyword dia 100 97 116 97 95 c R line col lt pol log haw' hok.1 (hfollow.2 rfl)).1 (by decide) hok.2
    · simp only [XTok.chars, kw, hpos]; omega
  | frameHead c =>
    have haw' : afterWsOf lt = true := by rcases haw with h | h; exact h; simp [isClose] at h
    simp only [tokOk, Bool.and_eq_true, bne_iff_ne, ne_eq] at hok
    have hne := nonBlank_noeol hok.1
    have hpos : posAfter line col ([115, 97, 118, 101, 95] ++ c) = (line, col + 5 + colAdd c) := by
      simp only [List.cons_append, List.nil_append]
      rw [posAfter_cons 115 (by decide) (by decide), posAfter_cons 97 (by decide) (by decide),
        posAfter_cons 118 (by decide) (by decide), posAfter_cons 101 (by decide) (by decide),
        posAfter_cons 95 (by decide) (by decide), posAfter_noeol c hne]
    refine ⟨⟨.frameHead, c, line, col + 5 + colAdd c⟩, rfl, ?_, ?_⟩
    · intro pol log
      simp only [XTok.chars, XTok.spec, kw, hpos]
      have := (C01_lex_keyword dia 115 97 118 101 95 c R line col lt pol log haw' hok.1 (hfollow.2 rfl)).2.1 (by decide)
      simpa [hok.2] using this
    · simp only [XTok.chars, kw, hpos]; omega
  | frameTerm =>
    have haw' : afterWsOf lt = true := by rcases haw with h | h; exact h; simp [isClose] at h
    refine ⟨⟨.frameTerm, [], line, col + 5⟩, rfl, ?_, ?_⟩
    · intro pol log
      have := (C01_lex_keyword dia 115 97 118 101 95 [] R line col lt pol log haw' (by cases dia <;> decide) (hfollow.2 rfl)).2.1 (by decide)
      simpa [XTok.chars, XTok.spec, kw, posAfter, isTrailU] using this
    · simp [XTok.chars, kw, posAfter, isTrailU]
  | loopKw =>
    have haw' : afterWsOf lt = true := by rcases haw with h | h; exact h; simp [isClose] at h
    refine ⟨⟨.loopKw, [], line, col + 5⟩, rfl, ?_, ?_⟩
    · intro pol log
      have := (C01_lex_keyword dia 108 111 111 112 95 [] R line col lt pol log haw' (by cases dia <;> decide) (hfollow.2 rfl)).2.2 (by decide)
      simpa [XTok.chars, XTok.spec, kw, posAfter, isTrailU] using this
    · simp [XTok.chars, kw, posAfter, isTrailU]
  | br c ty =>
    simp only [tokOk, Bool.and_eq_true, beq_iff_eq, Bool.or_eq_true] at hok
    obtain ⟨hd, hb⟩ := hok
    subst hd
    have hb' : (c = 91 ∧ ty = .olist ∧ afterWsOf lt = true) ∨ (c = 93 ∧ ty = .clist) ∨ (c = 123 ∧ ty = .otable ∧ afterWsOf lt = true)
        ∨ (c = 125 ∧ ty = .ctable) := by
      rcases hb with ((⟨h1, h2⟩ | ⟨h1, h2⟩) | ⟨h1, h2⟩) | ⟨h1, h2⟩
      · refine Or.inl ⟨h1, h2, ?_⟩
        rcases haw with h | h; exact h; simp [isClose, h1] at h
      · exact Or.inr (Or.inl ⟨h1, h2⟩)
      · refine Or.inr (Or.inr (Or.inl ⟨h1, h2, ?_⟩))
        rcases haw with h | h; exact h; simp [isClose, h1] at h
      · exact Or.inr (Or.inr (Or.inr ⟨h1, h2⟩))
    have h10 : ¬ c = 10 := by rcases hb' with ⟨h, _⟩ | ⟨h, _⟩ | ⟨h, _⟩ | ⟨h, _⟩ <;> omega
    have ht : isTrailU c = false := by rcases hb' with ⟨h, _⟩ | ⟨h, _⟩ | ⟨h, _⟩ | ⟨h, _⟩ <;> subst h <;> decide
    have hpos : posAfter line col [c] = (line, col + 1) := by simp [posAfter, h10, ht]
    refine ⟨⟨ty, [c], line, col + 1⟩, rfl, ?_, ?_⟩
    · intro pol log
      simp only [XTok.chars, XTok.spec, hpos]
      exact (C01_lex_bracket c ty lt hb' R line col pol log).1
    · simp only [XTok.chars, hpos]; omega

/-! ### the glue: one induction over the typed pieces -/

theorem feeds_linear (o : Opts) (l : Layout) : ∀ (ps : List XPiece) (k line col : Nat) (lt : TokType) (pend : Pend) (cz : Bool),
    (cz = true ↔ col = 0) → linOk o.dia l k (afterWsOf lt) pend cz ps = true → linesFit col (renderX l k ps) = true →
    Feeds o { scan := ⟨renderX l k ps, line, col, lt⟩, tok := none } (specs ps ++ [(.end_, [])])
  | [], k, line, col, lt, pend, cz, _, _, _ => by
    refine feeds_of_lex (t := ⟨.end_, [], line, col⟩) (sc' := ⟨[], line, col, .end_⟩) ?_ (Feeds.nil _)
    intro pol log
    rfl
  | .sep rq bol :: r, k, line, col, lt, pend, cz, hcz, hok, hfit => by
    simp only [linOk, Bool.and_eq_true, Bool.or_eq_true, Bool.not_eq_true', beq_iff_eq] at hok
    obtain ⟨⟨hall, hcf⟩, hrest⟩ := hok
    have hall' : ∀ a ∈ l k, a.ok o.dia = true := by rw [List.all_eq_true] at hall; exact hall
    simp only [renderX] at hfit ⊢
    rw [linesFit_append] at hfit
    simp only [Bool.and_eq_true] at hfit
    -- the scanner state behind the separator
    let lt' : TokType := if (afterWsOf lt || !(l k).isEmpty) then .end_ else .value
    have hlt' : afterWsOf lt' = (afterWsOf lt || !(l k).isEmpty) := by
      simp only [lt']; cases h : (afterWsOf lt || !(l k).isEmpty) <;> simp [afterWsOf]
    have hfirst : afterWsOf lt = true ∨ ∀ b rest, l k ≠ WsAtom.comment b :: rest := by
      rcases hcf with ⟨h, _⟩ | h
      · exact Or.inl h
      · right; intro b rest e; rw [e] at h; simp [commentFirst] at h
    refine feeds_congr (sc2 := ⟨renderX l (k + 1) r, (posAfter line col (renderWs (l k))).1, (posAfter line col (renderWs (l k))).2, lt'⟩)
      (fun pol log => C01_lex_sep o.dia (l k) (renderX l (k + 1) r) line col lt lt' pol log hall' hfit.1 hfirst hlt') ?_
    have hcz' := ws_col o.dia (l k) hall' line col cz hcz
    have hfit2 : linesFit (posAfter line col (renderWs (l k))).2 (renderX l (k + 1) r) = true := by
      rw [posAfter_col_indep _ line 0]; exact hfit.2
    rw [← hlt'] at hrest
    exact feeds_linear o l r (k + 1) _ _ lt' _ _ hcz' hrest hfit2
  | .tok x :: r, k, line, col, lt, pend, cz, hcz, hok, hfit => by
    simp only [linOk, Bool.and_eq_true, Bool.or_eq_true, beq_iff_eq] at hok
    obtain ⟨⟨⟨⟨htok, haw⟩, _⟩, hczok⟩, hrest⟩ := hok
    simp only [renderX] at hfit ⊢
    rw [linesFit_append] at hfit
    simp only [Bool.and_eq_true] at hfit
    have hfollow : (pendAfter x = .wsClose → followOk o.dia (renderX l k r) = true)
        ∧ (pendAfter x = .wsOnly → wsOrEnd (renderX l k r) = true) := by
      by_cases hp : pendAfter x = .none
      · rw [hp]; exact ⟨(fun h => nomatch h), (fun h => nomatch h)⟩
      · exact follow_of_linOk o.dia l r k _ _ _ hp hrest
    obtain ⟨t, hspec, hlex, hpos⟩ := tok_step o.dia x (renderX l k r) line col lt cz htok haw hcz hczok hfit.1 hfollow
    have hfit2 : linesFit (posAfter line col x.chars).2 (renderX l k r) = true := by
      rw [posAfter_col_indep _ line 0]; exact hfit.2
    simp only [specs, List.cons_append]
    rw [← hspec]
    refine feeds_of_lex hlex ?_
    exact feeds_linear o l r k _ _ _ _ false (by simp [hpos]) hrest hfit2

/-- what a document and a layout owe the scanner — decidable, evaluated over the typed pieces of the document: every token
    lexically admissible (`tokOk`), whitespace where a token needs it, no comment glued to a token, text fields at the beginning
    of a line and `;`-led bare values not, CIF 1.1 without brackets / keys / triple quotes -/
def feedOk (dia : Dialect) (d : Doc) (l : Layout) : Bool := linOk dia l 0 true .none true (docX d)

/-- **the lexical glue**: the rendered characters of a document make the scanner hand out exactly its token sequence -/
theorem feeds_render (o : Opts) (d : Doc) (l : Layout) (hok : feedOk o.dia d l = true)
    (hfit : linesFit 0 (render d l) = true) :
    Feeds o { scan := Scan.init (render d l), tok := none } (tokensOf d) := by
  rw [← docX_specs, render_eq] at *
  exact feeds_linear o l (docX d) 0 1 0 .end_ .none true (by simp) hok hfit

/-! ### fuel: the rendered text is long enough for the productions' fuel -/

/-- a lower bound of the number of characters of a token, by kind -/
def wtX : XTok → Nat
  | .blockHead _ => 6
  | .frameHead _ => 6
  | .frameTerm => 5
  | _ => 1

def W : List XPiece → Nat
  | [] => 0
  | .sep _ _ :: r => W r
  | .tok x :: r => wtX x + W r

theorem W_append (a b : List XPiece) : W (a ++ b) = W a + W b := by
  induction a with
  | nil => simp [W]
  | cons p a ih => cases p <;> simp [W, ih, Nat.add_assoc]

theorem wtX_le {dia : Dialect} {x : XTok} (h : tokOk dia x = true) : wtX x ≤ x.chars.length := by
  cases x with
  | val p s =>
    cases p <;> simp only [wtX, XTok.chars, renderValue, List.length_cons, List.length_append] <;> try omega
    simp only [tokOk, admissible, bareOk] at h
    cases s with
    | nil => simp at h
    | cons c r => simp
  | key p k => simp [wtX, XTok.chars, renderKey]
  | name n =>
    cases n with
    | nil => simp [tokOk] at h
    | cons c s => simp [wtX, XTok.chars]
  | blockHead c =>
    simp only [tokOk, Bool.and_eq_true, bne_iff_ne, ne_eq] at h
    cases c with
    | nil => exact absurd rfl h.2
    | cons a r => simp [wtX, XTok.chars, kw]
  | frameHead c =>
    simp only [tokOk, Bool.and_eq_true, bne_iff_ne, ne_eq] at h
    cases c with
    | nil => exact absurd rfl h.2
    | cons a r => simp [wtX, XTok.chars, kw]
  | frameTerm => simp [wtX, XTok.chars, kw]
  | loopKw => simp [wtX, XTok.chars, kw]
  | br c ty => simp [wtX, XTok.chars]

theorem W_le_length (dia : Dialect) (l : Layout) : ∀ (ps : List XPiece) (k : Nat) (aw cz : Bool) (pend : Pend),
    linOk dia l k aw pend cz ps = true → W ps ≤ (renderX l k ps).length
  | [], _, _, _, _, _ => by simp [W]
  | .sep _ _ :: r, k, aw, cz, pend, h => by
    simp only [linOk, Bool.and_eq_true] at h
    have := W_le_length dia l r (k + 1) _ _ _ h.2
    simp only [W, renderX, List.length_append]; omega
  | .tok x :: r, k, aw, cz, pend, h => by
    simp only [linOk, Bool.and_eq_true] at h
    have h1 := wtX_le h.1.1.1.1
    have h2 := W_le_length dia l r k _ _ _ h.2
    simp only [W, renderX, List.length_append]; omega

mutual
  theorem szVal_le : ∀ v : Val, szVal v ≤ W (valX v)
    | .unk => by simp [szVal, valX, W, wtX]
    | .na => by simp [szVal, valX, W, wtX]
    | .str _ _ => by simp [szVal, valX, W, wtX]
    | .enc _ _ => by simp [szVal, valX, W, wtX]
    | .lst vs => by have := szVals_le vs; simp only [szVal, valX, W, W_append, wtX]; omega
    | .tbl es => by have := szEntries_le es; simp only [szVal, valX, W, W_append, wtX]; omega
  theorem szVals_le : ∀ vs : List Val, szVals vs ≤ W (valsX vs)
    | [] => by simp [szVals, valsX, W]
    | v :: vs => by have := szVal_le v; have := szVals_le vs; simp only [szVals, valsX, W, W_append]; omega
  theorem szEntries_le : ∀ es : List (Str × Presentation × Val), szEntries es ≤ W (entriesX es)
    | [] => by simp [szEntries, entriesX, W]
    | (k, p, v) :: es => by
      have := szVal_le v; have := szEntries_le es
      simp only [szEntries, entriesX, W, W_append, wtX]; omega
end

theorem szPackets_le : ∀ ps : List (List Val), szPackets ps ≤ W (packetsX ps)
  | [] => by simp [szPackets, packetsX, W]
  | p :: ps => by have := szVals_le p; have := szPackets_le ps; simp only [szPackets, packetsX, W_append]; omega

theorem W_namesX : ∀ ns : List Str, W (namesX ns) = ns.length
  | [] => rfl
  | n :: ns => by simp [namesX, W, wtX, W_namesX ns]; omega

theorem szItem_le (i : Item) : szItem i ≤ W (itemX i) ∧ 1 ≤ szItem i := by
  cases i with
  | item n v => have := szVal_le v; simp only [szItem, itemX, W, W_append, wtX, List.cons_append, List.nil_append]; omega
  | loop ns ps =>
    have := szPackets_le ps
    simp only [szItem, itemX, W, W_append, wtX, W_namesX, List.cons_append, List.nil_append]; omega

theorem szItems_le : ∀ r : List Item, szItems r + r.length ≤ 2 * W (itemsX r)
  | [] => by simp [szItems, itemsX, W]
  | i :: r => by
    have := szItem_le i; have := szItems_le r
    simp only [szItems, itemsX, W_append, List.length_cons]; omega

theorem szElems_le : ∀ r : List Elem, szElems r + r.length ≤ 2 * W (elemsX r)
  | [] => by simp [szElems, elemsX, W]
  | .plain i :: r => by
    have := szItem_le i; have := szElems_le r
    simp only [szElems, szElem, elemsX, elemX, W_append, List.length_cons]; omega
  | .frame c b :: r => by
    have := szElems_le b; have := szElems_le r
    simp only [szElems, szElem, elemsX, elemX, W, W_append, wtX, List.length_cons, List.cons_append, List.nil_append]; omega

theorem szBlocks_le : ∀ d : List Block, szBlocks d + d.length ≤ 2 * W (blocksX d)
  | [] => by simp [szBlocks, blocksX, W]
  | b :: r => by
    have := szElems_le b.body; have := szBlocks_le r
    simp only [szBlocks, szBlock, blocksX, blockX, W, W_append, wtX, List.length_cons, List.cons_append, List.nil_append]; omega

theorem W_docX (d : Doc) : W (docX d) = W (blocksX d) := by
  unfold docX
  cases h : blocksX d with
  | nil => rfl
  | cons p r => cases p <;> simp [W, W_append]

/-- the fuel that `parse` gives the productions suffices for a rendered document -/
theorem fuel_render (dia : Dialect) (d : Doc) (l : Layout) (hok : feedOk dia d l = true) :
    szBlocks d + d.length + 1 ≤ fuelFor (render d l) := by
  have h1 := szBlocks_le d
  have h2 := W_le_length dia l (docX d) 0 true true .none hok
  rw [W_docX] at h2
  rw [render_eq]
  unfold fuelFor
  omega

/-! ### the first character -/

theorem docX_head (d : Doc) : ∃ r, docX d = .sep false false :: r ∧ (d = [] → r = []) ∧
    (∀ b bs, d = b :: bs → ∃ r', r = .tok (.blockHead b.code) :: r') := by
  cases d with
  | nil => exact ⟨[], rfl, fun _ => rfl, fun b bs h => by cases h⟩
  | cons b bs =>
    refine ⟨.tok (.blockHead b.code) :: (elemsX b.body ++ (blocksX bs ++ [.sep false false])), by simp [docX, blocksX, blockX],
      (fun h => nomatch h), ?_⟩
    intro b' bs' h
    cases h
    exact ⟨_, rfl⟩

/-- the first character of a rendered document is one that cif_parse_internal accepts without a report, and no BOM -/
theorem first_char (dia : Dialect) (d : Doc) (l : Layout) (hok : feedOk dia d l = true) (c : Nat) (rest : Str)
    (h : render d l = c :: rest) : disallowedInitial c = false ∧ (c == 0xFEFF) = false := by
  obtain ⟨r, hr, hnil, hcons⟩ := docX_head d
  rw [render_eq, hr] at h
  unfold feedOk at hok
  rw [hr] at hok
  simp only [linOk, Bool.and_eq_true] at hok
  have hall : ∀ a ∈ l 0, a.ok dia = true := by have := hok.1.1; rwa [List.all_eq_true] at this
  simp only [renderX] at h
  have key : c = 100 ∨ c = 32 ∨ c = 9 ∨ c = 10 ∨ c = 35 := by
    cases hl : l 0 with
    | nil =>
      rw [hl] at h
      simp only [renderWs, List.map_nil, List.flatten_nil, List.nil_append] at h
      cases d with
      | nil => rw [hnil rfl] at h; simp [renderX] at h
      | cons b bs =>
        obtain ⟨r', hr'⟩ := hcons b bs rfl
        rw [hr'] at h
        simp only [renderX, XTok.chars, kw, List.cons_append, List.nil_append, List.cons.injEq] at h
        exact Or.inl h.1.symm
    | cons a w =>
      rw [hl] at h
      have ha := hall a (by rw [hl]; simp)
      rw [renderWs_cons] at h
      cases a with
      | blank x =>
        simp only [WsAtom.render, List.cons_append, List.nil_append, List.cons.injEq] at h
        simp only [WsAtom.ok, isBlank, Bool.or_eq_true, beq_iff_eq] at ha
        rcases ha with e | e
        · exact Or.inr (Or.inl (by rw [← h.1, e]))
        · exact Or.inr (Or.inr (Or.inl (by rw [← h.1, e])))
      | eol =>
        simp only [WsAtom.render, List.cons_append, List.nil_append, List.cons.injEq] at h
        exact Or.inr (Or.inr (Or.inr (Or.inl h.1.symm)))
      | comment b =>
        simp only [WsAtom.render, List.cons_append, List.cons.injEq] at h
        exact Or.inr (Or.inr (Or.inr (Or.inr h.1.symm)))
  rcases key with e | e | e | e | e <;> subst e <;> exact ⟨by decide, by decide⟩

end CifModel.FeedsRender
