import CifModel.Model.StoreFault
import CifModel.Lemmas.StoreWSim
/-
  Lemmas/StoreFault — a faulted call leaves every CIF `Same`, and the retried call cannot tell the difference.
-/
namespace CifModel.Store
open Gen.ErrCodes World

theorem target_live (w : World) (op : Op) (c : Nat) (s : Store) (h : target w op = some (c, s)) : w.liveC c = some s := by
  have hC : ∀ c0, (w.liveC c0).map (fun s => (c0, s)) = some (c, s) → w.liveC c = some s := by
    intro c0 h0
    cases hl : w.liveC c0 with
    | none => simp [hl] at h0
    | some s0 => simp [hl] at h0; obtain ⟨rfl, rfl⟩ := h0; exact hl
  have hH : ∀ hh, (w.liveH hh).map (fun p => (p.1.cif, p.2)) = some (c, s) → w.liveC c = some s := by
    intro hh h0
    cases hl : w.liveH hh with
    | none => simp [hl] at h0
    | some p => obtain ⟨e, s0⟩ := p; simp [hl] at h0; obtain ⟨rfl, rfl⟩ := h0; exact liveH_liveC hl
  have hL : ∀ l, (w.liveL l).map (fun p => (p.1.cif, p.2)) = some (c, s) → w.liveC c = some s := by
    intro l h0
    cases hl : w.liveL l with
    | none => simp [hl] at h0
    | some p => obtain ⟨e, s0⟩ := p; simp [hl] at h0; obtain ⟨rfl, rfl⟩ := h0; exact liveL_liveC hl
  have hI : ∀ i, (w.liveI i).map (fun p => (p.1.cif, p.2)) = some (c, s) → w.liveC c = some s := by
    intro i h0
    cases hl : w.liveI i with
    | none => simp [hl] at h0
    | some p => obtain ⟨e, s0⟩ := p; simp [hl] at h0; obtain ⟨rfl, rfl⟩ := h0; exact liveI_liveC hl
  cases op <;> simp only [target] at h <;>
    first
    | cases h
    | exact hC _ h
    | exact hH _ h
    | exact hL _ h
    | exact hI _ h
    | (split at h <;> first | cases h | exact hH _ h | exact hL _ h)

theorem recover_same (op : Op) (s : Store) : Same s (recover op s) := by
  unfold recover
  split
  · exact nestRO_same s _
  · exact Same.refl s

theorem wsim_setCif_right (w : World) (c : Nat) (s s' : Store) (hl : w.liveC c = some s) (h : Sim s s') : WSim w (w.setCif c s') := by
  refine ⟨rfl, rfl, rfl, by simp [setCif], ?_⟩
  intro c'
  simp only [setCif, getD_set_general]
  split
  · rename_i hc
    rw [hc.1]
    unfold liveC at hl
    rw [hl]; exact h
  · exact SlotRel.refl Sim.refl _

theorem faultCode_cases (m : Bool) : faultCode m = CIF_MEMORY_ERROR ∨ faultCode m = CIF_ERROR := by
  cases m <;> simp [faultCode]

end CifModel.Store
