import CifModel.Model.StoreFault
import CifModel.Lemmas.StoreWSim
/-
  Lemmas/StoreFault — a faulted call leaves every CIF `Same`, and the retried call cannot tell the difference.
-/
namespace CifModel.Store
open Gen.ErrCodes World

theorem target_live (w : World) (op : Op) (c : Nat) (s : Store) (h : target w op = some (c, s)) : w.liveC c = some s := by
  have hC : ∀ c0, (w.liveC c0).map (fun s => (c0, s)) = some (c, s) → w.liveC c = some s := by
    intro c0 h0
    cases hl : w.liveC c0 with
    | none => simp [hl] at h0
    | some s0 => simp [hl] at h0; obtain ⟨rfl, rfl⟩ := h0; exact hl
  have hH : ∀ hh, (w.liveH hh).map (fun p => (p.1.cif, p.2)) = some (c, s) → w.liveC c = some s := by
    intro hh h0
    cases hl : w.liveH hh with
    | none => simp [hl] at h0
    | some p => obtain ⟨e, s0⟩ := p; simp [hl] at h0; obtain ⟨rfl, rfl⟩ := h0; exact liveH_liveC hl
  have hL : ∀ l, (w.liveL l).map (fun p => (p.1.cif, p.2)) = some (c, s) → w.liveC c = some s := by
    intro l h0
    cases hl : w.liveL l with
    | none => simp [hl] at h0
    | some p => obtain ⟨e, s0⟩ := p; simp [hl] at h0; obtain ⟨rfl, rfl⟩ := h0; exact liveL_liveC hl
  have hI : ∀ i, (w.liveI i).map (fun p => (p.1.cif, p.2)) = some (c, s) → w.liveC c = some s := by
    intro i h0
    cases hl : w.liveI i with
    | none => simp [hl] at h0
    | some p => obtain ⟨e, s0⟩ := p; simp [hl] at h0; obtain ⟨rfl, rfl⟩ := h0; exact liveI_liveC hl
  cases op <;> simp only [target] at h <;>
    first
    | cases h
    | exact hC _ h
    | exact hH _ h
    | exact hL _ h
    | exact hI _ h
    | (split at h <;> first | cases h | exact hH _ h | exact hL _ h)

/-- whatever the statements executed before the failure did to the database (`mid` arbitrary), the function's failure handler
    brings the content back: ROLLBACK restores the BEGIN snapshot, ROLLBACK_NESTTX / ROLLBACK_TO the savepoint's (which stays on the
    stack: a snapshot of the unchanged content) -/
theorem failPath_same (op : Op) (s : Store) (mid : Db) : Same s (failPath op s mid) := by
  unfold failPath
  cases txClass op with
  | top =>
    simp only []
    cases hb : s.begin with
    | none => exact Same.refl s
    | some s1 => simp only []; rw [begin_rollback s s1 hb mid]; exact Same.refl s
  | nest =>
    simp only []
    unfold Store.beginNest
    by_cases ha : s.autocommit = true
    · simp only [ha, if_true]
      have : (({ ({ s with txn := some s.db } : Store) with db := mid } : Store).rollbackNest true) = s := by
        cases s with | mk db txn saves =>
        simp [Store.autocommit] at ha
        simp [Store.rollbackNest, Store.rollback, Store.autocommit, Store.outermost, ha]
      rw [this]; exact Same.refl _
    · have ha' : s.autocommit = false := by simpa using ha
      simp only [ha', Bool.false_eq_true, if_false, Store.rollbackNest]
      refine ⟨by simp [Store.save, Store.rollbackTo], by simp [Store.save, Store.rollbackTo], 1, by simp [Store.save, Store.rollbackTo, List.replicate], ?_⟩
      intro h; rw [ha'] at h; cases h
  | save =>
    simp only []
    by_cases ha : s.autocommit = true
    · simp only [ha, if_true]; exact Same.refl s
    · have ha' : s.autocommit = false := by simpa using ha
      simp only [ha', Bool.false_eq_true, if_false]
      refine ⟨by simp [Store.save, Store.rollbackTo], by simp [Store.save, Store.rollbackTo], 1, by simp [Store.save, Store.rollbackTo, List.replicate], ?_⟩
      intro h; rw [ha'] at h; cases h
  | opening =>
    simp only []
    have h0 := nestRO_same s (fun _ => (Except.ok () : Except Code Unit))
    cases hb : ((s.nestRO (fun _ => (Except.ok () : Except Code Unit))).1).begin with
    | none => exact h0
    | some s1 => simp only []; rw [begin_rollback _ s1 hb mid]; exact h0
  | stmt => exact Same.refl s

theorem wsim_setCif_right (w : World) (c : Nat) (s s' : Store) (hl : w.liveC c = some s) (h : Sim s s') : WSim w (w.setCif c s') := by
  refine ⟨rfl, rfl, rfl, by simp [setCif], ?_⟩
  intro c'
  simp only [setCif, getD_set_general]
  split
  · rename_i hc
    rw [hc.1]
    unfold liveC at hl
    rw [hl]; exact h
  · exact SlotRel.refl Sim.refl _

theorem faultCode_cases (m : Bool) : faultCode m = CIF_MEMORY_ERROR ∨ faultCode m = CIF_ERROR := by
  cases m <;> simp [faultCode]

end CifModel.Store
