import CifModel.Lemmas.ParseCBStartOnly
import CifModel.Spec.TraversalEventsAll
/-
  CifModel.Lemmas.ParseCBEventsAll — for EVERY handler program the structural interpreter `xDoc` (hence, by `doc_x`, the parse of a
  well-formed document) delivers exactly the callbacks of the formula `gDoc` (Spec/TraversalEventsAll.lean) and returns its result.
  Pattern of Lemmas/ParseCBStartOnly.lean: every production entered at depth 0 is characterised by its full final state
  (`endStR`: the callbacks appended, depth 1 after a SKIP_SIBLINGS) and its result (`endCodeR`).
-/
set_option linter.unusedSimpArgs false
set_option linter.unusedVariables false

namespace CifModel.Lemmas.ParseCB
open CifModel.ParseCB CifModel.Spec.Doc

def endStR (s : St) (d : DelR) : St :=
  match d.flow with
  | .sib => sk (adv s d.evs) 1
  | _ => adv s d.evs

def endCodeR (d : DelR) : Int :=
  match d.flow with
  | .stop r => r
  | _ => OK

/-- a stopping answer is never CIF_OK -/
def GoodR (d : DelR) : Prop := ∀ r, d.flow = .stop r → r ≠ OK

theorem endCodeR_go (l : List Ev) : endCodeR ⟨l, .go⟩ = OK := rfl
theorem endCodeR_sib (l : List Ev) : endCodeR ⟨l, .sib⟩ = OK := rfl
theorem endCodeR_stop (l : List Ev) (r : Int) : endCodeR ⟨l, .stop r⟩ = r := rfl
theorem endStR_go (s : St) (l : List Ev) : endStR s ⟨l, .go⟩ = adv s l := rfl
theorem endStR_sib (s : St) (l : List Ev) : endStR s ⟨l, .sib⟩ = sk (adv s l) 1 := rfl
theorem endStR_stop (s : St) (l : List Ev) (r : Int) : endStR s ⟨l, .stop r⟩ = adv s l := rfl
theorem goodR_go (l : List Ev) : GoodR ⟨l, .go⟩ := fun _ h => nomatch h
theorem goodR_sib (l : List Ev) : GoodR ⟨l, .sib⟩ := fun _ h => nomatch h
theorem goodR_stop (l : List Ev) (r : Int) (h : r ≠ OK) : GoodR ⟨l, .stop r⟩ := fun r' h' => by cases h'; exact h

theorem ansFlow_cont : ansFlow CONTINUE = .go := by decide
theorem ansFlow_cur : ansFlow SKIP_CURRENT = .go := by decide
theorem ansFlow_sib : ansFlow SKIP_SIBLINGS = .sib := by decide
theorem ansFlow_stop (r : Int) (h1 : r ≠ CONTINUE) (h2 : r ≠ SKIP_CURRENT) (h3 : r ≠ SKIP_SIBLINGS) : ansFlow r = .stop r := by
  simp [ansFlow, h1, h2, h3]

theorem goodR_ans (l : List Ev) (r : Int) : GoodR ⟨l, ansFlow r⟩ := by
  rcases ans4 r with h | h | h | ⟨h1, h2, h3⟩
  · rw [h, ansFlow_cont]; exact goodR_go l
  · rw [h, ansFlow_cur]; exact goodR_go l
  · rw [h, ansFlow_sib]; exact goodR_sib l
  · rw [ansFlow_stop r h1 h2 h3]; exact goodR_stop l r h1

theorem adv_push (s : St) (e : Ev) (he : e.isHandler = true) (l : List Ev) : adv (push s e) l = adv s (e :: l) := by
  rw [push_adv s e he, adv_adv]; rfl

variable {p : Prog}

/-- a callback answered at depth 0 whose SKIP_SIBLINGS sets the depth to 1 and whose SKIP_CURRENT changes nothing (items of a
    packet, packet_end, loop_end, block / frame end) -/
theorem leaf_g (p : Prog) (s : St) (e : Ev) (he : e.isHandler = true) (h0 : s.skip = 0) :
    (site p s e none (some 1)).1 = endCodeR ⟨[e], ansFlow (p s.n e)⟩
    ∧ (site p s e none (some 1)).2 = endStR s ⟨[e], ansFlow (p s.n e)⟩ := by
  rcases ans4 (p s.n e) with h | h | h | ⟨h1, h2, h3⟩
  · rw [site_cont p s _ _ _ h, h, ansFlow_cont]; exact ⟨rfl, push_adv s e he⟩
  · rw [site_cur p s _ _ _ h, h, ansFlow_cur]; exact ⟨rfl, push_adv s e he⟩
  · rw [site_sib p s _ _ _ h, h, ansFlow_sib, setSkip_sk, push_adv s e he]; exact ⟨rfl, rfl⟩
  · rw [site_stop' p s _ _ _ h1 h2 h3, ansFlow_stop _ h1 h2 h3]; exact ⟨rfl, push_adv s e he⟩

theorem xRow_g (p : Prog) (names : List Str) : ∀ (vals : List V) (col : Nat) (s : St), s.skip = 0 →
    col + vals.length ≤ names.length →
    (xRow p names col vals s).1 = endCodeR (gItems p (List.zip (names.drop col) vals) s.n)
    ∧ (xRow p names col vals s).2 = endStR s (gItems p (List.zip (names.drop col) vals) s.n)
    ∧ GoodR (gItems p (List.zip (names.drop col) vals) s.n)
  | [], col, s, _, _ => by simp [xRow, gItems, endCodeR, endStR, adv_nil, goodR_go]
  | v :: vs, col, s, h0, hl => by
    have hlt : col < names.length := by simp at hl; omega
    have hdrop : names.drop col = names[col] :: names.drop (col + 1) := by rw [List.drop_eq_getElem_cons hlt]
    have hget : names.getD col [] = names[col] := by simp [List.getD, hlt]
    have hc : (True ∧ s.skip ≤ 0) := ⟨trivial, by omega⟩
    rw [hdrop]
    simp only [xRow, itemStep, h0, Int.le_refl, and_self, if_true, hget, List.zip_cons_cons, gItems]
    have ih := fun (s' : St) (hs' : s'.skip = 0) => xRow_g p names vs (col + 1) s' hs' (by simp at hl ⊢; omega)
    rcases ans4 (p s.n (.item names[col] v)) with h | h | h | ⟨h1, h2, h3⟩
    · rw [site_cont p s _ _ _ h, h, ansFlow_cont]
      simp only [if_true]
      obtain ⟨a, b, g⟩ := ih (push s (.item names[col] v)) (by simp [h0])
      simp only [push_n] at a b g
      generalize gItems p (List.zip (names.drop (col + 1)) vs) (s.n + 1) = r at a b g ⊢
      rcases r with ⟨evs, fl⟩
      refine ⟨?_, ?_, ?_⟩
      · rw [a]; cases fl <;> rfl
      · rw [b]; cases fl <;> simp only [endStR, adv_push s (Ev.item names[col] v) rfl]
      · intro r hr; exact g r hr
    · rw [site_cur p s _ _ _ h, h, ansFlow_cur, setSkip_none]
      simp only [if_true]
      obtain ⟨a, b, g⟩ := ih (push s (.item names[col] v)) (by simp [h0])
      simp only [push_n] at a b g
      generalize gItems p (List.zip (names.drop (col + 1)) vs) (s.n + 1) = r at a b g ⊢
      rcases r with ⟨evs, fl⟩
      refine ⟨?_, ?_, ?_⟩
      · rw [a]; cases fl <;> rfl
      · rw [b]; cases fl <;> simp only [endStR, adv_push s (Ev.item names[col] v) rfl]
      · intro r hr; exact g r hr
    · rw [site_sib p s _ _ _ h, h, ansFlow_sib, setSkip_sk]
      simp only [if_true]
      rw [xRow_skipped p names vs (col + 1) _ (by simp)]
      exact ⟨rfl, by rw [endStR_sib, push_adv s _ rfl], goodR_sib _⟩
    · rw [site_stop' p s _ _ _ h1 h2 h3, ansFlow_stop _ h1 h2 h3]
      have hne : ¬ (p s.n (Ev.item names[col] v) = OK) := h1
      simp only [hne, if_false]
      exact ⟨rfl, by rw [endStR_stop, push_adv s _ rfl], goodR_stop _ _ h1⟩

theorem xPk_g (p : Prog) (names : List Str) (pk : List V) (s : St) (h0 : s.skip = 0) (hl : pk.length = names.length) :
    (xPk p names 0 [] pk s).1 = endCodeR (gPacket p names pk s.n)
    ∧ (xPk p names 0 [] pk s).2.1 = endStR s (gPacket p names pk s.n)
    ∧ GoodR (gPacket p names pk s.n) := by
  have hns : ¬ s.skip > 0 := by omega
  unfold xPk pktStartStep gPacket
  simp only [if_true, hns, if_false, List.nil_append]
  rcases ans4 (p s.n .pktStart) with h | h | h | ⟨h1, h2, h3⟩
  · rw [site_cont p s _ _ _ h]
    simp only [h, if_true, ne_eq, not_true_eq_false, if_false]
    obtain ⟨a, b, g⟩ := xRow_g p names pk 0 (push s .pktStart) (by simp [h0]) (by simp [hl])
    simp only [List.drop_zero, push_n] at a b g
    generalize gItems p (List.zip names pk) (s.n + 1) = r at a b g ⊢
    rcases r with ⟨evs, fl⟩
    cases fl with
    | go =>
      rw [endCodeR_go] at a; rw [endStR_go] at b
      simp only [a, b, ne_eq, not_true_eq_false, if_false, pktEndStep, adv_skip, push_skip, hns]
      obtain ⟨l1, l2⟩ := leaf_g p (adv (push s .pktStart) evs) (.pktEnd (List.zip names pk)) rfl (by simp [h0])
      have hn : (adv (push s Ev.pktStart) evs).n = s.n + 1 + hc evs := rfl
      rw [hn] at l1 l2
      refine ⟨l1, ?_, goodR_ans _ _⟩
      rw [l2]
      cases ansFlow (p (s.n + 1 + hc evs) (Ev.pktEnd (List.zip names pk))) <;>
        simp only [endStR, adv_adv, adv_push s Ev.pktStart rfl] <;> simp
    | sib =>
      rw [endCodeR_sib] at a; rw [endStR_sib] at b
      simp only [a, b, ne_eq, not_true_eq_false, if_false, pktEndStep, sk_skip, show (1 : Int) > 0 by decide, if_true]
      refine ⟨rfl, ?_, goodR_go _⟩
      rw [endStR_go, adv_push s Ev.pktStart rfl]
      show sk (sk _ 1) (1 - 1) = _
      rw [sk_sk]; exact sk_self _ _ (by simp [h0])
    | stop r =>
      rw [endCodeR_stop] at a; rw [endStR_stop] at b
      have hr : r ≠ OK := g r rfl
      simp only [a, b, hr, ne_eq, not_false_eq_true, if_true]
      exact ⟨rfl, by rw [endStR_stop, adv_push s Ev.pktStart rfl], goodR_stop _ _ hr⟩
  · rw [site_cur p s _ _ _ h]
    simp only [h, cur_ne_cont, if_false, ansFlow_cur, ne_eq, not_true_eq_false, setSkip_sk,
      xRow_skipped p names pk 0 (sk (push s Ev.pktStart) 1) (by simp)]
    simp only [ne_eq, not_true_eq_false, if_false, pktEndStep, sk_skip, show (1 : Int) > 0 by decide, if_true]
    refine ⟨rfl, ?_, goodR_go _⟩
    rw [endStR_go, push_adv s _ rfl]
    show sk (sk (adv s [Ev.pktStart]) 1) (1 - 1) = adv s [Ev.pktStart]
    rw [sk_sk]; exact sk_self _ _ (by simp [h0])
  · rw [site_sib p s _ _ _ h]
    simp only [h, sib_ne_cont, if_false, ansFlow_sib, ne_eq, not_true_eq_false, setSkip_sk,
      xRow_skipped p names pk 0 (sk (push s Ev.pktStart) 2) (by simp)]
    simp only [ne_eq, not_true_eq_false, if_false, pktEndStep, sk_skip, show (2 : Int) > 0 by decide, if_true]
    refine ⟨rfl, ?_, goodR_sib _⟩
    rw [endStR_sib, push_adv s _ rfl]
    show sk (sk (adv s [Ev.pktStart]) 2) (2 - 1) = sk (adv s [Ev.pktStart]) 1
    rw [sk_sk]; rfl
  · rw [site_stop' p s _ _ _ h1 h2 h3]
    have hne : ¬ (p s.n Ev.pktStart = OK) := h1
    simp only [h1, if_false, ansFlow_stop _ h1 h2 h3, hne, ne_eq, not_false_eq_true, if_true]
    exact ⟨rfl, by rw [endStR_stop, push_adv s _ rfl], goodR_stop _ _ h1⟩

theorem xPackets_g (p : Prog) (loopH : Bool) (names : List Str) : ∀ (pks : List (List V)) (s : St) (acc : List (List V)),
    s.skip = 0 → (∀ pk ∈ pks, pk.length = names.length) →
    (xPackets p loopH names pks s acc).1 = endCodeR (gPackets p names pks s.n)
    ∧ (xPackets p loopH names pks s acc).2.1 = endStR s (gPackets p names pks s.n)
    ∧ GoodR (gPackets p names pks s.n)
  | [], s, acc, _, _ => by simp [xPackets, gPackets, endCodeR, endStR, adv_nil, goodR_go]
  | pk :: pks, s, acc, h0, hl => by
    obtain ⟨a, b, g⟩ := xPk_g p names pk s h0 (hl pk (List.mem_cons_self ..))
    simp only [xPackets, gPackets]
    generalize hd : gPacket p names pk s.n = d at a b g
    rcases d with ⟨evs, fl⟩
    cases fl with
    | go =>
      rw [endCodeR_go] at a
      rw [endStR_go] at b
      simp only [a, b, ne_eq, not_true_eq_false, if_false]
      have ih := xPackets_g p loopH names pks (adv s evs)
        (if (xPk p names 0 [] pk s).2.2 && loopH then acc ++ [pk] else acc) (by simp [h0])
        (fun q hq => hl q (List.mem_cons_of_mem _ hq))
      rw [adv_n_hc] at ih
      obtain ⟨i1, i2, i3⟩ := ih
      generalize gPackets p names pks (s.n + hc evs) = r at i1 i2 i3 ⊢
      rcases r with ⟨evs2, fl2⟩
      refine ⟨?_, ?_, ?_⟩
      · rw [i1]; cases fl2 <;> rfl
      · rw [i2]; cases fl2 <;> simp [endStR, adv_adv]
      · intro r hr; exact i3 r hr
    | sib =>
      rw [endCodeR_sib] at a
      rw [endStR_sib] at b
      simp only [a, b, ne_eq, not_true_eq_false, if_false]
      rw [xPackets_skipped p loopH names pks _ _ (by simp)]
      exact ⟨rfl, rfl, goodR_sib _⟩
    | stop r =>
      rw [endCodeR_stop] at a
      rw [endStR_stop] at b
      have hr : r ≠ OK := g r rfl
      simp only [a, b, hr, ne_eq, not_false_eq_true, if_true]
      exact ⟨rfl, rfl, goodR_stop _ _ hr⟩

/-- a loop element (from its `loop_` keyword on) -/
theorem xLoopElem_g (p : Prog) (cont : Bool) (names : List Str) (pks : List (List V)) (s : St) (c : Content)
    (h0 : s.skip = 0) (hl : ∀ pk ∈ pks, pk.length = names.length) :
    (xElem p cont (.loop names pks) s c).1 = endCodeR (gElem p cont (.loop names pks) s.n)
    ∧ (xElem p cont (.loop names pks) s c).2.1 = endStR s (gElem p cont (.loop names pks) s.n)
    ∧ GoodR (gElem p cont (.loop names pks) s.n) := by
  have hle : s.skip ≤ 0 := by omega
  have hn0 : (note s (Ev.keyword [])).skip = 0 := h0
  simp only [xElem, hle, if_true, xLoop, inc0 _ hn0, kHeader_allCont names _ hn0, loopStartStep, adv_skip, gElem, gLoop]
  have hnn : (adv (note s (Ev.keyword [])) (names.map Ev.dataname)).n = s.n := by
    simp [adv, hs, ParseCB.note, Ev.isHandler]
  have hsk : (adv (note s (Ev.keyword [])) (names.map Ev.dataname)).skip = 0 := h0
  have hle2 : (note s (Ev.keyword [])).skip ≤ 0 := by rw [hn0]; decide
  simp only [hle2, if_true]
  generalize hS : adv (note s (Ev.keyword [])) (names.map Ev.dataname) = S at hnn hsk
  have hSadv : ∀ l, adv S l = adv s (Ev.keyword [] :: (names.map Ev.dataname ++ l)) := by
    intro l; rw [← hS, note_adv _ _ rfl, adv_adv, adv_adv]; rfl
  have hns : ¬ S.skip > 0 := by omega
  rw [← hnn]
  rcases ans4 (p S.n (.loopStart names)) with h | h | h | ⟨h1, h2, h3⟩
  · rw [site_cont p S _ _ _ h]
    simp only [h, if_true, decide_true, Bool.and_true]
    obtain ⟨a, b, g⟩ := xPackets_g p cont names pks (push S (.loopStart names)) [] (by simp [hsk]) hl
    simp only [push_n] at a b g
    generalize gPackets p names pks (S.n + 1) = r at a b g ⊢
    rcases r with ⟨evs, fl⟩
    cases fl with
    | go =>
      rw [endCodeR_go] at a; rw [endStR_go] at b
      simp only [a, b, loopEndStep, adv_skip, push_skip, hns, if_false, if_true]
      obtain ⟨l1, l2⟩ := leaf_g p (adv (push S (.loopStart names)) evs) (.loopEnd (if cont = true then some names else none)) rfl
        (by simp [hsk])
      have hn : (adv (push S (Ev.loopStart names)) evs).n = S.n + 1 + hc evs := rfl
      rw [hn] at l1 l2
      refine ⟨l1, ?_, goodR_ans _ _⟩
      rw [l2]
      cases ansFlow (p (S.n + 1 + hc evs) (Ev.loopEnd (if cont = true then some names else none))) <;>
        simp only [endStR, adv_adv, adv_push S (Ev.loopStart names) rfl, hSadv] <;> simp
    | sib =>
      rw [endCodeR_sib] at a; rw [endStR_sib] at b
      simp only [a, b, loopEndStep, sk_skip, show (1 : Int) > 0 by decide, if_true]
      refine ⟨rfl, ?_, goodR_go _⟩
      rw [endStR_go, adv_push S (Ev.loopStart names) rfl, hSadv]
      show sk (sk _ 1) (1 - 1) = _
      rw [sk_sk]
      exact sk_self _ _ (by simp [h0])
    | stop r =>
      rw [endCodeR_stop] at a; rw [endStR_stop] at b
      have hr : r ≠ OK := g r rfl
      simp only [a, b, loopEndStep, adv_skip, push_skip, hns, if_false, hr]
      refine ⟨rfl, ?_, goodR_stop _ _ hr⟩
      rw [endStR_stop, adv_push S (Ev.loopStart names) rfl, hSadv]
  · rw [site_cur p S _ _ _ h]
    simp only [h, cur_ne_cont, if_false, ansFlow_cur, decide_false, Bool.and_false, decide_true, if_true, setSkip_sk,
      Bool.false_eq_true]
    rw [xPackets_skipped p false names pks _ [] (by simp)]
    simp only [loopEndStep, sk_skip, show (1 : Int) > 0 by decide, if_true]
    refine ⟨rfl, ?_, goodR_go _⟩
    rw [endStR_go, push_adv S _ rfl, hSadv]
    show sk (sk _ 1) (1 - 1) = _
    rw [sk_sk]
    exact sk_self _ _ (by simp [h0])
  · rw [site_sib p S _ _ _ h]
    simp only [h, sib_ne_cont, if_false, ansFlow_sib, decide_false, Bool.and_false, decide_true, if_true, setSkip_sk,
      Bool.false_eq_true]
    rw [xPackets_skipped p false names pks _ [] (by simp)]
    simp only [loopEndStep, sk_skip, show (2 : Int) > 0 by decide, if_true]
    refine ⟨rfl, ?_, goodR_sib _⟩
    rw [endStR_sib, push_adv S _ rfl, hSadv]
    show sk (sk _ 2) (2 - 1) = _
    rw [sk_sk]
    rfl
  · rw [site_stop' p S _ _ _ h1 h2 h3]
    have hne : ¬ (p S.n (Ev.loopStart names) = OK) := h1
    simp only [h1, if_false, ansFlow_stop _ h1 h2 h3, hne, decide_false, Bool.and_false, Bool.false_eq_true,
      loopEndStep, push_skip, hns]
    refine ⟨rfl, ?_, goodR_stop _ _ h1⟩
    rw [endStR_stop, push_adv S _ rfl, hSadv]

/-- parse_container at depth 0, given the statement for its body -/
theorem xCont_g (p : Prog) (fc isBlock : Bool) (code : Str) (body : List Elem) (s : St) (h0 : s.skip = 0)
    (ihb : ∀ s' : St, s'.skip = 0 →
      (xElems p fc body s' .empty).1 = endCodeR (gElems p fc body s'.n)
      ∧ (xElems p fc body s' .empty).2.1 = endStR s' (gElems p fc body s'.n)
      ∧ GoodR (gElems p fc body s'.n)) :
    (xCont p fc isBlock code body s).1 = endCodeR (wrapContG p (cS isBlock fc code) (cE isBlock fc code) s.n (gElems p fc body (s.n + 1)))
    ∧ (xCont p fc isBlock code body s).2.1
        = endStR s (wrapContG p (cS isBlock fc code) (cE isBlock fc code) s.n (gElems p fc body (s.n + 1)))
    ∧ GoodR (wrapContG p (cS isBlock fc code) (cE isBlock fc code) s.n (gElems p fc body (s.n + 1))) := by
  have hns : ¬ s.skip > 0 := by omega
  have hstart : contStartStep p fc isBlock code s = site p s (cS isBlock fc code) (some 1) (some 2) := by
    unfold contStartStep cS
    simp only [hns, if_false]
  -- the end of a container reached with CIF_OK at depth 0: the end callback and its answer
  have hendC : ∀ (X : St) (c : Content), X.skip = 0 →
      (containerEnd p fc isBlock code OK X c).1 = endCodeR ⟨[cE isBlock fc code], ansFlow (p X.n (cE isBlock fc code))⟩
      ∧ (containerEnd p fc isBlock code OK X c).2.1 = endStR X ⟨[cE isBlock fc code], ansFlow (p X.n (cE isBlock fc code))⟩ := by
    intro X c hX
    unfold containerEnd
    rw [dec0 X hX, if_pos (⟨rfl, by omega⟩ : OK = OK ∧ X.skip ≤ 0)]
    exact leaf_g p X (cE isBlock fc code) (cE_handler ..) hX
  have hendStop : ∀ (r : Int) (X : St) (c : Content), r ≠ OK → X.skip = 0 →
      (containerEnd p fc isBlock code r X c).1 = r ∧ (containerEnd p fc isBlock code r X c).2.1 = X := by
    intro r X c hr hX
    rw [containerEnd_stop p fc isBlock code r X c hr]
    exact ⟨rfl, dec0 X hX⟩
  unfold xCont wrapContG
  rw [hstart]
  rcases ans4 (p s.n (cS isBlock fc code)) with h | h | h | ⟨h1, h2, h3⟩
  · rw [site_cont p s _ _ _ h]
    simp only [h, if_true, ne_eq, not_true_eq_false, if_false]
    obtain ⟨a, b, g⟩ := ihb (push s (cS isBlock fc code)) (by simp [h0])
    simp only [push_n] at a b g
    generalize gElems p fc body (s.n + 1) = r at a b g ⊢
    rcases r with ⟨evs, fl⟩
    have hn : (adv (push s (cS isBlock fc code)) evs).n = s.n + 1 + hc evs := rfl
    cases fl with
    | go =>
      rw [endCodeR_go] at a; rw [endStR_go] at b
      rw [a, b]
      obtain ⟨e1, e2⟩ := hendC (adv (push s (cS isBlock fc code)) evs) (xElems p fc body (push s (cS isBlock fc code)) Content.empty).2.2
        (by simp [h0])
      rw [hn] at e1 e2
      refine ⟨e1, ?_, goodR_ans _ _⟩
      rw [e2]
      cases ansFlow (p (s.n + 1 + hc evs) (cE isBlock fc code)) <;>
        simp only [endStR, adv_adv, adv_push s (cS isBlock fc code) (cS_handler ..)] <;> simp
    | sib =>
      rw [endCodeR_sib] at a; rw [endStR_sib] at b
      rw [a, b]
      have hce : ∀ c, containerEnd p fc isBlock code OK (sk (adv (push s (cS isBlock fc code)) evs) 1) c
          = containerEnd p fc isBlock code OK (adv (push s (cS isBlock fc code)) evs) c := by
        intro c
        unfold containerEnd
        rw [dec_sk_pos _ 1 (by decide), dec0 (adv (push s (cS isBlock fc code)) evs) (by simp [h0])]
        have : sk (adv (push s (cS isBlock fc code)) evs) (1 - 1) = adv (push s (cS isBlock fc code)) evs :=
          sk_self _ _ (by simp [h0])
        rw [this]
      rw [hce]
      obtain ⟨e1, e2⟩ := hendC (adv (push s (cS isBlock fc code)) evs) (xElems p fc body (push s (cS isBlock fc code)) Content.empty).2.2
        (by simp [h0])
      rw [hn] at e1 e2
      refine ⟨e1, ?_, goodR_ans _ _⟩
      rw [e2]
      cases ansFlow (p (s.n + 1 + hc evs) (cE isBlock fc code)) <;>
        simp only [endStR, adv_adv, adv_push s (cS isBlock fc code) (cS_handler ..)] <;> simp
    | stop r =>
      rw [endCodeR_stop] at a; rw [endStR_stop] at b
      have hr : r ≠ OK := g r rfl
      rw [a, b]
      obtain ⟨e1, e2⟩ := hendStop r (adv (push s (cS isBlock fc code)) evs)
        (xElems p fc body (push s (cS isBlock fc code)) Content.empty).2.2 hr (by simp [h0])
      exact ⟨e1, by rw [e2, endStR_stop, adv_push s _ (cS_handler ..)], goodR_stop _ _ hr⟩
  · rw [site_cur p s _ _ _ h]
    simp only [h, cur_ne_cont, if_false, if_true, ne_eq, not_true_eq_false, setSkip_sk]
    rw [xElems_skipped p fc body _ _ (by simp)]
    have hce : ∀ c, containerEnd p fc isBlock code OK (sk (push s (cS isBlock fc code)) 1) c
        = containerEnd p fc isBlock code OK (push s (cS isBlock fc code)) c := by
      intro c
      unfold containerEnd
      rw [dec_sk_pos _ 1 (by decide), dec0 (push s (cS isBlock fc code)) (by simp [h0])]
      have : sk (push s (cS isBlock fc code)) (1 - 1) = push s (cS isBlock fc code) := sk_self _ _ (by simp [h0])
      rw [this]
    rw [hce]
    obtain ⟨e1, e2⟩ := hendC (push s (cS isBlock fc code)) Content.empty (by simp [h0])
    simp only [push_n] at e1 e2
    refine ⟨e1, ?_, goodR_ans _ _⟩
    rw [e2]
    cases ansFlow (p (s.n + 1) (cE isBlock fc code)) <;>
      simp only [endStR, adv_push s (cS isBlock fc code) (cS_handler ..)]
  · rw [site_sib p s _ _ _ h]
    simp only [h, sib_ne_cont, sib_ne_cur, if_false, ansFlow_sib, ne_eq, not_true_eq_false, setSkip_sk]
    rw [xElems_skipped p fc body _ _ (by simp)]
    unfold containerEnd
    rw [dec_sk_pos _ 2 (by decide)]
    have hc : ¬ (OK = OK ∧ (sk (push s (cS isBlock fc code)) (2 - 1)).skip ≤ 0) := by
      intro h; have := h.2; simp at this
    rw [if_neg hc, endCodeR_sib, endStR_sib]
    refine ⟨rfl, ?_, goodR_sib _⟩
    rw [push_adv s _ (cS_handler ..)]
    rfl
  · rw [site_stop' p s _ _ _ h1 h2 h3]
    have hne : ¬ (p s.n (cS isBlock fc code) = OK) := h1
    simp only [h1, h2, if_false, ansFlow_stop _ h1 h2 h3, hne, ne_eq, not_false_eq_true, if_true]
    obtain ⟨e1, e2⟩ := hendStop (p s.n (cS isBlock fc code)) (push s (cS isBlock fc code)) Content.empty h1 (by simp [h0])
    exact ⟨e1, by rw [e2, endStR_stop, push_adv s _ (cS_handler ..)], goodR_stop _ _ h1⟩

mutual
  theorem xElem_g (p : Prog) (cont : Bool) : ∀ (e : Elem) (a : Bool) (s : St) (c : Content), s.skip = 0 → wfElem a e = true →
      (xElem p cont e s c).1 = endCodeR (gElem p cont e s.n)
      ∧ (xElem p cont e s c).2.1 = endStR s (gElem p cont e s.n)
      ∧ GoodR (gElem p cont e s.n)
    | .item nm v, a, s, c, h0, _ => by
      have hns : ¬ s.skip > 0 := by omega
      have hnote : (note s (Ev.dataname nm)).skip = 0 := h0
      have hnn : (note s (Ev.dataname nm)).n = s.n := rfl
      simp only [xElem, hns, if_false, inc0 _ hnote, scalarItemStep, gElem]
      rw [← hnn]
      rcases ans4 (p (note s (Ev.dataname nm)).n (.item nm v)) with h | h | h | ⟨h1, h2, h3⟩
      · rw [site_cont p _ _ _ _ h, h, ansFlow_cont]
        refine ⟨rfl, ?_, goodR_go _⟩
        rw [endStR_go, dec0 _ (by simpa using hnote), note_adv _ _ rfl, push_adv _ _ rfl, adv_adv]
        rfl
      · rw [site_cur p _ _ _ _ h, h, ansFlow_cur, setSkip_none]
        refine ⟨rfl, ?_, goodR_go _⟩
        rw [endStR_go, dec0 _ (by simpa using hnote), note_adv _ _ rfl, push_adv _ _ rfl, adv_adv]
        rfl
      · rw [site_sib p _ _ _ _ h, h, ansFlow_sib, setSkip_sk]
        refine ⟨rfl, ?_, goodR_sib _⟩
        rw [endStR_sib, dec_sk_pos _ 2 (by decide), note_adv _ _ rfl, push_adv _ _ rfl, adv_adv]
        rfl
      · rw [site_stop' p _ _ _ _ h1 h2 h3, ansFlow_stop _ h1 h2 h3]
        refine ⟨rfl, ?_, goodR_stop _ _ h1⟩
        rw [endStR_stop, dec0 _ (by simpa using hnote), note_adv _ _ rfl, push_adv _ _ rfl, adv_adv]
        rfl
    | .loop names pks, a, s, c, h0, hw => by
      obtain ⟨_, _, hall⟩ := loop_wf_all names pks hw
      exact xLoopElem_g p cont names pks s c h0 (fun pk h => (hall pk h).2.1)
    | .frame code body, a, s, c, h0, hw => by
      have hb : wfElems false body = true := by
        simp only [wfElem, Bool.and_eq_true] at hw; exact hw.2
      have hfc : (!decide ((!cont) = true ∨ s.skip > 0)) = cont := by
        have hns : ¬ s.skip > 0 := by omega
        cases cont <;> simp [hns]
      rw [xElem_frame]
      simp only [hfc]
      have := xCont_g p cont false code body s h0 (fun s' hs' => xElems_g p cont body false s' .empty hs' hb)
      simp only [gElem]
      exact this
  theorem xElems_g (p : Prog) (cont : Bool) : ∀ (es : List Elem) (a : Bool) (s : St) (c : Content), s.skip = 0 →
      wfElems a es = true →
      (xElems p cont es s c).1 = endCodeR (gElems p cont es s.n)
      ∧ (xElems p cont es s c).2.1 = endStR s (gElems p cont es s.n)
      ∧ GoodR (gElems p cont es s.n)
    | [], a, s, c, _, _ => by simp [xElems, gElems, endCodeR, endStR, adv_nil, goodR_go]
    | e :: es, a, s, c, h0, hw => by
      simp only [wfElems, Bool.and_eq_true] at hw
      obtain ⟨x1, x2, x3⟩ := xElem_g p cont e a s c h0 hw.1
      simp only [xElems, gElems]
      generalize gElem p cont e s.n = d at x1 x2 x3 ⊢
      rcases d with ⟨evs, fl⟩
      cases fl with
      | go =>
        rw [endCodeR_go] at x1; rw [endStR_go] at x2
        simp only [x1, if_true, x2]
        have ih := xElems_g p cont es a (adv s evs) (xElem p cont e s c).2.2 (by simp [h0]) hw.2
        rw [adv_n_hc] at ih
        obtain ⟨i1, i2, i3⟩ := ih
        generalize gElems p cont es (s.n + hc evs) = r at i1 i2 i3 ⊢
        rcases r with ⟨evs2, fl2⟩
        refine ⟨?_, ?_, ?_⟩
        · rw [i1]; cases fl2 <;> rfl
        · rw [i2]; cases fl2 <;> simp [endStR, adv_adv]
        · intro r hr; exact i3 r hr
      | sib =>
        rw [endCodeR_sib] at x1; rw [endStR_sib] at x2
        simp only [x1, if_true, x2]
        rw [xElems_skipped p cont es _ _ (by simp)]
        exact ⟨rfl, rfl, goodR_sib _⟩
      | stop r =>
        rw [endCodeR_stop] at x1; rw [endStR_stop] at x2
        have hr : r ≠ OK := x3 r rfl
        simp only [x1, hr, if_false]
        exact ⟨rfl, x2, goodR_stop _ _ hr⟩
end

theorem xBlocks_g (p : Prog) (cif : Bool) : ∀ (d : Doc) (s : St) (acc : List Container), s.skip = 0 → wfDoc d = true →
    (xBlocks p cif d s acc).1 = endCodeR (gBlocks p cif d s.n)
    ∧ (xBlocks p cif d s acc).2.1 = endStR s (gBlocks p cif d s.n)
    ∧ GoodR (gBlocks p cif d s.n)
  | [], s, acc, _, _ => by simp [xBlocks, gBlocks, endCodeR, endStR, adv_nil, goodR_go]
  | b :: bs, s, acc, h0, hw => by
    simp only [wfDoc, List.all_cons, Bool.and_eq_true] at hw
    have hbs : wfDoc bs = true := by simpa [wfDoc] using hw.2
    have hbc : (cif && decide (s.skip ≤ 0)) = cif := by
      have : s.skip ≤ 0 := by omega
      simp [this]
    obtain ⟨x1, x2, x3⟩ := xCont_g p cif true b.code b.body s h0 (fun s' hs' => xElems_g p cif b.body true s' .empty hs' hw.1)
    simp only [xBlocks, hbc, gBlocks, gBlock]
    have hS : cS true cif b.code = Ev.blockStart (if cif then some b.code else none) := rfl
    have hE : cE true cif b.code = Ev.blockEnd (if cif then some b.code else none) := rfl
    rw [hS, hE] at x1 x2 x3
    generalize wrapContG p (Ev.blockStart (if cif = true then some b.code else none)) (Ev.blockEnd (if cif = true then some b.code else none))
      s.n (gElems p cif b.body (s.n + 1)) = d at x1 x2 x3 ⊢
    rcases d with ⟨evs, fl⟩
    cases fl with
    | go =>
      rw [endCodeR_go] at x1; rw [endStR_go] at x2
      simp only [x1, if_true, x2]
      have ih := xBlocks_g p cif bs (adv s evs)
        (if cif = true then acc ++ [Container.mk b.code (xCont p cif true b.code b.body s).2.2.frames (xCont p cif true b.code b.body s).2.2.loops]
          else acc) (by simp [h0]) hbs
      rw [adv_n_hc] at ih
      obtain ⟨i1, i2, i3⟩ := ih
      generalize gBlocks p cif bs (s.n + hc evs) = r at i1 i2 i3 ⊢
      rcases r with ⟨evs2, fl2⟩
      refine ⟨?_, ?_, ?_⟩
      · rw [i1]; cases fl2 <;> rfl
      · rw [i2]; cases fl2 <;> simp [endStR, adv_adv]
      · intro r hr; exact i3 r hr
    | sib =>
      rw [endCodeR_sib] at x1; rw [endStR_sib] at x2
      simp only [x1, if_true, x2]
      rw [xBlocks_skipped p cif bs _ _ (by simp)]
      exact ⟨rfl, rfl, goodR_sib _⟩
    | stop r =>
      rw [endCodeR_stop] at x1; rw [endStR_stop] at x2
      have hr : r ≠ OK := x3 r rfl
      simp only [x1, hr, if_false, x2]
      exact ⟨rfl, rfl, goodR_stop _ _ hr⟩

theorem cifEnd_ok_g (p : Prog) (cif : Bool) (X : St) :
    cifEndStep p cif OK X = (posOr (p (dec X).n (.cifEnd cif)), push (dec X) (.cifEnd cif)) := by
  unfold cifEndStep posOr
  simp only [if_true]

theorem cifEnd_stop_g (p : Prog) (cif : Bool) (r : Int) (X : St) (hr : r ≠ OK) : cifEndStep p cif r X = (posOr r, dec X) := by
  unfold cifEndStep posOr
  simp only [hr, if_false]

/-- **the callbacks of the structural interpreter and its result are `gDoc`, for every program** -/
theorem xDoc_g (p : Prog) (cif : Bool) (d : Doc) (hw : wfDoc d = true) :
    (xDoc p cif d (St.init [])).2.1.log.reverse = (gDoc p cif d).1 ∧ (xDoc p cif d (St.init [])).1 = (gDoc p cif d).2 := by
  have h0 : (St.init []).skip = 0 := rfl
  have hn0 : (St.init []).n = 0 := rfl
  have hlog : ∀ l, (adv (St.init []) l).log.reverse = l := by intro l; simp [adv, St.init]
  unfold xDoc gDoc
  rw [hn0]
  rcases ans4 (p 0 (.cifStart cif)) with h | h | h | ⟨h1, h2, h3⟩
  · rw [site_cont p _ _ _ _ (by rw [hn0]; exact h)]
    simp only [h, show ¬ (CONTINUE = END) by decide, if_false, if_true]
    obtain ⟨x1, x2, x3⟩ := xBlocks_g p cif d (push (St.init []) (.cifStart cif)) [] (by simp [h0]) hw
    simp only [push_n, hn0, Nat.zero_add] at x1 x2 x3
    generalize gBlocks p cif d 1 = r at x1 x2 x3 ⊢
    rcases r with ⟨evs, fl⟩
    cases fl with
    | go =>
      rw [endCodeR_go] at x1; rw [endStR_go] at x2
      rw [x1, x2, cifEnd_ok_g]
      have hn : (dec (adv (push (St.init []) (Ev.cifStart cif)) evs)).n = 1 + hc evs := by
        rw [dec_n]; show (St.init []).n + 1 + hc evs = 1 + hc evs; rw [hn0]
      refine ⟨?_, by rw [hn]⟩
      rw [dec0 _ (by simp [h0]), push_adv _ (.cifStart cif) rfl, push_adv _ (.cifEnd cif) rfl, adv_adv, adv_adv, hlog]
      simp
    | sib =>
      rw [endCodeR_sib] at x1; rw [endStR_sib] at x2
      rw [x1, x2, cifEnd_ok_g]
      have hn : (dec (sk (adv (push (St.init []) (Ev.cifStart cif)) evs) 1)).n = 1 + hc evs := by
        rw [dec_n]; show (St.init []).n + 1 + hc evs = 1 + hc evs; rw [hn0]
      refine ⟨?_, by rw [hn]⟩
      show (Ev.cifEnd cif :: (dec (sk (adv (push (St.init []) (Ev.cifStart cif)) evs) 1)).log).reverse = _
      rw [dec_log]
      show (Ev.cifEnd cif :: (adv (push (St.init []) (Ev.cifStart cif)) evs).log).reverse = _
      rw [push_adv _ (.cifStart cif) rfl, adv_adv]
      simp [adv, St.init]
    | stop r =>
      rw [endCodeR_stop] at x1; rw [endStR_stop] at x2
      have hr : r ≠ OK := x3 r rfl
      rw [x1, x2, cifEnd_stop_g p cif r _ hr]
      refine ⟨?_, rfl⟩
      rw [dec_log, push_adv _ (.cifStart cif) rfl, adv_adv, hlog]
      simp
  · rw [site_cur p _ _ _ _ (by rw [hn0]; exact h)]
    simp only [h, show ¬ (SKIP_CURRENT = END) by decide, cur_ne_cont, if_false, if_true, setSkip_sk, true_or]
    rw [xBlocks_skipped p cif d _ [] (by simp), cifEnd_ok_g]
    refine ⟨?_, ?_⟩
    · show (Ev.cifEnd cif :: (dec (sk (push (St.init []) (Ev.cifStart cif)) 1)).log).reverse = _
      rw [dec_log]
      rfl
    · rw [dec_n]; rfl
  · rw [site_sib p _ _ _ _ (by rw [hn0]; exact h)]
    simp only [h, show ¬ (SKIP_SIBLINGS = END) by decide, sib_ne_cont, if_false, if_true, setSkip_sk, or_true]
    rw [xBlocks_skipped p cif d _ [] (by simp), cifEnd_ok_g]
    refine ⟨?_, ?_⟩
    · show (Ev.cifEnd cif :: (dec (sk (push (St.init []) (Ev.cifStart cif)) 1)).log).reverse = _
      rw [dec_log]
      rfl
    · rw [dec_n]; rfl
  · have hnc : ¬ (p 0 (.cifStart cif) = SKIP_CURRENT ∨ p 0 (.cifStart cif) = SKIP_SIBLINGS) := by
      intro hh; rcases hh with hh | hh
      · exact h2 hh
      · exact h3 hh
    by_cases hend : p 0 (.cifStart cif) = END
    · simp only [hend, if_true, end_ne_cont, if_false, show ¬ (END = SKIP_CURRENT ∨ END = SKIP_SIBLINGS) by decide]
      exact ⟨rfl, by decide⟩
    · rw [site_stop' p _ _ _ _ (by rw [hn0]; exact h1) (by rw [hn0]; exact h2) (by rw [hn0]; exact h3)]
      have hne : ¬ (p 0 (Ev.cifStart cif) = OK) := h1
      simp only [hend, h1, hnc, hne, if_false, hn0]
      rw [cifEnd_stop_g p cif _ _ h1]
      exact ⟨by rw [dec_log]; rfl, rfl⟩

end CifModel.Lemmas.ParseCB
