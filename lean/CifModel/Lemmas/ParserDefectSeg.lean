import CifModel.Lemmas.ParserDefect
/-
  Lemmas/ParserDefectSeg (group gW) — a CALCULUS OF SEGMENTS of the element loop of parse_container.

  Every token-level class theorem of property C12 (`C12_<class>_at`, Props/C12 and Props/C12Lex) has the same shape: from any
  scanner state that feeds the tokens `T` of "well-formed run, defective construct, well-formed run" the element loop of the
  container under construction runs to the token behind `T`, having logged exactly one report (code, position `RepAt` on the
  scanner's walk) and having turned the content `(fs, ls)` of the container into `(fs', ls')`.  `Seg` is that shape with a LIST of
  reports (document order; the empty list = a well-formed run), and the lemmas below compose segments:

    * `Seg.comp`   — one segment after the other in the same container: reports of both, in document order, the positions of
                     the second shifted by the length of the first, content = the second applied to the result of the first
                     (⇒ `C12_two_defects`, and by iteration any number of defects in different elements of one container);
    * `Seg.frame`  — a segment inside a SAVE FRAME `save_fc … save_` is a segment of the enclosing container (block, or frame at
                     any depth when frames nest): same reports one token later, the frame (pruned of empty loops when it ends)
                     appended to the frames of the host;
    * `Seg.elems`  — a well-formed run of elements (items, loops, nested frames) is a segment without report (`elemsV_at`);
    * `Seg.one`    — an `_at` statement is a segment with one report.
-/
set_option linter.unusedSimpArgs false

namespace CifModel.Model.Parser
open CifModel CifModel.Model CifModel.Model.Lexer CifModel.Spec.Grammar CifModel.Spec.Lexical
open CifModel.Gen.ErrCodes

/-- the reports `rs` (in document order) are the specified ones: code, and position on the scanner's walk from `s` -/
def RepsAt (o : Opts) (s : PS) : List Report → List (Code × Nat) → Prop
  | [], [] => True
  | r :: rs, cj :: sp => r.code = cj.1 ∧ RepAt o s cj.2 r ∧ RepsAt o s rs sp
  | [], _ :: _ => False
  | _ :: _, [] => False

/-- the positions of a specification, `k` tokens further -/
def shiftSpec (k : Nat) (sp : List (Code × Nat)) : List (Code × Nat) := sp.map fun cj => (cj.1, k + cj.2)

theorem RepsAt.shift {o : Opts} {s s1 : PS} {k : Nat} (h : At o s k s1) : ∀ {rs : List Report} {sp : List (Code × Nat)},
    RepsAt o s1 rs sp → RepsAt o s rs (shiftSpec k sp)
  | [], [], _ => trivial
  | _ :: _, _ :: _, ⟨hc, hr, ht⟩ => ⟨hc, RepAt.shift h hr, RepsAt.shift h ht⟩
  | [], _ :: _, hf => hf.elim
  | _ :: _, [], hf => hf.elim

theorem RepsAt.append {o : Opts} {s : PS} : ∀ {rs1 rs2 : List Report} {sp1 sp2 : List (Code × Nat)},
    RepsAt o s rs1 sp1 → RepsAt o s rs2 sp2 → RepsAt o s (rs1 ++ rs2) (sp1 ++ sp2)
  | [], _, [], _, _, h2 => h2
  | _ :: _, _, _ :: _, _, ⟨hc, hr, ht⟩, h2 => ⟨hc, hr, RepsAt.append ht h2⟩
  | [], _, _ :: _, _, hf, _ => hf.elim
  | _ :: _, _, [], _, hf, _ => hf.elim

theorem RepsAt.length {o : Opts} {s : PS} : ∀ {rs : List Report} {sp : List (Code × Nat)}, RepsAt o s rs sp → rs.length = sp.length
  | [], [], _ => rfl
  | _ :: _, _ :: _, ⟨_, _, ht⟩ => by simp [RepsAt.length ht]
  | [], _ :: _, hf => hf.elim
  | _ :: _, [], hf => hf.elim

theorem RepsAt.codes {o : Opts} {s : PS} : ∀ {rs : List Report} {sp : List (Code × Nat)}, RepsAt o s rs sp →
    rs.map (·.code) = sp.map (·.1)
  | [], [], _ => rfl
  | _ :: _, _ :: _, ⟨hc, _, ht⟩ => by simp [hc, RepsAt.codes ht]
  | [], _ :: _, hf => hf.elim
  | _ :: _, [], hf => hf.elim

theorem RepsAt.one {o : Opts} {s : PS} {r : Report} {C : Code} {j : Nat} (hc : r.code = C) (hr : RepAt o s j r) :
    RepsAt o s [r] [(C, j)] := ⟨hc, hr, trivial⟩

theorem RepsAt.two {o : Opts} {s : PS} {rs : List Report} {C1 C2 : Code} {j1 j2 : Nat} (h : RepsAt o s rs [(C1, j1), (C2, j2)]) :
    ∃ r1 r2, rs = [r1, r2] ∧ r1.code = C1 ∧ RepAt o s j1 r1 ∧ r2.code = C2 ∧ RepAt o s j2 r2 := by
  cases rs with
  | nil => exact h.elim
  | cons r1 t =>
    cases t with
    | nil => exact h.2.2.elim
    | cons r2 t2 =>
      cases t2 with
      | nil => exact ⟨r1, r2, rfl, h.1, h.2.1, h.2.2.1, h.2.2.2.1⟩
      | cons _ _ => exact h.2.2.2.2.elim

/-- the next token ends an item / a packet run: a data name, a keyword, a header, `save_`, the end of the input -/
def termFollow (rest : List TokSpec) : Prop := ∃ ty tx ts, rest = (ty, tx) :: ts ∧ isTerminator ty = true

/-- **a segment of the element loop** of the container `code` seen through `put` (a data block, or a save frame at any depth):
    over the tokens `T`, whatever follows them (`follow`), with `need` levels of fuel to spare, the loop uses `k` levels, logs the
    reports `sp` (codes and positions, document order) and nothing else, turns the content `(fs, ls)` into `(fs', ls')`, and
    ends `n` tokens further on the scanner's walk in a state that feeds what follows -/
def Seg (o : Opts) (path : Path) (put : Container → Cif) (code : Str) (isBlock : Bool) (T : List TokSpec)
    (fs : List Container) (ls : List Loop) (fs' : List Container) (ls' : List Loop)
    (sp : List (Code × Nat)) (n k need : Nat) (follow : List TokSpec → Prop) : Prop :=
  ∀ (rest : List TokSpec) (s : PS) (fuel : Nat) (w : W), w.cif = put (.mk code fs ls) → need ≤ fuel → follow rest →
    Feeds o s (T ++ rest) →
    ∃ s' rs, elemsLoop o (fuel + k) s (some path) isBlock acceptAll w
        = elemsLoop o fuel s' (some path) isBlock acceptAll { log := rs.reverse ++ w.log, cif := put (.mk code fs' ls') }
      ∧ RepsAt o s rs sp ∧ Feeds o s' rest ∧ At o s n s'

/-- an `_at` statement (one report) is a segment -/
theorem Seg.one {o : Opts} {path : Path} {put : Container → Cif} {code : Str} {isBlock : Bool} {T : List TokSpec}
    {fs : List Container} {ls : List Loop} {fs' : List Container} {ls' : List Loop} {C : Code} {j n k need : Nat}
    {follow : List TokSpec → Prop}
    (h : ∀ (rest : List TokSpec) (s : PS) (fuel : Nat) (w : W), w.cif = put (.mk code fs ls) → need ≤ fuel → follow rest →
      Feeds o s (T ++ rest) →
      ∃ s' r, elemsLoop o (fuel + k) s (some path) isBlock acceptAll w
          = elemsLoop o fuel s' (some path) isBlock acceptAll { log := r :: w.log, cif := put (.mk code fs' ls') }
        ∧ r.code = C ∧ Feeds o s' rest ∧ RepAt o s j r ∧ At o s n s') :
    Seg o path put code isBlock T fs ls fs' ls' [(C, j)] n k need follow := by
  intro rest s fuel w hw hf hfol hF
  obtain ⟨s', r, h1, h2, h3, h4, h5⟩ := h rest s fuel w hw hf hfol hF
  exact ⟨s', [r], by simpa using h1, RepsAt.one h2 h4, h3, h5⟩

/-- … and back: a segment with one report in the form of the `_at` statements -/
theorem Seg.one_inv {o : Opts} {path : Path} {put : Container → Cif} {code : Str} {isBlock : Bool} {T : List TokSpec}
    {fs : List Container} {ls : List Loop} {fs' : List Container} {ls' : List Loop} {C : Code} {j n k need : Nat}
    {follow : List TokSpec → Prop} (h : Seg o path put code isBlock T fs ls fs' ls' [(C, j)] n k need follow)
    (rest : List TokSpec) (s : PS) (fuel : Nat) (w : W) (hw : w.cif = put (.mk code fs ls)) (hf : need ≤ fuel) (hfol : follow rest)
    (hF : Feeds o s (T ++ rest)) :
    ∃ s' r, elemsLoop o (fuel + k) s (some path) isBlock acceptAll w
        = elemsLoop o fuel s' (some path) isBlock acceptAll { log := r :: w.log, cif := put (.mk code fs' ls') }
      ∧ r.code = C ∧ Feeds o s' rest ∧ RepAt o s j r ∧ At o s n s' := by
  obtain ⟨s', rs, h1, h2, h3, h4⟩ := h rest s fuel w hw hf hfol hF
  cases rs with
  | nil => exact h2.elim
  | cons r t =>
    cases t with
    | nil => exact ⟨s', r, by simpa using h1, h2.1, h3, h2.2.1, h4⟩
    | cons _ _ => exact h2.2.2.elim

/-- the `_at` statements of the item-level classes: `b` items behind the defect, `a` items in front -/
theorem Seg.of_at {o : Opts} {path : Path} {put : Container → Cif} {code : Str} {isBlock : Bool} {T : List TokSpec}
    {fs : List Container} {ls : List Loop} {fs' : List Container} {ls' : List Loop} {C : Code} {j n a b need : Nat}
    {follow : List TokSpec → Prop}
    (h : ∀ (rest : List TokSpec) (s : PS) (fuel : Nat) (w : W), w.cif = put (.mk code fs ls) → need ≤ fuel → follow rest →
      Feeds o s (T ++ rest) →
      ∃ s' r, elemsLoop o (fuel + b + 1 + a) s (some path) isBlock acceptAll w
          = elemsLoop o fuel s' (some path) isBlock acceptAll { log := r :: w.log, cif := put (.mk code fs' ls') }
        ∧ r.code = C ∧ Feeds o s' rest ∧ RepAt o s j r ∧ At o s n s') :
    Seg o path put code isBlock T fs ls fs' ls' [(C, j)] n (b + 1 + a) need follow :=
  Seg.one fun rest s fuel w hw hf hfol hF => by
    have e : fuel + (b + 1 + a) = fuel + b + 1 + a := by omega
    rw [e]; exact h rest s fuel w hw hf hfol hF

/-- weaker demands on what follows / more fuel -/
theorem Seg.weaken {o : Opts} {path : Path} {put : Container → Cif} {code : Str} {isBlock : Bool} {T : List TokSpec}
    {fs : List Container} {ls : List Loop} {fs' : List Container} {ls' : List Loop} {sp : List (Code × Nat)} {n k need need' : Nat}
    {follow follow' : List TokSpec → Prop} (h : Seg o path put code isBlock T fs ls fs' ls' sp n k need follow)
    (hn : need ≤ need') (hfol : ∀ rest, follow' rest → follow rest) :
    Seg o path put code isBlock T fs ls fs' ls' sp n k need' follow' :=
  fun rest s fuel w hw hf hfo hF => h rest s fuel w hw (Nat.le_trans hn hf) (hfol rest hfo) hF

/-- **composition**: two segments of the same container, one after the other -/
theorem Seg.comp {o : Opts} {path : Path} {put : Container → Cif} {code : Str} {isBlock : Bool} {T1 T2 : List TokSpec}
    {fs ls fs1 ls1 fs2 ls2} {sp1 sp2 : List (Code × Nat)} {n1 k1 need1 n2 k2 need2 : Nat} {follow1 follow2 : List TokSpec → Prop}
    (h1 : Seg o path put code isBlock T1 fs ls fs1 ls1 sp1 n1 k1 need1 follow1)
    (h2 : Seg o path put code isBlock T2 fs1 ls1 fs2 ls2 sp2 n2 k2 need2 follow2)
    (hfol : ∀ rest, follow2 rest → follow1 (T2 ++ rest)) :
    Seg o path put code isBlock (T1 ++ T2) fs ls fs2 ls2 (sp1 ++ shiftSpec n1 sp2) (n1 + n2) (k2 + k1) (need1 + need2) follow2 := by
  intro rest s fuel w hw hf hfo hF
  obtain ⟨s1, rs1, e1, r1, f1, a1⟩ := h1 (T2 ++ rest) s (fuel + k2) w hw (by omega) (hfol rest hfo) (by simpa [List.append_assoc] using hF)
  obtain ⟨s2, rs2, e2, r2, f2, a2⟩ := h2 rest s1 fuel { log := rs1.reverse ++ w.log, cif := put (.mk code fs1 ls1) } rfl (by omega) hfo f1
  refine ⟨s2, rs1 ++ rs2, ?_, RepsAt.append r1 (RepsAt.shift a1 r2), f2, a1.trans a2⟩
  rw [← Nat.add_assoc, e1, e2]
  simp [List.reverse_append, List.append_assoc]

/-- **a well-formed run of elements** (items, loops, save frames with all they hold) is a segment without report -/
theorem Seg.elems (o : Opts) (hmfd : o.maxFrameDepth ≠ 0) {path : Path} {put : Container → Cif} {code : Str} (hv : View o path put code)
    (isBlock : Bool) (es : List Elem) (seen fseen : List Str) (fs : List Container) (ls : List Loop)
    (hlvl : isBlock = true ∨ noFrames es = true ∨ o.maxFrameDepth ≠ 1) (hwf : wfElems o es seen fseen = true)
    (hseen : ∀ k ∈ normNames o ls, k ∈ seen) (hfseen : ∀ c ∈ fs, o.norm c.code ∈ fseen) :
    Seg o path put code isBlock (elemsToks es) fs ls (denoteElems o.dia o.normKey es fs ls).1 (denoteElems o.dia o.normKey es fs ls).2
      [] (elemsToks es).length es.length (szElems es) termFollow := by
  intro rest s fuel w hw hf hfo hF
  obtain ⟨s', h1, h2, h3⟩ := elemsV_at o hmfd es path put code hv isBlock seen fseen rest s fuel acceptAll w fs ls hlvl hw hwf hseen hfseen
    hf hfo hF
  exact ⟨s', [], by simpa using h1, trivial, h2, h3⟩

/-- **a segment inside a save frame is a segment of the enclosing container**: `save_fc`, the tokens of the segment, `save_`.
    The frame is new to the host (`hnew`), it is created empty, filled by the segment and pruned of empty loops at its terminator;
    the reports are those of the segment, one token later.  (`hlvl`: the host is a data block, or save frames nest.) -/
theorem Seg.frame (o : Opts) (hmfd : o.maxFrameDepth ≠ 0) {path : Path} {put : Container → Cif} {code : Str} (hv : View o path put code)
    (isBlock : Bool) (fc : Str) (fs : List Container) (ls : List Loop) (T : List TokSpec) (fsb : List Container) (lsb : List Loop)
    (sp : List (Code × Nat)) (n k need : Nat) (follow : List TokSpec → Prop)
    (hlvl : isBlock = true ∨ o.maxFrameDepth ≠ 1) (hcode : wfCode fc = true)
    (hnew : ∀ c ∈ fs, codeIs o.norm (o.norm fc) c = false)
    (hbody : Seg o (path ++ [o.norm fc]) (fun c => put (.mk code (fs ++ [c]) ls)) fc false T [] [] fsb lsb sp n k need follow)
    (hfol : ∀ rest, follow ((.frameTerm, []) :: rest)) :
    Seg o path put code isBlock ((.frameHead, fc) :: (T ++ [(.frameTerm, [])])) fs ls (fs ++ [pruneC (.mk fc fsb lsb)]) ls
      (shiftSpec 1 sp) (1 + n + 1) 1 (need + k + 2) (fun _ => True) := by
  intro rest s fuel w hw hf _ hF
  have hc0 : ¬ (o.maxFrameDepth = 0 ∧ (!isBlock) = true) := by simp [hmfd]
  have hc1 : ¬ (o.maxFrameDepth = 1 ∧ (!isBlock) = true) := by
    rcases hlvl with h | h
    · simp [h]
    · simp [h]
  simp only [wfCode, Bool.and_eq_true] at hcode
  simp only [List.cons_append, List.append_assoc, List.singleton_append] at hF
  obtain ⟨t, s1, hty, htx, hn, ht, hr⟩ := hF.inv
  obtain ⟨X, hX⟩ : ∃ X, fuel = X + 1 := ⟨fuel - 1, by omega⟩
  obtain ⟨g, hg⟩ : ∃ g, X = (g + 1) + k := ⟨X - k - 1, by omega⟩
  have hvf := hv.child fs ls fc hnew
  obtain ⟨s2, rs, e1, r1, f1, a1⟩ := hbody ((.frameTerm, []) :: rest) (consume s1) (g + 1)
    { w with cif := put (.mk code (fs ++ [.mk fc [] []]) ls) } rfl (by omega) (hfol rest) hr
  obtain ⟨t3, s3, hty3, _, hn3, ht3, hr3⟩ := f1.inv
  have a0 : At o s 1 (consume s1) := (At.refl o s).step hn ht
  refine ⟨consume s3, rs, ?_, RepsAt.shift a0 r1, hr3, ((a0.trans a1).step hn3 ht3)⟩
  rw [← hg] at e1
  conv => lhs; rw [elemsLoop]
  simp only [bind_eq, pure_eq, P.bind, P.pure, hn, hty, htx, cstr_noNul hcode.2, hc0, hc1, if_false, hmfd, false_and,
    createIn_child o hv fc fs ls _ _ acceptAll w hw hcode.1 hnew]
  conv => lhs; rw [hX, parseContainer]
  simp only [bind_eq, pure_eq, P.bind, P.pure, e1]
  conv => lhs; rw [elemsLoop]
  simp only [bind_eq, pure_eq, P.bind, P.pure, hn3, hty3, Bool.false_eq_true, if_false, getCif, setCif, hvf.upd]
  rw [← hX]

/-- a well-formed run of ITEMS (scalar items and loops) is a segment without report -/
theorem Seg.items (o : Opts) {path : Path} {put : Container → Cif} {code : Str} (hv : View o path put code)
    (isBlock : Bool) (its : List Item) (seen : List Str) (fs : List Container) (ls : List Loop)
    (hwf : wfItems o its seen = true) (hseen : ∀ k ∈ normNames o ls, k ∈ seen) :
    Seg o path put code isBlock (itemsToks its) fs ls fs (denoteItems o.dia o.normKey its ls)
      [] (itemsToks its).length its.length (szItems its) termFollow := by
  intro rest s fuel w hw hf hfo hF
  obtain ⟨s', h1, h2, h3⟩ := items_structure_at o hv its seen rest s fuel acceptAll w fs ls isBlock hw hwf hseen hf (fun _ => hfo) hF
  exact ⟨s', [], by simpa using h1, trivial, h2, h3⟩

theorem termFollow_frameTerm (rest : List TokSpec) : termFollow ((.frameTerm, []) :: rest) := ⟨_, _, _, rfl, rfl⟩

theorem termFollow_frameHead (fc : Str) (rest : List TokSpec) : termFollow ((.frameHead, fc) :: rest) := ⟨_, _, _, rfl, rfl⟩

/-- **one level of nesting**: well-formed elements `preE`, the save frame `save_fc … save_` holding a segment, well-formed
    elements `postE` — a segment of the host (data block, or frame at any depth when frames nest).  The reports are those of the
    inner segment, `|preE| + 1` tokens later; the host holds what `preE` denotes, the frame as the inner segment leaves it (pruned
    of empty loops), and what `postE` denotes. -/
theorem Seg.level (o : Opts) (hmfd : o.maxFrameDepth ≠ 0) {path : Path} {put : Container → Cif} {code : Str} (hv : View o path put code)
    (isBlock : Bool) (preE postE : List Elem) (fc : Str) (seen fseen seen2 fseen2 : List Str) (fs : List Container) (ls : List Loop)
    (T : List TokSpec) (fsb : List Container) (lsb : List Loop) (sp : List (Code × Nat)) (n k need : Nat)
    (hlvl : isBlock = true ∨ o.maxFrameDepth ≠ 1)
    (hpre : wfElems o preE seen fseen = true) (hseen : ∀ k ∈ normNames o ls, k ∈ seen) (hfseen : ∀ c ∈ fs, o.norm c.code ∈ fseen)
    (hcode : wfCode fc = true)
    (hnew : ∀ c ∈ (denoteElems o.dia o.normKey preE fs ls).1, codeIs o.norm (o.norm fc) c = false)
    (hpost : wfElems o postE seen2 fseen2 = true)
    (hseen2 : ∀ k ∈ normNames o (denoteElems o.dia o.normKey preE fs ls).2, k ∈ seen2)
    (hfseen2 : ∀ c ∈ (denoteElems o.dia o.normKey preE fs ls).1 ++ [pruneC (.mk fc fsb lsb)], o.norm c.code ∈ fseen2)
    (hbody : Seg o (path ++ [o.norm fc])
      (fun c => put (.mk code ((denoteElems o.dia o.normKey preE fs ls).1 ++ [c]) (denoteElems o.dia o.normKey preE fs ls).2))
      fc false T [] [] fsb lsb sp n k need termFollow) :
    Seg o path put code isBlock ((elemsToks preE ++ ((.frameHead, fc) :: (T ++ [(.frameTerm, [])]))) ++ elemsToks postE) fs ls
      (denoteElems o.dia o.normKey postE ((denoteElems o.dia o.normKey preE fs ls).1 ++ [pruneC (.mk fc fsb lsb)])
        (denoteElems o.dia o.normKey preE fs ls).2).1
      (denoteElems o.dia o.normKey postE ((denoteElems o.dia o.normKey preE fs ls).1 ++ [pruneC (.mk fc fsb lsb)])
        (denoteElems o.dia o.normKey preE fs ls).2).2
      (shiftSpec (elemsToks preE).length (shiftSpec 1 sp))
      ((elemsToks preE).length + (1 + n + 1) + (elemsToks postE).length)
      (postE.length + (1 + preE.length)) (szElems preE + (need + k + 2) + szElems postE) termFollow := by
  have hl3 : isBlock = true ∨ o.maxFrameDepth ≠ 1 → ∀ es : List Elem, isBlock = true ∨ noFrames es = true ∨ o.maxFrameDepth ≠ 1 := by
    intro h es; rcases h with h | h
    · exact Or.inl h
    · exact Or.inr (Or.inr h)
  have A := Seg.elems o hmfd hv isBlock preE seen fseen fs ls (hl3 hlvl preE) hpre hseen hfseen
  have B := Seg.frame o hmfd hv isBlock fc (denoteElems o.dia o.normKey preE fs ls).1 (denoteElems o.dia o.normKey preE fs ls).2 T fsb lsb
    sp n k need termFollow hlvl hcode hnew hbody termFollow_frameTerm
  have C := Seg.elems o hmfd hv isBlock postE seen2 fseen2
    ((denoteElems o.dia o.normKey preE fs ls).1 ++ [pruneC (.mk fc fsb lsb)]) (denoteElems o.dia o.normKey preE fs ls).2
    (hl3 hlvl postE) hpost hseen2 hfseen2
  have h := Seg.comp (Seg.comp A B (fun rest _ => termFollow_frameHead fc _)) C (fun _ _ => trivial)
  simpa only [List.nil_append, shiftSpec, List.map_nil, List.append_nil] using h

/-! ### nesting to any depth -/

theorem shiftSpec_shiftSpec (a b : Nat) (sp : List (Code × Nat)) : shiftSpec a (shiftSpec b sp) = shiftSpec (a + b) sp := by
  simp [shiftSpec, List.map_map, Function.comp_def, Nat.add_assoc]

/-- one level of a nesting context: the elements in front of the save frame, its code, the elements behind it -/
structure Level where
  pre : List Elem
  fc : Str
  post : List Elem

/-- the tokens `T` inside the frames of the context (outermost first) -/
def nestToks : List Level → List TokSpec → List TokSpec
  | [], T => T
  | L :: r, T => (elemsToks L.pre ++ ((.frameHead, L.fc) :: (nestToks r T ++ [(.frameTerm, [])]))) ++ elemsToks L.post

/-- the code of the innermost frame -/
def innerCode : List Level → Str
  | [] => []
  | [L] => L.fc
  | _ :: L2 :: r => innerCode (L2 :: r)

/-- what the outermost container holds: `start` = its content in front, `inner` = what the segment leaves in the innermost frame;
    every frame of the context is pruned of empty loops at its terminator -/
def nestRes (o : Opts) : List Level → List Container × List Loop → List Container × List Loop → List Container × List Loop
  | [], _, inner => inner
  | L :: r, start, inner =>
    denoteElems o.dia o.normKey L.post
      ((denoteElems o.dia o.normKey L.pre start.1 start.2).1 ++
        [pruneC (.mk L.fc (nestRes o r ([], []) inner).1 (nestRes o r ([], []) inner).2)])
      (denoteElems o.dia o.normKey L.pre start.1 start.2).2

/-- the context is well formed: at every level the elements in front and behind are well formed relative to what their container
    holds, and the frame code is valid and new -/
def NestOk (o : Opts) : List Level → List Container × List Loop → List Container × List Loop → Prop
  | [], _, _ => True
  | L :: r, start, inner =>
    wfElems o L.pre (normNames o start.2) (start.1.map fun c => o.norm c.code) = true
    ∧ wfCode L.fc = true
    ∧ (∀ c ∈ (denoteElems o.dia o.normKey L.pre start.1 start.2).1, codeIs o.norm (o.norm L.fc) c = false)
    ∧ wfElems o L.post (normNames o (denoteElems o.dia o.normKey L.pre start.1 start.2).2)
        (((denoteElems o.dia o.normKey L.pre start.1 start.2).1 ++
          [pruneC (.mk L.fc (nestRes o r ([], []) inner).1 (nestRes o r ([], []) inner).2)]).map fun c => o.norm c.code) = true
    ∧ NestOk o r ([], []) inner

def nestShift : List Level → Nat
  | [] => 0
  | L :: r => (elemsToks L.pre).length + 1 + nestShift r

def nestN : List Level → Nat → Nat
  | [], n => n
  | L :: r, n => (elemsToks L.pre).length + (1 + nestN r n + 1) + (elemsToks L.post).length

def nestK : List Level → Nat → Nat
  | [], k => k
  | L :: _, _ => L.post.length + (1 + L.pre.length)

def nestNeed : List Level → Nat → Nat → Nat
  | [], need, _ => need
  | L :: r, need, k => szElems L.pre + (nestNeed r need k + nestK r k + 2) + szElems L.post

/-- **nesting to any depth**: a segment of the element loop of the innermost save frame of the context is a segment of the
    outermost container.  (More than one level: save frames must nest, `max_frame_depth ≠ 1`.) -/
theorem Seg.nest (o : Opts) (hmfd : o.maxFrameDepth ≠ 0) (T : List TokSpec) (fsb : List Container) (lsb : List Loop)
    (sp : List (Code × Nat)) (n k need : Nat) :
    ∀ (ctx : List Level), ctx ≠ [] → ∀ {path : Path} {put : Container → Cif} {code : Str} (_hv : View o path put code) (isBlock : Bool)
      (fs : List Container) (ls : List Loop),
      (isBlock = true ∨ o.maxFrameDepth ≠ 1) → (ctx.length ≤ 1 ∨ o.maxFrameDepth ≠ 1) → NestOk o ctx (fs, ls) (fsb, lsb) →
      (∀ {path' : Path} {put' : Container → Cif}, View o path' put' (innerCode ctx) →
        Seg o path' put' (innerCode ctx) false T [] [] fsb lsb sp n k need termFollow) →
      Seg o path put code isBlock (nestToks ctx T) fs ls (nestRes o ctx (fs, ls) (fsb, lsb)).1 (nestRes o ctx (fs, ls) (fsb, lsb)).2
        (shiftSpec (nestShift ctx) sp) (nestN ctx n) (nestK ctx k) (nestNeed ctx need k) termFollow
  | [], h, _, _, _, _, _, _, _, _, _, _, _ => absurd rfl h
  | [L], _, path, put, code, hv, isBlock, fs, ls, hlvl, _, hok, hbody => by
    obtain ⟨h1, h2, h3, h4, _⟩ := hok
    have := Seg.level o hmfd hv isBlock L.pre L.post L.fc _ _ _ _ fs ls T fsb lsb sp n k need hlvl h1 (fun _ h => h)
      (fun c hc => List.mem_map.mpr ⟨c, hc, rfl⟩) h2 h3 h4 (fun _ h => h) (fun c hc => List.mem_map.mpr ⟨c, hc, rfl⟩)
      (hbody (hv.child (denoteElems o.dia o.normKey L.pre fs ls).1 (denoteElems o.dia o.normKey L.pre fs ls).2 L.fc h3))
    simpa only [nestToks, nestRes, nestShift, nestN, nestK, nestNeed, shiftSpec_shiftSpec, Nat.add_zero] using this
  | L :: L2 :: r, _, path, put, code, hv, isBlock, fs, ls, hlvl, hdeep, hok, hbody => by
    obtain ⟨h1, h2, h3, h4, hrest⟩ := hok
    have hd : o.maxFrameDepth ≠ 1 := by
      rcases hdeep with h | h
      · simp at h
      · exact h
    have ih := Seg.nest o hmfd T fsb lsb sp n k need (L2 :: r) (by simp)
      (hv.child (denoteElems o.dia o.normKey L.pre fs ls).1 (denoteElems o.dia o.normKey L.pre fs ls).2 L.fc h3) false [] [] (Or.inr hd) (Or.inr hd) hrest
      (fun hv' => hbody hv')
    have := Seg.level o hmfd hv isBlock L.pre L.post L.fc _ _ _ _ fs ls (nestToks (L2 :: r) T) _ _ _ _ _ _ hlvl h1 (fun _ h => h)
      (fun c hc => List.mem_map.mpr ⟨c, hc, rfl⟩) h2 h3 h4 (fun _ h => h) (fun c hc => List.mem_map.mpr ⟨c, hc, rfl⟩) ih
    simpa only [nestToks, nestRes, nestShift, nestN, nestK, nestNeed, shiftSpec_shiftSpec, Nat.add_assoc] using this

end CifModel.Model.Parser
