import CifModel.Lemmas.ParseCBDupX
import CifModel.Model.ParseCBRec
/-
  CifModel.Lemmas.ParseCBRecX — the model layer with the token-level recoveries (Model/ParseCBRec.lean, the model the `pcb` driver
  runs) on the layout-free token sequence of a WELL-FORMED document is the same structural interpreter `xDocD` as the model with the
  duplicate diagnostics only: no recovery branch is ever taken there, for every handler program.  Hence `parseCBR = parseCBD` on
  the documents of the C15 theorems.  (Generated from Lemmas/ParseCBDupX.lean by renaming the productions; same proofs.)
-/
set_option linter.unusedSimpArgs false
set_option linter.unusedVariables false

namespace CifModel.Lemmas.ParseCB
open CifModel.ParseCB CifModel.Spec.Doc
open CifModel.Gen.ErrCodes (CIF_DUP_ITEMNAME CIF_DUP_BLOCKCODE CIF_DUP_FRAMECODE CIF_MISSING_VALUE CIF_UNEXPECTED_VALUE
  CIF_UNEXPECTED_DELIM CIF_NULL_LOOP CIF_EMPTY_LOOP CIF_PARTIAL_PACKET)

/-- with a value in front parse_item takes no recovery path -/
theorem parseItemR_eq (p : Prog) (fuel : Nat) (cont : Bool) (name : Option Str) (s : St) (h : isValueStart (nextToken s).1 = true) :
    parseItemR p fuel cont name s = parseItem p fuel cont name s := by
  unfold parseItemR parseItem
  simp only [h, Bool.not_true, Bool.false_eq_true, if_false]
  rfl

theorem itemR_doc_skip (p : Prog) (fuel : Nat) (cont : Bool) (v : V) (rest : List Tok) (s : St) (b : Bool)
    (hw : wfV v = true) (hf : szV v ≤ fuel) :
    parseItemR p fuel cont none (atb s (valueToks v ++ rest) b) = (OK, atb (dec (inc s)) rest false, none) := by
  rw [parseItemR_eq p fuel cont none _ (nextToken_value v rest s b).2]
  exact item_doc_skip p fuel cont v rest s b hw hf

theorem itemR_doc_named (p : Prog) (fuel : Nat) (cont : Bool) (nm : Str) (v : V) (rest : List Tok) (s : St) (b : Bool)
    (hw : wfV v = true) (hf : szV v ≤ fuel) :
    parseItemR p fuel cont (some nm) (atb s (valueToks v ++ rest) b)
      = ((scalarItemStep p cont nm v (inc s)).1, atb (dec (scalarItemStep p cont nm v (inc s)).2.1) rest false,
         (scalarItemStep p cont nm v (inc s)).2.2) := by
  rw [parseItemR_eq p fuel cont (some nm) _ (nextToken_value v rest s b).2]
  exact item_doc_named p fuel cont nm v rest s b hw hf

def StepFrameXR (p : Prog) (norm : Str → Str) (cont : Bool) : Prop :=
  ∀ (code : Str) (body : List Elem) (Y : List Tok) (s : St) (b : Bool) (c : Content) (f : Nat),
    wfElems false body = true → szElems body + 2 ≤ f →
    ∃ t' b', elemsLoopR p norm 1 (f + 1) cont true (atb s (plain .frameHead code :: (elemsToks body ++ plain .frameTerm [] :: Y)) b) c
      = (if (xElemD p norm cont (.frame code body) s c).1 = OK then
           elemsLoopR p norm 1 f cont true (atb (xElemD p norm cont (.frame code body) s c).2.1 Y false)
             (xElemD p norm cont (.frame code body) s c).2.2
         else ((xElemD p norm cont (.frame code body) s c).1, atb (xElemD p norm cont (.frame code body) s c).2.1 t' b',
               (xElemD p norm cont (.frame code body) s c).2.2))

-- ---- loop header -----------------------------------------------------------------------------------------------------------------

-- ---- packets over slots ------------------------------------------------------------------------------------------------------------

theorem row_xR (p : Prog) (loopH : Bool) (slots : List (Option Str)) :
    ∀ (cur : List V) (X : List Tok) (s : St) (b : Bool) (k : PkSt) (fuel : Nat),
      cur ≠ [] → k.col + cur.length = slots.length → (∀ v ∈ cur, wfV v = true ∧ szV v ≤ fuel) →
      ((xPkD p slots k.col k.row cur s).1 = OK →
        packetsLoopR p loopH slots (fuel + cur.length) (atb s (valuesToks cur ++ X) b) k
          = packetsLoopR p loopH slots fuel (atb (xPkD p slots k.col k.row cur s).2.1 X false)
              { col := 0, row := [], havePk := true,
                stored := if (xPkD p slots k.col k.row cur s).2.2 && loopH then k.stored ++ [k.row ++ keptD slots k.col cur] else k.stored })
      ∧ ((xPkD p slots k.col k.row cur s).1 ≠ OK →
        ∃ t' b' k', packetsLoopR p loopH slots (fuel + cur.length) (atb s (valuesToks cur ++ X) b) k
          = ((xPkD p slots k.col k.row cur s).1, atb (xPkD p slots k.col k.row cur s).2.1 t' b', k') ∧ k'.stored = k.stored)
  | [], _, _, _, _, _, h, _, _ => absurd rfl h
  | v :: vs, X, s, b, k, fuel, _, hlen, hv => by
    have hvv := hv v (List.mem_cons_self ..)
    obtain ⟨h1, h2⟩ := nextToken_value v (valuesToks vs ++ X) s b
    have hs1 : (if k.col = 0 then pktStartStep p (atb s (valueToks v ++ (valuesToks vs ++ X)) true)
          else (OK, atb s (valueToks v ++ (valuesToks vs ++ X)) true))
        = ((if k.col = 0 then pktStartStep p s else (OK, s)).1,
           atb (if k.col = 0 then pktStartStep p s else (OK, s)).2 (valueToks v ++ (valuesToks vs ++ X)) true) := by
      by_cases hc : k.col = 0
      · simp only [hc, if_true, pktStart_atb]
      · simp only [hc, if_false]
    rw [show fuel + (v :: vs).length = (fuel + vs.length) + 1 by simp; omega]
    simp only [packetsLoopR, valuesToks, List.append_assoc, h1, h2, if_true, hs1]
    by_cases hps : (if k.col = 0 then pktStartStep p s else (OK, s)).1 = OK
    · simp only [hps, ne_eq, not_true_eq_false, if_false,
        value_mirror v (valuesToks vs ++ X) _ true (fuel + vs.length) hvv.1 (by omega), itemStepD_atb]
      by_cases hit : (itemStepD p (slots.getD k.col none) OK v (if k.col = 0 then pktStartStep p s else (OK, s)).2).1 = OK
      · rw [xPkD_step p slots k.col k.row v vs s hps hit]
        simp only [hit, ne_eq, not_true_eq_false, if_false]
        cases vs with
        | nil =>
          have hcol : (k.col + 1) % slots.length = 0 := by
            simp only [List.length_cons, List.length_nil] at hlen
            rw [hlen]; exact Nat.mod_self _
          simp only [hcol, if_true, pktEnd_atb, valuesToks, List.nil_append, List.length_nil, Nat.add_zero, xRowD,
            ne_eq, not_true_eq_false, if_false, List.append_nil, keptD]
          by_cases hpe : (pktEndStep p (List.zip (slots.filterMap id) (if (slots.getD k.col none).isSome then k.row ++ [v] else k.row))
              (itemStepD p (slots.getD k.col none) OK v (if k.col = 0 then pktStartStep p s else (OK, s)).2).2).1 = OK
          · simp only [hpe, ne_eq, not_true_eq_false, if_false]
            refine ⟨fun _ => ?_, fun h => h.elim⟩
            by_cases hs : (slots[k.col]?.getD none).isSome = true <;> simp [hs]
          · simp only [hpe, ne_eq, not_false_eq_true, if_true]
            exact ⟨fun h => h.elim, fun _ => ⟨_, _, _, rfl, rfl⟩⟩
        | cons v' vs' =>
          have hlt : k.col + 1 < slots.length := by simp only [List.length_cons] at hlen; omega
          have hcol : (k.col + 1) % slots.length = k.col + 1 := Nat.mod_eq_of_lt hlt
          have hne : ¬ (k.col + 1 = 0) := by omega
          simp only [hcol, hne, if_false]
          have ih := row_xR p loopH slots (v' :: vs') X
            (itemStepD p (slots.getD k.col none) OK v (if k.col = 0 then pktStartStep p s else (OK, s)).2).2 false
            { k with col := k.col + 1, row := if (slots.getD k.col none).isSome then k.row ++ [v] else k.row } fuel (by simp)
            (by simp only [List.length_cons] at hlen ⊢; omega)
            (fun w hw => hv w (List.mem_cons_of_mem _ hw))
          unfold xPkD at ih
          simp only [hne, if_false, ne_eq, not_true_eq_false] at ih
          have hk : k.row ++ keptD slots k.col (v :: v' :: vs')
              = (if (slots.getD k.col none).isSome then k.row ++ [v] else k.row) ++ keptD slots (k.col + 1) (v' :: vs') := by
            simp only [keptD]
            by_cases hs : (slots.getD k.col none).isSome = true
            · simp only [hs, if_true, List.append_assoc]
            · simp only [hs, Bool.false_eq_true, if_false, List.nil_append]
          rw [hk]
          exact ih
      · have hx : xPkD p slots k.col k.row (v :: vs) s
            = ((itemStepD p (slots.getD k.col none) OK v (if k.col = 0 then pktStartStep p s else (OK, s)).2).1,
               (itemStepD p (slots.getD k.col none) OK v (if k.col = 0 then pktStartStep p s else (OK, s)).2).2, false) := by
          unfold xPkD
          simp only [hps, ne_eq, not_true_eq_false, if_false, xRowD, hit, not_false_eq_true, if_true]
        rw [hx]
        simp only [hit, ne_eq, not_false_eq_true, if_true]
        exact ⟨fun h => h.elim, fun _ => ⟨_, _, _, rfl, rfl⟩⟩
    · have hx : xPkD p slots k.col k.row (v :: vs) s
          = ((if k.col = 0 then pktStartStep p s else (OK, s)).1, (if k.col = 0 then pktStartStep p s else (OK, s)).2, false) := by
        unfold xPkD
        simp only [hps, ne_eq, not_false_eq_true, if_true]
      rw [hx]
      simp only [hps, ne_eq, not_false_eq_true, if_true]
      exact ⟨fun h => h.elim, fun _ => ⟨_, _, _, rfl, rfl⟩⟩

/-- the packets of a loop body over slots, up to the token that ends it — or up to the handler that stopped the parse -/
theorem packets_xR (p : Prog) (loopH : Bool) (slots : List (Option Str)) (F : Nat) :
    ∀ (pks : List (List V)) (t : Tok) (rest : List Tok) (s : St) (b : Bool) (h : Bool) (acc : List (List V)),
      t.pre = [] → isStopper t.ty = true → (h = true ∨ pks ≠ []) →
      (∀ pk ∈ pks, pk ≠ [] ∧ pk.length = slots.length ∧ ∀ v ∈ pk, wfV v = true ∧ szV v ≤ F) →
      ((xPacketsD p loopH slots pks s acc).1 = OK →
        packetsLoopR p loopH slots (F + totLen pks + 1) (atb s ((pks.map valuesToks).flatten ++ t :: rest) b)
            { col := 0, row := [], havePk := h, stored := acc }
          = (OK, atb (xPacketsD p loopH slots pks s acc).2.1 (t :: rest) true,
             { col := 0, row := [], havePk := true, stored := (xPacketsD p loopH slots pks s acc).2.2 }))
      ∧ ((xPacketsD p loopH slots pks s acc).1 ≠ OK →
        ∃ t' b' k', packetsLoopR p loopH slots (F + totLen pks + 1) (atb s ((pks.map valuesToks).flatten ++ t :: rest) b)
            { col := 0, row := [], havePk := h, stored := acc }
          = ((xPacketsD p loopH slots pks s acc).1, atb (xPacketsD p loopH slots pks s acc).2.1 t' b', k')
          ∧ k'.stored = (xPacketsD p loopH slots pks s acc).2.2)
  | [], t, rest, s, b, h, acc, hpre, hst, hh, _ => by
    have hh' : h = true := by rcases hh with h1 | h1; exact h1; exact absurd rfl h1
    have hv : isValueStart t.ty = false := by cases ht : t.ty <;> simp_all [isStopper, isValueStart]
    have hc : ¬ (t.ty = .clist ∨ t.ty = .ctable) := by cases ht : t.ty <;> simp_all [isStopper]
    refine ⟨fun _ => ?_, fun hno => absurd rfl hno⟩
    simp only [totLen, List.map_nil, List.sum_nil, Nat.add_zero, List.flatten_nil, List.nil_append, packetsLoopR,
      nextToken_atb s t rest b hpre, hv, Bool.false_eq_true, if_false, hc, ne_eq, not_true_eq_false, hh',
      Bool.not_true, xPacketsD]
  | pk :: pks, t, rest, s, b, h, acc, hpre, hst, _, hall => by
    obtain ⟨hne, hlen, hvals⟩ := hall pk (List.mem_cons_self ..)
    have hfuel : F + totLen (pk :: pks) + 1 = (F + totLen pks + 1) + pk.length := by
      simp [totLen]; omega
    rw [hfuel]
    simp only [List.map_cons, List.flatten_cons, List.append_assoc]
    obtain ⟨r1, r2⟩ := row_xR p loopH slots pk ((pks.map valuesToks).flatten ++ t :: rest) s b
      { col := 0, row := [], havePk := h, stored := acc } (F + totLen pks + 1) hne
      (by simpa using hlen) (fun v hv => ⟨(hvals v hv).1, by have := (hvals v hv).2; omega⟩)
    simp only [List.nil_append] at r1 r2
    by_cases hok : (xPkD p slots 0 [] pk s).1 = OK
    · rw [r1 hok]
      simp only [xPacketsD, hok, ne_eq, not_true_eq_false, if_false]
      exact packets_xR p loopH slots F pks t rest _ false true _ hpre hst (Or.inl rfl)
        (fun q hq => hall q (List.mem_cons_of_mem _ hq))
    · obtain ⟨t', b', k', e1, e2⟩ := r2 hok
      simp only [xPacketsD, hok, ne_eq, not_false_eq_true, if_true]
      exact ⟨fun h => h.elim, fun _ => ⟨t', b', k', e1, e2⟩⟩

/-- a loop (after its `loop_` keyword), header duplicates included -/
theorem loop_xR (p : Prog) (norm : Str → Str) (cont : Bool) (c : Content) (names : List Str) (pks : List (List V)) (F : Nat)
    (t : Tok) (rest : List Tok) (s : St) (b : Bool) (fuel : Nat)
    (hpre : t.pre = []) (hst : isStopper t.ty = true) (hn : names ≠ []) (hpk : pks ≠ [])
    (hall : ∀ pk ∈ pks, pk ≠ [] ∧ pk.length = names.length ∧ ∀ v ∈ pk, wfV v = true ∧ szV v ≤ F)
    (hf1 : names.length + 1 ≤ fuel) (hf2 : F + totLen pks + 1 ≤ fuel) :
    ∃ t' b', parseLoopR p norm fuel cont c (atb s (names.map (fun n => plain .name n) ++ ((pks.map valuesToks).flatten ++ t :: rest)) b)
        = ((xLoopD p norm cont c names pks s).1, atb (xLoopD p norm cont c names pks s).2.1 t' b', (xLoopD p norm cont c names pks s).2.2)
      ∧ ((xLoopD p norm cont c names pks s).1 = OK → t' = t :: rest ∧ b' = true) := by
  obtain ⟨tv, tvs, hbody, htvpre, htvty⟩ := body_head pks (t :: rest) (fun pk h => (hall pk h).1) hpk
  unfold parseLoopR xLoopD
  simp only [inc_atb, hbody]
  rw [headerD_x norm cont c names [] tv tvs (inc s) b fuel htvpre htvty hf1]
  have hslen : (hdrD norm cont c names (inc s) []).1.length = names.length := by
    rw [hdrD_length]; simp
  have hsne : (hdrD norm cont c names (inc s) []).1.isEmpty = false := by
    cases hh : (hdrD norm cont c names (inc s) []).1 with
    | nil => rw [hh] at hslen; cases names with
      | nil => exact absurd rfl hn
      | cons _ _ => simp at hslen
    | cons _ _ => rfl
  simp only [ne_eq, not_true_eq_false, if_false, hsne, Bool.false_eq_true]
  by_cases hemp : ((hdrD norm cont c names (inc s) []).1.filterMap id).isEmpty = true
  · simp only [hemp, if_true, loopEnd_atb]
    refine ⟨_, _, rfl, fun h => ?_⟩
    have h1 := loopEnd_ok_inv p _ _ _ h
    exact absurd h1 (by decide)
  · simp only [hemp, Bool.false_eq_true, if_false, loopStart_atb]
    by_cases hbodyP : (loopStartStep p cont ((hdrD norm cont c names (inc s) []).1.filterMap id)
        (hdrD norm cont c names (inc s) []).2).2.2.2 = true
    · simp only [hbodyP, if_true]
      rw [← hbody]
      have hfuel : fuel = (fuel - totLen pks - 1) + totLen pks + 1 := by omega
      obtain ⟨q1, q2⟩ := packets_xR p (loopStartStep p cont ((hdrD norm cont c names (inc s) []).1.filterMap id)
          (hdrD norm cont c names (inc s) []).2).2.2.1 (hdrD norm cont c names (inc s) []).1 (fuel - totLen pks - 1) pks t rest
        (loopStartStep p cont ((hdrD norm cont c names (inc s) []).1.filterMap id) (hdrD norm cont c names (inc s) []).2).2.1
        true false [] hpre hst (Or.inr hpk)
        (fun pk h => ⟨(hall pk h).1, by rw [hslen]; exact (hall pk h).2.1, fun v hv => ⟨((hall pk h).2.2 v hv).1, by
          have := ((hall pk h).2.2 v hv).2; omega⟩⟩)
      rw [← hfuel] at q1 q2
      by_cases hok : (xPacketsD p (loopStartStep p cont ((hdrD norm cont c names (inc s) []).1.filterMap id)
          (hdrD norm cont c names (inc s) []).2).2.2.1 (hdrD norm cont c names (inc s) []).1 pks
          (loopStartStep p cont ((hdrD norm cont c names (inc s) []).1.filterMap id) (hdrD norm cont c names (inc s) []).2).2.1 []).1 = OK
      · rw [q1 hok]
        simp only [loopEnd_atb, hok]
        exact ⟨_, _, rfl, fun _ => ⟨rfl, rfl⟩⟩
      · obtain ⟨t', b', k', e1, e2⟩ := q2 hok
        rw [e1]
        simp only [loopEnd_atb, e2]
        refine ⟨t', b', rfl, fun h => ?_⟩
        exact absurd (loopEnd_ok_inv p _ _ _ h) hok
    · simp only [hbodyP, Bool.false_eq_true, if_false, loopEnd_atb]
      refine ⟨_, _, rfl, fun h => ?_⟩
      have h1 := loopEnd_ok_inv p _ _ _ h
      unfold loopStartStep at hbodyP h1
      by_cases hsk : (hdrD norm cont c names (inc s) []).2.skip ≤ 0
      · simp only [hsk, if_true] at hbodyP h1
        simp [h1] at hbodyP
      · simp only [hsk, if_false] at hbodyP
        exact (hbodyP trivial).elim

-- ---- containers ----------------------------------------------------------------------------------------------------------------


/-- one iteration of the element loop: a scalar item (skipped, duplicate or new) -/
theorem stepR_item_x (p : Prog) (norm : Str → Str) (m : Int) (f : Nat) (cont isBlock : Bool) (nm : Str) (v : V) (Y : List Tok)
    (s : St) (b : Bool) (c : Content) (hw : wfV v = true) (hf : szV v ≤ f) :
    elemsLoopR p norm m (f + 1) cont isBlock (atb s (plain .name nm :: (valueToks v ++ Y)) b) c
      = (if (xElemD p norm cont (.item nm v) s c).1 = OK then
           elemsLoopR p norm m f cont isBlock (atb (xElemD p norm cont (.item nm v) s c).2.1 Y false) (xElemD p norm cont (.item nm v) s c).2.2
         else ((xElemD p norm cont (.item nm v) s c).1, atb (xElemD p norm cont (.item nm v) s c).2.1 Y false,
               (xElemD p norm cont (.item nm v) s c).2.2)) := by
  simp only [elemsLoopR, nextToken_atb s (plain .name nm) _ b rfl, plain_ty, atb_skip, cur_atb, plain_text, xElemD]
  by_cases h : s.skip > 0
  · simp only [h, if_true, consume_atb, itemR_doc_skip p f cont v Y s false hw hf]
  · simp only [h, if_false]
    by_cases hd : (cont && hasName norm c nm) = true
    · simp only [hd, if_true, note_atb, consume_atb, report_atb, itemR_doc_skip p f cont v Y _ false hw hf]
    · simp only [hd, Bool.false_eq_true, if_false, note_atb, consume_atb, itemR_doc_named p f cont nm v Y _ false hw hf]
      rfl

/-- one iteration of the element loop: a loop -/
theorem stepR_loop_x (p : Prog) (norm : Str → Str) (m : Int) (f : Nat) (cont isBlock : Bool) (names : List Str)
    (pks : List (List V)) (F : Nat) (t : Tok) (rest : List Tok) (s : St) (b : Bool) (c : Content)
    (hpre : t.pre = []) (hst : isStopper t.ty = true) (hn : names ≠ []) (hpk : pks ≠ [])
    (hall : ∀ pk ∈ pks, pk ≠ [] ∧ pk.length = names.length ∧ ∀ v ∈ pk, wfV v = true ∧ szV v ≤ F)
    (hf1 : names.length + 1 ≤ f) (hf2 : F + totLen pks + 1 ≤ f) :
    ∃ t' b', elemsLoopR p norm m (f + 1) cont isBlock
        (atb s (plain .loopKw [] :: (names.map (fun n => plain .name n) ++ ((pks.map valuesToks).flatten ++ t :: rest))) b) c
      = (if (xElemD p norm cont (.loop names pks) s c).1 = OK then
           elemsLoopR p norm m f cont isBlock (atb (xElemD p norm cont (.loop names pks) s c).2.1 (t :: rest) true)
             (xElemD p norm cont (.loop names pks) s c).2.2
         else ((xElemD p norm cont (.loop names pks) s c).1, atb (xElemD p norm cont (.loop names pks) s c).2.1 t' b',
               (xElemD p norm cont (.loop names pks) s c).2.2)) := by
  simp only [elemsLoopR, nextToken_atb s (plain .loopKw []) _ b rfl, plain_ty, atb_skip, cur_atb, plain_text, xElemD]
  have hnote : (if s.skip ≤ 0 then note (atb s (plain .loopKw [] :: (names.map (fun n => plain .name n) ++
        ((pks.map valuesToks).flatten ++ t :: rest))) true) (Ev.keyword []) else
        atb s (plain .loopKw [] :: (names.map (fun n => plain .name n) ++ ((pks.map valuesToks).flatten ++ t :: rest))) true)
      = atb (if s.skip ≤ 0 then note s (Ev.keyword []) else s)
          (plain .loopKw [] :: (names.map (fun n => plain .name n) ++ ((pks.map valuesToks).flatten ++ t :: rest))) true := by
    by_cases h : s.skip ≤ 0 <;> simp only [h, if_true, if_false, note_atb]
  obtain ⟨t', b', e1, e2⟩ := loop_xR p norm cont c names pks F t rest (if s.skip ≤ 0 then note s (Ev.keyword []) else s) false f hpre hst
    hn hpk hall hf1 hf2
  simp only [hnote, consume_atb, e1]
  refine ⟨t', b', ?_⟩
  by_cases hok : (xLoopD p norm cont c names pks (if s.skip ≤ 0 then note s (Ev.keyword []) else s)).1 = OK
  · obtain ⟨rfl, rfl⟩ := e2 hok
    simp only [hok, if_true]
    rfl
  · simp only [hok, if_false]
    rfl

/-- the body of a container, up to the token that ends it or to the handler that stopped the parse -/
theorem elemsR_x (p : Prog) (norm : Str → Str) (cont isBlock : Bool) (hframe : isBlock = true → StepFrameXR p norm cont) :
    ∀ (es : List Elem) (t : Tok) (rest : List Tok) (s : St) (b : Bool) (c : Content) (fuel : Nat),
      wfElems isBlock es = true → t.pre = [] → termOK isBlock t.ty → szElems es + 1 ≤ fuel →
      ∃ t' b', elemsLoopR p norm 1 fuel cont isBlock (atb s (elemsToks es ++ t :: rest) b) c
          = ((xElemsD p norm cont es s c).1, atb (xElemsD p norm cont es s c).2.1 t' b', (xElemsD p norm cont es s c).2.2)
        ∧ ((xElemsD p norm cont es s c).1 = OK →
            atb (xElemsD p norm cont es s c).2.1 t' b' = endState isBlock (xElemsD p norm cont es s c).2.1 t rest)
  | [], t, rest, s, b, c, fuel, _, hpre, hterm, hf => by
    obtain ⟨f, rfl⟩ : ∃ f, fuel = f + 1 := ⟨fuel - 1, by omega⟩
    simp only [elemsToks, List.nil_append, elemsLoopR, nextToken_atb s t rest b hpre, xElemsD]
    unfold termOK at hterm
    cases isBlock with
    | true =>
      simp only [if_true] at hterm
      refine ⟨t :: rest, true, ?_, fun _ => by simp [endState]⟩
      rcases hterm with h | h <;> simp [h]
    | false =>
      simp only [Bool.false_eq_true, if_false] at hterm
      exact ⟨rest, false, by simp [hterm, consume_atb], fun _ => by simp [endState]⟩
  | e :: es, t, rest, s, b, c, fuel, hw, hpre, hterm, hf => by
    obtain ⟨f, rfl⟩ : ∃ f, fuel = f + 1 := ⟨fuel - 1, by omega⟩
    simp only [wfElems, Bool.and_eq_true] at hw
    simp only [szElems] at hf
    have hstT : isStopper t.ty = true := by
      unfold termOK at hterm
      cases isBlock <;> simp at hterm
      · simp [hterm, isStopper]
      · rcases hterm with h | h <;> simp [h, isStopper]
    have ih := elemsR_x p norm cont isBlock hframe es t rest
    have key : ∃ Y bY t1 b1, elemsLoopR p norm 1 (f + 1) cont isBlock (atb s (elemsToks (e :: es) ++ t :: rest) b) c
        = (if (xElemD p norm cont e s c).1 = OK then
             elemsLoopR p norm 1 f cont isBlock (atb (xElemD p norm cont e s c).2.1 Y bY) (xElemD p norm cont e s c).2.2
           else ((xElemD p norm cont e s c).1, atb (xElemD p norm cont e s c).2.1 t1 b1, (xElemD p norm cont e s c).2.2))
        ∧ Y = elemsToks es ++ t :: rest := by
      cases e with
      | item n v =>
        simp only [szElem] at hf
        refine ⟨_, false, elemsToks es ++ t :: rest, false, ?_, rfl⟩
        simp only [elemsToks, elemToks_item, List.cons_append, List.append_assoc]
        exact stepR_item_x p norm 1 f cont isBlock n v _ s b c (by simpa [wfElem] using hw.1) (by omega)
      | loop ns pks =>
        simp only [szElem] at hf
        obtain ⟨hn, hpk, hall⟩ := loop_wf_all ns pks hw.1
        obtain ⟨th, tl, hhead, hthpre, hthst⟩ := elems_head es t rest hpre hstT
        obtain ⟨t1, b1, e1⟩ := stepR_loop_x p norm 1 f cont isBlock ns pks (sumSz pks) th tl s b c hthpre hthst hn hpk hall
          (by omega) (by omega)
        refine ⟨_, true, t1, b1, ?_, rfl⟩
        simp only [elemsToks, elemToks_loop, List.cons_append, List.append_assoc, hhead]
        exact e1
      | frame code body =>
        simp only [szElem] at hf
        have hb : isBlock = true ∧ wfElems false body = true := by
          simpa [wfElem] using hw.1
        obtain ⟨hb1, hb2⟩ := hb
        subst hb1
        obtain ⟨t1, b1, e1⟩ := hframe rfl code body (elemsToks es ++ t :: rest) s b c f hb2 (by omega)
        refine ⟨_, false, t1, b1, ?_, rfl⟩
        simp only [elemsToks, elemToks_frame, List.cons_append, List.append_assoc, List.singleton_append]
        exact e1
    obtain ⟨Y, bY, t1, b1, hkey, rfl⟩ := key
    rw [hkey]
    simp only [xElemsD]
    by_cases hok : (xElemD p norm cont e s c).1 = OK
    · simp only [hok, if_true]
      have hsz : szElems es + 1 ≤ f := by
        cases e <;> simp only [szElem] at hf <;> omega
      exact ih _ bY _ f hw.2 hpre hterm hsz
    · simp only [hok, if_false]
      exact ⟨t1, b1, rfl, fun h => h.elim⟩

/-- a save frame after its `save_<code>` token, into a frame holding `c0` -/
theorem frameR_x (p : Prog) (norm : Str → Str) (fc : Bool) (code : Str) (body : List Elem) (Y : List Tok) (s : St) (b : Bool)
    (c0 : Content) (f : Nat) (hw : wfElems false body = true) (hf : szElems body + 1 ≤ f) :
    ∃ t' b', parseContainerR p norm 1 (f + 1) fc false code (atb s (elemsToks body ++ plain .frameTerm [] :: Y) b) c0
        = ((xContD p norm fc false code body s c0).1, atb (xContD p norm fc false code body s c0).2.1 t' b',
           (xContD p norm fc false code body s c0).2.2)
      ∧ ((xContD p norm fc false code body s c0).1 = OK → t' = Y ∧ b' = false) := by
  simp only [parseContainerR, contStart_atb, xContD]
  by_cases hst : (contStartStep p fc false code s).1 = OK
  · simp only [hst, ne_eq, not_true_eq_false, if_false]
    obtain ⟨t', b', e1, e2⟩ := elemsR_x p norm fc false (fun h => nomatch h) body (plain .frameTerm []) Y
      (contStartStep p fc false code s).2 b c0 f hw rfl rfl hf
    rw [e1]
    simp only [containerEnd_atb]
    refine ⟨t', b', rfl, fun h => ?_⟩
    have h1 := containerEnd_ok_inv p _ _ _ _ _ _ h
    have h2 := e2 h1
    simp only [endState, Bool.false_eq_true, if_false] at h2
    exact atb_inj h2
  · simp only [hst, ne_eq, not_false_eq_true, if_true, containerEnd_atb]
    exact ⟨_, _, rfl, fun h => absurd (containerEnd_ok_inv p _ _ _ _ _ _ h) hst⟩

theorem step_frameR_x (p : Prog) (norm : Str → Str) (cont : Bool) : StepFrameXR p norm cont := by
  intro code body Y s b c f hw hf
  simp only [elemsLoopR, nextToken_atb s (plain .frameHead code) _ b rfl, plain_ty, atb_skip, cur_atb, plain_text,
    consume_atb, xElemD_frame]
  obtain ⟨g, rfl⟩ : ∃ g, f = g + 1 := ⟨f - 1, by omega⟩
  by_cases h : ((!cont) = true ∨ s.skip > 0)
  · simp only [h, if_true]
    obtain ⟨t', b', e1, e2⟩ := frameR_x p norm false code body Y s false .empty g hw (by omega)
    rw [e1]
    refine ⟨t', b', ?_⟩
    by_cases hok : (xContD p norm false false code body s .empty).1 = OK
    · obtain ⟨rfl, rfl⟩ := e2 hok
      simp only [hok, if_true]
    · simp only [hok, if_false]
  · have h10 : ¬ ((1 : Int) = 0) := by decide
    simp only [h, if_false, h10, Bool.not_true, Bool.false_eq_true, and_false]
    cases hfind : findC norm c.frames code with
    | some old =>
      simp only [report_atb, consume_atb]
      obtain ⟨t', b', e1, e2⟩ := frameR_x p norm true old.code body Y (report s CIF_DUP_FRAMECODE) false ⟨old.frames, old.loops⟩ g hw (by omega)
      rw [e1]
      refine ⟨t', b', ?_⟩
      by_cases hok : (xContD p norm true false old.code body (report s CIF_DUP_FRAMECODE) ⟨old.frames, old.loops⟩).1 = OK
      · obtain ⟨rfl, rfl⟩ := e2 hok
        simp only [hok, if_true]
      · simp only [hok, if_false]
    | none =>
      obtain ⟨t', b', e1, e2⟩ := frameR_x p norm true code body Y s false .empty g hw (by omega)
      rw [e1]
      refine ⟨t', b', ?_⟩
      by_cases hok : (xContD p norm true false code body s .empty).1 = OK
      · obtain ⟨rfl, rfl⟩ := e2 hok
        simp only [hok, if_true]
      · simp only [hok, if_false]

/-- a data block after its `data_<code>` token, into a block holding `c0` -/
theorem blockR_x (p : Prog) (norm : Str → Str) (bc : Bool) (code : Str) (body : List Elem) (t : Tok) (rest : List Tok) (s : St)
    (b : Bool) (c0 : Content) (f : Nat) (hw : wfElems true body = true) (hpre : t.pre = []) (hterm : t.ty = .blockHead ∨ t.ty = .end_)
    (hf : szElems body + 1 ≤ f) :
    ∃ t' b', parseContainerR p norm 1 (f + 1) bc true code (atb s (elemsToks body ++ t :: rest) b) c0
        = ((xContD p norm bc true code body s c0).1, atb (xContD p norm bc true code body s c0).2.1 t' b',
           (xContD p norm bc true code body s c0).2.2)
      ∧ ((xContD p norm bc true code body s c0).1 = OK → t' = t :: rest ∧ b' = true) := by
  simp only [parseContainerR, contStart_atb, xContD]
  by_cases hst : (contStartStep p bc true code s).1 = OK
  · simp only [hst, ne_eq, not_true_eq_false, if_false]
    obtain ⟨t', b', e1, e2⟩ := elemsR_x p norm bc true (fun _ => step_frameR_x p norm bc) body t rest
      (contStartStep p bc true code s).2 b c0 f hw hpre (by simpa [termOK] using hterm) hf
    rw [e1]
    simp only [containerEnd_atb]
    refine ⟨t', b', rfl, fun h => ?_⟩
    have h1 := containerEnd_ok_inv p _ _ _ _ _ _ h
    have h2 := e2 h1
    simp only [endState, if_true] at h2
    exact atb_inj h2
  · simp only [hst, ne_eq, not_false_eq_true, if_true, containerEnd_atb]
    exact ⟨_, _, rfl, fun h => absurd (containerEnd_ok_inv p _ _ _ _ _ _ h) hst⟩

theorem blocksR_x (p : Prog) (norm : Str → Str) (cif : Bool) : ∀ (d : Doc) (s : St) (b : Bool) (acc : List Container) (fuel : Nat),
    wfDoc d = true → szDoc d + 1 ≤ fuel →
    ∃ t' b', blocksLoopR p norm 1 cif fuel (atb s (blocksToks d ++ [plain .end_ []]) b) acc
      = ((xBlocksD p norm cif d s acc).1, atb (xBlocksD p norm cif d s acc).2.1 t' b', (xBlocksD p norm cif d s acc).2.2)
  | [], s, b, acc, fuel, _, hf => by
    obtain ⟨f, rfl⟩ : ∃ f, fuel = f + 1 := ⟨fuel - 1, by omega⟩
    exact ⟨[plain .end_ []], true, by simp [blocksToks, blocksLoopR, nextToken_atb s (plain .end_ []) [] b rfl, xBlocksD]⟩
  | blk :: bs, s, b, acc, fuel, hw, hf => by
    obtain ⟨f, rfl⟩ : ∃ f, fuel = f + 1 := ⟨fuel - 1, by omega⟩
    simp only [szDoc] at hf
    simp only [wfDoc, List.all_cons, Bool.and_eq_true] at hw
    obtain ⟨t, rest, hhead, hpre, hterm⟩ := blocks_head bs
    have htoks : blocksToks (blk :: bs) ++ [plain .end_ []]
        = plain .blockHead blk.code :: (elemsToks blk.body ++ (t :: rest)) := by
      rw [← hhead]; simp [blocksToks]
    rw [htoks]
    simp only [blocksLoopR, nextToken_atb s (plain .blockHead blk.code) _ b rfl, plain_ty, atb_skip, cur_atb, plain_text,
      consume_atb, xBlocksD]
    obtain ⟨g, rfl⟩ : ∃ g, f = g + 1 := ⟨f - 1, by omega⟩
    have hbs : wfDoc bs = true := by simpa [wfDoc] using hw.2
    by_cases hbc : (cif && decide (s.skip ≤ 0)) = true
    · simp only [hbc, if_true]
      cases hfind : findC norm acc blk.code with
      | some old =>
        simp only [report_atb, consume_atb]
        obtain ⟨t', b', e1, e2⟩ := blockR_x p norm true old.code blk.body t rest (report s CIF_DUP_BLOCKCODE) false
          ⟨old.frames, old.loops⟩ g hw.1 hpre hterm (by omega)
        rw [e1]
        by_cases hok : (xContD p norm true true old.code blk.body (report s CIF_DUP_BLOCKCODE) ⟨old.frames, old.loops⟩).1 = OK
        · obtain ⟨rfl, rfl⟩ := e2 hok
          simp only [hok, if_true]
          rw [← hhead]
          exact blocksR_x p norm cif bs _ true _ (g + 1) hbs (by omega)
        · simp only [hok, if_false]
          exact ⟨t', b', rfl⟩
      | none =>
        obtain ⟨t', b', e1, e2⟩ := blockR_x p norm true blk.code blk.body t rest s false .empty g hw.1 hpre hterm (by omega)
        rw [e1]
        by_cases hok : (xContD p norm true true blk.code blk.body s .empty).1 = OK
        · obtain ⟨rfl, rfl⟩ := e2 hok
          simp only [hok, if_true]
          rw [← hhead]
          exact blocksR_x p norm cif bs _ true _ (g + 1) hbs (by omega)
        · simp only [hok, if_false]
          exact ⟨t', b', rfl⟩
    · simp only [hbc, Bool.false_eq_true, if_false]
      obtain ⟨t', b', e1, e2⟩ := blockR_x p norm false blk.code blk.body t rest s false .empty g hw.1 hpre hterm (by omega)
      rw [e1]
      by_cases hok : (xContD p norm false true blk.code blk.body s .empty).1 = OK
      · obtain ⟨rfl, rfl⟩ := e2 hok
        simp only [hok, if_true]
        rw [← hhead]
        exact blocksR_x p norm cif bs _ true _ (g + 1) hbs (by omega)
      · simp only [hok, if_false]
        exact ⟨t', b', rfl⟩

/-- **the parse with the duplicate diagnostics is the structural interpreter, for EVERY program** -/
theorem docR_x (p : Prog) (norm : Str → Str) (cif : Bool) (d : Doc) (fuel : Nat) (hw : wfDoc d = true) (hf : szDoc d + 1 ≤ fuel) :
    (parseCifR p norm 1 cif fuel (St.init (tokensOf d))).1 = (xDocD p norm cif d (St.init [])).1
    ∧ (parseCifR p norm 1 cif fuel (St.init (tokensOf d))).2.1.log = (xDocD p norm cif d (St.init [])).2.1.log
    ∧ (parseCifR p norm 1 cif fuel (St.init (tokensOf d))).2.2 = (xDocD p norm cif d (St.init [])).2.2 := by
  have hinit : St.init (tokensOf d) = atb (St.init []) (blocksToks d ++ [plain .end_ []]) false := rfl
  unfold parseCifR xDocD
  rw [hinit]
  simp only [atb_n]
  by_cases hend : p (St.init []).n (.cifStart cif) = END
  · simp only [hend, if_true]
    exact ⟨trivial, rfl, trivial⟩
  · simp only [hend, if_false, site_atb]
    by_cases hok : (site p (St.init []) (.cifStart cif) (some 1) (some 1)).1 = OK
    · simp only [hok, if_true]
      obtain ⟨t', b', e1⟩ := blocksR_x p norm cif d (site p (St.init []) (.cifStart cif) (some 1) (some 1)).2 false [] fuel hw hf
      rw [e1]
      simp only [cifEnd_atb]
      exact ⟨trivial, rfl, trivial⟩
    · simp only [hok, if_false, cifEnd_atb]
      exact ⟨trivial, rfl, trivial⟩


end CifModel.Lemmas.ParseCB
