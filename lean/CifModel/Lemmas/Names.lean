import CifModel.Model.Normalize
import CifModel.Spec.Names
/-
  Lemmas for C09: validity on surrogate-free strings; association-list facts for the map of map.c.
-/
namespace CifModel.Lemmas.Names
open CifModel CifModel.Model CifModel.Spec

/-- `omega` after unfolding the abbreviation `CU := Nat` in the hypotheses -/
macro "omega_n" : tactic => `(tactic| ((try simp only [CU] at *); omega))

theorem decode_bmp : ∀ (s : List Nat), noSurrogates s → decode s = s.map some := by
  intro s
  induction s with
  | nil => intro _; rfl
  | cons c rest ih =>
    intro h
    have hc : c < 0xd800 ∨ (0xe000 ≤ c ∧ c < 0x10000) := h c (by simp)
    have h1 : ¬ (0xd800 ≤ c ∧ c ≤ 0xdbff) := by omega
    have h2 : ¬ (0xdc00 ≤ c ∧ c ≤ 0xdfff) := by omega
    have := ih (fun d hd => h d (List.mem_cons_of_mem _ hd))
    unfold decode
    simp only [h1, h2, if_false, List.map_cons, this]

theorem count_bmp : ∀ (s : List Nat), noSurrogates s → countChar32 s = s.length := by
  intro s
  induction s with
  | nil => intro _; rfl
  | cons c rest ih =>
    intro h
    have hc : c < 0xd800 ∨ (0xe000 ≤ c ∧ c < 0x10000) := h c (by simp)
    have h1 : ¬ (0xd800 ≤ c ∧ c ≤ 0xdbff) := by omega
    have := ih (fun d hd => h d (List.mem_cons_of_mem _ hd))
    unfold countChar32
    simp only [h1, if_false, this, List.length_cons]; omega

theorem disallowed_bmp : ∀ (s : List Nat), noSurrogates s → hasDisallowed s = s.any bmpDisallowed := by
  intro s
  induction s with
  | nil => intro _; rfl
  | cons c rest ih =>
    intro h
    have hc : c < 0xd800 ∨ (0xe000 ≤ c ∧ c < 0x10000) := h c (by simp)
    have h1 : c < 0xd800 ∨ c > 0xdfff := by omega
    have := ih (fun d hd => h d (List.mem_cons_of_mem _ hd))
    unfold hasDisallowed
    simp only [h1, if_true, this, List.any_cons]
    cases bmpDisallowed c <;> simp

/-- on a BMP unit: "not whitespace and not disallowed" is `nameChar` -/
theorem unit_ok (c : Nat) (hc : c < 0xd800 ∨ (0xe000 ≤ c ∧ c < 0x10000)) :
    (decide (c ≤ 0x20) = false ∧ bmpDisallowed c = false) ↔ nameChar c := by
  unfold bmpDisallowed nameChar
  simp only [decide_eq_false_iff_not, Bool.or_eq_false_iff, Bool.and_eq_false_iff, bne_eq_false_iff_eq, decide_eq_false_iff_not]
  simp only [Nat.not_le, Nat.not_lt, ge_iff_le, gt_iff_lt]
  constructor
  · rintro ⟨h1, ⟨⟨h2, h3⟩, h4⟩, h5⟩
    refine ⟨h1, ?_, ?_, ?_⟩
    · rcases h3 with h | h <;> omega
    · rcases h4 with h | h <;> omega
    · omega
  · rintro ⟨h1, h2, h3, h4⟩
    refine ⟨by omega, ⟨⟨?_, ?_⟩, ?_⟩, by omega⟩
    · left; left; left; omega
    · by_cases h : c < 127
      · left; exact h
      · right; omega
    · by_cases h : c ≤ 64975
      · left; exact h
      · right; omega


/-! ### surrogate pairs: the masks of `cif_has_disallowed_chars` against code-point arithmetic -/

theorem and3fe_tab : (List.range 1024).all (fun k => ((56320 + k) &&& 1022 == 1022) == decide (1022 ≤ k)) = true := by
  decide +kernel
theorem and3f_tab : (List.range 1024).all (fun k => ((55296 + k) &&& 63 == 63) == decide (k % 64 = 63)) = true := by
  decide +kernel

theorem and3fe (k : Nat) (h : k < 1024) : ((56320 + k) &&& 1022 = 1022) ↔ 1022 ≤ k := by
  have := List.all_eq_true.mp and3fe_tab k (List.mem_range.mpr h)
  simp only [beq_iff_eq] at this
  by_cases h2 : 1022 ≤ k <;> simp_all

theorem and3f (k : Nat) (h : k < 1024) : ((55296 + k) &&& 63 = 63) ↔ k % 64 = 63 := by
  have := List.all_eq_true.mp and3f_tab k (List.mem_range.mpr h)
  simp only [beq_iff_eq] at this
  by_cases h2 : k % 64 = 63 <;> simp_all

/-- the pair `(c, d)` encodes a non-character U+xFFFE / U+xFFFF exactly when the C's mask test fires -/
theorem pair_nonchar (c d : Nat) (hc : 55296 ≤ c ∧ c ≤ 56319) (hd : 56320 ≤ d ∧ d ≤ 57343) :
    (d &&& 0x3fe = 0x3fe ∧ c &&& 0x3f = 0x3f) ↔ ¬ ((0x10000 + (c - 0xd800) * 1024 + (d - 0xdc00)) % 0x10000 < 0xfffe) := by
  obtain ⟨k1, rfl⟩ : ∃ k, c = 55296 + k := ⟨c - 55296, by omega⟩
  obtain ⟨k2, rfl⟩ : ∃ k, d = 56320 + k := ⟨d - 56320, by omega⟩
  have h1 : k1 < 1024 := by omega
  have h2 : k2 < 1024 := by omega
  have e1 := and3f k1 h1
  have e2 := and3fe k2 h2
  rw [e1, e2]
  omega

/-- a supplementary code point is a name character unless it is a non-character -/
theorem nameChar_supp (cp : Nat) (h : 0x10000 ≤ cp) : nameChar cp ↔ cp % 0x10000 < 0xfffe := by
  unfold nameChar; constructor
  · intro h'; exact h'.2.2.2
  · intro h'; exact ⟨by omega, by omega, by omega, h'⟩

/-- all decoded characters are name characters -/
def charsOk (l : List (Option Nat)) : Prop := ∀ x ∈ l, ∃ cp, x = some cp ∧ nameChar cp

theorem charsOk_cons_some (cp : Nat) (l : List (Option Nat)) : charsOk (some cp :: l) ↔ nameChar cp ∧ charsOk l := by
  unfold charsOk; constructor
  · intro h
    refine ⟨?_, fun x hx => h x (List.mem_cons_of_mem _ hx)⟩
    obtain ⟨cp', e, hn⟩ := h (some cp) (by simp); cases e; exact hn
  · rintro ⟨h1, h2⟩ x hx
    rcases List.mem_cons.mp hx with rfl | hx
    · exact ⟨cp, rfl, h1⟩
    · exact h2 x hx

theorem charsOk_cons_none (l : List (Option Nat)) : ¬ charsOk (none :: l) := by
  intro h; obtain ⟨cp, e, _⟩ := h none (by simp); cases e

theorem hasWhitespace_cons (c : Nat) (r : List Nat) : hasWhitespace (c :: r) = (decide (c ≤ 0x20) || hasWhitespace r) := by
  simp [hasWhitespace]

/-- the whole scan: code-point count, and "no whitespace, nothing disallowed" = "every character is a name character",
    for every string of 16-bit units -/
theorem scan_spec : ∀ (s : List Nat), (∀ c ∈ s, c < 0x10000) →
    countChar32 s = (decode s).length ∧ ((hasWhitespace s = false ∧ hasDisallowed s = false) ↔ charsOk (decode s)) := by
  intro s
  induction s using decode.induct with
  | case1 => intro _; exact ⟨rfl, by simp [hasWhitespace, hasDisallowed, decode, charsOk]⟩
  | case2 c hc =>
    intro _
    have h1 : ¬ (c < 0xd800 ∨ c > 0xdfff) := by omega_n
    have h2 : ¬ (c ≥ 0xdc00) := by omega_n
    refine ⟨by simp [countChar32, decode, hc], ?_⟩
    have hd : hasDisallowed [c] = true := by unfold hasDisallowed; simp only [h1, h2, if_false]
    have hdec : decode [c] = [none] := by unfold decode; simp only [hc, and_self, if_true]
    rw [hd, hdec]
    exact ⟨fun h => (by cases h.2), fun h => absurd h (charsOk_cons_none _)⟩
  | case3 c hc d rest' hd ih =>
    intro hs
    obtain ⟨i1, i2⟩ := ih (fun x hx => hs x (List.mem_cons_of_mem _ (List.mem_cons_of_mem _ hx)))
    have h1 : ¬ (c < 0xd800 ∨ c > 0xdfff) := by omega_n
    have h2 : ¬ (c ≥ 0xdc00) := by omega_n
    have h3 : ¬ (d < 0xdc00 ∨ d > 0xdfff) := by omega_n
    have hdec : decode (c :: d :: rest') = some (0x10000 + (c - 0xd800) * 1024 + (d - 0xdc00)) :: decode rest' := by
      rw [decode]; simp only [hc, hd, and_self, if_true]
    have hcnt : countChar32 (c :: d :: rest') = 1 + countChar32 rest' := by
      rw [countChar32]; simp only [hc, hd, and_self, if_true]
    have hdis : hasDisallowed (c :: d :: rest') =
        if d &&& 0x3fe = 0x3fe ∧ c &&& 0x3f = 0x3f then true else hasDisallowed rest' := by
      rw [hasDisallowed]; simp only [h1, h2, h3, if_false]
    have hws : hasWhitespace (c :: d :: rest') = hasWhitespace rest' := by
      rw [hasWhitespace_cons, hasWhitespace_cons]
      have : decide (c ≤ 0x20) = false := by simp; omega_n
      have : decide (d ≤ 0x20) = false := by simp; omega_n
      simp [*]
    refine ⟨by rw [hcnt, hdec, i1]; simp; omega_n, ?_⟩
    rw [hdec, charsOk_cons_some, nameChar_supp _ (by omega_n), hws, hdis, ← i2]
    have hp := pair_nonchar c d hc hd
    by_cases hm : d &&& 0x3fe = 0x3fe ∧ c &&& 0x3f = 0x3f
    · have := hp.1 hm
      simp only [hm, and_self, if_true]
      exact ⟨fun h => (by cases h.2), fun h => absurd h.1 this⟩
    · have : (0x10000 + (c - 0xd800) * 1024 + (d - 0xdc00)) % 0x10000 < 0xfffe := by
        apply Classical.byContradiction; intro h; exact hm (hp.2 h)
      simp only [hm, if_false]
      exact ⟨fun h => ⟨this, h⟩, fun h => h.2⟩
  | case4 c hc d rest' hd ih =>
    intro hs
    obtain ⟨i1, _⟩ := ih (fun x hx => hs x (List.mem_cons_of_mem _ hx))
    have h1 : ¬ (c < 0xd800 ∨ c > 0xdfff) := by omega_n
    have h2 : ¬ (c ≥ 0xdc00) := by omega_n
    have h3 : d < 0xdc00 ∨ d > 0xdfff := by omega_n
    have hdec : decode (c :: d :: rest') = none :: decode (d :: rest') := by
      rw [decode]; simp only [hc, hd, and_self, if_true, if_false]
    have hcnt : countChar32 (c :: d :: rest') = 1 + countChar32 (d :: rest') := by
      rw [countChar32]; simp only [hc, hd, and_self, if_true, if_false]
    have hdis : hasDisallowed (c :: d :: rest') = true := by
      rw [hasDisallowed]; simp only [h1, h2, h3, if_false, if_true]
    refine ⟨by rw [hcnt, hdec, i1]; simp; omega_n, ?_⟩
    rw [hdec, hdis]
    exact ⟨fun h => (by cases h.2), fun h => absurd h (charsOk_cons_none _)⟩
  | case5 c rest hc hd ih =>
    intro hs
    obtain ⟨i1, _⟩ := ih (fun x hx => hs x (List.mem_cons_of_mem _ hx))
    have h1 : ¬ (c < 0xd800 ∨ c > 0xdfff) := by omega_n
    have h2 : c ≥ 0xdc00 := by omega_n
    have hdec : decode (c :: rest) = none :: decode rest := by
      rw [decode.eq_def]; simp only [hc, hd, and_self, if_true, if_false]
    have hcnt : countChar32 (c :: rest) = 1 + countChar32 rest := by
      rw [countChar32.eq_def]; simp only [hc, if_false]
    have hdis : hasDisallowed (c :: rest) = true := by
      rw [hasDisallowed.eq_def]; simp only [h1, h2, if_false, if_true]
    refine ⟨by rw [hcnt, hdec, i1]; simp; omega_n, ?_⟩
    rw [hdec, hdis]
    exact ⟨fun h => (by cases h.2), fun h => absurd h (charsOk_cons_none _)⟩
  | case6 c rest hc hd ih =>
    intro hs
    obtain ⟨i1, i2⟩ := ih (fun x hx => hs x (List.mem_cons_of_mem _ hx))
    have hlt : c < 0x10000 := hs c (by simp)
    have h1 : c < 0xd800 ∨ c > 0xdfff := by omega_n
    have hdec : decode (c :: rest) = some c :: decode rest := by
      rw [decode.eq_def]; simp only [hc, hd, if_false]
    have hcnt : countChar32 (c :: rest) = 1 + countChar32 rest := by
      rw [countChar32.eq_def]; simp only [hc, if_false]
    have hdis : hasDisallowed (c :: rest) = if bmpDisallowed c = true then true else hasDisallowed rest := by
      rw [hasDisallowed.eq_def]; simp only [h1, if_true]
    refine ⟨by rw [hcnt, hdec, i1]; simp; omega_n, ?_⟩
    rw [hdec, charsOk_cons_some, hasWhitespace_cons, hdis, ← i2, ← unit_ok c (by omega_n)]
    cases hb : bmpDisallowed c <;> cases hw : decide (c ≤ 0x20) <;> simp

theorem decode_eq_nil (s : List Nat) : decode s = [] ↔ s = [] := by
  cases s with
  | nil => simp [decode]
  | cons c r =>
    simp only [reduceCtorEq, iff_false]
    unfold decode
    split
    · cases r with
      | nil => simp
      | cons d r' => simp only []; split <;> simp
    · split <;> simp


theorem decode_len_pos (c : Nat) (r : List Nat) : 1 ≤ (decode (c :: r)).length := by
  have : decode (c :: r) ≠ [] := fun h => by have := (decode_eq_nil (c :: r)).1 h; cases this
  cases h : decode (c :: r) with
  | nil => exact absurd h this
  | cons a b => simp

/-- the head of the decoding is `_` exactly when the first unit is -/
theorem decode_head (a : Nat) (r : List Nat) : (decode (a :: r)).head? = some (some 95) ↔ a = 95 := by
  rw [decode.eq_def]
  simp only []
  by_cases h1 : 55296 ≤ a ∧ a ≤ 56319
  · simp only [h1, and_self, if_true]
    cases r with
    | nil => simp; omega
    | cons d r' =>
      simp only []
      split
      · simp; omega
      · simp; omega
  · by_cases h2 : 56320 ≤ a ∧ a ≤ 57343
    · simp only [h1, h2, and_self, if_false, if_true]; simp; omega
    · simp only [h1, h2, if_false]; simp

theorem start_spec (forItem : Bool) (s : List Nat) : startOk forItem s = true ↔
    (if forItem then (decode s).head? = some (some 95) ∧ 2 ≤ (decode s).length else 1 ≤ (decode s).length) := by
  cases forItem
  · cases s with
    | nil => simp [startOk, decode]
    | cons c r => have := decode_len_pos c r; simp [startOk]; omega
  · rcases s with _ | ⟨a, _ | ⟨b, r⟩⟩
    · simp [startOk, decode]
    · have hlen : (decode [a]).length = 1 := by
        rw [decode.eq_def]; simp only []; split
        · rfl
        · split <;> rfl
      simp [startOk, hlen]
    · simp only [startOk, if_true, beq_iff_eq]
      rw [decode_head]
      constructor
      · rintro rfl
        refine ⟨rfl, ?_⟩
        have : decode (95 :: b :: r) = some 95 :: decode (b :: r) := by
          rw [decode.eq_def]; simp
        rw [this]; have := decode_len_pos b r; simp; omega
      · exact fun h => h.1


/-! ### the overwrite-in-place branch of `cif_map_set_item` -/

section overwrite
variable {α : Type} (k key : Str) (v : α)

theorem find_overwrite : ∀ (l : Entries α), (Entries.find l k).isSome = true →
    Entries.find (l.map fun e => if e.1 == k then (k, key, v) else e) k = some (k, key, v) := by
  intro l
  induction l with
  | nil => intro h; simp [Entries.find] at h
  | cons x xs ih =>
    intro h
    by_cases hx : (x.1 == k) = true
    · simp only [Entries.find, List.map_cons, hx, if_true, List.find?_cons]
      simp
    · have hx' : (x.1 == k) = false := by simpa using hx
      have h' : (Entries.find xs k).isSome = true := by simpa [Entries.find, List.find?_cons, hx'] using h
      have := ih h'
      simp only [Entries.find] at this ⊢
      simp only [List.map_cons, hx', Bool.false_eq_true, if_false, List.find?_cons]
      exact this

theorem find_other (k2 : Str) (hne : k2 ≠ k) : ∀ (l : Entries α),
    Entries.find (l.map fun e => if e.1 == k then (k, key, v) else e) k2 = Entries.find l k2 := by
  intro l
  induction l with
  | nil => rfl
  | cons x xs ih =>
    simp only [Entries.find] at ih ⊢
    by_cases hx : (x.1 == k) = true
    · have e1 : x.1 = k := by simpa using hx
      have hk2 : (k == k2) = false := by simpa using fun e => hne e.symm
      have hk3 : (x.1 == k2) = false := by rw [e1]; exact hk2
      simp only [List.map_cons, hx, if_true, List.find?_cons, hk2, hk3]
      exact ih
    · have hx' : (x.1 == k) = false := by simpa using hx
      simp only [List.map_cons, hx', Bool.false_eq_true, if_false, List.find?_cons]
      cases (x.1 == k2) with
      | true => rfl
      | false => exact ih

end overwrite

end CifModel.Lemmas.Names
