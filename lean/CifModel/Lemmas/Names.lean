import CifModel.Model.Normalize
import CifModel.Spec.Names
/-
  Lemmas for C09: validity on surrogate-free strings; association-list facts for the map of map.c.
-/
namespace CifModel.Lemmas.Names
open CifModel CifModel.Model CifModel.Spec

theorem decode_bmp : ∀ (s : List Nat), noSurrogates s → decode s = s.map some := by
  intro s
  induction s with
  | nil => intro _; rfl
  | cons c rest ih =>
    intro h
    have hc : c < 0xd800 ∨ (0xe000 ≤ c ∧ c < 0x10000) := h c (by simp)
    have h1 : ¬ (0xd800 ≤ c ∧ c ≤ 0xdbff) := by omega
    have h2 : ¬ (0xdc00 ≤ c ∧ c ≤ 0xdfff) := by omega
    have := ih (fun d hd => h d (List.mem_cons_of_mem _ hd))
    unfold decode
    simp only [h1, h2, if_false, List.map_cons, this]

theorem count_bmp : ∀ (s : List Nat), noSurrogates s → countChar32 s = s.length := by
  intro s
  induction s with
  | nil => intro _; rfl
  | cons c rest ih =>
    intro h
    have hc : c < 0xd800 ∨ (0xe000 ≤ c ∧ c < 0x10000) := h c (by simp)
    have h1 : ¬ (0xd800 ≤ c ∧ c ≤ 0xdbff) := by omega
    have := ih (fun d hd => h d (List.mem_cons_of_mem _ hd))
    unfold countChar32
    simp only [h1, if_false, this, List.length_cons]; omega

theorem disallowed_bmp : ∀ (s : List Nat), noSurrogates s → hasDisallowed s = s.any bmpDisallowed := by
  intro s
  induction s with
  | nil => intro _; rfl
  | cons c rest ih =>
    intro h
    have hc : c < 0xd800 ∨ (0xe000 ≤ c ∧ c < 0x10000) := h c (by simp)
    have h1 : c < 0xd800 ∨ c > 0xdfff := by omega
    have := ih (fun d hd => h d (List.mem_cons_of_mem _ hd))
    unfold hasDisallowed
    simp only [h1, if_true, this, List.any_cons]
    cases bmpDisallowed c <;> simp

/-- on a BMP unit: "not whitespace and not disallowed" is `nameChar` -/
theorem unit_ok (c : Nat) (hc : c < 0xd800 ∨ (0xe000 ≤ c ∧ c < 0x10000)) :
    (decide (c ≤ 0x20) = false ∧ bmpDisallowed c = false) ↔ nameChar c := by
  unfold bmpDisallowed nameChar
  simp only [decide_eq_false_iff_not, Bool.or_eq_false_iff, Bool.and_eq_false_iff, bne_eq_false_iff_eq, decide_eq_false_iff_not]
  simp only [Nat.not_le, Nat.not_lt, ge_iff_le, gt_iff_lt]
  constructor
  · rintro ⟨h1, ⟨⟨h2, h3⟩, h4⟩, h5⟩
    refine ⟨h1, ?_, ?_, ?_⟩
    · rcases h3 with h | h <;> omega
    · rcases h4 with h | h <;> omega
    · omega
  · rintro ⟨h1, h2, h3, h4⟩
    refine ⟨by omega, ⟨⟨?_, ?_⟩, ?_⟩, by omega⟩
    · left; left; left; omega
    · by_cases h : c < 127
      · left; exact h
      · right; omega
    · by_cases h : c ≤ 64975
      · left; exact h
      · right; omega

end CifModel.Lemmas.Names
