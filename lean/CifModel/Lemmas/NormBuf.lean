import CifModel.Model.NormalizeBuf
/-
  Lemmas about the buffer-level model of cif_unicode_normalize / cif_fold_case / cif_normalize (Model/NormalizeBuf.lean):
  under the capacity contract of the ICU calls the retry loops have a closed form (`loopSpec`) that does not mention the fuel.
-/
namespace CifModel.Lemmas.NormBuf
open CifModel CifModel.Model CifModel.Model.NormBuf CifModel.Gen.ErrCodes

/-- closed form of the retry loop entered with capacity `cap`, for a call that computes `f` under the contract:
    at most two ICU calls -/
def loopSpec (f : Str → Str) (x : Str) (terminate : Bool) (cap : Nat) : Res (Buf × Nat) :=
  if (f x).length < cap then ([.icu cap (f x).length .zero], .ok (⟨cap, f x ++ [0]⟩, (f x).length))
  else if (f x).length = cap then
    if terminate then ([.icu cap (f x).length .notTerminated, .realloc ((f x).length + 1)], .ok (⟨(f x).length + 1, f x ++ [0]⟩, (f x).length))
    else ([.icu cap (f x).length .notTerminated], .ok (⟨cap, f x⟩, (f x).length))
  else ([.icu cap (f x).length .overflow, .free, .malloc ((f x).length + 1), .icu ((f x).length + 1) (f x).length .zero],
        .ok (⟨(f x).length + 1, f x ++ [0]⟩, (f x).length))

theorem normLoop_fits {f : Str → Str} {call : IcuCall} (hc : CallContract f call) (x : Str) (terminate : Bool) (fuel cap : Nat)
    (h : (f x).length < cap) :
    normLoop call x terminate (fuel + 1) cap = ([.icu cap (f x).length .zero], .ok (⟨cap, f x ++ [0]⟩, (f x).length)) := by
  have hle : (f x).length + 1 ≤ cap := by omega
  simp [normLoop, hc.fits x cap h, Buf.fill, hle]

theorem normLoop_eq {f : Str → Str} {call : IcuCall} (hc : CallContract f call) (x : Str) (terminate : Bool) (fuel cap : Nat)
    (hf : 2 ≤ fuel) : normLoop call x terminate fuel cap = loopSpec f x terminate cap := by
  obtain ⟨k, rfl⟩ : ∃ k, fuel = k + 2 := ⟨fuel - 2, by omega⟩
  unfold loopSpec
  by_cases h1 : (f x).length < cap
  · rw [if_pos h1]; exact normLoop_fits hc x terminate (k + 1) cap h1
  · rw [if_neg h1]
    by_cases h2 : (f x).length = cap
    · rw [if_pos h2]
      cases terminate with
      | false => simp [normLoop, hc.exact x cap h2, Buf.fill, h2]
      | true =>
        have ht : List.take (cap + 1) (f x) = f x := List.take_of_length_le (by omega)
        simp [normLoop, hc.exact x cap h2, Buf.fill, Buf.realloc, Buf.store, ht, h2]
    · rw [if_neg h2]
      have h3 : cap < (f x).length := by omega
      obtain ⟨e1, e2, e3⟩ := hc.over x cap h3
      have hrec := normLoop_fits hc x terminate k ((f x).length + 1) (by omega)
      rw [normLoop]
      simp only [e1, e2, Buf.fill, e3, ↓reduceIte, hrec]
      simp

theorem foldLoop_eq_normLoop (call : IcuCall) (x : Str) (fuel cap : Nat) :
    foldLoop call x fuel cap = normLoop call x false fuel cap := by
  induction fuel generalizing cap with
  | zero => rfl
  | succ k ih =>
    rw [foldLoop, normLoop]
    simp only [ih]
    split <;> simp

theorem foldLoop_eq {f : Str → Str} {call : IcuCall} (hc : CallContract f call) (x : Str) (fuel cap : Nat) (hf : 2 ≤ fuel) :
    foldLoop call x fuel cap = loopSpec f x false cap := by
  rw [foldLoop_eq_normLoop, normLoop_eq hc x false fuel cap hf]

/-- what the closed form delivers: the block holds `f x` in its first `length` units — followed by the terminator when one was
    asked for —, everything initialised lies inside the block, at most two ICU calls were made, and the loop itself releases as
    many blocks as it allocates -/
theorem loopSpec_ok (f : Str → Str) (x : Str) (terminate : Bool) (cap : Nat) :
    ∃ buf, (loopSpec f x terminate cap).2 = .ok (buf, (f x).length) ∧
      buf.data.take (f x).length = f x ∧ (f x).length ≤ buf.data.length ∧ buf.data.length ≤ buf.cap ∧
      (terminate = true → buf.data = f x ++ [0]) ∧
      (buf.data = f x ∨ buf.data = f x ++ [0]) ∧
      icuCalls (loopSpec f x terminate cap).1 ≤ 2 ∧ 1 ≤ icuCalls (loopSpec f x terminate cap).1 ∧
      liveBlocks (loopSpec f x terminate cap).1 = 0 := by
  unfold loopSpec
  by_cases h1 : (f x).length < cap
  · rw [if_pos h1]
    refine ⟨_, rfl, ?_, ?_, ?_, fun _ => rfl, Or.inr rfl, ?_, ?_, ?_⟩ <;> simp [icuCalls, liveBlocks]
    omega
  · rw [if_neg h1]
    by_cases h2 : (f x).length = cap
    · rw [if_pos h2]
      cases terminate with
      | true =>
        refine ⟨_, rfl, ?_, ?_, ?_, fun _ => rfl, Or.inr rfl, ?_, ?_, ?_⟩ <;> simp [icuCalls, liveBlocks]
      | false =>
        refine ⟨_, rfl, List.take_of_length_le (by simp), ?_, ?_, ?_, Or.inl rfl, ?_, ?_, ?_⟩ <;> simp [icuCalls, liveBlocks, h2]
    · rw [if_neg h2]
      refine ⟨_, rfl, ?_, ?_, ?_, fun _ => rfl, Or.inr rfl, ?_, ?_, ?_⟩ <;> simp [icuCalls, liveBlocks]

theorem srcChars_nat (mem : Str) (n : Nat) (h : n ≤ mem.length) : srcChars mem (n : Int) = .ok n := by
  simp [srcChars, h]

theorem take_takeWhile_length (p : CU → Bool) (l : Str) : l.take (l.takeWhile p).length = l.takeWhile p := by
  induction l with
  | nil => rfl
  | cons a t ih =>
    by_cases ha : p a = true
    · simp [List.takeWhile, ha, ih]
    · simp [List.takeWhile, ha]

/-- `srclen < 0`: the logical string is the C string at the pointer -/
theorem srcChars_neg (mem : Str) (srclen : Int) (hneg : srclen < 0) (h0 : mem.contains 0 = true) :
    srcChars mem srclen = .ok (cstrOf mem).length ∧ logical mem (cstrOf mem).length = cstrOf mem := by
  constructor
  · have : ¬ (0 ≤ srclen) := by omega
    simp only [srcChars, this, ↓reduceIte, h0, cstrOf]
  · exact take_takeWhile_length _ mem

theorem srcChars_le (mem : Str) (srclen : Int) (n : Nat) (h : srcChars mem srclen = .ok n) : n ≤ mem.length := by
  unfold srcChars at h
  split at h
  · split at h
    · cases h; assumption
    · cases h
  · split at h
    · cases h; exact (List.takeWhile_sublist _).length_le
    · cases h

theorem unicodeNormalize_eq {f : Str → Str} {call : IcuCall} (hc : CallContract f call) (guess : Nat → Nat) (mem : Str) (srclen : Int)
    (n : Nat) (terminate : Bool) (fuel : Nat) (hf : 2 ≤ fuel) (hs : srcChars mem srclen = .ok n) :
    unicodeNormalize call guess mem srclen terminate fuel
      = (.malloc (guess n) :: (loopSpec f (logical mem n) terminate (guess n)).1, (loopSpec f (logical mem n) terminate (guess n)).2) := by
  simp only [unicodeNormalize, hs, normLoop_eq hc _ terminate fuel _ hf]

theorem foldCase_eq {f : Str → Str} {call : IcuCall} (hc : CallContract f call) (guess : Nat → Nat) (mem : Str) (srclen : Int)
    (n : Nat) (fuel : Nat) (hf : 2 ≤ fuel) (hs : srcChars mem srclen = .ok n) :
    foldCase call guess mem srclen fuel
      = (.malloc (guess n) :: (loopSpec f (logical mem n) false (guess n)).1, (loopSpec f (logical mem n) false (guess n)).2) := by
  simp only [foldCase, hs, foldLoop_eq hc _ fuel _ hf]

theorem icuCalls_append (a b : List Ev) : icuCalls (a ++ b) = icuCalls a + icuCalls b := by
  simp [icuCalls]

theorem icuCalls_cons_malloc (n : Nat) (t : List Ev) : icuCalls (.malloc n :: t) = icuCalls t := by
  simp [icuCalls]

theorem icuCalls_free : icuCalls [Ev.free] = 0 := rfl

theorem liveBlocks_append (a b : List Ev) : liveBlocks (a ++ b) = liveBlocks a + liveBlocks b := by
  induction a with
  | nil => simp [liveBlocks]
  | cons e t ih =>
    cases e <;> simp [liveBlocks, ih] <;> omega

/-- the C string at a block holding `k` + terminator is `k` when `k` is NUL-free -/
theorem cstr_of_terminated (k : Str) (h0 : (0 : CU) ∉ k) (cap : Nat) : (Buf.mk cap (k ++ [0])).cstr = k := by
  unfold Buf.cstr
  simp only
  induction k with
  | nil => simp
  | cons a t ih =>
    have ha : a ≠ 0 := fun e => h0 (by simp [e])
    have ht : (0 : CU) ∉ t := fun h => h0 (List.mem_cons_of_mem _ h)
    simp [ha, ih ht]

/-- the trace of a successful `cif_normalize` on the logical string `x` of `n` source units -/
def specTrace (U : UnicodeOps) (guess : Nat → Nat) (n : Nat) (x : Str) (want : Bool) : List Ev :=
  (Ev.malloc (guess n) :: (loopSpec U.nfd x false (guess n)).1)
    ++ (Ev.malloc (guess (U.nfd x).length) :: (loopSpec U.fold (U.nfd x) false (guess (U.nfd x).length)).1) ++ [Ev.free]
    ++ (Ev.malloc (guess (U.fold (U.nfd x)).length) :: (loopSpec U.nfc (U.fold (U.nfd x)) true (guess (U.fold (U.nfd x)).length)).1)
    ++ [Ev.free] ++ (if want then [] else [Ev.free])

/-- **the whole of cif_normalize at buffer level, in closed form.** -/
theorem cifNormalizeBuf_spec (U : UnicodeOps) (I : IcuOps) (hI : Contract U I) (guess : Nat → Nat) (mem : Str) (srclen : Int)
    (n : Nat) (want : Bool) (fuel : Nat) (hf : 2 ≤ fuel) (hs : srcChars mem srclen = .ok n) :
    ∃ cap, cifNormalizeBuf I guess mem srclen want fuel
        = (specTrace U guess n (logical mem n) want, .ok ⟨cap, cifNormalize U (logical mem n) ++ [0]⟩) ∧
      (cifNormalize U (logical mem n)).length + 1 ≤ cap ∧
      3 ≤ icuCalls (specTrace U guess n (logical mem n) want) ∧ icuCalls (specTrace U guess n (logical mem n) want) ≤ 6 ∧
      liveBlocks (specTrace U guess n (logical mem n) want) = (if want then 1 else 0) := by
  -- stage 1: NFD, unterminated
  obtain ⟨b1, e1, k1, l1, c1, _, _, i1, j1, v1⟩ := loopSpec_ok U.nfd (logical mem n) false (guess n)
  have s1 := unicodeNormalize_eq hI.nfd guess mem srclen n false fuel hf hs
  -- stage 2: fold, source = the first `result_length` units of the NFD block
  have hs2 : srcChars b1.data ((U.nfd (logical mem n)).length : Int) = .ok (U.nfd (logical mem n)).length := srcChars_nat _ _ l1
  have hl2 : logical b1.data (U.nfd (logical mem n)).length = U.nfd (logical mem n) := k1
  obtain ⟨b2, e2, k2, l2, c2, _, _, i2, j2, v2⟩ := loopSpec_ok U.fold (U.nfd (logical mem n)) false (guess (U.nfd (logical mem n)).length)
  have s2 := foldCase_eq hI.fold guess b1.data _ _ fuel hf hs2
  rw [hl2] at s2
  -- stage 3: NFC, terminated
  have hs3 : srcChars b2.data ((U.fold (U.nfd (logical mem n))).length : Int) = .ok (U.fold (U.nfd (logical mem n))).length :=
    srcChars_nat _ _ l2
  have hl3 : logical b2.data (U.fold (U.nfd (logical mem n))).length = U.fold (U.nfd (logical mem n)) := k2
  obtain ⟨b3, e3, k3, l3, c3, t3, _, i3, j3, v3⟩ :=
    loopSpec_ok U.nfc (U.fold (U.nfd (logical mem n))) true (guess (U.fold (U.nfd (logical mem n))).length)
  have s3 := unicodeNormalize_eq hI.nfc guess b2.data _ _ true fuel hf hs3
  rw [hl3] at s3
  have hd3 : b3.data = cifNormalize U (logical mem n) ++ [0] := t3 rfl
  refine ⟨b3.cap, ?_, ?_, ?_, ?_, ?_⟩
  · unfold cifNormalizeBuf specTrace
    rw [s1, e1]
    simp only
    rw [s2, e2]
    simp only
    rw [s3, e3]
    simp only
    have : b3 = ⟨b3.cap, cifNormalize U (logical mem n) ++ [0]⟩ := by cases b3; simp_all
    rw [← this]
  · have := c3; rw [hd3] at this; simpa using this
  · simp only [specTrace, icuCalls_append, icuCalls_cons_malloc, icuCalls_free]
    have : icuCalls (if want = true then [] else [Ev.free]) = 0 := by cases want <;> rfl
    omega
  · simp only [specTrace, icuCalls_append, icuCalls_cons_malloc, icuCalls_free]
    have : icuCalls (if want = true then [] else [Ev.free]) = 0 := by cases want <;> rfl
    omega
  · simp only [specTrace, liveBlocks_append, liveBlocks, v1, v2, v3]
    cases want <;> simp [liveBlocks]

/-- the canonical call satisfies the contract -/
theorem icuOf_contract (f : Str → Str) : CallContract f (icuOf f) := by
  constructor
  · intro x cap h; simp [icuOf, h]
  · intro x cap h
    have : ¬ (f x).length < cap := by omega
    simp [icuOf, h]
  · intro x cap h
    have h1 : ¬ (f x).length < cap := by omega
    have h2 : ¬ (f x).length = cap := by omega
    simp [icuOf, h1, h2]
    omega

theorem of_contract (U : UnicodeOps) : Contract U (IcuOps.of U) :=
  ⟨icuOf_contract _, icuOf_contract _, icuOf_contract _⟩

/-- `cif_normalize_name` / `cif_normalize_item_name` at buffer level: the verdict is `isValidName` of the C string at `name`; a valid
    name yields a block holding `cif_normalize` of the logical string + terminator -/
theorem normalizeNameBuf_spec (U : UnicodeOps) (I : IcuOps) (hI : Contract U I) (guess : Nat → Nat) (forItem : Bool) (mem : Str)
    (namelen : Int) (n : Nat) (code : Code) (want : Bool) (fuel : Nat) (hf : 2 ≤ fuel) (h0 : mem.contains 0 = true)
    (hs : srcChars mem namelen = .ok n) :
    (isValidName forItem (cstrOf mem) = false →
      normalizeNameBuf I guess forItem (some mem) namelen code want fuel = ([], .error (.code code))) ∧
    (isValidName forItem (cstrOf mem) = true →
      ∃ cap, normalizeNameBuf I guess forItem (some mem) namelen code want fuel
          = (specTrace U guess n (logical mem n) want, .ok ⟨cap, cifNormalize U (logical mem n) ++ [0]⟩) ∧
        (cifNormalize U (logical mem n)).length + 1 ≤ cap) := by
  have h0' : (0 : CU) ∈ mem := by simpa using h0
  constructor
  · intro hv; simp [normalizeNameBuf, h0', hv]
  · intro hv
    obtain ⟨cap, e, hc, _⟩ := cifNormalizeBuf_spec U I hI guess mem namelen n want fuel hf hs
    exact ⟨cap, by simp [normalizeNameBuf, h0', hv, e], hc⟩

/-- `cif_normalize_table_index` at buffer level -/
theorem normalizeTableIndexBuf_spec (U : UnicodeOps) (I : IcuOps) (hI : Contract U I) (guess : Nat → Nat) (mem : Str)
    (namelen : Int) (n : Nat) (code : Code) (want : Bool) (fuel : Nat) (hf : 2 ≤ fuel) (h0 : mem.contains 0 = true)
    (hs : srcChars mem namelen = .ok n) :
    (hasDisallowed (cstrOf mem) = true →
      normalizeTableIndexBuf I guess (some mem) namelen code want fuel = ([], .error (.code code))) ∧
    (hasDisallowed (cstrOf mem) = false →
      ∃ t cap, normalizeTableIndexBuf I guess (some mem) namelen code want fuel = (t, .ok ⟨cap, U.nfc (logical mem n) ++ [0]⟩) ∧
        (U.nfc (logical mem n)).length + 1 ≤ cap ∧ icuCalls t ≤ 2 ∧ liveBlocks t = (if want then 1 else 0)) := by
  have h0' : (0 : CU) ∈ mem := by simpa using h0
  constructor
  · intro hv; simp [normalizeTableIndexBuf, h0', hv]
  · intro hv
    obtain ⟨b, e, _, _, c, t, _, i, _, v⟩ := loopSpec_ok U.nfc (logical mem n) true (guess n)
    have s := unicodeNormalize_eq hI.nfc guess mem namelen n true fuel hf hs
    have hd : b.data = U.nfc (logical mem n) ++ [0] := t rfl
    have hb : b = ⟨b.cap, U.nfc (logical mem n) ++ [0]⟩ := by cases b; simp_all
    refine ⟨(Ev.malloc (guess n) :: (loopSpec U.nfc (logical mem n) true (guess n)).1) ++ (if want then [] else [Ev.free]), b.cap, ?_, ?_, ?_, ?_⟩
    · simp [normalizeTableIndexBuf, h0', hv, s, e]
      rw [← hb]
    · have := c; rw [hd] at this; simpa using this
    · simp only [icuCalls_append, icuCalls_cons_malloc]
      have : icuCalls (if want = true then [] else [Ev.free]) = 0 := by cases want <;> rfl
      omega
    · simp only [liveBlocks_append, liveBlocks, v]
      cases want <;> simp [liveBlocks]

end CifModel.Lemmas.NormBuf
