import CifModel.Lemmas.LexerSep
/-
  Lemmas/LexerLines — line numbers and the line-length check, for ARBITRARY input without carriage returns and ANY
  callback policy: while the scanner runs,

      (over-length lines reported so far) ++ (over-length lines still ahead, given the current column)   and
      (current line number) + (line terminators still ahead)

  never change.  At the end of the input nothing is ahead, so the reports are exactly the over-long lines and the line
  number is 1 + the number of terminators.
-/
namespace CifModel.Model.Lexer
open CifModel CifModel.Model.Chars CifModel.Spec.Lexical

def isOver (r : Report) : Bool := r.code == Gen.ErrCodes.CIF_OVERLENGTH_LINE
/-- lines of the CIF_OVERLENGTH_LINE reports in `log` (newest first, as the log is) -/
def overOf (log : List Report) : List Nat := (log.filter isOver).map (·.line)
def lineCount (s : Str) : Nat := s.count 10
def noCR (s : Str) : Prop := ∀ x ∈ s, x ≠ 13

/-- the conserved quantity -/
def Inv (log : List Report) (line col : Nat) (lead : Bool) (rest : Str) : List Nat × Nat :=
  ((overOf log).reverse ++ longLinesAux line col lead rest, line + lineCount rest)

theorem isTrail_eq (c : Nat) : isTrail c = isTrailU c := by
  simp only [isTrail, isTrailU]
  rw [Bool.eq_iff_iff]
  simp only [beq_iff_eq, Bool.and_eq_true, decide_eq_true_eq]
  omega_cu

theorem isLead_eq (c : Nat) : isLead c = isLeadU c := by
  simp only [isLead, isLeadU]
  rw [Bool.eq_iff_iff]
  simp only [beq_iff_eq, Bool.and_eq_true, decide_eq_true_eq]
  omega_cu

theorem noCR_cons {c : Nat} {r : Str} (h : noCR (c :: r)) : c ≠ 13 ∧ noCR r :=
  ⟨h c (List.mem_cons_self ..), fun x hx => h x (List.mem_cons_of_mem _ hx)⟩

theorem noCR_cons_of {c : Nat} {r : Str} (hc : c ≠ 13) (h : noCR r) : noCR (c :: r) := by
  intro x hx
  rcases List.mem_cons.mp hx with e | e
  · rw [e]; exact hc
  · exact h x e

theorem noCR_nil : noCR [] := fun _ h => by cases h

theorem overOf_cons_other (r : Report) (log : List Report) (h : r.code ≠ Gen.ErrCodes.CIF_OVERLENGTH_LINE) :
    overOf (r :: log) = overOf log := by
  simp [overOf, isOver, h]

theorem overOf_cons_over (line col : Nat) (log : List Report) :
    overOf (⟨Gen.ErrCodes.CIF_OVERLENGTH_LINE, line, col⟩ :: log) = line :: overOf log := by
  simp [overOf, isOver]

theorem overOf_append_other (extra log : List Report)
    (h : ∀ r ∈ extra, r.code ≠ Gen.ErrCodes.CIF_OVERLENGTH_LINE) : overOf (extra ++ log) = overOf log := by
  induction extra with
  | nil => rfl
  | cons r e ih =>
    rw [List.cons_append, overOf_cons_other r _ (h r (List.mem_cons_self ..))]
    exact ih (fun r' hr' => h r' (List.mem_cons_of_mem _ hr'))

/-- a report of any other code leaves the conserved quantity alone -/
theorem report_inv {code : Code} {line col : Nat} {pol : Policy} {log log' : List Report} {x : Unit}
    (hc : code ≠ Gen.ErrCodes.CIF_OVERLENGTH_LINE) (h : report code line col pol log = .ok x log') :
    overOf log' = overOf log := by
  rw [report_ok_inv h]; exact overOf_cons_other _ _ hc

theorem reportIf_inv {cond : Bool} {code : Code} {line col : Nat} {pol : Policy} {log log' : List Report} {x : Unit}
    (hc : code ≠ Gen.ErrCodes.CIF_OVERLENGTH_LINE) (h : reportIf cond code line col pol log = .ok x log') :
    overOf log' = overOf log := by
  rw [reportIf_ok_inv h]
  split
  · exact overOf_cons_other _ _ hc
  · rfl

theorem leadAtEof_inv {dia : Dialect} {line col : Nat} {lead : Bool} {acc a : Str} {pol : Policy} {log log' : List Report}
    (h : leadAtEof dia line col lead acc pol log = .ok a log') : overOf log' = overOf log := by
  simp only [leadAtEof, bind_eq, pure_eq] at h
  obtain ⟨_, l1, h1, h2⟩ := L.bind_ok_inv h
  obtain ⟨_, e⟩ := L.pure_ok_inv h2
  subst e
  exact reportIf_inv (by decide) h1

/-- one SCAN_UCHAR step on a unit that is not a line terminator -/
theorem uchar_inv {dia : Dialect} {line col prev c : Nat} {lead : Bool} {pol : Policy} {log l1 : List Report} {u : UStep} {r : Str}
    (h : scanUChar dia line col prev c lead pol log = .ok u l1) (h10 : c ≠ 10) :
    Inv log line col lead (c :: r) = Inv l1 line u.col u.lead r := by
  obtain ⟨_, hcol, hlead, extra, hlog, hex⟩ := scanUChar_ok_inv h
  have hov : overOf l1 = overOf log := by
    rw [hlog]
    apply overOf_append_other
    intro r hr
    rcases (hex r hr).2 with e | e <;> rw [e] <;> decide
  simp only [Inv, hov, longLinesAux, h10, if_false, lineCount, List.count_cons, beq_iff_eq]
  rw [hcol, hlead, isTrail_eq, isLead_eq]
  have h10' : ¬ (c = 10) := h10
  by_cases ht : isTrailU c = true
  · have hl : isLeadU c = false := by
      simp [isTrailU] at ht; simp [isLeadU]; omega_cu
    cases lead <;> simp [ht, h10', hl]
  · have ht' : isTrailU c = false := by simpa using ht
    simp [ht', h10']

/-- before a unit that is not a trail surrogate the lead-surrogate flag is irrelevant -/
theorem Inv_lead_irrel (log : List Report) (line col : Nat) (lead : Bool) (c : Nat) (r : Str) (h : isTrailU c = false) :
    Inv log line col lead (c :: r) = Inv log line col false (c :: r) := by
  simp [Inv, longLinesAux, h]

theorem Inv_nil (log : List Report) (line col : Nat) (lead : Bool) : Inv log line col lead [] = Inv log line col false [] := rfl


/-! ### class facts for arbitrary units -/

theorem high_class (dia : Dialect) (c : Nat) (h : 160 ≤ c) : classOf dia c = .general ∨ classOf dia c = .no := by
  have hc : ¬ c < 160 := by omega
  cases dia <;> simp [classOf, hc]

theorem lt160_of_meta (dia : Dialect) (c : Nat)
    (h : metaOfCls (classOf dia c) = .ws ∨ metaOfCls (classOf dia c) = .open_ ∨ metaOfCls (classOf dia c) = .close) : c < 160 := by
  by_cases hc : c < 160
  · exact hc
  · rcases high_class dia c (by omega) with e | e <;> rw [e] at h <;> simp [metaOfCls] at h

theorem lt160_of_class (dia : Dialect) (c : Nat) (k : Cls) (hk : k ≠ .general ∧ k ≠ .no) (h : classOf dia c = k) : c < 160 := by
  by_cases hc : c < 160
  · exact hc
  · rcases high_class dia c (by omega) with e | e <;> rw [e] at h <;> simp [← h] at hk

theorem eol_chars (dia : Dialect) (c : Nat) : classOf dia c = .eol ↔ (c = 10 ∨ c = 13) := by
  by_cases hc : c < 160
  · have key : ∀ d : Dialect, (List.range 160).all (fun c => (classOf d c == .eol) == (c == 10 || c == 13)) = true := by
      intro d; cases d <;> decide +kernel
    have := forall_lt_of_range_all (key dia) c hc
    have := beq_eq_bool_iff (beq_iff_eq.mp this)
    rw [this]; simp
  · constructor
    · intro h; exact absurd (lt160_of_class dia c .eol (by decide) h) hc
    · intro h; omega

theorem meta_ws_10 (dia : Dialect) : metaOfCls (classOf dia 10) = .ws := by cases dia <;> decide

theorem not_surrogate_of_lt160 (c : Nat) (h : c < 160) : isTrailU c = false ∧ isLeadU c = false := by
  simp [isTrailU, isLeadU]; omega_cu

/-- a unit below the surrogate range that is not LF, with no pending lead: one more column -/
theorem Inv_plain (log : List Report) (line col : Nat) (c : Nat) (r : Str) (h10 : c ≠ 10) (hc : c < 160) :
    Inv log line col false (c :: r) = Inv log line (col + 1) false r := by
  obtain ⟨_, hl⟩ := not_surrogate_of_lt160 c hc
  have h10' : ¬ (c = 10) := h10
  simp [Inv, longLinesAux, h10', hl, lineCount, List.count_cons]

/-- LF: HANDLE_EOL -/
theorem eol_inv {line col sol : Nat} {pol : Policy} {log log1 : List Report} {res : Nat × Nat × Nat} {lead : Bool} {r : Str}
    (h : handleEol line col sol 10 pol log = .ok res log1) (hsol : sol % 4 ≠ 2) :
    res.1 = line + 1 ∧ res.2.1 = 0 ∧ res.2.2 % 4 ≠ 2 ∧ Inv log line col lead (10 :: r) = Inv log1 (line + 1) 0 false r := by
  simp only [handleEol, bind_eq, pure_eq, if_true] at h
  obtain ⟨_, l1, h1, h2⟩ := L.bind_ok_inv h
  obtain ⟨hres, hl⟩ := L.pure_ok_inv h2
  subst hl
  have h9 : ¬ (sol * 4 + 1) % 16 = 9 := by omega
  rw [if_neg h9] at hres
  subst hres
  refine ⟨rfl, rfl, by simp only []; omega, ?_⟩
  rw [reportIf_ok_inv h1]
  by_cases hc : col > lineLength
  · have hc' : col > 2048 := hc
    simp [Inv, hc, overOf_cons_over, longLinesAux, hc', lineCount, List.count_cons]
    omega
  · have hc' : ¬ col > 2048 := hc
    simp [Inv, hc, longLinesAux, hc', lineCount, List.count_cons]
    omega

/-! ### the scan functions conserve `Inv` -/

theorem scanWs_inv (dia : Dialect) : ∀ (inp : Str) (line col sol : Nat) (pol : Policy) (log log' : List Report) (p : Pos),
    noCR inp → sol % 4 ≠ 2 → scanWs dia inp line col sol pol log = .ok p log' →
    Inv log line col false inp = Inv log' p.line p.col false p.rest ∧ noCR p.rest := by
  intro inp
  induction inp with
  | nil =>
    intro line col sol pol log log' p _ _ h
    simp only [scanWs, pure_eq] at h
    obtain ⟨h, e⟩ := L.pure_ok_inv h
    subst h; subst e
    exact ⟨rfl, noCR_nil⟩
  | cons c r ih =>
    intro line col sol pol log log' p hcr hsol h
    obtain ⟨hc13, hcr'⟩ := noCR_cons hcr
    simp only [scanWs, bind_eq, pure_eq] at h
    by_cases hw : classOf dia c = .ws
    · rw [if_pos hw] at h
      have hlt := lt160_of_class dia c .ws (by decide) hw
      have h10 : c ≠ 10 := by
        intro e; rw [e] at hw
        have : classOf dia 10 = .eol := (eol_chars dia 10).mpr (Or.inl rfl)
        rw [this] at hw; cases hw
      obtain ⟨h1, h2⟩ := ih _ _ _ _ _ _ _ hcr' (by decide) h
      exact ⟨(Inv_plain log line col c r h10 hlt).trans h1, h2⟩
    · rw [if_neg hw] at h
      by_cases he : classOf dia c = .eol
      · rw [if_pos he] at h
        have h10 : c = 10 := by
          rcases (eol_chars dia c).mp he with e | e
          · exact e
          · exact absurd e hc13
        subst h10
        obtain ⟨res, l1, h1, h2⟩ := L.bind_ok_inv h
        obtain ⟨e1, e2, e3, e4⟩ := eol_inv (lead := false) (r := r) h1 hsol
        obtain ⟨l', c', s'⟩ := res
        simp only at e1 e2 e3 h2
        subst e1; subst e2
        obtain ⟨h3, h4⟩ := ih _ _ _ _ _ _ _ hcr' e3 h2
        exact ⟨e4.trans h3, h4⟩
      · rw [if_neg he] at h
        obtain ⟨h, e⟩ := L.pure_ok_inv h
        subst h; subst e
        exact ⟨rfl, hcr⟩

theorem uchar_over {dia : Dialect} {line col prev c : Nat} {lead : Bool} {pol : Policy} {log l1 : List Report} {u : UStep}
    (h : scanUChar dia line col prev c lead pol log = .ok u l1) : overOf l1 = overOf log := by
  obtain ⟨_, _, _, extra, hlog, hex⟩ := scanUChar_ok_inv h
  rw [hlog]
  apply overOf_append_other
  intro r hr
  rcases (hex r hr).2 with e | e <;> rw [e] <;> decide

theorem Inv_log_congr {l1 log : List Report} (h : overOf l1 = overOf log) (line col : Nat) (lead : Bool) (rest : Str) :
    Inv l1 line col lead rest = Inv log line col lead rest := by
  simp [Inv, h]

/-- a unit of a class the scanner dispatches on (anything but GENERAL / NO_CLASS) is an ASCII unit, never a replacement:
    it came from the input unchanged, it is no surrogate, and it advanced the column by one -/
theorem special_unit {dia : Dialect} {line col prev c : Nat} {lead : Bool} {pol : Policy} {log l1 : List Report} {u : UStep}
    (h : scanUChar dia line col prev c lead pol log = .ok u l1)
    (hk : classOf dia u.c ≠ .general ∧ classOf dia u.c ≠ .no) :
    u.c = c ∧ c < 160 ∧ u.lead = false ∧ u.col = col + 1 := by
  obtain ⟨huc, hcol, hlead, _⟩ := scanUChar_ok_inv h
  have e : u.c = c := by
    rcases huc with e | ⟨_, _, e⟩
    · exact e
    · have : classOf dia (replChar dia) = .general := by cases dia <;> decide
      rw [← e] at this
      exact absurd this hk.1
  have hc : c < 160 := by
    by_cases hc : c < 160
    · exact hc
    · rcases high_class dia c (by omega) with k | k <;> rw [e, k] at hk <;> simp at hk
  obtain ⟨ht, hl⟩ := not_surrogate_of_lt160 c hc
  refine ⟨e, hc, ?_, ?_⟩
  · rw [hlead, isTrail_eq, ht, isLead_eq, hl]; rfl
  · rw [hcol, isTrail_eq, ht]; rfl

theorem special_of_meta {k : Cls} (h : metaOfCls k = .ws ∨ metaOfCls k = .open_ ∨ metaOfCls k = .close) :
    k ≠ .general ∧ k ≠ .no := by
  cases k <;> simp [metaOfCls] at h ⊢

/-- the position after BACK_UP: the unit is put back, column and conserved quantity as before it was scanned -/
theorem backup_inv {dia : Dialect} {line col prev c : Nat} {lead : Bool} {pol : Policy} {log l1 : List Report} {u : UStep} {r : Str}
    (h : scanUChar dia line col prev c lead pol log = .ok u l1)
    (hk : classOf dia u.c ≠ .general ∧ classOf dia u.c ≠ .no) :
    Inv log line col lead (c :: r) = Inv l1 line (u.col - 1) false (u.c :: r) := by
  obtain ⟨huc, hc, _, hcol⟩ := special_unit h hk
  obtain ⟨ht, _⟩ := not_surrogate_of_lt160 c hc
  rw [hcol, huc, Nat.add_sub_cancel, Inv_lead_irrel log line col lead c r ht]
  exact (Inv_log_congr (uchar_over h) ..).symm

/-- a consumed ASCII unit of a dispatch class that is not LF -/
theorem consume_inv {dia : Dialect} {line col prev c : Nat} {lead : Bool} {pol : Policy} {log l1 : List Report} {u : UStep} {r : Str}
    (h : scanUChar dia line col prev c lead pol log = .ok u l1)
    (hk : classOf dia u.c ≠ .general ∧ classOf dia u.c ≠ .no) (h10 : u.c ≠ 10) :
    Inv log line col lead (c :: r) = Inv l1 line u.col false r := by
  obtain ⟨huc, _, hl, _⟩ := special_unit h hk
  have := uchar_inv (r := r) h (by rw [← huc]; exact h10)
  rw [hl] at this
  exact this

theorem Inv_eof {log log' : List Report} (h : overOf log' = overOf log) (line col : Nat) (lead : Bool) :
    Inv log line col lead [] = Inv log' line col false [] := by
  simp [Inv, h, longLinesAux]

theorem uchar_noCR {dia : Dialect} {line col prev c : Nat} {lead : Bool} {pol : Policy} {log l1 : List Report} {u : UStep}
    (h : scanUChar dia line col prev c lead pol log = .ok u l1) (hc : c ≠ 13) : u.c ≠ 13 := by
  rcases (scanUChar_ok_inv h).1 with e | ⟨_, _, e⟩
  · rw [e]; exact hc
  · rw [e]; cases dia <;> decide

theorem ne10_of_meta {dia : Dialect} {c : Nat} (h : metaOfCls (classOf dia c) ≠ .ws) : c ≠ 10 := by
  intro e; rw [e, meta_ws_10] at h; exact h rfl

theorem uchar_ne10 {dia : Dialect} {line col prev c : Nat} {lead : Bool} {pol : Policy} {log l1 : List Report} {u : UStep}
    (h : scanUChar dia line col prev c lead pol log = .ok u l1) (hu : u.c ≠ 10) : c ≠ 10 := by
  rcases (scanUChar_ok_inv h).1 with e | ⟨ht, _, _⟩
  · rw [← e]; exact hu
  · intro e; rw [e] at ht; revert ht; decide


theorem scanToWs_inv (dia : Dialect) : ∀ (inp : Str) (line col : Nat) (lead : Bool) (acc : Str) (pol : Policy)
    (log log' : List Report) (s : Scanned), noCR inp →
    scanToWs dia inp line col lead acc pol log = .ok s log' →
    Inv log line col lead inp = Inv log' s.pos.line s.pos.col false s.pos.rest ∧ noCR s.pos.rest := by
  intro inp
  induction inp with
  | nil =>
    intro line col lead acc pol log log' s _ h
    simp only [scanToWs, bind_eq, pure_eq] at h
    obtain ⟨a, l1, h1, h2⟩ := L.bind_ok_inv h
    obtain ⟨h2, e⟩ := L.pure_ok_inv h2
    subst h2; subst e
    exact ⟨Inv_eof (leadAtEof_inv h1) .., noCR_nil⟩
  | cons c r ih =>
    intro line col lead acc pol log log' s hcr h
    obtain ⟨hc13, hcr'⟩ := noCR_cons hcr
    simp only [scanToWs, bind_eq, pure_eq] at h
    obtain ⟨u, l1, hu, h2⟩ := L.bind_ok_inv h
    by_cases hm : metaOf dia u.c = .ws
    · rw [if_pos hm] at h2
      obtain ⟨h2, e⟩ := L.pure_ok_inv h2
      subst h2; subst e
      have hk := special_of_meta (k := classOf dia u.c) (Or.inl hm)
      exact ⟨backup_inv hu hk, noCR_cons_of (uchar_noCR hu hc13) hcr'⟩
    · rw [if_neg hm] at h2
      have h10 : c ≠ 10 := uchar_ne10 hu (ne10_of_meta hm)
      obtain ⟨h3, h4⟩ := ih _ _ _ _ _ _ _ _ hcr' h2
      exact ⟨(uchar_inv hu h10).trans h3, h4⟩

theorem scanToEol_inv (dia : Dialect) : ∀ (inp : Str) (line col : Nat) (lead : Bool) (acc : Str) (pol : Policy)
    (log log' : List Report) (s : Scanned), noCR inp →
    scanToEol dia inp line col lead acc pol log = .ok s log' →
    Inv log line col lead inp = Inv log' s.pos.line s.pos.col false s.pos.rest ∧ noCR s.pos.rest := by
  intro inp
  induction inp with
  | nil =>
    intro line col lead acc pol log log' s _ h
    simp only [scanToEol, bind_eq, pure_eq] at h
    obtain ⟨a, l1, h1, h2⟩ := L.bind_ok_inv h
    obtain ⟨h2, e⟩ := L.pure_ok_inv h2
    subst h2; subst e
    exact ⟨Inv_eof (leadAtEof_inv h1) .., noCR_nil⟩
  | cons c r ih =>
    intro line col lead acc pol log log' s hcr h
    obtain ⟨hc13, hcr'⟩ := noCR_cons hcr
    simp only [scanToEol, bind_eq, pure_eq] at h
    obtain ⟨u, l1, hu, h2⟩ := L.bind_ok_inv h
    by_cases hm : classOf dia u.c = .eol
    · rw [if_pos hm] at h2
      obtain ⟨h2, e⟩ := L.pure_ok_inv h2
      subst h2; subst e
      have hk : classOf dia u.c ≠ .general ∧ classOf dia u.c ≠ .no := by rw [hm]; decide
      exact ⟨backup_inv hu hk, noCR_cons_of (uchar_noCR hu hc13) hcr'⟩
    · rw [if_neg hm] at h2
      have h10 : c ≠ 10 := uchar_ne10 hu (fun e => hm ((eol_chars dia u.c).mpr (Or.inl e)))
      obtain ⟨h3, h4⟩ := ih _ _ _ _ _ _ _ _ hcr' h2
      exact ⟨(uchar_inv hu h10).trans h3, h4⟩

theorem scanUnquoted_inv (dia : Dialect) : ∀ (inp : Str) (line col : Nat) (lead : Bool) (acc : Str) (k : Nat) (kd ks : Bool)
    (pol : Policy) (log log' : List Report) (s : Scanned), noCR inp →
    scanUnquoted dia inp line col lead acc k kd ks pol log = .ok s log' →
    Inv log line col lead inp = Inv log' s.pos.line s.pos.col false s.pos.rest ∧ noCR s.pos.rest := by
  intro inp
  induction inp with
  | nil =>
    intro line col lead acc k kd ks pol log log' s _ h
    simp only [scanUnquoted, bind_eq, pure_eq] at h
    obtain ⟨a, l1, h1, h2⟩ := L.bind_ok_inv h
    obtain ⟨h2, e⟩ := L.pure_ok_inv h2
    subst h2; subst e
    exact ⟨Inv_eof (leadAtEof_inv h1) .., noCR_nil⟩
  | cons c r ih =>
    intro line col lead acc k kd ks pol log log' s hcr h
    obtain ⟨hc13, hcr'⟩ := noCR_cons hcr
    simp only [scanUnquoted, bind_eq, pure_eq] at h
    obtain ⟨u, l1, hu, h2⟩ := L.bind_ok_inv h
    have hrec : ∀ {acc k kd ks}, metaOfCls (classOf dia u.c) ≠ .ws →
        scanUnquoted dia r line u.col u.lead acc k kd ks pol l1 = .ok s log' →
        Inv log line col lead (c :: r) = Inv log' s.pos.line s.pos.col false s.pos.rest ∧ noCR s.pos.rest := by
      intro acc k kd ks hm h
      have h10 : c ≠ 10 := uchar_ne10 hu (ne10_of_meta hm)
      obtain ⟨h3, h4⟩ := ih _ _ _ _ _ _ _ _ _ _ _ hcr' h
      exact ⟨(uchar_inv hu h10).trans h3, h4⟩
    have hback : ∀ {l2 : List Report}, overOf l2 = overOf l1 →
        (metaOfCls (classOf dia u.c) = .ws ∨ metaOfCls (classOf dia u.c) = .open_ ∨ metaOfCls (classOf dia u.c) = .close) →
        Inv log line col lead (c :: r) = Inv l2 line (u.col - 1) false (u.c :: r) ∧ noCR (u.c :: r) := by
      intro l2 hov hm
      refine ⟨(backup_inv hu (special_of_meta hm)).trans (Inv_log_congr hov ..).symm, noCR_cons_of (uchar_noCR hu hc13) hcr'⟩
    cases hm : metaOfCls (classOf dia u.c) with
    | no => simp only [hm] at h2; exact hrec (by rw [hm]; decide) h2
    | general => simp only [hm] at h2; exact hrec (by rw [hm]; decide) h2
    | ws =>
      simp only [hm] at h2
      have hsp := special_unit hu (special_of_meta (Or.inl hm))
      have hne : u.c ≠ eofChar := by rw [hsp.1]; simp only [eofChar]; omega_cu
      rw [if_pos hne] at h2
      obtain ⟨h3, e⟩ := L.pure_ok_inv h2
      subst h3; subst e
      exact hback rfl (Or.inl hm)
    | open_ =>
      simp only [hm] at h2
      split at h2
      · obtain ⟨_, l2, hr, h3⟩ := L.bind_ok_inv h2
        obtain ⟨h3, e⟩ := L.pure_ok_inv h3
        subst h3; subst e
        exact hback (report_inv (by decide) hr) (Or.inr (Or.inl hm))
      · exact hrec (by rw [hm]; decide) h2
    | close =>
      simp only [hm] at h2
      split at h2
      · obtain ⟨h3, e⟩ := L.pure_ok_inv h2
        subst h3; subst e
        exact hback rfl (Or.inr (Or.inr hm))
      · exact hrec (by rw [hm]; decide) h2


/-- SCAN_UCHAR on LF followed by HANDLE_EOL with the column before the terminator (scan_text, scan_triple) -/
theorem eol_unit_inv {dia : Dialect} {line col prev c sol : Nat} {lead : Bool} {pol : Policy} {log l1 l2 : List Report} {u : UStep}
    {res : Nat × Nat × Nat} {r : Str}
    (hu : scanUChar dia line col prev c lead pol log = .ok u l1) (he : classOf dia u.c = .eol) (hc13 : c ≠ 13)
    (hh : handleEol line (u.col - 1) sol u.c pol l1 = .ok res l2) (hsol : sol % 4 ≠ 2) :
    res.1 = line + 1 ∧ res.2.1 = 0 ∧ res.2.2 % 4 ≠ 2 ∧ u.lead = false
    ∧ Inv log line col lead (c :: r) = Inv l2 (line + 1) 0 false r := by
  have hk : classOf dia u.c ≠ .general ∧ classOf dia u.c ≠ .no := by rw [he]; decide
  obtain ⟨huc, _, hl, hcol⟩ := special_unit hu hk
  have h10 : c = 10 := by
    rcases (eol_chars dia u.c).mp he with e | e
    · rw [← huc]; exact e
    · rw [huc] at e; exact absurd e hc13
  subst h10
  rw [huc, hcol, Nat.add_sub_cancel] at hh
  obtain ⟨e1, e2, e3, e4⟩ := eol_inv (lead := lead) (r := r) hh hsol
  refine ⟨e1, e2, e3, hl, ?_⟩
  rw [← e4]
  exact (Inv_log_congr (uchar_over hu) ..).symm

theorem scanTriple_inv (dia : Dialect) (delim : Nat) (hd : classOf dia delim = .quote) : ∀ (inp : Str) (line col : Nat) (lead : Bool)
    (acc : Str) (dc sol : Nat) (pol : Policy) (log log' : List Report) (s : Scanned), noCR inp → sol % 4 ≠ 2 →
    scanTriple dia delim inp line col lead acc dc sol pol log = .ok s log' →
    Inv log line col lead inp = Inv log' s.pos.line s.pos.col false s.pos.rest ∧ noCR s.pos.rest := by
  intro inp
  induction inp with
  | nil =>
    intro line col lead acc dc sol pol log log' s _ _ h
    simp only [scanTriple, bind_eq, pure_eq] at h
    obtain ⟨a, l1, h1, h2⟩ := L.bind_ok_inv h
    obtain ⟨_, l2, h3, h4⟩ := L.bind_ok_inv h2
    obtain ⟨h4, e⟩ := L.pure_ok_inv h4
    subst h4; subst e
    exact ⟨Inv_eof ((report_inv (by decide) h3).trans (leadAtEof_inv h1)) .., noCR_nil⟩
  | cons c r ih =>
    intro line col lead acc dc sol pol log log' s hcr hsol h
    obtain ⟨hc13, hcr'⟩ := noCR_cons hcr
    simp only [scanTriple, bind_eq, pure_eq] at h
    obtain ⟨u, l1, hu, h2⟩ := L.bind_ok_inv h
    by_cases hq : u.c = delim
    · rw [if_pos hq] at h2
      have hk : classOf dia u.c ≠ .general ∧ classOf dia u.c ≠ .no := by rw [hq, hd]; decide
      have h10 : u.c ≠ 10 := by
        intro e; have := (eol_chars dia u.c).mpr (Or.inl e); rw [hq, hd] at this; cases this
      have hcons := consume_inv (r := r) hu hk h10
      have hl := (special_unit hu hk).2.2.1
      split at h2
      · obtain ⟨h3, e⟩ := L.pure_ok_inv h2
        subst h3; subst e
        exact ⟨hcons, hcr'⟩
      · rw [hl] at h2
        obtain ⟨h3, h4⟩ := ih _ _ _ _ _ _ _ _ _ _ hcr' hsol h2
        exact ⟨hcons.trans h3, h4⟩
    · rw [if_neg hq] at h2
      by_cases he : classOf dia u.c = .eol
      · rw [if_pos he] at h2
        obtain ⟨res, l2, hh, h3⟩ := L.bind_ok_inv h2
        obtain ⟨e1, e2, e3, e4, e5⟩ := eol_unit_inv (r := r) hu he hc13 hh hsol
        obtain ⟨l', c', s'⟩ := res
        simp only at e1 e2 e3 h3
        subst e1; subst e2
        rw [e4] at h3
        obtain ⟨h4, h5⟩ := ih _ _ _ _ _ _ _ _ _ _ hcr' e3 h3
        exact ⟨e5.trans h4, h5⟩
      · rw [if_neg he] at h2
        have h10 : c ≠ 10 := uchar_ne10 hu (fun e => he ((eol_chars dia u.c).mpr (Or.inl e)))
        obtain ⟨h3, h4⟩ := ih _ _ _ _ _ _ _ _ _ _ hcr' (by decide) h2
        exact ⟨(uchar_inv hu h10).trans h3, h4⟩

theorem scanDelim_inv (dia : Dialect) (delim : Nat) (hd : classOf dia delim = .quote) : ∀ (inp : Str) (line col : Nat) (lead : Bool)
    (acc : Str) (first : Bool) (pol : Policy) (log log' : List Report) (s : Scanned), noCR inp →
    scanDelim dia delim inp line col lead acc first pol log = .ok s log' →
    Inv log line col lead inp = Inv log' s.pos.line s.pos.col false s.pos.rest ∧ noCR s.pos.rest := by
  have hdlt : delim < 160 := lt160_of_class dia delim .quote (by decide) hd
  have hd10 : delim ≠ 10 := by
    intro e; have := (eol_chars dia delim).mpr (Or.inl e); rw [hd] at this; cases this
  intro inp
  induction inp with
  | nil =>
    intro line col lead acc first pol log log' s _ h
    simp only [scanDelim, bind_eq, pure_eq] at h
    obtain ⟨a, l1, h1, h2⟩ := L.bind_ok_inv h
    obtain ⟨_, l2, h3, h4⟩ := L.bind_ok_inv h2
    obtain ⟨h4, e⟩ := L.pure_ok_inv h4
    subst h4; subst e
    exact ⟨Inv_eof ((report_inv (by decide) h3).trans (leadAtEof_inv h1)) .., noCR_nil⟩
  | cons c r ih =>
    intro line col lead acc first pol log log' s hcr h
    obtain ⟨hc13, hcr'⟩ := noCR_cons hcr
    simp only [scanDelim, bind_eq, pure_eq] at h
    obtain ⟨u, l1, hu, h2⟩ := L.bind_ok_inv h
    by_cases hq : u.c = delim
    · rw [if_pos hq] at h2
      have hk : classOf dia u.c ≠ .general ∧ classOf dia u.c ≠ .no := by rw [hq, hd]; decide
      have hcons := consume_inv (r := r) hu hk (by rw [hq]; exact hd10)
      have hl := (special_unit hu hk).2.2.1
      cases r with
      | nil =>
        simp only [] at h2
        obtain ⟨h3, e⟩ := L.pure_ok_inv h2
        subst h3; subst e
        exact ⟨hcons, noCR_nil⟩
      | cons d r' =>
        simp only [] at h2
        by_cases hd1 : dia = .cif1
        · rw [if_pos hd1] at h2
          split at h2
          · rw [hl] at h2
            obtain ⟨h3, h4⟩ := ih _ _ _ _ _ _ _ _ _ hcr' h2
            exact ⟨hcons.trans h3, h4⟩
          · obtain ⟨h3, e⟩ := L.pure_ok_inv h2
            subst h3; subst e
            exact ⟨hcons, hcr'⟩
        · rw [if_neg hd1] at h2
          split at h2
          next hf =>
            simp only [Bool.and_eq_true, beq_iff_eq] at hf
            obtain ⟨hd13, hcr''⟩ := noCR_cons hcr'
            have hpl := Inv_plain l1 line u.col d r' (by rw [hf.2]; exact hd10) (by rw [hf.2]; exact hdlt)
            obtain ⟨h3, h4⟩ := scanTriple_inv dia delim hd _ _ _ _ _ _ _ _ _ _ _ hcr'' (by decide) h2
            exact ⟨(hcons.trans hpl).trans h3, h4⟩
          next =>
            obtain ⟨h3, e⟩ := L.pure_ok_inv h2
            subst h3; subst e
            exact ⟨hcons, hcr'⟩
    · rw [if_neg hq] at h2
      by_cases he : classOf dia u.c = .eol
      · rw [if_pos he] at h2
        obtain ⟨_, l2, hr, h3⟩ := L.bind_ok_inv h2
        obtain ⟨h3, e⟩ := L.pure_ok_inv h3
        subst h3; subst e
        have hk : classOf dia u.c ≠ .general ∧ classOf dia u.c ≠ .no := by rw [he]; decide
        refine ⟨(backup_inv hu hk).trans (Inv_log_congr (report_inv (by decide) hr) ..).symm,
          noCR_cons_of (uchar_noCR hu hc13) hcr'⟩
      · rw [if_neg he] at h2
        have h10 : c ≠ 10 := uchar_ne10 hu (fun e => he ((eol_chars dia u.c).mpr (Or.inl e)))
        obtain ⟨h3, h4⟩ := ih _ _ _ _ _ _ _ _ _ hcr' h2
        exact ⟨(uchar_inv hu h10).trans h3, h4⟩

theorem scanText_inv (dia : Dialect) : ∀ (inp : Str) (line col : Nat) (lead : Bool) (acc : Str) (sol : Nat)
    (pol : Policy) (log log' : List Report) (s : Scanned), noCR inp → sol % 4 ≠ 2 →
    scanText dia inp line col lead acc sol pol log = .ok s log' →
    Inv log line col lead inp = Inv log' s.pos.line s.pos.col false s.pos.rest ∧ noCR s.pos.rest := by
  intro inp
  induction inp with
  | nil =>
    intro line col lead acc sol pol log log' s _ _ h
    simp only [scanText, bind_eq, pure_eq] at h
    obtain ⟨a, l1, h1, h2⟩ := L.bind_ok_inv h
    obtain ⟨_, l2, h3, h4⟩ := L.bind_ok_inv h2
    obtain ⟨h4, e⟩ := L.pure_ok_inv h4
    subst h4; subst e
    exact ⟨Inv_eof ((report_inv (by decide) h3).trans (leadAtEof_inv h1)) .., noCR_nil⟩
  | cons c r ih =>
    intro line col lead acc sol pol log log' s hcr hsol h
    obtain ⟨hc13, hcr'⟩ := noCR_cons hcr
    simp only [scanText, bind_eq, pure_eq] at h
    obtain ⟨u, l1, hu, h2⟩ := L.bind_ok_inv h
    by_cases hsm : classOf dia u.c = .semi
    · rw [if_pos hsm] at h2
      have hk : classOf dia u.c ≠ .general ∧ classOf dia u.c ≠ .no := by rw [hsm]; decide
      have h10 : u.c ≠ 10 := by
        intro e; have := (eol_chars dia u.c).mpr (Or.inl e); rw [hsm] at this; cases this
      have hcons := consume_inv (r := r) hu hk h10
      have hl := (special_unit hu hk).2.2.1
      split at h2
      · obtain ⟨h3, e⟩ := L.pure_ok_inv h2
        subst h3; subst e
        exact ⟨hcons, hcr'⟩
      · rw [hl] at h2
        obtain ⟨h3, h4⟩ := ih _ _ _ _ _ _ _ _ _ hcr' hsol h2
        exact ⟨hcons.trans h3, h4⟩
    · rw [if_neg hsm] at h2
      by_cases he : classOf dia u.c = .eol
      · rw [if_pos he] at h2
        obtain ⟨res, l2, hh, h3⟩ := L.bind_ok_inv h2
        obtain ⟨e1, e2, e3, e4, e5⟩ := eol_unit_inv (r := r) hu he hc13 hh hsol
        obtain ⟨l', c', s'⟩ := res
        simp only at e1 e2 e3 h3
        subst e1; subst e2
        rw [e4] at h3
        obtain ⟨h4, h5⟩ := ih _ _ _ _ _ _ _ _ _ hcr' e3 h3
        exact ⟨e5.trans h4, h5⟩
      · rw [if_neg he] at h2
        have h10 : c ≠ 10 := uchar_ne10 hu (fun e => he ((eol_chars dia u.c).mpr (Or.inl e)))
        obtain ⟨h3, h4⟩ := ih _ _ _ _ _ _ _ _ _ hcr' (by decide) h2
        exact ⟨(uchar_inv hu h10).trans h3, h4⟩


/-! ### next_token conserves `Inv` -/

theorem keyPeek_inv (a b : TokType) (text : Str) (p : Pos) (log : List Report) (h : noCR p.rest) :
    Inv log p.line p.col false p.rest
      = Inv log (keyPeek a b text p).pos.line (keyPeek a b text p).pos.col false (keyPeek a b text p).pos.rest
    ∧ noCR (keyPeek a b text p).pos.rest := by
  unfold keyPeek
  split
  · simp [mkTok, Step.pos, h]
  next c r hr =>
    split
    next hc =>
      simp only [mkTok, Step.pos]
      rw [hr] at h ⊢
      obtain ⟨_, h'⟩ := noCR_cons h
      exact ⟨Inv_plain log p.line p.col c r (by rw [hc]; decide) (by rw [hc]; decide), h'⟩
    next => simp [mkTok, Step.pos, h]

theorem finishUnquoted_inv {dia : Dialect} {aw : Bool} {t : Str} {p : Pos} {pol : Policy} {log log' : List Report} {st : Step}
    (h : finishUnquoted dia aw t p pol log = .ok st log') : st.pos = p ∧ overOf log' = overOf log := by
  unfold finishUnquoted at h
  cases hk : classify dia t <;> simp only [hk] at h
  all_goals first
    | (obtain ⟨h1, e⟩ := L.pure_ok_inv h; subst h1; subst e; exact ⟨rfl, rfl⟩)
    | (simp only [bind_eq, pure_eq] at h
       obtain ⟨_, l1, hr, h2⟩ := L.bind_ok_inv h
       obtain ⟨h1, e⟩ := L.pure_ok_inv h2; subst h1; subst e
       exact ⟨rfl, report_inv (by decide) hr⟩)

theorem stepTok_inv (dia : Dialect) (aw : Bool) (c : Nat) (r : Str) (line col : Nat) (pol : Policy) (log log' : List Report)
    (st : Step) (hcr : noCR (c :: r)) (h : stepTok dia aw c r line col pol log = .ok st log') :
    Inv log line col false (c :: r) = Inv log' st.pos.line st.pos.col false st.pos.rest ∧ noCR st.pos.rest := by
  obtain ⟨hc13, hcr'⟩ := noCR_cons hcr
  unfold stepTok at h
  simp only [bind_eq] at h
  simp only [pure_eq] at h
  obtain ⟨_, l0, hrep, h⟩ := L.bind_ok_inv h
  have hov0 : overOf l0 = overOf log := reportIf_inv (by decide) hrep
  -- everything below starts from the log `l0`, whose over-length reports are those of `log`
  suffices hs : Inv l0 line col false (c :: r) = Inv log' st.pos.line st.pos.col false st.pos.rest ∧ noCR st.pos.rest by
    exact ⟨(Inv_log_congr hov0 ..).symm.trans hs.1, hs.2⟩
  -- the first unit, when it is consumed by NEXT_CHAR and is of a dispatch class other than EOL
  have first : ∀ k : Cls, classOf dia c = k → k ≠ .general → k ≠ .no → k ≠ .eol →
      Inv l0 line col false (c :: r) = Inv l0 line (col + 1) false r := by
    intro k hk h1 h2 h3
    have hlt := lt160_of_class dia c k ⟨h1, h2⟩ hk
    have h10 : c ≠ 10 := by
      intro e; have := (eol_chars dia c).mpr (Or.inl e); rw [hk] at this; exact h3 this
    exact Inv_plain l0 line col c r h10 hlt
  by_cases he : classOf dia c = .eol
  · rw [if_pos he, Nat.add_sub_cancel] at h
    obtain ⟨p, l1, h1, h2⟩ := L.bind_ok_inv h
    obtain ⟨h2, e⟩ := L.pure_ok_inv h2; subst h2; subst e
    exact scanWs_inv dia _ _ _ _ _ _ _ _ hcr (by decide) h1
  rw [if_neg he] at h
  by_cases hw : classOf dia c = .ws
  · rw [if_pos hw] at h
    obtain ⟨p, l1, h1, h2⟩ := L.bind_ok_inv h
    obtain ⟨h2, e⟩ := L.pure_ok_inv h2; subst h2; subst e
    obtain ⟨h3, h4⟩ := scanWs_inv dia _ _ _ _ _ _ _ _ hcr' (by decide) h1
    exact ⟨(first .ws hw (by decide) (by decide) (by decide)).trans h3, h4⟩
  rw [if_neg hw] at h
  by_cases hh : classOf dia c = .hash
  · rw [if_pos hh] at h
    obtain ⟨s, l1, h1, h2⟩ := L.bind_ok_inv h
    obtain ⟨h2, e⟩ := L.pure_ok_inv h2; subst h2; subst e
    obtain ⟨h3, h4⟩ := scanToEol_inv dia _ _ _ _ _ _ _ _ _ hcr' h1
    exact ⟨(first .hash hh (by decide) (by decide) (by decide)).trans h3, h4⟩
  rw [if_neg hh] at h
  by_cases hu : classOf dia c = .undersc
  · rw [if_pos hu] at h
    obtain ⟨s, l1, h1, h2⟩ := L.bind_ok_inv h
    obtain ⟨h2, e⟩ := L.pure_ok_inv h2; subst h2; subst e
    obtain ⟨h3, h4⟩ := scanToWs_inv dia _ _ _ _ _ _ _ _ _ hcr' h1
    exact ⟨(first .undersc hu (by decide) (by decide) (by decide)).trans h3, h4⟩
  rw [if_neg hu] at h
  by_cases h1 : classOf dia c = .obrak
  · rw [if_pos h1] at h; obtain ⟨h2, e⟩ := L.pure_ok_inv h; subst h2; subst e
    exact ⟨first .obrak h1 (by decide) (by decide) (by decide), hcr'⟩
  rw [if_neg h1] at h
  by_cases h2 : classOf dia c = .cbrak
  · rw [if_pos h2] at h; obtain ⟨h3, e⟩ := L.pure_ok_inv h; subst h3; subst e
    exact ⟨first .cbrak h2 (by decide) (by decide) (by decide), hcr'⟩
  rw [if_neg h2] at h
  by_cases h3 : classOf dia c = .ocurl
  · rw [if_pos h3] at h; obtain ⟨h4, e⟩ := L.pure_ok_inv h; subst h4; subst e
    exact ⟨first .ocurl h3 (by decide) (by decide) (by decide), hcr'⟩
  rw [if_neg h3] at h
  by_cases h4 : classOf dia c = .ccurl
  · rw [if_pos h4] at h; obtain ⟨h5, e⟩ := L.pure_ok_inv h; subst h5; subst e
    exact ⟨first .ccurl h4 (by decide) (by decide) (by decide), hcr'⟩
  rw [if_neg h4] at h
  by_cases hq : classOf dia c = .quote
  · rw [if_pos hq] at h
    obtain ⟨s, l1, hs, h5⟩ := L.bind_ok_inv h
    obtain ⟨h5, e⟩ := L.pure_ok_inv h5; subst h5; subst e
    obtain ⟨h6, h7⟩ := scanDelim_inv dia c hq _ _ _ _ _ _ _ _ _ _ hcr' hs
    obtain ⟨h8, h9⟩ := keyPeek_inv .key .qvalue s.acc.reverse s.pos l1 h7
    exact ⟨((first .quote hq (by decide) (by decide) (by decide)).trans h6).trans h8, h9⟩
  rw [if_neg hq] at h
  by_cases hs : classOf dia c = .semi
  · rw [if_pos hs] at h
    have hfirst := first .semi hs (by decide) (by decide) (by decide)
    by_cases hcol : col + 1 = 1
    · rw [if_pos hcol] at h
      obtain ⟨s, l1, hs1, h5⟩ := L.bind_ok_inv h
      obtain ⟨h6, h7⟩ := scanText_inv dia _ _ _ _ _ _ _ _ _ _ hcr' (by decide) hs1
      by_cases hd : dia = .cif2
      · rw [if_pos hd] at h5
        obtain ⟨h5, e⟩ := L.pure_ok_inv h5; subst h5; subst e
        obtain ⟨h8, h9⟩ := keyPeek_inv .tkey .tvalue s.acc.reverse s.pos l1 h7
        exact ⟨(hfirst.trans h6).trans h8, h9⟩
      · rw [if_neg hd] at h5
        obtain ⟨h5, e⟩ := L.pure_ok_inv h5; subst h5; subst e
        exact ⟨hfirst.trans h6, h7⟩
    · rw [if_neg hcol, Nat.add_sub_cancel] at h
      obtain ⟨s, l1, hs1, h5⟩ := L.bind_ok_inv h
      obtain ⟨h6, h7⟩ := scanUnquoted_inv dia _ _ _ _ _ _ _ _ _ _ _ _ hcr hs1
      obtain ⟨h8, h9⟩ := finishUnquoted_inv h5
      rw [h8]
      exact ⟨h6.trans (Inv_log_congr h9 ..).symm, h7⟩
  · rw [if_neg hs, Nat.add_sub_cancel] at h
    obtain ⟨s, l1, hs1, h5⟩ := L.bind_ok_inv h
    obtain ⟨h6, h7⟩ := scanUnquoted_inv dia _ _ _ _ _ _ _ _ _ _ _ _ hcr hs1
    obtain ⟨h8, h9⟩ := finishUnquoted_inv h5
    rw [h8]
    exact ⟨h6.trans (Inv_log_congr h9 ..).symm, h7⟩

theorem tokLoop_inv (dia : Dialect) (pol : Policy) : ∀ (f : Nat) (aw : Bool) (p : Pos) (log log' : List Report) (t : Tok) (p' : Pos),
    noCR p.rest → tokLoop dia f aw p pol log = .ok (t, p') log' →
    Inv log p.line p.col false p.rest = Inv log' p'.line p'.col false p'.rest ∧ noCR p'.rest
    ∧ t.line = p'.line ∧ t.col = p'.col := by
  intro f
  induction f with
  | zero =>
    intro aw p log log' t p' hcr h
    simp only [tokLoop, pure_eq] at h
    obtain ⟨h1, e⟩ := L.pure_ok_inv h
    simp only [Prod.mk.injEq] at h1
    obtain ⟨h1, h2⟩ := h1
    subst h1; subst h2; subst e
    exact ⟨rfl, hcr, rfl, rfl⟩
  | succ f ih =>
    intro aw p log log' t p' hcr h
    obtain ⟨rest, line, col⟩ := p
    cases rest with
    | nil =>
      rw [tokLoop_nil] at h
      simp only [Res.ok.injEq, Prod.mk.injEq] at h
      obtain ⟨⟨h1, h2⟩, h3⟩ := h
      subst h1; subst h2; subst h3
      exact ⟨rfl, hcr, rfl, rfl⟩
    | cons c r =>
      rw [tokLoop_cons] at h
      obtain ⟨st, l1, hst, h2⟩ := L.bind_ok_inv h
      obtain ⟨hinv, hcr1⟩ := stepTok_inv dia aw c r line col pol log l1 st hcr hst
      cases st with
      | tok t1 p1 =>
        simp only [] at h2
        obtain ⟨h3, e⟩ := L.pure_ok_inv h2
        simp only [Prod.mk.injEq] at h3
        obtain ⟨h3, h4⟩ := h3
        subst h3; subst h4; subst e
        simp only [Step.pos] at hinv hcr1
        have hty := (stepTok_len dia aw c r line col pol log l1 _ hst).2
        exact ⟨hinv, hcr1, hty.2.2.1, hty.2.2.2⟩
      | skip aw' p1 =>
        simp only [] at h2
        simp only [Step.pos] at hinv hcr1
        obtain ⟨h5, h6, h7, h8⟩ := ih aw' p1 l1 log' t p' hcr1 h2
        exact ⟨hinv.trans h5, h6, h7, h8⟩

end CifModel.Model.Lexer
