import CifModel.Lemmas.WriterChunks
/-
  Lemmas/WriterColumn — `last_column` is EXACT.

  Every function of ciffile.c that writes characters (`u_fprintf`, `u_fputc` directly, or through `write_literal` /
  `write_uliteral` / `write_newline`) also sets `last_column`.  The model follows each of these assignments as written; this file
  proves that they are right: after every step, `last_column` is the column the output really is in — the number of code units
  written since the last line feed (`endCol`; the unit the C uses: `u_fprintf` returns UTF-16 units) — provided only that
  scalar data names and number texts hold no line feed and that strings hold neither NUL nor CR (a lone CR counts as a line
  terminator in `cif_analyze_string`'s `length_last`, but not in the column).  Nothing is assumed about lengths.
-/
set_option linter.unusedSimpArgs false
set_option linter.unusedVariables false

namespace CifModel.Lemmas.WriterColumn
open CifModel CifModel.Model CifModel.Model.Writer CifModel.Gen CifModel.Lemmas.WriterLines

/-- the step, if it succeeds, leaves `last_column` = the column reached by writing its output from the old `last_column` -/
def Exact (c : Ctx) (r : W) : Prop := ∀ o c', r = .ok (o, c') → c'.lastColumn = endCol c.lastColumn o

theorem exact_error (c : Ctx) (e : Code) : Exact c (.error e) := by
  intro o c' h; cases h

theorem exact_ok {c : Ctx} {o : Str} {c' : Ctx} (h : c'.lastColumn = endCol c.lastColumn o) : Exact c (.ok (o, c')) := by
  intro o1 c1 e
  simp only [Except.ok.injEq, Prod.mk.injEq] at e
  rw [← e.1, ← e.2]; exact h

theorem exact_andThen {c : Ctx} {a : W} {f : Ctx → W} (ha : Exact c a) (hf : ∀ c1, Exact c1 (f c1)) :
    Exact c (andThen a f) := by
  intro o c' h
  obtain ⟨o1, c1, o2, e1, e2, eo⟩ := Lemmas.WriterChunks.andThen_ok h
  rw [eo, endCol_append, ← ha o1 c1 e1]
  exact hf c1 o2 c' e2

theorem exact_congr {c c2 : Ctx} {r : W} (h : c2.lastColumn = c.lastColumn) (hl : Exact c r) : Exact c2 r := by
  intro o c' he
  rw [h]; exact hl o c' he

theorem exact_nop (c : Ctx) : Exact c (.ok ([], c)) := exact_ok rfl

theorem exact_newline (c : Ctx) : Exact c (.ok (writeNewline c)) := exact_ok (by simp [writeNewline, endCol])

theorem endCol_noeol (t : Str) (k : Nat) (h : (10 : CU) ∉ t) : endCol k t = k + t.length := (track_noeol t k h).1

/-- output ending in a line feed ends in column 0 -/
theorem endCol_lf (a : Str) (k : Nat) : endCol k (a ++ [10]) = 0 := by
  rw [endCol_append]; simp [endCol]

theorem exact_literal (c : Ctx) (t : Str) (w : Bool) (ht : (10 : CU) ∉ t) :
    Exact c (match writeLiteral c t w with | none => .error ErrCodes.CIF_ERROR | some r => .ok r) := by
  unfold writeLiteral
  by_cases h0 : t.length = 0
  · simp only [h0, if_true]; exact exact_nop c
  · simp only [h0, if_false]
    by_cases h1 : t.length + c.lastColumn > LINE
    · simp only [h1, if_true]
      cases w with
      | false => exact exact_error _ _
      | true =>
        simp only [if_true]
        apply exact_ok
        simp only [endCol, if_true]
        rw [endCol_noeol t 0 ht]; simp
    · simp only [h1, if_false]
      exact exact_ok (by simp only; rw [endCol_noeol t _ ht])

theorem exact_literalOrError (c : Ctx) (t : Str) (w : Bool) (ht : (10 : CU) ∉ t) : Exact c (literalOrError c t w) :=
  exact_literal c t w ht

theorem exact_ensureSpaced (c : Ctx) : Exact c (.ok (ensureSpaced c)) := by
  unfold ensureSpaced
  by_cases h0 : c.lastColumn = 0
  · simp only [h0, if_true]; exact exact_ok (by simp [endCol, h0])
  · simp only [h0, if_false]
    have := exact_literal c [32] false (by decide)
    cases hl : writeLiteral c [32] false with
    | none => exact exact_newline c
    | some r => simpa [hl] using this

/-- `write_uliteral` printing the whole text (the `length = -1` form, or `length = u_strlen`) -/
theorem exact_uliteral (c : Ctx) (t : Str) (n : Option Nat) (w : Bool) (ht : (10 : CU) ∉ t) (hn : n = none ∨ n = some t.length) :
    Exact c (match writeULiteral c t n w with | none => .error ErrCodes.CIF_ERROR | some r => .ok r) := by
  have hp : printfS t.length t = t := by simp [printfS]
  have core : ∀ len : Nat,
      Exact c (match (if len = 0 then some ([], c)
          else if len + c.lastColumn > LINE then
            if w then some (10 :: printfS t.length t, { c with lastColumn := (printfS t.length t).length })
            else none
          else some (printfS t.length t, { c with lastColumn := c.lastColumn + (printfS t.length t).length })) with
        | none => (.error ErrCodes.CIF_ERROR : W) | some r => .ok r) := by
    intro len
    rw [hp]
    by_cases h0 : len = 0
    · simp only [h0, if_true]; exact exact_nop c
    · simp only [h0, if_false]
      by_cases h1 : len + c.lastColumn > LINE
      · simp only [h1, if_true]
        cases w with
        | false => exact exact_error _ _
        | true =>
          simp only [if_true]
          apply exact_ok
          simp only [endCol, if_true]
          rw [endCol_noeol t 0 ht]; simp
      · simp only [h1, if_false]
        exact exact_ok (by simp only; rw [endCol_noeol t _ ht])
  unfold writeULiteral
  rcases hn with hn | hn
  · subst hn; exact core _
  · subst hn; exact core _

theorem exact_writeUnquoted (c : Ctx) (s : Str) (hs10 : (10 : CU) ∉ s) : Exact c (writeUnquoted c s s.length) := by
  have L := exact_uliteral c s (some s.length) true hs10 (Or.inr rfl)
  unfold writeUnquoted
  cases hw : writeULiteral c s (some s.length) true with
  | none => exact exact_error _ _
  | some r =>
    obtain ⟨o1, c1⟩ := r
    simp only [hw, Lemmas.WriterChar.printfS_length] at L ⊢
    by_cases h0 : s.length = 0
    · simp only [h0, if_true]; exact L
    · simp only [h0, if_false, if_true]; exact L

theorem exact_writeQuoted (c : Ctx) (s : Str) (d : CU) (hd : d ≠ 10) (hs10 : (10 : CU) ∉ s) :
    Exact c (writeQuoted c s s.length d) := by
  have hb : (10 : CU) ∉ [d] ++ s ++ [d] := by
    simp only [List.mem_append, List.mem_singleton, not_or]
    exact ⟨⟨fun e => hd e.symm, hs10⟩, fun e => hd e.symm⟩
  have hbl : ([d] ++ s ++ [d]).length = s.length + 2 := by simp
  unfold writeQuoted
  simp only [Lemmas.WriterLex.printfS_self, hbl, if_true]
  by_cases hw : c.lastColumn + s.length + 2 > LINE
  · simp only [hw, decide_true, if_true]
    apply exact_ok
    have : ([10] : Str) ++ ([d] ++ s ++ [d]) = 10 :: ([d] ++ s ++ [d]) := rfl
    rw [this]
    simp only [endCol, if_true]
    rw [endCol_noeol _ 0 hb, hbl]
  · simp only [hw, decide_false, Bool.false_eq_true, if_false, List.nil_append]
    apply exact_ok
    rw [endCol_noeol _ _ hb, hbl]

open CifModel.Spec.TextProtocol (joinLines) in
theorem endCol_join : ∀ (ls : List Str) (k : Nat), ls ≠ [] → (∀ l ∈ ls, (10 : CU) ∉ l) →
    endCol k (joinLines ls) = (if ls.tail = [] then k + (ls.headD []).length else (ls.getLastD []).length) := by
  intro ls
  induction ls with
  | nil => intro _ h; exact absurd rfl h
  | cons l rest ih =>
    intro k _ hno
    have hl := hno l List.mem_cons_self
    cases rest with
    | nil =>
      simp only [joinLines, List.tail_cons, if_true, List.headD_cons]
      exact endCol_noeol l k hl
    | cons l' r =>
      simp only [joinLines, List.tail_cons, List.headD_cons]
      have ihr := ih 0 (by simp) (fun x hx => hno x (List.mem_cons_of_mem _ hx))
      rw [endCol_append, endCol_noeol l k hl]
      simp only [endCol, if_true]
      rw [ihr]
      simp only [List.tail_cons, List.headD_cons, Nat.zero_add, reduceCtorEq, if_false, List.getLastD_cons]
      split
      · rename_i hr; subst hr; simp
      · rename_i hr
        cases r with
        | nil => exact absurd rfl hr
        | cons a b => simp [List.getLastD_cons]

open CifModel.Spec.TextProtocol (joinLines) in
/-- `write_triple_quoted` with the line lengths of the text (lines split at LF) -/
theorem exact_writeTriple (c : Ctx) (s : Str) (d : CU) (hd : d ≠ 10) :
    Exact c (writeTripleQuoted c s ((splitLines s).headD []).length ((splitLines s).getLastD []).length d) := by
  have hsp := Lemmas.WriterText.splitLines_spec s
  have hne := Lemmas.WriterText.splitLines_ne_nil s
  have hd3 : (10 : CU) ∉ [d, d, d] := by simp; exact fun e => hd e.symm
  unfold writeTripleQuoted
  simp only
  split
  case isFalse => exact exact_error _ _
  case isTrue hlen =>
  cases hs : splitLines s with
  | nil => exact absurd hs hne
  | cons l0 rest =>
    rw [hs] at hsp
    have hjoin : joinLines (l0 :: rest) = s := hsp.2
    cases rest with
    | nil =>
      simp only [joinLines] at hjoin
      subst hjoin
      have hs10 : (10 : CU) ∉ l0 := hsp.1 l0 List.mem_cons_self
      simp only [List.headD_cons, List.getLastD_cons, List.getLastD_nil, Nat.lt_irrefl, decide_false, Bool.false_eq_true,
        if_false]
      have hb : (10 : CU) ∉ [d, d, d] ++ l0 ++ [d, d, d] := by
        simp only [List.mem_append, not_or]; exact ⟨⟨hd3, hs10⟩, hd3⟩
      have hbl : ([d, d, d] ++ l0 ++ [d, d, d]).length = l0.length + 6 := by simp
      by_cases hw : c.lastColumn + l0.length + 6 > LINE
      · simp only [hw, decide_true, if_true]
        apply exact_ok
        have : ([10] : Str) ++ ([d, d, d] ++ l0 ++ [d, d, d]) = 10 :: ([d, d, d] ++ l0 ++ [d, d, d]) := rfl
        rw [this]
        simp only [endCol, if_true]
        rw [endCol_noeol _ 0 hb, hbl]; first | omega | (simp only; omega)
      · simp only [hw, decide_false, Bool.false_eq_true, if_false, List.nil_append]
        apply exact_ok
        rw [endCol_noeol _ _ hb, hbl]; first | omega | (simp only; omega)
    | cons l1 r =>
      have hlt : l0.length < s.length := by
        rw [← hjoin]; simp [joinLines]
      have hno : ∀ l ∈ l0 :: l1 :: r, (10 : CU) ∉ l := hsp.1
      simp only [List.headD_cons, hlt, decide_true, if_true]
      have body : ∀ k0, endCol k0 ([d, d, d] ++ s ++ [d, d, d]) = ((l0 :: l1 :: r).getLastD []).length + 3 := by
        intro k0
        have jt := endCol_join (l0 :: l1 :: r) (k0 + 3) (by simp) hno
        rw [hjoin] at jt
        simp only [List.tail_cons, reduceCtorEq, if_false] at jt
        rw [endCol_append, endCol_append, endCol_noeol [d, d, d] k0 hd3]
        simp only [List.length_cons, List.length_nil, Nat.zero_add]
        rw [jt, endCol_noeol [d, d, d] _ hd3]
        simp
      apply exact_ok
      by_cases hw : c.lastColumn + l0.length + 3 > LINE
      · simp only [hw, decide_true, if_true]
        have : ([10] : Str) ++ ([d, d, d] ++ s ++ [d, d, d]) = 10 :: ([d, d, d] ++ s ++ [d, d, d]) := rfl
        rw [this]
        simp only [endCol, if_true]
        rw [body 0]; simp
      · simp only [hw, decide_false, Bool.false_eq_true, if_false, List.nil_append]
        rw [body]; simp

/-- `write_text`: whatever the body, the closing `<LF>;` leaves column 1 -/
theorem exact_writeText (c : Ctx) (s : Str) (fold pre : Bool) : Exact c (writeText c s fold pre) := by
  unfold writeText
  cases hb : Writer.textBody s fold pre with
  | error e => exact exact_error _ _
  | ok body =>
    simp only
    apply exact_ok
    simp only [TEXT_CLOSE]
    rw [endCol_append, endCol_append]
    simp [endCol]

/-- **`write_char`** keeps `last_column` exact — every string without NUL and CR, every quoted flag, with or without permission
    to write a text field, both output versions, every column -/
theorem exact_writeChar (c : Ctx) (s : Str) (q allowText : Bool) (h0 : (0 : CU) ∉ s) (h13 : (13 : CU) ∉ s) :
    Exact c (writeChar c s q allowText) := by
  rcases Lemmas.WriterChar.writeChar_cases c s q allowText with ⟨e, _⟩ | ⟨e, _⟩ | ⟨e, _⟩
  · rw [e]; exact exact_error _ _
  · rw [e]; exact exact_error _ _
  rw [e]
  by_cases hv : c.isCif1 = true ∧ validate11 s = false
  · rw [Lemmas.WriterChar.writeChar_invalid c s q allowText hv]; exact exact_error _ _
  obtain ⟨hdel, hlen⟩ := Lemmas.WriterChar.analyze_delim s (!q) (!c.isCif1) LINE
  have hadm := C18_delim_admissible s (!q) (!c.isCif1) LINE h0
  obtain ⟨hF, hL, hAll, hN, hLen⟩ := analysis_lines s (!q) (!c.isCif1) h13
  cases hrec : recommend s (!q) (!c.isCif1) LINE with
  | none =>
    have hd0 : (analyze s (!q) (!c.isCif1) LINE).delimLength = 0 := by rw [hlen, hrec]; rfl
    rw [Lemmas.WriterChar.writeChar_delim0 c s q allowText hv hd0]
    obtain ⟨_, _, _, _, _, _, hn, hm⟩ := hadm.1 hrec
    obtain ⟨hno, hmax, _⟩ := Lemmas.WriterLex.one_line s (!q) (!c.isCif1) LINE hn
    rw [hmax]
    exact exact_writeUnquoted c s (fun h => (hno 10 h).1 rfl)
  | apos =>
    have hd1 : (analyze s (!q) (!c.isCif1) LINE).delimLength = 1 := by rw [hlen, hrec]; rfl
    rw [Lemmas.WriterChar.writeChar_delim1 c s q allowText hv hd1]
    obtain ⟨_, hn, hm⟩ := hadm.2.1 hrec
    obtain ⟨hno, hmax, hl⟩ := Lemmas.WriterLex.one_line s (!q) (!c.isCif1) LINE hn
    rw [hl, hdel, hrec]
    exact exact_writeQuoted c s _ (by decide) (fun h => (hno 10 h).1 rfl)
  | quot =>
    have hd1 : (analyze s (!q) (!c.isCif1) LINE).delimLength = 1 := by rw [hlen, hrec]; rfl
    rw [Lemmas.WriterChar.writeChar_delim1 c s q allowText hv hd1]
    obtain ⟨_, hn, hm⟩ := hadm.2.2.1 hrec
    obtain ⟨hno, hmax, hl⟩ := Lemmas.WriterLex.one_line s (!q) (!c.isCif1) LINE hn
    rw [hl, hdel, hrec]
    exact exact_writeQuoted c s _ (by decide) (fun h => (hno 10 h).1 rfl)
  | text =>
    have hd2 : (analyze s (!q) (!c.isCif1) LINE).delimLength = 2 := by rw [hlen, hrec]; rfl
    by_cases hr : allowText = false ∨ ((analyze s (!q) (!c.isCif1) LINE).containsTextDelim = true ∧ c.isCif1 = true)
    · rw [Lemmas.WriterChar.writeChar_delim2_refused c s q allowText hv hd2 hr]; exact exact_error _ _
    · rw [Lemmas.WriterChar.writeChar_delim2 c s q allowText hv hd2 hr]
      exact exact_writeText c s _ _
  | apos3 =>
    have hd3 : (analyze s (!q) (!c.isCif1) LINE).delimLength = 3 := by rw [hlen, hrec]; rfl
    rw [Lemmas.WriterChar.writeChar_delim3 c s q allowText hv hd3, hdel, hrec, hF, hL]
    exact exact_writeTriple c s _ (by decide)
  | quot3 =>
    have hd3 : (analyze s (!q) (!c.isCif1) LINE).delimLength = 3 := by rw [hlen, hrec]; rfl
    rw [Lemmas.WriterChar.writeChar_delim3 c s q allowText hv hd3, hdel, hrec, hF, hL]
    exact exact_writeTriple c s _ (by decide)

/-! ### numbers, names, items -/

/-- a number text: no NUL, no CR, no LF (its length and its characters are not restricted) -/
def numbX (t : Str) : Prop := strOk t ∧ (10 : CU) ∉ t

theorem exact_writeNumb (c : Ctx) (t : Str) (q : Bool) (ht : numbX t) : Exact c (writeNumb c t q) := by
  unfold writeNumb
  cases q with
  | true => exact exact_writeChar c t true true ht.1.1 ht.1.2
  | false =>
    simp only [Bool.false_eq_true, if_false]
    by_cases hlong : t.length > LINE
    · rw [if_pos hlong]; exact exact_writeChar c t false true ht.1.1 ht.1.2
    rw [if_neg hlong]
    have L := exact_uliteral c t none true ht.2 (Or.inl rfl)
    cases hw : writeULiteral c t none true with
    | none => exact exact_error _ _
    | some r =>
      obtain ⟨o, c'⟩ := r
      simp only [hw] at L ⊢
      split
      · exact exact_error _ _
      · exact L

theorem exact_writeItemHead (c : Ctx) (n : Str) (hn : c.writeItemNames = true → (10 : CU) ∉ n) : Exact c (writeItemHead c n) := by
  unfold writeItemHead
  apply exact_andThen
  · cases hw : c.writeItemNames with
    | false => simp only [Bool.false_eq_true, if_false]; exact exact_nop c
    | true =>
      have hnm := hn hw
      simp only [if_true]
      split
      · exact exact_error _ _
      · -- the optional line break, then the name
        have key : ∀ (p : Str × Ctx), Exact c (.ok p) →
            Exact c (match writeULiteral p.2 n none false with
              | none => (.error ErrCodes.CIF_ERROR : W)
              | some (o2, c2) => if o2.length < 2 then .error ErrCodes.CIF_ERROR else .ok (p.1 ++ o2, c2)) := by
          intro p hp
          have L := exact_uliteral p.2 n none false hnm (Or.inl rfl)
          cases hu : writeULiteral p.2 n none false with
          | none => exact exact_error _ _
          | some r =>
            obtain ⟨o2, c2⟩ := r
            simp only [hu] at L ⊢
            split
            · exact exact_error _ _
            · apply exact_ok
              rw [endCol_append, ← hp p.1 p.2 rfl]
              exact L o2 c2 rfl
        by_cases hcol : c.lastColumn > 0
        · simp only [hcol, if_true]
          exact key (writeNewline c) (exact_newline c)
        · simp only [hcol, if_false]
          exact key ([], c) (exact_nop c)
  · intro c1
    split
    · exact exact_ensureSpaced c1
    · exact exact_nop c1

/-! ### values -/

mutual
  /-- strings and table keys without NUL and CR, number texts additionally without LF -/
  def valueX : V → Prop
    | .chr _ t => strOk t
    | .numb _ t _ _ _ _ => numbX t
    | .lst vs => elemsX vs
    | .tbl es => entriesX es
    | _ => True
  def elemsX : List V → Prop
    | [] => True
    | v :: r => valueX v ∧ elemsX r
  def entriesX : List (Str × Str × V) → Prop
    | [] => True
    | (_, key, v) :: r => strOk key ∧ valueX v ∧ entriesX r
end

theorem exact_seq {c c0 c2 : Ctx} {o0 o1 : Str} (h0 : Exact c (.ok (o0, c0))) (h1 : Exact c0 (.ok (o1, c2))) :
    Exact c (.ok (o0 ++ o1, c2)) := by
  apply exact_ok
  rw [endCol_append, ← h0 o0 c0 rfl]
  exact h1 o1 c2 rfl

mutual
  theorem exact_item (n : Str) (v : V) (c : Ctx) (hn : c.writeItemNames = true → (10 : CU) ∉ n) (hv : valueX v) :
      Exact c (writeItem n v c) := by
    unfold writeItem
    apply exact_andThen (exact_writeItemHead c n hn)
    intro c1
    match v, hv with
    | .chr q t, hv => exact exact_writeChar c1 t q true hv.1 hv.2
    | .numb q t _ _ _ _, hv => exact exact_writeNumb c1 t q hv
    | .na, _ => exact exact_literalOrError c1 _ _ (by decide)
    | .unk, _ => exact exact_literalOrError c1 _ _ (by decide)
    | .lst vs, hv =>
      simp only
      split
      · exact exact_error _ _
      · apply exact_andThen (exact_literalOrError c1 _ _ (by decide))
        intro c2
        have hE : Exact c2 (writeElems vs { c2 with writeItemNames := false, separateValues := true }) :=
          exact_congr (c := { c2 with writeItemNames := false, separateValues := true }) rfl
            (exact_elems vs _ (by simpa [valueX] using hv))
        apply exact_andThen hE
        intro c3
        apply exact_andThen (exact_literalOrError c3 _ _ (by decide))
        intro c4
        exact exact_congr (c := { c4 with separateValues := c2.separateValues, writeItemNames := c2.writeItemNames })
          rfl (exact_nop _)
    | .tbl es, hv =>
      simp only
      split
      · exact exact_error _ _
      · apply exact_andThen (exact_literalOrError c1 _ _ (by decide))
        intro c2
        have hE : Exact c2 (writeEntries es { c2 with writeItemNames := false }) :=
          exact_congr (c := { c2 with writeItemNames := false }) rfl (exact_entries es _ (by simpa [valueX] using hv))
        apply exact_andThen hE
        intro c3
        apply exact_andThen (exact_literalOrError c3 _ _ (by decide))
        intro c4
        exact exact_congr (c := { c4 with separateValues := c2.separateValues, writeItemNames := c2.writeItemNames })
          rfl (exact_nop _)
  theorem exact_elems (vs : List V) (c : Ctx) (hv : elemsX vs) : Exact c (writeElems vs c) := by
    match vs, hv with
    | [], _ => unfold writeElems; exact exact_nop c
    | v :: rest, hv =>
      unfold writeElems
      simp only [elemsX] at hv
      apply exact_andThen (exact_item [] v c (fun _ => by simp) hv.1)
      intro c1
      exact exact_elems rest c1 hv.2
  theorem exact_entries (es : List (Str × Str × V)) (c : Ctx) (hv : entriesX es) : Exact c (writeEntries es c) := by
    match es, hv with
    | [], _ => unfold writeEntries; exact exact_nop c
    | (kn, key, v) :: rest, hv =>
      unfold writeEntries
      simp only [entriesX] at hv
      have h0 : Exact c (.ok (if (key.length : Int) > (LINE : Int) - (c.lastColumn + 8) then writeNewline c else ([], c))) := by
        split
        · exact exact_newline c
        · exact exact_nop c
      generalize (if (key.length : Int) > (LINE : Int) - (c.lastColumn + 8) then writeNewline c else ([], c)) = p0 at h0
      obtain ⟨o0, c0⟩ := p0
      simp only
      have h1 : Exact c0 (.ok (ensureSpaced { c0 with separateValues := false })) :=
        exact_congr (c := { c0 with separateValues := false }) rfl (exact_ensureSpaced _)
      generalize ensureSpaced { c0 with separateValues := false } = p1 at h1
      obtain ⟨o1, c2⟩ := p1
      simp only
      apply exact_andThen (exact_seq h0 h1)
      intro c2
      apply exact_andThen (exact_writeChar c2 key true false hv.1.1 hv.1.2)
      intro c3
      apply exact_andThen (exact_literal c3 [58] false (by decide) |> fun h => by
        cases hl : writeLiteral c3 [58] false with
        | none => exact exact_error _ _
        | some r => simpa [hl] using h)
      intro c4
      apply exact_andThen (exact_item [] v c4 (fun _ => by simp) hv.2.1)
      intro c5
      exact exact_entries rest c5 hv.2.2
end

/-! ### items, packets, loops, containers -/

/-- the items of a packet: values as above; the data names hold no line feed -/
def itemsX (p : List (Str × V)) : Prop := ∀ nv ∈ p, valueX nv.2 ∧ (10 : CU) ∉ nv.1

theorem exact_items : ∀ (p : List (Str × V)) (c : Ctx), itemsX p → Exact c (writeItems p c) := by
  intro p
  induction p with
  | nil => intro c _; exact exact_nop c
  | cons nv rest ih =>
    intro c h
    obtain ⟨n, v⟩ := nv
    simp only [writeItems]
    have h1 := h (n, v) List.mem_cons_self
    apply exact_andThen (exact_item n v c (fun _ => h1.2) h1.1)
    intro c1
    exact ih c1 (fun x hx => h x (List.mem_cons_of_mem _ hx))

theorem exact_packet (p : List (Str × V)) (c : Ctx) (h : itemsX p) : Exact c (writePacket p c) := by
  unfold writePacket
  apply exact_andThen (exact_items p c h)
  intro c1
  exact exact_newline c1

theorem exact_packets : ∀ (ps : List (List (Str × V))) (c : Ctx), (∀ p ∈ ps, itemsX p) → Exact c (writePackets ps c) := by
  intro ps
  induction ps with
  | nil => intro c _; exact exact_nop c
  | cons p rest ih =>
    intro c h
    simp only [writePackets]
    apply exact_andThen (exact_packet p c (h p List.mem_cons_self))
    intro c1
    exact ih c1 (fun x hx => h x (List.mem_cons_of_mem _ hx))

/-- the loop header: every name line ends in a line feed and `last_column` is reset — nothing is asked of the names -/
theorem exact_headerNames : ∀ (ns : List Str) (c : Ctx), Exact c (writeHeaderNames ns c) := by
  intro ns
  induction ns with
  | nil => intro c; exact exact_nop c
  | cons n rest ih =>
    intro c
    simp only [writeHeaderNames]
    split
    · exact exact_error _ _
    · apply exact_andThen
      · apply exact_ok
        simp only
        rw [endCol_lf]
      · intro c1; exact ih c1

theorem exact_loop (l : WLoop) (c : Ctx) (h : ∀ p ∈ l.packets, itemsX p) : Exact c (writeLoop l c) := by
  unfold writeLoop
  apply exact_andThen
  · split
    · exact exact_ok (by simp [writeNewline, endCol])
    · apply exact_andThen
      · apply exact_ok
        simp [LOOP_HEAD, endCol]
      · intro c1; exact exact_headerNames l.header c1
  · intro c1
    split
    · exact exact_error _ _
    · apply exact_andThen (exact_packets l.packets c1 h)
      intro c2; exact exact_newline c2

theorem exact_loops : ∀ (ls : List WLoop) (c : Ctx), (∀ l ∈ ls, ∀ p ∈ l.packets, itemsX p) → Exact c (writeLoops ls c) := by
  intro ls
  induction ls with
  | nil => intro c _; exact exact_nop c
  | cons l rest ih =>
    intro c h
    simp only [writeLoops]
    apply exact_andThen (exact_loop l c (h l List.mem_cons_self))
    intro c1
    exact ih c1 (fun x hx => h x (List.mem_cons_of_mem _ hx))

mutual
  /-- all that exactness asks of a container: item names without LF, strings and keys without NUL / CR, number texts without
      NUL / CR / LF — nothing about the codes, the loop-header names, or any length -/
  def containerX : WContainer → Prop
    | .mk _ frames loops => containersX frames ∧ ∀ l ∈ loops, ∀ p ∈ l.packets, itemsX p
  def containersX : List WContainer → Prop
    | [] => True
    | k :: rest => containerX k ∧ containersX rest
end

mutual
  theorem exact_container (k : WContainer) (c : Ctx) (h : containerX k) : Exact c (writeContainer k c) := by
    match k, h with
    | .mk code frames loops, h =>
      simp only [containerX] at h
      unfold writeContainer
      split
      · exact exact_error _ _
      · apply exact_andThen
        · apply exact_ok
          simp only
          rw [endCol_lf]
        · intro c1
          apply exact_andThen (exact_containers frames c1 h.1)
          intro c2
          apply exact_andThen (exact_loops loops c2 h.2)
          intro c3
          simp only
          split
          · exact exact_ok (by simp [writeNewline, endCol])
          · exact exact_ok (by simp [FRAME_END, endCol])
  theorem exact_containers (ks : List WContainer) (c : Ctx) (h : containersX ks) : Exact c (writeContainers ks c) := by
    match ks, h with
    | [], _ => unfold writeContainers; exact exact_nop c
    | k :: rest, h =>
      simp only [containersX] at h
      unfold writeContainers
      apply exact_andThen (exact_container k c h.1)
      intro c1
      exact exact_containers rest c1 h.2
end

/-! ### the hypotheses of `C02_line_bound` imply those of exactness -/

mutual
  theorem valueX_of_L : ∀ (v : V), valueL v → valueX v
    | .chr _ _, h => h
    | .numb _ _ _ _ _ _, h => ⟨h.1, h.2.1⟩
    | .lst vs, h => by simp only [valueX]; exact elemsX_of_L vs (by simpa [valueL] using h)
    | .tbl es, h => by simp only [valueX]; exact entriesX_of_L es (by simpa [valueL] using h)
    | .na, _ => trivial
    | .unk, _ => trivial
  theorem elemsX_of_L : ∀ (vs : List V), elemsL vs → elemsX vs
    | [], _ => trivial
    | v :: r, h => by
      simp only [elemsL] at h
      exact ⟨valueX_of_L v h.1, elemsX_of_L r h.2⟩
  theorem entriesX_of_L : ∀ (es : List (Str × Str × V)), entriesL es → entriesX es
    | [], _ => trivial
    | (_, _, v) :: r, h => by
      simp only [entriesL] at h
      exact ⟨h.1, valueX_of_L v h.2.1, entriesX_of_L r h.2.2⟩
end

theorem itemsX_of_L (p : List (Str × V)) (h : itemsL p) : itemsX p :=
  fun nv hnv => ⟨valueX_of_L nv.2 (h nv hnv).1, (h nv hnv).2.1⟩

mutual
  theorem containerX_of_L : ∀ (k : WContainer), containerL k → containerX k
    | .mk _ frames loops, h => by
      simp only [containerL] at h
      exact ⟨containersX_of_L frames h.2.1, fun l hl p hp => itemsX_of_L p ((h.2.2 l hl).2 p hp)⟩
  theorem containersX_of_L : ∀ (ks : List WContainer), containersL ks → containersX ks
    | [], _ => trivial
    | k :: r, h => by
      simp only [containersL] at h
      exact ⟨containerX_of_L k h.1, containersX_of_L r h.2⟩
end

end CifModel.Lemmas.WriterColumn
