import CifModel.Lemmas.ParserDet
import CifModel.Lemmas.LexerAccept
/-
  Lemmas/ParserDetLex — every scanner function of Model/Lexer.lean is prefix-deterministic (`DetL`): same structure as
  Lemmas/LexerAccept (one lemma per scan function, induction over the remaining input).
-/
namespace CifModel.Model.Lexer
open CifModel CifModel.Model.Chars CifModel.Model.Parser

syntax "detl" : tactic
macro_rules
  | `(tactic| detl) => `(tactic| repeat (first
      | exact DetL.pure _
      | exact DetL.report _ _ _ (by decide)
      | exact DetL.reportIf _ _ _ _ (by decide)
      | assumption
      | apply DetL.bind
      | apply DetL.ite
      | intro _))

theorem scanUChar_detl (dia : Dialect) (line col prev c : Nat) (lead : Bool) : DetL (scanUChar dia line col prev c lead) := by
  simp only [scanUChar, bind_eq, pure_eq]
  detl

theorem leadAtEof_detl (dia : Dialect) (line col : Nat) (lead : Bool) (acc : Str) : DetL (leadAtEof dia line col lead acc) := by
  simp only [leadAtEof, bind_eq, pure_eq]
  detl

theorem handleEol_detl (line col sol c : Nat) : DetL (handleEol line col sol c) := by
  simp only [handleEol, bind_eq, pure_eq]
  detl

theorem scanWs_detl (dia : Dialect) : ∀ (inp : Str) (line col sol : Nat), DetL (scanWs dia inp line col sol) := by
  intro inp
  induction inp with
  | nil => intro line col sol; simp only [scanWs, pure_eq]; detl
  | cons c r ih =>
    intro line col sol
    simp only [scanWs, bind_eq, pure_eq]
    have := handleEol_detl
    apply DetL.ite (ih ..)
    apply DetL.ite
    · apply DetL.bind (handleEol_detl ..)
      intro a; exact ih ..
    · exact DetL.pure _

theorem scanToWs_detl (dia : Dialect) : ∀ (inp : Str) (line col : Nat) (lead : Bool) (acc : Str),
    DetL (scanToWs dia inp line col lead acc) := by
  intro inp
  induction inp with
  | nil => intro line col lead acc; simp only [scanToWs, bind_eq, pure_eq]; have := leadAtEof_detl dia line col lead acc; detl
  | cons c r ih =>
    intro line col lead acc
    simp only [scanToWs, bind_eq, pure_eq]
    apply DetL.bind (scanUChar_detl ..)
    intro u
    apply DetL.ite (DetL.pure _) (ih ..)

theorem scanToEol_detl (dia : Dialect) : ∀ (inp : Str) (line col : Nat) (lead : Bool) (acc : Str),
    DetL (scanToEol dia inp line col lead acc) := by
  intro inp
  induction inp with
  | nil => intro line col lead acc; simp only [scanToEol, bind_eq, pure_eq]; have := leadAtEof_detl dia line col lead acc; detl
  | cons c r ih =>
    intro line col lead acc
    simp only [scanToEol, bind_eq, pure_eq]
    apply DetL.bind (scanUChar_detl ..)
    intro u
    apply DetL.ite (DetL.pure _) (ih ..)

theorem scanUnquoted_detl (dia : Dialect) : ∀ (inp : Str) (line col : Nat) (lead : Bool) (acc : Str) (k : Nat) (kd ks : Bool),
    DetL (scanUnquoted dia inp line col lead acc k kd ks) := by
  intro inp
  induction inp with
  | nil =>
    intro line col lead acc k kd ks; simp only [scanUnquoted, bind_eq, pure_eq]
    have := leadAtEof_detl dia line col lead acc; detl
  | cons c r ih =>
    intro line col lead acc k kd ks
    simp only [scanUnquoted, bind_eq, pure_eq]
    apply DetL.bind (scanUChar_detl ..)
    intro u
    cases metaOfCls (classOf dia u.c) <;> simp only []
    · exact ih ..
    · exact ih ..
    · apply DetL.ite (DetL.pure _) (DetL.pure _)
    · apply DetL.ite
      · detl
      · exact ih ..
    · apply DetL.ite (DetL.pure _) (ih ..)

theorem scanTriple_detl (dia : Dialect) (delim : Nat) : ∀ (inp : Str) (line col : Nat) (lead : Bool) (acc : Str) (dc sol : Nat),
    DetL (scanTriple dia delim inp line col lead acc dc sol) := by
  intro inp
  induction inp with
  | nil =>
    intro line col lead acc dc sol; simp only [scanTriple, bind_eq, pure_eq]
    have := leadAtEof_detl dia line col lead acc; detl
  | cons c r ih =>
    intro line col lead acc dc sol
    simp only [scanTriple, bind_eq, pure_eq]
    apply DetL.bind (scanUChar_detl ..)
    intro u
    apply DetL.ite
    · apply DetL.ite (DetL.pure _) (ih ..)
    · apply DetL.ite
      · apply DetL.bind (handleEol_detl ..)
        intro a; exact ih ..
      · exact ih ..

theorem scanDelim_detl (dia : Dialect) (delim : Nat) : ∀ (inp : Str) (line col : Nat) (lead : Bool) (acc : Str) (first : Bool),
    DetL (scanDelim dia delim inp line col lead acc first) := by
  intro inp
  induction inp with
  | nil =>
    intro line col lead acc first; simp only [scanDelim, bind_eq, pure_eq]
    have := leadAtEof_detl dia line col lead acc; detl
  | cons c r ih =>
    intro line col lead acc first
    simp only [scanDelim, bind_eq, pure_eq]
    apply DetL.bind (scanUChar_detl ..)
    intro u
    apply DetL.ite
    · cases r with
      | nil => exact DetL.pure _
      | cons d r' =>
        simp only []
        apply DetL.ite
        · apply DetL.ite (ih ..) (DetL.pure _)
        · apply DetL.ite (scanTriple_detl ..) (DetL.pure _)
    · apply DetL.ite
      · detl
      · exact ih ..

theorem scanText_detl (dia : Dialect) : ∀ (inp : Str) (line col : Nat) (lead : Bool) (acc : Str) (sol : Nat),
    DetL (scanText dia inp line col lead acc sol) := by
  intro inp
  induction inp with
  | nil =>
    intro line col lead acc sol; simp only [scanText, bind_eq, pure_eq]
    have := leadAtEof_detl dia line col lead acc; detl
  | cons c r ih =>
    intro line col lead acc sol
    simp only [scanText, bind_eq, pure_eq]
    apply DetL.bind (scanUChar_detl ..)
    intro u
    apply DetL.ite
    · apply DetL.ite (DetL.pure _) (ih ..)
    · apply DetL.ite
      · apply DetL.bind (handleEol_detl ..)
        intro a; exact ih ..
      · exact ih ..

theorem finishUnquoted_detl (dia : Dialect) (aw : Bool) (t : Str) (p : Pos) : DetL (finishUnquoted dia aw t p) := by
  unfold finishUnquoted
  cases classify dia t <;> simp only [bind_eq, pure_eq] <;> detl

theorem stepTok_detl (dia : Dialect) (aw : Bool) (c : Nat) (r : Str) (line col : Nat) : DetL (stepTok dia aw c r line col) := by
  unfold stepTok
  simp only [bind_eq]
  simp only [pure_eq]
  apply DetL.bind (DetL.reportIf _ _ _ _ (by decide))
  intro _
  have h1 := scanWs_detl dia
  have h2 := scanToEol_detl dia
  have h3 := scanToWs_detl dia
  have h4 := scanDelim_detl dia
  have h5 := scanText_detl dia
  have h6 := scanUnquoted_detl dia
  have h7 := finishUnquoted_detl dia
  repeat (first
    | exact DetL.pure _
    | exact h1 ..
    | exact h2 ..
    | exact h3 ..
    | exact h4 ..
    | exact h5 ..
    | exact h6 ..
    | exact h7 ..
    | apply DetL.bind
    | apply DetL.ite
    | intro _)

theorem tokLoop_detl (dia : Dialect) : ∀ (f : Nat) (aw : Bool) (p : Pos), DetL (tokLoop dia f aw p) := by
  intro f
  induction f with
  | zero => intro aw p; simp only [tokLoop, pure_eq]; exact DetL.pure _
  | succ f ih =>
    intro aw p
    obtain ⟨rest, line, col⟩ := p
    cases rest with
    | nil =>
      have e : tokLoop dia (f + 1) aw ⟨[], line, col⟩ = L.pure (⟨.end_, [], line, col⟩, ⟨[], line, col⟩) := by
        funext pol log; rw [tokLoop_nil]; rfl
      rw [e]; exact DetL.pure _
    | cons c r =>
      rw [tokLoop_cons]
      apply DetL.bind (stepTok_detl ..)
      intro st
      cases st with
      | tok t p' => exact DetL.pure _
      | skip aw' p' => exact ih ..

theorem nextToken_detl (dia : Dialect) (s : Scan) : DetL (nextToken dia s) := by
  simp only [nextToken, bind_eq, pure_eq]
  apply DetL.bind (tokLoop_detl ..)
  intro a
  exact DetL.pure _

end CifModel.Model.Lexer
