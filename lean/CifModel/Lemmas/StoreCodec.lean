import CifModel.Model.StoreCodec
import CifModel.Lemmas.StoreValue
import CifModel.Lemmas.StoreInv
import CifModel.Lemmas.Columns
/-
  Lemmas/StoreCodec (group gG, property C07): the codec is the identity on well-formed values, so the composed operations
  of Model/StoreCodec are the store operations on such values; and what the reading statements return for an occupied cell.
-/
namespace CifModel.Store.Codec
open CifModel CifModel.Store CifModel.Model.Columns Gen.ErrCodes

theorem image_wf (v : V) (h : wfValue parseFields v = true) : image v = some v := by
  obtain ⟨row, h1, h2, h3⟩ := columns_roundtrip parseFields v h
  unfold image
  rw [h1]; simp only [h2, if_true]; exact h3

theorem imagePacket_wf : ∀ (pkt : List (Str × V)), (∀ e ∈ pkt, wfValue parseFields e.2 = true) → imagePacket pkt = some pkt
  | [], _ => rfl
  | (k, v) :: es, h => by
    have h1 := image_wf v (h (k, v) List.mem_cons_self)
    have h2 := imagePacket_wf es (fun e he => h e (List.mem_cons_of_mem _ he))
    simp [imagePacket, h1, h2]

theorem setValueC_wf (s : Store) (h : CH) (n : Name) (v : V) (hw : wfValue parseFields v = true) :
    setValueC s h n v = setValue s h (some n) (some v) := by simp [setValueC, image_wf v hw]
theorem addItemC_wf (s : Store) (l : LH) (n : Name) (v : V) (hw : wfValue parseFields v = true) :
    addItemC s l n v = addItem s l (some n) (some v) := by simp [addItemC, image_wf v hw]
theorem addPacketC_wf (s : Store) (l : LH) (pkt : List (Str × V)) (hw : ∀ e ∈ pkt, wfValue parseFields e.2 = true) :
    addPacketC s l pkt = addPacket s l pkt := by simp [addPacketC, imagePacket_wf pkt hw]
theorem updatePacketC_wf (s : Store) (it : Iter) (pkt : List (Str × V)) (hw : ∀ e ∈ pkt, wfValue parseFields e.2 = true) :
    updatePacketC s it pkt = updatePacket s it pkt := by simp [updatePacketC, imagePacket_wf pkt hw]

/-- **what every reading statement returns for the cell (cid, k, row)**:
    GET_VALUE_SQL (cif_container_get_value) returns a row for it, and every row it returns for it carries `v`;
    GET_LOOP_VALUES_SQL (what cif_pktitr_next_packet and cif_walk assemble their packets from) on the loop that contains
    the item returns a row for it, and every row it returns for it carries `v` -/
structure ReadsBack (d : Db) (cid : Nat) (k : Str) (row : Nat) (v : V) : Prop where
  getValueSql : (∃ w ∈ d.valuesOf cid k, w.rowNum = row) ∧ ∀ w ∈ d.valuesOf cid k, w.rowNum = row → w.val = v
  loopValuesSql : ∀ ln, (d.loopItems cid ln).any (fun i => i.name == k) = true →
    (∃ w ∈ d.loopValues cid ln, w.name = k ∧ w.rowNum = row)
    ∧ ∀ w ∈ d.loopValues cid ln, w.name = k → w.rowNum = row → w.val = v

theorem mem_of_cell (d : Db) (cid : Nat) (k : Str) (row : Nat) (v : V) (h : d.cell cid k row = some v) :
    ∃ w ∈ d.values, w.cid = cid ∧ w.name = k ∧ w.rowNum = row ∧ w.val = v := by
  unfold Db.cell at h
  cases hf : d.values.find? (isKey cid k row) with
  | none =>
    have : d.values.find? (fun w => w.cid == cid && w.name == k && w.rowNum == row) = none := hf
    simp [this] at h
  | some w =>
    have hf' : d.values.find? (fun w => w.cid == cid && w.name == k && w.rowNum == row) = some w := hf
    have hp := List.find?_some (p := isKey cid k row) hf
    simp only [isKey, Bool.and_eq_true, beq_iff_eq] at hp
    simp only [hf', Option.map_some, Option.some.injEq] at h
    exact ⟨w, List.mem_of_find?_eq_some hf, hp.1.1, hp.1.2, hp.2, h⟩

/-- an occupied cell is read back, through either statement, as the value it holds (primary key of item_value unique) -/
theorem readsBack_of_cell (d : Db) (hinv : Inv d) (cid : Nat) (k : Str) (row : Nat) (v : V) (h : d.cell cid k row = some v) :
    ReadsBack d cid k row v := by
  obtain ⟨w, hw, hc, hn, hr, hval⟩ := mem_of_cell d cid k row v h
  have huniq : ∀ w' ∈ d.values, w'.cid = cid → w'.name = k → w'.rowNum = row → w'.val = v := by
    intro w' hw' hc' hn' hr'
    have := cell_of_mem d hinv.valuePK w' hw'
    rw [hc', hn', hr', h] at this
    exact (Option.some.inj this).symm
  constructor
  · constructor
    · refine ⟨w, ?_, hr⟩
      unfold Db.valuesOf
      apply mem_foldr_insertByRow_of_mem_sv
      simp only [List.mem_filter, Bool.and_eq_true, beq_iff_eq]
      exact ⟨hw, hc, hn⟩
    · intro w' hw' hr'
      obtain ⟨hm, hc', hn'⟩ := mem_valuesOf d cid k w' hw'
      exact huniq w' hm hc' hn' hr'
  · intro ln hin
    constructor
    · refine ⟨w, ?_, hn, hr⟩
      unfold Db.loopValues
      apply mem_foldr_insertByRow_of_mem_sv
      simp only [List.mem_filter, Bool.and_eq_true, beq_iff_eq]
      exact ⟨hw, hc, by rw [hn]; exact hin⟩
    · intro w' hw' hn' hr'
      obtain ⟨hm, hc'⟩ := mem_loopValues d cid ln w' hw'
      exact huniq w' hm hc' hn' hr'

end CifModel.Store.Codec
