import CifModel.Spec.Eol
/-
  Lemmas about the EOL normal form (Spec.Eol): the fold is compositional, has a one-unit unfolding, and re-spelling the
  terminators of an LF-form document does not change its normal form.
-/
namespace CifModel.Spec.Eol

theorem run_append (s : EolSt) (a b : Str) : run s (a ++ b) = run (run s a) b := by
  simp [run, List.foldl_append]

theorem run_cons (s : EolSt) (c : CU) (l : Str) : run s (c :: l) = run (eolStep s c) l := rfl

theorem eolStep_out (s : EolSt) (c : CU) :
    (eolStep s c).prevCR = (eolStep ⟨s.prevCR, []⟩ c).prevCR ∧
    (eolStep s c).out = (eolStep ⟨s.prevCR, []⟩ c).out ++ s.out := by
  unfold eolStep
  by_cases hc : c = 13
  · simp [hc]
  · by_cases h10 : c = 10
    · cases hp : s.prevCR <;> simp [h10, hp]
    · simp [hc, h10]

/-- the output accumulates: what was there stays underneath -/
theorem run_out (s : EolSt) (l : Str) :
    (run s l).out = (run ⟨s.prevCR, []⟩ l).out ++ s.out ∧ (run s l).prevCR = (run ⟨s.prevCR, []⟩ l).prevCR := by
  induction l generalizing s with
  | nil => simp [run]
  | cons c cs ih =>
    rw [run_cons, run_cons]
    have h1 := ih (eolStep s c)
    have h2 := ih (eolStep ⟨s.prevCR, []⟩ c)
    have h3 := eolStep_out s c
    rw [h1.1, h1.2, h2.1, h2.2, h3.1, h3.2]
    simp

theorem normFrom_nil (pc : Bool) : normFrom pc [] = [] := rfl

theorem normFrom_cons (pc : Bool) (c : CU) (l : Str) :
    normFrom pc (c :: l) =
      if c = 13 then 10 :: normFrom true l
      else if c = 10 ∧ pc = true then normFrom false l
      else c :: normFrom false l := by
  unfold normFrom
  rw [run_cons, (run_out _ l).1]
  unfold eolStep
  by_cases hc : c = 13
  · simp [hc]
  · by_cases h10 : c = 10
    · cases pc <;> simp [h10]
    · simp [hc, h10]

theorem flagAfter_nil (pc : Bool) : flagAfter pc [] = pc := rfl

theorem flagAfter_cons (pc : Bool) (c : CU) (l : Str) : flagAfter pc (c :: l) = flagAfter (decide (c = 13)) l := by
  unfold flagAfter
  rw [run_cons, (run_out _ l).2]
  unfold eolStep
  by_cases hc : c = 13
  · simp [hc]
  · by_cases h10 : c = 10
    · cases pc <;> simp [h10]
    · simp [hc, h10]

/-- the normal form of a concatenation: the second part is normalised from the flag the first part leaves -/
theorem normFrom_append (pc : Bool) (a b : Str) :
    normFrom pc (a ++ b) = normFrom pc a ++ normFrom (flagAfter pc a) b := by
  induction a generalizing pc with
  | nil => simp [normFrom_nil, flagAfter_nil]
  | cons c cs ih =>
    rw [List.cons_append, normFrom_cons, normFrom_cons, flagAfter_cons]
    by_cases hc : c = 13
    · simp [hc, ih]
    · by_cases h10 : c = 10
      · cases pc <;> simp [h10, ih]
      · simp [hc, h10, ih]

theorem flagAfter_append (pc : Bool) (a b : Str) : flagAfter pc (a ++ b) = flagAfter (flagAfter pc a) b := by
  unfold flagAfter
  rw [run_append, (run_out (run ⟨pc, []⟩ a) b).2]

/-- the flag after a non-empty piece: was its last unit a CR? -/
theorem flagAfter_getLast (pc : Bool) (l : Str) (h : l ≠ []) : flagAfter pc l = (l.getLast? == some 13) := by
  induction l generalizing pc with
  | nil => exact absurd rfl h
  | cons c cs ih =>
    rw [flagAfter_cons]
    cases cs with
    | nil => by_cases hc : c = 13 <;> simp [flagAfter_nil, hc]
    | cons d ds =>
      rw [ih _ (by simp)]
      simp [List.getLast?_cons_cons]

/-- a pending CR only matters if the next unit is an LF -/
theorem normFrom_true_of_head (l : Str) (h : l.head? ≠ some 10) : normFrom true l = normFrom false l := by
  cases l with
  | nil => rfl
  | cons c cs =>
    have : c ≠ 10 := by simpa using h
    rw [normFrom_cons, normFrom_cons]; simp [this]

theorem normFrom_true_lf (l : Str) : normFrom true (10 :: l) = normFrom false l := by
  rw [normFrom_cons]; simp

theorem normFrom_false_lf (l : Str) : normFrom false (10 :: l) = 10 :: normFrom false l := by
  rw [normFrom_cons]; simp

/-- a stream without CR is its own normal form -/
theorem normFrom_of_noCR (l : Str) (h : ∀ c ∈ l, c ≠ 13) : normFrom false l = l := by
  induction l with
  | nil => rfl
  | cons c cs ih =>
    have hc : c ≠ 13 := h c (by simp)
    rw [normFrom_cons, ih (fun d hd => h d (by simp [hd]))]
    simp [hc]

/-- normalising is idempotent -/
theorem normFrom_noCR (pc : Bool) (l : Str) : ∀ c ∈ normFrom pc l, c ≠ 13 := by
  induction l generalizing pc with
  | nil => simp [normFrom_nil]
  | cons c cs ih =>
    rw [normFrom_cons]
    by_cases hc : c = 13
    · simp only [hc, if_true]; intro d hd
      rcases List.mem_cons.mp hd with h | h
      · subst h; decide
      · exact ih _ d h
    · by_cases hl : c = 10 ∧ pc = true
      · simp only [hc, hl, if_false, if_true, and_self]; exact ih _
      · simp only [hc, hl, if_false]; intro d hd
        rcases List.mem_cons.mp hd with h | h
        · subst h; exact hc
        · exact ih _ d h

/-- **re-spelling**: writing each terminator of an LF-form document as LF, CR LF or CR (any admissible mixture) yields a
    stream whose normal form is the document.  (`afterBareCR` = the unit before the piece was a terminator spelled CR.) -/
theorem normFrom_respell (pb : Bool) (sty : List Nat) (d : Str) (hd : ∀ c ∈ d, c ≠ 13)
    (ha : admissible pb sty d = true) : normFrom pb (respell sty d) = d := by
  induction d generalizing pb sty with
  | nil => rfl
  | cons c cs ih =>
    have hcs : ∀ x ∈ cs, x ≠ 13 := fun x hx => hd x (by simp [hx])
    have hc : c ≠ 13 := hd c (by simp)
    unfold respell
    unfold admissible at ha
    by_cases h10 : c = 10
    · subst h10
      simp only [if_true] at ha ⊢
      by_cases s1 : sty.head? = some 1
      · rw [if_pos s1] at ha ⊢
        rw [List.cons_append, List.cons_append, List.nil_append, normFrom_cons]
        simp only [if_true]
        rw [normFrom_true_lf, ih false sty.tail hcs ha]
      · by_cases s2 : sty.head? = some 2
        · rw [if_neg s1, if_pos s2] at ha ⊢
          rw [List.cons_append, List.nil_append, normFrom_cons]
          simp only [if_true]
          rw [ih true sty.tail hcs ha]
        · rw [if_neg s1, if_neg s2] at ha ⊢
          have hb : pb = false := by
            cases pb <;> simp_all
          subst hb
          rw [List.cons_append, List.nil_append, normFrom_false_lf]
          rw [ih false sty.tail hcs (by simpa using ha)]
    · simp only [h10, if_false] at ha ⊢
      rw [normFrom_cons]
      simp only [hc, h10, if_false, false_and]
      rw [ih false sty hcs ha]

end CifModel.Spec.Eol
