import CifModel.Lemmas.ParserTop
import CifModel.Lemmas.LexerTotal
import CifModel.Lemmas.LexerStream
import CifModel.Lemmas.ParserStructure
/-
  Lemmas/ParserQuiet — which of the `fail` sites of Model/Parser.lean (a production left with a result code that NO callback
  produced) can be reached before anything has been reported.

  The analysis runs under the abort-on-error policy `dieAll` (the answer to a report is its code): there a run that has
  reported something has ended, so a run that is still going has an empty log, and every production is followed along its
  report-free path only.  `QD pre m post`: started with an empty log in a state satisfying `pre`, the action `m` either ends
  normally with the log still empty and `post`, or is left with a non-empty log, or is left through `fail` with NOFUEL.
  The other `fail` sites (CIF_INTERNAL_ERROR ×4, CIF_INVALID_ITEMNAME ×2, CIF_DUP_ITEMNAME) are shown dead on that path
  (CIF_INVALID_INDEX is a reported code since 8375485).  Lemmas/ParserTop (`parse_spec`) transfers the result to every policy (Props/C03.lean).
-/
set_option linter.unusedSimpArgs false
set_option linter.unusedVariables false

namespace CifModel.Model.Parser
open CifModel CifModel.Model CifModel.Model.Lexer CifModel.Gen.ErrCodes

def QD {α} (pre : W → Prop) (m : P α) (post : α → W → Prop) : Prop :=
  ∀ w, pre w → w.log = [] →
    match m dieAll w with
    | .ok a w' => w'.log = [] ∧ post a w'
    | .abort c w' => w'.log ≠ [] ∨ c = NOFUEL

theorem QD.pure {α} {pre : W → Prop} {post : α → W → Prop} (a : α) (h : ∀ w, pre w → post a w) : QD pre (P.pure a) post := by
  intro w hp hl
  simp only [P.pure]
  exact ⟨hl, h w hp⟩

theorem QD.fail_ok {α} {pre : W → Prop} {post : α → W → Prop} (c : Int) (hc : c = NOFUEL) : QD pre (fail c : P α) post := by
  intro w hp hl
  simp only [Parser.fail]
  exact Or.inr hc

/-- an action that is only run in states that cannot occur -/
theorem QD.dead {α} {pre : W → Prop} {post : α → W → Prop} (m : P α) (h : ∀ w, ¬ pre w) : QD pre m post :=
  fun w hp _ => absurd hp (h w)

theorem QD.report {pre : W → Prop} {post : Unit → W → Prop} (code : Code) (line col : Nat) (hc : code ≠ 0) :
    QD pre (Parser.report code line col) post := by
  intro w hp hl
  have h : dieAll w.log.length ⟨code, line, col⟩ ≠ 0 := by simpa [dieAll] using hc
  rw [report_nonzero code line col dieAll w h]
  simp

theorem QD.getCif {pre : W → Prop} {post : Cif → W → Prop} (h : ∀ w, pre w → post w.cif w) : QD pre Parser.getCif post := by
  intro w hp hl
  simp only [Parser.getCif]
  exact ⟨hl, h w hp⟩

theorem QD.setCif {pre : W → Prop} {post : Unit → W → Prop} (c : Cif) (h : ∀ w, pre w → post () { w with cif := c }) :
    QD pre (Parser.setCif c) post := by
  intro w hp hl
  simp only [Parser.setCif]
  exact ⟨hl, h w hp⟩

theorem QD.bind {α β} {pre : W → Prop} {mid : α → W → Prop} {post : β → W → Prop} {m : P α} {f : α → P β}
    (hm : QD pre m mid) (hf : ∀ a, QD (mid a) (f a) post) : QD pre (P.bind m f) post := by
  intro w hp hl
  have h1 := hm w hp hl
  cases hA : m dieAll w with
  | abort c w1 =>
    rw [hA] at h1
    rw [P.bind_abort hA]
    exact h1
  | ok a w1 =>
    rw [hA] at h1
    rw [P.bind_ok hA]
    exact hf a w1 h1.2 h1.1

theorem QD.conseq {α} {pre pre' : W → Prop} {post post' : α → W → Prop} {m : P α} (h : QD pre m post)
    (hpre : ∀ w, pre' w → pre w) (hpost : ∀ a w, post a w → post' a w) : QD pre' m post' := by
  intro w hp hl
  have h1 := h w (hpre w hp) hl
  cases hA : m dieAll w with
  | abort c w1 => rw [hA] at h1; exact h1
  | ok a w1 => rw [hA] at h1; exact ⟨h1.1, hpost a w1 h1.2⟩

theorem QD.ite {α} {pre : W → Prop} {post : α → W → Prop} {c : Prop} [Decidable c] {a b : P α}
    (ha : c → QD pre a post) (hb : ¬ c → QD pre b post) : QD pre (if c then a else b) post := by
  split
  · exact ha ‹_›
  · exact hb ‹_›

/-- a pure fact may be assumed when it follows from the precondition -/
theorem QD.assume {α} {pre : W → Prop} {post : α → W → Prop} {m : P α} (p : Prop) (hp : ∀ w, pre w → p)
    (h : p → QD pre m post) : QD pre m post :=
  fun w hw hl => h (hp w hw) w hw hl

/-! ### the scanner -/

theorem firstNZ_die {n : Nat} : ∀ {d : List Report}, (∀ r ∈ d, r.code ≠ 0) → firstNZ dieAll n d = none → d = []
  | [], _, _ => rfl
  | r :: rest, hc, h => by
    simp only [firstNZ] at h
    cases hz : firstNZ dieAll n rest with
    | some x => rw [hz] at h; cases h
    | none =>
      rw [hz] at h
      simp only [dieAll] at h
      have := hc r (by simp)
      simp [this] at h

/-- a scanner action under `dieAll`, started with an empty log: it ends normally without a report exactly as under
    accept-all, or it is stopped with a non-empty log -/
theorem dieL {α} {m : L α} (hd : DetL m) (hn : NoAbort m) :
    (∃ a, m dieAll [] = .ok a [] ∧ m acceptAll [] = .ok a []) ∨ (∃ c l, m dieAll [] = .abort c l ∧ l ≠ []) := by
  obtain ⟨d, e, hc, hr⟩ := hd.run dieAll []
  obtain ⟨a, l, ha⟩ := hn.run []
  cases hz : firstNZ dieAll ([] : List Report).length d with
  | none =>
    rw [hz] at hr
    simp only [] at hr
    have hd0 := firstNZ_die hc hz
    subst hd0
    rw [ha] at e
    simp only [logOfL, List.append_nil] at e
    subst e
    exact Or.inl ⟨a, by rw [hr, ha], ha⟩
  | some x =>
    rw [hz] at hr
    simp only [] at hr
    exact Or.inr ⟨_, _, hr, by simp⟩

/-- the pending token, if any, is not of the ERROR type -/
def PSok (s : PS) : Prop := ∀ t, s.tok = some t → t.ty ≠ .error

theorem PSok_consume (s : PS) : PSok (consume s) := by
  intro t h; simp [consume] at h

theorem nextTok_qd (o : Opts) (s : PS) (hs : PSok s) (Q : Cif → Prop) :
    QD (fun w => Q w.cif) (nextTok o s) (fun a w => Q w.cif ∧ a.2.tok = some a.1 ∧ a.1.ty ≠ .error ∧
      (∀ t, s.tok = some t → a = (t, s))) := by
  intro w hp hl
  unfold nextTok
  cases htk : s.tok with
  | some t =>
    simp only [pure_eq, P.pure]
    exact ⟨hl, hp, htk, hs t htk, fun t' h => by cases h; rfl⟩
  | none =>
    simp only [bind_eq, pure_eq, P.bind, P.pure, liftL, hl]
    rcases dieL (nextToken_detl o.dia s.scan) (nextToken_noabort o.dia s.scan) with ⟨a, h1, h2⟩ | ⟨c, l, h1, h2⟩
    · rw [h1]
      simp only []
      refine ⟨trivial, hp, trivial, ?_, fun t h => by cases h⟩
      obtain ⟨t, sc⟩ := a
      obtain ⟨p, hl', hs'⟩ := nextToken_ok_inv h2
      subst hs'
      have := tokLoop_progress o.dia acceptAll _ _ _ _ _ _ _ (by simp) hl'
      rcases this with ⟨h, _⟩ | ⟨_, h, _⟩
      · simp [h]
      · exact h
    · rw [h1]
      simp only []
      exact Or.inl h2

theorem QD.pull {α} {R : W → Prop} {p : Prop} {post : α → W → Prop} {m : P α} (h : p → QD R m post) :
    QD (fun w => R w ∧ p) m post :=
  fun w hw hl => h hw.2 w hw.1 hl

/-- a report ends the run: whatever follows is not looked at -/
theorem QD.reportThen {β} {pre : W → Prop} {post : β → W → Prop} (code : Code) (line col : Nat) (hc : code ≠ 0) (f : Unit → P β) :
    QD pre (P.bind (Parser.report code line col) f) post :=
  QD.bind (mid := fun _ _ => False) (QD.report code line col hc) (fun _ => QD.dead _ (fun _ h => h))

syntax "qd_report" : tactic
macro_rules
  | `(tactic| qd_report) => `(tactic| first
      | exact QD.reportThen _ _ _ (by decide) _
      | exact QD.report _ _ _ (by decide))

/-! ### the store primitives -/

theorem setValue_qd (o : Opts) (path : Path) (name : Str) (v : V) (hvalid : isValidName true name = true) (pre : W → Prop) :
    QD pre (setValue o path name v) (fun _ _ => True) := by
  intro w _ hl
  simp [setValue, hvalid, P.bind, Parser.getCif, Parser.setCif, P.pure, hl]

/-- what `itemExists` answers in the store `c0` -/
def existsIn (o : Opts) (c0 : Cif) (path : Path) (name : Str) : Bool :=
  isValidName true name &&
    match getIn o.norm path c0 with
    | none => false
    | some c => hasItem o.norm c (o.norm name)

theorem itemExists_qd (o : Opts) (path : Path) (name : Str) (c0 : Cif) :
    QD (fun w => w.cif = c0) (itemExists o path name) (fun e w => w.cif = c0 ∧ e = existsIn o c0 path name) := by
  intro w hw hl
  unfold itemExists existsIn
  cases hv : isValidName true name
  · simp [P.pure, hl, hw]
  · simp only [Bool.not_true, Bool.false_eq_true, if_false, bind_eq, pure_eq, P.bind, Parser.getCif, hw, Bool.true_and]
    cases getIn o.norm path c0 <;> simp [P.pure, hl, hw]

theorem itemExists_qd0 (o : Opts) (path : Path) (name : Str) (pre : W → Prop) :
    QD pre (itemExists o path name) (fun _ _ => True) := by
  intro w _ hl
  have := itemExists_qd o path name w.cif w rfl hl
  cases hA : itemExists o path name dieAll w with
  | ok a w1 => rw [hA] at this; exact ⟨this.1, trivial⟩
  | abort c w1 => rw [hA] at this; exact this

theorem addPacket_qd (o : Opts) (loopAt : Option Path) (p : List V) (pre : W → Prop) :
    QD pre (addPacket o loopAt p) (fun _ _ => True) := by
  intro w _ hl
  cases loopAt <;> simp [addPacket, P.bind, Parser.getCif, Parser.setCif, P.pure, hl]

/-! ### values -/

section Productions
attribute [local irreducible] P.bind P.pure Parser.report Parser.fail nextTok

theorem values_qd (o : Opts) (Q : Cif → Prop) : ∀ fuel : Nat,
    (∀ s, PSok s → (∃ t, s.tok = some t ∧ isValueStart t.ty = true) →
      QD (fun w => Q w.cif) (parseValue o fuel s) (fun a w => Q w.cif ∧ PSok a.2)) ∧
    (∀ s acc, PSok s → QD (fun w => Q w.cif) (listLoop o fuel s acc) (fun a w => Q w.cif ∧ PSok a.2)) ∧
    (∀ s acc, PSok s → QD (fun w => Q w.cif) (tableLoop o fuel s acc) (fun a w => Q w.cif ∧ PSok a.2)) ∧
    (∀ s acc key, PSok s → QD (fun w => Q w.cif) (tableEntry o fuel s acc key) (fun a w => Q w.cif ∧ PSok a.2)) := by
  intro fuel
  induction fuel with
  | zero =>
    refine ⟨?_, ?_, ?_, ?_⟩ <;> intros
    · rw [parseValue]; exact QD.fail_ok _ rfl
    · rw [listLoop]; exact QD.fail_ok _ rfl
    · rw [tableLoop]; exact QD.fail_ok _ rfl
    · rename_i key _; cases key <;> (rw [tableEntry]; exact QD.fail_ok _ rfl)
  | succ fuel ih =>
    obtain ⟨hv, hl, ht, he⟩ := ih
    refine ⟨?_, ?_, ?_, ?_⟩
    · intro s hs ⟨t0, ht0, hvs⟩
      rw [parseValue]
      simp only [bind_eq, pure_eq]
      apply QD.bind (nextTok_qd o s hs Q)
      rintro ⟨t, s1⟩
      apply QD.pull
      rintro ⟨h1, h2, h3⟩
      have h4 := h3 t0 ht0
      simp only [Prod.mk.injEq] at h4
      obtain ⟨rfl, rfl⟩ := h4
      simp only []
      split
      · apply QD.bind (hl _ _ (PSok_consume _))
        rintro ⟨vs, s2⟩
        exact QD.pure _ (fun w h => h)
      · apply QD.bind (ht _ _ (PSok_consume _))
        rintro ⟨vs, s2⟩
        exact QD.pure _ (fun w h => h)
      · exact QD.pure _ (fun w h => ⟨h, PSok_consume _⟩)
      · exact QD.pure _ (fun w h => ⟨h, PSok_consume _⟩)
      · split
        · exact QD.pure _ (fun w h => ⟨h, PSok_consume _⟩)
        · qd_report
      · exfalso
        rename_i n1 n2 n3 n4 n5
        revert hvs n1 n2 n3 n4 n5
        cases t.ty <;> simp [isValueStart]
    · intro s acc hs
      rw [listLoop]
      simp only [bind_eq, pure_eq]
      apply QD.bind (nextTok_qd o s hs Q)
      rintro ⟨t, s1⟩
      apply QD.pull
      rintro ⟨h1, h2, h3⟩
      simp only []
      split
      · qd_report
      · split
        · have hs1 : PSok s1 := fun t' h => by rw [h1] at h; cases h; exact h2
          apply QD.bind (hv s1 hs1 ⟨t, h1, ‹_›⟩)
          rintro ⟨v, s2⟩
          apply QD.pull
          intro hs2
          exact hl _ _ hs2
        · split
          · exact QD.pure _ (fun w h => ⟨h, PSok_consume _⟩)
          · qd_report
    · intro s acc hs
      rw [tableLoop]
      simp only [bind_eq, pure_eq]
      apply QD.bind (nextTok_qd o s hs Q)
      rintro ⟨t, s1⟩
      apply QD.pull
      rintro ⟨h1, h2, h3⟩
      simp only []
      split
      all_goals try qd_report
      · split
        · qd_report
        · split <;> qd_report
      · exact he _ _ _ (PSok_consume _)
      · exact QD.pure _ (fun w h => ⟨h, PSok_consume _⟩)
    · intro s acc key hs
      cases key with
      | none =>
        rw [tableEntry]
        simp only [bind_eq, pure_eq]
        apply QD.bind (mid := fun _ w => Q w.cif) (QD.pure _ (fun w h => h))
        intro key
        apply QD.bind (nextTok_qd o s hs Q)
        rintro ⟨t, s1⟩
        apply QD.pull
        rintro ⟨h1, h2, h3⟩
        simp only []
        split
        · have hs1 : PSok s1 := fun t' h => by rw [h1] at h; cases h; exact h2
          apply QD.bind (hv s1 hs1 ⟨t, h1, ‹_›⟩)
          rintro ⟨v, s2⟩
          apply QD.pull
          intro hs2
          exact ht _ _ hs2
        · qd_report
      | some k =>
        rw [tableEntry]
        simp only [bind_eq, pure_eq]
        split
        · qd_report
        · apply QD.bind (mid := fun _ w => Q w.cif) (QD.pure _ (fun w h => h))
          intro key
          apply QD.bind (nextTok_qd o s hs Q)
          rintro ⟨t, s1⟩
          apply QD.pull
          rintro ⟨h1, h2, h3⟩
          simp only []
          split
          · have hs1 : PSok s1 := fun t' h => by rw [h1] at h; cases h; exact h2
            apply QD.bind (hv s1 hs1 ⟨t, h1, ‹_›⟩)
            rintro ⟨v, s2⟩
            apply QD.pull
            intro hs2
            exact ht _ _ hs2
          · qd_report

/-! ### items -/

theorem parseItem_qd (o : Opts) (fuel : Nat) (s : PS) (cont : Option Path) (name : Option Str) (hs : PSok s)
    (hname : ∀ n path, name = some n → cont = some path → isValidName true n = true) :
    QD (fun _ => True) (parseItem o fuel s cont name) (fun s' _ => PSok s') := by
  unfold parseItem
  simp only [bind_eq, pure_eq]
  apply QD.bind (nextTok_qd o s hs (fun _ => True))
  rintro ⟨t, s1⟩
  apply QD.pull
  rintro ⟨h1, h2, h3⟩
  simp only []
  split
  · qd_report
  · split
    · have hs1 : PSok s1 := fun t' h => by rw [h1] at h; cases h; exact h2
      apply QD.bind ((values_qd o (fun _ => True) fuel).1 s1 hs1 ⟨t, h1, ‹_›⟩)
      rintro ⟨v, s2⟩
      apply QD.pull
      intro hs2
      simp only []
      split
      · rename_i n path
        exact QD.bind (mid := fun _ _ => True) (setValue_qd o path n v (hname n path rfl rfl) _) (fun _ => QD.pure _ (fun _ _ => hs2))
      · exact QD.pure _ (fun _ _ => hs2)
    · qd_report

/-! ### loops -/

theorem hasDup_append_single (l : List Str) (x : Str) : hasDup (l ++ [x]) = false ↔ hasDup l = false ∧ x ∉ l := by
  induction l with
  | nil => simp [hasDup]
  | cons a r ih =>
    simp only [List.cons_append, hasDup, Bool.or_eq_false_iff, ih, List.mem_cons, not_or]
    simp only [List.contains_eq_mem, List.mem_append, List.mem_singleton, decide_eq_false_iff_not, not_or]
    constructor
    · rintro ⟨⟨h1, h2⟩, h3, h4⟩
      exact ⟨⟨h1, h3⟩, fun h => h2 h.symm, h4⟩
    · rintro ⟨⟨h1, h3⟩, h2, h4⟩
      exact ⟨⟨h1, fun h => h2 h.symm⟩, h3, h4⟩

/-- what the report-free part of a loop header has established about the names kept so far: each is a valid data name that the
    container does not define, and no two of them have the same normalised form -/
def SlotsOk (o : Opts) (c0 : Cif) (cont : Option Path) (slots : List (Option Str)) : Prop :=
  (∀ n, some n ∈ slots → isValidName true n = true ∧ ∀ path, cont = some path → existsIn o c0 path n = false) ∧
  hasDup ((slots.filterMap id).map o.norm) = false

theorem SlotsOk.nil (o : Opts) (c0 : Cif) (cont : Option Path) : SlotsOk o c0 cont [] :=
  ⟨fun n h => by simp at h, rfl⟩

theorem SlotsOk.snoc {o : Opts} {c0 : Cif} {cont : Option Path} {slots : List (Option Str)} {name : Str}
    (h : SlotsOk o c0 cont slots) (hf : findHeaderName o slots name = none)
    (he : ∀ path, cont = some path → existsIn o c0 path name = false) : SlotsOk o c0 cont (slots ++ [some name]) := by
  unfold findHeaderName at hf
  split at hf
  · cases hf
  · rename_i hvalid
    split at hf
    · cases hf
    · rename_i hany
      simp only [Bool.not_eq_true, Bool.not_eq_true', Bool.not_eq_false] at hvalid
      refine ⟨?_, ?_⟩
      · intro n hn
        rcases List.mem_append.mp hn with hn | hn
        · exact h.1 n hn
        · simp only [List.mem_singleton, Option.some.injEq] at hn
          subst hn
          exact ⟨hvalid, he⟩
      · rw [List.filterMap_append, List.map_append]
        simp only [List.filterMap_cons, id, List.filterMap_nil, List.map_cons, List.map_nil]
        rw [hasDup_append_single]
        refine ⟨h.2, ?_⟩
        intro hmem
        obtain ⟨n, hn, hnn⟩ := List.mem_map.mp hmem
        have hn' : some n ∈ slots := by
          have := List.mem_filterMap.mp hn
          obtain ⟨a, ha, haa⟩ := this
          simp only [id] at haa
          rw [haa] at ha; exact ha
        apply hany
        rw [List.any_eq_true]
        exact ⟨some n, hn', by simp [(h.1 n hn').1, hnn]⟩

theorem headerLoop_qd (o : Opts) (cont : Option Path) (c0 : Cif) : ∀ (fuel : Nat) (s : PS) (slots : List (Option Str)),
    PSok s → SlotsOk o c0 cont slots →
    QD (fun w => w.cif = c0) (headerLoop o cont fuel s slots) (fun a w => w.cif = c0 ∧ SlotsOk o c0 cont a.1 ∧ PSok a.2) := by
  intro fuel
  induction fuel with
  | zero => intro s slots _ _; rw [headerLoop]; exact QD.fail_ok _ rfl
  | succ fuel ih =>
    intro s slots hs hok
    rw [headerLoop]
    simp only [bind_eq, pure_eq]
    apply QD.bind (nextTok_qd o s hs (fun c => c = c0))
    rintro ⟨t, s1⟩
    apply QD.pull
    rintro ⟨h1, h2, h3⟩
    simp only []
    have hs1 : PSok s1 := fun t' h => by rw [h1] at h; cases h; exact h2
    split
    · cases cont with
      | none =>
        simp only []
        apply QD.bind (mid := fun e w => w.cif = c0 ∧ (e = false → ∀ p, (none : Option Path) = some p → existsIn o c0 p (cstr t.text) = false))
          (QD.pure _ (fun w h => ⟨h, fun _ p hp => by cases hp⟩))
        intro e
        apply QD.pull
        intro he
        split
        · qd_report
        · rename_i hne
          have he' := he (by simpa using hne)
          split
          · qd_report
          · qd_report
          · rename_i hf
            exact ih _ _ (PSok_consume _) (hok.snoc hf he')
      | some path =>
        simp only []
        apply QD.bind (mid := fun e w => w.cif = c0 ∧ (e = false → ∀ p, some path = some p → existsIn o c0 p (cstr t.text) = false))
          (QD.conseq (itemExists_qd o path (cstr t.text) c0) (fun w h => h)
            (fun e w h => ⟨h.1, fun hf p hp => by cases hp; rw [← h.2]; exact hf⟩))
        intro e
        apply QD.pull
        intro he
        split
        · qd_report
        · rename_i hne
          have he' := he (by simpa using hne)
          split
          · qd_report
          · qd_report
          · rename_i hf
            exact ih _ _ (PSok_consume _) (hok.snoc hf he')
    · exact QD.pure _ (fun w h => ⟨h, hok, hs1⟩)

theorem packetsLoop_qd (o : Opts) (loopAt : Option Path) (slots : List (Option Str)) : ∀ (fuel : Nat) (s : PS) (k : Pk),
    PSok s → QD (fun _ => True) (packetsLoop o loopAt slots fuel s k) (fun s' _ => PSok s') := by
  intro fuel
  induction fuel with
  | zero => intro s k _; rw [packetsLoop]; exact QD.fail_ok _ rfl
  | succ fuel ih =>
    intro s k hs
    rw [packetsLoop]
    simp only [bind_eq, pure_eq]
    apply QD.bind (nextTok_qd o s hs (fun _ => True))
    rintro ⟨t, s1⟩
    apply QD.pull
    rintro ⟨h1, h2, h3⟩
    simp only []
    have hs1 : PSok s1 := fun t' h => by rw [h1] at h; cases h; exact h2
    split
    · rename_i hkv
      split
      · qd_report
      · rename_i hk
        have hv : isValueStart t.ty = true := by simpa [hk] using hkv
        apply QD.bind (mid := fun a _ => True ∧ a = s1) (QD.pure _ (fun _ _ => ⟨trivial, rfl⟩))
        intro s2
        apply QD.pull
        intro he
        subst he
        apply QD.bind ((values_qd o (fun _ => True) fuel).1 s2 hs1 ⟨t, h1, hv⟩)
        rintro ⟨v, s3⟩
        apply QD.pull
        intro hs3
        simp only []
        split
        · exact QD.bind (mid := fun _ _ => True) (addPacket_qd o loopAt _ _) (fun _ => ih _ _ hs3)
        · exact ih _ _ hs3
    · split
      · qd_report
      · split
        · qd_report
        · split
          · qd_report
          · exact QD.pure _ (fun _ _ => hs1)

theorem parseLoop_qd' (o : Opts) (fuel : Nat) (s : PS) (cont : Option Path) (hs : PSok s) (c0 : Cif) :
    QD (fun w => w.cif = c0) (parseLoop o fuel s cont) (fun s' _ => PSok s') := by
  unfold parseLoop
  simp only [bind_eq, pure_eq]
  apply QD.bind (headerLoop_qd o cont c0 fuel s [] hs (SlotsOk.nil o c0 cont))
  rintro ⟨slots, s1⟩
  simp only []
  apply QD.pull
  rintro ⟨hok, hs1⟩
  have hA : ((List.filterMap id slots).any fun n => !isValidName true n) = false := by
    rw [List.any_eq_false]
    intro n hn
    obtain ⟨a, ha, haa⟩ := List.mem_filterMap.mp hn
    simp only [id] at haa
    rw [haa] at ha
    simp [(hok.1 n ha).1]
  have hD := hok.2
  simp only [hA, hD, Bool.false_eq_true, if_false]
  have hpk : ∀ (loopAt : Option Path) (pre : W → Prop),
      QD pre (packetsLoop o loopAt slots fuel s1 { idx := 0, some := false, cur := [] }) (fun s' _ => PSok s') :=
    fun loopAt pre => QD.conseq (packetsLoop_qd o loopAt slots fuel s1 _ hs1) (fun _ _ => trivial) (fun _ _ h => h)
  split
  · qd_report
  · split
    · exact QD.bind (mid := fun _ _ => True) (QD.pure _ (fun _ _ => trivial)) (fun _ => hpk _ _)
    · rename_i path
      split
      · exact QD.bind (mid := fun _ _ => True) (QD.pure _ (fun _ _ => trivial)) (fun _ => hpk _ _)
      · apply QD.bind (mid := fun cif w => w.cif = c0 ∧ cif = c0) (QD.getCif (fun w h => ⟨h, h⟩))
        intro cif
        apply QD.pull
        intro hc
        subst hc
        have hfin : QD (fun w => w.cif = cif) ((setCif (updIn o.norm (fun c => Container.mk c.code c.frames
              (c.loops ++ [{ category := none, names := List.filterMap id slots, packets := [] }])) path cif)).bind
              fun __r => (P.pure (some path)).bind fun loopAt =>
                packetsLoop o loopAt slots fuel s1 { idx := 0, some := false, cur := [] }) (fun s' _ => PSok s') :=
          QD.bind (mid := fun _ _ => True) (QD.setCif _ (fun _ _ => trivial))
            (fun _ => QD.bind (mid := fun _ _ => True) (QD.pure _ (fun _ _ => trivial)) (fun _ => hpk _ _))
        split
        · simp only [Bool.false_eq_true, if_false]
          exact hfin
        · rename_i c hg
          split
          · rename_i hcl
            exfalso
            simp only [Bool.or_false, List.any_eq_true] at hcl
            obtain ⟨n, hn, hh⟩ := hcl
            obtain ⟨a, ha, haa⟩ := List.mem_filterMap.mp hn
            simp only [id] at haa
            rw [haa] at ha
            have := (hok.1 n ha).2 path rfl
            simp [existsIn, (hok.1 n ha).1, hg, hh] at this
          · exact hfin

theorem parseLoop_qd (o : Opts) (fuel : Nat) (s : PS) (cont : Option Path) (hs : PSok s) :
    QD (fun _ => True) (parseLoop o fuel s cont) (fun s' _ => PSok s') :=
  fun w _ hl => parseLoop_qd' o fuel s cont hs w.cif w rfl hl

/-! ### containers -/

theorem createIn_qd (o : Opts) (isBlock : Bool) (parent : Path) (code : Str) (line col : Nat) :
    QD (fun _ => True) (createIn o isBlock parent code line col) (fun _ _ => True) := by
  unfold createIn
  simp only [bind_eq, pure_eq]
  apply QD.bind (mid := fun _ _ => True) (QD.getCif (fun _ _ => trivial))
  intro cif
  cases isBlock <;> simp only [Bool.false_eq_true, if_false, if_true] <;>
  · split
    · qd_report
    · split
      · qd_report
      · exact QD.bind (mid := fun _ _ => True) (QD.setCif _ (fun _ _ => trivial)) (fun _ => QD.pure _ (fun _ _ => trivial))

theorem containers_qd (o : Opts) : ∀ fuel : Nat,
    (∀ s cont isBlock, PSok s → QD (fun _ => True) (parseContainer o fuel s cont isBlock) (fun s' _ => PSok s')) ∧
    (∀ s cont isBlock, PSok s → QD (fun _ => True) (elemsLoop o fuel s cont isBlock) (fun s' _ => PSok s')) := by
  intro fuel
  induction fuel with
  | zero =>
    refine ⟨?_, ?_⟩ <;> intros
    · rw [parseContainer]; exact QD.fail_ok _ rfl
    · rw [elemsLoop]; exact QD.fail_ok _ rfl
  | succ fuel ih =>
    obtain ⟨hc, he⟩ := ih
    refine ⟨?_, ?_⟩
    · intro s cont isBlock hs
      rw [parseContainer]
      simp only [bind_eq, pure_eq]
      apply QD.bind (he s cont isBlock hs)
      intro s1
      apply QD.assume (PSok s1) (fun _ h => h)
      intro hs1
      split
      · exact QD.pure _ (fun _ h => h)
      · exact QD.bind (mid := fun _ _ => True) (QD.getCif (fun _ _ => trivial))
          (fun _ => QD.bind (mid := fun _ _ => True) (QD.setCif _ (fun _ _ => trivial)) (fun _ => QD.pure _ (fun _ _ => hs1)))
    · intro s cont isBlock hs
      rw [elemsLoop]
      simp only [bind_eq, pure_eq]
      apply QD.bind (nextTok_qd o s hs (fun _ => True))
      rintro ⟨t, s1⟩
      apply QD.pull
      rintro ⟨h1, h2, h3⟩
      simp only []
      have hs1 : PSok s1 := fun t' h => by rw [h1] at h; cases h; exact h2
      have hrec : ∀ (m : P PS) (pre : W → Prop), QD pre m (fun s' _ => PSok s') →
          QD pre (m.bind fun s => elemsLoop o fuel s cont isBlock) (fun s' _ => PSok s') := by
        intro m pre hm
        apply QD.bind hm
        intro s2
        apply QD.assume (PSok s2) (fun _ h => h)
        intro hs2
        exact QD.conseq (he s2 cont isBlock hs2) (fun _ _ => trivial) (fun _ _ h => h)
      split
      all_goals try qd_report
      · -- data_ header
        split
        · exact QD.pure _ (fun _ _ => hs1)
        · qd_report
      · -- save_ header
        split
        · exact hrec _ _ (hc _ _ _ (PSok_consume _))
        · split
          · qd_report
          · split
            · qd_report
            · split
              · qd_report
              · apply QD.bind (createIn_qd o false _ _ _ _)
                intro fpath
                exact hrec _ _ (hc _ _ _ (PSok_consume _))
      · -- save_
        split
        · qd_report
        · exact QD.pure _ (fun _ _ => PSok_consume _)
      · -- loop_
        exact hrec _ _ (parseLoop_qd o fuel _ cont (PSok_consume _))
      · -- data name
        split
        · apply QD.bind (mid := fun e _ => True ∧ e = false) (QD.pure _ (fun _ _ => ⟨trivial, rfl⟩))
          intro e
          apply QD.pull
          intro he'
          subst he'
          simp only [Bool.false_eq_true, if_false, Option.isSome_none, false_and]
          exact hrec _ _ (parseItem_qd o fuel _ _ _ (PSok_consume _) (fun n path _ h => by cases h))
        · rename_i path
          apply QD.bind (mid := fun _ _ => True) (itemExists_qd0 o path (cstr t.text) _)
          intro e
          split
          · qd_report
          · split
            · qd_report
            · rename_i hv
              refine hrec _ _ (parseItem_qd o fuel _ _ _ (PSok_consume _) (fun n path hn _ => ?_))
              cases hn
              simpa using hv
      · -- end of input
        split
        · exact QD.pure _ (fun _ _ => hs1)
        · qd_report
      · -- ERROR token
        rename_i hty
        exact absurd hty h2

theorem blocksLoop_qd (o : Opts) : ∀ (fuel : Nat) (s : PS), PSok s →
    QD (fun _ => True) (blocksLoop o fuel s) (fun _ _ => True) := by
  intro fuel
  induction fuel with
  | zero => intro s _; rw [blocksLoop]; exact QD.fail_ok _ rfl
  | succ fuel ih =>
    intro s hs
    rw [blocksLoop]
    simp only [bind_eq, pure_eq]
    apply QD.bind (nextTok_qd o s hs (fun _ => True))
    rintro ⟨t, s1⟩
    apply QD.pull
    rintro ⟨h1, h2, h3⟩
    simp only []
    split
    all_goals try qd_report
    · have hrec : ∀ cont, QD (fun _ => True)
          ((parseContainer o fuel (consume s1) cont true).bind fun s => blocksLoop o fuel s) (fun _ _ => True) := by
        intro cont
        apply QD.bind ((containers_qd o fuel).1 _ cont true (PSok_consume _))
        intro s2
        apply QD.assume (PSok s2) (fun _ h => h)
        intro hs2
        exact QD.conseq (ih s2 hs2) (fun _ _ => trivial) (fun _ _ h => h)
      split
      · apply QD.bind (createIn_qd o true _ _ _ _)
        intro p
        exact QD.bind (mid := fun _ _ => True) (QD.pure _ (fun _ _ => trivial)) (fun _ => hrec _)
      · exact QD.bind (mid := fun _ _ => True) (QD.pure _ (fun _ _ => trivial)) (fun _ => hrec _)
    · exact QD.pure _ (fun _ _ => trivial)

end Productions

/-! ### the whole parse -/

def FinD (m : P Unit) : Prop :=
  ∀ w, w.log = [] →
    match m dieAll w with
    | .ok _ _ => True
    | .abort c w' => w'.log ≠ [] ∨ c = NOFUEL

theorem FinD.ofQD {α} {m : P α} {post : α → W → Prop} (h : QD (fun _ => True) m post) : FinD (P.bind m fun _ => P.pure ()) := by
  intro w hl
  have h1 := h w trivial hl
  cases hA : m dieAll w with
  | ok a w1 => simp [P.bind, hA, P.pure]
  | abort c w1 => rw [hA] at h1; simpa [P.bind, hA] using h1

theorem FinD.clamp {m : P Unit} (h : FinD m) : FinD (Parser.clamp m) := by
  intro w hl
  have h1 := h w hl
  cases hA : m dieAll w with
  | ok a w1 => simp [Parser.clamp, hA]
  | abort c w1 =>
    rw [hA] at h1
    simp only [] at h1
    by_cases hc : c > 0
    · simp only [Parser.clamp, hA, hc, if_true]; exact h1
    · simp only [Parser.clamp, hA, hc, if_false]

theorem FinD.bind {α} {m : P α} {post : α → W → Prop} {f : α → P Unit} (hm : QD (fun _ => True) m post) (hf : ∀ a, FinD (f a)) :
    FinD (P.bind m f) := by
  intro w hl
  have h1 := hm w trivial hl
  cases hA : m dieAll w with
  | ok a w1 =>
    rw [hA] at h1
    rw [P.bind_ok hA]
    exact hf a w1 h1.1
  | abort c w1 =>
    rw [hA] at h1
    rw [P.bind_abort hA]
    exact h1

theorem parseCif_fin (o : Opts) (fuel : Nat) (s : PS) (hs : PSok s) : FinD (parseCif o fuel s) := by
  unfold parseCif
  simp only [bind_eq, pure_eq]
  exact FinD.clamp (FinD.ofQD (blocksLoop_qd o fuel s hs))

theorem afterFirst_fin (o : Opts) (fuel : Nat) (c : CU) (rest : Str) : FinD (afterFirst o fuel c rest) := by
  unfold afterFirst
  simp only [bind_eq, pure_eq]
  split
  · intro w hl; simp [P.pure]
  · split
    all_goals
      apply FinD.bind (post := fun _ _ => True)
      · split
        · exact QD.report _ _ _ (by decide)
        · exact QD.pure _ (fun _ _ => trivial)
      · intro _
        exact parseCif_fin o fuel _ (fun t h => by simp at h)

/-- the parse under `dieAll`: whenever it fails without having reported anything, the code is NOFUEL or CIF_INVALID_INDEX -/
theorem parseInternal_die (o : Opts) (fuel : Nat) (units : Str) : FinD (parseInternal o fuel units) := by
  intro w hl
  cases units with
  | nil => simp [parseInternal, P.pure]
  | cons c rest =>
    simp only [parseInternal]
    by_cases hdis : disallowedInitial c = true
    · simp only [hdis, if_true]
      have hA : ask CIF_DISALLOWED_INITIAL_CHAR 1 0 dieAll w =
          .ok (CIF_DISALLOWED_INITIAL_CHAR : Int) { w with log := ⟨CIF_DISALLOWED_INITIAL_CHAR, 1, 0⟩ :: w.log } := by
        simp [ask, dieAll]
      rw [P.bind_ok hA]
      have hne : ¬ (CIF_DISALLOWED_INITIAL_CHAR : Int) = -1 := by decide
      have hnz : (CIF_DISALLOWED_INITIAL_CHAR : Int) ≠ 0 := by decide
      simp only [hne, hnz, if_false, if_true, ne_eq, not_false_eq_true, Parser.fail]
      exact Or.inl (by simp)
    · have e : (P.bind (if disallowedInitial c then ask CIF_DISALLOWED_INITIAL_CHAR 1 0 else P.pure 0)
          (fun rv => if rv = -1 then P.pure () else if rv ≠ 0 then fail rv else afterFirst o fuel c rest)) =
          afterFirst o fuel c rest := by
        simp only [hdis, Bool.false_eq_true, if_false]
        change (if (0 : Int) = -1 then P.pure () else if (0 : Int) ≠ 0 then fail 0 else afterFirst o fuel c rest) = _
        simp
      rw [e]
      exact afterFirst_fin o fuel c rest w hl

end CifModel.Model.Parser
