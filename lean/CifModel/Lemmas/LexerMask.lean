import CifModel.Model.Chars
/-
  Lemmas/LexerMask — the surrogate and non-character tests of SCAN_UCHAR are written with bit masks in the C
  (`(c & 0xfc00) == 0xdc00`, `(c & 0xfffe) == 0xdffe`, `(prev & 0xfc3f) == 0xd83f`, `(c & 0xFFFE) == 0xFFFE`); the model
  uses the equivalent arithmetic forms (`c / 1024 == 55`, …).  The equivalence is checked here by kernel evaluation for
  every 16-bit code unit (four blocks of 16384; each block takes ≈ 20 s, once per build).
-/
namespace CifModel.Model.Chars

def maskOk (c : Nat) : Bool :=
  ((c &&& 0xfc00 == 0xdc00) == isTrail c) && ((c &&& 0xfc00 == 0xd800) == isLead c)
  && ((c &&& 0xfffe == 0xdffe) == (c / 2 == 0x6FFF)) && ((c &&& 0xfc3f == 0xd83f) == (c / 1024 == 54 && c % 64 == 63))
  && ((c &&& 0xFFFE == 0xFFFE) == (c / 2 == 0x7FFF))

theorem mask_block0 : (List.range 16384).all (fun i => maskOk i) = true := by decide +kernel
theorem mask_block1 : (List.range 16384).all (fun i => maskOk (i + 16384)) = true := by decide +kernel
theorem mask_block2 : (List.range 16384).all (fun i => maskOk (i + 32768)) = true := by decide +kernel
theorem mask_block3 : (List.range 16384).all (fun i => maskOk (i + 49152)) = true := by decide +kernel

/-- for every 16-bit unit the C's mask tests equal the model's arithmetic tests -/
theorem mask_link (c : Nat) (h : c < 65536) : maskOk c = true := by
  by_cases h0 : c < 16384
  · exact forall_lt_of_range_all mask_block0 c h0
  by_cases h1 : c < 32768
  · have := forall_lt_of_range_all mask_block1 (c - 16384) (by omega)
    rwa [show c - 16384 + 16384 = c from by omega] at this
  by_cases h2 : c < 49152
  · have := forall_lt_of_range_all mask_block2 (c - 32768) (by omega)
    rwa [show c - 32768 + 32768 = c from by omega] at this
  · have := forall_lt_of_range_all mask_block3 (c - 49152) (by omega)
    rwa [show c - 49152 + 49152 = c from by omega] at this

end CifModel.Model.Chars
