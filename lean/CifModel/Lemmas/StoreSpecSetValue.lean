import CifModel.Lemmas.StoreSpecRefine
import CifModel.Lemmas.StoreIterSpec
/-
  Lemmas/StoreSpecSetValue — cif_container_set_value commutes with the abstraction to the documented model (`absS`) and returns the
  documented model's code (`specSetValue`), for a `Good` store in autocommit mode and a valid container handle:
    * an item the container has: the value in every packet of its loop (SET_ALL_VALUES_SQL; `setAllValues_spec`);
    * an item the container does not have: cif_container_add_scalar = the scalar loop found (cif_container_get_category_loop) or
      created without items (cif_container_create_loop_internal), cif_loop_add_item_internal, and cif_loop_add_packet when the loop
      has no packet — each step by its own commutation lemma of Lemmas/StoreSpecRefine, composed here;
    * a failure anywhere: ROLLBACK, the CIF is what it was.
-/
namespace CifModel.Store
open Gen.ErrCodes

/-- a handle that names a loop the documented model shows, with its category, is valid -/
theorem validB_of_abs (d : Db) (hinv : Inv d) (l : LH) (y : ALoop) (hy : y ∈ (absS d).loops)
    (h1 : y.cid = l.cid) (h2 : y.num = l.loopNum) (h3 : y.category = l.category) : l.validB d = true := by
  have hy' : y ∈ d.loops.map (absALoop d) := hy
  obtain ⟨x, hx, rfl⟩ := List.mem_map.mp hy'
  have := validB_of_mem d hinv x hx l.cid h1
  have e : l = { cid := l.cid, loopNum := x.loopNum, category := x.category } := by
    cases l
    simp only [LH.mk.injEq, true_and]
    exact ⟨h2.symm, h3.symm⟩
  rw [e]; exact this

/-- SET_ALL_VALUES_SQL for an item of loop `x`: the documented model's loop with the value in every packet, nothing else changed -/
theorem setAllValues_spec (d : Db) (hinv : Inv d) (x : LoopRow) (hx : x ∈ d.loops) (key : Str) (v : V)
    (hk : (d.loopItems x.cid x.loopNum).any (fun i => i.name == key) = true) :
    absS (d.setAllValues x.cid key v).1 = (absS d).onLoop x.cid x.loopNum (fun y => y.setColumn key v) := by
  obtain ⟨i, hi, hik⟩ := List.any_eq_true.mp hk
  have hik' : i.name = key := by simpa using hik
  subst hik'
  obtain ⟨htar, hoth, hl, hit, hf, hb⟩ := setAllValues_refines d x i v hinv hx hi
  obtain ⟨_, _, hcon, hnx⟩ := setAllValues_tables d x.cid i.name v
  have hloops := absS_loops_map d (d.setAllValues x.cid i.name v).1 id
    (fun y => if y.cid == x.cid && y.num == x.loopNum then y.setColumn i.name v else y)
    (by rw [hl, List.map_id])
    (by
      intro y hy
      simp only [id]
      have hitems : (d.setAllValues x.cid i.name v).1.loopItems y.cid y.loopNum = d.loopItems y.cid y.loopNum := by
        unfold Db.loopItems; rw [hit]
      by_cases hm : (y.cid == x.cid && y.loopNum == x.loopNum) = true
      · have hm' : ((absALoop d y).cid == x.cid && (absALoop d y).num == x.loopNum) = true := hm
        simp only [hm', if_true]
        have hmk : y.cid = x.cid ∧ y.loopNum = x.loopNum := by simpa using hm
        have : y = x := loopKey_unique d.loops hinv.loopPK y hy x hx hmk.1 hmk.2
        subst this
        unfold absALoop ALoop.setColumn
        simp only [hitems, htar, absLoop_eq, List.map_map]
        congr 1
        apply List.map_congr_left
        intro r _
        simp only [Function.comp]
        rw [zip_map_map, List.map_map]
        rfl
      · have hm' : ((absALoop d y).cid == x.cid && (absALoop d y).num == x.loopNum) = false := by
          show (y.cid == x.cid && y.loopNum == x.loopNum) = false
          simpa using hm
        simp only [hm', Bool.false_eq_true, if_false]
        unfold absALoop
        rw [hitems, hoth y hy (fun ⟨e1, e2⟩ => hm (by simp [e1, e2]))])
  show ({ containers := _, blocks := _, frames := _, nextId := _, loops := (absS (d.setAllValues x.cid i.name v).1).loops } : AState) = _
  rw [hloops, hcon, hnx, hf, hb]
  rfl

-- ---- cif_container_add_scalar -----------------------------------------------------------------------------------------------------------

/-- the first half of cif_container_add_scalar: the container's scalar loop, created when there is none yet -/
def scalarLoopOfS (s : Store) (h : CH) : R LH :=
  match getCategoryLoop s h (some []) with
  | (s', .error c) => if c == CIF_NOSUCH_LOOP then createLoopInternal s' h (some []) [] else (s', .error c)
  | r => r

/-- the part of cif_container_add_scalar after the scalar loop `l` has been found or created -/
def addScalarTailS (s1 : Store) (l : LH) (key orig : Str) (v : V) : R Unit :=
  match addItemInternal s1 l key orig v with
  | (s2, .error c) => (s2, .error c)
  | (s2, .ok numPackets) => if numPackets == 0 then addPacket s2 l [(key, v)] else (s2, .ok ())

theorem addScalar_unfoldS (s : Store) (h : CH) (key orig : Str) (v : V) :
    addScalar s h key orig v =
      (match scalarLoopOfS s h with
       | (s1, rl) => match rl with
         | .error c => (s1, .error c)
         | .ok l => addScalarTailS s1 l key orig v) := rfl

theorem specGetCategoryLoop_ok (a : AState) (h : CH) (cat : Option Str) (l : LH) (he : specGetCategoryLoop a h cat = .ok l) :
    ∃ y ∈ a.loops, y.cid = l.cid ∧ y.num = l.loopNum ∧ y.category = l.category := by
  unfold specGetCategoryLoop at he
  cases cat with
  | none => cases he
  | some c =>
    simp only [] at he
    cases hf : a.loops.filter (fun y => y.cid == h.id && y.category == some c) with
    | nil => rw [hf] at he; cases he
    | cons y ys =>
      rw [hf] at he
      cases ys with
      | cons z zs => cases he
      | nil =>
        simp only [Except.ok.injEq] at he
        have hm : y ∈ a.loops.filter (fun y => y.cid == h.id && y.category == some c) := by rw [hf]; exact List.mem_cons_self
        obtain ⟨hy, hk⟩ := List.mem_filter.mp hm
        simp only [Bool.and_eq_true, beq_iff_eq] at hk
        subst he
        exact ⟨y, hy, hk.1, rfl, hk.2⟩

theorem specCreateLoopI_ok (a a' : AState) (h : CH) (cat : Option Str) (names : List Name) (l : LH)
    (he : specCreateLoopI a h cat names = (a', .ok l)) :
    ∃ y ∈ a'.loops, y.cid = l.cid ∧ y.num = l.loopNum ∧ y.category = l.category := by
  unfold specCreateLoopI at he
  split at he
  · cases he
  · split at he
    · cases he
    · split at he
      · cases he
      · simp only [Prod.mk.injEq, Except.ok.injEq] at he
        obtain ⟨h1, h2⟩ := he
        subst h1; subst h2
        exact ⟨_, List.mem_append_right _ List.mem_cons_self, rfl, rfl, rfl⟩

theorem scalarLoopOf_spec (s : Store) (hd : CH) (hg : GoodS s) (hv : hd.validB s.db = true) :
    absS (scalarLoopOfS s hd).1.db = (specScalarLoopOf (absS s.db) hd).1 ∧
    (scalarLoopOfS s hd).2 = (specScalarLoopOf (absS s.db) hd).2 ∧ GoodS (scalarLoopOfS s hd).1 ∧
    (∀ l, (scalarLoopOfS s hd).2 = .ok l → l.validB (scalarLoopOfS s hd).1.db = true) := by
  have h1 := getCategoryLoop_fst s hd (some [])
  have h2 := getCategoryLoop_spec s hd (some [])
  unfold scalarLoopOfS specScalarLoopOf
  cases hr : getCategoryLoop s hd (some []) with
  | mk s' r =>
    rw [hr] at h1 h2
    simp only [] at h1 h2
    subst h1
    rw [← h2]
    cases r with
    | ok l =>
      simp only []
      refine ⟨by first | rfl | trivial, by first | rfl | trivial, hg, ?_⟩
      intro l' hl'
      cases hl'
      obtain ⟨y, hy, k1, k2, k3⟩ := specGetCategoryLoop_ok _ _ _ _ h2.symm
      exact validB_of_abs _ hg.db.inv _ y hy k1 k2 k3
    | error c =>
      simp only []
      cases hc : (c == CIF_NOSUCH_LOOP) with
      | false => simp only [Bool.false_eq_true, if_false]; exact ⟨by first | rfl | trivial, by first | rfl | trivial, hg, fun l hl => by cases hl⟩
      | true =>
        simp only [if_true]
        obtain ⟨c1, c2⟩ := createLoopInternal_spec s' hd (some []) [] hg.db hv
        have hg' := createLoopInternal_goodS hg hd (some []) []
        refine ⟨c1, c2, hg', ?_⟩
        intro l hl
        rw [hl] at c2
        obtain ⟨y, hy, k1, k2, k3⟩ := specCreateLoopI_ok _ _ _ _ _ _ (Prod.ext rfl c2.symm : specCreateLoopI (absS s'.db) hd (some []) [] = (_, .ok l))
        have hy' : y ∈ (absS (createLoopInternal s' hd (some []) []).1.db).loops := by rw [c1]; exact hy
        exact validB_of_abs _ hg'.db.inv _ y hy' k1 k2 k3

theorem addScalarTail_spec (s : Store) (l : LH) (nm : Name) (v : V) (hg : GoodS s) (hv : l.validB s.db = true) (hval : nm.valid = true) :
    absS (addScalarTailS s l nm.key nm.orig v).1.db = (specAddScalarTail (absS s.db) l nm v).1 ∧
    (addScalarTailS s l nm.key nm.orig v).2 = (specAddScalarTail (absS s.db) l nm v).2 := by
  have hinv := hg.db.inv
  obtain ⟨x, hx, k1, k2, k3⟩ := LH.valid_of_validB hv
  have hfind : (absS s.db).findLoop l.cid l.loopNum = some (absALoop s.db x) := by rw [← k1, ← k2]; exact findLoop_valid s.db hinv x hx
  have ha := addItem_spec s l (some nm) (some v) hg.db hv
  have hadd : addItem s l (some nm) (some v) = (match addItemInternal s l nm.key nm.orig v with
      | (s1, .ok _) => (s1, .ok ())
      | (s1, .error c) => (s1, .error c)) := by
    unfold addItem; simp [hval]; rfl
  have hres : (addItemInternal s l nm.key nm.orig v).2 = (addItemBody l nm.key nm.orig v s.db).map Prod.snd := nest_snd s _
  have hg2 := addItemInternal_goodS hg l nm.key nm.orig v
  unfold specAddScalarTail addScalarTailS
  rw [hfind]
  simp only []
  cases hr : addItemInternal s l nm.key nm.orig v with
  | mk s2 r =>
    rw [hr] at hadd hres hg2
    simp only [] at hres hg2
    cases hs : specAddItem (absS s.db) l (some nm) (some v) with
    | mk a' r' =>
      rw [hs, hadd] at ha
      cases r with
      | error c =>
        simp only [] at ha ⊢
        obtain ⟨a1, a2⟩ := ha
        subst a2
        exact ⟨a1, rfl⟩
      | ok k =>
        simp only [] at ha ⊢
        obtain ⟨a1, a2⟩ := ha
        subst a2
        simp only []
        -- the number of packets add_item reports
        have hbody : ∃ d', addItemBody l nm.key nm.orig v s.db = .ok (d', k) := by
          cases hb : addItemBody l nm.key nm.orig v s.db with
          | error c => rw [hb] at hres; cases hres
          | ok p => rw [hb] at hres; simp only [Except.map, Except.ok.injEq] at hres; exact ⟨p.1, by rw [hres]⟩
        obtain ⟨d', hb⟩ := hbody
        have hcount := addItemBody_count s.db d' l nm.key nm.orig v k x hinv ⟨k1, k2⟩ hb
        have hpk : (absALoop s.db x).packets.isEmpty = (k == 0) := by
          show (absLoop s.db x).packets.isEmpty = _
          rw [hcount]
          cases (absLoop s.db x).packets <;> rfl
        rw [hpk]
        cases hk0 : (k == 0) with
        | false => simp only [Bool.false_eq_true, if_false]; exact ⟨a1, by first | rfl | trivial⟩
        | true =>
          simp only [if_true]
          -- the handle is still valid after add_item
          have hv2 : l.validB s2.db = true := by
            have hsa : a' = (absS s.db).onLoop l.cid l.loopNum
                (fun y => { y with items := y.items ++ [(nm.key, nm.orig)], packets := y.packets.map (· ++ [(some v).getD .unk]) }) := by
              unfold specAddItem at hs
              simp only [hval, Bool.not_true, Bool.false_eq_true, if_false] at hs
              split at hs
              · cases hs
              · simp only [Prod.mk.injEq] at hs; exact hs.1.symm
            have hym : absALoop s.db x ∈ (absS s.db).loops := List.mem_map.mpr ⟨x, hx, rfl⟩
            have hkey : ((absALoop s.db x).cid == l.cid && (absALoop s.db x).num == l.loopNum) = true := by
              show (x.cid == l.cid && x.loopNum == l.loopNum) = true
              simp [k1, k2]
            refine validB_of_abs s2.db hg2.db.inv l _ (by
              rw [a1, hsa]
              exact List.mem_map.mpr ⟨absALoop s.db x, hym, rfl⟩) ?_ ?_ ?_
            · simp only [hkey, if_true]; exact k1
            · simp only [hkey, if_true]; exact k2
            · simp only [hkey, if_true]; exact k3
          obtain ⟨p1, p2⟩ := addPacket_spec s2 l [(nm.key, v)] hg2.db hv2 (by simp [keysDistinct])
          rw [a1] at p1 p2
          exact ⟨p1, p2⟩

/-- cif_container_add_scalar commutes with `absS` and returns the documented model's code -/
theorem addScalar_spec (s : Store) (hd : CH) (nm : Name) (v : V) (hg : GoodS s) (hv : hd.validB s.db = true) (hval : nm.valid = true) :
    absS (addScalar s hd nm.key nm.orig v).1.db = (specAddScalar (absS s.db) hd nm v).1 ∧
    (addScalar s hd nm.key nm.orig v).2 = (specAddScalar (absS s.db) hd nm v).2 := by
  obtain ⟨q1, q2, q3, q4⟩ := scalarLoopOf_spec s hd hg hv
  rw [addScalar_unfoldS]
  unfold specAddScalar
  cases hq : scalarLoopOfS s hd with
  | mk s1 rl =>
    rw [hq] at q1 q2 q3 q4
    simp only [] at q1 q2 q3 q4
    cases hsq : specScalarLoopOf (absS s.db) hd with
    | mk a1 rl' =>
      rw [hsq] at q1 q2
      simp only [] at q1 q2
      subst q2
      cases rl with
      | error c => exact ⟨q1, rfl⟩
      | ok l =>
        simp only []
        rw [← q1]
        exact addScalarTail_spec s1 l nm v q3 (q4 l rfl) hval

-- ---- cif_container_set_value ------------------------------------------------------------------------------------------------------------

theorem commit_getD_db (s : Store) : (s.commit.getD s).db = s.db := by unfold Store.commit; split <;> rfl

theorem rollback_getD_db (s : Store) (d : Db) (ht : s.txn = some d) : (s.rollback.getD s).db = d := by
  unfold Store.rollback Store.outermost
  have : s.autocommit = false := by simp [Store.autocommit, ht]
  simp [this, ht]

theorem specGetItemLoop_ok (a : AState) (h : CH) (n : Name) (l : LH) (he : specGetItemLoop a h (some n) = .ok l) :
    ∃ y ∈ a.loops, y.cid = h.id ∧ y.hasItem n.key = true ∧ l.cid = h.id ∧ l.loopNum = y.num := by
  unfold specGetItemLoop at he
  simp only [] at he
  split at he
  · cases he
  · cases hf : a.loops.filter (fun y => y.cid == h.id && y.hasItem n.key) with
    | nil => rw [hf] at he; cases he
    | cons y ys =>
      rw [hf] at he
      cases ys with
      | cons z zs => cases he
      | nil =>
        simp only [Except.ok.injEq] at he
        have hm : y ∈ a.loops.filter (fun y => y.cid == h.id && y.hasItem n.key) := by rw [hf]; exact List.mem_cons_self
        obtain ⟨hy, hk⟩ := List.mem_filter.mp hm
        simp only [Bool.and_eq_true, beq_iff_eq] at hk
        subst he
        exact ⟨y, hy, hk.1, hk.2, rfl, rfl⟩

/-- cif_container_set_value on an existing container, outside any transaction, commutes with `absS` and returns the documented
    model's code -/
theorem setValue_spec (s : Store) (hd : CH) (n : Option Name) (v : Option V) (hg : GoodS s) (hac : s.autocommit = true)
    (hv : hd.validB s.db = true) :
    absS (setValue s hd n v).1.db = (specSetValue (absS s.db) hd n v).1 ∧ (setValue s hd n v).2 = (specSetValue (absS s.db) hd n v).2 := by
  have hinv := hg.db.inv
  unfold setValue specSetValue
  cases n with
  | none => exact ⟨rfl, rfl⟩
  | some nm =>
    simp only []
    cases hval : nm.valid with
    | false => simp
    | true =>
      have hb : s.begin = some { s with txn := some s.db } := by unfold Store.begin; simp [hac]
      have hg1 : GoodS ({ s with txn := some s.db } : Store) := hg.begin hb
      simp only [Bool.not_true, Bool.false_eq_true, if_false, hb]
      have hil : getItemLoopInternal s.db hd.id nm.key = specGetItemLoop (absS s.db) hd (some nm) := by
        have := getItemLoop_spec s hd (some nm)
        unfold getItemLoop at this
        simpa [hval] using this
      unfold setValueInner
      have hdb1 : ({ s with txn := some s.db } : Store).db = s.db := rfl
      rw [hdb1, hil]
      cases hgl : specGetItemLoop (absS s.db) hd (some nm) with
      | ok l =>
        simp only []
        refine ⟨?_, by first | rfl | trivial⟩
        rw [commit_getD_db]
        obtain ⟨y, hy, y1, y2, l1, l2⟩ := specGetItemLoop_ok _ _ _ _ hgl
        have hy' : y ∈ s.db.loops.map (absALoop s.db) := hy
        obtain ⟨x, hx, rfl⟩ := List.mem_map.mp hy'
        have hxc : x.cid = hd.id := y1
        rw [hasItem_absALoop] at y2
        have := setAllValues_spec s.db hinv x hx nm.key (v.getD .unk) y2
        rw [hxc] at this
        show absS (s.db.setAllValues hd.id nm.key (v.getD .unk)).1 = _
        rw [this, l1, l2]
        rfl
      | error c =>
        simp only []
        cases hc : (c == CIF_NOSUCH_ITEM) with
        | false =>
          simp only [Bool.false_eq_true, if_false]
          exact ⟨by rw [rollback_getD_db _ s.db rfl], by first | rfl | trivial⟩
        | true =>
          simp only [if_true]
          obtain ⟨q1, q2⟩ := addScalar_spec { s with txn := some s.db } hd nm (v.getD .unk) hg1 hv hval
          have htx := addScalar_txn { s with txn := some s.db } hd nm.key nm.orig (v.getD .unk) s.db rfl
          cases hr : addScalar { s with txn := some s.db } hd nm.key nm.orig (v.getD .unk) with
          | mk s2 r =>
            rw [hr] at q1 q2 htx
            simp only [] at q1 q2 htx
            cases hsq : specAddScalar (absS s.db) hd nm (v.getD .unk) with
            | mk a2 r' =>
              have hdb2 : absS ({ s with txn := some s.db } : Store).db = absS s.db := rfl
              rw [hdb2, hsq] at q1 q2
              simp only [] at q1 q2
              subst q2
              cases r with
              | ok u => simp only []; exact ⟨by rw [commit_getD_db]; exact q1, by first | rfl | trivial⟩
              | error c' => simp only []; exact ⟨by rw [rollback_getD_db _ s.db htx], by first | rfl | trivial⟩

end CifModel.Store
