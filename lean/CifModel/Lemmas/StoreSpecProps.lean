import CifModel.Lemmas.StoreSpecIter
/-
  Lemmas/StoreSpecProps — what `specSetValue` (Spec/StoreSpec: cif_container_set_value on the documented model, written as the
  composition "find or create the scalar loop; add the item; give the loop its packet") amounts to, case by case, in closed form:
    * `specSetValue_existing`  — an item the container has: its loop, the value in every packet (`ALoop.setColumn`), nothing else;
    * `specSetValue_creates`   — a new item, no scalar loop yet: ONE new loop, last, category "", the item, ONE packet holding the value;
    * `specSetValue_joins`     — a new item, scalar loop present: that loop gains the item; its packet gains the value, or — when it
                                  has no packet — it gets exactly one packet: the unknown value for the older items, the value for
                                  the new one;
    * `specSetValue_invalid`   — invalid / NULL name: CIF_INVALID_ITEMNAME, nothing changed.
  Pure statements about the documented model; `C04_refines` carries them to the store model and (correspondence) to the library.
-/
namespace CifModel.Store
open Gen.ErrCodes

theorem specSetValue_invalid (a : AState) (h : CH) (v : Option V) :
    specSetValue a h none v = (a, .error CIF_INVALID_ITEMNAME) ∧
    ∀ n : Name, n.valid = false → specSetValue a h (some n) v = (a, .error CIF_INVALID_ITEMNAME) := by
  refine ⟨rfl, fun n hn => ?_⟩
  unfold specSetValue
  simp [hn]

theorem specSetValue_existing (a : AState) (h : CH) (n : Name) (v : Option V) (l : LH) (hv : n.valid = true)
    (hl : specGetItemLoop a h (some n) = .ok l) :
    specSetValue a h (some n) v = (a.onLoop l.cid l.loopNum (fun y => y.setColumn n.key (v.getD .unk)), .ok ()) := by
  unfold specSetValue
  simp only [hv, Bool.not_true, Bool.false_eq_true, if_false, hl]

/-- what `setColumn` does to one packet of full length: the item's cell is the value, every other cell is what it was -/
theorem setColumn_packet (items : List (Str × Str)) (k : Str) (v : V) : ∀ (p : List V), p.length = items.length →
    ((items.zip p).map (fun e => if e.1.1 == k then v else e.2)).length = p.length ∧
    ∀ (j : Nat) (it : Str × Str) (c : V), items[j]? = some it → p[j]? = some c →
      ((items.zip p).map (fun e => if e.1.1 == k then v else e.2))[j]? = some (if it.1 == k then v else c) := by
  intro p hp
  refine ⟨by simp [List.length_zip, hp], ?_⟩
  intro j it c hi hc
  have hz : (items.zip p)[j]? = some (it, c) := List.getElem?_zip_eq_some.mpr ⟨hi, hc⟩
  rw [List.getElem?_map, hz]
  rfl

theorem onLoop_onLoop (a : AState) (c n : Nat) (f g : ALoop → ALoop) (hf : ∀ y, (f y).cid = y.cid ∧ (f y).num = y.num) :
    (a.onLoop c n f).onLoop c n g = a.onLoop c n (fun y => g (f y)) := by
  unfold AState.onLoop
  simp only [List.map_map]
  congr 1
  apply List.map_congr_left
  intro y _
  simp only [Function.comp]
  by_cases hk : (y.cid == c && y.num == n) = true
  · simp only [hk, if_true, (hf y).1, (hf y).2]
  · have hk' : (y.cid == c && y.num == n) = false := by simpa using hk
    simp [hk']

/-- on a list in which only the last loop has the key, `onLoop` changes the last loop only -/
theorem map_onLoop_append (ls : List ALoop) (L : ALoop) (f : ALoop → ALoop)
    (hno : ∀ y ∈ ls, (y.cid == L.cid && y.num == L.num) = false) :
    (ls ++ [L]).map (fun y => if (y.cid == L.cid && y.num == L.num) = true then f y else y) = ls ++ [f L] := by
  rw [List.map_append]
  congr 1
  · conv => rhs; rw [← List.map_id ls]
    apply List.map_congr_left
    intro y hy
    simp [hno y hy]
  · simp

theorem find?_none_all {α} (p : α → Bool) : ∀ l : List α, l.find? p = none → ∀ y ∈ l, p y = false := by
  intro l h y hy
  have := List.find?_eq_none.mp h y hy
  simpa using this

/-- cif_container_set_value of a NEW item in a container WITHOUT scalar loop: exactly one new loop — last, category "", the item under
    the spelling given, exactly one packet holding the value; the container's loop counter moves on; nothing else changes -/
theorem specSetValue_creates (a : AState) (h : CH) (n : Name) (v : Option V) (c : ContainerRow) (hv : n.valid = true)
    (hc : a.containers.find? (fun r => r.id == h.id) = some c)
    (hitem : a.loops.filter (fun y => y.cid == h.id && y.hasItem n.key) = [])
    (hscal : a.loops.filter (fun y => y.cid == h.id && y.category == some []) = [])
    (hfresh : a.findLoop h.id c.nextLoopNum = none) :
    specSetValue a h (some n) v =
      ({ a with containers := a.containers.map (fun r => if r.id == h.id then { r with nextLoopNum := r.nextLoopNum + 1 } else r),
                loops := a.loops ++ [{ cid := h.id, num := c.nextLoopNum, category := some [],
                                       items := [(n.key, n.orig)], packets := [[v.getD .unk]] }] }, .ok ()) := by
  have hgi : specGetItemLoop a h (some n) = .error CIF_NOSUCH_ITEM := by
    unfold specGetItemLoop; simp only [hv, Bool.not_true, Bool.false_eq_true, if_false, hitem]
  have hany : a.loops.any (fun y => y.cid == h.id && y.category == some []) = false := by
    rw [List.any_eq_false]
    intro y hy hk
    have : y ∈ a.loops.filter (fun y => y.cid == h.id && y.category == some []) := List.mem_filter.mpr ⟨hy, hk⟩
    rw [hscal] at this; cases this
  have hhas : a.hasItem h.id n.key = false := by
    unfold AState.hasItem
    rw [List.any_eq_false]
    intro y hy hk
    have : y ∈ a.loops.filter (fun y => y.cid == h.id && y.hasItem n.key) := List.mem_filter.mpr ⟨hy, hk⟩
    rw [hitem] at this; cases this
  have hfresh' : a.loops.find? (fun x => x.cid == h.id && x.num == c.nextLoopNum) = none := hfresh
  have hhas' : a.loops.any (fun y => y.cid == h.id && y.hasItem n.key) = false := hhas
  have hno : ∀ y ∈ a.loops, (y.cid == h.id && y.num == c.nextLoopNum) = false := find?_none_all _ _ hfresh
  have hmap : ∀ F : ALoop → ALoop, a.loops.map (fun y => if (y.cid == h.id && y.num == c.nextLoopNum) = true then F y else y) = a.loops := by
    intro F
    conv => rhs; rw [← List.map_id a.loops]
    apply List.map_congr_left
    intro y hy
    simp [hno y hy]
  have e1 : (CIF_NOSUCH_LOOP == CIF_NOSUCH_LOOP) = true := by decide
  have e2 : (CIF_NOSUCH_ITEM == CIF_NOSUCH_ITEM) = true := by decide
  have hhas2 : a.loops.any (fun y => y.cid == h.id && y.items.any (fun it => it.fst == n.key)) = false := hhas
  have hmapP : ∀ F : ALoop → ALoop, a.loops.map (fun y => if y.cid = h.id ∧ y.num = c.nextLoopNum then F y else y) = a.loops := by
    intro F
    conv => rhs; rw [← List.map_id a.loops]
    apply List.map_congr_left
    intro y hy
    have := hno y hy
    simp only [Bool.and_eq_false_iff, beq_eq_false_iff_ne] at this
    have hn : ¬ (y.cid = h.id ∧ y.num = c.nextLoopNum) := by
      intro hk
      rcases this with h1 | h1
      · exact h1 hk.1
      · exact h1 hk.2
    simp [hn]
  simp [specSetValue, specAddScalar, specScalarLoopOf, specGetCategoryLoop, specCreateLoopI, specAddScalarTail, specAddItem,
    specAddPacket, AState.findLoop, AState.onLoop, AState.hasItem, AState.namesFresh, ALoop.hasItem, ALoop.packetOf,
    hv, hgi, hscal, hany, hc, hfresh', e1, e2, List.find?_append, List.map_append]
  simp [hhas2, hmapP, hfresh', List.any_append, List.find?_append]

theorem onLoop_congr (a : AState) (c n : Nat) (f g : ALoop → ALoop)
    (h : ∀ z ∈ a.loops, (z.cid == c && z.num == n) = true → f z = g z) : a.onLoop c n f = a.onLoop c n g := by
  unfold AState.onLoop
  congr 1
  apply List.map_congr_left
  intro z hz
  by_cases hk : (z.cid == c && z.num == n) = true
  · simp only [hk, if_true]; exact h z hz hk
  · have hk' : (z.cid == c && z.num == n) = false := by simpa using hk
    simp [hk']

/-- cif_container_set_value of a NEW item in a container that HAS its scalar loop `y` (loop keys unique): the loop gains the item, last,
    under the spelling given; its packet gains the value — or, when the loop has no packet, it gets exactly ONE packet: the unknown
    value for the older items, the given value for the new one; nothing else changes -/
theorem specSetValue_joins (a : AState) (h : CH) (n : Name) (v : Option V) (y : ALoop) (hv : n.valid = true)
    (hitem : a.loops.filter (fun z => z.cid == h.id && z.hasItem n.key) = [])
    (hscal : a.loops.filter (fun z => z.cid == h.id && z.category == some []) = [y])
    (huniq : ∀ z ∈ a.loops, (z.cid == y.cid && z.num == y.num) = true → z = y) :
    specSetValue a h (some n) v =
      (a.onLoop y.cid y.num (fun _ => { y with
          items := y.items ++ [(n.key, n.orig)]
          packets := (if y.packets.isEmpty then [y.items.map (fun _ => V.unk) ++ [v.getD .unk]] else y.packets.map (· ++ [v.getD .unk])) }),
       .ok ()) := by
  have hym : y ∈ a.loops.filter (fun z => z.cid == h.id && z.category == some []) := by rw [hscal]; exact List.mem_cons_self
  obtain ⟨hy, hyk⟩ := List.mem_filter.mp hym
  simp only [Bool.and_eq_true, beq_iff_eq] at hyk
  obtain ⟨hyc, hycat⟩ := hyk
  have hgi : specGetItemLoop a h (some n) = .error CIF_NOSUCH_ITEM := by
    unfold specGetItemLoop; simp only [hv, Bool.not_true, Bool.false_eq_true, if_false, hitem]
  have hhas : a.hasItem h.id n.key = false := by
    unfold AState.hasItem
    rw [List.any_eq_false]
    intro z hz hk
    have : z ∈ a.loops.filter (fun z => z.cid == h.id && z.hasItem n.key) := List.mem_filter.mpr ⟨hz, hk⟩
    rw [hitem] at this; cases this
  have hyno : y.hasItem n.key = false := by
    cases hq : y.hasItem n.key with
    | false => rfl
    | true =>
      have : y ∈ a.loops.filter (fun z => z.cid == h.id && z.hasItem n.key) := List.mem_filter.mpr ⟨hy, by simp [hyc, hq]⟩
      rw [hitem] at this; cases this
  have hfind : a.findLoop h.id y.num = some y := by
    unfold AState.findLoop
    cases hf : a.loops.find? (fun x => x.cid == h.id && x.num == y.num) with
    | none =>
      have := List.find?_eq_none.mp hf y hy
      simp [hyc] at this
    | some z =>
      have hz := List.mem_of_find?_eq_some hf
      have hk := List.find?_some hf
      rw [huniq z hz (by rw [hyc]; exact hk)]
  have hsl : specScalarLoopOf a h = (a, .ok { cid := h.id, loopNum := y.num, category := some [] }) := by
    unfold specScalarLoopOf specGetCategoryLoop
    simp only [hscal]
  have e2 : (CIF_NOSUCH_ITEM == CIF_NOSUCH_ITEM) = true := by decide
  unfold specSetValue
  simp only [hv, Bool.not_true, Bool.false_eq_true, if_false, hgi, e2, if_true]
  unfold specAddScalar
  rw [hsl]
  simp only []
  unfold specAddScalarTail
  simp only [hfind]
  unfold specAddItem
  simp only [hv, Bool.not_true, Bool.false_eq_true, if_false, hhas, Option.getD_some]
  rw [← hyc] at hfind ⊢
  cases hp : y.packets.isEmpty with
  | false =>
    simp only [Bool.false_eq_true, if_false]
    congr 1
    apply onLoop_congr
    intro z hz hk
    rw [huniq z hz hk]
  | true =>
    simp only [if_true]
    unfold specAddPacket
    simp only [List.isEmpty_cons, Bool.false_eq_true, if_false]
    rw [findLoop_onLoop a y.cid y.num (fun z => { z with items := z.items ++ [(n.key, n.orig)], packets := z.packets.map (· ++ [v.getD .unk]) }) (fun z => ⟨rfl, rfl⟩), hfind]
    have hpk : y.packets = [] := by cases hq : y.packets with | nil => rfl | cons q qs => rw [hq] at hp; cases hp
    have hhi : (y.items ++ [(n.key, n.orig)]).any (fun it => it.1 == n.key) = true := by simp
    simp only [Option.map_some, hpk, List.map_nil, List.isEmpty_nil, Bool.not_true, Bool.and_false, Bool.false_eq_true, if_false,
      ALoop.hasItem, List.any_cons, List.any_nil, hhi, Bool.or_false]
    rw [onLoop_onLoop a y.cid y.num (fun z => { z with items := z.items ++ [(n.key, n.orig)], packets := z.packets.map (· ++ [v.getD .unk]) }) _ (fun z => ⟨rfl, rfl⟩)]
    congr 1
    apply onLoop_congr
    intro z hz hk
    rw [huniq z hz hk]
    simp only [hpk, List.map_nil, List.nil_append, ALoop.packetOf, List.map_append, List.map_cons, List.isEmpty_nil, if_true]
    congr 1
    congr 1
    congr 1
    · apply List.map_congr_left
      intro it hit
      have hne : (n.key == it.1) = false := by
        cases hq : (n.key == it.1) with
        | false => rfl
        | true =>
          have hq' : n.key = it.1 := by simpa using hq
          have : y.hasItem n.key = true := by
            unfold ALoop.hasItem
            exact List.any_eq_true.mpr ⟨it, hit, by simp [hq']⟩
          rw [hyno] at this; cases this
      simp [hne]
    · simp

-- ---- the hypotheses of the closed forms hold for the abstraction of every store satisfying `Inv` ------------------------------------------

/-- in the abstraction of a store satisfying `Inv`, a loop is determined by (container, number) -/
theorem absS_keys_unique (d : Db) (hinv : Inv d) (y : ALoop) (hy : y ∈ (absS d).loops) :
    ∀ z ∈ (absS d).loops, (z.cid == y.cid && z.num == y.num) = true → z = y := by
  intro z hz hk
  have hy' : y ∈ d.loops.map (absALoop d) := hy
  have hz' : z ∈ d.loops.map (absALoop d) := hz
  obtain ⟨x, hx, rfl⟩ := List.mem_map.mp hy'
  obtain ⟨x', hx', rfl⟩ := List.mem_map.mp hz'
  have hk' : x'.cid = x.cid ∧ x'.loopNum = x.loopNum := by
    have : (x'.cid == x.cid && x'.loopNum == x.loopNum) = true := hk
    simpa using this
  rw [loopKey_unique d.loops hinv.loopPK x' hx' x hx hk'.1 hk'.2]

/-- … and the loop number a container hands out next is not in use -/
theorem absS_fresh (d : Db) (hinv : Inv d) (cid : Nat) (c : ContainerRow)
    (hc : (absS d).containers.find? (fun r => r.id == cid) = some c) : (absS d).findLoop cid c.nextLoopNum = none := by
  have hc' : d.containers.find? (fun r => r.id == cid) = some c := hc
  have hcm := List.mem_of_find?_eq_some hc'
  have hck := List.find?_some hc'
  have hcid : c.id = cid := by simpa using hck
  rw [findLoop_absS]
  cases hf : d.loops.find? (fun x => x.cid == cid && x.loopNum == c.nextLoopNum) with
  | none => rfl
  | some x =>
    exfalso
    have hxm := List.mem_of_find?_eq_some hf
    have hxk := List.find?_some hf
    simp only [Bool.and_eq_true, beq_iff_eq] at hxk
    have := hinv.ext.loopNumsBelow c hcm x hxm (by rw [hxk.1, hcid])
    omega


end CifModel.Store
