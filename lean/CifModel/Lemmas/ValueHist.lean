import CifModel.Lemmas.Value
/-
  Pure-level histories (group gM, property C19): list operation sequences, and exactness of an update through a path.
-/
namespace CifModel.Model.Value
open CifModel Spec.ValueSpec

/-! ### list operation histories -/

inductive ListOp where
  | ins (i : Nat) (x : Option V)      -- cif_value_insert_element_at (NULL = unknown value)
  | set (i : Nat) (x : Option V)      -- cif_value_set_element_at
  | rem (i : Nat)                     -- cif_value_remove_element_at
  | get (i : Nat)                     -- cif_value_get_element_at

/-- what the caller sees of one operation: the result code and the element handed out (remove, get) -/
abbrev LRes := Code × Option V

/-- one operation of the MODEL of value.c on a value object; an operation that fails leaves the object as it is -/
def listStepM (v : V) : ListOp → V × LRes
  | .ins i x => match listInsert v i x with | .ok v' => (v', (OK, none)) | .error c => (v, (c, none))
  | .set i x => match listSet v i x with | .ok v' => (v', (OK, none)) | .error c => (v, (c, none))
  | .rem i => match listRemove v i with | .ok (v', r) => (v', (OK, some r)) | .error c => (v, (c, none))
  | .get i => match listGet v i with | .ok r => (v, (OK, some r)) | .error c => (v, (c, none))

def runListM : V → List ListOp → V × List LRes
  | v, [] => (v, [])
  | v, op :: ops => let r := listStepM v op; let rest := runListM r.1 ops; (rest.1, r.2 :: rest.2)

/-- the same operation on a SEQUENCE (Spec/ValueSpec: the documented contract) -/
def listStepS (vs : List V) : ListOp → List V × LRes
  | .ins i x => match seqInsert vs i (x.getD .unk) with | .ok l => (l, (OK, none)) | .invalidIndex => (vs, (INVALID_INDEX, none))
  | .set i x => match seqSet vs i (x.getD .unk) with | .ok l => (l, (OK, none)) | .invalidIndex => (vs, (INVALID_INDEX, none))
  | .rem i => match seqRemove vs i with | .ok (l, r) => (l, (OK, some r)) | .invalidIndex => (vs, (INVALID_INDEX, none))
  | .get i => match seqGet vs i with | .ok r => (vs, (OK, some r)) | .invalidIndex => (vs, (INVALID_INDEX, none))

def runListS : List V → List ListOp → List V × List LRes
  | vs, [] => (vs, [])
  | vs, op :: ops => let r := listStepS vs op; let rest := runListS r.1 ops; (rest.1, r.2 :: rest.2)

/-! ### an update through a path changes exactly that member -/

/-- two paths that part ways at some step (neither is a prefix of the other) -/
def diverge : List Step → List Step → Prop
  | a :: as, b :: bs => a ≠ b ∨ (a = b ∧ diverge as bs)
  | _, _ => False

theorem child_setChild_ne (v : V) (s t : Step) (x r : V) (h : setChild v s x = some r) (hne : t ≠ s) : child r t = child v t := by
  cases v with
  | lst vs =>
    cases s with
    | idx i =>
      simp only [setChild] at h
      split at h
      · rename_i hi
        simp only [Option.some.injEq] at h; subst h
        cases t with
        | idx j =>
          have hij : i ≠ j := fun e => hne (by rw [e])
          simp only [child, getAt_eq, setAt_eq]
          exact List.getElem?_set_ne hij
        | key k => rfl
      · cases h
    | key k => simp [setChild] at h
  | tbl es =>
    cases s with
    | idx i => simp [setChild] at h
    | key nk =>
      simp only [setChild] at h
      cases hm : mapFind es nk with
      | none => rw [hm] at h; cases h
      | some e =>
        rw [hm] at h
        simp only [Option.some.injEq] at h; subst h
        cases t with
        | idx j => rfl
        | key k =>
          have hk : k ≠ nk := fun e' => hne (by rw [e'])
          simp only [child]
          rw [mapFind_replace es nk e.2.1 x k (by rw [hm]; rfl), if_neg hk]
  | unk => cases s <;> simp [setChild] at h
  | na => cases s <;> simp [setChild] at h
  | chr q t' => cases s <;> simp [setChild] at h
  | numb q t' neg d su sc => cases s <;> simp [setChild] at h

theorem update_resolve_other : ∀ (p q : List Step) (root x root' : V), update root p x = some root' → diverge p q →
    resolve root' q = resolve root q := by
  intro p
  induction p with
  | nil => intro q root x root' _ hd; cases q <;> exact absurd hd (by simp [diverge])
  | cons s p ih =>
    intro q root x root' hu hd
    cases q with
    | nil => exact absurd hd (by simp [diverge])
    | cons t q =>
      simp only [update] at hu
      cases hc : child root s with
      | none => rw [hc] at hu; cases hu
      | some c =>
        rw [hc] at hu
        simp only [] at hu
        cases hu' : update c p x with
        | none => rw [hu'] at hu; cases hu
        | some c' =>
          rw [hu'] at hu
          simp only [] at hu
          simp only [diverge] at hd
          simp only [resolve]
          rcases hd with hne | ⟨he, hd'⟩
          · rw [child_setChild_ne root s t c' root' hu (fun e => hne e.symm)]
          · subst he
            rw [child_setChild root s c' root' hu, hc]
            exact ih q c x c' hu' hd'

end CifModel.Model.Value
