import CifModel.Model.Store
import CifModel.Model.PktItr
/-
  Lemmas/StoreValue (group gG, property C07) — read-after-write facts about the value table of group gF's store model:
  what each storing statement leaves in the cell (container, item, packet row), and that the reading statements
  (GET_VALUE_SQL, GET_LOOP_VALUES_SQL) deliver rows of the table.
-/
namespace CifModel.Store
open Gen.ErrCodes

/-- the value stored for item `k` of container `cid` in packet `row` (the primary key of item_value) -/
def Db.cell (d : Db) (cid : Nat) (k : Str) (row : Nat) : Option V :=
  (d.values.find? (fun w => w.cid == cid && w.name == k && w.rowNum == row)).map (·.val)

/-- the predicate selecting the primary key -/
abbrev isKey (cid : Nat) (k : Str) (row : Nat) : ValueRow → Bool := fun w => w.cid == cid && w.name == k && w.rowNum == row

theorem find_none_of_any_false {α} (p : α → Bool) (l : List α) (h : l.any p = false) : l.find? p = none := by
  induction l with
  | nil => rfl
  | cons a l ih =>
    simp only [List.any_cons, Bool.or_eq_false_iff] at h
    simp [List.find?_cons, h.1, ih h.2]

theorem find_filter_none {α} (p q : α → Bool) (l : List α) (h : ∀ a, p a = true → q a = false) :
    (l.filter q).find? p = none := by
  induction l with
  | nil => rfl
  | cons a l ih =>
    simp only [List.filter_cons]
    split
    · rename_i hq
      have : p a = false := by
        cases hp : p a with
        | false => rfl
        | true => rw [h a hp] at hq; cases hq
      simp [List.find?_cons, this, ih]
    · exact ih

theorem find_filter_same {α} (p q : α → Bool) (l : List α) (h : ∀ a, p a = true → q a = true) :
    (l.filter q).find? p = l.find? p := by
  induction l with
  | nil => rfl
  | cons a l ih =>
    simp only [List.filter_cons]
    cases hp : p a with
    | true => simp [h a hp, List.find?_cons, hp]
    | false =>
      split
      · simp [List.find?_cons, hp, ih]
      · simp [List.find?_cons, hp, ih]

/-! ### INSERT_VALUE_SQL / UPDATE_VALUE_SQL -/

theorem cell_insertValue (d d' : Db) (cid : Nat) (k : Str) (row : Nat) (v : V) (h : d.insertValue cid k row v = some d') :
    d'.cell cid k row = some v
    ∧ ∀ k' row', ¬(k' = k ∧ row' = row) → d'.cell cid k' row' = d.cell cid k' row' := by
  unfold Db.insertValue at h
  split at h
  · cases h
  · rename_i hno
    split at h
    · cases h
    · split at h
      · cases h
      · simp only [Option.some.injEq] at h
        subst h
        have hnone : d.values.find? (isKey cid k row) = none :=
          find_none_of_any_false _ _ (by simpa [Db.hasValue] using hno)
        constructor
        · simp only [Db.cell, List.find?_append]
          rw [hnone]
          simp [List.find?_cons]
        · intro k' row' hne
          simp only [Db.cell, List.find?_append]
          cases hf : d.values.find? (fun w => w.cid == cid && w.name == k' && w.rowNum == row') with
          | some w => simp
          | none =>
            have : ¬ (k = k' ∧ row = row') := fun e => hne ⟨e.1.symm, e.2.symm⟩
            simp only [Option.none_or, List.find?_cons, List.find?_nil]
            by_cases hk : k = k'
            · have hr : ¬ row = row' := fun e => this ⟨hk, e⟩
              have hb : (row == row') = false := beq_eq_false_iff_ne.mpr hr
              simp [hk, hb]
            · have hb : (k == k') = false := beq_eq_false_iff_ne.mpr hk
              simp [hb]

theorem cell_replaceValue (d d' : Db) (cid : Nat) (k : Str) (row : Nat) (v : V) (h : d.replaceValue cid k row v = some d') :
    d'.cell cid k row = some v
    ∧ ∀ k' row', ¬(k' = k ∧ row' = row) → d'.cell cid k' row' = d.cell cid k' row' := by
  unfold Db.replaceValue at h
  split at h
  · cases h
  · split at h
    · cases h
    · simp only [Option.some.injEq] at h
      subst h
      constructor
      · simp only [Db.cell, List.find?_append]
        rw [find_filter_none (isKey cid k row) _ d.values (by intro a ha; simp [ha])]
        simp [List.find?_cons]
      · intro k' row' hne
        simp only [Db.cell, List.find?_append]
        rw [find_filter_same (fun w => w.cid == cid && w.name == k' && w.rowNum == row') _ d.values (by
          intro a ha
          simp only [Bool.and_eq_true, beq_iff_eq] at ha
          obtain ⟨⟨h1, h2⟩, h3⟩ := ha
          by_cases hk : k' = k
          · have : ¬ row' = row := fun e => hne ⟨hk, e⟩
            simp [h1, h2, h3, hk, this]
          · simp [h1, h2, h3, hk])]
        cases hf : d.values.find? (fun w => w.cid == cid && w.name == k' && w.rowNum == row') with
        | some w => simp
        | none =>
          simp only [Option.none_or, List.find?_cons, List.find?_nil]
          by_cases hk : k = k'
          · have hr : ¬ row = row' := fun e => hne ⟨hk.symm, e.symm⟩
            have hb : (row == row') = false := beq_eq_false_iff_ne.mpr hr
            simp [hk, hb]
          · have hb : (k == k') = false := beq_eq_false_iff_ne.mpr hk
            simp [hb]

/-! ### cif_loop_add_packet / cif_pktitr_update_packet: every value of the packet lands in its cell -/

/-- packets are maps: their keys are pairwise distinct -/
def keysDistinct_sv : List (Str × V) → Prop
  | [] => True
  | (k, _) :: es => (∀ e ∈ es, e.1 ≠ k) ∧ keysDistinct_sv es

theorem addValues_cells : ∀ (pkt : List (Str × V)) (d d' : Db) (cid ln row : Nat),
    addValues d cid ln row pkt = .ok d' →
    (∀ e ∈ pkt, d'.cell cid e.1 row = some e.2)
    ∧ ∀ k' row', (∀ e ∈ pkt, ¬(k' = e.1 ∧ row' = row)) → d'.cell cid k' row' = d.cell cid k' row'
  | [], d, d', cid, ln, row, h => by
    simp only [addValues, Except.ok.injEq] at h; subst h
    exact ⟨(fun e he => by cases he), fun _ _ _ => rfl⟩
  | (k, v) :: es, d, d', cid, ln, row, h => by
    simp only [addValues] at h
    split at h
    · cases h
    · cases hi : d.insertValue cid k row v with
      | none => simp [hi] at h
      | some d1 =>
        simp only [hi] at h
        obtain ⟨hc1, ho1⟩ := cell_insertValue d d1 cid k row v hi
        obtain ⟨hcs, hos⟩ := addValues_cells es d1 d' cid ln row h
        constructor
        · intro e he
          rcases List.mem_cons.mp he with rfl | he'
          · -- the later inserts cannot touch this cell: a second value for the same key would violate the primary key
            by_cases hin : ∃ e' ∈ es, e'.1 = k
            · obtain ⟨e', he', hk⟩ := hin
              -- then that insert targets an occupied cell; the cell still reads the value inserted there
              have := hcs e' he'
              -- e'.1 = k: the cell (k,row) holds e'.2 — but insertValue of an occupied key fails, so this case cannot
              -- produce `.ok`; we derive it from addValues succeeding with the cell already occupied
              exact absurd h (addValues_occupied es d1 d' cid ln row k e' he' hk (by rw [hc1]; simp))
            · rw [hos k row (fun e' he' hx => hin ⟨e', he', hx.1.symm⟩)]
              exact hc1
          · exact hcs e he'
        · intro k' row' hne
          rw [hos k' row' (fun e he => hne e (List.mem_cons_of_mem _ he))]
          exact ho1 k' row' (fun hx => hne (k, v) (List.mem_cons_self) hx)
where
  /-- adding a packet entry whose cell is already occupied fails (primary key) -/
  addValues_occupied : ∀ (es : List (Str × V)) (d d' : Db) (cid ln row : Nat) (k : Str) (e' : Str × V), e' ∈ es → e'.1 = k →
      (d.cell cid k row).isSome = true → ¬ (addValues d cid ln row es = .ok d')
  | [], _, _, _, _, _, _, _, he, _, _ => by cases he
  | (k0, v0) :: es, d, d', cid, ln, row, k, e', he, hk, hocc => by
    intro h
    simp only [addValues] at h
    split at h
    · cases h
    · cases hi : d.insertValue cid k0 row v0 with
      | none => simp [hi] at h
      | some d1 =>
        simp only [hi] at h
        rcases List.mem_cons.mp he with rfl | he'
        · -- the head itself targets the occupied cell: insertValue would have failed
          simp only at hk
          subst hk
          unfold Db.insertValue at hi
          have hv : d.hasValue cid k0 row = true := by
            simp only [Db.cell, Option.isSome_map] at hocc
            obtain ⟨w, hw⟩ := Option.isSome_iff_exists.mp hocc
            have := List.find?_some hw
            have hm := List.mem_of_find?_eq_some hw
            simp only [Db.hasValue, List.any_eq_true]
            exact ⟨w, hm, this⟩
          simp [hv] at hi
        · obtain ⟨hc1, ho1⟩ := cell_insertValue d d1 cid k0 row v0 hi
          have hocc1 : (d1.cell cid k row).isSome = true := by
            by_cases hkk : k = k0
            · subst hkk; rw [hc1]; rfl
            · rw [ho1 k row (fun hx => hkk hx.1)]; exact hocc
          exact addValues_occupied es d1 d' cid ln row k e' he' hk hocc1 h

/-- cif_loop_add_packet only appends rows: one per packet entry, in the new packet's row -/
theorem addValues_values : ∀ (pkt : List (Str × V)) (d d' : Db) (cid ln row : Nat), addValues d cid ln row pkt = .ok d' →
    ∀ w ∈ d'.values, w ∈ d.values ∨ ∃ e ∈ pkt, w = { cid := cid, name := e.1, rowNum := row, val := e.2 }
  | [], d, d', cid, ln, row, h => by
    simp only [addValues, Except.ok.injEq] at h; subst h
    exact fun w hw => Or.inl hw
  | (k, v) :: es, d, d', cid, ln, row, h => by
    simp only [addValues] at h
    split at h
    · cases h
    · cases hi : d.insertValue cid k row v with
      | none => simp [hi] at h
      | some d1 =>
        simp only [hi] at h
        intro w hw
        rcases addValues_values es d1 d' cid ln row h w hw with h1 | ⟨e, he, hwe⟩
        · unfold Db.insertValue at hi
          split at hi
          · cases hi
          · split at hi
            · cases hi
            · split at hi
              · cases hi
              · simp only [Option.some.injEq] at hi
                subst hi
                rcases List.mem_append.mp h1 with h2 | h2
                · exact Or.inl h2
                · simp only [List.mem_singleton] at h2
                  exact Or.inr ⟨(k, v), List.mem_cons_self, h2⟩
        · exact Or.inr ⟨e, List.mem_cons_of_mem _ he, hwe⟩

theorem updateValues_cells : ∀ (pkt : List (Str × V)) (d d' : Db) (it : Iter), keysDistinct_sv pkt →
    updateValues d it pkt = .ok d' →
    (∀ e ∈ pkt, d'.cell it.cid e.1 it.prev.toNat = some e.2)
    ∧ ∀ k' row', (∀ e ∈ pkt, ¬(k' = e.1 ∧ row' = it.prev.toNat)) → d'.cell it.cid k' row' = d.cell it.cid k' row'
  | [], d, d', it, _, h => by
    simp only [updateValues, Except.ok.injEq] at h; subst h
    exact ⟨(fun e he => by cases he), fun _ _ _ => rfl⟩
  | (k, v) :: es, d, d', it, hd, h => by
    simp only [updateValues] at h
    split at h
    · cases hr : d.replaceValue it.cid k it.prev.toNat v with
      | none => simp [hr] at h
      | some d1 =>
        simp only [hr] at h
        obtain ⟨hc1, ho1⟩ := cell_replaceValue d d1 it.cid k it.prev.toNat v hr
        obtain ⟨hcs, hos⟩ := updateValues_cells es d1 d' it hd.2 h
        constructor
        · intro e he
          rcases List.mem_cons.mp he with rfl | he'
          · rw [hos k it.prev.toNat (fun e' he' hx => hd.1 e' he' hx.1.symm)]; exact hc1
          · exact hcs e he'
        · intro k' row' hne
          rw [hos k' row' (fun e he => hne e (List.mem_cons_of_mem _ he))]
          exact ho1 k' row' (fun hx => hne (k, v) (List.mem_cons_self) hx)
    · cases h

/-! ### SET_ALL_VALUES_SQL (cif_container_set_value on an existing item, cif_loop_add_item) -/

theorem mem_insertNat_self_sv (x : Nat) : ∀ l : List Nat, x ∈ Db.insertNat x l
  | [] => by simp [Db.insertNat]
  | y :: ys => by
    unfold Db.insertNat
    split
    · simp
    · split
      · rename_i h; simp only [beq_iff_eq] at h; simp [h]
      · exact List.mem_cons_of_mem _ (mem_insertNat_self_sv x ys)

theorem mem_insertNat_of_mem_sv (x y : Nat) : ∀ l : List Nat, y ∈ l → y ∈ Db.insertNat x l
  | [], h => by cases h
  | z :: zs, h => by
    unfold Db.insertNat
    split
    · exact List.mem_cons_of_mem _ h
    · split
      · exact h
      · rcases List.mem_cons.mp h with rfl | h'
        · simp
        · exact List.mem_cons_of_mem _ (mem_insertNat_of_mem_sv x y zs h')

theorem mem_foldl_insertNat_sv (l : List ValueRow) : ∀ (acc : List Nat) (w : ValueRow),
    (w ∈ l ∨ w.rowNum ∈ acc) → w.rowNum ∈ l.foldl (fun acc v => Db.insertNat v.rowNum acc) acc := by
  induction l with
  | nil => intro acc w h; rcases h with h | h; cases h; exact h
  | cons a l ih =>
    intro acc w h
    simp only [List.foldl_cons]
    apply ih
    rcases h with h | h
    · rcases List.mem_cons.mp h with rfl | h'
      · exact Or.inr (mem_insertNat_self_sv _ _)
      · exact Or.inl h'
    · exact Or.inr (mem_insertNat_of_mem_sv _ _ _ h)

/-- a value row of an item of the loop has its row number among the loop's rows -/
theorem mem_loopRows (d : Db) (cid ln : Nat) (w : ValueRow) (hw : w ∈ d.values) (hc : w.cid = cid)
    (hi : (d.loopItems cid ln).any (fun i => i.name == w.name) = true) : w.rowNum ∈ d.loopRows cid ln := by
  unfold Db.loopRows
  apply mem_foldl_insertNat_sv
  left
  simp only [List.mem_filter, Bool.and_eq_true, beq_iff_eq]
  exact ⟨hw, hc, hi⟩

theorem loopOfItem_mem (d : Db) (cid : Nat) (k : Str) (ln : Nat) (h : d.loopOfItem cid k = some ln) :
    (d.loopItems cid ln).any (fun i => i.name == k) = true := by
  unfold Db.loopOfItem at h
  cases hf : d.items.find? (fun i => i.cid == cid && i.name == k) with
  | none => simp [hf] at h
  | some i =>
    simp only [hf, Option.map_some, Option.some.injEq] at h
    have hp := List.find?_some hf
    have hm := List.mem_of_find?_eq_some hf
    simp only [Bool.and_eq_true, beq_iff_eq] at hp
    simp only [List.any_eq_true, Db.loopItems, List.mem_filter, Bool.and_eq_true, beq_iff_eq]
    exact ⟨i, ⟨hm, hp.1, h⟩, hp.2⟩

/-- after SET_ALL_VALUES_SQL every stored value of the item is `v`, and every packet (row) of its loop has one -/
theorem setAllValues_all (d : Db) (cid : Nat) (k : Str) (v : V) (ln : Nat) (hl : d.loopOfItem cid k = some ln) :
    (∀ w ∈ (d.setAllValues cid k v).1.values, w.cid = cid → w.name = k → w.val = v)
    ∧ (∀ r ∈ d.loopRows cid ln, (d.setAllValues cid k v).1.cell cid k r = some v)
    ∧ (∀ k' row', k' ≠ k → (d.setAllValues cid k v).1.cell cid k' row' = d.cell cid k' row') := by
  have hitem := loopOfItem_mem d cid k ln hl
  simp only [Db.setAllValues, hl]
  refine ⟨?_, ?_, ?_⟩
  · intro w hw hc hn
    rcases List.mem_append.mp hw with hw | hw
    · exfalso
      simp only [List.mem_filter, Bool.not_eq_true', Bool.and_eq_false_iff] at hw
      obtain ⟨hmem, hcond⟩ := hw
      have hrow : w.rowNum ∈ d.loopRows cid ln := mem_loopRows d cid ln w hmem hc (by rw [hn]; exact hitem)
      rcases hcond with (h1 | h1) | h1
      · simp [hc] at h1
      · simp [hn] at h1
      · simp [hrow] at h1
    · obtain ⟨r, _, rfl⟩ := List.mem_map.mp hw
      rfl
  · intro r hr
    simp only [Db.cell, List.find?_append]
    rw [find_filter_none (isKey cid k r) _ d.values (by
      intro a ha
      simp only [isKey, Bool.and_eq_true, beq_iff_eq] at ha
      simp [ha.1.1, ha.1.2, ha.2, hr])]
    simp only [Option.none_or]
    have : ((d.loopRows cid ln).map (fun r => ({ cid := cid, name := k, rowNum := r, val := v } : ValueRow))).find?
        (fun w => w.cid == cid && w.name == k && w.rowNum == r) = some { cid := cid, name := k, rowNum := r, val := v } := by
      generalize d.loopRows cid ln = rows at hr
      induction rows with
      | nil => cases hr
      | cons a rows ih =>
        simp only [List.map_cons, List.find?_cons]
        by_cases ha : a = r
        · subst ha; simp
        · have : r ∈ rows := by rcases List.mem_cons.mp hr with h | h; exact absurd h.symm ha; exact h
          have hb : (a == r) = false := beq_eq_false_iff_ne.mpr ha
          simp [hb, ih this]
    rw [this]; rfl
  · intro k' row' hne
    simp only [Db.cell, List.find?_append]
    rw [find_filter_same (fun w => w.cid == cid && w.name == k' && w.rowNum == row') _ d.values (by
      intro a ha
      simp only [Bool.and_eq_true, beq_iff_eq] at ha
      simp [ha.1.2, hne])]
    cases hf : d.values.find? (fun w => w.cid == cid && w.name == k' && w.rowNum == row') with
    | some w => simp
    | none =>
      simp only [Option.none_or]
      have : ((d.loopRows cid ln).map (fun r => ({ cid := cid, name := k, rowNum := r, val := v } : ValueRow))).find?
          (fun w => w.cid == cid && w.name == k' && w.rowNum == row') = none := by
        apply find_none_of_any_false
        simp only [List.any_map, List.any_eq_false]
        intro r _
        have : ¬ k = k' := fun e => hne e.symm
        simp [this]
      rw [this]

/-! ### the reading statements deliver rows of the table -/

theorem mem_insertByRow_sv (x y : ValueRow) : ∀ l : List ValueRow, y ∈ Db.insertByRow x l → y = x ∨ y ∈ l
  | [], h => by simp [Db.insertByRow] at h; exact Or.inl h
  | z :: zs, h => by
    unfold Db.insertByRow at h
    split at h
    · rcases List.mem_cons.mp h with h | h
      · exact Or.inl h
      · exact Or.inr h
    · rcases List.mem_cons.mp h with h | h
      · exact Or.inr (by rw [h]; exact List.mem_cons_self)
      · rcases mem_insertByRow_sv x y zs h with h | h
        · exact Or.inl h
        · exact Or.inr (List.mem_cons_of_mem _ h)

theorem mem_foldr_insertByRow_sv (l : List ValueRow) (y : ValueRow) (h : y ∈ l.foldr Db.insertByRow []) : y ∈ l := by
  induction l with
  | nil => simp at h
  | cons a l ih =>
    simp only [List.foldr_cons] at h
    rcases mem_insertByRow_sv a y _ h with h | h
    · rw [h]; exact List.mem_cons_self
    · exact List.mem_cons_of_mem _ (ih h)

/-- GET_VALUE_SQL returns rows of the table that belong to the item -/
theorem mem_valuesOf (d : Db) (cid : Nat) (k : Str) (w : ValueRow) (h : w ∈ d.valuesOf cid k) :
    w ∈ d.values ∧ w.cid = cid ∧ w.name = k := by
  have := mem_foldr_insertByRow_sv _ w h
  simp only [List.mem_filter, Bool.and_eq_true, beq_iff_eq] at this
  exact ⟨this.1, this.2.1, this.2.2⟩

/-- GET_LOOP_VALUES_SQL (what the packet iterator and cif_walk read) returns rows of the table -/
theorem mem_loopValues (d : Db) (cid ln : Nat) (w : ValueRow) (h : w ∈ d.loopValues cid ln) : w ∈ d.values ∧ w.cid = cid := by
  have := mem_foldr_insertByRow_sv _ w h
  simp only [List.mem_filter, Bool.and_eq_true, beq_iff_eq] at this
  exact ⟨this.1, this.2.1⟩

/-- with the primary key of item_value unique, a row of the table IS its cell -/
theorem cell_of_mem (d : Db) (hpk : d.values.Pairwise (fun a b => ¬(a.cid = b.cid ∧ a.name = b.name ∧ a.rowNum = b.rowNum)))
    (w : ValueRow) (hw : w ∈ d.values) : d.cell w.cid w.name w.rowNum = some w.val := by
  unfold Db.cell
  generalize d.values = l at hpk hw
  induction l with
  | nil => cases hw
  | cons a l ih =>
    simp only [List.find?_cons]
    rcases List.mem_cons.mp hw with rfl | hw'
    · simp
    · have hne : ¬(a.cid = w.cid ∧ a.name = w.name ∧ a.rowNum = w.rowNum) := (List.pairwise_cons.mp hpk).1 w hw'
      have : (a.cid == w.cid && a.name == w.name && a.rowNum == w.rowNum) = false := by
        apply Bool.eq_false_iff.mpr
        intro h
        simp only [Bool.and_eq_true, beq_iff_eq] at h
        exact hne ⟨h.1.1, h.1.2, h.2⟩
      simp only [this]
      exact ih (List.pairwise_cons.mp hpk).2 hw'

/-! ### through the API functions (transactions included) -/

/-- every stored value of item `k` of container `cid` is `v` -/
def Db.AllVals (d : Db) (cid : Nat) (k : Str) (v : V) : Prop := ∀ w ∈ d.values, w.cid = cid → w.name = k → w.val = v

/-- what cif_container_get_value can answer when every stored value of the item is `v` -/
theorem getValue_of_allVals (s : Store) (h : CH) (n : Name) (v : V) (ha : s.db.AllVals h.id n.key v) :
    (getValue s h (some n)).2 = .error CIF_NOSUCH_ITEM ∨ ∃ b, (getValue s h (some n)).2 = .ok (v, b) := by
  unfold getValue
  simp only
  split
  · exact Or.inl rfl
  · cases hv : s.db.valuesOf h.id n.key with
    | nil => exact Or.inl rfl
    | cons w ws =>
      have hm := mem_valuesOf s.db h.id n.key w (by rw [hv]; exact List.mem_cons_self)
      have hval : w.val = v := ha w hm.1 hm.2.1 hm.2.2
      cases ws with
      | nil => exact Or.inr ⟨false, by simp [hval]⟩
      | cons w2 ws2 => exact Or.inr ⟨true, by simp [hval]⟩

theorem begin_db (s s1 : Store) (h : s.begin = some s1) : s1.db = s.db ∧ s1.autocommit = false := by
  unfold Store.begin at h
  split at h
  · simp only [Option.some.injEq] at h; subst h; exact ⟨rfl, by simp [Store.autocommit]⟩
  · cases h

theorem commit_getD_db_sv (s : Store) : (s.commit.getD s).db = s.db := by
  unfold Store.commit; split <;> rfl

theorem release_getD_db (s s0 : Store) (h : s.saves ≠ []) : (s.release.getD s0).db = s.db := by
  unfold Store.release
  cases hs : s.saves with
  | nil => exact absurd hs h
  | cons a r => rfl

/-- a body bracketed by BEGIN_NESTTX / COMMIT_NESTTX: on success the resulting database is the body's -/
theorem nest_ok {α} (s : Store) (body : Db → Except Code (Db × α)) (a : α) (h : (s.nest body).2 = .ok a) :
    ∃ d2, body s.db = .ok (d2, a) ∧ (s.nest body).1.db = d2 := by
  unfold Store.nest Store.beginNest at h ⊢
  by_cases hac : s.autocommit = true
  · simp only [hac, if_true] at h ⊢
    cases hb : body s.db with
    | error c => simp [hb] at h
    | ok r =>
      obtain ⟨d2, a'⟩ := r
      simp only [hb] at h ⊢
      simp only [Except.ok.injEq] at h
      subst h
      exact ⟨d2, rfl, by simp [Store.commitNest, commit_getD_db_sv]⟩
  · have hacf : s.autocommit = false := by simpa using hac
    simp only [hacf, Bool.false_eq_true, ↓reduceIte] at h ⊢
    have hsd : s.save.db = s.db := rfl
    rw [hsd] at h ⊢
    cases hb : body s.db with
    | error c => simp [hb] at h
    | ok r =>
      obtain ⟨d2, a'⟩ := r
      simp only [hb] at h ⊢
      simp only [Except.ok.injEq] at h
      subst h
      refine ⟨d2, rfl, ?_⟩
      simp only [Store.commitNest, Bool.false_eq_true, ↓reduceIte]
      exact release_getD_db _ _ (by simp [Store.save])

theorem loopOfItem_of_itemLoop (d : Db) (cid : Nat) (k : Str) (l : LH) (h : getItemLoopInternal d cid k = .ok l) :
    ∃ ln, d.loopOfItem cid k = some ln := by
  unfold getItemLoopInternal at h
  cases hr : itemLoopRows d cid k with
  | nil => simp [hr] at h
  | cons l0 rest =>
    have hm : l0 ∈ itemLoopRows d cid k := by rw [hr]; exact List.mem_cons_self
    simp only [itemLoopRows, List.mem_filter, Bool.and_eq_true, List.any_eq_true, beq_iff_eq] at hm
    obtain ⟨_, _, i, hi, ⟨hc, hn⟩, _⟩ := hm
    unfold Db.loopOfItem
    cases hf : d.items.find? (fun i => i.cid == cid && i.name == k) with
    | some j => exact ⟨j.loopNum, rfl⟩
    | none =>
      exfalso
      have := List.find?_eq_none.mp hf i hi
      simp [hc, hn] at this

/-- **cif_container_set_value on an item the container has**: the call succeeds, afterwards every stored value of the item
    (one per packet of its loop) is the value given, so cif_container_get_value delivers it (CIF_NOSUCH_ITEM only for an
    item of a loop without packets) -/
theorem setValue_existing_read (s : Store) (h : CH) (n : Name) (v : V) (l : LH) (hv : n.valid = true)
    (hac : s.autocommit = true) (hl : getItemLoopInternal s.db h.id n.key = .ok l) :
    (setValue s h (some n) (some v)).2 = .ok ()
    ∧ (setValue s h (some n) (some v)).1.db.AllVals h.id n.key v
    ∧ ((getValue (setValue s h (some n) (some v)).1 h (some n)).2 = .error CIF_NOSUCH_ITEM
        ∨ ∃ b, (getValue (setValue s h (some n) (some v)).1 h (some n)).2 = .ok (v, b)) := by
  obtain ⟨ln, hln⟩ := loopOfItem_of_itemLoop s.db h.id n.key l hl
  have hres : setValue s h (some n) (some v) =
      ((({ s with txn := some s.db, db := (s.db.setAllValues h.id n.key v).1 } : Store).commit).getD
        { s with txn := some s.db, db := (s.db.setAllValues h.id n.key v).1 }, .ok ()) := by
    simp [setValue, hv, Store.begin, hac, setValueInner, hl]
  have hall : (setValue s h (some n) (some v)).1.db.AllVals h.id n.key v := by
    rw [hres]; simp only [commit_getD_db_sv]
    exact (setAllValues_all s.db h.id n.key v ln hln).1
  exact ⟨by rw [hres], hall, getValue_of_allVals _ h n v hall⟩

theorem loopOfItem_insertItem (d d1 : Db) (cid : Nat) (k o : Str) (ln : Nat) (h : d.insertItem cid k o ln = some d1) :
    d1.loopOfItem cid k = some ln ∧ d1.values = d.values := by
  unfold Db.insertItem at h
  split at h
  · cases h
  · rename_i hno
    split at h
    · cases h
    · simp only [Option.some.injEq] at h
      subst h
      refine ⟨?_, rfl⟩
      simp only [Db.loopOfItem, List.find?_append]
      have : d.items.find? (fun i => i.cid == cid && i.name == k) = none :=
        find_none_of_any_false _ _ (by simpa [Db.hasItem] using hno)
      rw [this]
      simp [List.find?_cons]

/-- cif_loop_add_item_internal: on success every packet of the loop holds the given value for the new item, nothing else
    is stored for it, and the count returned is the number of packets -/
theorem addItemInternal_read (s : Store) (l : LH) (k o : Str) (v : V) (cnt : Nat)
    (hok : (addItemInternal s l k o v).2 = .ok cnt) :
    (addItemInternal s l k o v).1.db.AllVals l.cid k v
    ∧ ∃ d1, s.db.insertItem l.cid k o l.loopNum = some d1 ∧ cnt = (d1.loopRows l.cid l.loopNum).length
        ∧ ∀ r ∈ d1.loopRows l.cid l.loopNum, (addItemInternal s l k o v).1.db.cell l.cid k r = some v := by
  unfold addItemInternal at hok ⊢
  obtain ⟨d2, hbody, hdb⟩ := nest_ok s (addItemBody l k o v) cnt hok
  rw [hdb]
  unfold addItemBody at hbody
  cases hi : s.db.insertItem l.cid k o l.loopNum with
  | none => simp [hi] at hbody
  | some d1 =>
    simp only [hi, Except.ok.injEq] at hbody
    obtain ⟨hlo, _⟩ := loopOfItem_insertItem s.db d1 l.cid k o l.loopNum hi
    have hall := setAllValues_all d1 l.cid k v l.loopNum hlo
    have hd2 : d2 = (d1.setAllValues l.cid k v).1 := by rw [hbody]
    have hcnt : cnt = (d1.loopRows l.cid l.loopNum).length := by
      have : (d1.setAllValues l.cid k v).2 = cnt := by rw [hbody]
      rw [← this]; simp [Db.setAllValues, hlo]
    rw [hd2]
    exact ⟨hall.1, d1, rfl, hcnt, hall.2.1⟩

/-- **cif_loop_add_item**: on success every packet of the loop holds the given value for the new item, and nothing else
    is stored for it -/
theorem addItem_read (s : Store) (l : LH) (n : Name) (v : V) (hv : n.valid = true)
    (hok : (addItem s l (some n) (some v)).2 = .ok ()) :
    (addItem s l (some n) (some v)).1.db.AllVals l.cid n.key v
    ∧ ∃ d1, s.db.insertItem l.cid n.key n.orig l.loopNum = some d1
        ∧ ∀ r ∈ d1.loopRows l.cid l.loopNum, (addItem s l (some n) (some v)).1.db.cell l.cid n.key r = some v := by
  unfold addItem at hok ⊢
  simp only [hv, Bool.not_true, Bool.false_eq_true, if_false, Option.getD_some] at hok ⊢
  cases hn : (addItemInternal s l n.key n.orig v).2 with
  | error c =>
    generalize hr : addItemInternal s l n.key n.orig v = r at hok hn
    obtain ⟨s1, e⟩ := r
    simp only at hn; subst hn; simp at hok
  | ok cnt =>
    obtain ⟨hall, d1, hi, _, hcells⟩ := addItemInternal_read s l n.key n.orig v cnt hn
    generalize hr : addItemInternal s l n.key n.orig v = r at hok hn hall hcells ⊢
    obtain ⟨s1, e⟩ := r
    simp only at hn; subst hn
    exact ⟨hall, d1, hi, hcells⟩

/-- FILL_PACKET_SQL (`insert or ignore`) leaves every cell that holds a value as it is: it only appends rows -/
theorem cell_fillPacket (d : Db) (cid ln row' c : Nat) (k : Str) (row : Nat) (v : V)
    (h : d.cell c k row = some v) : (d.fillPacket cid ln row').cell c k row = some v := by
  unfold Db.fillPacket
  simp only []
  split
  · exact h
  · unfold Db.cell at h ⊢
    simp only [List.find?_append]
    cases hf : d.values.find? (fun w => w.cid == c && w.name == k && w.rowNum == row) with
    | none => simp [hf] at h
    | some w => simpa [hf] using h

/-- the rows FILL_PACKET_SQL adds are unknown values for (item, row) pairs that had no value -/
theorem fillPacket_values (d : Db) (cid ln row : Nat) (w : ValueRow) (hw : w ∈ (d.fillPacket cid ln row).values) :
    w ∈ d.values ∨ (w.cid = cid ∧ w.rowNum = row ∧ d.hasValue cid w.name row = false) := by
  unfold Db.fillPacket at hw
  simp only [] at hw
  split at hw
  · exact Or.inl hw
  · rcases List.mem_append.mp hw with h | h
    · exact Or.inl h
    · obtain ⟨i, hi, rfl⟩ := List.mem_map.mp h
      have := (List.mem_filter.mp hi).2
      exact Or.inr ⟨rfl, rfl, by simpa using this⟩

/-- a cell that holds a value is a value the table has -/
theorem hasValue_of_cell (d : Db) (cid : Nat) (k : Str) (row : Nat) (v : V) (h : d.cell cid k row = some v) :
    d.hasValue cid k row = true := by
  unfold Db.cell at h
  unfold Db.hasValue
  cases hf : d.values.find? (fun w => w.cid == cid && w.name == k && w.rowNum == row) with
  | none => simp [hf] at h
  | some w =>
    rw [List.any_eq_true]
    have hp := List.find?_some (p := isKey cid k row) hf
    exact ⟨w, List.mem_of_find?_eq_some hf, hp⟩

/-- **cif_loop_add_packet**: on success the loop has a new packet (row) that holds, for every item the packet names, the
    value given -/
theorem addPacket_read (s : Store) (l : LH) (pkt : List (Str × V)) (hok : (addPacket s l pkt).2 = .ok ()) :
    ∃ row, ∀ e ∈ pkt, (addPacket s l pkt).1.db.cell l.cid e.1 row = some e.2 := by
  unfold addPacket at hok ⊢
  split at hok
  · cases hok
  · rename_i hne
    simp only [hne, Bool.false_eq_true, ↓reduceIte]
    obtain ⟨d2, hbody, hdb⟩ := nest_ok s (addPacketBody l pkt) () hok
    rw [hdb]
    unfold addPacketBody at hbody
    cases hb : s.db.bumpRowNum l.cid l.loopNum with
    | error m => simp only [hb] at hbody; split at hbody <;> cases hbody
    | ok d1 =>
      simp only [hb] at hbody
      cases hr : d1.lastRowNum l.cid l.loopNum with
      | none => simp [hr] at hbody
      | some row =>
        simp only [hr] at hbody
        cases ha : addValues d1 l.cid l.loopNum row pkt with
        | error c => simp [ha] at hbody
        | ok d3 =>
          simp only [ha, Except.ok.injEq, Prod.mk.injEq, and_true] at hbody
          subst hbody
          exact ⟨row, fun e he => cell_fillPacket d3 l.cid l.loopNum row l.cid e.1 row e.2
            ((addValues_cells pkt d1 d3 l.cid l.loopNum row ha).1 e he)⟩

/-- **cif_pktitr_update_packet**: on success the current packet holds, for every item the update names, the value given;
    every other cell is unchanged -/
theorem updatePacket_read (s : Store) (it : Iter) (pkt : List (Str × V)) (hd : keysDistinct_sv pkt)
    (hok : (updatePacket s it pkt).2 = .ok ()) :
    (∀ e ∈ pkt, (updatePacket s it pkt).1.db.cell it.cid e.1 it.prev.toNat = some e.2)
    ∧ ∀ k' row', (∀ e ∈ pkt, ¬(k' = e.1 ∧ row' = it.prev.toNat)) →
        (updatePacket s it pkt).1.db.cell it.cid k' row' = s.db.cell it.cid k' row' := by
  unfold updatePacket at hok ⊢
  split at hok
  · cases hok
  · rename_i hac
    split at hok
    · cases hok
    · rename_i hprev
      simp only [hac, hprev, if_false, Bool.false_eq_true, ↓reduceIte] at hok ⊢
      cases hu : updateValues s.save.db it pkt with
      | error c => simp [hu] at hok
      | ok d2 =>
        simp only [hu]
        have hdb : (({ db := d2, txn := s.save.txn, saves := s.save.saves } : Store).release.getD s.save).db = d2 :=
          release_getD_db _ _ (by simp [Store.save])
        rw [hdb]
        exact updateValues_cells pkt s.db d2 it hd (by simpa [Store.save] using hu)


/-! ### cif_container_set_value for an item the container does not have yet (cif_container_add_scalar) -/

/-- the part of cif_container_add_scalar after the scalar loop `l` has been found or created -/
def addScalarTail (s1 : Store) (l : LH) (key orig : Str) (v : V) : R Unit :=
  match addItemInternal s1 l key orig v with
  | (s2, .error c) => (s2, .error c)
  | (s2, .ok numPackets) => if numPackets == 0 then addPacket s2 l [(key, v)] else (s2, .ok ())

/-- **the new-scalar path of cif_container_set_value**: once the scalar loop is at hand, a successful call leaves the
    given value as the only value stored for the item, in at least one packet -/
theorem addScalarTail_read (s1 : Store) (l : LH) (key orig : Str) (v : V) (hok : (addScalarTail s1 l key orig v).2 = .ok ()) :
    (addScalarTail s1 l key orig v).1.db.AllVals l.cid key v
    ∧ ∃ row, (addScalarTail s1 l key orig v).1.db.cell l.cid key row = some v := by
  unfold addScalarTail at hok ⊢
  generalize hr : addItemInternal s1 l key orig v = r at hok ⊢
  obtain ⟨s2, e⟩ := r
  cases e with
  | error c => simp at hok
  | ok cnt =>
    have hn : (addItemInternal s1 l key orig v).2 = .ok cnt := by rw [hr]
    obtain ⟨hall, d1, hi, hcnt, hcells⟩ := addItemInternal_read s1 l key orig v cnt hn
    rw [hr] at hall hcells
    simp only at hall hcells hok ⊢
    by_cases hz : (cnt == 0) = true
    · simp only [hz, if_true] at hok ⊢
      -- no packet yet: cif_loop_add_packet of the one-item packet
      obtain ⟨row, hrow⟩ := addPacket_read s2 l [(key, v)] hok
      refine ⟨?_, row, hrow (key, v) (by simp)⟩
      -- the inserted row carries v, everything else is as after add_item
      unfold addPacket at hok ⊢
      simp only [List.isEmpty_cons, Bool.false_eq_true, ↓reduceIte] at hok ⊢
      obtain ⟨d2, hbody, hdb⟩ := nest_ok s2 (addPacketBody l [(key, v)]) () hok
      rw [hdb]
      unfold addPacketBody at hbody
      cases hb : s2.db.bumpRowNum l.cid l.loopNum with
      | error m => simp only [hb] at hbody; split at hbody <;> cases hbody
      | ok d3 =>
        simp only [hb] at hbody
        have hv3 : d3.values = s2.db.values := by
          unfold Db.bumpRowNum at hb
          split at hb
          · cases hb
          · simp only [Except.ok.injEq] at hb; rw [← hb]
        cases hr' : d3.lastRowNum l.cid l.loopNum with
        | none => simp [hr'] at hbody
        | some row' =>
          simp only [hr'] at hbody
          cases ha : addValues d3 l.cid l.loopNum row' [(key, v)] with
          | error c => simp [ha] at hbody
          | ok d4 =>
            simp only [ha, Except.ok.injEq, Prod.mk.injEq, and_true] at hbody
            subst hbody
            intro w hw hc hn'
            rcases fillPacket_values d4 l.cid l.loopNum row' w hw with hw4 | ⟨_, _, hnone⟩
            · rcases addValues_values [(key, v)] d3 d4 l.cid l.loopNum row' ha w hw4 with hold | ⟨e, he, hwe⟩
              · rw [hv3] at hold; exact hall w hold hc hn'
              · simp only [List.mem_singleton] at he; subst he; rw [hwe]
            · -- a row added by FILL_PACKET_SQL is not for this item: its cell in the new packet already holds `v`
              have hcell := (addValues_cells [(key, v)] d3 d4 l.cid l.loopNum row' ha).1 (key, v) (by simp)
              have := hasValue_of_cell d4 l.cid key row' v hcell
              rw [hn'] at hnone
              rw [this] at hnone; cases hnone
    · simp only [hz, Bool.false_eq_true, ↓reduceIte] at hok ⊢
      refine ⟨hall, ?_⟩
      have hpos : 0 < (d1.loopRows l.cid l.loopNum).length := by
        rw [← hcnt]
        have : cnt ≠ 0 := fun e => hz (by simp [e])
        omega
      obtain ⟨r, hrm⟩ := List.exists_mem_of_length_pos hpos
      exact ⟨r, hcells r hrm⟩

theorem getCategoryLoop_cid (s : Store) (h : CH) (cat : Option Str) (s1 : Store) (l : LH)
    (hq : getCategoryLoop s h cat = (s1, .ok l)) : l.cid = h.id := by
  unfold getCategoryLoop at hq
  cases cat with
  | none => simp at hq
  | some c =>
    simp only at hq
    split at hq
    · simp at hq
    · simp only [Prod.mk.injEq, Except.ok.injEq] at hq; rw [← hq.2]
    · simp at hq

theorem createLoopInternal_cid (s : Store) (h : CH) (cat : Option Str) (names : List Name) (s1 : Store) (l : LH)
    (hq : createLoopInternal s h cat names = (s1, .ok l)) : l.cid = h.id := by
  unfold createLoopInternal at hq
  have hok : (s.nest (createLoopBody h.id cat names)).2 = .ok l := by rw [hq]
  obtain ⟨d2, hbody, _⟩ := nest_ok s _ l hok
  unfold createLoopBody at hbody
  cases hi : s.db.insertLoopUnnumbered h.id cat with
  | error m => simp only [hi] at hbody; split at hbody <;> cases hbody
  | ok d1 =>
    simp only [hi] at hbody
    cases ha : addItems d1 h.id (d1.maxLoopNum h.id) names with
    | error c => simp [ha] at hbody
    | ok d3 =>
      simp only [ha, Except.ok.injEq, Prod.mk.injEq] at hbody
      rw [← hbody.2]

/-- the first half of cif_container_add_scalar: the container's scalar loop, created when there is none yet -/
def scalarLoopOf (s : Store) (h : CH) : R LH :=
  match getCategoryLoop s h (some []) with
  | (s', .error c) => if c == CIF_NOSUCH_LOOP then createLoopInternal s' h (some []) [] else (s', .error c)
  | r => r

theorem addScalar_unfold (s : Store) (h : CH) (key orig : Str) (v : V) :
    addScalar s h key orig v =
      (match scalarLoopOf s h with
       | (s1, rl) => match rl with
         | .error c => (s1, .error c)
         | .ok l => addScalarTail s1 l key orig v) := rfl

theorem scalarLoopOf_cid (s : Store) (h : CH) (s1 : Store) (l : LH) (hq : scalarLoopOf s h = (s1, .ok l)) : l.cid = h.id := by
  unfold scalarLoopOf at hq
  generalize hg : getCategoryLoop s h (some []) = g at hq
  obtain ⟨s', e⟩ := g
  cases e with
  | error c =>
    simp only at hq
    split at hq
    · exact createLoopInternal_cid s' h (some []) [] s1 l hq
    · simp at hq
  | ok l' =>
    simp only [Prod.mk.injEq, Except.ok.injEq] at hq
    rw [← hq.2]
    exact getCategoryLoop_cid s h (some []) s' l' hg

/-- **cif_container_add_scalar** (the new-item path of cif_container_set_value): on success the given value is the only value
    stored for the item, in at least one packet of the container's scalar loop -/
theorem addScalar_read (s : Store) (h : CH) (key orig : Str) (v : V) (hok : (addScalar s h key orig v).2 = .ok ()) :
    (addScalar s h key orig v).1.db.AllVals h.id key v
    ∧ ∃ row, (addScalar s h key orig v).1.db.cell h.id key row = some v := by
  rw [addScalar_unfold] at hok ⊢
  generalize hq : scalarLoopOf s h = q at hok ⊢
  obtain ⟨s1, rl⟩ := q
  cases rl with
  | error c => simp at hok
  | ok l =>
    have hcid : l.cid = h.id := scalarLoopOf_cid s h s1 l hq
    simp only at hok ⊢
    have := addScalarTail_read s1 l key orig v hok
    rw [hcid] at this
    exact this

/-- **cif_container_set_value for an item the container does not have**: on success cif_container_get_value delivers the
    value given -/
theorem setValue_new_read (s : Store) (h : CH) (n : Name) (v : V) (hv : n.valid = true) (hac : s.autocommit = true)
    (hnew : getItemLoopInternal s.db h.id n.key = .error CIF_NOSUCH_ITEM)
    (hok : (setValue s h (some n) (some v)).2 = .ok ()) :
    (setValue s h (some n) (some v)).1.db.AllVals h.id n.key v
    ∧ (∃ row, (setValue s h (some n) (some v)).1.db.cell h.id n.key row = some v) := by
  have hb : s.begin = some { s with txn := some s.db } := by simp [Store.begin, hac]
  unfold setValue at hok ⊢
  simp only [hv, Bool.not_true, Bool.false_eq_true, if_false, hb, Option.getD_some] at hok ⊢
  have hin : setValueInner { s with txn := some s.db } h n.key n.orig v = addScalar { s with txn := some s.db } h n.key n.orig v := by
    simp [setValueInner, hnew]
  rw [hin] at hok ⊢
  generalize hr : addScalar { s with txn := some s.db } h n.key n.orig v = r at hok ⊢
  obtain ⟨s2, e⟩ := r
  cases e with
  | error c => simp at hok
  | ok u =>
    have hok2 : (addScalar { s with txn := some s.db } h n.key n.orig v).2 = .ok () := by rw [hr]
    have := addScalar_read _ h n.key n.orig v hok2
    rw [hr] at this
    simp only [commit_getD_db_sv]
    exact this

theorem mem_insertByRow_self (x : ValueRow) : ∀ l : List ValueRow, x ∈ Db.insertByRow x l
  | [] => by simp [Db.insertByRow]
  | y :: ys => by
    unfold Db.insertByRow
    split
    · simp
    · exact List.mem_cons_of_mem _ (mem_insertByRow_self x ys)

theorem mem_insertByRow_of_mem (x y : ValueRow) : ∀ l : List ValueRow, y ∈ l → y ∈ Db.insertByRow x l
  | [], h => by cases h
  | z :: zs, h => by
    unfold Db.insertByRow
    split
    · exact List.mem_cons_of_mem _ h
    · rcases List.mem_cons.mp h with rfl | h'
      · simp
      · exact List.mem_cons_of_mem _ (mem_insertByRow_of_mem x y zs h')

theorem mem_foldr_insertByRow_of_mem_sv (l : List ValueRow) (y : ValueRow) (h : y ∈ l) : y ∈ l.foldr Db.insertByRow [] := by
  induction l with
  | nil => cases h
  | cons a l ih =>
    simp only [List.foldr_cons]
    rcases List.mem_cons.mp h with rfl | h'
    · exact mem_insertByRow_self _ _
    · exact mem_insertByRow_of_mem _ _ _ (ih h')

/-- an occupied cell is delivered by GET_VALUE_SQL -/
theorem valuesOf_ne_nil (d : Db) (cid : Nat) (k : Str) (row : Nat) (v : V) (h : d.cell cid k row = some v) :
    d.valuesOf cid k ≠ [] := by
  unfold Db.cell at h
  cases hf : d.values.find? (fun w => w.cid == cid && w.name == k && w.rowNum == row) with
  | none => simp [hf] at h
  | some w =>
    have hp := List.find?_some hf
    have hm := List.mem_of_find?_eq_some hf
    simp only [Bool.and_eq_true, beq_iff_eq] at hp
    have : w ∈ d.valuesOf cid k := by
      unfold Db.valuesOf
      apply mem_foldr_insertByRow_of_mem_sv
      simp only [List.mem_filter, Bool.and_eq_true, beq_iff_eq]
      exact ⟨hm, hp.1.1, hp.1.2⟩
    intro he; rw [he] at this; cases this

/-- when every stored value of the item is `v` and there is one, cif_container_get_value delivers `v` -/
theorem getValue_delivers (s : Store) (h : CH) (n : Name) (v : V) (hv : n.valid = true) (ha : s.db.AllVals h.id n.key v)
    (row : Nat) (hc : s.db.cell h.id n.key row = some v) : ∃ b, (getValue s h (some n)).2 = .ok (v, b) := by
  have hne := valuesOf_ne_nil s.db h.id n.key row v hc
  unfold getValue
  simp only [hv, Bool.not_true, Bool.false_eq_true, if_false]
  cases hvs : s.db.valuesOf h.id n.key with
  | nil => exact absurd hvs hne
  | cons w ws =>
    have hm := mem_valuesOf s.db h.id n.key w (by rw [hvs]; exact List.mem_cons_self)
    have hval : w.val = v := ha w hm.1 hm.2.1 hm.2.2
    cases ws with
    | nil => exact ⟨false, by simp [hval]⟩
    | cons w2 ws2 => exact ⟨true, by simp [hval]⟩

/-- **cif_container_set_value on an item the container has — when which answer**: the call succeeds; if the item's loop has
    at least one packet, cif_container_get_value afterwards delivers exactly the value given (with the several-packets flag);
    it answers CIF_NOSUCH_ITEM precisely when the loop has no packet, i.e. when there was no place to store the value -/
theorem setValue_existing_read_strong (s : Store) (h : CH) (n : Name) (v : V) (l : LH) (hv : n.valid = true)
    (hac : s.autocommit = true) (hl : getItemLoopInternal s.db h.id n.key = .ok l) :
    ∃ ln, s.db.loopOfItem h.id n.key = some ln
      ∧ (setValue s h (some n) (some v)).2 = .ok ()
      ∧ (setValue s h (some n) (some v)).1.db.AllVals h.id n.key v
      ∧ (∀ r ∈ s.db.loopRows h.id ln, (setValue s h (some n) (some v)).1.db.cell h.id n.key r = some v)
      ∧ (s.db.loopRows h.id ln ≠ [] → ∃ b, (getValue (setValue s h (some n) (some v)).1 h (some n)).2 = .ok (v, b))
      ∧ (s.db.loopRows h.id ln = [] → (getValue (setValue s h (some n) (some v)).1 h (some n)).2 = .error CIF_NOSUCH_ITEM) := by
  obtain ⟨ln, hln⟩ := loopOfItem_of_itemLoop s.db h.id n.key l hl
  have hres : setValue s h (some n) (some v) =
      ((({ s with txn := some s.db, db := (s.db.setAllValues h.id n.key v).1 } : Store).commit).getD
        { s with txn := some s.db, db := (s.db.setAllValues h.id n.key v).1 }, .ok ()) := by
    simp [setValue, hv, Store.begin, hac, setValueInner, hl]
  have hdb : (setValue s h (some n) (some v)).1.db = (s.db.setAllValues h.id n.key v).1 := by
    rw [hres]; simp only [commit_getD_db_sv]
  obtain ⟨hall, hcells, _⟩ := setAllValues_all s.db h.id n.key v ln hln
  refine ⟨ln, hln, by rw [hres], ?_, ?_, ?_, ?_⟩
  · intro w hw; rw [hdb] at hw; exact hall w hw
  · intro r hr; rw [hdb]; exact hcells r hr
  · intro hne
    obtain ⟨r, hr⟩ := List.exists_mem_of_ne_nil _ hne
    exact getValue_delivers _ h n v hv (by intro w hw; rw [hdb] at hw; exact hall w hw) r (by rw [hdb]; exact hcells r hr)
  · intro hnil
    have hitem := loopOfItem_mem s.db h.id n.key ln hln
    have hempty : (setValue s h (some n) (some v)).1.db.valuesOf h.id n.key = [] := by
      rw [hdb]
      cases hvs : (s.db.setAllValues h.id n.key v).1.valuesOf h.id n.key with
      | nil => rfl
      | cons w ws =>
        exfalso
        have hm := mem_valuesOf _ h.id n.key w (by rw [hvs]; exact List.mem_cons_self)
        obtain ⟨hmem, hc, hn⟩ := hm
        simp only [Db.setAllValues, hln, hnil, List.map_nil, List.append_nil, List.mem_filter] at hmem
        have hrow : w.rowNum ∈ s.db.loopRows h.id ln := mem_loopRows s.db h.id ln w hmem.1 hc (by rw [hn]; exact hitem)
        rw [hnil] at hrow; cases hrow
    unfold getValue
    simp only [hv, Bool.not_true, Bool.false_eq_true, if_false, hempty]

end CifModel.Store
