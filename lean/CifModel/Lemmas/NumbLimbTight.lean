import CifModel.Lemmas.NumbLimbDigits
/-
  Limb level of C10, part 8: `msd` rests on a non-zero limb throughout the shift phase of to_digits
  ("ensure msd points at the most-significant bignum digit", `while (*msd == 0) msd += 1`, `msd = work_dig + 1`).
-/
namespace CifModel.Lemmas.NumbLimbTight
open CifModel.Model.Numb CifModel.Model.NumbLimbs CifModel.Lemmas.NumbLimbPass CifModel.Lemmas.NumbLimbRefine
  CifModel.Lemmas.NumbLimbDigits CifModel.Lemmas.NumbToDouble

def TightUp (A : Arr) : Prop := A.digits.getD A.msd 0 ≠ 0

theorem getD_lt_of_ne (l : List Nat) (j : Nat) (h : l.getD j 0 ≠ 0) : j < l.length := by
  rcases Nat.lt_or_ge j l.length with h1 | h1
  · exact h1
  · exfalso; apply h
    rw [List.getD_eq_getElem?_getD, List.getElem?_eq_none h1]; rfl

theorem skipUp_stop : ∀ (fuel : Nat) (ds : List Nat) (i : Nat), ds.length ≤ i + fuel →
    ds.getD (skipUp fuel ds i) 0 ≠ 0 ∨ ds.length ≤ skipUp fuel ds i + 1 := by
  intro fuel
  induction fuel with
  | zero => intro ds i h; right; simp only [skipUp]; omega
  | succ f ih =>
    intro ds i h
    rw [skipUp]
    by_cases hc : ds.getD i 0 = 0 ∧ i + 1 < ds.length
    · rw [if_pos hc]; exact ih ds (i + 1) (by omega)
    · rw [if_neg hc]
      by_cases h0 : ds.getD i 0 = 0
      · right
        have : ¬ (i + 1 < ds.length) := fun hh => hc ⟨h0, hh⟩
        omega
      · left; exact h0

theorem shrPass_tightUp {L : Nat} (extra s : Nat) (A A' : Arr) (h : shrPass extra s A = some A') (g : GoodL L A) :
    TightUp A' := by
  obtain ⟨g', _⟩ := shrPass_good extra s A A' h g
  have hf : A'.msd = skipUp A'.digits.length A'.digits A.msd := by
    unfold shrPass at h
    simp only at h
    split at h
    · cases h
    · split at h
      · cases h
      · simp only [Option.some.injEq] at h
        rw [← h]
  obtain ⟨j, hj1, hj2, hj3⟩ := nonzero_between A' g'.wf g'.pos
  have hsu := (skipUp_spec A'.digits.length A'.digits A.msd).1
  have hjm : A.msd ≤ j := by omega
  have hle := skipUp_le A'.digits.length A'.digits A.msd j hjm hj3
  have hjl := getD_lt_of_ne _ _ hj3
  unfold TightUp
  rw [hf]
  rcases skipUp_stop A'.digits.length A'.digits A.msd (by omega) with h1 | h1
  · exact h1
  · have : skipUp A'.digits.length A'.digits A.msd = j := by omega
    rw [this]; exact hj3

/-! ### the top limb of a left-shift pass -/

theorem shlList_snoc (s : Nat) : ∀ (xs : List Nat) (c x : Nat),
    (shlList s c (xs ++ [x])).1 = (shlList s c xs).1 ++ [(x * pow2 s + (shlList s c xs).2) % BBASE] ∧
    (shlList s c (xs ++ [x])).2 = (x * pow2 s + (shlList s c xs).2) / BBASE := by
  intro xs
  induction xs with
  | nil => intro c x; simp [shlList]
  | cons y t ih =>
    intro c x
    obtain ⟨a1, a2⟩ := ih ((y * pow2 s + c) / BBASE) x
    simp only [List.cons_append, shlList]
    exact ⟨by rw [a1], a2⟩

theorem shlList_carry_lt (s : Nat) (hs : pow2 s ≤ BBASE) : ∀ (xs : List Nat) (c : Nat), c < pow2 s → Small xs →
    (shlList s c xs).2 < pow2 s := by
  intro xs
  induction xs with
  | nil => intro c h _; exact h
  | cons y t ih =>
    intro c hc hsm
    simp only [shlList]
    apply ih _ _ (fun z hz => hsm z (by simp [hz]))
    have hy : y < Bb := hsm y (by simp)
    apply (Nat.div_lt_iff_lt_mul Bb_pos).mpr
    have : (y + 1) * pow2 s ≤ Bb * pow2 s := Nat.mul_le_mul_right _ hy
    have e : (y + 1) * pow2 s = y * pow2 s + pow2 s := by grind
    have e2 : pow2 s * Bb = Bb * pow2 s := Nat.mul_comm _ _
    omega

theorem shlTail_zero_head (s c : Nat) (t : List Nat) (hc : c < BBASE) :
    shlTail s c (0 :: t) = some (if c = 0 then [] else [c], if c = 0 then 0 :: t else t) := by
  rw [shlTail]
  by_cases h0 : c = 0
  · simp [h0]
  · rw [if_neg h0]
    simp only [Nat.zero_mul, Nat.zero_add, h0, if_false]
    rw [Nat.div_eq_of_lt hc, Nat.mod_eq_of_lt hc]
    cases t with
    | nil => simp [shlTail]
    | cons y r => simp [shlTail]


theorem shlTail_zero_carry (s : Nat) (xs : List Nat) : shlTail s 0 xs = some ([], xs) := by
  cases xs with
  | nil => simp [shlTail]
  | cons y t => simp [shlTail]

theorem getD_at_length (a : List Nat) (v : Nat) (b : List Nat) : (a ++ v :: b).getD a.length 0 = v := by
  rw [getD_append_r _ _ _ (Nat.le_refl _)]; simp

theorem shlPass_tightUp {L : Nat} (s : Nat) (hs : pow2 s ≤ BBASE) (A A' : Arr) (h : shlPass s A = some A')
    (g : GoodL L A) (ht : TightUp A) : TightUp A' := by
  unfold TightUp at ht
  have hlenA : A.msd < A.digits.length := getD_lt_of_ne _ _ ht
  have hml : A.msd ≤ A.lsd := by
    rcases Nat.lt_or_ge A.lsd A.msd with h1 | h1
    · exact absurd (g.wf.zhi A.msd h1) ht
    · exact h1
  unfold shlPass at h
  simp only at h
  generalize hn : A.lsd + 1 - A.msd = n at h
  -- the window starts with the non-zero limb at msd
  have hwin : (A.digits.drop A.msd).take n = A.digits.getD A.msd 0 :: ((A.digits.drop A.msd).take n).drop 1 := by
    have hd : A.digits.drop A.msd = A.digits[A.msd] :: A.digits.drop (A.msd + 1) := List.drop_eq_getElem_cons hlenA
    rw [List.getD_eq_getElem?_getD, List.getElem?_eq_getElem hlenA]
    simp only [Option.getD_some]
    have : n = (n - 1) + 1 := by omega
    rw [hd, this, List.take_succ_cons]
    simp
  have hpre0 : ∀ x ∈ A.digits.take A.msd, x = 0 := take_zero_of_idx _ _ g.wf.zlo
  have hprelen : (A.digits.take A.msd).length = A.msd := by rw [List.length_take]; omega
  have hsmw : Small (((A.digits.drop A.msd).take n).drop 1).reverse := by
    intro x hx
    rw [List.mem_reverse] at hx
    exact g.wf.small x (List.mem_of_mem_drop (List.mem_of_mem_take (List.mem_of_mem_drop hx)))
  generalize hx0 : A.digits.getD A.msd 0 = x at *
  generalize hrest : ((A.digits.drop A.msd).take n).drop 1 = rest at *
  generalize hpost : (A.digits.drop A.msd).drop n = post at *
  generalize hpre : A.digits.take A.msd = pre at *
  rw [hwin] at h
  have hrev : (x :: rest).reverse = rest.reverse ++ [x] := by simp
  rw [hrev] at h
  obtain ⟨s1, s2⟩ := shlList_snoc s rest.reverse 0 x
  have hc' := shlList_carry_lt s hs rest.reverse 0 (Nat.two_pow_pos s) hsmw
  generalize shlList s 0 (rest.reverse ++ [x]) = q at *
  generalize hq0 : shlList s 0 rest.reverse = q0 at *
  have hxB : x < Bb := by
    rw [← hx0, List.getD_eq_getElem?_getD, List.getElem?_eq_getElem hlenA]
    exact g.wf.small _ (List.getElem_mem hlenA)
  -- the carry out of the window is below 2^s ≤ 10⁹
  have hq2 : q.2 < BBASE := by
    rw [s2]
    apply (Nat.div_lt_iff_lt_mul Bb_pos).mpr
    have : (x + 1) * pow2 s ≤ Bb * pow2 s := Nat.mul_le_mul_right _ hxB
    have e : (x + 1) * pow2 s = x * pow2 s + pow2 s := by grind
    have e2 : Bb * pow2 s ≤ Bb * BBASE := Nat.mul_le_mul_left _ hs
    show x * pow2 s + q0.2 < BBASE * Bb
    have e3 : BBASE * Bb = Bb * BBASE := Nat.mul_comm _ _
    omega
  unfold TightUp
  by_cases hq : q.2 = 0
  · rw [hq, shlTail_zero_carry] at h
    simp only [Option.some.injEq] at h
    rw [← h]
    simp only [List.reverse_reverse, List.reverse_nil, List.append_nil, List.length_nil, Nat.sub_zero]
    rw [s1, List.reverse_append]
    simp only [List.reverse_cons, List.reverse_nil, List.nil_append, List.singleton_append]
    have : (pre ++ (x * pow2 s + q0.2) % BBASE :: q0.1.reverse ++ post) =
        pre ++ ((x * pow2 s + q0.2) % BBASE :: (q0.1.reverse ++ post)) := by simp
    rw [this, ← hprelen, getD_at_length]
    -- no carry out: the limb holds x·2^s + c' ≥ x > 0
    have hdiv : (x * pow2 s + q0.2) / BBASE = 0 := by rw [← s2]; exact hq
    have hlt : x * pow2 s + q0.2 < BBASE := by
      rcases Nat.lt_or_ge (x * pow2 s + q0.2) BBASE with hh | hh
      · exact hh
      · have := (Nat.le_div_iff_mul_le (by decide : 0 < BBASE)).mpr (by simpa using hh : 1 * BBASE ≤ x * pow2 s + q0.2)
        omega
    rw [Nat.mod_eq_of_lt hlt]
    have : 1 * 1 ≤ x * pow2 s := Nat.mul_le_mul (by omega) (Nat.two_pow_pos s)
    omega
  · -- a carry leaves the window: it is stored in the limb above, which was zero
    cases hpr : pre.reverse with
    | nil =>
      rw [hpr] at h
      simp only [shlTail, hq, if_false] at h
      cases h
    | cons y t =>
      have hy0 : y = 0 := hpre0 y (by
        have : y ∈ pre.reverse := by rw [hpr]; simp
        exact List.mem_reverse.mp this)
      rw [hpr, hy0, shlTail_zero_head s q.2 t hq2] at h
      simp only [hq, if_false, Option.some.injEq] at h
      rw [← h]
      simp only [List.length_cons, List.length_nil, List.reverse_cons, List.reverse_nil, List.nil_append]
      have hplen : t.length + 1 = A.msd := by
        have := congrArg List.length hpr
        simp only [List.length_reverse, List.length_cons] at this
        omega
      have hm : A.msd - (0 + 1) = t.reverse.length := by rw [List.length_reverse]; omega
      rw [hm]
      have : t.reverse ++ [q.2] ++ q.1.reverse ++ post = t.reverse ++ (q.2 :: (q.1.reverse ++ post)) := by simp
      rw [this, getD_at_length]
      exact hq


/-! ### the shift phase of to_digits keeps `msd` tight -/

theorem limbsOfNat_top : ∀ (fuel n : Nat), n ≠ 0 → n < Bb ^ fuel →
    (limbsOfNat fuel n).reverse.getD 0 0 ≠ 0 ∧ limbsOfNat fuel n ≠ [] := by
  intro fuel
  induction fuel with
  | zero => intro n h0 h; simp at h; omega
  | succ f ih =>
    intro n h0 h
    rw [limbsOfNat, if_neg h0]
    refine ⟨?_, by simp⟩
    by_cases hq : n / BBASE = 0
    · have hlt : n < BBASE := by
        rcases Nat.lt_or_ge n BBASE with hh | hh
        · exact hh
        · have := (Nat.le_div_iff_mul_le (by decide : 0 < BBASE)).mpr (by simpa using hh : 1 * BBASE ≤ n)
          omega
      have : limbsOfNat f (n / BBASE) = [] := by
        rw [hq]
        cases f with
        | zero => rfl
        | succ g => simp [limbsOfNat]
      rw [this, Nat.mod_eq_of_lt hlt]
      simpa using h0
    · have hq2 : n / BBASE < Bb ^ f := by
        apply (Nat.div_lt_iff_lt_mul Bb_pos).mpr
        rw [Nat.pow_succ] at h
        exact h
      obtain ⟨a1, a2⟩ := ih (n / BBASE) hq hq2
      have hlen : 0 < (limbsOfNat f (n / BBASE)).reverse.length := by
        rw [List.length_reverse]
        cases hl : limbsOfNat f (n / BBASE) with
        | nil => exact absurd hl a2
        | cons _ _ => simp
      rw [List.reverse_cons, getD_append_l _ _ _ hlen]
      exact a1

theorem pow2_min_le (k : Nat) : pow2 (min BDIG_PER_DIG k) ≤ BBASE := by
  have h1 : min BDIG_PER_DIG k ≤ 28 := Nat.min_le_left _ _
  have h2 : pow2 (min BDIG_PER_DIG k) ≤ 2 ^ 28 := Nat.pow_le_pow_right (by decide) h1
  have h3 : (2 : Nat) ^ 28 ≤ BBASE := by decide
  omega

theorem digInit_tight (m : Nat) (hm : m ≠ 0) (hb : bitLen m ≤ 53) : TightUp (digInit m) := by
  obtain ⟨hlt, hne⟩ := frac_lt m hm hb
  obtain ⟨t1, t2⟩ := limbsOfNat_top 8 _ hne hlt
  obtain ⟨_, _, a3⟩ := limbsOfNat_spec 8 _ hlt
  unfold TightUp digInit
  simp only
  generalize hfl0 : (limbsOfNat 8 (m * pow2 (53 - bitLen m))).reverse = fl at *
  have hfl : fl ≠ [] := by
    intro e
    apply t2
    rw [e] at hfl0
    exact List.reverse_eq_nil_iff.mp hfl0
  cases fl with
  | nil => exact absurd rfl hfl
  | cons y r =>
    have : List.replicate (UNITS_DIGIT + 1 - (y :: r).length) 0 ++ (y :: r) ++ List.replicate (DIG_PER_DBL - UNITS_DIGIT) 0
        = List.replicate (UNITS_DIGIT + 1 - (y :: r).length) 0 ++ (y :: (r ++ List.replicate (DIG_PER_DBL - UNITS_DIGIT) 0)) := by simp
    rw [this]
    have hl : UNITS_DIGIT + 1 - (y :: r).length = (List.replicate (UNITS_DIGIT + 1 - (y :: r).length) 0).length := by simp
    conv => lhs; arg 2; rw [hl]
    rw [getD_at_length]
    simpa using t1

theorem digShr_tight : ∀ (fuel : Nat) (A : Arr) (k : Nat) (A' : Arr), GoodD A → TightUp A → digShr fuel A k = some A' →
    TightUp A' := by
  intro fuel
  induction fuel with
  | zero => intro A k A' _ ht h; simp only [digShr, Option.some.injEq] at h; rw [← h]; exact ht
  | succ f ih =>
    intro A k A' g ht h
    rw [digShr] at h
    by_cases h0 : k = 0
    · rw [if_pos h0] at h; simp only [Option.some.injEq] at h; rw [← h]; exact ht
    · rw [if_neg h0] at h
      cases hp : shrPass 1 (min BDIG_PER_DIG k) A with
      | none => rw [hp] at h; cases h
      | some A1 =>
        rw [hp] at h
        simp only at h
        obtain ⟨g1, _⟩ := shrPass_good 1 _ A A1 hp g
        exact ih A1 _ A' g1 (shrPass_tightUp 1 _ A A1 hp g) h

theorem digShl_tight : ∀ (fuel : Nat) (A : Arr) (k : Nat) (A' : Arr), GoodD A → TightUp A → digShl fuel A k = some A' →
    TightUp A' := by
  intro fuel
  induction fuel with
  | zero => intro A k A' _ ht h; simp only [digShl, Option.some.injEq] at h; rw [← h]; exact ht
  | succ f ih =>
    intro A k A' g ht h
    rw [digShl] at h
    by_cases h0 : k = 0
    · rw [if_pos h0] at h; simp only [Option.some.injEq] at h; rw [← h]; exact ht
    · rw [if_neg h0] at h
      cases hp : shlPass (min BDIG_PER_DIG k) A with
      | none => rw [hp] at h; cases h
      | some A1 =>
        rw [hp] at h
        simp only at h
        obtain ⟨g1, _, _⟩ := shlPass_good _ A A1 hp g
        exact ih A1 _ A' g1 (shlPass_tightUp _ (pow2_min_le k) A A1 hp g ht) h

/-- after the shift phase of to_digits `msd` is the index of a non-zero limb -/
theorem digShift_tight (m : Nat) (e : Int) (A : Arr) (hm : m ≠ 0) (hb : bitLen m ≤ 53) (h : digShift m e = some A) :
    TightUp A := by
  obtain ⟨g0, _⟩ := digInit_spec m hm hb
  have t0 := digInit_tight m hm hb
  unfold digShift at h
  split at h
  · exact digShr_tight 64 _ _ A g0 t0 h
  · exact digShl_tight 64 _ _ A g0 t0 h

end CifModel.Lemmas.NumbLimbTight
