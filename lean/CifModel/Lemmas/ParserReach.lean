import CifModel.Model.Parser
/-
  Lemmas/ParserReach (group gC) — the deterministic walk of the scanner inside the productions, as a relation between parser states.

  `Reach o s k s'`: from `s`, `k` times (next_token, silently under every policy; CONSUME_TOKEN) leads to `s'`.

  Purpose: the token-level statements of Lemmas/ParserStructure / ParserDefect* describe the state at which something happens by
  what it still FEEDS (`Feeds o s' rest`), which does not determine the state (two states that differ by consumed whitespace feed
  the same tokens) and hence not its line.  `Reach o s k s'` does: the walk is a function of `s` and `k` (`Reach.det`), and
  Lemmas/DefectChars computes line and column of the state it reaches over an accepted text (`reach_chunks`).  A statement that
  exposes `Reach o s k s'` for the state `s'` at which it reports (and `r.line = s'.scan.line` or the line of the pending token)
  therefore fixes the LINE of the report at character level.

  This file imports the parser model only.
-/
namespace CifModel.Model.Parser
open CifModel CifModel.Model CifModel.Model.Lexer

/-- `k` times: next_token (silently, under every policy), CONSUME_TOKEN -/
inductive Reach (o : Opts) : PS → Nat → PS → Prop
  | zero (s : PS) : Reach o s 0 s
  | step {s s1 s' : PS} {t : Tok} {k : Nat} (hn : ∀ pol w, nextTok o s pol w = .ok (t, s1) w) (ht : s1.tok = some t)
      (hr : Reach o (consume s1) k s') : Reach o s (k + 1) s'

/-- the walk is a function of its start and its length -/
theorem Reach.det {o : Opts} {s s' s'' : PS} {k : Nat} (h1 : Reach o s k s') (h2 : Reach o s k s'') : s' = s'' := by
  induction h1 with
  | zero s => cases h2; rfl
  | step hn ht hr ih =>
    cases h2 with
    | step hn2 ht2 hr2 =>
      have e := (hn acceptAll default).symm.trans (hn2 acceptAll default)
      simp only [PRes.ok.injEq, Prod.mk.injEq] at e
      obtain ⟨⟨_, e2⟩, _⟩ := e
      subst e2
      exact ih hr2

theorem Reach.trans {o : Opts} {s s' s'' : PS} {k m : Nat} (h1 : Reach o s k s') (h2 : Reach o s' m s'') :
    Reach o s (k + m) s'' := by
  induction h1 with
  | zero s => simpa using h2
  | step hn ht hr ih =>
    rw [Nat.add_right_comm]
    exact Reach.step hn ht (ih h2)

/-- one more step at the end -/
theorem Reach.snoc {o : Opts} {s s1 s2 : PS} {t : Tok} {k : Nat} (h : Reach o s k s1)
    (hn : ∀ pol w, nextTok o s1 pol w = .ok (t, s2) w) (ht : s2.tok = some t) : Reach o s (k + 1) (consume s2) :=
  h.trans (Reach.step hn ht (Reach.zero _))

end CifModel.Model.Parser
