import CifModel.Model.HeapHist
import CifModel.Lemmas.Value
import CifModel.Lemmas.HeapMap
import CifModel.Lemmas.HeapPacket
import CifModel.Lemmas.HeapClone
/-
  Lemmas for operation histories on the heap (Model/HeapHist), part 1: objects and paths.

  * `compact_eq` — tabulating the cell map of a well-formed heap is the identity;
  * `Rep_step` / `Obj_path` — "Rep with a hole": a member reached through a path is itself a represented object whose
    footprint lies inside the root's, and any change confined to the member (new fields in the same block, a new footprint
    made of old member blocks and blocks outside the root) re-assembles into a representation of the root with exactly that
    member replaced (`Value.update`), with the footprint changed accordingly.  A path without a member does not resolve on
    the heap either.
-/
namespace CifModel.Model.Hist
open CifModel CifModel.Model.Heap
open CifModel.Model.Value (Step Entry resolve update child setChild mapFind mapSet mapReplace mapErase insertAt removeAt getAt
  setAt defaultOf)

/-! ### compact -/

theorem compact_eq (h : Heap) (hw : h.WF) : compact h = h := by
  cases h with
  | mk cell next =>
    simp only [compact]
    congr 1
    funext a
    by_cases hlt : a < next
    · simp [hlt]
    · simp only [Array.size_map, Array.size_range, hlt, dite_false]
      exact (hw a (by simpa using hlt)).symm

/-! ### blocks that hold value fields -/

/-- same kind of block, same keys / flags: only the value fields may differ -/
def SameKind : Option Cell → Option Cell → Prop
  | some (.val _), some (.val _) => True
  | some (.entry _ k ko), some (.entry _ k' ko') => k = k' ∧ ko = ko'
  | some (.pkt _ sa), some (.pkt _ sa') => sa = sa'
  | _, _ => False

/-- a block that is a value object: free-standing or the inline value of an entry (not a packet) -/
def IsValCell : Option Cell → Prop
  | some (.val _) => True
  | some (.entry _ _ _) => True
  | _ => False

theorem getHV_congr (h g : Heap) (a : Nat) (hc : g.cell a = h.cell a) : getHV g a = getHV h a := by
  simp [getHV, hc]

theorem SameKind_refl_of_getHV {h : Heap} {a : Nat} {hv : HVal} (hg : getHV h a = some hv) : SameKind (h.cell a) (h.cell a) := by
  unfold getHV at hg
  cases hc : h.cell a with
  | none => rw [hc] at hg; cases hg
  | some c => cases c <;> simp_all [SameKind]

theorem getHV_fieldsAt {h : Heap} {a : Nat} (hc : IsValCell (h.cell a)) : fieldsAt h a = getHV h a := by
  unfold fieldsAt getHV Heap.read
  cases hca : h.cell a with
  | none => rfl
  | some c => cases c <;> simp_all [IsValCell]

theorem getHV_lt {h : Heap} (hw : h.WF) {a : Nat} {hv : HVal} (hg : getHV h a = some hv) : a < h.next := by
  unfold getHV at hg
  cases hc : h.cell a with
  | none => rw [hc] at hg; cases hg
  | some c => exact lt_of_cell hw hc

/-! ### one step -/

theorem Rep_step (h : Heap) (hv : HVal) (v : V) (F : List Nat) (s : Step) (hr : Rep h hv v F) :
    match child v s with
    | none => stepF h hv s = none
    | some c => ∃ t hvt Ft, stepF h hv s = some t ∧ getHV h t = some hvt ∧ IsValCell (h.cell t) ∧ Rep h hvt c Ft ∧ t ∉ Ft
        ∧ t ∈ F ∧ (∀ a, a ∈ Ft → a ∈ F)
        ∧ ∀ h' hvt' c' Ft', getHV h' t = some hvt' → SameKind (h.cell t) (h'.cell t) → Rep h' hvt' c' Ft' → t ∉ Ft'
            → (∀ a, a ∈ F → a ∉ Ft → a ≠ t → h'.cell a = h.cell a) → (∀ a, a ∈ Ft' → a ∈ F → a ∈ Ft)
            → ∃ v' F', setChild v s c' = some v' ∧ Rep h' hv v' F'
                ∧ ∀ a, a ∈ F' ↔ (a ∈ Ft' ∨ a = t ∨ (a ∈ F ∧ a ∉ Ft ∧ a ≠ t)) := by
  cases v with
  | unk => simp only [Rep] at hr; obtain ⟨rfl, _⟩ := hr; cases s <;> simp [child, stepF]
  | na => simp only [Rep] at hr; obtain ⟨rfl, _⟩ := hr; cases s <;> simp [child, stepF]
  | chr q t => simp only [Rep] at hr; obtain ⟨a, rfl, _⟩ := hr; cases s <;> simp [child, stepF]
  | numb q t neg d su sc =>
    simp only [Rep] at hr
    obtain ⟨a, b, _, _, _, hrest⟩ := hr
    rcases hrest with ⟨_, rfl, _⟩ | ⟨_, _, _, _, _, _, rfl, _⟩ <;> cases s <;> simp [child, stepF]
  | lst vs =>
    cases s with
    | key nk =>
      simp only [child]
      simp only [Rep] at hr
      rcases hr with ⟨_, n, rfl, _⟩ | ⟨arr, xs, cap, F1, rfl, _⟩ <;> simp [stepF]
    | idx i =>
      simp only [child, Value.getAt_eq]
      simp only [Rep] at hr
      rcases hr with ⟨rfl, n, rfl, rfl⟩ | ⟨arr, xs, cap, F1, rfl, harr, hcap, hel, hnot, rfl⟩
      · simp [stepF]
      · have hlen := RepElems_length h vs xs F1 hel
        by_cases hi : i < vs.length
        · obtain ⟨t, v, hvt, Ft, hxi, hvi, ht, hrept, htF, hsubF, htmem, hk⟩ := RepElems_replace h vs xs F1 i hel hi
          rw [hvi]
          refine ⟨t, hvt, Ft, by simp [stepF, harr, hxi], by simp [getHV, ht], by simp [IsValCell, ht], hrept, htF,
            by simp [htmem], fun a ha => by simp [hsubF a ha], ?_⟩
          intro h' hvt' c' Ft' hg hsk hrep' htF' hframe hsub
          have hct : h'.cell t = some (.val hvt') := by
            rw [ht] at hsk
            unfold getHV at hg
            cases hc : h'.cell t with
            | none => rw [hc] at hg; cases hg
            | some c =>
              rw [hc] at hg hsk
              cases c <;> simp_all [SameKind]
          have harrFt : arr ∉ Ft := fun hm => hnot (hsubF arr hm)
          have harrt : arr ≠ t := fun e => hnot (e ▸ htmem)
          obtain ⟨F1', hel', hmem'⟩ := hk h' hvt' c' Ft' hct hrep' htF'
            (fun a ha hnf hne => hframe a (by simp [ha]) hnf hne) (fun a ha hin => hsub a ha (by simp [hin]))
          refine ⟨.lst (vs.set i c'), F1' ++ [arr], by simp [setChild, hi, Value.setAt_eq], ?_, ?_⟩
          · simp only [Rep]
            refine Or.inr ⟨arr, xs, cap, F1', rfl, ?_, hcap, hel', ?_, rfl⟩
            · rw [hframe arr (by simp) harrFt harrt]; exact harr
            · intro hm
              rcases (hmem' arr).mp hm with hh | hh | hh
              · exact harrFt (hsub arr hh (by simp))
              · exact harrt hh
              · exact hnot hh.1
          · intro a
            simp only [List.mem_append, List.mem_singleton, hmem' a]
            constructor
            · rintro ((hh | hh | hh) | hh)
              · exact Or.inl hh
              · exact Or.inr (Or.inl hh)
              · exact Or.inr (Or.inr ⟨Or.inl hh.1, hh.2⟩)
              · subst hh; exact Or.inr (Or.inr ⟨Or.inr rfl, harrFt, harrt⟩)
            · rintro (hh | hh | ⟨hh | hh, h2, h3⟩)
              · exact Or.inl (Or.inl hh)
              · exact Or.inl (Or.inr (Or.inl hh))
              · exact Or.inl (Or.inr (Or.inr ⟨hh, h2, h3⟩))
              · exact Or.inr hh
        · have h1 : vs[i]? = none := by simp; omega
          have h2 : xs[i]? = none := by simp; omega
          rw [h1]
          simp [stepF, harr, h2]
  | tbl es =>
    cases s with
    | idx i =>
      simp only [child]
      simp only [Rep] at hr
      obtain ⟨ents, rfl, _⟩ := hr
      simp [stepF]
    | key nk =>
      simp only [child]
      simp only [Rep] at hr
      obtain ⟨ents, rfl, hen⟩ := hr
      rcases RepEntries_find h es ents F nk hen with ⟨hmf, hfe⟩ | ⟨e, ko, v, Fe, hmf, hfe, hre, hsubF, hk, _⟩
      · rw [hmf]; simp [stepF, hfe]
      · rw [hmf]
        obtain ⟨hv0, ka, koa, F1, he, hka, hkoa, hrep0, heF, hkaF, hkoaF, heka, hekoa, hFs⟩ := hre
        have memFe : ∀ a, a ∈ Fe ↔ (a = ka ∨ a = koa ∨ a ∈ F1 ∨ a = e) := by
          intro a
          rcases hFs with ⟨hkk, rfl⟩ | ⟨_, rfl⟩
          · subst hkk
            simp only [List.cons_append, List.mem_cons, List.mem_append, List.mem_singleton, List.not_mem_nil, or_false]
            constructor
            · rintro (h1 | h1 | h1)
              · exact Or.inl h1
              · exact Or.inr (Or.inr (Or.inl h1))
              · exact Or.inr (Or.inr (Or.inr h1))
            · rintro (h1 | h1 | h1 | h1)
              · exact Or.inl h1
              · exact Or.inl h1
              · exact Or.inr (Or.inl h1)
              · exact Or.inr (Or.inr h1)
          · simp only [List.cons_append, List.mem_cons, List.mem_append, List.mem_singleton, List.not_mem_nil, or_false]
        have heFe : e ∈ Fe := (memFe e).mpr (Or.inr (Or.inr (Or.inr rfl)))
        simp only [Option.map_some]
        refine ⟨e, hv0, F1, by simp [stepF, hfe], by simp [getHV, he], by simp [IsValCell, he], hrep0, heF,
          hsubF e heFe, fun a ha => hsubF a ((memFe a).mpr (Or.inr (Or.inr (Or.inl ha)))), ?_⟩
        intro h' hvt' c' Ft' hg hsk hrep' htF' hframe hsub
        have hce : h'.cell e = some (.entry hvt' ka koa) := by
          rw [he] at hsk
          unfold getHV at hg
          cases hc : h'.cell e with
          | none => rw [hc] at hg; cases hg
          | some c =>
            rw [hc] at hg hsk
            cases c <;> simp_all [SameKind]
        have hkaF' : ka ∉ Ft' := fun hm => hkaF (hsub ka hm (hsubF ka ((memFe ka).mpr (Or.inl rfl))))
        have hkoaF' : koa ∉ Ft' := fun hm => hkoaF (hsub koa hm (hsubF koa ((memFe koa).mpr (Or.inr (Or.inl rfl)))))
        have hcka : h'.cell ka = some (.str nk) := by
          rw [hframe ka (hsubF ka ((memFe ka).mpr (Or.inl rfl))) hkaF (fun e' => heka e'.symm)]; exact hka
        have hckoa : h'.cell koa = some (.str ko) := by
          rw [hframe koa (hsubF koa ((memFe koa).mpr (Or.inr (Or.inl rfl)))) hkoaF (fun e' => hekoa e'.symm)]; exact hkoa
        -- the entry in the new heap
        obtain ⟨Fe', hre', memFe'⟩ : ∃ Fe', RepEntry h' e nk ko c' Fe' ∧ ∀ a, a ∈ Fe' ↔ (a = ka ∨ a = koa ∨ a ∈ Ft' ∨ a = e) := by
          by_cases hkk : ka = koa
          · refine ⟨ka :: Ft' ++ [e], ⟨hvt', ka, koa, Ft', hce, hcka, hckoa, hrep', htF', hkaF', hkoaF', heka, hekoa,
              Or.inl ⟨hkk, rfl⟩⟩, ?_⟩
            intro a
            subst hkk
            simp only [List.cons_append, List.mem_cons, List.mem_append, List.mem_singleton, List.not_mem_nil, or_false]
            constructor
            · rintro (h1 | h1 | h1)
              · exact Or.inl h1
              · exact Or.inr (Or.inr (Or.inl h1))
              · exact Or.inr (Or.inr (Or.inr h1))
            · rintro (h1 | h1 | h1 | h1)
              · exact Or.inl h1
              · exact Or.inl h1
              · exact Or.inr (Or.inl h1)
              · exact Or.inr (Or.inr h1)
          · refine ⟨ka :: koa :: Ft' ++ [e], ⟨hvt', ka, koa, Ft', hce, hcka, hckoa, hrep', htF', hkaF', hkoaF', heka, hekoa,
              Or.inr ⟨hkk, rfl⟩⟩, ?_⟩
            intro a
            simp only [List.cons_append, List.mem_cons, List.mem_append, List.mem_singleton, List.not_mem_nil, or_false]
        obtain ⟨F', hen', hmem'⟩ := hk h' ko c' Fe' hre'
          (fun a ha hnf => hframe a ha (fun hm => hnf ((memFe a).mpr (Or.inr (Or.inr (Or.inl hm)))))
            (fun e' => hnf (e' ▸ heFe)))
          (fun a ha hin => by
            rcases (memFe' a).mp ha with h1 | h1 | h1 | h1
            · exact (memFe a).mpr (Or.inl h1)
            · exact (memFe a).mpr (Or.inr (Or.inl h1))
            · exact (memFe a).mpr (Or.inr (Or.inr (Or.inl (hsub a h1 hin))))
            · exact (memFe a).mpr (Or.inr (Or.inr (Or.inr h1))))
        refine ⟨.tbl (mapReplace es nk ko c'), F', by simp [setChild, hmf], by simp only [Rep]; exact ⟨ents, rfl, hen'⟩, ?_⟩
        intro a
        rw [hmem' a, memFe' a]
        constructor
        · rintro ((h1 | h1 | h1 | h1) | ⟨h1, h2⟩)
          · subst h1; exact Or.inr (Or.inr ⟨hsubF _ ((memFe _).mpr (Or.inl rfl)), hkaF, fun e' => heka e'.symm⟩)
          · subst h1; exact Or.inr (Or.inr ⟨hsubF _ ((memFe _).mpr (Or.inr (Or.inl rfl))), hkoaF, fun e' => hekoa e'.symm⟩)
          · exact Or.inl h1
          · exact Or.inr (Or.inl h1)
          · exact Or.inr (Or.inr ⟨h1, fun hm => h2 ((memFe a).mpr (Or.inr (Or.inr (Or.inl hm)))), fun e' => h2 (e' ▸ heFe)⟩)
        · rintro (h1 | h1 | ⟨h1, h2, h3⟩)
          · exact Or.inl (Or.inr (Or.inr (Or.inl h1)))
          · exact Or.inl (Or.inr (Or.inr (Or.inr h1)))
          · by_cases hin : a ∈ Fe
            · rcases (memFe a).mp hin with h4 | h4 | h4 | h4
              · exact Or.inl (Or.inl h4)
              · exact Or.inl (Or.inr (Or.inl h4))
              · exact absurd h4 h2
              · exact absurd h4 h3
            · exact Or.inr ⟨h1, hin⟩

/-! ### a path: Rep with a hole -/

theorem Obj_path (h : Heap) : ∀ (p : List Step) (a : Nat) (hv : HVal) (v : V) (F : List Nat),
    getHV h a = some hv → Rep h hv v F → a ∉ F →
    match resolve v p with
    | none => resolveF h hv p a = none
    | some c => ∃ t hvt Ft, resolveF h hv p a = some t ∧ getHV h t = some hvt ∧ Rep h hvt c Ft ∧ t ∉ Ft
        ∧ (∀ x, x ∈ Ft → x ∈ F) ∧ (p = [] → t = a ∧ hvt = hv ∧ Ft = F) ∧ (p ≠ [] → t ∈ F ∧ IsValCell (h.cell t))
        ∧ ∀ h' hvt' c' Ft', getHV h' t = some hvt' → SameKind (h.cell t) (h'.cell t) → Rep h' hvt' c' Ft' → t ∉ Ft' → a ∉ Ft'
            → (∀ x, (x = a ∨ x ∈ F) → x ∉ Ft → x ≠ t → h'.cell x = h.cell x) → (∀ x, x ∈ Ft' → x ∈ F → x ∈ Ft)
            → ∃ v' hv' F', update v p c' = some v' ∧ getHV h' a = some hv' ∧ SameKind (h.cell a) (h'.cell a)
                ∧ Rep h' hv' v' F' ∧ a ∉ F'
                ∧ ∀ x, (x = a ∨ x ∈ F') ↔ (x ∈ Ft' ∨ x = t ∨ ((x = a ∨ x ∈ F) ∧ x ∉ Ft ∧ x ≠ t)) := by
  intro p
  induction p with
  | nil =>
    intro a hv v F hg hr haF
    simp only [resolve]
    refine ⟨a, hv, F, rfl, hg, hr, haF, fun _ hx => hx, fun _ => ⟨rfl, rfl, rfl⟩, fun hne => absurd rfl hne, ?_⟩
    intro h' hvt' c' Ft' hg' hsk hrep' htF' _ _ _
    refine ⟨c', hvt', Ft', rfl, hg', hsk, hrep', htF', ?_⟩
    intro x
    constructor
    · rintro (hx | hx)
      · exact Or.inr (Or.inl hx)
      · exact Or.inl hx
    · rintro (hx | hx | ⟨hx | hx, h2, h3⟩)
      · exact Or.inr hx
      · exact Or.inl hx
      · exact absurd hx h3
      · exact absurd hx h2
  | cons s p ih =>
    intro a hv v F hg hr haF
    have hs := Rep_step h hv v F s hr
    simp only [resolve]
    cases hch : child v s with
    | none =>
      rw [hch] at hs
      simp [resolveF, hs]
    | some c1 =>
      rw [hch] at hs
      obtain ⟨t1, hvt1, Ft1, hst, hg1, hval1, hrep1, ht1F1, ht1F, hsub1, hk1⟩ := hs
      have ih1 := ih t1 hvt1 c1 Ft1 hg1 hrep1 ht1F1
      simp only []
      cases hres : resolve c1 p with
      | none =>
        rw [hres] at ih1
        simp [resolveF, hst, hg1, ih1]
      | some c =>
        rw [hres] at ih1
        obtain ⟨t, hvt, Ft, hrf, hgt, hrept, htFt, hsubt, hnil, hcons, hk⟩ := ih1
        have ht_in : t ∈ F ∧ IsValCell (h.cell t) := by
          by_cases hp : p = []
          · obtain ⟨e1, _, _⟩ := hnil hp
            subst e1
            exact ⟨ht1F, hval1⟩
          · exact ⟨hsub1 t (hcons hp).1, (hcons hp).2⟩
        have ht_t1 : t = t1 ∨ t ∈ Ft1 := by
          by_cases hp : p = []
          · exact Or.inl (hnil hp).1
          · exact Or.inr (hcons hp).1
        have hat : a ≠ t := fun e => haF (e ▸ ht_in.1)
        have hat1 : a ≠ t1 := fun e => haF (e ▸ ht1F)
        refine ⟨t, hvt, Ft, by simp [resolveF, hst, hg1, hrf], hgt, hrept, htFt, fun x hx => hsub1 x (hsubt x hx),
          (fun hne => by cases hne), fun _ => ht_in, ?_⟩
        intro h' hvt' c' Ft' hg' hsk hrep' htF' haF' hframe hsub
        have ht1F' : t1 ∉ Ft' := fun hm => ht1F1 (hsubt t1 (hsub t1 hm ht1F))
        obtain ⟨c1', hv1', F1', hup1, hg1', hsk1, hrep1', ht1F1', hmem1⟩ := hk h' hvt' c' Ft' hg' hsk hrep' htF' ht1F'
          (fun x hx hnf hne => hframe x (Or.inr (by rcases hx with rfl | hx; exact ht1F; exact hsub1 x hx)) hnf hne)
          (fun x hx hin => hsub x hx (hsub1 x hin))
        have ht1_ne_t_or : ∀ x, x ∈ F1' → x ≠ t1 := fun x hx e => ht1F1' (e ▸ hx)
        have hF1'sub : ∀ x, x ∈ F1' → x ∈ F → x ∈ Ft1 := by
          intro x hx hin
          rcases (hmem1 x).mp (Or.inr hx) with h1 | h1 | ⟨h1 | h1, _, _⟩
          · exact hsubt x (hsub x h1 hin)
          · rcases ht_t1 with e | hh
            · exact absurd (h1.trans e) (ht1_ne_t_or x hx)
            · exact h1 ▸ hh
          · exact absurd h1 (ht1_ne_t_or x hx)
          · exact h1
        have hsk1' : SameKind (h.cell t1) (h'.cell t1) := hsk1
        obtain ⟨v', F', hsc, hrepv, hmemv⟩ := hk1 h' hv1' c1' F1' hg1' hsk1' hrep1' ht1F1'
          (fun x hx hnf hne => hframe x (Or.inr hx) (fun hm => hnf (hsubt x hm))
            (fun e => by rcases ht_t1 with e1 | hh; exact hne (e.trans e1); exact hnf (e ▸ hh)))
          hF1'sub
        have hca : h'.cell a = h.cell a := hframe a (Or.inl rfl) (fun hm => haF (hsub1 a (hsubt a hm))) hat
        have haF'' : a ∉ F' := by
          intro hm
          rcases (hmemv a).mp hm with h1 | h1 | ⟨h1, _, _⟩
          · rcases (hmem1 a).mp (Or.inr h1) with h2 | h2 | ⟨h2 | h2, _, _⟩
            · exact haF' h2
            · exact hat h2
            · exact hat1 h2
            · exact haF (hsub1 a h2)
          · exact hat1 h1
          · exact haF h1
        refine ⟨v', hv, F', by simp [update, hch, hup1, hsc], by rw [getHV_congr h h' a hca]; exact hg,
          by rw [hca]; exact SameKind_refl_of_getHV hg, hrepv, haF'', ?_⟩
        intro x
        constructor
        · rintro (hx | hx)
          · subst hx
            exact Or.inr (Or.inr ⟨Or.inl rfl, fun hm => haF (hsub1 _ (hsubt _ hm)), hat⟩)
          · rcases (hmemv x).mp hx with h1 | h1 | ⟨h1, h2, h3⟩
            · rcases (hmem1 x).mp (Or.inr h1) with h4 | h4 | ⟨h4 | h4, h5, h6⟩
              · exact Or.inl h4
              · exact Or.inr (Or.inl h4)
              · exact Or.inr (Or.inr ⟨Or.inr (h4 ▸ ht1F), h5, h6⟩)
              · exact Or.inr (Or.inr ⟨Or.inr (hsub1 x h4), h5, h6⟩)
            · by_cases hxt : x = t
              · exact Or.inr (Or.inl hxt)
              · exact Or.inr (Or.inr ⟨Or.inr (h1 ▸ ht1F), fun hm => ht1F1 (h1 ▸ hsubt x hm), hxt⟩)
            · exact Or.inr (Or.inr ⟨Or.inr h1, fun hm => h2 (hsubt x hm),
                fun e => by rcases ht_t1 with e1 | hh; exact h3 (e.trans e1); exact h2 (e ▸ hh)⟩)
        · rintro (hx | hx | ⟨hx | hx, h2, h3⟩)
          · -- in the new member footprint
            have : x = t1 ∨ x ∈ F1' := (hmem1 x).mpr (Or.inl hx)
            rcases this with e | hh
            · exact absurd (e ▸ hx) ht1F'
            · exact Or.inr ((hmemv x).mpr (Or.inl hh))
          · have : x = t1 ∨ x ∈ F1' := (hmem1 x).mpr (Or.inr (Or.inl hx))
            rcases this with e | hh
            · exact Or.inr ((hmemv x).mpr (Or.inr (Or.inl e)))
            · exact Or.inr ((hmemv x).mpr (Or.inl hh))
          · exact Or.inl hx
          · by_cases hx1 : x = t1
            · exact Or.inr ((hmemv x).mpr (Or.inr (Or.inl hx1)))
            · by_cases hxF1 : x ∈ Ft1
              · have : x = t1 ∨ x ∈ F1' := (hmem1 x).mpr (Or.inr (Or.inr ⟨Or.inr hxF1, h2, h3⟩))
                rcases this with e | hh
                · exact absurd e hx1
                · exact Or.inr ((hmemv x).mpr (Or.inl hh))
              · exact Or.inr ((hmemv x).mpr (Or.inr (Or.inr ⟨hx, hxF1, hx1⟩)))

end CifModel.Model.Hist
