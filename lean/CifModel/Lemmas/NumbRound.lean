import CifModel.Model.Numb
import CifModel.Spec.Rounding
/-
  Lemmas about round-half-even by integer arithmetic (the core of C10): the model's `rhe` / `roundToInt` against the
  specification's `roundHalfEven`, the half-unit error bound, and invariance under scaling of the fraction.
-/
namespace CifModel.Lemmas.NumbRound
open CifModel.Model.Numb CifModel.Spec.Rounding

theorem rhe_eq_spec (X Y : Nat) : rhe X Y = roundHalfEven X Y := by
  unfold rhe roundHalfEven
  simp only
  by_cases h1 : 2 * (X % Y) > Y
  · have : ¬ 2 * (X % Y) < Y := by omega
    have h3 : ¬ 2 * (X % Y) = Y := by omega
    simp [h1, this, h3]
  · by_cases h2 : 2 * (X % Y) = Y
    · have : ¬ 2 * (X % Y) < Y := by omega
      simp only [h1, h2, this, if_false, if_true]
      by_cases hp : X / Y % 2 = 1
      · have : ¬ X / Y % 2 = 0 := by omega
        simp [hp]
      · have : X / Y % 2 = 0 := by omega
        simp [this]
    · have : 2 * (X % Y) < Y := by omega
      simp [h1, h2, this]

/-- `round_to_int` as written (split off the parity, round the parity, add back) is round-half-even -/
theorem roundToInt_eq (num den : Nat) (hden : 0 < den) : roundToInt num den = roundHalfEven num den := by
  unfold roundToInt roundHalfEven
  simp only
  have hr : num % den < den := Nat.mod_lt _ hden
  generalize num / den = q at *
  generalize num % den = r at *
  by_cases h0 : r = 0
  · simp [h0, hden]
  · simp only [h0, if_false]
    have hpar : q % 2 = 0 ∨ q % 2 = 1 := by omega
    by_cases h1 : den < 2 * r
    · have h2 : ¬ 2 * r < den := by omega
      have h3 : ¬ 2 * r = den := by omega
      simp only [h1, h2, h3, if_true, if_false]
      omega
    · by_cases h2 : 2 * r = den
      · have h3 : ¬ 2 * r < den := by omega
        simp only [h1, h2, h3, if_true, if_false]
        rcases hpar with hp | hp
        · simp [hp]
        · simp [hp]; omega
      · have h3 : 2 * r < den := by omega
        simp only [h1, h2, h3, if_true, if_false]
        omega

/-- the error bound: the result is within half a unit, and on an exact half it is even -/
theorem roundHalfEven_close (X Y : Nat) (hY : 0 < Y) :
    (2 * (X - roundHalfEven X Y * Y) ≤ Y ∧ 2 * (roundHalfEven X Y * Y - X) ≤ Y) ∧
    ((2 * (X - roundHalfEven X Y * Y) = Y ∨ 2 * (roundHalfEven X Y * Y - X) = Y) → roundHalfEven X Y % 2 = 0) := by
  have hdm : Y * (X / Y) + X % Y = X := Nat.div_add_mod X Y
  have hr : X % Y < Y := Nat.mod_lt X hY
  unfold roundHalfEven
  simp only
  generalize hq : X / Y = q at *
  generalize hrr : X % Y = r at *
  have hmul : q * Y = Y * q := Nat.mul_comm q Y
  have hsucc : (q + 1) * Y = Y * q + Y := by rw [Nat.add_mul, Nat.one_mul, hmul]
  split
  · rw [hmul]; constructor
    · constructor <;> omega
    · intro h; omega
  · split
    · split
      · rw [hmul]; constructor
        · constructor <;> omega
        · intro _; omega
      · rw [hsucc]; constructor
        · constructor <;> omega
        · intro _; omega
    · rw [hsucc]; constructor
      · constructor <;> omega
      · intro h; omega

theorem roundHalfEven_mul_right (X Y k : Nat) (hk : 0 < k) : roundHalfEven (X * k) (Y * k) = roundHalfEven X Y := by
  unfold roundHalfEven
  simp only
  rw [Nat.mul_div_mul_right _ _ hk, Nat.mul_mod_mul_right]
  have e1 : 2 * (X % Y * k) = (2 * (X % Y)) * k := by rw [Nat.mul_assoc]
  rw [e1]
  have a1 : ((2 * (X % Y)) * k < Y * k) ↔ (2 * (X % Y) < Y) := Nat.mul_lt_mul_right hk
  have a2 : ((2 * (X % Y)) * k = Y * k) ↔ (2 * (X % Y) = Y) := by
    constructor
    · intro h; exact Nat.eq_of_mul_eq_mul_right hk h
    · intro h; rw [h]
  simp only [a1, a2]

/-- two presentations of the same fraction round alike -/
theorem roundHalfEven_cross (a b c d : Nat) (hb : 0 < b) (hd : 0 < d) (h : a * d = c * b) :
    roundHalfEven a b = roundHalfEven c d := by
  rw [← roundHalfEven_mul_right a b d hd, ← roundHalfEven_mul_right c d b hb, h, Nat.mul_comm b d]

end CifModel.Lemmas.NumbRound
