import CifModel.Lemmas.AnalyzeStats
import CifModel.Lemmas.AnalyzeReserved
/-
  Lemmas for C18_set_unquoted_iff, C18_prefers_simple, C18_delim_admissible.
-/
namespace CifModel.Lemmas.Analyze
open CifModel CifModel.Model CifModel.Spec

theorem noDisallowed_iff (s : Str) : noDisallowed s = true ↔ ∀ c ∈ s, ¬ wsOrBracket c := by
  simp only [noDisallowed, List.all_eq_true, wsOrBracket]
  constructor
  · intro h c hc; have := h c hc; simp at this; simp [this]
  · intro h c hc; have := h c hc; simp at this; simp [this]

/-- for a non-empty NUL-free text: "not reserved and free of blanks / terminators / brackets" is the CIF 2.0 rule -/
theorem unquotable_iff (s : Str) (h0 : 0 ∉ s) (hne : s ≠ []) :
    (isReserved s = false ∧ noDisallowed s = true) ↔ cif2WsDelimitable s := by
  have hr := isReserved_iff s h0
  rw [noDisallowed_iff]
  unfold cif2WsDelimitable
  constructor
  · rintro ⟨h1, h2⟩
    have hnr : ¬ reservedForm s := fun h => by rw [hr.2 h] at h1; cases h1
    refine ⟨hne, ?_, h2, fun h => hnr (Or.inr h)⟩
    intro c hc hl; exact hnr (Or.inl ⟨c, hc, hl⟩)
  · rintro ⟨_, h1, h2, h3⟩
    refine ⟨?_, h2⟩
    cases hb : isReserved s with
    | false => rfl
    | true =>
      rcases hr.1 hb with ⟨c, hc, hl⟩ | h
      · exact absurd hl (h1 c hc)
      · exact absurd h h3

/-- counters of a string without CR / LF -/
theorem counters_single (s : Str) (h : ∀ c ∈ s, c ≠ 10 ∧ c ≠ 13) : (counters s).numLines = 1 ∧ (counters s).maxLine = s.length := by
  obtain ⟨_, h2, _, _, h5, _⟩ := counters_stats s s [] (splitLines_single s h)
  exact ⟨by simpa using h2, by simpa [maxLen] using h5⟩

theorem cnt_zero (s : Str) (c : Nat) : cnt s c = 0 ↔ c ∉ s := by
  unfold cnt; exact List.count_eq_zero

end CifModel.Lemmas.Analyze
