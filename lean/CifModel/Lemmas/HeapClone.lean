import CifModel.Model.HeapClone
import CifModel.Lemmas.HeapPacket
/-
  Lemmas/HeapClone (group gG, property C19): the address-level clone READS what the source represents.

  `cloneH_build`: on a represented source (`Rep h hv v F`) the clone that follows the source's pointers computes exactly
  `buildVal h v` — the copy built from the pure value `v`.  Since `v` occurs on the right only through `Rep`, this is the
  statement "the clone denotes the value the source denotes"; everything proved about `buildVal` / `buildNew` (fresh
  blocks, disjoint from the source, source untouched, release restores the heap) transfers to the real clone.
-/
namespace CifModel.Model.Heap
open CifModel

theorem Rep_ext {h g : Heap} (e : Ext h g) (v : V) (hv : HVal) (F : List Nat) (hF : ∀ a, a ∈ F → a < h.next)
    (hr : Rep h hv v F) : Rep g hv v F := Rep_congr h g v hv F (fun a ha => e.frame a (hF a ha)) hr

theorem RepElems_ext {h g : Heap} (e : Ext h g) (vs : List V) (xs : List Nat) (F : List Nat) (hF : ∀ a, a ∈ F → a < h.next)
    (hr : RepElems h xs vs F) : RepElems g xs vs F := RepElems_congr h g vs xs F (fun a ha => e.frame a (hF a ha)) hr

theorem RepEntries_ext {h g : Heap} (e : Ext h g) (es : List (Str × Str × V)) (ents : List Nat) (F : List Nat)
    (hF : ∀ a, a ∈ F → a < h.next) (hr : RepEntries h ents es F) : RepEntries g ents es F :=
  RepEntries_congr h g es ents F (fun a ha => e.frame a (hF a ha)) hr

mutual
  theorem cloneH_build (v : V) (h : Heap) (hw : h.WF) (hv : HVal) (F : List Nat) (fuel : Nat) (hr : Rep h hv v F)
      (hF : ∀ a, a ∈ F → a < h.next) (hf : need v ≤ fuel) : cloneH fuel h hv = some (buildVal h v) := by
    cases fuel with
    | zero => cases v <;> simp [need] at hf
    | succ f =>
      cases v with
      | unk => simp only [Rep] at hr; obtain ⟨rfl, rfl⟩ := hr; simp [cloneH, buildVal]
      | na => simp only [Rep] at hr; obtain ⟨rfl, rfl⟩ := hr; simp [cloneH, buildVal]
      | chr q t =>
        simp only [Rep] at hr
        obtain ⟨a, rfl, hc, rfl⟩ := hr
        simp [cloneH, read, hc, buildVal]
      | numb q t neg d su sc =>
        simp only [Rep] at hr
        obtain ⟨a, b, hab, ha, hb, hrest⟩ := hr
        rcases hrest with ⟨rfl, rfl, rfl⟩ | ⟨s, c, rfl, hca, hcb, hc, rfl, rfl⟩
        · simp [cloneH, read, ha, hb, buildVal]
        · simp [cloneH, read, ha, hb, hc, buildVal]
      | lst vs =>
        simp only [Rep] at hr
        rcases hr with ⟨rfl, n, rfl, rfl⟩ | ⟨arr, xs, cap, F1, rfl, harr, hcap, hel, hnot, rfl⟩
        · simp [cloneH, buildVal, buildElems]
        · have hE := cloneElems_build vs h hw xs F1 f hel (fun a ha => hF a (by simp [ha])) (by simp [need] at hf; omega)
          generalize hbe : buildElems h vs = r at hE
          obtain ⟨ys, h1⟩ := r
          simp [cloneH, read, harr, hE, buildVal, hbe]
      | tbl es =>
        simp only [Rep] at hr
        obtain ⟨ents, rfl, hen⟩ := hr
        have hE := cloneEntries_build es h hw ents F f hen hF (by simp [need] at hf; omega)
        generalize hbe : buildEntries h es = r at hE
        obtain ⟨ys, h1⟩ := r
        simp [cloneH, hE, buildVal, hbe]
  theorem cloneElems_build (vs : List V) (h : Heap) (hw : h.WF) (xs : List Nat) (F : List Nat) (fuel : Nat)
      (hr : RepElems h xs vs F) (hF : ∀ a, a ∈ F → a < h.next) (hf : needList vs + 1 ≤ fuel) :
      cloneElems fuel h xs = some (buildElems h vs) := by
    cases fuel with
    | zero => omega
    | succ f =>
      cases vs with
      | nil =>
        simp only [RepElems] at hr
        obtain ⟨rfl, rfl⟩ := hr
        simp [cloneElems, buildElems]
      | cons v vs =>
        simp only [RepElems] at hr
        obtain ⟨x, xs', hvx, F1, F2, rfl, hx, hrep, hrest, hxF, hdis, rfl⟩ := hr
        have h1' := cloneH_build v h hw hvx F1 f hrep (fun a ha => hF a (by simp [ha])) (by simp [needList] at hf; omega)
        generalize hb1 : buildVal h v = r1 at h1'
        obtain ⟨hv', g1⟩ := r1
        obtain ⟨e1, _⟩ := buildVal_spec v h hw hv' g1 hb1
        have e2 := Ext.alloc g1 (.val hv') e1.wf
        have e12 := e1.trans e2
        generalize hb2 : alloc g1 (.val hv') = r2 at e2 e12
        obtain ⟨y, g2⟩ := r2
        simp only at e2 e12
        have hF2 : ∀ a, a ∈ F2 → a < h.next := fun a ha => hF a (by simp [ha])
        have hrest2 : RepElems g2 xs' vs F2 := RepElems_ext e12 vs xs' F2 hF2 hrest
        have h2' := cloneElems_build vs g2 e12.wf xs' F2 f hrest2 (fun a ha => Nat.lt_of_lt_of_le (hF2 a ha) e12.le)
          (by simp [needList] at hf; omega)
        generalize hb3 : buildElems g2 vs = r3 at h2'
        obtain ⟨ys, g3⟩ := r3
        simp [cloneElems, read, hx, h1', hb2, h2', buildElems, hb1, hb3]
  theorem cloneEntries_build (es : List (Str × Str × V)) (h : Heap) (hw : h.WF) (ents : List Nat) (F : List Nat) (fuel : Nat)
      (hr : RepEntries h ents es F) (hF : ∀ a, a ∈ F → a < h.next) (hf : needEntries es + 1 ≤ fuel) :
      cloneEntries fuel h ents = some (buildEntries h es) := by
    cases fuel with
    | zero => omega
    | succ f =>
      cases es with
      | nil =>
        simp only [RepEntries] at hr
        obtain ⟨rfl, rfl⟩ := hr
        simp [cloneEntries, buildEntries]
      | cons e es =>
        obtain ⟨k, ko, v⟩ := e
        simp only [RepEntries] at hr
        obtain ⟨e, ents', hvx, ka, koa, F1, F2, rfl, he, hka, hkoa, hrep, hrest, heF, hkaF, hkoaF, heka, hekoa, hFs⟩ := hr
        have hsub : (∀ a, a ∈ F1 → a ∈ F) ∧ (∀ a, a ∈ F2 → a ∈ F) := by
          rcases hFs with ⟨_, _, rfl⟩ | ⟨_, _, rfl⟩
          · exact ⟨fun a ha => by simp [ha], fun a ha => by simp [ha]⟩
          · exact ⟨fun a ha => by simp [ha], fun a ha => by simp [ha]⟩
        have hF1 : ∀ a, a ∈ F1 → a < h.next := fun a ha => hF a (hsub.1 a ha)
        have hF2 : ∀ a, a ∈ F2 → a < h.next := fun a ha => hF a (hsub.2 a ha)
        -- the two key copies
        have ea := Ext.alloc h (.str k) hw
        generalize hba : alloc h (.str k) = ra at ea
        obtain ⟨ka', g1⟩ := ra
        simp only at ea
        have eb := Ext.alloc g1 (.str ko) ea.wf
        generalize hbb : alloc g1 (.str ko) = rb at eb
        obtain ⟨koa', g2⟩ := rb
        simp only at eb
        have eab := ea.trans eb
        have hrep2 : Rep g2 hvx v F1 := Rep_ext eab v hvx F1 hF1 hrep
        have hc := cloneH_build v g2 eab.wf hvx F1 f hrep2 (fun a ha => Nat.lt_of_lt_of_le (hF1 a ha) eab.le)
          (by simp [needEntries] at hf; omega)
        generalize hbv : buildVal g2 v = rv at hc
        obtain ⟨hv', g3⟩ := rv
        obtain ⟨ev, _⟩ := buildVal_spec v g2 eab.wf hv' g3 hbv
        have ee := Ext.alloc g3 (.entry hv' ka' koa') ev.wf
        generalize hbe : alloc g3 (.entry hv' ka' koa') = re at ee
        obtain ⟨e', g4⟩ := re
        simp only at ee
        have eall := (eab.trans ev).trans ee
        have hrest4 : RepEntries g4 ents' es F2 := RepEntries_ext eall es ents' F2 hF2 hrest
        have hr4 := cloneEntries_build es g4 eall.wf ents' F2 f hrest4 (fun a ha => Nat.lt_of_lt_of_le (hF2 a ha) eall.le)
          (by simp [needEntries] at hf; omega)
        generalize hb5 : buildEntries g4 es = r5 at hr4
        obtain ⟨ys, g5⟩ := r5
        simp [cloneEntries, read, he, hka, hkoa, hba, hbb, hc, hbe, hr4, buildEntries, hbv, hb5]
end

/-- **the address-level clone into a new object** computes `buildNew` of the value the source represents (source = a
    free-standing object or the inline value of a map entry) -/
theorem cloneNewH_build (h : Heap) (hw : h.WF) (src : Nat) (hs : HVal) (x : V) (Fs : List Nat) (fuel : Nat)
    (hsrc : fieldsAt h src = some hs) (hr : Rep h hs x Fs) (hFs : ∀ a, a ∈ Fs → a < h.next) (hf : need x ≤ fuel) :
    cloneNewH fuel h src = some (buildNew h x) := by
  have hc := cloneH_build x h hw hs Fs fuel hr hFs hf
  generalize hb : buildVal h x = r at hc
  obtain ⟨hv', h1⟩ := r
  simp [cloneNewH, hsrc, hc, buildNew, hb]

theorem copyOrUnknown_build (h : Heap) (hw : h.WF) (src : Option Nat) (x : Option V) (fuel : Nat)
    (hx : match src, x with
      | none, none => True
      | some s, some v => ∃ hs Fs, fieldsAt h s = some hs ∧ Rep h hs v Fs ∧ (∀ a, a ∈ Fs → a < h.next) ∧ need v ≤ fuel
      | _, _ => False) :
    copyOrUnknown fuel h src = some (buildNew h (x.getD .unk)) := by
  cases src with
  | none =>
    cases x with
    | none => simp [copyOrUnknown, buildNew, buildVal]
    | some v => exact absurd hx (by simp)
  | some s =>
    cases x with
    | none => exact absurd hx (by simp)
    | some v =>
      obtain ⟨hs, Fs, h1, h2, h3, h4⟩ := hx
      simpa [copyOrUnknown] using cloneNewH_build h hw s hs v Fs fuel h1 h2 h3 h4

/-- what it means for an address argument (or NULL) to designate a represented value -/
def SrcRep (h : Heap) (fuel : Nat) : Option Nat → Option V → Prop
  | none, none => True
  | some s, some v => ∃ hs Fs, fieldsAt h s = some hs ∧ Rep h hs v Fs ∧ (∀ a, a ∈ Fs → a < h.next) ∧ need v ≤ fuel
  | _, _ => False

/-- **insert with the caller's object**: reading the object passed in gives exactly the pure-value form applied to the
    value that object represents — so `listInsertH_spec` / `C19_put_copies` speak about the real call -/
theorem listInsertAddrH_eq (h : Heap) (hw : h.WF) (hv : HVal) (i : Nat) (src : Option Nat) (x : Option V) (fuel : Nat)
    (hx : SrcRep h fuel src x) : listInsertAddrH fuel h hv i src = listInsertH h hv i x := by
  have hc : copyOrUnknown fuel h src = some (buildNew h (x.getD .unk)) := by
    apply copyOrUnknown_build h hw src x fuel
    cases src <;> cases x <;> simpa [SrcRep] using hx
  cases hv with
  | lst elems size =>
    generalize hb : buildNew h (x.getD .unk) = r at hc
    obtain ⟨c, h1⟩ := r
    simp only [listInsertAddrH, listInsertH, hc, hb]
    rfl
  | _ => rfl

/-- **clone onto an existing object with the source's address** = `cloneOntoH` with the value the source represents at
    the moment of the call — wherever the source lies (inside the target, around it, the target itself) -/
theorem cloneOntoAddrH_eq (h : Heap) (hw : h.WF) (t src : Nat) (hs : HVal) (x : V) (Fs : List Nat) (fuelSrc fuel : Nat)
    (hsrc : fieldsAt h src = some hs) (hr : Rep h hs x Fs) (hFs : ∀ a, a ∈ Fs → a < h.next) (hf : need x ≤ fuelSrc) :
    cloneOntoAddrH fuelSrc fuel h t src = cloneOntoH fuel h t x := by
  have hc := cloneNewH_build h hw src hs x Fs fuelSrc hsrc hr hFs hf
  generalize hb : buildNew h x = r at hc
  obtain ⟨c, h1⟩ := r
  simp only [cloneOntoAddrH, cloneOntoH, hc, hb]
  rfl

theorem lt_of_cell {h : Heap} (hw : h.WF) {a : Nat} {c : Cell} (hc : h.cell a = some c) : a < h.next := by
  by_cases hlt : a < h.next
  · exact hlt
  · rw [hw a (by omega)] at hc; cases hc

theorem fieldsAt_congr (h g : Heap) (s : Nat) (hc : g.cell s = h.cell s) : fieldsAt g s = fieldsAt h s := by
  unfold fieldsAt read; rw [hc]

theorem fieldsAt_lt {h : Heap} (hw : h.WF) {s : Nat} {hs : HVal} (hf : fieldsAt h s = some hs) : s < h.next := by
  unfold fieldsAt read at hf
  cases hc : h.cell s with
  | none => rw [hc] at hf; cases hf
  | some c => exact lt_of_cell hw hc

/-- an address argument (or NULL) designating a represented value that lies outside the footprint `F` -/
def SrcRepOutside (h : Heap) (fuel : Nat) (F : List Nat) : Option Nat → Option V → Prop
  | none, none => True
  | some s, some v => ∃ hs Fs, fieldsAt h s = some hs ∧ Rep h hs v Fs ∧ (∀ a, a ∈ Fs → a < h.next) ∧ need v ≤ fuel
      ∧ s ∉ F ∧ ∀ a, a ∈ Fs → a ∉ F
  | _, _ => False

/-- the components copied out of the caller's object in a heap `g` that agrees with `h` on the source -/
theorem copyFields_build (h g : Heap) (hwg : g.WF) (F : List Nat) (src : Option Nat) (x : Option V) (fuel : Nat)
    (hx : SrcRepOutside h fuel F src x) (hle : h.next ≤ g.next)
    (hag : ∀ a, a < h.next → a ∉ F → g.cell a = h.cell a) (hw : h.WF) :
    copyFields fuel g src = some (buildVal g (x.getD .unk)) := by
  cases src with
  | none =>
    cases x with
    | none => simp [copyFields, buildVal]
    | some v => exact absurd hx (by simp [SrcRepOutside])
  | some s =>
    cases x with
    | none => exact absurd hx (by simp [SrcRepOutside])
    | some v =>
      obtain ⟨hs, Fs, h1, h2, h3, h4, h5, h6⟩ := hx
      have hslt := fieldsAt_lt hw h1
      have hf : fieldsAt g s = some hs := by rw [fieldsAt_congr h g s (hag s hslt h5)]; exact h1
      have hr : Rep g hs v Fs := Rep_congr h g v hs Fs (fun a ha => hag a (h3 a ha) (h6 a ha)) h2
      have hc := cloneH_build v g hwg hs Fs fuel hr (fun a ha => Nat.lt_of_lt_of_le (h3 a ha) hle) h4
      simp [copyFields, hf, hc]

/-- **`cif_map_set_item` with the caller's object** (an object outside the map): reading the object passed in gives exactly
    the pure-value form applied to the value it represents — on both paths (new key: appended entry; existing key: the
    entry takes the new spelling and a copy of the value) -/
theorem mapSetItemAddrH_eq (h : Heap) (hw : h.WF) (ents : List Nat) (es : List (Str × Str × V)) (F : List Nat)
    (nk key : Str) (src : Option Nat) (x : Option V) (hr : RepEntries h ents es F) (hF : ∀ a, a ∈ F → a < h.next)
    (fuelSrc fuel : Nat) (hfuel : needEntries es ≤ fuel) (hx : SrcRepOutside h fuelSrc F src x) :
    mapSetItemAddrH fuelSrc fuel h ents nk key src = mapSetItemH fuel h ents nk key x := by
  have e0 := Ext.alloc h (.str nk) hw
  generalize hh0 : alloc h (.str nk) = r0 at e0
  obtain ⟨kn, h0⟩ := r0
  simp only at e0
  have hkn : kn = h.next := by have := congrArg Prod.fst hh0; simpa [alloc] using this.symm
  have hn0 : h0.next = h.next + 1 := by have := congrArg (fun p => p.2.next) hh0; simpa [alloc] using this.symm
  have hr0 : RepEntries h0 ents es F := RepEntries_congr h h0 es ents F (fun a ha => e0.frame a (hF a ha)) hr
  rcases RepEntries_find h0 es ents F nk hr0 with ⟨_, hfe⟩ | ⟨e, ko, v, Fe, hmf, hfe, hre, hsubF, _, _⟩
  · -- a new entry: the copy is read right after the two key blocks have been allocated
    have e1 := Ext.alloc h0 (.str key) e0.wf
    generalize hh1 : alloc h0 (.str key) = r1 at e1
    obtain ⟨koa, h1⟩ := r1
    simp only at e1
    have e01 := e0.trans e1
    have hc := copyFields_build h h1 e01.wf F src x fuelSrc hx e01.le (fun a ha _ => e01.frame a ha) hw
    generalize hb : buildVal h1 (x.getD .unk) = rb at hc
    obtain ⟨hv, h2⟩ := rb
    simp only [mapSetItemAddrH, mapSetItemH, hh0, hfe, hh1, hc, hb]
  · -- an existing entry
    have hFe : ∀ a, a ∈ Fe → a < h0.next := fun a ha => by have := hF a (hsubF a ha); omega
    obtain ⟨h1, Fe1, hop1, hre1, hw1, _, hfr1, _, _, hlt1, hsub1⟩ := entryRespell_spec h0 e0.wf e nk ko v Fe key hre hFe
    obtain ⟨hv', ka', koa', F1', he', hka', hkoa', hrep', heF', hkaF', hkoaF', heka', hekoa', hFs'⟩ := hre1
    have hF1sub : ∀ a, a ∈ F1' → a ∈ Fe1 := by
      intro a ha
      rcases hFs' with ⟨_, rfl⟩ | ⟨_, rfl⟩ <;> simp [ha]
    have hneed : need v ≤ fuel := by
      have := need_le_needEntries es nk ko v hmf
      omega
    obtain ⟨h1', hcl, c1⟩ := cleanVal_spec v h1 hv' F1' fuel hrep' hneed
    have hw1' : h1'.WF := Cleared.wf c1 hw1
    have hle1 : h.next ≤ h1'.next := by
      rw [c1.1]
      -- the hash key block allocated at h.next is still live in h1 (it is outside the entry's footprint)
      have hknFe : h.next ∉ Fe := fun hm => by have := hF _ (hsubF _ hm); omega
      have hkn0 : h0.cell h.next = some (.str nk) := by
        have := congrArg (fun p => p.2.cell h.next) hh0
        simp [alloc] at this
        exact this.symm
      have hkn1 : h1.cell h.next = some (.str nk) := by rw [hfr1 h.next (by omega) hknFe]; exact hkn0
      have := lt_of_cell hw1 hkn1
      omega
    have hag : ∀ a, a < h.next → a ∉ F → h1'.cell a = h.cell a := by
      intro a ha hna
      have hnaFe : a ∉ Fe := fun hm => hna (hsubF a hm)
      have hnaF1 : a ∉ F1' := fun hm => by
        rcases hsub1 a (hF1sub a hm) with hh | hh
        · exact hnaFe hh
        · omega
      rw [c1.2 a, if_neg hnaF1, hfr1 a (by omega) hnaFe, e0.frame a ha]
    have hc := copyFields_build h h1' hw1' F src x fuelSrc hx hle1 hag hw
    generalize hb : buildVal h1' (x.getD .unk) = rb at hc
    obtain ⟨new, h2⟩ := rb
    simp only [mapSetItemAddrH, mapSetItemH, hh0, hfe, hop1, entrySetValue, read, he', hcl, hc, hb]
    rfl

/-- **`cif_value_set_element_at` with the caller's object** (an object outside the list) = the pure-value form applied to
    the value it represents -/
theorem listSetAddrH_eq (h : Heap) (hw : h.WF) (hv : HVal) (vs : List V) (F : List Nat) (i : Nat) (src : Option Nat)
    (x : Option V) (hr : Rep h hv (.lst vs) F) (hF : ∀ a, a ∈ F → a < h.next) (hi : i < vs.length) (fuelSrc : Nat)
    (hx : SrcRepOutside h fuelSrc F src x) :
    listSetAddrH fuelSrc (need (.lst vs)) h hv i src = listSetH (need (.lst vs)) h hv i x := by
  simp only [Rep] at hr
  rcases hr with ⟨rfl, _, _, _⟩ | ⟨arr, xs, cap, F1, rfl, harr, hcap, hel, hnot, rfl⟩
  · simp at hi
  · obtain ⟨t, v, hvt, Ft, hxi, hvi, ht, hrept, htF, hsubF, htmem, _⟩ := RepElems_replace h vs xs F1 i hel hi
    have hneed := need_le_needList vs i v hvi
    obtain ⟨h1, hcl, c1⟩ := cleanVal_spec v h hvt Ft (need (.lst vs)) hrept (by simp [need]; omega)
    have hw1 : h1.WF := Cleared.wf c1 hw
    have hag : ∀ a, a < h.next → a ∉ F1 ++ [arr] → h1.cell a = h.cell a := by
      intro a _ hna
      have : a ∉ Ft := fun hm => hna (by simp [hsubF a hm])
      rw [c1.2 a, if_neg this]
    have hc := copyFields_build h h1 hw1 (F1 ++ [arr]) src x fuelSrc hx (by rw [c1.1]; exact Nat.le_refl _) hag hw
    generalize hb : buildVal h1 (x.getD .unk) = rb at hc
    obtain ⟨new, h2⟩ := rb
    simp only [listSetAddrH, listSetH, read, harr, hxi, ht, hcl, hc, hb]

/-! ### members are exposed by reference -/

/-- **`cif_value_get_element_at` hands out the element object itself**: the address returned is a block of the list's own
    footprint holding the element's fields (no copy is made — the getter does not touch the heap), and writing through it
    IS writing the list: re-initialising the object it designates (`cif_value_init`, `copy_char`, `parse_numb`, … through the
    pointer) is the same heap transformation as `cif_value_set_element_at(list, i, …)`, after which the unchanged list
    object represents the list with element `i` replaced -/
theorem listGetH_by_reference (h : Heap) (hw : h.WF) (hv : HVal) (vs : List V) (F : List Nat) (i : Nat)
    (hr : Rep h hv (.lst vs) F) (hF : ∀ a, a ∈ F → a < h.next) (hi : i < vs.length) :
    ∃ t v hvt Ft, listGetH h hv i = some t ∧ vs[i]? = some v ∧ h.cell t = some (.val hvt) ∧ Rep h hvt v Ft
      ∧ t ∈ F ∧ (∀ a, a ∈ Ft → a ∈ F)
      ∧ ∀ x : V, reinitH (need (.lst vs)) h t x = listSetH (need (.lst vs)) h hv i (some x)
          ∧ ∃ h' F', reinitH (need (.lst vs)) h t x = some h' ∧ Rep h' hv (.lst (vs.set i x)) F' ∧ h'.WF
              ∧ (∀ a, a < h.next → a ∉ F → h'.cell a = h.cell a) := by
  have hr' := hr
  simp only [Rep] at hr
  rcases hr with ⟨rfl, _, _, _⟩ | ⟨arr, xs, cap, F1, rfl, harr, hcap, hel, hnot, rfl⟩
  · simp at hi
  · obtain ⟨t, v, hvt, Ft, hxi, hvi, ht, hrept, htF, hsubF, htmem, _⟩ := RepElems_replace h vs xs F1 i hel hi
    refine ⟨t, v, hvt, Ft, by simp [listGetH, read, harr, hxi], hvi, ht, hrept, by simp [htmem],
      fun a ha => by simp [hsubF a ha], ?_⟩
    intro x
    have heq : reinitH (need (.lst vs)) h t x = listSetH (need (.lst vs)) h (.lst (some arr) xs.length) i (some x) := by
      simp [reinitH, listSetH, read, harr, hxi, ht]
    obtain ⟨h', F', hop, hrep, hwf, hframe, _, _, _⟩ := listSetH_spec h hw (.lst (some arr) xs.length) vs (F1 ++ [arr]) i (some x) hr' hF hi
    exact ⟨heq, h', F', by rw [heq]; exact hop, by simpa using hrep, hwf, hframe⟩

/-- **`cif_value_get_item_by_key` / `cif_packet_get_item` hand out the entry's inline value itself**: the address
    returned is the entry block (its value is the first member), part of the map's footprint; assigning through it
    (clean, then the new components, written into the same entry) leaves the map representing the association list with
    that one value replaced — key, spelling and position unchanged -/
theorem tableGetH_by_reference (h : Heap) (hw : h.WF) (ents : List Nat) (es : List (Str × Str × V)) (F : List Nat)
    (nk : Str) (hr : RepEntries h ents es F) (hF : ∀ a, a ∈ F → a < h.next) (fuel : Nat) (hfuel : needEntries es ≤ fuel) :
    (Value.mapFind es nk = none ∧ tableGetH h ents nk = some none)
    ∨ ∃ e ko v Fe, Value.mapFind es nk = some (nk, ko, v) ∧ tableGetH h ents nk = some (some e) ∧ RepEntry h e nk ko v Fe
        ∧ (∀ a, a ∈ Fe → a ∈ F)
        ∧ ∀ x : V, ∃ h' F', entrySetValue fuel h e (some x) = some h'
            ∧ RepEntries h' ents (Value.mapReplace es nk ko x) F' ∧ h'.WF
            ∧ (∀ a, a < h.next → a ∉ F → h'.cell a = h.cell a) := by
  rcases RepEntries_find h es ents F nk hr with ⟨hmf, hfe⟩ | ⟨e, ko, v, Fe, hmf, hfe, hre, hsubF, hrepl, _⟩
  · exact Or.inl ⟨hmf, hfe⟩
  · refine Or.inr ⟨e, ko, v, Fe, hmf, hfe, hre, hsubF, ?_⟩
    intro x
    have hFe : ∀ a, a ∈ Fe → a < h.next := fun a ha => hF a (hsubF a ha)
    have hneed := need_le_needEntries es nk ko v hmf
    obtain ⟨h', Fe', hop, hre', hw', _, hfr, _, _, _, hsub⟩ :=
      entrySetValue_spec h hw e nk ko v Fe (some x) hre hFe fuel (by omega)
    obtain ⟨F', hrep', _⟩ := hrepl h' ko x Fe' hre' (fun a ha hna => hfr a (hF a ha) hna)
      (fun a ha haF => by
        rcases hsub a ha with hh | hh
        · exact hh
        · have := hF a haF; omega)
    exact ⟨h', F', hop, hrep', hw', fun a ha hna => hfr a ha (fun hm => hna (hsubF a hm))⟩

end CifModel.Model.Heap
