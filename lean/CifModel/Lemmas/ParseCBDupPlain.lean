import CifModel.Lemmas.ParseCBDupX
/-
  CifModel.Lemmas.ParseCBDupPlain — on documents WITHOUT duplicates (block codes, frame codes per block, data names per container
  pairwise distinct after normalisation: `distinctDoc`) the structural interpreter with the duplicate checks is the plain one, for
  EVERY handler program: no check ever fires, whatever the program skipped or stored.  Hence `parseCBD = parseCB` there.
-/
set_option linter.unusedSimpArgs false
set_option linter.unusedVariables false

namespace CifModel.Lemmas.ParseCB
open CifModel.ParseCB CifModel.Spec.Doc

/-- the data names a container holds -/
def namesIn (c : Content) : List Str := c.loops.flatMap (·.names)

theorem hasName_eq (norm : Str → Str) (c : Content) (nm : Str) :
    hasName norm c nm = (namesIn c).any (fun n => norm n == norm nm) := by
  unfold hasName namesIn
  generalize c.loops = ls
  induction ls with
  | nil => rfl
  | cons l ls ih => simp only [List.any_cons, List.flatMap_cons, List.any_append, ih]

theorem distinctN_append (norm : Str → Str) : ∀ (a b : List Str), distinctN norm (a ++ b) = true →
    distinctN norm a = true ∧ distinctN norm b = true ∧ ∀ x ∈ a, ∀ y ∈ b, (norm y == norm x) = false
  | [], b, h => ⟨rfl, h, fun x hx => nomatch hx⟩
  | x :: a, b, h => by
    simp only [List.cons_append, distinctN, Bool.and_eq_true, Bool.not_eq_true', List.any_append, Bool.or_eq_false_iff] at h
    obtain ⟨⟨h1, h2⟩, h3⟩ := h
    obtain ⟨i1, i2, i3⟩ := distinctN_append norm a b h3
    refine ⟨by simp [distinctN, h1, i1], i2, ?_⟩
    intro x' hx' y hy
    rcases List.mem_cons.mp hx' with rfl | hx'
    · have := List.any_eq_false.mp h2 y hy
      simpa using this
    · exact i3 x' hx' y hy

/-- nothing the container holds is equivalent to `nm` -/
theorem hasName_false_of (norm : Str → Str) (c : Content) (seen : List Str) (nm : Str)
    (hin : ∀ n ∈ namesIn c, n ∈ seen) (hd : ∀ x ∈ seen, (norm nm == norm x) = false) : hasName norm c nm = false := by
  rw [hasName_eq]
  apply List.any_eq_false.mpr
  intro n hn
  have := hd n (hin n hn)
  simp only [beq_eq_false_iff_ne, ne_eq, Bool.not_eq_true] at this ⊢
  intro h; exact this h.symm

theorem namesIn_addScalar : ∀ (ls : List Loop) (nm : Str) (v : V) (x : Str),
    x ∈ (addScalar ls nm v).flatMap (·.names) → x ∈ ls.flatMap (·.names) ∨ x = nm
  | [], nm, v, x, h => by simp [addScalar] at h; exact Or.inr h
  | l :: ls, nm, v, x, h => by
    simp only [addScalar] at h
    split at h
    · simp only [List.flatMap_cons, List.mem_append] at h ⊢
      rcases h with h | h
      · rcases h with h | h
        · exact Or.inl (Or.inl h)
        · simp at h; exact Or.inr h
      · exact Or.inl (Or.inr h)
    · simp only [List.flatMap_cons, List.mem_append] at h ⊢
      rcases h with h | h
      · exact Or.inl (Or.inl h)
      · rcases namesIn_addScalar ls nm v x h with h | h
        · exact Or.inl (Or.inr h)
        · exact Or.inr h

-- ---- loops: a header that is new to the container and repeats nothing ----------------------------------------------------------------

theorem hdrD_new (norm : Str → Str) (cont : Bool) (c : Content) : ∀ (names pre : List Str) (s : St),
    headerNew norm c names pre = true →
    hdrD norm cont c names s (pre.map some) = ((pre ++ names).map some, kHeader names s)
  | [], pre, s, _ => by simp [hdrD, kHeader]
  | nm :: ns, pre, s, hnew => by
    simp only [headerNew, Bool.and_eq_true, Bool.not_eq_true'] at hnew
    obtain ⟨⟨h1, h2⟩, h3⟩ := hnew
    have hdup : ((cont && hasName norm c nm) || (pre.map some).any (slotIs norm nm)) = false := by
      rw [any_map_some, h1, h2]; simp
    simp only [hdrD, hdup, Bool.false_eq_true, if_false, kHeader]
    have hacc : pre.map some ++ [some nm] = (pre ++ [nm]).map some := by simp
    rw [hacc, hdrD_new norm cont c ns (pre ++ [nm]) _ h3]
    simp

theorem getD_map_some' (names : List Str) (col : Nat) (h : col < names.length) :
    (names.map some).getD col none = some (names.getD col []) := by
  simp [List.getD, h]

theorem xRowD_some (p : Prog) (names : List Str) : ∀ (vals : List V) (col : Nat) (s : St), col + vals.length ≤ names.length →
    xRowD p (names.map some) col vals s = xRow p names col vals s
  | [], _, _, _ => rfl
  | v :: vs, col, s, hl => by
    have hlt : col < names.length := by simp at hl; omega
    simp only [xRowD, xRow, getD_map_some' names col hlt, itemStepD]
    rw [xRowD_some p names vs (col + 1) _ (by simp at hl ⊢; omega)]

theorem keptD_some (names : List Str) : ∀ (vals : List V) (col : Nat), col + vals.length ≤ names.length →
    keptD (names.map some) col vals = vals
  | [], _, _ => rfl
  | v :: vs, col, hl => by
    have hlt : col < names.length := by simp at hl; omega
    simp only [keptD, getD_map_some' names col hlt, Option.isSome_some, if_true, List.singleton_append]
    rw [keptD_some names vs (col + 1) (by simp at hl ⊢; omega)]

theorem xPkD_some (p : Prog) (names : List Str) (pk : List V) (s : St) (hl : pk.length = names.length) :
    xPkD p (names.map some) 0 [] pk s = xPk p names 0 [] pk s := by
  unfold xPkD xPk
  simp only [xRowD_some p names pk 0 _ (by simp [hl]), keptD_some names pk 0 (by simp [hl]), filterMap_map_some']

theorem xPacketsD_some (p : Prog) (loopH : Bool) (names : List Str) : ∀ (pks : List (List V)) (s : St) (acc : List (List V)),
    (∀ pk ∈ pks, pk.length = names.length) →
    xPacketsD p loopH (names.map some) pks s acc = xPackets p loopH names pks s acc
  | [], _, _, _ => rfl
  | pk :: pks, s, acc, hl => by
    have h1 := hl pk (List.mem_cons_self ..)
    simp only [xPacketsD, xPackets, xPkD_some p names pk s h1, keptD_some names pk 0 (by simp [h1])]
    split
    · rfl
    · exact xPacketsD_some p loopH names pks _ _ (fun q hq => hl q (List.mem_cons_of_mem _ hq))

theorem xLoopD_new (p : Prog) (norm : Str → Str) (cont : Bool) (c : Content) (names : List Str) (pks : List (List V)) (s : St)
    (hn : names ≠ []) (hl : ∀ pk ∈ pks, pk.length = names.length) (hnew : headerNew norm c names [] = true) :
    xLoopD p norm cont c names pks s = xLoop p cont names pks s := by
  have hh := hdrD_new norm cont c names [] (inc s) hnew
  simp only [List.map_nil, List.nil_append] at hh
  have hemp : names.isEmpty = false := by cases names <;> simp_all
  unfold xLoopD xLoop
  simp only [hh, filterMap_map_some', hemp, Bool.false_eq_true, if_false, xPacketsD_some p _ names pks _ _ hl]

/-- the header is new when the container's names are among `seen` and `seen ++ names` is free of repeats -/
theorem headerNew_of (norm : Str → Str) (c : Content) (seen : List Str) (hin : ∀ n ∈ namesIn c, n ∈ seen) :
    ∀ (names pre : List Str), distinctN norm (seen ++ (pre ++ names)) = true → headerNew norm c names pre = true
  | [], _, _ => rfl
  | nm :: ns, pre, hd => by
    have hd' : distinctN norm ((seen ++ pre) ++ (nm :: ns)) = true := by simpa using hd
    obtain ⟨d1, d2, d3⟩ := distinctN_append norm (seen ++ pre) (nm :: ns) hd'
    have hseen : ∀ x ∈ seen, (norm nm == norm x) = false := fun x hx => d3 x (List.mem_append_left _ hx) nm (List.mem_cons_self ..)
    have hpre : pre.any (fun m => norm m == norm nm) = false := by
      apply List.any_eq_false.mpr
      intro m hm
      have := d3 m (List.mem_append_right _ hm) nm (List.mem_cons_self ..)
      simp only [beq_eq_false_iff_ne, ne_eq, Bool.not_eq_true] at this ⊢
      intro h; exact this h.symm
    simp only [headerNew, hasName_false_of norm c seen nm hin hseen, hpre, Bool.not_false, Bool.and_self, Bool.true_and]
    exact headerNew_of norm c seen hin ns (pre ++ [nm]) (by simpa using hd)

-- ---- containers ------------------------------------------------------------------------------------------------------------------

/-- what the container holds is among what was seen: data names and frame codes -/
def Inv (c : Content) (seenN seenF : List Str) : Prop := (∀ n ∈ namesIn c, n ∈ seenN) ∧ (∀ f ∈ c.frames, f.code ∈ seenF)

theorem Inv_empty : Inv Content.empty [] [] := ⟨fun n h => by simp [namesIn, Content.empty] at h, fun f h => by simp [Content.empty] at h⟩

theorem findC_none_of (norm : Str → Str) (fs : List Container) (seenF : List Str) (code : Str)
    (hin : ∀ f ∈ fs, f.code ∈ seenF) (hd : ∀ x ∈ seenF, (norm code == norm x) = false) : findC norm fs code = none := by
  unfold findC
  apply List.find?_eq_none.mpr
  intro f hf
  have := hd f.code (hin f hf)
  simp only [beq_eq_false_iff_ne, ne_eq, Bool.not_eq_true, beq_iff_eq] at this ⊢
  intro h; exact this h.symm

def codeOfElem : Elem → List Str
  | .frame c _ => [c]
  | _ => []

theorem frameCodes_cons (e : Elem) (es : List Elem) : frameCodes (e :: es) = codeOfElem e ++ frameCodes es := by
  cases e <;> rfl

theorem xLoop_names (p : Prog) (cont : Bool) (names : List Str) (pks : List (List V)) (s : St) (l : Loop)
    (h : (xLoop p cont names pks s).2.2 = some l) : l.names = names := by
  unfold xLoop at h
  dsimp only at h
  by_cases hb : (loopStartStep p cont names (kHeader names (inc s))).2.2.2 = true
  · simp only [hb, if_true] at h
    by_cases hc : (loopStartStep p cont names (kHeader names (inc s))).2.2.1 = true
    · simp only [hc, if_true, Option.some.injEq] at h; rw [← h]
    · simp only [hc, Bool.false_eq_true, if_false] at h; cases h
  · simp only [hb, Bool.false_eq_true, if_false] at h
    by_cases hc : (loopStartStep p cont names (kHeader names (inc s))).2.2.1 = true
    · simp only [hc, if_true, Option.some.injEq] at h; rw [← h]
    · simp only [hc, Bool.false_eq_true, if_false] at h; cases h

/-- the content after an element holds nothing but what it held and the element's own names / code -/
theorem xElem_inv (p : Prog) (cont : Bool) (e : Elem) (s : St) (c : Content) (sN sF : List Str) (h : Inv c sN sF) :
    Inv (xElem p cont e s c).2.2 (sN ++ elemNames e) (sF ++ codeOfElem e) := by
  obtain ⟨h1, h2⟩ := h
  cases e with
  | item nm v =>
    simp only [xElem]
    split
    · exact ⟨fun n hn => List.mem_append_left _ (h1 n hn), fun f hf => List.mem_append_left _ (h2 f hf)⟩
    · dsimp only
      split
      · rename_i n w _
        refine ⟨fun x hx => ?_, fun f hf => List.mem_append_left _ (h2 f hf)⟩
        have hx' : x ∈ (addScalar c.loops n w).flatMap (·.names) := hx
        -- the stored name is the item's name
        have hnm : n = nm := by
          rename_i heq
          simp only [scalarItemStep] at heq
          split at heq
          · simp only [Option.some.injEq, Prod.mk.injEq] at heq; exact heq.1.symm
          · cases heq
        rcases namesIn_addScalar c.loops n w x hx' with hh | hh
        · exact List.mem_append_left _ (h1 x hh)
        · rw [hh, hnm]; simp [elemNames]
      · exact ⟨fun n hn => List.mem_append_left _ (h1 n hn), fun f hf => List.mem_append_left _ (h2 f hf)⟩
  | loop names pks =>
    simp only [xElem]
    split
    · rename_i l heq
      refine ⟨fun x hx => ?_, fun f hf => List.mem_append_left _ (h2 f hf)⟩
      have hln : l.names = names := xLoop_names p cont names pks _ l heq
      have hx' : x ∈ c.loops.flatMap (·.names) ++ l.names := by
        simpa [namesIn, Content.addLoop, List.flatMap_append] using hx
      rcases List.mem_append.mp hx' with hh | hh
      · exact List.mem_append_left _ (h1 x hh)
      · rw [hln] at hh; exact List.mem_append_right _ hh
    · exact ⟨fun n hn => List.mem_append_left _ (h1 n hn), fun f hf => List.mem_append_left _ (h2 f hf)⟩
  | frame code body =>
    rw [xElem_frame]
    dsimp only
    split
    · refine ⟨fun n hn => List.mem_append_left _ (h1 n hn), fun f hf => ?_⟩
      have hf' : f ∈ c.frames ++ [Container.mk code _ _] := hf
      rcases List.mem_append.mp hf' with hh | hh
      · exact List.mem_append_left _ (h2 f hh)
      · simp only [List.mem_singleton] at hh
        rw [hh]; simp [codeOfElem, Container.code]
    · exact ⟨fun n hn => List.mem_append_left _ (h1 n hn), fun f hf => List.mem_append_left _ (h2 f hf)⟩

/-- the bodies of the save frames among `es` are free of duplicates -/
def bodiesDistinct (norm : Str → Str) (es : List Elem) : Bool :=
  es.all (fun e => match e with | .frame _ body => distinctFlat norm body | _ => true)

theorem bodiesDistinct_noFrames (norm : Str → Str) : ∀ (es : List Elem), wfElems false es = true → bodiesDistinct norm es = true
  | [], _ => rfl
  | e :: es, h => by
    simp only [wfElems, Bool.and_eq_true] at h
    cases e with
    | frame c b => simp [wfElem] at h
    | item n v => simp only [bodiesDistinct, List.all_cons, Bool.true_and]; exact bodiesDistinct_noFrames norm es h.2
    | loop ns pks => simp only [bodiesDistinct, List.all_cons, Bool.true_and]; exact bodiesDistinct_noFrames norm es h.2

theorem xContD_plain (p : Prog) (norm : Str → Str) (fc isBlock : Bool) (code : Str) (body : List Elem) (s : St)
    (hb : ∀ s', xElemsD p norm fc body s' .empty = xElems p fc body s' .empty) :
    xContD p norm fc isBlock code body s .empty = xCont p fc isBlock code body s := by
  unfold xContD xCont
  simp only [hb]

mutual
  theorem xElemD_plain (p : Prog) (norm : Str → Str) (cont : Bool) : ∀ (e : Elem) (a : Bool) (s : St) (c : Content) (sN sF : List Str),
      wfElem a e = true → distinctN norm (sN ++ elemNames e) = true → distinctN norm (sF ++ codeOfElem e) = true →
      bodiesDistinct norm [e] = true → Inv c sN sF →
      xElemD p norm cont e s c = xElem p cont e s c
    | .item nm v, a, s, c, sN, sF, _, hd, _, _, hinv => by
      obtain ⟨_, _, d3⟩ := distinctN_append norm sN [nm] hd
      have hno : hasName norm c nm = false :=
        hasName_false_of norm c sN nm hinv.1 (fun x hx => d3 x hx nm (List.mem_singleton.mpr rfl))
      simp only [xElemD, xElem, hno, Bool.and_false, Bool.false_eq_true, if_false]
      rfl
    | .loop names pks, a, s, c, sN, sF, hw, hd, _, _, hinv => by
      obtain ⟨hn, _, hall⟩ := loop_wf_all names pks hw
      have hnew : headerNew norm c names [] = true := headerNew_of norm c sN hinv.1 names [] (by simpa [elemNames] using hd)
      simp only [xElemD, xElem, xLoopD_new p norm cont c names pks _ hn (fun pk h => (hall pk h).2.1) hnew]
      rfl
    | .frame code body, a, s, c, sN, sF, hw, _, hd, hbd, hinv => by
      have hb : wfElems false body = true := by
        simp only [wfElem, Bool.and_eq_true] at hw; exact hw.2
      have hdf : distinctFlat norm body = true := by
        simpa [bodiesDistinct] using hbd
      simp only [distinctFlat, Bool.and_eq_true] at hdf
      have hbody : ∀ (fc : Bool) (s' : St), xElemsD p norm fc body s' .empty = xElems p fc body s' .empty :=
        fun fc s' => xElemsD_plain p norm fc body false s' .empty [] [] hb (by simpa using hdf.1) (by simpa using hdf.2)
          (bodiesDistinct_noFrames norm body hb) Inv_empty
      obtain ⟨_, _, d3⟩ := distinctN_append norm sF [code] hd
      have hfind : findC norm c.frames code = none :=
        findC_none_of norm c.frames sF code hinv.2 (fun x hx => d3 x hx code (List.mem_singleton.mpr rfl))
      rw [xElemD_frame, xElem_frame]
      by_cases hc : ((!cont) = true ∨ s.skip > 0)
      · have hfc : (!decide ((!cont) = true ∨ s.skip > 0)) = false := by rw [decide_eq_true hc]; rfl
        simp only [hc, if_true, xContD_plain p norm false false code body s (hbody false)]
        simp
      · have hfc : (!decide ((!cont) = true ∨ s.skip > 0)) = true := by rw [decide_eq_false hc]; rfl
        simp only [hc, if_false, hfind, xContD_plain p norm true false code body s (hbody true)]
        simp
  theorem xElemsD_plain (p : Prog) (norm : Str → Str) (cont : Bool) : ∀ (es : List Elem) (a : Bool) (s : St) (c : Content)
      (sN sF : List Str), wfElems a es = true → distinctN norm (sN ++ es.flatMap elemNames) = true →
      distinctN norm (sF ++ frameCodes es) = true → bodiesDistinct norm es = true → Inv c sN sF →
      xElemsD p norm cont es s c = xElems p cont es s c
    | [], _, _, _, _, _, _, _, _, _, _ => rfl
    | e :: es, a, s, c, sN, sF, hw, hdn, hdf, hbd, hinv => by
      simp only [wfElems, Bool.and_eq_true] at hw
      simp only [bodiesDistinct, List.all_cons, Bool.and_eq_true] at hbd
      have hdn' : distinctN norm ((sN ++ elemNames e) ++ es.flatMap elemNames) = true := by
        simpa [List.flatMap_cons, List.append_assoc] using hdn
      have hdf' : distinctN norm ((sF ++ codeOfElem e) ++ frameCodes es) = true := by
        rw [frameCodes_cons] at hdf; simpa [List.append_assoc] using hdf
      have he := xElemD_plain p norm cont e a s c sN sF hw.1 (distinctN_append norm _ _ hdn').1 (distinctN_append norm _ _ hdf').1
        (by simp [bodiesDistinct, hbd.1]) hinv
      simp only [xElemsD, xElems, he]
      split
      · exact xElemsD_plain p norm cont es a _ _ (sN ++ elemNames e) (sF ++ codeOfElem e) hw.2 hdn' hdf' hbd.2
          (xElem_inv p cont e s c sN sF hinv)
      · rfl
end

/-- the codes of the blocks created so far are among `seen` -/
def InvB (acc : List Container) (seen : List Str) : Prop := ∀ b ∈ acc, b.code ∈ seen

theorem xBlocksD_plain (p : Prog) (norm : Str → Str) (cif : Bool) : ∀ (d : Doc) (s : St) (acc : List Container) (seen : List Str),
    wfDoc d = true → distinctN norm (seen ++ d.map (·.code)) = true → d.all (fun b => distinctBlock norm b.body) = true →
    InvB acc seen → xBlocksD p norm cif d s acc = xBlocks p cif d s acc
  | [], _, _, _, _, _, _, _ => rfl
  | b :: bs, s, acc, seen, hw, hd, hdb, hinv => by
    simp only [wfDoc, List.all_cons, Bool.and_eq_true] at hw
    simp only [List.all_cons, Bool.and_eq_true, distinctBlock] at hdb
    have hdfl := hdb.1.1
    simp only [distinctFlat, Bool.and_eq_true] at hdfl
    have hbs : wfDoc bs = true := by simpa [wfDoc] using hw.2
    have hd' : distinctN norm ((seen ++ [b.code]) ++ bs.map (·.code)) = true := by simpa [List.append_assoc] using hd
    obtain ⟨_, _, d3⟩ := distinctN_append norm seen [b.code] (distinctN_append norm _ _ hd').1
    have hfind : findC norm acc b.code = none :=
      findC_none_of norm acc seen b.code hinv (fun x hx => d3 x hx b.code (List.mem_singleton.mpr rfl))
    have hbody : ∀ (fc : Bool) (s' : St), xElemsD p norm fc b.body s' .empty = xElems p fc b.body s' .empty :=
      fun fc s' => xElemsD_plain p norm fc b.body true s' .empty [] [] hw.1 (by simpa using hdfl.1) (by simpa using hdfl.2)
        hdb.1.2 Inv_empty
    simp only [xBlocksD, xBlocks, hfind]
    by_cases hbc : (cif && decide (s.skip ≤ 0)) = true
    · simp only [hbc, if_true, xContD_plain p norm true true b.code b.body s (hbody true)]
      split
      · refine xBlocksD_plain p norm cif bs _ _ (seen ++ [b.code]) hbs hd' hdb.2 ?_
        intro x hx
        rcases List.mem_append.mp hx with hh | hh
        · exact List.mem_append_left _ (hinv x hh)
        · simp only [List.mem_singleton] at hh; rw [hh]; simp [Container.code]
      · rfl
    · simp only [hbc, Bool.false_eq_true, if_false, xContD_plain p norm false true b.code b.body s (hbody false)]
      split
      · exact xBlocksD_plain p norm cif bs _ _ (seen ++ [b.code]) hbs hd' hdb.2
          (fun x hx => List.mem_append_left _ (hinv x hx))
      · rfl

/-- **without duplicates the interpreter with the duplicate checks is the plain one, for every program** -/
theorem xDocD_plain (p : Prog) (norm : Str → Str) (cif : Bool) (d : Doc) (s : St) (hw : wfDoc d = true)
    (hd : distinctDoc norm d = true) : xDocD p norm cif d s = xDoc p cif d s := by
  simp only [distinctDoc, Bool.and_eq_true] at hd
  unfold xDocD xDoc
  simp only [xBlocksD_plain p norm cif d _ [] [] hw (by simpa using hd.1) hd.2 (fun b hb => nomatch hb)]

end CifModel.Lemmas.ParseCB
