import CifModel.Lemmas.Fill
/-
  get_first_char, the whole run `seenBy`, and termination (the run reaches the end of the input).
-/
namespace CifModel.Model.Fill
open CifModel.Spec.Eol

theorem Src.read_length (s : Src) (count : Nat) : (s.read count).1.length ≤ count := by
  obtain ⟨rest⟩ := s
  cases rest with
  | nil => simp [Src.read]
  | cons c cs =>
    unfold Src.read
    by_cases hl : c.length ≤ count
    · simp [hl]
    · simp only [hl, if_false, List.length_take]; omega

theorem read_one (s : Src) (h : (s.read 1).1 ≠ []) : (s.read 1).1 = [(s.read 1).1.headD 0] := by
  have := Src.read_length s 1
  cases hr : (s.read 1).1 with
  | nil => exact absurd hr h
  | cons a t =>
    rw [hr] at this
    have : t = [] := by
      apply List.length_eq_zero_iff.mp
      simp only [List.length_cons] at this; omega
    subst this; rfl

/-- the document starts with two CRs (the only situation in which the unrepaired get_first_char leaves a raw CR) -/
def startsCRCR (l : Str) : Prop := ∃ r, l = 13 :: 13 :: r

instance (l : Str) : Decidable (startsCRCR l) :=
  match l with
  | 13 :: 13 :: r => isTrue ⟨r, rfl⟩
  | [] => isFalse (by rintro ⟨r, h⟩; cases h)
  | [_] => isFalse (by rintro ⟨r, h⟩; cases h)
  | a :: b :: r =>
    if h : a = 13 ∧ b = 13 then isTrue ⟨r, by rw [h.1, h.2]⟩
    else isFalse (by rintro ⟨r', h'⟩; injection h' with h1 h2; injection h2 with h2 h3; exact h ⟨h1, h2⟩)

/-- get_first_char: the units it provides, followed by the normal form of the rest (from the pending flag it leaves), are
    the normal form of the whole — provided the look-ahead CR is folded (`fix`) or the input does not start CR CR -/
theorem getFirstChar_spec (fix : Bool) (src : Src) (hok : src.ok) (hfix : fix = true ∨ ¬ startsCRCR src.flat) :
    match getFirstChar fix src with
    | none => src.flat = []
    | some r => r.1 ++ normFrom r.2.1.crPending r.2.2.flat = normFrom false src.flat ∧ r.2.2.ok ∧
                (r.2.1.atEof = true → r.2.2.flat = []) ∧ r.2.2.flat.length < src.flat.length := by
  have h1 := Src.read_spec src 1 hok (Nat.le_refl 1)
  unfold getFirstChar
  by_cases he : (src.read 1).1 = []
  · simp only [he, if_true]
    exact (h1.2.2 he).1
  · simp only [he, if_false]
    have hr1 := read_one src he
    generalize hch : (src.read 1).1.headD 0 = ch at hr1 ⊢
    have hflat : src.flat = ch :: (src.read 1).2.flat := by rw [h1.1, hr1]; rfl
    by_cases hc : ch = 13
    · subst hc
      simp only [if_true]
      have h2 := Src.read_spec (src.read 1).2 1 h1.2.1 (Nat.le_refl 1)
      by_cases he2 : ((src.read 1).2.read 1).1 = []
      · simp only [he2, if_true]
        have := h2.2.2 he2
        refine ⟨?_, h2.2.1, fun _ => by rw [this.2]; exact this.1, ?_⟩
        · rw [hflat, this.2, this.1]; decide
        · rw [hflat, this.2, this.1]; simp
      · simp only [he2, if_false]
        have hr2 := read_one (src.read 1).2 he2
        generalize hb : ((src.read 1).2.read 1).1.headD 0 = b1 at hr2 ⊢
        have hflat2 : src.flat = 13 :: b1 :: ((src.read 1).2.read 1).2.flat := by
          rw [hflat, h2.1, hr2]; rfl
        have hlen : ((src.read 1).2.read 1).2.flat.length < src.flat.length := by rw [hflat2]; simp; omega
        by_cases hb10 : b1 = 10
        · subst hb10
          simp only [ne_eq, not_true_eq_false, if_false]
          refine ⟨?_, h2.2.1, fun h => by simp at h, hlen⟩
          rw [hflat2, normFrom_cons]; simp only [if_true]
          rw [normFrom_true_lf]; rfl
        · simp only [ne_eq, hb10, not_false_eq_true, if_true]
          by_cases hf : fix = true ∧ b1 = 13
          · simp only [hf, and_self, if_true]
            refine ⟨?_, h2.2.1, fun h => by simp at h, hlen⟩
            rw [hflat2, hf.2, normFrom_cons]; simp only [if_true]
            rw [normFrom_cons]; simp
          · rw [if_neg hf]
            refine ⟨?_, h2.2.1, fun h => by simp at h, hlen⟩
            have hb13 : b1 ≠ 13 := by
              intro h13
              rcases hfix with h | h
              · exact hf ⟨h, h13⟩
              · exact h ⟨_, by rw [hflat2, h13]⟩
            rw [hflat2, normFrom_cons]; simp only [if_true]
            rw [normFrom_cons]; simp [hb13, hb10]
    · simp only [hc, if_false]
      refine ⟨?_, h1.2.1, fun h => by simp at h, by rw [hflat]; simp⟩
      rw [hflat, normFrom_cons]; simp [hc]

/-- what the unrepaired get_first_char does with an input starting CR CR: the second CR stays raw -/
theorem getFirstChar_unfixed_crcr (src : Src) (hok : src.ok) (r : Str) (h : src.flat = 13 :: 13 :: r) :
    ∃ src', getFirstChar false src = some ([10, 13], ⟨false, false⟩, src') ∧ src'.flat = r ∧ src'.ok := by
  have h1 := Src.read_spec src 1 hok (Nat.le_refl 1)
  have he : (src.read 1).1 ≠ [] := by
    intro he; have := (h1.2.2 he).1; rw [h] at this; cases this
  have hr1 := read_one src he
  have hch : (src.read 1).1.headD 0 = 13 ∧ (src.read 1).2.flat = 13 :: r := by
    have := h1.1; rw [hr1, h] at this
    simp only [List.cons_append, List.nil_append] at this
    injection this with ha hb
    exact ⟨ha.symm, hb.symm⟩
  have h2 := Src.read_spec (src.read 1).2 1 h1.2.1 (Nat.le_refl 1)
  have he2 : ((src.read 1).2.read 1).1 ≠ [] := by
    intro he2; have := (h2.2.2 he2).1; rw [hch.2] at this; cases this
  have hr2 := read_one (src.read 1).2 he2
  have hb : ((src.read 1).2.read 1).1.headD 0 = 13 ∧ ((src.read 1).2.read 1).2.flat = r := by
    have := h2.1; rw [hr2, hch.2] at this
    simp only [List.cons_append, List.nil_append] at this
    injection this with ha hb
    exact ⟨ha.symm, hb.symm⟩
  refine ⟨((src.read 1).2.read 1).2, ?_, hb.2, h2.2.1⟩
  unfold getFirstChar
  simp only [he, he2, if_false, hch.1, hb.1, if_true]
  simp

theorem normFrom_false_ne_nil (l : Str) (h : l ≠ []) : normFrom false l ≠ [] := by
  cases l with
  | nil => exact absurd rfl h
  | cons c cs =>
    rw [normFrom_cons]
    by_cases hc : c = 13 <;> simp [hc]

/-- a call that does not detect the end of the input takes at least one unit from the source -/
theorem getMoreChars_progress (st : FillSt) (count : Nat) (src : Src) (hok : src.ok) (hc : 1 ≤ count)
    (hne : (getMoreChars st count src).2.1.atEof = false) (h0 : st.atEof = false) :
    (getMoreChars st count src).2.2.flat.length < src.flat.length := by
  unfold getMoreChars at hne ⊢
  simp only [h0, Bool.false_eq_true, if_false] at hne ⊢
  obtain ⟨consumed, h1, h2, _, _, _⟩ := readLoop_spec st.crPending count src hok hc
  by_cases he : (readLoop 2 st.crPending count src).1 = []
  · simp [he] at hne
  · simp only [he, if_false]
    have : consumed ≠ [] := by
      intro hcn
      rw [hcn, normFrom_nil] at h2
      exact normFrom_false_ne_nil _ he h2.symm
    rw [h1, List.length_append]
    have : 0 < consumed.length := List.length_pos_iff.mpr this
    omega

theorem getMoreChars_eof_stays (st : FillSt) (count : Nat) (src : Src) (h : st.atEof = true) :
    (getMoreChars st count src).2.1.atEof = true := by
  unfold getMoreChars; simp [h]

/-- with more calls than units left, the run detects the end of the input -/
theorem runMore_reaches_eof (counts : List Nat) (st : FillSt) (src : Src) (hok : src.ok) (hc : ∀ n ∈ counts, 1 ≤ n)
    (hlen : src.flat.length < counts.length) : (runMore counts st src).2.1.atEof = true := by
  induction counts generalizing st src with
  | nil => simp at hlen
  | cons n ns ih =>
    have hn : 1 ≤ n := hc n (by simp)
    have hns : ∀ m ∈ ns, 1 ≤ m := fun m hm => hc m (by simp [hm])
    unfold runMore
    by_cases he : (getMoreChars st n src).2.1.atEof = true
    · simp [he]
    · simp only [he, if_false, Bool.false_eq_true]
      have he' : (getMoreChars st n src).2.1.atEof = false := by simpa using he
      have h0 : st.atEof = false := by
        cases h : st.atEof with
        | false => rfl
        | true => exact absurd (getMoreChars_eof_stays st n src h) he
      have hp := getMoreChars_progress st n src hok hn he' h0
      have g := getMoreChars_spec st n src hok hn
      exact ih _ _ g.2.1 hns (by simp at hlen; omega)

/-- **the whole run**: the units handed to the scanner, followed by the normal form of what the source still holds, are the
    normal form of the input; once the end of the input has been detected they ARE the normal form of the input -/
theorem seenBy_spec (fix : Bool) (counts : List Nat) (src : Src) (hok : src.ok) (hc : ∀ n ∈ counts, 1 ≤ n)
    (hfix : fix = true ∨ ¬ startsCRCR src.flat) :
    (seenBy fix counts src).1 ++ normFrom (seenBy fix counts src).2.1.crPending (seenBy fix counts src).2.2.flat
      = normalizeEOL src.flat ∧
    ((seenBy fix counts src).2.1.atEof = true → (seenBy fix counts src).1 = normalizeEOL src.flat) ∧
    (src.flat.length ≤ counts.length → (seenBy fix counts src).2.1.atEof = true) := by
  have g := getFirstChar_spec fix src hok hfix
  unfold seenBy
  cases hg : getFirstChar fix src with
  | none =>
    rw [hg] at g
    simp only at g ⊢
    rw [g]; simp [normalizeEOL, normFrom_nil]
  | some r =>
    rw [hg] at g
    simp only at g ⊢
    have m := runMore_spec counts r.2.1 r.2.2 g.2.1 hc
    have key : r.1 ++ (runMore counts r.2.1 r.2.2).1 ++
        normFrom (runMore counts r.2.1 r.2.2).2.1.crPending (runMore counts r.2.1 r.2.2).2.2.flat
        = normalizeEOL src.flat := by
      rw [List.append_assoc, m.1, g.1]; rfl
    refine ⟨key, fun he => ?_, fun hl => ?_⟩
    · have := m.2 g.2.2.1 he
      rw [this, normFrom_nil, List.append_nil] at key
      exact key
    · exact runMore_reaches_eof counts r.2.1 r.2.2 g.2.1 hc (by omega)

end CifModel.Model.Fill
