import CifModel.Props.C01
import CifModel.Props.C01parse
/-
  Lemmas/LexGlue — the lexical glue between characters and tokens, for texts given as a flat list of CHUNKS:
  runs of whitespace atoms and tokens (block / frame headers, `save_`, `loop_`, data names, values in a presentation,
  table keys, brackets).  A small acceptor (`okC`) checks what the lexical grammar asks of such a text — the content of every
  token is admissible, every token is separated from its predecessor unless the grammar allows them to touch, a text field
  begins a line — and `feeds_chunks` proves: from any scanner position, if no line is over-long, the scanner of
  Model/Lexer.lean hands out exactly the tokens of the chunks, then END, silently (`Parser.Feeds`).

  The proof composes gD's scanner theorems (Props/C01.lean: C01_lex_sep, C01_lex_value_after_ws, C01_lex_key, C01_lex_name,
  C01_lex_keyword, C01_lex_bracket); nothing of the writer occurs here.
-/
namespace CifModel.Lemmas.LexGlue
open CifModel CifModel.Model CifModel.Model.Lexer CifModel.Model.Parser CifModel.Spec.Lexical CifModel.Spec.Grammar

/-- a token, with what is needed to print it -/
inductive Tk where
  | data (code : Str)                    -- data_<code>
  | save (code : Str)                    -- save_<code>
  | saveEnd                              -- save_
  | loopKw                               -- loop_
  | name (n : Str)                       -- a data name, underscore included
  | val (p : Presentation) (s : Str)     -- a value (also `?` and `.`: whitespace-delimited)
  | key (p : Presentation) (k : Str)     -- a table key: quoted string and colon
  | opn (c : CU)                         -- `[` or `{`
  | cls (c : CU)                         -- `]` or `}`
deriving Inhabited

inductive Chunk where
  | ws (a : List WsAtom)
  | tk (t : Tk)
deriving Inhabited

def Tk.chars : Tk → Str
  | .data code => [100, 97, 116, 97, 95] ++ code
  | .save code => [115, 97, 118, 101, 95] ++ code
  | .saveEnd => [115, 97, 118, 101, 95]
  | .loopKw => [108, 111, 111, 112, 95]
  | .name n => n
  | .val p s => renderValue p s
  | .key p k => renderValue p k ++ [58]
  | .opn c => [c]
  | .cls c => [c]

def Tk.spec : Tk → TokSpec
  | .data code => (.blockHead, code)
  | .save code => (.frameHead, code)
  | .saveEnd => (.frameTerm, [])
  | .loopKw => (.loopKw, [])
  | .name n => (.name, n)
  | .val p s => (p.tokType, s)
  | .key _ k => (.key, k)
  | .opn c => (if c = 91 then .olist else .otable, [c])
  | .cls c => (if c = 93 then .clist else .ctable, [c])

/-- what the lexical grammar asks of the token's content -/
def Tk.ok (dia : Dialect) : Tk → Bool
  | .data code => code != [] && nonBlankOk dia code
  | .save code => code != [] && nonBlankOk dia code
  | .saveEnd => true
  | .loopKw => true
  | .name n => match n with | 95 :: s => nonBlankOk dia s | _ => false
  | .val p s => admissible dia p s && (p != .bare || s.head? != some 59)
  | .key p k => dia == .cif2 && (p == .squote || p == .dquote || p == .tsquote || p == .tdquote) && admissible .cif2 p k
  | .opn c => dia == .cif2 && (c == 91 || c == 123)
  | .cls c => dia == .cif2 && (c == 93 || c == 125)

def Tk.isCls : Tk → Bool
  | .cls _ => true
  | _ => false

def Tk.isText : Tk → Bool
  | .val .text _ => true
  | _ => false

def renderChunks : List Chunk → Str
  | [] => []
  | .ws a :: r => renderWs a ++ renderChunks r
  | .tk t :: r => t.chars ++ renderChunks r

def toks : List Chunk → List TokSpec
  | [] => []
  | .ws _ :: r => toks r
  | .tk t :: r => t.spec :: toks r

theorem renderChunks_append (a b : List Chunk) : renderChunks (a ++ b) = renderChunks a ++ renderChunks b := by
  induction a with
  | nil => rfl
  | cons x r ih => cases x <;> simp [renderChunks, ih]

theorem toks_append (a b : List Chunk) : toks (a ++ b) = toks a ++ toks b := by
  induction a with
  | nil => rfl
  | cons x r ih => cases x <;> simp [toks, ih]

theorem renderWs_append (a b : List WsAtom) : renderWs (a ++ b) = renderWs a ++ renderWs b := by
  simp [renderWs]

/-! ### the acceptor -/

/-- pending whitespace `w` behind a token of type `lt`: well-formed atoms; a comment cannot touch the token -/
def wOk (dia : Dialect) (lt : TokType) (w : List WsAtom) : Prop :=
  (∀ a ∈ w, a.ok dia = true) ∧ (afterWsOf lt = true ∨ ∀ b rest, w ≠ WsAtom.comment b :: rest)

/-- token `t` may touch a preceding token of type `lt` -/
def adjOk (lt : TokType) (t : Tk) : Bool :=
  afterWsOf lt || (t.isCls && (lt == .value || lt == .qvalue || lt == .tvalue || lt == .clist || lt == .ctable))

/-- the acceptor: `lt` = type of the last token, `w` = whitespace seen since -/
def okC (dia : Dialect) : TokType → List WsAtom → List Chunk → Prop
  | lt, w, [] => wOk dia lt w
  | lt, w, .ws a :: r => okC dia lt (w ++ a) r
  | lt, w, .tk t :: r =>
    wOk dia lt w ∧ t.ok dia = true ∧ (w ≠ [] ∨ adjOk lt t = true) ∧ (t.isText = true → w.getLast? = some .eol)
      ∧ okC dia t.spec.1 [] r

/-- the acceptor without the final check (composes over `++`) -/
def okP (dia : Dialect) : TokType → List WsAtom → List Chunk → Prop
  | _, _, [] => True
  | lt, w, .ws a :: r => okP dia lt (w ++ a) r
  | lt, w, .tk t :: r =>
    wOk dia lt w ∧ t.ok dia = true ∧ (w ≠ [] ∨ adjOk lt t = true) ∧ (t.isText = true → w.getLast? = some .eol)
      ∧ okP dia t.spec.1 [] r

/-- the acceptor's state behind the chunks -/
def stAfter : TokType → List WsAtom → List Chunk → TokType × List WsAtom
  | lt, w, [] => (lt, w)
  | lt, w, .ws a :: r => stAfter lt (w ++ a) r
  | _, _, .tk t :: r => stAfter t.spec.1 [] r

theorem stAfter_append (a b : List Chunk) : ∀ (lt : TokType) (w : List WsAtom),
    stAfter lt w (a ++ b) = stAfter (stAfter lt w a).1 (stAfter lt w a).2 b := by
  induction a with
  | nil => intro lt w; rfl
  | cons x r ih => intro lt w; cases x <;> simp [stAfter, ih]

theorem okP_append (dia : Dialect) (a b : List Chunk) : ∀ (lt : TokType) (w : List WsAtom),
    okP dia lt w (a ++ b) ↔ (okP dia lt w a ∧ okP dia (stAfter lt w a).1 (stAfter lt w a).2 b) := by
  induction a with
  | nil => intro lt w; simp [okP, stAfter]
  | cons x r ih =>
    intro lt w
    cases x with
    | ws a => simp only [List.cons_append, okP, stAfter]; exact ih lt (w ++ a)
    | tk t =>
      simp only [List.cons_append, okP, stAfter]
      rw [ih]
      constructor
      · rintro ⟨h1, h2, h3, h4, h5, h6⟩; exact ⟨⟨h1, h2, h3, h4, h5⟩, h6⟩
      · rintro ⟨⟨h1, h2, h3, h4, h5⟩, h6⟩; exact ⟨h1, h2, h3, h4, h5, h6⟩

theorem okC_of_okP (dia : Dialect) (cs : List Chunk) : ∀ (lt : TokType) (w : List WsAtom),
    okP dia lt w cs → wOk dia (stAfter lt w cs).1 (stAfter lt w cs).2 → okC dia lt w cs := by
  induction cs with
  | nil => intro lt w _ h; exact h
  | cons x r ih =>
    intro lt w hp hw
    cases x with
    | ws a => exact ih lt (w ++ a) hp hw
    | tk t =>
      obtain ⟨h1, h2, h3, h4, h5⟩ := hp
      exact ⟨h1, h2, h3, h4, ih _ _ h5 hw⟩

theorem wOk_prefix {dia : Dialect} {lt : TokType} {w a : List WsAtom} (h : wOk dia lt (w ++ a)) : wOk dia lt w := by
  refine ⟨fun x hx => h.1 x (by simp [hx]), ?_⟩
  rcases h.2 with h2 | h2
  · exact Or.inl h2
  · refine Or.inr ?_
    intro b rest hw
    exact h2 b (rest ++ a) (by rw [hw]; rfl)

theorem okC_wOk (dia : Dialect) (cs : List Chunk) : ∀ (lt : TokType) (w : List WsAtom), okC dia lt w cs → wOk dia lt w := by
  induction cs with
  | nil => intro lt w h; exact h
  | cons x r ih =>
    intro lt w h
    cases x with
    | ws a => exact wOk_prefix (ih lt (w ++ a) h)
    | tk t => exact h.1

/-! ### what follows a token -/

/-- behind a token that needs separation, an accepted continuation is empty, begins with whitespace, or — behind a value or a
    closing bracket, in CIF 2.0 — with a closing bracket -/
theorem head_info (dia : Dialect) (cs : List Chunk) (lt : TokType) (h : okC dia lt [] cs) (haw : afterWsOf lt = false) :
    renderChunks cs = [] ∨ (∃ c rest, renderChunks cs = c :: rest ∧ isWs c = true)
    ∨ (dia = .cif2 ∧ (lt = .value ∨ lt = .qvalue ∨ lt = .tvalue ∨ lt = .clist ∨ lt = .ctable)
        ∧ ∃ c rest, renderChunks cs = c :: rest ∧ (c = 93 ∨ c = 125)) := by
  induction cs with
  | nil => exact Or.inl rfl
  | cons x r ih =>
    cases x with
    | ws a =>
      cases a with
      | nil =>
        have := ih (by simpa [okC] using h)
        simpa [renderChunks, renderWs] using this
      | cons x as =>
        have hw := okC_wOk dia r lt ([] ++ x :: as) h
        have hx := hw.1 x (by simp)
        have hnc := hw.2
        rw [haw] at hnc
        refine Or.inr (Or.inl ?_)
        cases x with
        | blank c =>
          refine ⟨c, renderWs as ++ renderChunks r, by simp [renderChunks, renderWs, WsAtom.render], ?_⟩
          simp only [WsAtom.ok] at hx
          simp [isWs, hx]
        | eol => exact ⟨10, renderWs as ++ renderChunks r, by simp [renderChunks, renderWs, WsAtom.render], by decide⟩
        | comment b =>
          rcases hnc with hnc | hnc
          · cases hnc
          · exact absurd rfl (hnc b as)
    | tk t =>
      obtain ⟨_, hok, hadj, _, _⟩ := h
      rcases hadj with hadj | hadj
      · exact absurd rfl hadj
      · simp only [adjOk, haw, Bool.false_or, Bool.and_eq_true, Bool.or_eq_true, beq_iff_eq] at hadj
        obtain ⟨hc, hlt⟩ := hadj
        cases t with
        | cls c =>
          simp only [Tk.ok, Bool.and_eq_true, beq_iff_eq, Bool.or_eq_true] at hok
          refine Or.inr (Or.inr ⟨hok.1, ?_, c, renderChunks r, rfl, hok.2⟩)
          rcases hlt with (((h | h) | h) | h) | h <;> simp [h]
        | _ => cases hc

theorem follow_val (dia : Dialect) (cs : List Chunk) (lt : TokType) (h : okC dia lt [] cs)
    (hlt : lt = .value ∨ lt = .qvalue ∨ lt = .tvalue) : followOk dia (renderChunks cs) = true := by
  have haw : afterWsOf lt = false := by rcases hlt with h | h | h <;> subst h <;> rfl
  rcases head_info dia cs lt h haw with h | ⟨c, rest, h, hc⟩ | ⟨hd, _, c, rest, h, hc⟩
  · rw [h]; rfl
  · rw [h]; simp [followOk, hc]
  · rw [h]; subst hd; rcases hc with hc | hc <;> subst hc <;> simp [followOk]

theorem follow_ws (dia : Dialect) (cs : List Chunk) (lt : TokType) (h : okC dia lt [] cs)
    (hlt : lt = .blockHead ∨ lt = .frameHead ∨ lt = .frameTerm ∨ lt = .loopKw ∨ lt = .name) : wsOrEnd (renderChunks cs) = true := by
  have haw : afterWsOf lt = false := by rcases hlt with h | h | h | h | h <;> subst h <;> rfl
  rcases head_info dia cs lt h haw with h | ⟨c, rest, h, hc⟩ | ⟨_, hl, _⟩
  · rw [h]; rfl
  · rw [h]; simp [wsOrEnd, hc]
  · rcases hlt with h | h | h | h | h <;> subst h <;> simp at hl

/-! ### one token -/

def ltOf (b : Bool) : TokType := if b then .end_ else .name

theorem afterWsOf_ltOf (b : Bool) : afterWsOf (ltOf b) = b := by cases b <;> rfl

/-- what must follow the token in the input -/
def tkFollow (dia : Dialect) (t : Tk) (ctx : Str) : Bool :=
  match t with
  | .val _ _ => followOk dia ctx
  | .key _ _ => true
  | .opn _ => true
  | .cls _ => true
  | _ => wsOrEnd ctx

theorem sep_then (dia : Dialect) (w : List WsAtom) (R : Str) (line col : Nat) (lt : TokType) (pol : Policy) (log : List Report)
    (hw : wOk dia lt w) (hfit : linesFit col (renderWs w) = true) :
    nextToken dia ⟨renderWs w ++ R, line, col, lt⟩ pol log
      = nextToken dia ⟨R, (posAfter line col (renderWs w)).1, (posAfter line col (renderWs w)).2,
          ltOf (afterWsOf lt || !w.isEmpty)⟩ pol log :=
  C01_lex_sep dia w R line col lt _ pol log hw.1 hfit hw.2 (afterWsOf_ltOf _)

theorem colAdd_append (a b : Str) : colAdd (a ++ b) = colAdd a + colAdd b := by
  simp [colAdd, List.filter_append]

theorem posAfter_eol_last (w : List WsAtom) (h : w.getLast? = some .eol) (line col : Nat) :
    (posAfter line col (renderWs w)).2 = 0 := by
  obtain ⟨w', rfl⟩ := List.getLast?_eq_some_iff.mp h
  rw [renderWs_append, posAfter_append]
  simp [renderWs, WsAtom.render, posAfter]

theorem noeol_of_nonBlank {dia : Dialect} {s : Str} (h : nonBlankOk dia s = true) : s.all (fun x => !isEol x) = true := by
  simp only [nonBlankOk, Bool.and_eq_true, List.all_eq_true] at h ⊢
  intro x hx
  have := h.2 x hx
  simp only [isWs, Bool.not_eq_true', Bool.or_eq_false_iff] at this
  simp [this.2]

/-- the scanner reads the token behind the pending whitespace and stops behind it, at the position the specification gives -/
theorem tk_step (dia : Dialect) (t : Tk) (w : List WsAtom) (ctx : Str) (line col : Nat) (lt : TokType)
    (hw : wOk dia lt w) (hok : t.ok dia = true) (hadj : w ≠ [] ∨ adjOk lt t = true)
    (htext : t.isText = true → w.getLast? = some .eol)
    (hfit : linesFit col (renderWs w ++ t.chars) = true) (hctx : tkFollow dia t ctx = true) (pol : Policy) (log : List Report) :
    nextToken dia ⟨renderWs w ++ (t.chars ++ ctx), line, col, lt⟩ pol log
      = .ok (⟨t.spec.1, t.spec.2, (posAfter line col (renderWs w ++ t.chars)).1, (posAfter line col (renderWs w ++ t.chars)).2⟩,
             ⟨ctx, (posAfter line col (renderWs w ++ t.chars)).1, (posAfter line col (renderWs w ++ t.chars)).2, t.spec.1⟩) log := by
  rw [linesFit_append] at hfit
  simp only [Bool.and_eq_true] at hfit
  obtain ⟨hfw, hft⟩ := hfit
  rw [posAfter_col_indep _ 0 line] at hft
  rw [sep_then dia w _ line col lt pol log hw hfw, posAfter_append]
  generalize hl' : (posAfter line col (renderWs w)).1 = l' at *
  generalize hc' : (posAfter line col (renderWs w)).2 = c' at *
  -- whitespace has been seen, or none is needed (all tokens but the closing brackets)
  have haw : t.isCls = false → afterWsOf (ltOf (afterWsOf lt || !w.isEmpty)) = true := by
    intro hcl
    rw [afterWsOf_ltOf]
    rcases hadj with h | h
    · cases w with
      | nil => exact absurd rfl h
      | cons a r => simp
    · simp only [adjOk, hcl, Bool.false_and, Bool.or_false] at h
      simp [h]
  cases t with
  | data code =>
    simp only [Tk.ok, Bool.and_eq_true, bne_iff_ne, ne_eq] at hok
    have := (C01_lex_keyword dia 100 97 116 97 95 code ctx l' c' _ pol log (haw rfl) hok.2 hctx).1 (by decide) hok.1
    simp only [Tk.chars, Tk.spec, List.cons_append, List.nil_append]
    rw [this]
    have hne : ([100, 97, 116, 97, 95] ++ code).all (fun x => !isEol x) = true := by
      rw [List.all_append, noeol_of_nonBlank hok.2]; rfl
    have e : (100 : CU) :: 97 :: 116 :: 97 :: 95 :: code = [100, 97, 116, 97, 95] ++ code := rfl
    rw [e, posAfter_noeol _ hne, colAdd_append]
    have : colAdd [100, 97, 116, 97, 95] = 5 := by decide
    rw [this, Nat.add_assoc]
  | save code =>
    simp only [Tk.ok, Bool.and_eq_true, bne_iff_ne, ne_eq] at hok
    have := (C01_lex_keyword dia 115 97 118 101 95 code ctx l' c' _ pol log (haw rfl) hok.2 hctx).2.1 (by decide)
    simp only [hok.1, if_false] at this
    simp only [Tk.chars, Tk.spec, List.cons_append, List.nil_append]
    rw [this]
    have hne : ([115, 97, 118, 101, 95] ++ code).all (fun x => !isEol x) = true := by
      rw [List.all_append, noeol_of_nonBlank hok.2]; rfl
    have e : (115 : CU) :: 97 :: 118 :: 101 :: 95 :: code = [115, 97, 118, 101, 95] ++ code := rfl
    rw [e, posAfter_noeol _ hne, colAdd_append]
    have : colAdd [115, 97, 118, 101, 95] = 5 := by decide
    rw [this, Nat.add_assoc]
  | saveEnd =>
    have := (C01_lex_keyword dia 115 97 118 101 95 [] ctx l' c' _ pol log (haw rfl) (by rfl) hctx).2.1 (by decide)
    simp only [if_true, List.nil_append, colAdd_nil, Nat.add_zero] at this
    simp only [Tk.chars, Tk.spec, List.cons_append, List.nil_append]
    rw [this]
    simp [posAfter, isTrailU]
  | loopKw =>
    have := (C01_lex_keyword dia 108 111 111 112 95 [] ctx l' c' _ pol log (haw rfl) (by rfl) hctx).2.2 (by decide)
    simp only [Tk.chars, Tk.spec, List.cons_append, List.nil_append]
    rw [this]
    simp [posAfter, isTrailU]
  | name n =>
    cases n with
    | nil => simp [Tk.ok] at hok
    | cons u s =>
      by_cases hu : u = 95
      · subst hu
        simp only [Tk.ok] at hok
        have := C01_lex_name dia s ctx l' c' _ pol log (haw rfl) hok hctx
        simp only [Tk.chars, Tk.spec, List.cons_append]
        rw [this]
        have hne : ((95 : CU) :: s).all (fun x => !isEol x) = true := by
          rw [List.all_cons, noeol_of_nonBlank hok]; rfl
        rw [posAfter_noeol _ hne, colAdd_cons]
        have : isTrailU 95 = false := by decide
        simp only [this, Bool.false_eq_true, if_false]
        rw [Nat.add_assoc]
      · exfalso
        simp only [Tk.ok] at hok
        split at hok
        · rename_i heq; injection heq with h1 _; exact hu h1
        · cases hok
  | val p s =>
    simp only [Tk.ok, Bool.and_eq_true, Bool.or_eq_true, bne_iff_ne, ne_eq] at hok
    have hstart : Spec.Lexical.startOk p s c' = true := by
      cases p with
      | text =>
        have := posAfter_eol_last w (htext rfl) line col
        rw [hc'] at this
        simp [Spec.Lexical.startOk, this]
      | bare =>
        rcases hok.2 with h | h
        · exact absurd rfl h
        · simp only [Spec.Lexical.startOk, semiOk, Bool.not_eq_true', Bool.and_eq_false_iff, beq_eq_false_iff_ne, ne_eq]
          exact Or.inl h
      | _ => rfl
    simp only [Tk.chars, Tk.spec]
    exact C01_lex_value dia p s ctx l' c' _ pol log (haw rfl) hok.1 hft hstart hctx
  | key p k =>
    simp only [Tk.ok, Bool.and_eq_true, Bool.or_eq_true, beq_iff_eq] at hok
    obtain ⟨⟨hd, hp⟩, hadm⟩ := hok
    subst hd
    simp only [Tk.chars] at hft
    rw [linesFit_append] at hft
    simp only [Bool.and_eq_true] at hft
    have := C01_lex_key p (by rcases hp with ((h | h) | h) | h <;> simp [h]) k ctx l' c' _ pol log (haw rfl) hadm hft.1
    simp only [Tk.chars, Tk.spec, List.append_assoc, List.cons_append, List.nil_append]
    exact this
  | opn c =>
    simp only [Tk.ok, Bool.and_eq_true, Bool.or_eq_true, beq_iff_eq] at hok
    obtain ⟨hd, hc⟩ := hok
    subst hd
    simp only [Tk.chars, Tk.spec, List.cons_append, List.nil_append]
    have h10 : ¬ c = 10 := by rcases hc with h | h <;> subst h <;> decide
    have htr : isTrailU c = false := by rcases hc with h | h <;> subst h <;> decide
    rw [posAfter_cons c h10 htr]
    simp only [posAfter]
    refine (C01_lex_bracket c _ _ ?_ ctx l' c' pol log).1
    rcases hc with h | h
    · subst h; exact Or.inl ⟨rfl, rfl, haw rfl⟩
    · subst h; exact Or.inr (Or.inr (Or.inl ⟨rfl, by decide, haw rfl⟩))
  | cls c =>
    simp only [Tk.ok, Bool.and_eq_true, Bool.or_eq_true, beq_iff_eq] at hok
    obtain ⟨hd, hc⟩ := hok
    subst hd
    simp only [Tk.chars, Tk.spec, List.cons_append, List.nil_append]
    have h10 : ¬ c = 10 := by rcases hc with h | h <;> subst h <;> decide
    have htr : isTrailU c = false := by rcases hc with h | h <;> subst h <;> decide
    rw [posAfter_cons c h10 htr]
    simp only [posAfter]
    refine (C01_lex_bracket c _ _ ?_ ctx l' c' pol log).1
    rcases hc with h | h
    · subst h; exact Or.inr (Or.inl ⟨rfl, rfl⟩)
    · subst h; exact Or.inr (Or.inr (Or.inr ⟨rfl, by decide⟩))

/-! ### all tokens -/

theorem tkFollow_of_okC (dia : Dialect) (t : Tk) (r : List Chunk) (h : okC dia t.spec.1 [] r) :
    tkFollow dia t (renderChunks r) = true := by
  cases t with
  | val p s => exact follow_val dia r _ h (by cases p <;> simp [Tk.spec, Presentation.tokType])
  | key p k => rfl
  | opn c => rfl
  | cls c => rfl
  | data code => exact follow_ws dia r _ h (Or.inl rfl)
  | save code => exact follow_ws dia r _ h (Or.inr (Or.inl rfl))
  | saveEnd => exact follow_ws dia r _ h (Or.inr (Or.inr (Or.inl rfl)))
  | loopKw => exact follow_ws dia r _ h (Or.inr (Or.inr (Or.inr (Or.inl rfl))))
  | name n => exact follow_ws dia r _ h (Or.inr (Or.inr (Or.inr (Or.inr rfl))))

/-- **the lexical glue**: an accepted chunk list without over-long lines makes the scanner hand out its tokens, then END -/
theorem feeds_chunks (o : Opts) : ∀ (cs : List Chunk) (w : List WsAtom) (line col : Nat) (lt : TokType),
    okC o.dia lt w cs → linesFit col (renderWs w ++ renderChunks cs) = true →
    Feeds o { scan := ⟨renderWs w ++ renderChunks cs, line, col, lt⟩, tok := none } (toks cs ++ [(.end_, [])]) := by
  intro cs
  induction cs with
  | nil =>
    intro w line col lt hok hfit
    simp only [renderChunks, List.append_nil] at hfit ⊢
    refine C01_feeds_of_lex (t := ⟨.end_, [], (posAfter line col (renderWs w)).1, (posAfter line col (renderWs w)).2⟩)
      (sc' := ⟨[], (posAfter line col (renderWs w)).1, (posAfter line col (renderWs w)).2, .end_⟩) ?_ (Feeds.nil _)
    intro pol log
    have h1 := sep_then o.dia w [] line col lt pol log hok hfit
    rw [List.append_nil] at h1
    rw [h1, nextToken_eq]
    rfl
  | cons x r ih =>
    intro w line col lt hok hfit
    cases x with
    | ws a =>
      have e : renderWs w ++ renderChunks (.ws a :: r) = renderWs (w ++ a) ++ renderChunks r := by
        simp [renderChunks, renderWs_append]
      rw [e] at hfit ⊢
      exact ih (w ++ a) line col lt hok hfit
    | tk t =>
      obtain ⟨hw, htok, hadj, htext, hrest⟩ := hok
      have e : renderWs w ++ renderChunks (.tk t :: r) = (renderWs w ++ t.chars) ++ renderChunks r := by
        simp [renderChunks]
      have hfit' := hfit
      rw [e, linesFit_append] at hfit'
      simp only [Bool.and_eq_true] at hfit'
      have hstep := tk_step o.dia t w (renderChunks r) line col lt hw htok hadj htext hfit'.1 (tkFollow_of_okC o.dia t r hrest)
      have hrec := ih [] (posAfter line col (renderWs w ++ t.chars)).1 (posAfter line col (renderWs w ++ t.chars)).2 t.spec.1 hrest
        (by rw [posAfter_col_indep _ line 0]; exact hfit'.2)
      exact C01_feeds_of_lex (t := ⟨t.spec.1, t.spec.2, _, _⟩) (fun pol log => hstep pol log) hrec

end CifModel.Lemmas.LexGlue
