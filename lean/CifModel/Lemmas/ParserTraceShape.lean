import CifModel.Lemmas.ParserTraceInv
import CifModel.Model.ParserStoreOps
/-
  Lemmas/ParserTraceShape (group gX; review rA finding A.1) — two facts about EVERY trace of EVERY parse that `SOp.docOk` does not carry:

    * `trace_paths_resolve`: the container a recorded call addresses EXISTS in the state in which the call is made
      (`SOp.resOk`: `getIn … path` of the replay of the calls before it is `some`; for a save-frame creation: the parent) — so the
      guards `∀ cc, getIn … = some cc → …` of `SOp.docOk` / `C03_…_calls_documented` are never vacuous;
    * `trace_shaped`: every cif_loop_add_packet directly follows the cif_container_create_loop / cif_loop_add_packet of the same
      container (`shapedFrom`: parse_loop makes no other store call between the creation of its loop and the last packet).

  Method: one more Hoare logic for the instrumented productions (`ST`), this time over (target, calls so far): pre- and
  postconditions may look at the recorded calls (`HTT` of Lemmas/ParserTraceInv cannot).  The invariant `Inv R`: the target is the
  replay of the calls, the calls so far are shaped and resolved, and every path in `R` resolves — `R` holds the container(s) the
  running productions work on; resolution is monotone under every store call (`res_apply`).
-/
set_option linter.unusedSimpArgs false
set_option linter.unusedVariables false

namespace CifModel.Model.Parser
open CifModel CifModel.Model CifModel.Model.Lexer CifModel.Gen.ErrCodes

/-! ### resolution of paths -/

/-- the path denotes a container -/
def ResL (norm : Str → Str) (p : Path) (cs : List Container) : Prop := (getIn norm p cs).isSome = true

theorem resL_ne_nil {norm : Str → Str} {p : Path} {cs : List Container} (h : ResL norm p cs) : p ≠ [] := by
  intro e; subst e; simp [ResL, getIn] at h

theorem find?_map_code (norm : Str → Str) (k : Str) (g : Container → Container) (hcode : ∀ c, (g c).code = c.code) (cs : List Container) :
    (cs.map g).find? (codeIs norm k) = (cs.find? (codeIs norm k)).map g := by
  rw [List.find?_map]
  have e : (codeIs norm k ∘ g) = codeIs norm k := by
    funext c; simp only [Function.comp, codeIs, hcode]
  rw [e]

theorem res_map (norm : Str → Str) (g : Container → Container) (hcode : ∀ c, (g c).code = c.code)
    (hfr : ∀ c p', ResL norm p' c.frames → ResL norm p' (g c).frames) :
    ∀ (p : Path) (cs : List Container), ResL norm p cs → ResL norm p (cs.map g)
  | [], _, h => by simp [ResL, getIn] at h
  | [k], cs, h => by
    simp only [ResL, getIn] at h ⊢
    rw [find?_map_code norm k g hcode]
    cases hf : cs.find? (codeIs norm k) with
    | none => rw [hf] at h; simp at h
    | some c => rfl
  | k :: k' :: ks, cs, h => by
    simp only [ResL, getIn] at h ⊢
    rw [find?_map_code norm k g hcode]
    cases hf : cs.find? (codeIs norm k) with
    | none => rw [hf] at h; simp at h
    | some c =>
      rw [hf] at h
      simp only [Option.map_some]
      exact hfr c (k' :: ks) h

theorem res_updIn (norm : Str → Str) (f : Container → Container) (hcode : ∀ c, (f c).code = c.code)
    (hfr : ∀ c p', ResL norm p' c.frames → ResL norm p' (f c).frames) :
    ∀ (q p : Path) (cs : List Container), ResL norm p cs → ResL norm p (updIn norm f q cs)
  | [], p, cs, h => by simpa [updIn] using h
  | [k], p, cs, h => by
    simp only [updIn]
    apply res_map norm _ _ _ p cs h
    · intro c; split
      · exact hcode c
      · rfl
    · intro c p' hp'; split
      · exact hfr c p' hp'
      · exact hp'
  | k :: k' :: ks, p, cs, h => by
    simp only [updIn]
    apply res_map norm _ _ _ p cs h
    · intro c; split <;> rfl
    · intro c p' hp'; split
      · exact res_updIn norm f hcode hfr (k' :: ks) p' c.frames hp'
      · exact hp'

theorem res_append (norm : Str → Str) (ys : List Container) : ∀ (p : Path) (cs : List Container), ResL norm p cs → ResL norm p (cs ++ ys)
  | [], _, h => by simp [ResL, getIn] at h
  | [k], cs, h => by
    simp only [ResL, getIn, List.find?_append] at h ⊢
    cases hf : cs.find? (codeIs norm k) with
    | none => rw [hf] at h; simp at h
    | some c => rfl
  | k :: k' :: ks, cs, h => by
    simp only [ResL, getIn, List.find?_append] at h ⊢
    cases hf : cs.find? (codeIs norm k) with
    | none => rw [hf] at h; simp at h
    | some c => rw [hf] at h; simpa using h

/-- **resolution is monotone**: no store call of the parser removes a container -/
theorem res_apply (o : Opts) (op : SOp) (p : Path) (c : Cif) (h : ResL o.norm p c) : ResL o.norm p (op.apply o c) := by
  cases op with
  | mkBlock code len => exact res_append o.norm _ p c h
  | mkFrame parent code len =>
    simp only [SOp.apply]
    refine res_updIn o.norm (fun c => Container.mk c.code (c.frames ++ [Container.mk code [] []]) c.loops)
      (fun _ => rfl) (fun cc p' hp' => ?_) parent p c h
    exact res_append o.norm _ p' cc.frames hp'
  | setVal path n v =>
    simp only [SOp.apply]
    refine res_updIn o.norm _ (fun cc => ?_) (fun cc p' hp' => ?_) path p c h
    · unfold setValueC; split <;> rfl
    · have : (setValueC o n v cc).frames = cc.frames := by unfold setValueC; split <;> rfl
      rw [this]; exact hp'
  | mkLoop path names =>
    simp only [SOp.apply]
    exact res_updIn o.norm (fun c => Container.mk c.code c.frames (c.loops ++ [{ category := none, names := names, packets := [] }]))
      (fun _ => rfl) (fun cc p' hp' => hp') path p c h
  | addPkt path vals =>
    simp only [SOp.apply]
    exact res_updIn o.norm (fun c => Container.mk c.code c.frames (addPacketLast c.loops vals))
      (fun _ => rfl) (fun cc p' hp' => hp') path p c h
  | prune path =>
    simp only [SOp.apply]
    refine res_updIn o.norm _ (fun cc => ?_) (fun cc p' hp' => ?_) path p c h
    · cases cc; rfl
    · cases cc; exact hp'

theorem res_new_block (o : Opts) (code : Str) (len : Bool) (c : Cif) : ResL o.norm [o.norm code] ((SOp.mkBlock code len).apply o c) := by
  simp only [ResL, getIn, SOp.apply, List.find?_append]
  cases c.find? (codeIs o.norm (o.norm code)) with
  | some _ => rfl
  | none => simp [codeIs, Container.code]

theorem res_block_exists (o : Opts) (k : Str) (c : Cif) (h : c.any (codeIs o.norm k) = true) : ResL o.norm [k] c := by
  simp only [ResL, getIn]
  obtain ⟨x, hx, hk⟩ := List.any_eq_true.mp h
  cases hf : c.find? (codeIs o.norm k) with
  | none => exact absurd hk (by simpa using List.find?_eq_none.mp hf x hx)
  | some _ => rfl

theorem res_new_frame (o : Opts) (parent : Path) (code : Str) (len : Bool) (c : Cif) (hp : ResL o.norm parent c) :
    ResL o.norm (parent ++ [o.norm code]) ((SOp.mkFrame parent code len).apply o c) := by
  simp only [ResL, SOp.apply]
  rw [getIn_snoc o.norm (o.norm code) parent _ (resL_ne_nil hp),
    getIn_updIn o (fun c => Container.mk c.code (c.frames ++ [Container.mk code [] []]) c.loops) (fun _ => rfl)]
  cases hg : getIn o.norm parent c with
  | none => simp [ResL, hg] at hp
  | some cc =>
    simp only [Option.map_some, Option.bind_some]
    show ((cc.frames ++ [Container.mk code [] []]).find? (codeIs o.norm (o.norm code))).isSome = true
    rw [List.find?_append]
    cases cc.frames.find? (codeIs o.norm (o.norm code)) with
    | some _ => rfl
    | none => simp [codeIs, Container.code]

theorem res_frame_exists (o : Opts) (parent : Path) (k : Str) (c : Cif)
    (h : (((getIn o.norm parent c).map Container.frames).getD []).any (codeIs o.norm k) = true) : ResL o.norm (parent ++ [k]) c := by
  cases hg : getIn o.norm parent c with
  | none => rw [hg] at h; simp at h
  | some cc =>
    rw [hg] at h
    simp only [Option.map_some, Option.getD_some] at h
    have hne : parent ≠ [] := by intro e; subst e; simp [getIn] at hg
    simp only [ResL]
    rw [getIn_snoc o.norm k parent c hne, hg]
    simp only [Option.bind_some]
    obtain ⟨x, hx, hk⟩ := List.any_eq_true.mp h
    cases hf : cc.frames.find? (codeIs o.norm k) with
    | none => exact absurd hk (by simpa using List.find?_eq_none.mp hf x hx)
    | some _ => rfl

/-! ### the invariant -/

/-- the container the call addresses (a save-frame creation: the parent) exists -/
def SOp.resOk (o : Opts) : SOp → Cif → Prop
  | .mkBlock .., _ => True
  | .mkFrame parent _ _, c => ResL o.norm parent c
  | .setVal path _ _, c => ResL o.norm path c
  | .mkLoop path _, c => ResL o.norm path c
  | .addPkt path _, c => ResL o.norm path c
  | .prune path, c => ResL o.norm path c

/-- calls newest first: every add_packet directly follows the create_loop / add_packet of the same container -/
def ShN : List SOp → Prop
  | [] => True
  | op :: rest => (∀ p v, op = SOp.addPkt p v → lastPath rest.head? = some p) ∧ ShN rest

/-- calls newest first: every call addresses an existing container in the state in which it is made -/
def ResN (o : Opts) (pre0 : Cif) : List SOp → Prop
  | [] => True
  | op :: rest => op.resOk o (replay o rest pre0) ∧ ResN o pre0 rest

abbrev SP := Cif → List SOp → Prop

/-- the target is the replay of the calls, which are shaped and resolved; every path of `R` resolves -/
def SInv (o : Opts) (pre0 : Cif) (R : List Path) : SP := fun c ops =>
  c = replay o ops pre0 ∧ ShN ops ∧ ResN o pre0 ops ∧ ∀ p ∈ R, ResL o.norm p c

/-- … and the call made last is on the loop being filled -/
def SInvL (o : Opts) (pre0 : Cif) (R : List Path) (loopAt : Option Path) : SP := fun c ops =>
  SInv o pre0 R c ops ∧ ∀ p, loopAt = some p → lastPath ops.head? = some p

structure ST {α} (pre : SP) (mt : PT α) (post : α → SP) (ab : SP) : Prop where
  run : ∀ pol wt, pre wt.w.cif wt.ops →
    match mt pol wt with
    | .ok a wt' => post a wt'.w.cif wt'.ops
    | .abort _ wt' => ab wt'.w.cif wt'.ops

abbrev SPres {α} (I : SP) (mt : PT α) : Prop := ST I mt (fun _ => I) I

theorem ST.bind {α β} {pre : SP} {mid : α → SP} {post : β → SP} {ab : SP} {mt : PT α} {ft : α → PT β}
    (hm : ST pre mt mid ab) (hf : ∀ a, ST (mid a) (ft a) post ab) : ST pre (PT.bind mt ft) post ab := by
  constructor
  intro pol wt hp
  have h1 := hm.run pol wt hp
  simp only [PT.bind]
  cases hA : mt pol wt with
  | ok a wt1 => rw [hA] at h1; exact (hf a).run pol wt1 h1
  | abort r wt1 => rw [hA] at h1; exact h1

theorem ST.conseq {α} {pre pre' : SP} {post post' : α → SP} {ab ab' : SP} {mt : PT α} (h : ST pre mt post ab)
    (hpre : ∀ c ops, pre' c ops → pre c ops) (hpost : ∀ a c ops, post a c ops → post' a c ops) (hab : ∀ c ops, ab c ops → ab' c ops) :
    ST pre' mt post' ab' := by
  constructor
  intro pol wt hp
  have h1 := h.run pol wt (hpre _ _ hp)
  cases hA : mt pol wt with
  | ok a wt1 => rw [hA] at h1; exact hpost _ _ _ h1
  | abort r wt1 => rw [hA] at h1; exact hab _ _ h1

theorem ST.pure {α} {pre : SP} {post : α → SP} {ab : SP} (a : α) (h : ∀ c ops, pre c ops → post a c ops) : ST pre (PT.pure a) post ab :=
  ⟨fun _ wt hp => h _ _ hp⟩

/-- a production that does not store keeps the target and the calls: any predicate on them survives, and the result may be related
    to the (unchanged) target by a triple of the original logic -/
theorem ST.liftP {α} {I : SP} (m : P α) (hcif : ∀ c0 : Cif, Pres (fun c => c = c0) m) : SPres I (Parser.liftP m) := by
  constructor
  intro pol wt hp
  have h1 := (hcif wt.w.cif).run pol wt.w rfl
  simp only [Parser.liftP]
  cases hB : m pol wt.w with
  | ok a w1 =>
    rw [hB] at h1
    simp only [] at h1
    show I w1.cif wt.ops
    rw [h1]; exact hp
  | abort r w1 =>
    rw [hB] at h1
    simp only [] at h1
    show I w1.cif wt.ops
    rw [h1]; exact hp

theorem ST.getCif {I : SP} : ST I (Parser.liftP Parser.getCif) (fun a c ops => I c ops ∧ a = c) I :=
  ⟨fun _ wt hp => ⟨hp, rfl⟩⟩

theorem ST.emit {pre : SP} {post : Unit → SP} {ab : SP} (o : Opts) (op : SOp)
    (h : ∀ c ops, pre c ops → post () (op.apply o c) (op :: ops)) : ST pre (Parser.emit o op) post ab :=
  ⟨fun _ wt hp => h _ _ hp⟩

theorem SPres.bind {α β} {I : SP} {mt : PT α} {ft : α → PT β} (hm : SPres I mt) (hf : ∀ a, SPres I (ft a)) : SPres I (PT.bind mt ft) :=
  ST.bind hm hf

theorem SPres.pure {α} (I : SP) (a : α) : SPres I (PT.pure a) := ST.pure a (fun _ _ h => h)

theorem SPres.ite {α} {I : SP} {c : Prop} [Decidable c] {a b : PT α} (ha : SPres I a) (hb : SPres I b) : SPres I (if c then a else b) := by
  split
  · exact ha
  · exact hb

theorem SPres.clamp {I : SP} {mt : PT Unit} (h : SPres I mt) : SPres I (clampT mt) := by
  constructor
  intro pol wt hp
  have h1 := h.run pol wt hp
  simp only [clampT]
  cases hA : mt pol wt with
  | ok a wt1 => rw [hA] at h1; exact h1
  | abort r wt1 =>
    rw [hA] at h1
    have h1' : I wt1.w.cif wt1.ops := h1
    by_cases hc : r > 0
    · simp only [hc, if_true]; exact h1'
    · simp only [hc, if_false]; exact h1'

/-- `stq [h₁, …]`: decompose an instrumented production into the closure lemmas -/
syntax "stq" "[" term,* "]" : tactic
macro_rules
  | `(tactic| stq [$hs,*]) => `(tactic| repeat (first
      | exact SPres.pure _ _
      | exact ST.liftP _ (fun _ => by keepq)
      | (first $[| exact $hs ..]*)
      | apply SPres.bind
      | apply SPres.ite
      | intro _
      | split))

/-- one more call: the invariant is kept when the call's container is among the resolving paths and the shape condition holds -/
theorem SInv.emit {o : Opts} {pre0 : Cif} {R : List Path} {c : Cif} {ops : List SOp} (h : SInv o pre0 R c ops) (op : SOp)
    (hres : op.resOk o c) (hsh : ∀ p v, op = SOp.addPkt p v → lastPath ops.head? = some p) :
    SInv o pre0 R (op.apply o c) (op :: ops) := by
  obtain ⟨h1, h2, h3, h4⟩ := h
  refine ⟨by rw [h1]; rfl, ⟨hsh, h2⟩, ⟨by rw [← h1]; exact hres, h3⟩, fun p hp => res_apply o op p c (h4 p hp)⟩

theorem SInv.mono {o : Opts} {pre0 : Cif} {R R' : List Path} {c : Cif} {ops : List SOp} (h : SInv o pre0 R c ops)
    (hsub : ∀ p ∈ R', p ∈ R) : SInv o pre0 R' c ops :=
  ⟨h.1, h.2.1, h.2.2.1, fun p hp => h.2.2.2 p (hsub p hp)⟩

theorem ST.pull {α} {Q : SP} {p : Prop} {post : α → SP} {ab : SP} {mt : PT α} (h : p → ST Q mt post ab) :
    ST (fun c ops => Q c ops ∧ p) mt post ab :=
  ⟨fun pol wt hp => (h hp.2).run pol wt hp.1⟩

theorem ST.failThen {α β} {pre : SP} {post : β → SP} {ab : SP} (code : Int) (f : α → PT β) (h : ∀ c ops, pre c ops → ab c ops) :
    ST pre (PT.bind (Parser.liftP (Parser.fail code : P α)) f) post ab :=
  ⟨fun pol wt hp => by
    simp only [PT.bind, Parser.liftP, Parser.fail]
    exact h _ _ hp⟩

/-! ### the productions -/

variable {o : Opts} {pre0 : Cif}

theorem setValueT_S (R : List Path) (path : Path) (name : Str) (v : V) (hp : path ∈ R) :
    SPres (SInv o pre0 R) (setValueT o path name v) := by
  unfold setValueT
  apply SPres.ite
  · exact ST.liftP _ (fun _ => by keepq)
  · exact ST.emit o _ (fun c ops h => h.emit _ (h.2.2.2 path hp) (by intro p v e; cases e))

theorem SInvL.of {R : List Path} {c : Cif} {ops : List SOp} (h : SInv o pre0 R c ops) : SInvL o pre0 R none c ops :=
  ⟨h, fun p hp => by cases hp⟩

theorem addPacketT_S (R : List Path) (loopAt : Option Path) (p : List V) (hl : ∀ q, loopAt = some q → q ∈ R) :
    SPres (SInvL o pre0 R loopAt) (addPacketT o loopAt p) := by
  cases loopAt with
  | none => exact SPres.pure _ _
  | some path =>
    refine ST.emit o _ (fun c ops h => ⟨h.1.emit _ (h.1.2.2.2 path (hl path rfl)) ?_, ?_⟩)
    · intro q v e
      injection e with e1 _
      subst e1
      exact h.2 path rfl
    · intro q hq
      injection hq with hq
      subst hq
      rfl

section Productions
attribute [local irreducible] parseValue listLoop tableLoop tableEntry nextTok P.bind P.pure Parser.report Parser.fail
  headerLoop packetsLoop parseContainer elemsLoop blocksLoop PT.bind PT.pure Parser.liftP Parser.emit
  packetsLoopT parseContainerT elemsLoopT blocksLoopT

theorem parseItemT_S (R : List Path) (fuel : Nat) (s : PS) (cont : Option Path) (name : Option Str)
    (hcont : ∀ p, cont = some p → p ∈ R) : SPres (SInv o pre0 R) (parseItemT o fuel s cont name) := by
  unfold parseItemT
  simp only [bindT_eq, pureT_eq]
  cases cont with
  | none => cases name <;> simp only [] <;> stq []
  | some path =>
    have hs := fun name v => setValueT_S (o := o) (pre0 := pre0) R path name v (hcont path rfl)
    cases name <;> simp only [] <;> stq [hs]

theorem packetsLoopT_S (R : List Path) (loopAt : Option Path) (slots : List (Option Str)) (hl : ∀ q, loopAt = some q → q ∈ R) :
    ∀ (fuel : Nat) (s : PS) (k : Pk), SPres (SInvL o pre0 R loopAt) (packetsLoopT o loopAt slots fuel s k) := by
  intro fuel
  induction fuel with
  | zero => intro s k; rw [packetsLoopT]; exact ST.liftP _ (fun _ => by keepq)
  | succ fuel ih =>
    intro s k
    rw [packetsLoopT]
    simp only [bindT_eq, pureT_eq]
    have ha := fun p => addPacketT_S (o := o) (pre0 := pre0) R loopAt p hl
    stq [ha, ih]

theorem parseLoopT_S (R : List Path) (fuel : Nat) (s : PS) (cont : Option Path) (hcont : ∀ p, cont = some p → p ∈ R) :
    SPres (SInv o pre0 R) (parseLoopT o fuel s cont) := by
  unfold parseLoopT
  simp only [bindT_eq, pureT_eq]
  apply SPres.bind (ST.liftP _ (fun _ => by keepq))
  rintro ⟨slots, s1⟩
  simp only []
  apply SPres.ite
  · stq []
  · -- the rest, for a loop handle `la` that is among the resolving paths and (when present) was the target of the call made last
    have hrest : ∀ (la : Option Path) (m : PT PS), (∀ q, la = some q → q ∈ R) → SPres (SInvL o pre0 R la) m →
        ST (fun c ops => SInvL o pre0 R la c ops ∧ ∀ q, la = some q → q ∈ R) m (fun _ => SInv o pre0 R) (SInv o pre0 R) :=
      fun la m _ h => ST.pull (fun _ => h.conseq (fun _ _ h => h) (fun _ _ _ h => h.1) (fun _ _ h => h.1))
    have hpk := fun la (hla : ∀ q, la = some q → q ∈ R) => packetsLoopT_S (o := o) (pre0 := pre0) R la slots hla
    have hnone : ∀ c ops, SInv o pre0 R c ops → SInvL o pre0 R none c ops ∧ ∀ q, (none : Option Path) = some q → q ∈ R :=
      fun c ops h => ⟨SInvL.of h, fun q hq => by cases hq⟩
    have hK : ∀ (la : Option Path) (m : PT PS), SPres (SInvL o pre0 R la) m → (∀ q, la = some q → q ∈ R) →
        ST (SInvL o pre0 R la) m (fun _ => SInv o pre0 R) (SInv o pre0 R) :=
      fun la m h _ => h.conseq (fun _ _ h => h) (fun _ _ _ h => h.1) (fun _ _ h => h.1)
    cases cont with
    | none =>
      simp only []
      apply ST.bind (mid := fun la c ops => SInvL o pre0 R la c ops ∧ ∀ q, la = some q → q ∈ R) (ST.pure _ hnone)
      intro la
      apply ST.pull
      intro hla
      have hpk' := hpk la hla
      exact hK la _ (by stq [hpk']) hla
    | some path =>
      have hpR : path ∈ R := hcont path rfl
      simp only []
      split
      · apply ST.bind (mid := fun la c ops => SInvL o pre0 R la c ops ∧ ∀ q, la = some q → q ∈ R) (ST.pure _ hnone)
        intro la
        apply ST.pull
        intro hla
        have hpk' := hpk la hla
        exact hK la _ (by stq [hpk']) hla
      · split
        · exact ST.failThen _ _ (fun _ _ h => h)
        · apply ST.bind (mid := fun _ c ops => SInv o pre0 R c ops) (ST.liftP _ (fun _ => by keepq))
          intro cif
          have hcreate : ∀ (K : Option Path → PT PS), (∀ la, (∀ q, la = some q → q ∈ R) → SPres (SInvL o pre0 R la) (K la)) →
              ST (fun c ops => SInv o pre0 R c ops)
                ((Parser.emit o (.mkLoop path (List.filterMap id slots))).bind fun _ => (PT.pure (some path)).bind K)
                (fun _ => SInv o pre0 R) (SInv o pre0 R) := by
            intro K hKK
            apply ST.bind (mid := fun _ c ops => SInvL o pre0 R (some path) c ops)
            · refine ST.emit o _ (fun c ops h => ⟨h.emit _ (h.2.2.2 path hpR) (by intro p v e; cases e), ?_⟩)
              intro q hq
              injection hq with hq
              subst hq
              rfl
            · intro _
              apply ST.bind (mid := fun la c ops => SInvL o pre0 R la c ops ∧ ∀ q, la = some q → q ∈ R)
                (ST.pure _ (fun c ops h => ⟨h, fun q hq => by injection hq with hq; subst hq; exact hpR⟩))
              intro la
              apply ST.pull
              intro hla
              exact hK la _ (hKK la hla) hla
          split
          · simp only [Bool.false_eq_true, if_false]
            exact hcreate _ (fun la hla => by have hpk' := hpk la hla; stq [hpk'])
          · split
            · exact ST.failThen _ _ (fun _ _ h => h)
            · exact hcreate _ (fun la hla => by have hpk' := hpk la hla; stq [hpk'])

theorem createInT_S (R : List Path) (isBlock : Bool) (parent : Path) (code : Str) (line col : Nat)
    (hpar : isBlock = false → parent ∈ R) (hblk : isBlock = true → parent = []) :
    ST (SInv o pre0 R) (createInT o isBlock parent code line col) (fun p => SInv o pre0 (p :: R)) (SInv o pre0 R) := by
  unfold createInT
  simp only [bindT_eq, pureT_eq]
  apply ST.bind (mid := fun cif c ops => SInv o pre0 R c ops ∧ cif = c) ST.getCif
  intro cif
  cases isBlock <;> simp only [Bool.false_eq_true, if_false, if_true]
  · have hpR : parent ∈ R := hpar rfl
    -- report, keeping what is known
    have hrep : ∀ (cd : Code), ST (fun c ops => SInv o pre0 R c ops ∧ cif = c) (Parser.liftP (Parser.report cd line col))
        (fun _ c ops => SInv o pre0 R c ops ∧ cif = c) (SInv o pre0 R) :=
      fun cd => (ST.liftP (I := fun c ops => SInv o pre0 R c ops ∧ cif = c) _ (fun _ => by keepq)).conseq
        (fun _ _ h => h) (fun _ _ _ h => h) (fun _ _ h => h.1)
    have hdup : ((Option.map Container.frames (getIn o.norm parent cif)).getD []).any (codeIs o.norm (o.norm code)) = true →
        ∀ cd, ST (fun c ops => SInv o pre0 R c ops ∧ cif = c)
          ((Parser.liftP (Parser.report cd line col)).bind fun _ => PT.pure (parent ++ [o.norm code]))
          (fun p => SInv o pre0 (p :: R)) (SInv o pre0 R) := by
      intro hx cd
      apply ST.bind (hrep cd)
      intro _
      refine ST.pure _ (fun c ops h => ?_)
      obtain ⟨h1, rfl⟩ := h
      refine ⟨h1.1, h1.2.1, h1.2.2.1, ?_⟩
      intro p hp
      rcases List.mem_cons.mp hp with rfl | hp'
      · exact res_frame_exists o parent (o.norm code) cif hx
      · exact h1.2.2.2 p hp'
    have hadd : ∀ len, ST (fun c ops => SInv o pre0 R c ops ∧ cif = c)
        ((Parser.emit o (.mkFrame parent code len)).bind fun _ => PT.pure (parent ++ [o.norm code]))
        (fun p => SInv o pre0 (p :: R)) (SInv o pre0 R) := by
      intro len
      apply ST.bind (mid := fun _ c ops => SInv o pre0 ((parent ++ [o.norm code]) :: R) c ops)
      · refine ST.emit o _ (fun c ops h => ?_)
        obtain ⟨h1, rfl⟩ := h
        have h2 := h1.emit (.mkFrame parent code len) (h1.2.2.2 parent hpR) (by intro p v e; cases e)
        refine ⟨h2.1, h2.2.1, h2.2.2.1, ?_⟩
        intro p hp
        rcases List.mem_cons.mp hp with rfl | hp'
        · exact res_new_frame o parent code len cif (h1.2.2.2 parent hpR)
        · exact h2.2.2.2 p hp'
      · intro _
        exact ST.pure _ (fun _ _ h => h)
    split
    · apply ST.bind (hrep _)
      intro _
      split
      · rename_i hx; exact hdup hx _
      · exact hadd _
    · split
      · rename_i hx; exact hdup hx _
      · exact hadd _
  · have hp0 : parent = [] := hblk rfl
    subst hp0
    have hrep : ∀ (cd : Code), ST (fun c ops => SInv o pre0 R c ops ∧ cif = c) (Parser.liftP (Parser.report cd line col))
        (fun _ c ops => SInv o pre0 R c ops ∧ cif = c) (SInv o pre0 R) :=
      fun cd => (ST.liftP (I := fun c ops => SInv o pre0 R c ops ∧ cif = c) _ (fun _ => by keepq)).conseq
        (fun _ _ h => h) (fun _ _ _ h => h) (fun _ _ h => h.1)
    have hdup : cif.any (codeIs o.norm (o.norm code)) = true →
        ∀ cd, ST (fun c ops => SInv o pre0 R c ops ∧ cif = c)
          ((Parser.liftP (Parser.report cd line col)).bind fun _ => PT.pure ([] ++ [o.norm code]))
          (fun p => SInv o pre0 (p :: R)) (SInv o pre0 R) := by
      intro hx cd
      apply ST.bind (hrep cd)
      intro _
      refine ST.pure _ (fun c ops h => ?_)
      obtain ⟨h1, rfl⟩ := h
      refine ⟨h1.1, h1.2.1, h1.2.2.1, ?_⟩
      intro p hp
      rcases List.mem_cons.mp hp with rfl | hp'
      · exact res_block_exists o (o.norm code) cif hx
      · exact h1.2.2.2 p hp'
    have hadd : ∀ len, ST (fun c ops => SInv o pre0 R c ops ∧ cif = c)
        ((Parser.emit o (.mkBlock code len)).bind fun _ => PT.pure ([] ++ [o.norm code]))
        (fun p => SInv o pre0 (p :: R)) (SInv o pre0 R) := by
      intro len
      apply ST.bind (mid := fun _ c ops => SInv o pre0 (([] ++ [o.norm code]) :: R) c ops)
      · refine ST.emit o _ (fun c ops h => ?_)
        obtain ⟨h1, rfl⟩ := h
        have h2 := h1.emit (.mkBlock code len) trivial (by intro p v e; cases e)
        refine ⟨h2.1, h2.2.1, h2.2.2.1, ?_⟩
        intro p hp
        rcases List.mem_cons.mp hp with rfl | hp'
        · exact res_new_block o code len cif
        · exact h2.2.2.2 p hp'
      · intro _
        exact ST.pure _ (fun _ _ h => h)
    split
    · apply ST.bind (hrep _)
      intro _
      split
      · rename_i hx; exact hdup hx _
      · exact hadd _
    · split
      · rename_i hx; exact hdup hx _
      · exact hadd _

theorem pruneT_S (R : List Path) (path : Path) (hp : path ∈ R) : SPres (SInv o pre0 R) (Parser.emit o (.prune path)) :=
  ST.emit o _ (fun c ops h => h.emit _ (h.2.2.2 path hp) (by intro p v e; cases e))

theorem containersT_S : ∀ fuel : Nat,
    (∀ (R : List Path) (s : PS) (cont : Option Path) (isBlock : Bool), (∀ p, cont = some p → p ∈ R) →
      SPres (SInv o pre0 R) (parseContainerT o fuel s cont isBlock)) ∧
    (∀ (R : List Path) (s : PS) (cont : Option Path) (isBlock : Bool), (∀ p, cont = some p → p ∈ R) →
      SPres (SInv o pre0 R) (elemsLoopT o fuel s cont isBlock)) := by
  intro fuel
  induction fuel with
  | zero =>
    refine ⟨?_, ?_⟩ <;> intros
    · rw [parseContainerT]; exact ST.liftP _ (fun _ => by keepq)
    · rw [elemsLoopT]; exact ST.liftP _ (fun _ => by keepq)
  | succ fuel ih =>
    obtain ⟨hc, he⟩ := ih
    refine ⟨?_, ?_⟩
    · intro R s cont isBlock hcont
      rw [parseContainerT]
      simp only [bindT_eq, pureT_eq]
      have he' := fun s => he R s cont isBlock hcont
      cases cont with
      | none => simp only []; stq [he']
      | some path =>
        simp only []
        have hpr := pruneT_S (o := o) (pre0 := pre0) R path (hcont path rfl)
        stq [he', hpr]
    · intro R s cont isBlock hcont
      rw [elemsLoopT]
      simp only [bindT_eq, pureT_eq]
      have he' := fun s => he R s cont isBlock hcont
      have hp := fun s name => parseItemT_S (o := o) (pre0 := pre0) R fuel s cont name hcont
      have hl := fun s => parseLoopT_S (o := o) (pre0 := pre0) R fuel s cont hcont
      cases cont with
      | none =>
        have hc' := fun s isB => hc R s none isB (by intro p hp; cases hp)
        simp only []
        stq [hc', he', hp, hl]
      | some path =>
        have hpR : path ∈ R := hcont path rfl
        have hframe : ∀ (code : Str) (line col : Nat) (s' : PS), SPres (SInv o pre0 R)
            (PT.bind (createInT o false path code line col) fun fpath =>
              PT.bind (parseContainerT o fuel s' (some fpath) false) fun s => elemsLoopT o fuel s (some path) isBlock) := by
          intro code line col s'
          apply ST.bind (createInT_S R false path code line col (fun _ => hpR) (by intro h; cases h))
          intro fpath
          have h1 := hc (fpath :: R) s' (some fpath) false
            (by intro p hp; injection hp with hp; subst hp; exact List.mem_cons_self)
          have h2 := fun s => he (fpath :: R) s (some path) isBlock
            (by intro p hp; injection hp with hp; subst hp; exact List.mem_cons_of_mem _ hpR)
          exact (SPres.bind h1 h2).conseq (fun _ _ h => h) (fun _ _ _ h => h.mono (fun p hp => List.mem_cons_of_mem _ hp))
            (fun _ _ h => h.mono (fun p hp => List.mem_cons_of_mem _ hp))
        simp only []
        stq [hframe, he', hp, hl]

theorem blocksLoopT_S (R : List Path) : ∀ (fuel : Nat) (s : PS), SPres (SInv o pre0 R) (blocksLoopT o fuel s) := by
  intro fuel
  induction fuel with
  | zero => intro s; rw [blocksLoopT]; exact ST.liftP _ (fun _ => by keepq)
  | succ fuel ih =>
    intro s
    rw [blocksLoopT]
    simp only [bindT_eq, pureT_eq]
    have hc := (containersT_S (o := o) (pre0 := pre0) fuel).1
    -- the container at a resolving path (or none), then the next block
    have htail : ∀ (cont : Option Path) (s' : PS), ST (SInv o pre0 (cont.toList ++ R))
        ((parseContainerT o fuel s' cont true).bind fun s => blocksLoopT o fuel s) (fun _ => SInv o pre0 R) (SInv o pre0 R) := by
      intro cont s'
      have h1 := hc (cont.toList ++ R) s' cont true (by intro p hp; subst hp; simp)
      apply ST.bind (mid := fun _ => SInv o pre0 R)
        (h1.conseq (fun _ _ h => h) (fun _ _ _ h => h.mono (fun p hp => List.mem_append_right _ hp))
          (fun _ _ h => h.mono (fun p hp => List.mem_append_right _ hp)))
      intro s2
      exact ih s2
    have hnone : ∀ s', ST (SInv o pre0 R) ((PT.pure none).bind fun cont =>
        (parseContainerT o fuel s' cont true).bind fun s => blocksLoopT o fuel s) (fun _ => SInv o pre0 R) (SInv o pre0 R) := by
      intro s'
      apply ST.bind (mid := fun (cont : Option Path) => SInv o pre0 (cont.toList ++ R))
        (ST.pure (pre := SInv o pre0 R) none (fun _ _ h => h))
      intro cont
      exact htail cont s'
    have hsome : ∀ (p : Path) s', ST (SInv o pre0 (p :: R)) ((PT.pure (some p)).bind fun cont =>
        (parseContainerT o fuel s' cont true).bind fun s => blocksLoopT o fuel s) (fun _ => SInv o pre0 R) (SInv o pre0 R) := by
      intro p s'
      apply ST.bind (mid := fun (cont : Option Path) => SInv o pre0 (cont.toList ++ R))
        (ST.pure (pre := SInv o pre0 (p :: R)) (some p) (fun _ _ h => h))
      intro cont
      exact htail cont s'
    apply SPres.bind (ST.liftP _ (fun _ => by keepq))
    intro a
    split
    · split
      · apply ST.bind (createInT_S R true [] _ _ _ (by intro h; cases h) (fun _ => rfl))
        intro p
        exact hsome p _
      · exact hnone _
    · stq []
    · apply SPres.bind (ST.liftP _ (fun _ => by keepq))
      intro _
      split
      · apply ST.bind (mid := fun cif c ops => SInv o pre0 R c ops ∧ cif = c) ST.getCif
        intro cif
        split
        · rename_i hx
          refine ST.conseq (hsome [o.norm []] _) (fun c ops h => ?_) (fun _ _ _ h => h) (fun _ _ h => h)
          obtain ⟨h1, rfl⟩ := h
          refine ⟨h1.1, h1.2.1, h1.2.2.1, ?_⟩
          intro p hp
          rcases List.mem_cons.mp hp with rfl | hp'
          · exact res_block_exists o (o.norm []) cif hx
          · exact h1.2.2.2 p hp'
        · apply ST.bind (mid := fun _ c ops => SInv o pre0 ([o.norm []] :: R) c ops)
          · refine ST.emit o _ (fun c ops h => ?_)
            obtain ⟨h1, rfl⟩ := h
            have h2 := h1.emit (.mkBlock [] true) trivial (by intro p v e; cases e)
            refine ⟨h2.1, h2.2.1, h2.2.2.1, ?_⟩
            intro p hp
            rcases List.mem_cons.mp hp with rfl | hp'
            · exact res_new_block o [] true cif
            · exact h2.2.2.2 p hp'
          · intro _
            exact hsome _ _
      · exact hnone _

theorem parseCifT_S (R : List Path) (fuel : Nat) (s : PS) : SPres (SInv o pre0 R) (parseCifT o fuel s) := by
  unfold parseCifT
  simp only [bindT_eq, pureT_eq]
  exact SPres.clamp (SPres.bind (blocksLoopT_S R fuel s) (fun _ => SPres.pure _ _))

theorem afterFirstT_S (R : List Path) (fuel : Nat) (c : CU) (rest : Str) : SPres (SInv o pre0 R) (afterFirstT o fuel c rest) := by
  unfold afterFirstT
  simp only [bindT_eq, pureT_eq]
  have hp := parseCifT_S (o := o) (pre0 := pre0) R fuel
  stq [hp]

theorem parseInternalT_S (R : List Path) (fuel : Nat) (units : Str) : SPres (SInv o pre0 R) (parseInternalT o fuel units) := by
  cases units with
  | nil => exact SPres.pure _ _
  | cons c rest =>
    simp only [parseInternalT]
    have ha := afterFirstT_S (o := o) (pre0 := pre0) R fuel
    stq [ha]

end Productions

/-! ### the whole parse -/

/-- the invariant holds of the whole recorded trace (no hypothesis on the initial target) -/
theorem trace_sinv (o : Opts) (pol : Policy) (pre : Cif) (units : Str) :
    ∃ wt : WT, SInv o pre [] wt.w.cif wt.ops ∧ storeTrace o pol pre units = wt.ops.reverse := by
  have h0 : SInv o pre [] pre [] := ⟨rfl, trivial, trivial, fun p hp => by cases hp⟩
  have h1 := (parseInternalT_S (o := o) (pre0 := pre) [] (fuelFor units) units).run pol { w := { log := [], cif := pre }, ops := [] } h0
  unfold storeTrace parseT runT
  cases hA : parseInternalT o (fuelFor units) units pol { w := { log := [], cif := pre }, ops := [] } with
  | ok a wt => rw [hA] at h1; exact ⟨wt, h1, rfl⟩
  | abort r wt => rw [hA] at h1; exact ⟨wt, h1, rfl⟩

theorem ResN_get (o : Opts) (pre0 : Cif) : ∀ (ops : List SOp), ResN o pre0 ops → ∀ (k : Nat) (op : SOp), ops[k]? = some op →
    op.resOk o (replay o (ops.drop (k + 1)) pre0)
  | [], _, k, op, hk => by simp at hk
  | x :: rest, h, 0, op, hk => by
    simp only [List.getElem?_cons_zero, Option.some.injEq] at hk
    subst hk
    exact h.1
  | x :: rest, h, k + 1, op, hk => by
    simp only [List.getElem?_cons_succ] at hk
    exact ResN_get o pre0 rest h.2 k op hk

/-- **every recorded call addresses a container that EXISTS in the state in which the call is made** (a save-frame creation: the
    parent) — every option record, policy, input and initial target; `k`-th call of the trace, replay of the first `k` calls -/
theorem trace_paths_resolve (o : Opts) (pol : Policy) (pre : Cif) (units : Str) (k : Nat) (op : SOp)
    (hk : (storeTrace o pol pre units)[k]? = some op) :
    op.resOk o (((storeTrace o pol pre units).take k).foldl (fun c op => op.apply o c) pre) := by
  obtain ⟨wt, hh, he⟩ := trace_sinv o pol pre units
  rw [he] at hk ⊢
  have hlt : k < wt.ops.length := by
    have := (List.getElem?_eq_some_iff.mp hk).1
    simpa using this
  have hk' : wt.ops[wt.ops.length - 1 - k]? = some op := by
    rw [List.getElem?_reverse hlt] at hk
    exact hk
  have := ResN_get o pre wt.ops hh.2.2.1 (wt.ops.length - 1 - k) op hk'
  have e : wt.ops.length - 1 - k + 1 = wt.ops.length - k := by omega
  rw [e, replay_drop_eq o pre wt.ops k (by omega)] at this
  exact this

/-- the call made last, oldest-first reading -/
def lastOf (last : Option SOp) (l : List SOp) : Option SOp :=
  match l.getLast? with
  | some x => some x
  | none => last

theorem shapedFrom_snoc : ∀ (l : List SOp) (last : Option SOp) (op : SOp),
    shapedFrom last (l ++ [op]) = (shapedFrom last l &&
      (match op with
       | .addPkt p _ => lastPath (lastOf last l) == some p
       | _ => true))
  | [], last, op => by cases op <;> simp [shapedFrom, lastOf]
  | x :: r, last, op => by
    have ih := shapedFrom_snoc r (some x) op
    have hl : lastOf last (x :: r) = lastOf (some x) r := by
      unfold lastOf
      cases r with
      | nil => rfl
      | cons y r' =>
        simp only [List.getLast?_cons_cons]
        cases hg : (y :: r').getLast? with
        | none => simp at hg
        | some z => rfl
    simp only [List.cons_append, shapedFrom, ih, hl, Bool.and_assoc]

theorem shaped_of_ShN : ∀ ops : List SOp, ShN ops → shapedFrom none ops.reverse = true
  | [], _ => rfl
  | op :: rest, h => by
    rw [List.reverse_cons, shapedFrom_snoc, shaped_of_ShN rest h.2, Bool.true_and]
    have hl : lastOf none rest.reverse = rest.head? := by
      unfold lastOf
      rw [List.getLast?_reverse]
      cases rest.head? <;> rfl
    rw [hl]
    cases op with
    | addPkt p v => simp [h.1 p v rfl]
    | mkBlock _ _ => rfl
    | mkFrame _ _ _ => rfl
    | setVal _ _ _ => rfl
    | mkLoop _ _ => rfl
    | prune _ => rfl

/-- **every cif_loop_add_packet of every parse directly follows the cif_container_create_loop / cif_loop_add_packet of the same
    container** — every option record, policy, input and initial target -/
theorem trace_shaped (o : Opts) (pol : Policy) (pre : Cif) (units : Str) : shapedFrom none (storeTrace o pol pre units) = true := by
  obtain ⟨wt, hh, he⟩ := trace_sinv o pol pre units
  rw [he]
  exact shaped_of_ShN wt.ops hh.2.1

end CifModel.Model.Parser
