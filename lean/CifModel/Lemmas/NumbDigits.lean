import CifModel.Lemmas.NumbShift
/-
  Lemmas for C10_to_double_big, part 3: from the digit string to the fractions handed to `toDoubleCore`.
-/
namespace CifModel.Lemmas.NumbDigits
open CifModel.Model.Numb CifModel.Spec.Rounding CifModel.Lemmas.NumbRound CifModel.Lemmas.NumbToDouble CifModel.Lemmas.NumbShift

/-! ### value of a digit list -/

theorem foldl_digits (l : List Nat) (acc : Nat) :
    l.foldl (fun a d => a * 10 + d) acc = acc * 10 ^ l.length + l.foldl (fun a d => a * 10 + d) 0 := by
  induction l generalizing acc with
  | nil => simp
  | cons d r ih =>
    simp only [List.foldl_cons, List.length_cons]
    rw [ih (acc * 10 + d), ih (0 * 10 + d)]
    rw [Nat.pow_succ]
    grind

theorem natOfDigits_cons (d : Nat) (r : List Nat) : natOfDigits (d :: r) = d * 10 ^ r.length + natOfDigits r := by
  unfold natOfDigits
  simp only [List.foldl_cons]
  rw [foldl_digits r (0 * 10 + d)]
  simp

theorem natOfDigits_lt (l : List Nat) (h : ∀ d ∈ l, d ≤ 9) : natOfDigits l < 10 ^ l.length := by
  induction l with
  | nil => simp [natOfDigits]
  | cons d r ih =>
    rw [natOfDigits_cons]
    have hd : d ≤ 9 := h d (by simp)
    have hr := ih (fun x hx => h x (by simp [hx]))
    simp only [List.length_cons, Nat.pow_succ]
    have : d * 10 ^ r.length ≤ 9 * 10 ^ r.length := Nat.mul_le_mul_right _ hd
    omega

/-! ### powers of ten with integer exponents -/
def T (e : Int) : Nat := 10 ^ e.toNat
def B (e : Int) : Nat := 10 ^ (-e).toNat

theorem T_pos (e : Int) : 0 < T e := Nat.pow_pos (by decide)
theorem B_pos (e : Int) : 0 < B e := Nat.pow_pos (by decide)

theorem TB_add (a b : Int) : T (a + b) * B a * B b = T a * T b * B (a + b) := by
  unfold T B
  rw [← Nat.pow_add, ← Nat.pow_add, ← Nat.pow_add, ← Nat.pow_add]
  congr 1
  omega

theorem num_uniform (N : Nat) (l : Int) : (if l ≥ 0 then N * pow10 l.toNat else N) = N * T l := by
  unfold T pow10
  by_cases h : l ≥ 0
  · rw [if_pos h]
  · rw [if_neg h]
    have : l.toNat = 0 := by omega
    rw [this]; simp

theorem den_uniform (l : Int) : (if l ≥ 0 then 1 else pow10 (-l).toNat) = B l := by
  unfold B pow10
  by_cases h : l ≥ 0
  · rw [if_pos h]
    have : (-l).toNat = 0 := by omega
    rw [this]
  · rw [if_neg h]

/-- `V < U ≤ 2V` for `V = N·10^lsp`, `U = (d0+1)·10^(lsp+n)` when `d0·10^n ≤ N < (d0+1)·10^n`, `d0 ≥ 1` -/
theorem estimate_bounds (N d0 n : Nat) (lsp : Int) (hd0 : 1 ≤ d0) (h1 : d0 * 10 ^ n ≤ N) (h2 : N < (d0 + 1) * 10 ^ n) :
    (N * T lsp) * B (lsp + (n : Int)) < ((d0 + 1) * T (lsp + (n : Int))) * B lsp ∧
    ((d0 + 1) * T (lsp + (n : Int))) * B lsp ≤ 2 * (N * T lsp) * B (lsp + (n : Int)) := by
  have law := TB_add lsp (n : Int)
  have hBn : B (n : Int) = 1 := by
    unfold B
    have : (-(n : Int)).toNat = 0 := by omega
    rw [this]
  have hTn : T (n : Int) = 10 ^ n := by unfold T; simp
  rw [hBn, hTn, Nat.mul_one] at law
  -- law : T (lsp + n) * B lsp = T lsp * 10 ^ n * B (lsp + n)
  have hc : 0 < T lsp * B (lsp + (n : Int)) := Nat.mul_pos (T_pos _) (B_pos _)
  have eU : ((d0 + 1) * T (lsp + (n : Int))) * B lsp = ((d0 + 1) * 10 ^ n) * (T lsp * B (lsp + (n : Int))) := by
    calc ((d0 + 1) * T (lsp + (n : Int))) * B lsp = (d0 + 1) * (T (lsp + (n : Int)) * B lsp) := by grind
      _ = (d0 + 1) * (T lsp * 10 ^ n * B (lsp + (n : Int))) := by rw [law]
      _ = ((d0 + 1) * 10 ^ n) * (T lsp * B (lsp + (n : Int))) := by grind
  have eV : (N * T lsp) * B (lsp + (n : Int)) = N * (T lsp * B (lsp + (n : Int))) := by grind
  have eV2 : 2 * (N * T lsp) * B (lsp + (n : Int)) = (2 * N) * (T lsp * B (lsp + (n : Int))) := by grind
  rw [eU, eV, eV2]
  constructor
  · exact Nat.mul_lt_mul_of_pos_right h2 hc
  · apply Nat.mul_le_mul_right
    have : (d0 + 1) * 10 ^ n = d0 * 10 ^ n + 10 ^ n := by grind
    have : 10 ^ n ≤ d0 * 10 ^ n := Nat.le_mul_of_pos_left _ hd0
    omega


/-- `toDoubleBig` on a digit string without leading or trailing zeroes, of at most a line's length, whose magnitude is
    in the range where `to_double` does not short-cut: it is `toDoubleCore` on the fractions `N·10^-scale` and
    `(d0+1)·10^msp` -/
theorem toDoubleBig_norm (d0 : Nat) (rest : List Nat) (scale : Int) (hd0 : 1 ≤ d0)
    (htrail : (d0 :: rest).reverse.dropWhile (· = 0) = (d0 :: rest).reverse)
    (hlen : (d0 :: rest).length ≤ 2048)
    (hmsp1 : -scale + (rest.length : Int) ≤ 308) (hmsp2 : -322 < -scale + (rest.length : Int)) :
    toDoubleBig (d0 :: rest) scale =
      toDoubleCore (natOfDigits (d0 :: rest) * T (-scale)) (B (-scale))
        ((d0 + 1) * T (-scale + (rest.length : Int))) (B (-scale + (rest.length : Int))) := by
  have hlead : (d0 :: rest).dropWhile (· = 0) = d0 :: rest := by
    have : ¬ (d0 = 0) := by omega
    simp [List.dropWhile, this]
  unfold toDoubleBig
  simp only [hlead, htrail, List.reverse_reverse]
  have hne : ¬ (d0 :: rest = []) := by simp
  simp only [hne, if_false]
  simp only [List.length_cons, Nat.add_sub_cancel, Nat.sub_self, List.headD_cons]
  have c0 : (-scale + ((0 : Nat) : Int)) = -scale := by omega
  rw [c0]
  have hlong : decide (-scale + (rest.length : Int) - -scale ≥ ((CIF_LINE_LENGTH : Nat) : Int)) = false := by
    simp only [List.length_cons] at hlen
    unfold CIF_LINE_LENGTH
    simp only [decide_eq_false_iff_not]
    omega
  simp only [hlong]
  have c1 : ¬ (-scale + (rest.length : Int) > DBL_MAX_10_EXP) := by unfold DBL_MAX_10_EXP; omega
  have c2 : ¬ (-scale + (rest.length : Int) ≤ DBL_MIN_10_EXP - ((DBL_DIG : Nat) : Int)) := by
    unfold DBL_MIN_10_EXP DBL_DIG; omega
  simp only [c1, c2, if_false, Bool.false_eq_true]
  rw [num_uniform, den_uniform, num_uniform, den_uniform]


theorem flog2_low (un ud : Nat) (hun : 0 < un) (hud : 0 < ud) (hb : ud ≤ 2 ^ 1700) : -1739 ≤ flog2Rat un ud := by
  obtain ⟨_, s2⟩ := flog2Rat_spec un ud hun hud
  generalize flog2Rat un ud = k at *
  by_cases hk : k < -1739
  · exfalso
    have hP : P k = 1 := Q_nonpos_P k (by omega)
    rw [hP, Nat.one_mul] at s2
    have hQ : 2 ^ 1740 ≤ Q k := by
      unfold Q
      exact Nat.pow_le_pow_right (by decide) (by omega)
    have h1 : 1 * 2 ^ 1740 ≤ un * Q k := Nat.mul_le_mul hun hQ
    have h2 : (2 : Nat) ^ 1740 < 2 * 2 ^ 1700 := by omega
    have h3 : (2 : Nat) * 2 ^ 1700 = 2 ^ 1701 := by rw [Nat.mul_comm, ← Nat.pow_succ]
    rw [h3] at h2
    have := (Nat.pow_lt_pow_iff_right (by decide : 1 < 2)).mp h2
    omega
  · omega

theorem ten321_le : (10 : Nat) ^ 321 ≤ 2 ^ 1700 := by decide +kernel

/-- **to_double is IEEE round-to-nearest-even** on digit strings without leading/trailing zeroes (at most 2048 digits,
    most significant place in `(-322, 308]`): there is a pair `p` that is the rounding of `N·10^-scale` in the sense of
    `IsRne`, and whenever `p` is a normal double the model returns exactly `p`. -/
theorem toDoubleBig_rne (d0 : Nat) (rest : List Nat) (scale : Int) (hd0 : 1 ≤ d0) (hdig : ∀ d ∈ d0 :: rest, d ≤ 9)
    (htrail : (d0 :: rest).reverse.dropWhile (· = 0) = (d0 :: rest).reverse)
    (hlen : (d0 :: rest).length ≤ 2048)
    (hmsp1 : -scale + (rest.length : Int) ≤ 308) (hmsp2 : -322 < -scale + (rest.length : Int)) :
    ∃ p : Nat × Int, IsRne (natOfDigits (d0 :: rest) * T (-scale)) (B (-scale)) p ∧
      (InNormalRange p → toDoubleBig (d0 :: rest) scale = .fin false p.1 p.2) := by
  rw [toDoubleBig_norm d0 rest scale hd0 htrail hlen hmsp1 hmsp2]
  have hN := natOfDigits_cons d0 rest
  have hr := natOfDigits_lt rest (fun x hx => hdig x (by simp [hx]))
  have h1 : d0 * 10 ^ rest.length ≤ natOfDigits (d0 :: rest) := by omega
  have h2 : natOfDigits (d0 :: rest) < (d0 + 1) * 10 ^ rest.length := by
    have : (d0 + 1) * 10 ^ rest.length = d0 * 10 ^ rest.length + 10 ^ rest.length := by grind
    omega
  have hNpos : 0 < natOfDigits (d0 :: rest) := by
    have : 1 * 1 ≤ d0 * 10 ^ rest.length := Nat.mul_le_mul hd0 (Nat.pow_pos (by decide))
    omega
  obtain ⟨e1, e2⟩ := estimate_bounds (natOfDigits (d0 :: rest)) d0 rest.length (-scale) hd0 h1 h2
  have hnum0 : 0 < natOfDigits (d0 :: rest) * T (-scale) := Nat.mul_pos hNpos (T_pos _)
  have hun : 0 < (d0 + 1) * T (-scale + (rest.length : Int)) := Nat.mul_pos (by omega) (T_pos _)
  have hudle : B (-scale + (rest.length : Int)) ≤ 2 ^ 1700 := by
    refine Nat.le_trans ?_ ten321_le
    unfold B
    exact Nat.pow_le_pow_right (by decide) (by omega)
  have hlow := flog2_low _ _ hun (B_pos (-scale + (rest.length : Int))) hudle
  obtain ⟨Hlo, Hhi⟩ := rsMax_bounds _ _ _ _ hnum0 (B_pos (-scale)) hun (B_pos (-scale + (rest.length : Int))) e1 e2
  exact toDoubleCore_rne _ _ _ _ hnum0 (B_pos (-scale)) (by unfold DBL_MANT_DIG; omega) Hlo Hhi

end CifModel.Lemmas.NumbDigits
