import CifModel.Lemmas.StoreIterAbs
import CifModel.Lemmas.StoreSpecRefine
import CifModel.Lemmas.StoreRefineQ
/-
  Lemmas/StoreIterSpec — the packet-iterator calls commute with the abstraction to the documented model (`absS`, `absIter`) and
  return the documented codes, for an iterator tied to its store (`IterOk`) inside its transaction.
-/
namespace CifModel.Store
open Gen.ErrCodes

theorem findLoop_of_iter (it : Iter) (d : Db) (h : IterOk it d) (hinv : Inv d) :
    ∃ x ∈ d.loops, x.cid = it.cid ∧ x.loopNum = it.loopNum ∧ (absS d).findLoop it.cid it.loopNum = some (absALoop d x) := by
  obtain ⟨x, hx, k1, k2⟩ := h.loop
  exact ⟨x, hx, k1, k2, by rw [← k1, ← k2]; exact findLoop_valid d hinv x hx⟩

theorem zip_map_map {α β γ} (f : α → β) (g : α → γ) : ∀ L : List α, (L.map f).zip (L.map g) = L.map (fun a => (f a, g a))
  | [] => rfl
  | a :: as => by simp [zip_map_map f g as]

theorem packets_absALoop (d : Db) (x : LoopRow) :
    (absALoop d x).packets = (d.loopRows x.cid x.loopNum).map (fun r => (d.loopItems x.cid x.loopNum).map (fun j => cell d x.cid j r)) := rfl

/-- cif_pktitr_next_packet commutes with the abstraction: the documented model's next packet, the documented code -/
theorem nextPacket_spec_abs (s : Store) (it : Iter) (h : IterOk it s.db) (hg : Good s.db) (hs : s.autocommit = false) :
    absIter (nextPacket s it).1 s = (specItNext (absS s.db) (absIter it s)).1 ∧
    (nextPacket s it).2 = (specItNext (absS s.db) (absIter it s)).2 := by
  have hinv := hg.inv
  obtain ⟨x, hx, k1, k2, hfind⟩ := findLoop_of_iter it s.db h hinv
  have hL := loopRows_sorted s.db it.cid it.loopNum
  have hfind' : (absS s.db).findLoop (absIter it s).cid (absIter it s).num = some (absALoop s.db x) := hfind
  unfold specItNext
  rw [hfind']
  simp only []
  rw [packets_absALoop, k1, k2]
  cases hrows : it.rows with
  | nil =>
    have hfin : it.finished = true := by rw [h.fin, hrows]; rfl
    rw [nextPacket_finished s it hfin]
    have hdone : (absIter it s).done = (s.db.loopRows it.cid it.loopNum).length := by
      show it.doneIn s.db = _
      unfold Iter.doneIn Iter.pend
      rw [hrows]
      simp
    rw [hdone]
    simp
  | cons r rest =>
    obtain ⟨hd1, hrm⟩ := doneIn_pending it s.db h r rest hrows
    have hidx := sorted_index_of_mem _ hL r.rowNum hrm
    have hdone : (absIter it s).done = ((s.db.loopRows it.cid it.loopNum).filter (fun q => decide (q < r.rowNum))).length := hd1
    rw [hdone, List.getElem?_map, hidx]
    simp only [Option.map_some]
    rw [nextPacket_delivers s it s.db h hinv hs r rest hrows]
    simp only []
    refine ⟨?_, ?_⟩
    · -- the iterator afterwards
      have hok' := nextPacket_iterOk s it s.db h
      rw [nextPacket_delivers s it s.db h hinv hs r rest hrows] at hok'
      simp only [] at hok'
      have hpos : 0 < (r.rowNum : Int) := by
        have := hinv.rowPos r (h.fresh r (by rw [hrows]; exact List.mem_cons_self)).1
        omega
      obtain ⟨hd2, _⟩ := doneIn_current _ s.db hok' hpos
      unfold absIter
      simp only [hpos, decide_true]
      congr 1
      rw [hd2]
      simp only [Int.toNat_natCast]
      rw [sorted_count_le _ hL r.rowNum hrm]
    · congr 1
      rw [h.namesEq, List.map_map, ← k1, ← k2]
      have hit : (absALoop s.db x).items.map (·.1) = (s.db.loopItems x.cid x.loopNum).map (·.name) := by
        show ((s.db.loopItems x.cid x.loopNum).map (fun i => (i.name, i.nameOrig))).map (·.1) = _
        rw [List.map_map]; rfl
      rw [hit, zip_map_map]
      apply List.map_congr_left
      intro j _
      simp only [Function.comp]
      rfl

theorem map_eraseIdx {α β} (f : α → β) : ∀ (l : List α) (i : Nat), (l.eraseIdx i).map f = (l.map f).eraseIdx i
  | [], _ => rfl
  | _ :: _, 0 => rfl
  | a :: as, i + 1 => by simp [List.eraseIdx_cons_succ, map_eraseIdx f as i]

theorem find?_filter_of_imp {α} (p q : α → Bool) : ∀ l : List α, (∀ a ∈ l, p a = true → q a = true) → (l.filter q).find? p = l.find? p
  | [], _ => rfl
  | a :: as, h => by
    have ih := find?_filter_of_imp p q as (fun b hb => h b (List.mem_cons_of_mem _ hb))
    by_cases hq : q a = true
    · simp only [List.filter_cons, hq, if_true, List.find?_cons, ih]
    · have hp : p a = false := by
        cases hpa : p a with
        | false => rfl
        | true => exact absurd (h a List.mem_cons_self hpa) hq
      simp only [List.filter_cons, hq, Bool.false_eq_true, if_false, List.find?_cons, hp, ih]

/-- REMOVE_PACKET_SQL on the documented model: the packet of that row goes from the loop, nothing else changes -/
theorem removePacket_absALoop (d : Db) (hinv : Inv d) (cid ln row idx : Nat) (hidx : (d.loopRows cid ln)[idx]? = some row) :
    ∀ y ∈ d.loops, absALoop (d.removePacket cid ln row) y =
      if y.cid == cid && y.loopNum == ln then { absALoop d y with packets := (absALoop d y).packets.eraseIdx idx } else absALoop d y := by
  intro y hy
  have hvals : (d.removePacket cid ln row).values = d.values.filter (fun v => !(v.cid == cid && v.rowNum == row && (d.loopItems cid ln).any (fun i => i.name == v.name))) := rfl
  have hitems : ∀ c n, (d.removePacket cid ln row).loopItems c n = d.loopItems c n := fun _ _ => rfl
  -- a cell of a row other than the removed one is untouched
  have hcell : ∀ (j : ItemRow) (r : Nat), (y.cid = cid ∧ y.loopNum = ln → r ≠ row) → j ∈ d.loopItems y.cid y.loopNum →
      cell (d.removePacket cid ln row) y.cid j r = cell d y.cid j r := by
    intro j r hr hj
    unfold cell
    rw [hvals, find?_filter_of_imp]
    intro a _ hpa
    simp only [Bool.and_eq_true, beq_iff_eq] at hpa
    cases hb : (a.cid == cid && a.rowNum == row && (d.loopItems cid ln).any (fun i => i.name == a.name)) with
    | false => rfl
    | true =>
      exfalso
      simp only [Bool.and_eq_true, beq_iff_eq] at hb
      obtain ⟨b, hb1, hbn⟩ := List.any_eq_true.mp hb.2
      obtain ⟨hbm, hbk⟩ := List.mem_filter.mp hb1
      obtain ⟨hjm, hjk⟩ := List.mem_filter.mp hj
      simp at hbk hjk hbn
      have : b = j := itemKey_unique d.items hinv.itemPK b hbm j hjm (by rw [hbk.1, hjk.1, ← hpa.1.1, hb.1.1]) (by rw [hbn, hpa.1.2])
      subst this
      exact hr ⟨by rw [← hjk.1, hbk.1], by rw [← hjk.2, hbk.2]⟩ (by rw [← hpa.2, hb.1.2])
  by_cases hm : (y.cid == cid && y.loopNum == ln) = true
  · simp only [hm, if_true]
    have hmk : y.cid = cid ∧ y.loopNum = ln := by simpa using hm
    have hL := loopRows_sorted d y.cid y.loopNum
    have hrows : (d.removePacket cid ln row).loopRows y.cid y.loopNum = (d.loopRows y.cid y.loopNum).filter (fun q => !(q == row)) := by
      apply sorted_eq_of_mem_iff _ _ (loopRows_sorted (d.removePacket cid ln row) _ _) (hL.filter _)
      intro r
      rw [List.mem_filter]
      constructor
      · intro hr
        obtain ⟨w, hw, hwc, hwa, hwr⟩ := (mem_loopRows_iff _ _ _ _).mp hr
        rw [hvals] at hw
        obtain ⟨hw0, hwk⟩ := List.mem_filter.mp hw
        refine ⟨(mem_loopRows_iff d _ _ _).mpr ⟨w, hw0, hwc, hwa, hwr⟩, ?_⟩
        cases hb : (r == row) with
        | false => rfl
        | true =>
          exfalso
          have hrr : r = row := by simpa using hb
          have hwa' : (d.loopItems cid ln).any (fun i => i.name == w.name) = true := by rw [← hmk.1, ← hmk.2]; exact hwa
          have : (w.cid == cid && w.rowNum == row && (d.loopItems cid ln).any (fun i => i.name == w.name)) = true := by
            simp only [Bool.and_eq_true, beq_iff_eq]
            exact ⟨⟨by rw [hwc, hmk.1], by rw [hwr, hrr]⟩, hwa'⟩
          rw [this] at hwk; cases hwk
      · rintro ⟨hr, hne⟩
        obtain ⟨w, hw, hwc, hwa, hwr⟩ := (mem_loopRows_iff _ _ _ _).mp hr
        refine (mem_loopRows_iff _ _ _ _).mpr ⟨w, ?_, hwc, hwa, hwr⟩
        rw [hvals]
        refine List.mem_filter.mpr ⟨hw, ?_⟩
        have : (w.rowNum == row) = false := by
          cases hb : (w.rowNum == row) with
          | false => rfl
          | true => have : w.rowNum = row := by simpa using hb
                    rw [hwr] at this; rw [this] at hne; simp at hne
        simp [this]
    have hidx' : (d.loopRows y.cid y.loopNum)[idx]? = some row := by rw [hmk.1, hmk.2]; exact hidx
    rw [sorted_filter_ne_eraseIdx _ hL row idx hidx'] at hrows
    unfold absALoop
    simp only [hitems]
    congr 1
    rw [absLoop_eq, absLoop_eq]
    simp only [hitems, hrows]
    have hsub : ∀ r ∈ (d.loopRows y.cid y.loopNum).eraseIdx idx, r ≠ row := by
      intro r hr
      rw [← sorted_filter_ne_eraseIdx _ hL row idx hidx'] at hr
      have := (List.mem_filter.mp hr).2
      intro e; subst e; simp at this
    -- compare the two maps on the erased list, then push the erase outside
    have : ((d.loopRows y.cid y.loopNum).eraseIdx idx).map (fun r => (d.loopItems y.cid y.loopNum).map (fun j => cell (d.removePacket cid ln row) y.cid j r)) =
        ((d.loopRows y.cid y.loopNum).eraseIdx idx).map (fun r => (d.loopItems y.cid y.loopNum).map (fun j => cell d y.cid j r)) := by
      apply List.map_congr_left
      intro r hr
      apply List.map_congr_left
      intro j hj
      exact hcell j r (fun _ => hsub r hr) hj
    rw [← map_eraseIdx]; exact this
  · simp only [hm, Bool.false_eq_true, if_false]
    have hmk : ¬(y.cid = cid ∧ y.loopNum = ln) := by simpa using hm
    have hrows : (d.removePacket cid ln row).loopRows y.cid y.loopNum = d.loopRows y.cid y.loopNum := by
      apply sorted_eq_of_mem_iff _ _ (loopRows_sorted (d.removePacket cid ln row) _ _) (loopRows_sorted d _ _)
      intro r
      constructor
      · intro hr
        obtain ⟨w, hw, hwc, hwa, hwr⟩ := (mem_loopRows_iff _ _ _ _).mp hr
        rw [hvals] at hw
        exact (mem_loopRows_iff d _ _ _).mpr ⟨w, (List.mem_filter.mp hw).1, hwc, hwa, hwr⟩
      · intro hr
        obtain ⟨w, hw, hwc, hwa, hwr⟩ := (mem_loopRows_iff _ _ _ _).mp hr
        exact (mem_loopRows_iff _ _ _ _).mpr ⟨w, removePacket_keeps d hinv cid ln row y hmk w hw hwc hwa, hwc, hwa, hwr⟩
    unfold absALoop
    simp only [hitems]
    congr 1
    rw [absLoop_eq, absLoop_eq]
    simp only [hitems, hrows]
    apply List.map_congr_left
    intro r _
    apply List.map_congr_left
    intro j hj
    exact hcell j r (fun hk => absurd hk hmk) hj

theorem filter_filter_comm {α} (p q : α → Bool) (l : List α) : (l.filter p).filter q = (l.filter q).filter p := by
  rw [List.filter_filter, List.filter_filter]
  apply List.filter_congr
  intro a _
  exact Bool.and_comm _ _

theorem sorted_filter_ne_length (M : List Nat) (hM : M.Pairwise (· < ·)) (m : Nat) (hm : m ∈ M) :
    (M.filter (fun q => !(q == m))).length = M.length - 1 := by
  obtain ⟨k, hk, hget⟩ := List.getElem_of_mem hm
  have hidx : M[k]? = some m := by simp [hk, hget]
  rw [sorted_filter_ne_eraseIdx M hM m k hidx, List.length_eraseIdx]
  simp [hk]

/-- cif_pktitr_remove_packet commutes with the abstraction -/
theorem removePacket_spec_abs (s : Store) (it : Iter) (h : IterOk it s.db) (hg : Good s.db) (d0 : Db) (ht : s.txn = some d0) :
    absS (removePacket s it).1.db = (specItRemove (absS s.db) (absIter it s)).1 ∧
    absIter (removePacket s it).2.1 (removePacket s it).1 = (specItRemove (absS s.db) (absIter it s)).2.1 ∧
    (removePacket s it).2.2 = (specItRemove (absS s.db) (absIter it s)).2.2 := by
  have hinv := hg.inv
  have hs : s.autocommit = false := by simp [Store.autocommit, ht]
  have htxn := removePacket_txn s it
  unfold specItRemove
  by_cases hprev : it.prev ≤ 0
  · have hcur : (absIter it s).hasCur = false := by
      show decide (0 < it.prev) = false
      simp; omega
    have hrm : removePacket s it = (s, it, .error CIF_MISUSE) := by
      unfold removePacket; simp [hs, hprev]
    rw [hrm]
    simp [hcur]
  · have hpos : 0 < it.prev := by omega
    have hcur : (absIter it s).hasCur = true := by
      show decide (0 < it.prev) = true
      simp [hpos]
    simp only [hcur, Bool.not_true, Bool.false_eq_true, if_false]
    -- where the current row sits
    have hL := loopRows_sorted s.db it.cid it.loopNum
    obtain ⟨hd, hmem⟩ := doneIn_current it s.db h hpos
    have hcnt := sorted_count_le _ hL it.prev.toNat hmem
    have hidx : (s.db.loopRows it.cid it.loopNum)[(absIter it s).done - 1]? = some it.prev.toNat := by
      have : (absIter it s).done - 1 = ((s.db.loopRows it.cid it.loopNum).filter (fun q => decide (q < it.prev.toNat))).length := by
        show it.doneIn s.db - 1 = _
        rw [hd, hcnt]; omega
      rw [this]; exact sorted_index_of_mem _ hL _ hmem
    -- the database afterwards
    have hrm : ∃ d2 : Db, removePacket s it = ((({ s.save with db := d2 } : Store).release).getD s.save, { it with prev := -1 }, .ok ()) ∧
        (∀ y ∈ s.db.loops, ∃ y' , absALoop d2 y' = absALoop (s.db.removePacket it.cid it.loopNum it.prev.toNat) y ∧ True) ∧
        d2.loops.map (absALoop d2) = s.db.loops.map (absALoop (s.db.removePacket it.cid it.loopNum it.prev.toNat)) ∧
        d2.containers = s.db.containers ∧ d2.blocks = s.db.blocks ∧ d2.frames = s.db.frames ∧ d2.nextId = s.db.nextId ∧
        d2.loopRows it.cid it.loopNum = (s.db.removePacket it.cid it.loopNum it.prev.toNat).loopRows it.cid it.loopNum := by
      by_cases hsc : it.scalar = true
      · refine ⟨(s.db.removePacket it.cid it.loopNum it.prev.toNat).resetRowNum it.cid it.loopNum, ?_, ?_, ?_, rfl, rfl, rfl, rfl, rfl⟩
        · unfold removePacket; simp [hs, hprev, hsc]; rfl
        · intro y _; exact ⟨y, rfl, trivial⟩
        · show ((s.db.loops.map _).map _) = _
          rw [List.map_map]
          apply List.map_congr_left
          intro y _
          simp only [Function.comp]
          split <;> rfl
      · refine ⟨s.db.removePacket it.cid it.loopNum it.prev.toNat, ?_, ?_, rfl, rfl, rfl, rfl, rfl, rfl⟩
        · unfold removePacket; simp [hs, hprev, hsc]; rfl
        · intro y _; exact ⟨y, rfl, trivial⟩
    obtain ⟨d2, hrm, _, hloops, c1, c2, c3, c4, hrows2⟩ := hrm
    have hdb2 : ((({ s.save with db := d2 } : Store).release).getD s.save).db = d2 := by unfold Store.release Store.save; rfl
    rw [hrm]
    simp only []
    rw [hdb2]
    have hmap : s.db.loops.map (absALoop (s.db.removePacket it.cid it.loopNum it.prev.toNat)) =
        (s.db.loops.map (absALoop s.db)).map (fun y => if y.cid == it.cid && y.num == it.loopNum then
          { y with packets := y.packets.eraseIdx ((absIter it s).done - 1) } else y) := by
      rw [List.map_map]
      apply List.map_congr_left
      intro y hy
      rw [removePacket_absALoop s.db hinv it.cid it.loopNum it.prev.toNat _ hidx y hy]
      simp only [Function.comp]
      rfl
    refine ⟨?_, ?_, by first | rfl | trivial⟩
    · show ({ containers := d2.containers, blocks := d2.blocks, frames := d2.frames, nextId := d2.nextId, loops := d2.loops.map (absALoop d2) } : AState) = _
      rw [hloops, hmap, c1, c2, c3, c4]
      rfl
    · -- the iterator afterwards
      have htx2 : ((({ s.save with db := d2 } : Store).release).getD s.save).txn = s.txn := by
        have := htxn; rw [hrm] at this; exact this
      unfold absIter
      simp only [hdb2, htx2]
      have hdone : Iter.doneIn { it with prev := -1 } d2 = it.doneIn s.db - 1 := by
        unfold Iter.doneIn Iter.pend
        simp only []
        rw [hrows2]
        have hr : (s.db.removePacket it.cid it.loopNum it.prev.toNat).loopRows it.cid it.loopNum =
            (s.db.loopRows it.cid it.loopNum).filter (fun q => !(q == it.prev.toNat)) := by
          obtain ⟨x, hx, k1, k2⟩ := h.loop
          have := removePacket_absALoop s.db hinv it.cid it.loopNum it.prev.toNat _ hidx x hx
          -- read the rows off directly
          apply sorted_eq_of_mem_iff _ _ (loopRows_sorted _ _ _) (hL.filter _)
          intro r
          rw [List.mem_filter]
          constructor
          · intro hr
            obtain ⟨w, hw, hwc, hwa, hwr⟩ := (mem_loopRows_iff _ _ _ _).mp hr
            have hw' : w ∈ s.db.values.filter (fun v => !(v.cid == it.cid && v.rowNum == it.prev.toNat && (s.db.loopItems it.cid it.loopNum).any (fun i => i.name == v.name))) := hw
            obtain ⟨hw0, hwk⟩ := List.mem_filter.mp hw'
            refine ⟨(mem_loopRows_iff s.db _ _ _).mpr ⟨w, hw0, hwc, hwa, hwr⟩, ?_⟩
            cases hb : (r == it.prev.toNat) with
            | false => rfl
            | true =>
              exfalso
              have hrr : r = it.prev.toNat := by simpa using hb
              have : (w.cid == it.cid && w.rowNum == it.prev.toNat && (s.db.loopItems it.cid it.loopNum).any (fun i => i.name == w.name)) = true := by
                simp only [Bool.and_eq_true, beq_iff_eq]
                exact ⟨⟨hwc, by rw [hwr, hrr]⟩, hwa⟩
              rw [this] at hwk; cases hwk
          · rintro ⟨hr, hne⟩
            obtain ⟨w, hw, hwc, hwa, hwr⟩ := (mem_loopRows_iff _ _ _ _).mp hr
            refine (mem_loopRows_iff _ _ _ _).mpr ⟨w, ?_, hwc, hwa, hwr⟩
            show w ∈ s.db.values.filter (fun v => !(v.cid == it.cid && v.rowNum == it.prev.toNat && (s.db.loopItems it.cid it.loopNum).any (fun i => i.name == v.name)))
            refine List.mem_filter.mpr ⟨hw, ?_⟩
            have : (w.rowNum == it.prev.toNat) = false := by
              cases hb : (w.rowNum == it.prev.toNat) with
              | false => rfl
              | true => have : w.rowNum = it.prev.toNat := by simpa using hb
                        rw [hwr] at this; rw [this] at hne; simp at hne
            simp [this]
        rw [hr, filter_filter_comm]
        have hM : ((s.db.loopRows it.cid it.loopNum).filter (fun q => !it.rows.any (fun x => x.rowNum == q))).Pairwise (· < ·) := hL.filter _
        have hpm : it.prev.toNat ∈ (s.db.loopRows it.cid it.loopNum).filter (fun q => !it.rows.any (fun x => x.rowNum == q)) := by
          refine List.mem_filter.mpr ⟨hmem, ?_⟩
          cases hb : it.rows.any (fun x => x.rowNum == it.prev.toNat) with
          | false => rfl
          | true =>
            exfalso
            obtain ⟨x, hx, hxq⟩ := List.any_eq_true.mp hb
            have := (h.future x hx).2
            have : x.rowNum = it.prev.toNat := by simpa using hxq
            omega
        exact sorted_filter_ne_length _ hM _ hpm
      rw [hdone]
      have : decide ((0 : Int) < -1) = false := by decide
      simp only [this, ht, Option.getD_some]

-- ---- update ---------------------------------------------------------------------------------------------------------------------------------

theorem replaceValue_cellK (d d' : Db) (cid : Nat) (k : Str) (row : Nat) (v : V) (he : d.replaceValue cid k row v = some d')
    (c : Nat) (n : Str) (r : Nat) :
    cellK d' c n r = if c == cid && n == k && r == row then v else cellK d c n r := by
  unfold Db.replaceValue at he
  split at he; · cases he
  split at he; · cases he
  cases he
  unfold cellK
  simp only []
  by_cases hm : (c == cid && n == k && r == row) = true
  · simp only [hm, if_true]
    simp only [Bool.and_eq_true, beq_iff_eq] at hm
    obtain ⟨⟨rfl, rfl⟩, rfl⟩ := hm
    rw [List.find?_append]
    have : (d.values.filter (fun w => !(w.cid == c && w.name == n && w.rowNum == r))).find? (fun v => v.cid == c && v.name == n && v.rowNum == r) = none := by
      apply List.find?_eq_none.mpr
      intro a ha
      have hk := (List.mem_filter.mp ha).2
      intro hp
      rw [hp] at hk; cases hk
    rw [this]
    simp
  · simp only [hm, Bool.false_eq_true, if_false]
    rw [List.find?_append]
    have h1 : (d.values.filter (fun w => !(w.cid == cid && w.name == k && w.rowNum == row))).find? (fun v => v.cid == c && v.name == n && v.rowNum == r) =
        d.values.find? (fun v => v.cid == c && v.name == n && v.rowNum == r) := by
      apply find?_filter_of_imp
      intro a _ hpa
      simp only [Bool.and_eq_true, beq_iff_eq] at hpa
      cases hb : (a.cid == cid && a.name == k && a.rowNum == row) with
      | false => rfl
      | true =>
        exfalso
        simp only [Bool.and_eq_true, beq_iff_eq] at hb
        apply hm
        simp only [Bool.and_eq_true, beq_iff_eq]
        exact ⟨⟨by rw [← hpa.1.1, hb.1.1], by rw [← hpa.1.2, hb.1.2]⟩, by rw [← hpa.2, hb.2]⟩
    rw [h1]
    have h2 : ([({ cid := cid, name := k, rowNum := row, val := v } : ValueRow)]).find? (fun v => v.cid == c && v.name == n && v.rowNum == r) = none := by
      apply List.find?_eq_none.mpr
      intro a ha
      simp at ha; subst ha
      simp only []
      intro hk
      apply hm
      simp only [Bool.and_eq_true, beq_iff_eq] at hk ⊢
      exact ⟨⟨hk.1.1.symm, hk.1.2.symm⟩, hk.2.symm⟩
    rw [h2, Option.or_none]

/-- the cells after the entry loop of cif_pktitr_update_packet (distinct keys): the packet's value where it names the item of the
    current row, the old value everywhere else -/
theorem updateValues_cellK : ∀ (p : List (Str × V)) (d d' : Db) (it : Iter), updateValues d it p = .ok d' →
    p.Pairwise (fun a b => a.1 ≠ b.1) → ∀ (c : Nat) (n : Str) (r : Nat),
    cellK d' c n r = if c == it.cid && r == it.prev.toNat then ((p.find? (fun e => e.1 == n)).map (·.2)).getD (cellK d c n r) else cellK d c n r
  | [], d, d', it, he, _, c, n, r => by
    simp [updateValues] at he; subst he; simp
  | (k, v) :: es, d, d', it, he, hd, c, n, r => by
    rw [List.pairwise_cons] at hd
    unfold updateValues at he
    split at he
    · split at he
      · cases he
      · rename_i d1 hrep
        have ih := updateValues_cellK es d1 d' it he hd.2 c n r
        have h1 := replaceValue_cellK d d1 it.cid k it.prev.toNat v hrep c n r
        rw [ih, h1]
        by_cases hcr : (c == it.cid && r == it.prev.toNat) = true
        · simp only [hcr, if_true]
          simp only [Bool.and_eq_true] at hcr
          by_cases hnk : (n == k) = true
          · have hnk' : n = k := by simpa using hnk
            have hkn : (k == n) = true := by simp [hnk']
            have hes : es.find? (fun e => e.1 == n) = none := by
              apply List.find?_eq_none.mpr
              intro e he' hk'
              have : e.1 = n := by simpa using hk'
              exact hd.1 e he' (by rw [this, hnk'])
            simp [List.find?_cons, hkn, hes, hcr.1, hcr.2, hnk]
          · have hkn : (k == n) = false := by
              cases hb : (k == n) with
              | false => rfl
              | true => exfalso; apply hnk; have : k = n := by simpa using hb
                        simp [this]
            have hnk' : (n == k) = false := by simpa using hnk
            simp [List.find?_cons, hkn, hnk']
        · simp only [hcr, Bool.false_eq_true, if_false]
          have : (c == it.cid && n == k && r == it.prev.toNat) = false := by
            cases hb : (c == it.cid && n == k && r == it.prev.toNat) with
            | false => rfl
            | true =>
              exfalso; apply hcr
              simp only [Bool.and_eq_true] at hb ⊢
              exact ⟨hb.1.1, hb.2⟩
          simp [this]
    · cases he

/-- the rows of every loop are what they were after cif_pktitr_update_packet's entry loop (the current row exists already) -/
theorem updateValues_loopRows (p : List (Str × V)) (d d' : Db) (it : Iter) (h : IterOk it d) (hinv : Inv d) (hp : 0 < it.prev)
    (hnames : ∀ e ∈ p, it.names.contains e.1 = true) (he : updateValues d it p = .ok d') (c n : Nat) :
    d'.loopRows c n = d.loopRows c n := by
  obtain ⟨i1, l1, _, _, _, hv⟩ := updateValues_only p d d' it he
  obtain ⟨_, _, hsub⟩ := updateValues_frame p d d' it he
  have hli : ∀ c n, d'.loopItems c n = d.loopItems c n := by intro c n; simp only [Db.loopItems, i1]
  apply sorted_eq_of_mem_iff _ _ (loopRows_sorted _ _ _) (loopRows_sorted _ _ _)
  intro r
  constructor
  · intro hr
    obtain ⟨w, hw, hwc, hwa, hwr⟩ := (mem_loopRows_iff _ _ _ _).mp hr
    rw [hli] at hwa
    by_cases hk : w.cid = it.cid ∧ w.rowNum = it.prev.toNat ∧ w.name ∈ p.map (·.1)
    · -- a rewritten value: its item is an item of the iterated loop, its row the current row
      obtain ⟨e, hep, hen⟩ := List.mem_map.mp hk.2.2
      have hc := hnames e hep
      rw [hen] at hc
      have hin := h.names w.name hc
      obtain ⟨a, ha, han⟩ := List.any_eq_true.mp hin
      obtain ⟨b, hb, hbn⟩ := List.any_eq_true.mp hwa
      obtain ⟨ham, hak⟩ := List.mem_filter.mp ha
      obtain ⟨hbm, hbk⟩ := List.mem_filter.mp hb
      simp at hak hbk han hbn
      have : a = b := itemKey_unique d.items hinv.itemPK a ham b hbm (by rw [hak.1, hbk.1, ← hwc, hk.1]) (by rw [han, hbn])
      subst this
      have e1 : c = it.cid := by rw [← hbk.1, hak.1]
      have e2 : n = it.loopNum := by rw [← hbk.2, hak.2]
      rw [e1, e2, ← hwr, hk.2.1]
      exact h.cur hp
    · exact (mem_loopRows_iff d _ _ _).mpr ⟨w, (hv w hk).mp hw, hwc, hwa, hwr⟩
  · exact hsub c n r

/-- cif_pktitr_update_packet commutes with the abstraction -/
theorem updatePacket_spec_abs (s : Store) (it : Iter) (p : List (Str × V)) (h : IterOk it s.db) (hg : Good s.db) (d0 : Db)
    (ht : s.txn = some d0) (hk : keysDistinct p = true) :
    absS (updatePacket s it p).1.db = (specItUpdate (absS s.db) (absIter it s) p).1 ∧
    (updatePacket s it p).2 = (specItUpdate (absS s.db) (absIter it s) p).2 ∧
    absIter it (updatePacket s it p).1 = absIter it s := by
  have hinv := hg.inv
  have hs : s.autocommit = false := by simp [Store.autocommit, ht]
  have htxn := updatePacket_txn s it p
  unfold specItUpdate
  by_cases hprev : it.prev ≤ 0
  · have hcur : (absIter it s).hasCur = false := by
      show decide (0 < it.prev) = false
      simp; omega
    have hu : updatePacket s it p = (s, .error CIF_MISUSE) := by unfold updatePacket; simp [hs, hprev]
    rw [hu]
    simp [hcur]
  · have hpos : 0 < it.prev := by omega
    have hcur : (absIter it s).hasCur = true := by
      show decide (0 < it.prev) = true
      simp [hpos]
    obtain ⟨x, hx, k1, k2, hfind⟩ := findLoop_of_iter it s.db h hinv
    have hfind' : (absS s.db).findLoop (absIter it s).cid (absIter it s).num = some (absALoop s.db x) := hfind
    simp only [hcur, Bool.not_true, Bool.false_eq_true, if_false, hfind']
    have hi : ∀ k ∈ it.names, s.db.hasItem it.cid k = true := by
      intro k hk'
      rw [h.namesEq] at hk'
      obtain ⟨i, hi, rfl⟩ := List.mem_map.mp hk'
      obtain ⟨him, hik⟩ := List.mem_filter.mp hi
      simp at hik
      exact (hasItem_iff _ _ _).mpr ⟨i, him, hik.1, rfl⟩
    have hcont : ∀ k : Str, it.names.contains k = (absALoop s.db x).hasItem k := by
      intro k
      rw [hasItem_absALoop, k1, k2, h.namesEq]
      apply Bool.eq_iff_iff.mpr
      simp only [List.contains_iff_mem, List.mem_map, List.any_eq_true, beq_iff_eq]
    have hsavedb : s.save.db = s.db := rfl
    by_cases hforeign : p.any (fun e => !(absALoop s.db x).hasItem e.1) = true
    · -- an entry for an item of another loop
      simp only [hforeign, if_true]
      have hw : updateValues s.save.db it p = .error CIF_WRONG_LOOP := by
        apply updateValues_wrong p s.db it hpos hi
        obtain ⟨e, he, hne⟩ := List.any_eq_true.mp hforeign
        exact ⟨e, he, by rw [hcont]; simpa using hne⟩
      have hu : updatePacket s it p = (s.save.rollbackTo.getD s.save, .error CIF_WRONG_LOOP) := by
        unfold updatePacket; simp only [hs, Bool.false_eq_true, if_false, hprev, hw]
      rw [hu]
      have hdb : (s.save.rollbackTo.getD s.save).db = s.db := by unfold Store.rollbackTo Store.save; rfl
      have htx : (s.save.rollbackTo.getD s.save).txn = s.txn := by have := htxn; rw [hu] at this; exact this
      refine ⟨by rw [hdb], rfl, ?_⟩
      unfold absIter
      rw [hdb, htx]
    · have hall : ∀ e ∈ p, it.names.contains e.1 = true := by
        intro e he
        rw [hcont]
        cases hb : (absALoop s.db x).hasItem e.1 with
        | true => rfl
        | false => exact absurd (List.any_eq_true.mpr ⟨e, he, by simp [hb]⟩) hforeign
      obtain ⟨d', hd'⟩ := updateValues_ok p s.db it hpos hi hall
      have hd'' : updateValues s.save.db it p = .ok d' := hd'
      have hu : updatePacket s it p = ((({ s.save with db := d' } : Store).release).getD s.save, .ok ()) := by
        unfold updatePacket; simp only [hs, Bool.false_eq_true, if_false, hprev, hd'']
      rw [hu]
      simp only [hforeign, Bool.false_eq_true, if_false]
      have hdb : ((({ s.save with db := d' } : Store).release).getD s.save).db = d' := by unfold Store.release Store.save; rfl
      have htx : ((({ s.save with db := d' } : Store).release).getD s.save).txn = s.txn := by have := htxn; rw [hu] at this; exact this
      obtain ⟨i1, l1, c1, b1, f1, _⟩ := updateValues_only p s.db d' it hd'
      have hnx : d'.nextId = s.db.nextId := by
        have : ∀ (p : List (Str × V)) (a b : Db), updateValues a it p = .ok b → b.nextId = a.nextId := by
          intro p
          induction p with
          | nil => intro a b hh; simp [updateValues] at hh; subst hh; rfl
          | cons e es ih =>
            intro a b hh
            unfold updateValues at hh
            split at hh
            · split at hh
              · cases hh
              · rename_i a1 hrep
                have := ih a1 b hh
                unfold Db.replaceValue at hrep
                split at hrep; · cases hrep
                split at hrep; · cases hrep
                cases hrep; exact this
            · cases hh
        exact this p s.db d' hd'
      have hrows := updateValues_loopRows p s.db d' it h hinv hpos hall hd'
      have hcells := updateValues_cellK p s.db d' it hd' (keysDistinct_pairwise p hk)
      have hli : ∀ c n, d'.loopItems c n = s.db.loopItems c n := by intro c n; simp only [Db.loopItems, i1]
      -- where the current row sits
      have hL := loopRows_sorted s.db it.cid it.loopNum
      obtain ⟨hdn, hmem⟩ := doneIn_current it s.db h hpos
      have hcnt := sorted_count_le _ hL it.prev.toNat hmem
      have hidx : (s.db.loopRows it.cid it.loopNum)[(absIter it s).done - 1]? = some it.prev.toNat := by
        have : (absIter it s).done - 1 = ((s.db.loopRows it.cid it.loopNum).filter (fun q => decide (q < it.prev.toNat))).length := by
          show it.doneIn s.db - 1 = _
          rw [hdn, hcnt]; omega
        rw [this]; exact sorted_index_of_mem _ hL _ hmem
      refine ⟨?_, by first | rfl | trivial, ?_⟩
      · rw [hdb]
        have hloops := absS_loops_map s.db d' id
          (fun y => if y.cid == (absIter it s).cid && y.num == (absIter it s).num then y.updAt ((absIter it s).done - 1) p else y)
          (by rw [l1, List.map_id])
          (by
            intro y hy
            simp only [id]
            have hpk : ∀ z : LoopRow, (absALoop d' z).packets =
                (s.db.loopRows z.cid z.loopNum).map (fun r => (s.db.loopItems z.cid z.loopNum).map (fun j => cellK d' z.cid j.name r)) := by
              intro z
              rw [packets_absALoop, hrows, hli]
              rfl
            by_cases hm : (y.cid == it.cid && y.loopNum == it.loopNum) = true
            · have hm' : ((absALoop s.db y).cid == (absIter it s).cid && (absALoop s.db y).num == (absIter it s).num) = true := hm
              simp only [hm', if_true]
              have hmk : y.cid = it.cid ∧ y.loopNum = it.loopNum := by simpa using hm
              have hidx' : (s.db.loopRows y.cid y.loopNum)[(absIter it s).done - 1]? = some it.prev.toNat := by rw [hmk.1, hmk.2]; exact hidx
              have hLy : (s.db.loopRows y.cid y.loopNum).Pairwise (· < ·) := loopRows_sorted _ _ _
              unfold ALoop.updAt
              have hget : (absALoop s.db y).packets[(absIter it s).done - 1]? =
                  some ((s.db.loopItems y.cid y.loopNum).map (fun j => cell s.db y.cid j it.prev.toNat)) := by
                rw [packets_absALoop, List.getElem?_map, hidx']; rfl
              rw [hget]
              simp only []
              have hset := map_set_of_agree
                (fun r => (s.db.loopItems y.cid y.loopNum).map (fun j => cell s.db y.cid j r))
                (fun r => (s.db.loopItems y.cid y.loopNum).map (fun j => cellK d' y.cid j.name r))
                _ hLy it.prev.toNat _ hidx'
                (by
                  intro q _ hne
                  apply List.map_congr_left
                  intro j _
                  rw [hcells]
                  have : (y.cid == it.cid && q == it.prev.toNat) = false := by
                    have : (q == it.prev.toNat) = false := by simpa using hne
                    simp [this]
                  simp only [this, Bool.false_eq_true, if_false]
                  rfl)
              have hnew : (s.db.loopItems y.cid y.loopNum).map (fun j => cellK d' y.cid j.name it.prev.toNat) =
                  ((absALoop s.db y).items.zip ((s.db.loopItems y.cid y.loopNum).map (fun j => cell s.db y.cid j it.prev.toNat))).map
                    (fun e => ((p.find? (fun q => q.1 == e.1.1)).map (·.2)).getD e.2) := by
                show _ = (((s.db.loopItems y.cid y.loopNum).map (fun i => (i.name, i.nameOrig))).zip _).map _
                rw [zip_map_map, List.map_map]
                apply List.map_congr_left
                intro j _
                simp only [Function.comp]
                rw [hcells]
                have : (y.cid == it.cid && it.prev.toNat == it.prev.toNat) = true := by simp [hmk.1]
                simp only [this, if_true]
                rfl
              unfold absALoop
              simp only [hli]
              congr 1
              have := hpk y
              unfold absALoop at this
              simp only [] at this
              rw [this, hset, hnew]
              rfl
            · have hm' : ((absALoop s.db y).cid == (absIter it s).cid && (absALoop s.db y).num == (absIter it s).num) = false := by
                show (y.cid == it.cid && y.loopNum == it.loopNum) = false
                simpa using hm
              simp only [hm', Bool.false_eq_true, if_false]
              unfold absALoop
              simp only [hli]
              congr 1
              have := hpk y
              unfold absALoop at this
              simp only [] at this
              rw [this, absLoop_eq]
              simp only []
              apply List.map_congr_left
              intro r _
              apply List.map_congr_left
              intro j hj
              rw [hcells]
              by_cases hcr : (y.cid == it.cid && r == it.prev.toNat) = true
              · simp only [hcr, if_true]
                -- the packet cannot name j: j is an item of another loop
                have hnone : p.find? (fun e => e.1 == j.name) = none := by
                  apply List.find?_eq_none.mpr
                  intro e he hke
                  have hen : e.1 = j.name := by simpa using hke
                  have hc := hall e he
                  rw [hen] at hc
                  obtain ⟨a, ha, han⟩ := List.any_eq_true.mp (h.names j.name hc)
                  obtain ⟨ham, hak⟩ := List.mem_filter.mp ha
                  obtain ⟨hjm, hjk⟩ := List.mem_filter.mp hj
                  simp at hak hjk han
                  simp only [Bool.and_eq_true, beq_iff_eq] at hcr
                  have : a = j := itemKey_unique s.db.items hinv.itemPK a ham j hjm (by rw [hak.1, hjk.1, hcr.1]) han
                  subst this
                  apply hm
                  simp [← hjk.1, ← hjk.2, hak.1, hak.2]
                rw [hnone]
                rfl
              · simp only [hcr, Bool.false_eq_true, if_false]
                rfl)
        show ({ containers := d'.containers, blocks := d'.blocks, frames := d'.frames, nextId := d'.nextId, loops := (absS d').loops } : AState) = _
        rw [hloops, c1, b1, f1, hnx]
        rfl
      · unfold absIter
        rw [hdb, htx]
        simp only [ht, Option.getD_some]
        congr 1
        unfold Iter.doneIn
        rw [hrows]

-- ---- whole call sequences on an open iterator ---------------------------------------------------------------------------------------

open World in
/-- any sequence of next / update / remove calls on an open iterator, with the code of every call and the packet of every
    successful next -/
def runCallsC (s : Store) (it : Iter) : List Call → Store × Iter × List (Code × Option (List (Str × V)))
  | [] => (s, it, [])
  | .next :: cs =>
    let r := nextPacket s it
    let t := runCallsC s r.1 cs
    (t.1, t.2.1, (codeOf r.2, r.2.toOption) :: t.2.2)
  | .update p :: cs =>
    let r := updatePacket s it p
    let t := runCallsC r.1 it cs
    (t.1, t.2.1, (codeOf r.2, none) :: t.2.2)
  | .remove :: cs =>
    let r := removePacket s it
    let t := runCallsC r.1 r.2.1 cs
    (t.1, t.2.1, (codeOf r.2.2, none) :: t.2.2)

open World in
/-- the same call sequence on the documented model -/
def specCalls (a : AState) (ai : AIter) : List Call → AState × AIter × List (Code × Option (List (Str × V)))
  | [] => (a, ai, [])
  | .next :: cs =>
    let r := specItNext a ai
    let t := specCalls a r.1 cs
    (t.1, t.2.1, (codeOf r.2, r.2.toOption) :: t.2.2)
  | .update p :: cs =>
    let r := specItUpdate a ai p
    let t := specCalls r.1 ai cs
    (t.1, t.2.1, (codeOf r.2, none) :: t.2.2)
  | .remove :: cs =>
    let r := specItRemove a ai
    let t := specCalls r.1 r.2.1 cs
    (t.1, t.2.1, (codeOf r.2.2, none) :: t.2.2)

def Call.keysOk : Call → Bool
  | .update p => keysDistinct p
  | _ => true

/-- every sequence of next / update / remove calls on a tied iterator inside its transaction runs on the documented model exactly
    as on the store: same final content, same final iterator, and for every call the same code and (for next) the same packet -/
theorem runCalls_refines : ∀ (cs : List Call) (s : Store) (it : Iter) (d0 : Db), GoodS s → IterOk it s.db → s.txn = some d0 →
    cs.all Call.keysOk = true →
    absS (runCallsC s it cs).1.db = (specCalls (absS s.db) (absIter it s) cs).1 ∧
    absIter (runCallsC s it cs).2.1 (runCallsC s it cs).1 = (specCalls (absS s.db) (absIter it s) cs).2.1 ∧
    (runCallsC s it cs).2.2 = (specCalls (absS s.db) (absIter it s) cs).2.2 ∧
    (runCallsC s it cs).1.txn = some d0 ∧ IterOk (runCallsC s it cs).2.1 (runCallsC s it cs).1.db ∧ GoodS (runCallsC s it cs).1
  | [], s, it, d0, hg, hok, ht, _ => ⟨rfl, rfl, rfl, ht, hok, hg⟩
  | .next :: cs, s, it, d0, hg, hok, ht, hk => by
    have hs : s.autocommit = false := by simp [Store.autocommit, ht]
    simp only [List.all_cons, Bool.and_eq_true] at hk
    obtain ⟨h1, h2⟩ := nextPacket_spec_abs s it hok hg.db hs
    have ih := runCalls_refines cs s (nextPacket s it).1 d0 hg (nextPacket_iterOk s it s.db hok) ht hk.2
    unfold runCallsC specCalls
    simp only []
    rw [← h1, ← h2]
    exact ⟨ih.1, ih.2.1, by rw [ih.2.2.1], ih.2.2.2.1, ih.2.2.2.2.1, ih.2.2.2.2.2⟩
  | .update p :: cs, s, it, d0, hg, hok, ht, hk => by
    simp only [List.all_cons, Bool.and_eq_true] at hk
    obtain ⟨h1, h2, h3⟩ := updatePacket_spec_abs s it p hok hg.db d0 ht hk.1
    have ht' : (updatePacket s it p).1.txn = some d0 := by rw [updatePacket_txn]; exact ht
    have hg' := updatePacket_goodS hg it p hok.attached
    have hok' := updatePacket_iterOk s it p hok
    have ih := runCalls_refines cs (updatePacket s it p).1 it d0 hg' hok' ht' hk.2
    unfold runCallsC specCalls
    simp only []
    rw [← h1, ← h2, ← h3]
    exact ⟨ih.1, ih.2.1, by rw [ih.2.2.1], ih.2.2.2.1, ih.2.2.2.2.1, ih.2.2.2.2.2⟩
  | .remove :: cs, s, it, d0, hg, hok, ht, hk => by
    simp only [List.all_cons, Bool.and_eq_true] at hk
    obtain ⟨h1, h2, h3⟩ := removePacket_spec_abs s it hok hg.db d0 ht
    have ht' : (removePacket s it).1.txn = some d0 := by rw [removePacket_txn]; exact ht
    have hg' := removePacket_goodS hg it hok.attached hok.scalar
    have hok' := removePacket_iterOk s it hg.db.inv hok
    have ih := runCalls_refines cs (removePacket s it).1 (removePacket s it).2.1 d0 hg' hok' ht' hk.2
    unfold runCallsC specCalls
    simp only []
    rw [← h1, ← h2, ← h3]
    exact ⟨ih.1, ih.2.1, by rw [ih.2.2.1], ih.2.2.2.1, ih.2.2.2.2.1, ih.2.2.2.2.2⟩

-- ---- open / close / abort ---------------------------------------------------------------------------------------------------------------

theorem loopValues_nil_iff (d : Db) (cid ln : Nat) : d.loopValues cid ln = [] ↔ d.loopRows cid ln = [] := by
  constructor
  · intro h
    cases hr : d.loopRows cid ln with
    | nil => rfl
    | cons r rs =>
      exfalso
      have : r ∈ d.loopRows cid ln := by rw [hr]; exact List.mem_cons_self
      obtain ⟨w, hw, hwc, hwa, _⟩ := (mem_loopRows_iff _ _ _ _).mp this
      have := mem_foldr_insertByRow_of_mem _ w (List.mem_filter.mpr ⟨hw, by simp [hwc, hwa]⟩ :
        w ∈ d.values.filter (fun v => v.cid == cid && (d.loopItems cid ln).any (fun i => i.name == v.name)))
      have h' : d.loopValues cid ln = (d.values.filter (fun v => v.cid == cid && (d.loopItems cid ln).any (fun i => i.name == v.name))).foldr Db.insertByRow [] := rfl
      rw [h'] at h; rw [h] at this; cases this
  · intro h
    cases hv : d.loopValues cid ln with
    | nil => rfl
    | cons v vs =>
      exfalso
      have hvm : v ∈ d.loopValues cid ln := by rw [hv]; exact List.mem_cons_self
      obtain ⟨hm, hk⟩ := List.mem_filter.mp (mem_foldr_insertByRow _ v hvm)
      simp only [Bool.and_eq_true, beq_iff_eq] at hk
      have : v.rowNum ∈ d.loopRows cid ln := (mem_loopRows_iff _ _ _ _).mpr ⟨v, hm, hk.1, hk.2, rfl⟩
      rw [h] at this; cases this

/-- cif_loop_get_packets outside any transaction, through a valid handle: the documented model's answer — CIF_INVALID_HANDLE for a
    loop without items, CIF_EMPTY_LOOP for a loop without packets (the store is what it was), else an iterator before the first
    packet, nothing passed, no current packet, remembering the CIF as it is now -/
theorem getPackets_spec_abs (s : Store) (l : LH) (hg : Good s.db) (hv : l.validB s.db = true) (hac : s.autocommit = true) :
    match (getPackets s l).2 with
    | .ok it => specItOpen (absS s.db) l = .ok (absIter it (getPackets s l).1) ∧ (getPackets s l).1.db = s.db ∧
                (getPackets s l).1.txn = some s.db ∧ IterOk it s.db
    | .error c => specItOpen (absS s.db) l = .error c ∧ (getPackets s l).1 = s := by
  have hinv := hg.inv
  obtain ⟨x, hx, k1, k2, k3⟩ := LH.valid_of_validB hv
  have hfind : (absS s.db).findLoop l.cid l.loopNum = some (absALoop s.db x) := by rw [← k1, ← k2]; exact findLoop_valid s.db hinv x hx
  have hn : (getNames s l).1 = s := (getNames_same s l).eq_of_autocommit hac
  have hnr : (getNames s l).2 = (match s.db.loopItems l.cid l.loopNum with
      | [] => .error CIF_INVALID_HANDLE
      | is => .ok (is.map (fun i => (i.name, i.nameOrig)))) := by
    unfold getNames; rw [nestRO_snd]; cases s.db.loopItems l.cid l.loopNum <;> rfl
  unfold specItOpen
  rw [hfind]
  simp only []
  have hitems : (absALoop s.db x).items = (s.db.loopItems l.cid l.loopNum).map (fun i => (i.name, i.nameOrig)) := by rw [← k1, ← k2]; rfl
  have hpk : (absALoop s.db x).packets.isEmpty = (s.db.loopRows l.cid l.loopNum).isEmpty := by
    rw [packets_absALoop, k1, k2]; cases s.db.loopRows l.cid l.loopNum <;> rfl
  rw [hitems, hpk]
  cases hli : s.db.loopItems l.cid l.loopNum with
  | nil =>
    have hgp : getPackets s l = (s, .error CIF_INVALID_HANDLE) := by
      unfold getPackets
      cases hgn : getNames s l with
      | mk s1 r =>
        rw [hgn] at hn hnr; simp only [] at hn hnr; subst hn
        rw [hli] at hnr; simp only [] at hnr; subst hnr; rfl
    rw [hgp]; simp
  | cons i0 is0 =>
    have hb : s.begin = some { s with txn := some s.db } := by unfold Store.begin; simp [hac]
    cases hrows : s.db.loopRows l.cid l.loopNum with
    | nil =>
      have hlv := (loopValues_nil_iff s.db l.cid l.loopNum).mpr hrows
      have hgp : getPackets s l = (s, .error CIF_EMPTY_LOOP) := by
        unfold getPackets
        cases hgn : getNames s l with
        | mk s1 r =>
          rw [hgn] at hn hnr; simp only [] at hn hnr; subst hn
          rw [hli] at hnr; simp only [] at hnr; subst hnr
          simp only [hb]
          have : Db.loopValues ({ s1 with txn := some s1.db } : Store).db l.cid l.loopNum = [] := hlv
          rw [this]
          simp only []
          rw [begin_rollback' s1 _ hb]
      rw [hgp]; simp
    | cons r0 rs0 =>
      have hlvne : s.db.loopValues l.cid l.loopNum ≠ [] := by
        intro h0; have := (loopValues_nil_iff s.db l.cid l.loopNum).mp h0; rw [hrows] at this; cases this
      cases hgp : getPackets s l with
      | mk s2 r =>
        have hgp' := hgp
        unfold getPackets at hgp
        cases hgn : getNames s l with
        | mk s1 rn =>
          rw [hgn] at hn hnr hgp; simp only [] at hn hnr hgp; subst hn
          rw [hli] at hnr; simp only [] at hnr; subst hnr
          simp only [hb] at hgp
          cases hlv : Db.loopValues ({ s1 with txn := some s1.db } : Store).db l.cid l.loopNum with
          | nil => exact absurd hlv hlvne
          | cons v vs =>
            rw [hlv] at hgp
            simp only [Prod.mk.injEq] at hgp
            obtain ⟨hs2, hr⟩ := hgp
            subst hs2; subst hr
            simp only []
            obtain ⟨_, hok⟩ := getPackets_iterOk s1 _ l _ (LH.valid_of_validB hv) hinv hgp'
            refine ⟨?_, by first | rfl | trivial, by first | rfl | trivial, hok⟩
            try simp
            -- nothing passed: every row of the loop is pending
            unfold absIter
            simp only []
            congr 1
            unfold Iter.doneIn Iter.pend
            simp only []
            rw [← hlv]
            have : (s1.db.loopRows l.cid l.loopNum).filter (fun q => !(Db.loopValues ({ s1 with txn := some s1.db } : Store).db l.cid l.loopNum).any (fun x => x.rowNum == q)) = [] := by
              rw [List.filter_eq_nil_iff]
              intro q hq
              obtain ⟨w, hw, hwc, hwa, hwr⟩ := (mem_loopRows_iff _ _ _ _).mp hq
              have hwm : w ∈ s1.db.loopValues l.cid l.loopNum :=
                mem_foldr_insertByRow_of_mem _ w (List.mem_filter.mpr ⟨hw, by simp [hwc, hwa]⟩)
              have : (s1.db.loopValues l.cid l.loopNum).any (fun x => x.rowNum == q) = true := List.any_eq_true.mpr ⟨w, hwm, by simp [hwr]⟩
              simp [this]
            rw [this]; rfl

/-- cif_pktitr_close inside the iterator's transaction: the content stays what the calls made it; cif_pktitr_abort: the content is
    what it was when the iterator was created (`AIter.start`); either way the CIF is in autocommit mode again -/
theorem closeAbort_abs (s : Store) (it : Iter) (d0 : Db) (ht : s.txn = some d0) :
    absS (closeIter s).1.db = absS s.db ∧ (closeIter s).2 = .ok () ∧ (closeIter s).1.autocommit = true ∧
    absS (abortIter s).1.db = (absIter it s).start ∧ (abortIter s).2 = .ok () ∧ (abortIter s).1.autocommit = true := by
  have hs : s.autocommit = false := by simp [Store.autocommit, ht]
  refine ⟨?_, ?_, ?_, ?_, ?_, ?_⟩ <;>
    simp [closeIter, abortIter, Store.commit, Store.rollback, Store.outermost, Store.autocommit, hs, ht, absIter]

end CifModel.Store
