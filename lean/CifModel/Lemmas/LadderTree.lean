import CifModel.Lemmas.LadderMap
import CifModel.Lemmas.LadderSummary
import CifModel.Model.LadderTree
/-
  CifModel.Lemmas.LadderTree — arbitrarily nested values (Model/LadderTree): uthash's bookkeeping as a pure function of
  the hash values (so that the number of requests of a table clone / table blob is a function of the value's shape),
  release of an owned value, and the mutual inductions over the value tree for cif_value_clone and
  cif_value_deserialize.
-/
namespace CifModel.Lemmas.Ladder
open CifModel.Model.Ladder CifModel.Spec.HeapTrace

-- ---------------------------------------------------------------------------------------------------------------
-- uthash's bookkeeping, free of block ids

/-- the fields of UT_hash_table that decide about requests -/
structure BK where
  log2 : Nat
  mult : List (Nat × Nat)
  noexpand : Bool
  ineff : Nat

def bkOf (u : UT) : BK := ⟨u.log2, u.mult, u.noexpand, u.ineff⟩

def countH (log2 : Nat) (hs : List Nat) (b : Nat) : Nat := (hs.filter (fun h => h % 2 ^ log2 == b)).length

theorem bucketCount_eq (log2 : Nat) (es : List MEntry) (b : Nat) :
    bucketCount log2 es b = countH log2 (es.map (·.hashv)) b := by
  unfold bucketCount countH
  rw [List.filter_map, List.length_map]
  rfl

def expandStatsH (log2 : Nat) (hs : List Nat) : List (Nat × Nat) × Nat :=
  let n := hs.length
  let ideal := n / 2 ^ (log2 + 1) + (if n % 2 ^ (log2 + 1) ≠ 0 then 1 else 0)
  (List.range (2 ^ (log2 + 1))).foldl (fun (acc : List (Nat × Nat) × Nat) b =>
    let c := countH (log2 + 1) hs b
    if c > ideal then ((b, c / ideal) :: acc.1, acc.2 + (c - ideal)) else acc) ([], 0)

theorem expandStats_eq (log2 : Nat) (es : List MEntry) : expandStats log2 es = expandStatsH log2 (es.map (·.hashv)) := by
  unfold expandStats expandStatsH
  simp only [bucketCount_eq, List.length_map]

/-- HASH_ADD_TO_BKT with its expansion test on the bookkeeping alone: (new bookkeeping, number of requests).
    `hs` = the hash values of all items, the new one (`h`) included. -/
def bkAddTo (b : BK) (hs : List Nat) (h : Nat) : BK × Nat :=
  if countH b.log2 hs (h % 2 ^ b.log2) ≥ (multOfL b.mult (h % 2 ^ b.log2) + 1) * Gen.Uthash.bktCapacityThresh ∧
      b.noexpand = false then
    ({ log2 := b.log2 + 1, mult := (expandStatsH b.log2 hs).1,
       ineff := if (expandStatsH b.log2 hs).2 > hs.length / 2 then b.ineff + 1 else 0,
       noexpand := b.noexpand || decide ((if (expandStatsH b.log2 hs).2 > hs.length / 2 then b.ineff + 1 else 0) > 1) }, 1)
  else (b, 0)

/-- HASH_ADD_KEYPTR on the bookkeeping alone -/
def bkAdd (b : Option BK) (hs : List Nat) (h : Nat) : BK × Nat :=
  match b with
  | some b => bkAddTo b hs h
  | none => ((bkAddTo ⟨Gen.Uthash.initialLog2, [], false, 0⟩ hs h).1, 2 + (bkAddTo ⟨Gen.Uthash.initialLog2, [], false, 0⟩ hs h).2)

theorem addToBkt_bk (k : Nat) (u : UT) (es : List MEntry) (e : MEntry) (fresh : List Nat) (s : St) (X : List Nat)
    (h : Inv s (u.ids ++ X)) :
    (∃ u', (addToBkt k u es e fresh s).1 = .ok { ut := some u', entries := es } ∧
        bkOf u' = (bkAddTo (bkOf u) (es.map (·.hashv)) e.hashv).1 ∧
        Good k (bkAddTo (bkOf u) (es.map (·.hashv)) e.hashv).2 s (addToBkt k u es e fresh s).2 ∧
        Inv (addToBkt k u es e fresh s).2 (u'.ids ++ X)) ∨
    ((addToBkt k u es e fresh s).1 = .fatal fresh ∧
        Bad k (bkAddTo (bkOf u) (es.map (·.hashv)) e.hashv).2 s (addToBkt k u es e fresh s).2 ∧
        Inv (addToBkt k u es e fresh s).2 (u.ids ++ X)) := by
  have hcond : (bucketCount u.log2 es (e.hashv % 2 ^ u.log2) ≥
        (multOf u (e.hashv % 2 ^ u.log2) + 1) * Gen.Uthash.bktCapacityThresh ∧ u.noexpand = false) ↔
      (countH (bkOf u).log2 (es.map (·.hashv)) (e.hashv % 2 ^ (bkOf u).log2) ≥
        (multOfL (bkOf u).mult (e.hashv % 2 ^ (bkOf u).log2) + 1) * Gen.Uthash.bktCapacityThresh ∧
        (bkOf u).noexpand = false) := by
    rw [bucketCount_eq]; exact Iff.rfl
  unfold addToBkt bkAddTo
  by_cases hc : (countH (bkOf u).log2 (es.map (·.hashv)) (e.hashv % 2 ^ (bkOf u).log2) ≥
        (multOfL (bkOf u).mult (e.hashv % 2 ^ (bkOf u).log2) + 1) * Gen.Uthash.bktCapacityThresh ∧
        (bkOf u).noexpand = false)
  · rw [if_pos (hcond.mpr hc), if_pos hc]
    rcases alloc_cases k s with ⟨hk, ha⟩ | ⟨hk, ha⟩ <;> simp only [ha]
    · right
      exact ⟨trivial, Bad.alloc hk, h.fail⟩
    · left
      refine ⟨_, rfl, ?_, (Good.alloc hk).free _, ?_⟩
      · simp only [bkOf, expandStats_eq, List.length_map]
      · have i1 : Inv { count := s.count + 1, evs := s.evs ++ [.alloc (s.count + 1)] } (u.bkts :: (u.tbl :: (s.count + 1) :: X)) :=
          h.alloc.perm (by simp only [UT.ids]; perm_ac)
        exact i1.free
  · rw [if_neg (fun hx => hc (hcond.mp hx)), if_neg hc]
    left
    exact ⟨u, rfl, rfl, Good.refl k s, h⟩

/-- HASH_ADD_KEYPTR: the blocks of the items are irrelevant (`X`), the bookkeeping evolves as `bkAdd` says and the number
    of requests is `bkAdd`'s -/
theorem hashAdd_bk (k : Nat) (m : MapSt) (e : MEntry) (s : St) (X : List Nat) (h : Inv s (utIds m.ut ++ X)) :
    (∃ u', (hashAdd k m e s).1 = .ok { ut := some u', entries := m.entries ++ [e] } ∧
        bkOf u' = (bkAdd (m.ut.map bkOf) (m.entries.map (·.hashv) ++ [e.hashv]) e.hashv).1 ∧
        Good k (bkAdd (m.ut.map bkOf) (m.entries.map (·.hashv) ++ [e.hashv]) e.hashv).2 s (hashAdd k m e s).2 ∧
        Inv (hashAdd k m e s).2 (u'.ids ++ X)) ∨
    (∃ t, (hashAdd k m e s).1 = .fatal t ∧
        Bad k (bkAdd (m.ut.map bkOf) (m.entries.map (·.hashv) ++ [e.hashv]) e.hashv).2 s (hashAdd k m e s).2 ∧
        Inv (hashAdd k m e s).2 (t ++ (utIds m.ut ++ X))) := by
  obtain ⟨ut, entries⟩ := m
  have hmap : (entries ++ [e]).map (·.hashv) = entries.map (·.hashv) ++ [e.hashv] := by simp
  cases ut with
  | some u =>
    simp only [hashAdd, bkAdd, Option.map]
    have hh := addToBkt_bk k u (entries ++ [e]) e [] s X (by simpa [utIds] using h)
    rw [hmap] at hh
    generalize addToBkt k u (entries ++ [e]) e [] s = r at hh ⊢
    obtain ⟨ro, rs⟩ := r
    rcases hh with ⟨u', h1, hb, h2, h3⟩ | ⟨h1, h2, h3⟩ <;> simp only at h1 h2 h3 <;> subst h1
    · left; exact ⟨u', rfl, hb, h2, h3⟩
    · right; exact ⟨[], rfl, h2, by simpa [utIds] using h3⟩
  | none =>
    simp only [hashAdd, bkAdd, Option.map]
    have h0 : Inv s X := by simpa [utIds] using h
    rcases alloc_cases k s with ⟨hk, ha⟩ | ⟨hk, ha⟩ <;> simp only [ha]
    · right
      exact ⟨[], rfl, (Bad.alloc hk).mono (by omega), by simpa [utIds] using h0.fail⟩
    · have g1 := Good.alloc hk
      have i1 := h0.alloc
      generalize ({ count := s.count + 1, evs := s.evs ++ [.alloc (s.count + 1)] } : St) = s1 at g1 i1 ⊢
      generalize s.count + 1 = t at g1 i1 ⊢
      rcases alloc_cases k s1 with ⟨hk, ha⟩ | ⟨hk, ha⟩ <;> simp only [ha]
      · right
        exact ⟨[t], rfl, g1.bad' (Bad.alloc hk) (by omega), by simpa [utIds] using i1.fail⟩
      · have g2 := g1.trans (Good.alloc hk)
        have i2 := i1.alloc
        generalize ({ count := s1.count + 1, evs := s1.evs ++ [.alloc (s1.count + 1)] } : St) = s2 at g2 i2 ⊢
        generalize s1.count + 1 = b at g2 i2 ⊢
        have hh := addToBkt_bk k { tbl := t, bkts := b, log2 := Gen.Uthash.initialLog2 } (entries ++ [e]) e [b, t] s2 X
          (i2.perm (by simp only [UT.ids]; perm_ac))
        rw [hmap] at hh
        have hbk : bkOf { tbl := t, bkts := b, log2 := Gen.Uthash.initialLog2 } = ⟨Gen.Uthash.initialLog2, [], false, 0⟩ := rfl
        rw [hbk] at hh
        generalize addToBkt k { tbl := t, bkts := b, log2 := Gen.Uthash.initialLog2 } (entries ++ [e]) e [b, t] s2 = r at hh ⊢
        obtain ⟨ro, rs⟩ := r
        rcases hh with ⟨u', h1, hb, h2, h3⟩ | ⟨h1, h2, h3⟩ <;> simp only at h1 h2 h3 <;> subst h1
        · left
          exact ⟨u', rfl, hb, (g2.trans h2).trans' (Good.refl k rs) (by omega), h3⟩
        · right
          refine ⟨[b, t], rfl, (g2.bad h2).mono (by omega), h3.perm ?_⟩
          simp only [utIds, UT.ids]; perm_ac

-- ---------------------------------------------------------------------------------------------------------------
-- blocks of owned values

/-- rearrangement of list expressions up to permutation (as `perm_ac`, knowing the ownership trees of Model/LadderTree) -/
macro "perm_av" : tactic => `(tactic| (rw [List.perm_iff_count]; intro x; (try simp only [List.count_cons, List.count_append, List.count_nil, List.append_assoc, List.cons_append, List.nil_append, List.reverse_nil, List.append_nil, List.map_cons, List.map_nil, Option.toList, VOwned.ids, VOwned.idsList, VOwned.idsEntries, VOwned.parts, VOwned.obj]) <;> omega))

theorem idsListV_append (a b : List VOwned) : VOwned.idsList (a ++ b) = VOwned.idsList a ++ VOwned.idsList b := by
  induction a with
  | nil => simp [VOwned.idsList]
  | cons e es ih => simp [VOwned.idsList, ih]

theorem idsEntries_append (a b : List (EKey × VOwned)) :
    VOwned.idsEntries (a ++ b) = VOwned.idsEntries a ++ VOwned.idsEntries b := by
  induction a with
  | nil => simp [VOwned.idsEntries]
  | cons e es ih => obtain ⟨ek, v⟩ := e; simp [VOwned.idsEntries, ih]

theorem idsV_eq_obj_parts (o : VOwned) : o.ids = o.obj :: o.parts := by
  cases o <;> simp [VOwned.ids, VOwned.obj, VOwned.parts]

theorem withObjV_parts (o : VOwned) (t : Nat) : (o.withObj t).parts = o.parts := by
  cases o <;> rfl

theorem withObjV_obj (o : VOwned) (t : Nat) : (o.withObj t).obj = t := by
  cases o <;> rfl

theorem withObjV_ids (o : VOwned) (t : Nat) : (o.withObj t).ids = t :: o.parts := by
  rw [idsV_eq_obj_parts, withObjV_obj, withObjV_parts]

/-- the hash values of the entries of a table under construction, in insertion order -/
def hashes (es : List (EKey × VOwned)) : List Nat := es.map (fun p => p.1.hashv)

theorem shadow_hashes (es : List (EKey × VOwned)) : (shadow es).map (·.hashv) = hashes es := by
  simp [shadow, hashes, shadowEntry, List.map_map, Function.comp_def]

theorem hashes_append (a : List (EKey × VOwned)) (x : EKey × VOwned) : hashes (a ++ [x]) = hashes a ++ [x.1.hashv] := by
  simp [hashes]

-- ---------------------------------------------------------------------------------------------------------------
-- cif_value_free / cif_value_clean

theorem WFList_append (a b : List VOwned) : VOwned.WFList (a ++ b) ↔ VOwned.WFList a ∧ VOwned.WFList b := by
  induction a with
  | nil => simp [VOwned.WFList]
  | cons e es ih => simp [VOwned.WFList, ih, and_assoc]

theorem WFEntries_append (a b : List (EKey × VOwned)) :
    VOwned.WFEntries (a ++ b) ↔ VOwned.WFEntries a ∧ VOwned.WFEntries b := by
  induction a with
  | nil => simp [VOwned.WFEntries]
  | cons e es ih => obtain ⟨ek, v⟩ := e; simp [VOwned.WFEntries, ih, and_assoc]

theorem WF_withObj (o : VOwned) (t : Nat) (h : o.WF) : (o.withObj t).WF := by
  cases o <;> first | trivial | exact h

mutual
  /-- releasing an owned value releases exactly its blocks, each while live -/
  theorem freeV_spec : ∀ (o : VOwned) (s : St) (L : List Nat), o.WF → Inv s (o.ids ++ L) →
      Inv (freeV o s) L ∧ Same s (freeV o s)
    | .scalar o, s, L, _, h => by
      simp only [freeV]
      exact ⟨Inv.free (h.perm (by perm_av)), (Same.refl s).free _⟩
    | .chr o t, s, L, _, h => by
      simp only [freeV]
      have h1 : Inv s (t :: o :: L) := h.perm (by perm_av)
      exact ⟨h1.free.free, ((Same.refl s).free _).free _⟩
    | .numb o t d none, s, L, _, h => by
      simp only [freeV]
      have h1 : Inv s (t :: d :: o :: L) := h.perm (by perm_av)
      exact ⟨h1.free.free.free, (((Same.refl s).free _).free _).free _⟩
    | .numb o t d (some u), s, L, _, h => by
      simp only [freeV]
      have h1 : Inv s (t :: d :: u :: o :: L) := h.perm (by perm_av)
      exact ⟨h1.free.free.free.free, ((((Same.refl s).free _).free _).free _).free _⟩
    | .lst o a es, s, L, w, h => by
      simp only [freeV]
      have h1 : Inv s (VOwned.idsList es ++ (a :: o :: L)) := h.perm (by perm_av)
      have ⟨h2, h3⟩ := freeRevV_spec es s _ (by simpa [VOwned.WF] using w) h1
      exact ⟨h2.free.free, (h3.free _).free _⟩
    | .tbl o ut es, s, L, w, h => by
      simp only [freeV]
      simp only [VOwned.WF] at w
      have h1 : Inv s (utBlocks ut ++ (VOwned.idsEntries es ++ (o :: L))) := h.perm (by perm_av)
      have ⟨h2, h3⟩ := cleanEntriesV_spec ut es s _ w.1 w.2 h1
      exact ⟨h2.free, h3.free _⟩
  theorem freeRevV_spec : ∀ (es : List VOwned) (s : St) (L : List Nat), VOwned.WFList es →
      Inv s (VOwned.idsList es ++ L) → Inv (freeRevV es s) L ∧ Same s (freeRevV es s)
    | [], s, L, _, h => by
      simp only [freeRevV]
      exact ⟨by simpa [VOwned.idsList] using h, Same.refl s⟩
    | e :: es, s, L, w, h => by
      simp only [freeRevV]
      simp only [VOwned.WFList] at w
      have h1 : Inv s (VOwned.idsList es ++ (e.ids ++ L)) := h.perm (by perm_av)
      have ⟨h2, h3⟩ := freeRevV_spec es s _ w.2 h1
      have ⟨h4, h5⟩ := freeV_spec e _ L w.1 h2
      exact ⟨h4, h3.trans h5⟩
  /-- cif_table_value_clean: everything the table owns is released, each block once -/
  theorem cleanEntriesV_spec (ut : Option UT) : ∀ (es : List (EKey × VOwned)) (s : St) (L : List Nat),
      (es = [] → ut = none) → VOwned.WFEntries es → Inv s (utBlocks ut ++ (VOwned.idsEntries es ++ L)) →
      Inv (cleanEntriesV ut es s) L ∧ Same s (cleanEntriesV ut es s)
    | [], s, L, hu, _, h => by
      have := hu rfl
      subst this
      simp only [cleanEntriesV]
      exact ⟨by simpa [utBlocks, VOwned.idsEntries] using h, Same.refl s⟩
    | [(ek, v)], s, L, _, w, h => by
      simp only [cleanEntriesV, List.isEmpty_nil, if_true]
      simp only [VOwned.WFEntries] at w
      cases ut with
      | none =>
        simp only
        have h1 : Inv s (ek.key :: ek.orig :: (v.ids ++ L)) := h.perm (by simp only [utBlocks]; perm_av)
        have ⟨f1, f2⟩ := freeV_spec v _ L w.1 h1.free.free
        exact ⟨f1, (((Same.refl s).free _).free _).trans f2⟩
      | some u =>
        simp only
        have h1 : Inv s (u.bkts :: u.tbl :: ek.key :: ek.orig :: (v.ids ++ L)) := h.perm (by simp only [utBlocks]; perm_av)
        have ⟨f1, f2⟩ := freeV_spec v _ L w.1 h1.free.free.free.free
        exact ⟨f1, (((((Same.refl s).free _).free _).free _).free _).trans f2⟩
    | (ek, v) :: e' :: es, s, L, _, w, h => by
      simp only [cleanEntriesV, List.isEmpty_cons, Bool.false_eq_true, if_false]
      simp only [VOwned.WFEntries] at w
      have h1 : Inv s (ek.key :: ek.orig :: (v.ids ++ (utBlocks ut ++ (VOwned.idsEntries (e' :: es) ++ L)))) :=
        h.perm (by perm_av)
      have ⟨f1, f2⟩ := freeV_spec v _ _ w.1 h1.free.free
      have ⟨g1, g2⟩ := cleanEntriesV_spec ut (e' :: es) _ L (fun hx => by cases hx) (by simpa [VOwned.WFEntries] using w.2) f1
      simp only [cleanEntriesV] at g1 g2
      exact ⟨g1, (((Same.refl s).free _).free _).trans (f2.trans g2)⟩
end

/-- `cif_value_clean` releases exactly the component blocks, each while live; the object stays -/
theorem cleanV_spec (o : VOwned) (s : St) (L : List Nat) (w : o.WF) (h : Inv s (o.parts ++ L)) :
    Inv (cleanV o s) L ∧ Same s (cleanV o s) := by
  cases o with
  | scalar o => exact ⟨by simpa [VOwned.parts, cleanV] using h, Same.refl s⟩
  | chr o t =>
    simp only [cleanV]
    exact ⟨Inv.free (h.perm (by perm_av)), (Same.refl s).free _⟩
  | numb o t d su =>
    cases su with
    | none =>
      simp only [cleanV]
      have h1 : Inv s (t :: d :: L) := h.perm (by perm_av)
      exact ⟨h1.free.free, ((Same.refl s).free _).free _⟩
    | some u =>
      simp only [cleanV]
      have h1 : Inv s (t :: d :: u :: L) := h.perm (by perm_av)
      exact ⟨h1.free.free.free, (((Same.refl s).free _).free _).free _⟩
  | lst o a es =>
    simp only [cleanV]
    have h1 : Inv s (VOwned.idsList es ++ (a :: L)) := h.perm (by perm_av)
    have ⟨h2, h3⟩ := freeRevV_spec es s _ (by simpa [VOwned.WF] using w) h1
    exact ⟨h2.free, h3.free _⟩
  | tbl o ut es =>
    simp only [cleanV]
    simp only [VOwned.WF] at w
    exact cleanEntriesV_spec ut es s L w.1 w.2 (by simpa [VOwned.parts] using h)

-- ---------------------------------------------------------------------------------------------------------------
-- cif_value_clone of an arbitrary value

mutual
  /-- number of requests of `cloneIntoV` on a shape (fault-free) -/
  def vallocs : VShape → Nat
    | .scalar => 0
    | .chr => 1
    | .numb hasSu => if hasSu then 3 else 2
    | .lst es => 1 + vallocsList es
    | .tbl es => vallocsEntries es none []
  def vallocsList : List VShape → Nat
    | [] => 0
    | e :: es => 1 + vallocs e + vallocsList es
  /-- requests of the entry loop of cif_value_clone_table when uthash's bookkeeping is `b` and the table already holds
      items with the hash values `hs`: per entry the entry block, key, key_orig, the scratch object and the value's
      components, then what HASH_ADD_KEYPTR requests -/
  def vallocsEntries : List (Str × VShape) → Option BK → List Nat → Nat
    | [], _, _ => 0
    | (key, sh) :: rest, b, hs =>
      4 + vallocs sh + (bkAdd b (hs ++ [hashJen (keyBytes key)]) (hashJen (keyBytes key))).2 +
        vallocsEntries rest (some (bkAdd b (hs ++ [hashJen (keyBytes key)]) (hashJen (keyBytes key))).1)
          (hs ++ [hashJen (keyBytes key)])
end

theorem utIds_eq_utBlocks (u : Option UT) : utIds u = utBlocks u := by
  cases u <;> rfl

theorem WF_tbl_nonempty {ut : Option UT} {a : List (EKey × VOwned)} {x : EKey × VOwned} :
    (a ++ [x] = [] → ut = none) := by
  intro h; simp at h

mutual
  /-- `cloneIntoV` with the target object `obj` live: either every request succeeds and exactly the blocks of the
      (well-formed) result are added to `L`, or the fault position is hit and everything, `obj` included, is released
      exactly once; in both cases whatever else was live (`L`: the source, anything of the caller) still is -/
  theorem cloneIntoV_spec (k obj : Nat) : ∀ (sh : VShape) (s : St) (L : List Nat), Inv s (obj :: L) →
      (∃ o, (cloneIntoV k obj sh s).1 = some o ∧ o.obj = obj ∧ o.WF ∧ Good k (vallocs sh) s (cloneIntoV k obj sh s).2 ∧
          Inv (cloneIntoV k obj sh s).2 (o.ids ++ L)) ∨
      ((cloneIntoV k obj sh s).1 = none ∧ Bad k (vallocs sh) s (cloneIntoV k obj sh s).2 ∧ Inv (cloneIntoV k obj sh s).2 L)
    | .scalar, s, L, h => by
      left
      simp only [cloneIntoV, vallocs]
      exact ⟨_, rfl, rfl, trivial, Good.refl k s, h⟩
    | .chr, s, L, h => by
      simp only [cloneIntoV, vallocs]
      rcases alloc_cases k s with ⟨hk, ha⟩ | ⟨hk, ha⟩ <;> simp only [ha]
      · right
        exact ⟨trivial, (Bad.alloc hk).free _, h.fail.free⟩
      · left
        exact ⟨_, rfl, rfl, trivial, Good.alloc hk, h.alloc.perm (by perm_av)⟩
    | .numb hasSu, s, L, h => by
      simp only [cloneIntoV, vallocs]
      rcases alloc_cases k s with ⟨hk, ha⟩ | ⟨hk, ha⟩ <;> simp only [ha]
      · right
        exact ⟨trivial, ((Bad.alloc hk).free _).mono (by split <;> omega), h.fail.free⟩
      · have g1 := Good.alloc hk
        have i1 := h.alloc
        generalize ({ count := s.count + 1, evs := s.evs ++ [.alloc (s.count + 1)] } : St) = s1 at g1 i1 ⊢
        generalize s.count + 1 = t at g1 i1 ⊢
        rcases alloc_cases k s1 with ⟨hk, ha⟩ | ⟨hk, ha⟩ <;> simp only [ha]
        · right
          refine ⟨trivial, g1.bad' (((Bad.alloc hk).free _).free _) (by split <;> omega), ?_⟩
          exact Inv.free (Inv.free i1.fail)
        · have g2 := g1.trans (Good.alloc hk)
          have i2 := i1.alloc
          generalize ({ count := s1.count + 1, evs := s1.evs ++ [.alloc (s1.count + 1)] } : St) = s2 at g2 i2 ⊢
          generalize s1.count + 1 = d at g2 i2 ⊢
          cases hasSu with
          | false =>
            left
            exact ⟨_, rfl, rfl, trivial, g2, i2.perm (by perm_av)⟩
          | true =>
            simp only [if_true]
            rcases alloc_cases k s2 with ⟨hk, ha⟩ | ⟨hk, ha⟩ <;> simp only [ha]
            · right
              refine ⟨trivial, g2.bad' ((((Bad.alloc hk).free _).free _).free _) (by omega), ?_⟩
              exact Inv.free (Inv.free (Inv.free (i2.fail.perm (by perm_av))))
            · left
              exact ⟨_, rfl, rfl, trivial, g2.trans (Good.alloc hk), i2.alloc.perm (by perm_av)⟩
    | .lst es, s, L, h => by
      simp only [cloneIntoV, vallocs]
      rcases alloc_cases k s with ⟨hk, ha⟩ | ⟨hk, ha⟩ <;> simp only [ha]
      · right
        exact ⟨trivial, ((Bad.alloc hk).free _).mono (by omega), h.fail.free⟩
      · have g1 := Good.alloc hk
        have i1 := h.alloc
        generalize ({ count := s.count + 1, evs := s.evs ++ [.alloc (s.count + 1)] } : St) = s1 at g1 i1 ⊢
        generalize s.count + 1 = arr at g1 i1 ⊢
        have hh := cloneElemsV_spec k es [] s1 (arr :: obj :: L) trivial (by simpa [VOwned.idsList] using i1)
        generalize cloneElemsV k es [] s1 = r at hh ⊢
        obtain ⟨ro, rs⟩ := r
        rcases hh with ⟨os, h1, hw, h2, h3⟩ | ⟨h1, h2, h3⟩ <;> simp only at h1 h2 h3 <;> subst h1 <;> simp only
        · left
          exact ⟨_, rfl, rfl, hw, g1.trans h2, h3.perm (by perm_av)⟩
        · right
          exact ⟨trivial, g1.bad' ((h2.free _).free _) (by omega), h3.free.free⟩
    | .tbl es, s, L, h => by
      simp only [cloneIntoV, vallocs]
      have hh := cloneEntriesV_spec k es none [] s (obj :: L) (fun _ => rfl) trivial
        (by simpa [utBlocks, VOwned.idsEntries] using h)
      simp only [Option.map, hashes, List.map_nil] at hh
      generalize cloneEntriesV k es none [] s = r at hh ⊢
      obtain ⟨ro, rs⟩ := r
      rcases hh with ⟨ut', es', h1, hw1, hw2, h2, h3⟩ | ⟨h1, h2, h3⟩ <;> simp only at h1 h2 h3 <;> subst h1 <;> simp only
      · left
        exact ⟨_, rfl, rfl, ⟨hw1, hw2⟩, h2, h3.perm (by perm_av)⟩
      · right
        exact ⟨trivial, h2.free _, h3.free⟩
  /-- the element loop with the elements `done` (most recent first) cloned so far -/
  theorem cloneElemsV_spec (k : Nat) : ∀ (es : List VShape) (done : List VOwned) (s : St) (L : List Nat),
      VOwned.WFList done.reverse → Inv s (VOwned.idsList done.reverse ++ L) →
      (∃ os, (cloneElemsV k es done s).1 = some os ∧ VOwned.WFList os ∧ Good k (vallocsList es) s (cloneElemsV k es done s).2 ∧
          Inv (cloneElemsV k es done s).2 (VOwned.idsList os ++ L)) ∨
      ((cloneElemsV k es done s).1 = none ∧ Bad k (vallocsList es) s (cloneElemsV k es done s).2 ∧
          Inv (cloneElemsV k es done s).2 L)
    | [], done, s, L, w, h => by
      left
      simp only [cloneElemsV, vallocsList]
      exact ⟨_, rfl, w, Good.refl k s, h⟩
    | sh :: rest, done, s, L, w, h => by
      simp only [cloneElemsV, vallocsList]
      rcases alloc_cases k s with ⟨hk, ha⟩ | ⟨hk, ha⟩ <;> simp only [ha]
      · right
        have ⟨f1, f2⟩ := freeRevV_spec done.reverse _ L w h.fail
        exact ⟨trivial, ((Bad.alloc hk).same f2).mono (by omega), f1⟩
      · have g1 := Good.alloc hk
        have i1 := h.alloc
        generalize ({ count := s.count + 1, evs := s.evs ++ [.alloc (s.count + 1)] } : St) = s1 at g1 i1 ⊢
        generalize s.count + 1 = obj at g1 i1 ⊢
        have hh := cloneIntoV_spec k obj sh s1 _ i1
        generalize cloneIntoV k obj sh s1 = r at hh ⊢
        obtain ⟨ro, rs⟩ := r
        rcases hh with ⟨o, h1, _, hwo, h2, h3⟩ | ⟨h1, h2, h3⟩ <;> simp only at h1 h2 h3 <;> subst h1 <;> simp only
        · have w2 : VOwned.WFList (o :: done).reverse := by
            rw [List.reverse_cons, WFList_append]; exact ⟨w, hwo, trivial⟩
          have i2 : Inv rs (VOwned.idsList (o :: done).reverse ++ L) := by
            rw [List.reverse_cons, idsListV_append]
            exact h3.perm (by perm_av)
          rcases cloneElemsV_spec k rest (o :: done) _ L w2 i2 with ⟨os, e1, ew, e2, e3⟩ | ⟨e1, e2, e3⟩
          · left
            exact ⟨os, e1, ew, (g1.trans h2).trans' e2 (by omega), e3⟩
          · right
            exact ⟨e1, (g1.trans h2).bad' e2 (by omega), e3⟩
        · right
          have ⟨f1, f2⟩ := freeRevV_spec done.reverse _ L w h3
          exact ⟨trivial, (g1.bad' h2 (by omega)).same f2, f1⟩
  /-- the entry loop of cif_value_clone_table with the table (`ut`, `done`) built so far -/
  theorem cloneEntriesV_spec (k : Nat) : ∀ (src : List (Str × VShape)) (ut : Option UT) (done : List (EKey × VOwned))
      (s : St) (L : List Nat), (done = [] → ut = none) → VOwned.WFEntries done →
      Inv s (utBlocks ut ++ (VOwned.idsEntries done ++ L)) →
      (∃ ut' es', (cloneEntriesV k src ut done s).1 = some (ut', es') ∧ (es' = [] → ut' = none) ∧ VOwned.WFEntries es' ∧
          Good k (vallocsEntries src (ut.map bkOf) (hashes done)) s (cloneEntriesV k src ut done s).2 ∧
          Inv (cloneEntriesV k src ut done s).2 (utBlocks ut' ++ (VOwned.idsEntries es' ++ L))) ∨
      ((cloneEntriesV k src ut done s).1 = none ∧
          Bad k (vallocsEntries src (ut.map bkOf) (hashes done)) s (cloneEntriesV k src ut done s).2 ∧
          Inv (cloneEntriesV k src ut done s).2 L)
    | [], ut, done, s, L, hu, w, h => by
      left
      simp only [cloneEntriesV, vallocsEntries]
      exact ⟨ut, done, rfl, hu, w, Good.refl k s, h⟩
    | (key, sh) :: rest, ut, done, s, L, hu, w, h => by
      have hclean : ∀ (s' : St), Inv s' (utBlocks ut ++ (VOwned.idsEntries done ++ L)) →
          Inv (cleanEntriesV ut done s') L ∧ Same s' (cleanEntriesV ut done s') :=
        fun s' hs => cleanEntriesV_spec ut done s' L hu w hs
      simp only [cloneEntriesV, vallocsEntries]
      generalize hN : (bkAdd (ut.map bkOf) (hashes done ++ [hashJen (keyBytes key)]) (hashJen (keyBytes key))) = bk
      rcases alloc_cases k s with ⟨hk, ha⟩ | ⟨hk, ha⟩ <;> simp only [ha]
      · right
        have ⟨c1, c2⟩ := hclean _ h.fail
        exact ⟨trivial, ((Bad.alloc hk).same c2).mono (by omega), c1⟩
      · have g1 := Good.alloc hk
        have i1 := h.alloc
        generalize ({ count := s.count + 1, evs := s.evs ++ [.alloc (s.count + 1)] } : St) = s1 at g1 i1 ⊢
        generalize s.count + 1 = ent at g1 i1 ⊢
        rcases alloc_cases k s1 with ⟨hk, ha⟩ | ⟨hk, ha⟩ <;> simp only [ha]
        · right
          have ⟨c1, c2⟩ := hclean _ (Inv.free i1.fail)
          exact ⟨trivial, (g1.bad' ((Bad.alloc hk).free _) (by omega)).same c2, c1⟩
        · have g2 := g1.trans (Good.alloc hk)
          have i2 := i1.alloc
          generalize ({ count := s1.count + 1, evs := s1.evs ++ [.alloc (s1.count + 1)] } : St) = s2 at g2 i2 ⊢
          generalize s1.count + 1 = kb at g2 i2 ⊢
          rcases alloc_cases k s2 with ⟨hk, ha⟩ | ⟨hk, ha⟩ <;> simp only [ha]
          · right
            have ⟨c1, c2⟩ := hclean _ (Inv.free (Inv.free i2.fail))
            exact ⟨trivial, (g2.bad' (((Bad.alloc hk).free _).free _) (by omega)).same c2, c1⟩
          · have g3 := g2.trans (Good.alloc hk)
            have i3 := i2.alloc
            generalize ({ count := s2.count + 1, evs := s2.evs ++ [.alloc (s2.count + 1)] } : St) = s3 at g3 i3 ⊢
            generalize s2.count + 1 = ob at g3 i3 ⊢
            rcases alloc_cases k s3 with ⟨hk, ha⟩ | ⟨hk, ha⟩ <;> simp only [ha]
            · right
              have i3f : Inv { count := s3.count + 1, evs := s3.evs ++ [.fail (s3.count + 1)] }
                  (ob :: kb :: ent :: (utBlocks ut ++ (VOwned.idsEntries done ++ L))) := i3.fail.perm (by perm_av)
              have ⟨c1, c2⟩ := hclean _ i3f.free.free.free
              exact ⟨trivial, (g3.bad' ((((Bad.alloc hk).free _).free _).free _) (by omega)).same c2, c1⟩
            · have g4 := g3.trans (Good.alloc hk)
              have i4 := i3.alloc
              generalize ({ count := s3.count + 1, evs := s3.evs ++ [.alloc (s3.count + 1)] } : St) = s4 at g4 i4 ⊢
              generalize s3.count + 1 = sobj at g4 i4 ⊢
              have hh := cloneIntoV_spec k sobj sh s4 _ i4
              generalize cloneIntoV k sobj sh s4 = r at hh ⊢
              obtain ⟨ro, s5⟩ := r
              rcases hh with ⟨sc, h1, hso, hwsc, h2, h3⟩ | ⟨h1, h2, h3⟩ <;> simp only at h1 h2 h3 <;> subst h1 <;> simp only
              · have g5 := (g4.trans h2).free sobj
                have hsc := idsV_eq_obj_parts sc
                rw [hso] at hsc
                have i5 : Inv (free sobj s5) (utBlocks ut ++ (sc.parts ++ (ob :: kb :: ent :: (VOwned.idsEntries done ++ L)))) := by
                  refine Inv.free (h3.perm ?_)
                  rw [hsc]; perm_av
                generalize free sobj s5 = s5' at g5 i5 ⊢
                have hh := hashAdd_bk k { ut := ut, entries := shadow done }
                  (shadowEntry { key := kb, orig := ob, hashv := hashJen (keyBytes key) }) s5' _
                  (by rw [utIds_eq_utBlocks]; exact i5)
                simp only [shadow_hashes] at hh
                have he : (shadowEntry { key := kb, orig := ob, hashv := hashJen (keyBytes key) }).hashv = hashJen (keyBytes key) := rfl
                rw [he, hN] at hh
                generalize hashAdd k { ut := ut, entries := shadow done }
                  (shadowEntry { key := kb, orig := ob, hashv := hashJen (keyBytes key) }) s5' = r at hh ⊢
                obtain ⟨ro, s6⟩ := r
                rcases hh with ⟨u', a1, ab, a4, a5⟩ | ⟨t, a1, a4, a5⟩ <;> simp only at a1 a4 a5 <;> subst a1 <;> simp only
                · have w' : VOwned.WFEntries (done ++ [({ key := kb, orig := ob, hashv := hashJen (keyBytes key) }, sc.withObj ent)]) := by
                    rw [WFEntries_append]; exact ⟨w, WF_withObj sc ent hwsc, trivial⟩
                  have i6 : Inv s6 (utBlocks (some u') ++
                      (VOwned.idsEntries (done ++ [({ key := kb, orig := ob, hashv := hashJen (keyBytes key) }, sc.withObj ent)]) ++ L)) := by
                    rw [idsEntries_append]
                    refine a5.perm ?_
                    simp only [VOwned.idsEntries, withObjV_ids, utBlocks, UT.ids]; perm_av
                  have ih := cloneEntriesV_spec k rest (some u')
                    (done ++ [({ key := kb, orig := ob, hashv := hashJen (keyBytes key) }, sc.withObj ent)]) s6 L
                    WF_tbl_nonempty w' i6
                  rw [hashes_append] at ih
                  simp only [Option.map] at ih
                  rw [ab] at ih
                  rcases ih with ⟨ut', es', e1, e2, e3, e4, e5⟩ | ⟨e1, e4, e5⟩
                  · left
                    exact ⟨ut', es', e1, e2, e3, ((g5.trans a4).trans' e4 (by omega)), e5⟩
                  · right
                    exact ⟨e1, (g5.trans a4).bad' e4 (by omega), e5⟩
                · right
                  have i6 : Inv s6 (t ++ (sc.parts ++ (ob :: kb :: ent :: (utBlocks ut ++ (VOwned.idsEntries done ++ L))))) := by
                    refine a5.perm ?_
                    rw [utIds_eq_utBlocks]
                    perm_av
                  have i7 := i6.freeAll t _ _
                  have ⟨c1', c2'⟩ := cleanV_spec (sc.withObj ent) (freeAll t s6)
                    (ob :: kb :: ent :: (utBlocks ut ++ (VOwned.idsEntries done ++ L))) (WF_withObj sc ent hwsc)
                    (by rw [withObjV_parts]; exact i7)
                  have ⟨c1, c2⟩ := hclean _ c1'.free.free.free
                  refine ⟨trivial, ?_, c1⟩
                  exact ((((((g5.bad a4).same (Same.freeAll t s6)).same c2').free _).free _).free _).same c2 |>.mono (by omega)
              · right
                have i5 : Inv s5 (ob :: kb :: ent :: (utBlocks ut ++ (VOwned.idsEntries done ++ L))) := h3.perm (by perm_av)
                have ⟨c1, c2⟩ := hclean _ i5.free.free.free
                exact ⟨trivial, ((((g4.bad h2).free _).free _).free _).same c2 |>.mono (by omega), c1⟩
end

/-- number of requests of `cif_value_clone` with a fresh target (fault-free): the value object and `vallocs` -/
def cloneVAllocs (sh : VShape) : Nat := 1 + vallocs sh

/-- `cif_value_clone` of ANY value into a fresh target, from any consistent state -/
theorem cloneV_spec (k : Nat) (sh : VShape) (s : St) (L : List Nat) (h : Inv s L) :
    (∃ o, (cloneV k sh s).1 = some o ∧ o.WF ∧ Good k (cloneVAllocs sh) s (cloneV k sh s).2 ∧ Inv (cloneV k sh s).2 (o.ids ++ L)) ∨
    ((cloneV k sh s).1 = none ∧ Bad k (cloneVAllocs sh) s (cloneV k sh s).2 ∧ Inv (cloneV k sh s).2 L) := by
  simp only [cloneV, cloneVAllocs]
  rcases alloc_cases k s with ⟨hk, ha⟩ | ⟨hk, ha⟩ <;> simp only [ha]
  · right
    exact ⟨trivial, (Bad.alloc hk).mono (by omega), h.fail⟩
  · rcases cloneIntoV_spec k (s.count + 1) sh _ L h.alloc with ⟨o, h1, _, hw, h2, h3⟩ | ⟨h1, h2, h3⟩
    · left
      exact ⟨o, h1, hw, (Good.alloc hk).trans h2, h3⟩
    · right
      exact ⟨h1, (Good.alloc hk).bad h2, h3⟩

-- ---------------------------------------------------------------------------------------------------------------
-- cif_value_deserialize of an arbitrary blob

mutual
  /-- number of requests of `deserIntoV` on a shape (fault-free) -/
  def dvallocs : VShape → Nat
    | .scalar => 0
    | .chr => 1
    | .numb hasSu => if hasSu then 3 else 2
    | .lst es => if es.isEmpty then 0 else 1 + dvallocsList es
    | .tbl es => dvallocsEntries es none []
  def dvallocsList : List VShape → Nat
    | [] => 0
    | e :: es => 1 + dvallocs e + dvallocsList es
  /-- per entry: key, key_orig, the entry block and the value's components, then what HASH_ADD_KEYPTR requests -/
  def dvallocsEntries : List (Str × VShape) → Option BK → List Nat → Nat
    | [], _, _ => 0
    | (key, sh) :: rest, b, hs =>
      3 + dvallocs sh + (bkAdd b (hs ++ [hashJen (keyBytes key)]) (hashJen (keyBytes key))).2 +
        dvallocsEntries rest (some (bkAdd b (hs ++ [hashJen (keyBytes key)]) (hashJen (keyBytes key))).1)
          (hs ++ [hashJen (keyBytes key)])
end

mutual
  theorem deserIntoV_spec (k obj : Nat) : ∀ (sh : VShape) (s : St) (L : List Nat), Inv s (obj :: L) →
      (∃ o, (deserIntoV k obj sh s).1 = some o ∧ o.WF ∧ Good k (dvallocs sh) s (deserIntoV k obj sh s).2 ∧
          Inv (deserIntoV k obj sh s).2 (o.ids ++ L)) ∨
      ((deserIntoV k obj sh s).1 = none ∧ Bad k (dvallocs sh) s (deserIntoV k obj sh s).2 ∧ Inv (deserIntoV k obj sh s).2 L)
    | .scalar, s, L, h => by
      left
      simp only [deserIntoV, dvallocs]
      exact ⟨_, rfl, trivial, Good.refl k s, h⟩
    | .chr, s, L, h => by
      simp only [deserIntoV, dvallocs]
      rcases alloc_cases k s with ⟨hk, ha⟩ | ⟨hk, ha⟩ <;> simp only [ha]
      · right
        exact ⟨trivial, (Bad.alloc hk).free _, h.fail.free⟩
      · left
        exact ⟨_, rfl, trivial, Good.alloc hk, h.alloc.perm (by perm_av)⟩
    | .numb hasSu, s, L, h => by
      simp only [deserIntoV, dvallocs]
      rcases alloc_cases k s with ⟨hk, ha⟩ | ⟨hk, ha⟩ <;> simp only [ha]
      · right
        exact ⟨trivial, ((Bad.alloc hk).free _).mono (by split <;> omega), h.fail.free⟩
      · have g1 := Good.alloc hk
        have i1 := h.alloc
        generalize ({ count := s.count + 1, evs := s.evs ++ [.alloc (s.count + 1)] } : St) = s1 at g1 i1 ⊢
        generalize s.count + 1 = t at g1 i1 ⊢
        cases hasSu with
        | false =>
          simp only [Bool.false_eq_true, if_false]
          rcases alloc_cases k s1 with ⟨hk, ha⟩ | ⟨hk, ha⟩ <;> simp only [ha]
          · right
            exact ⟨trivial, g1.bad' (((Bad.alloc hk).free _).free _) (by omega), Inv.free (Inv.free i1.fail)⟩
          · left
            exact ⟨_, rfl, trivial, g1.trans (Good.alloc hk), i1.alloc.perm (by perm_av)⟩
        | true =>
          simp only [if_true]
          rcases alloc_cases k s1 with ⟨hk, ha⟩ | ⟨hk, ha⟩ <;> simp only [ha]
          · right
            exact ⟨trivial, g1.bad' (((Bad.alloc hk).free _).free _) (by omega), Inv.free (Inv.free i1.fail)⟩
          · have g2 := g1.trans (Good.alloc hk)
            have i2 := i1.alloc
            generalize ({ count := s1.count + 1, evs := s1.evs ++ [.alloc (s1.count + 1)] } : St) = s2 at g2 i2 ⊢
            generalize s1.count + 1 = u at g2 i2 ⊢
            rcases alloc_cases k s2 with ⟨hk, ha⟩ | ⟨hk, ha⟩ <;> simp only [ha]
            · right
              exact ⟨trivial, g2.bad' ((((Bad.alloc hk).free _).free _).free _) (by omega),
                Inv.free (Inv.free (Inv.free i2.fail))⟩
            · left
              exact ⟨_, rfl, trivial, g2.trans (Good.alloc hk), i2.alloc.perm (by perm_av)⟩
    | .lst [], s, L, h => by
      left
      simp only [deserIntoV, dvallocs, List.isEmpty_nil, if_true]
      exact ⟨_, rfl, trivial, Good.refl k s, h⟩
    | .lst (e :: es), s, L, h => by
      simp only [deserIntoV, dvallocs, List.isEmpty_cons, Bool.false_eq_true, if_false]
      rcases alloc_cases k s with ⟨hk, ha⟩ | ⟨hk, ha⟩ <;> simp only [ha]
      · right
        exact ⟨trivial, ((Bad.alloc hk).free _).mono (by omega), h.fail.free⟩
      · have g1 := Good.alloc hk
        have i1 := h.alloc
        generalize ({ count := s.count + 1, evs := s.evs ++ [.alloc (s.count + 1)] } : St) = s1 at g1 i1 ⊢
        generalize s.count + 1 = arr at g1 i1 ⊢
        have hh := deserElemsV_spec k (e :: es) [] s1 (arr :: obj :: L) trivial (by simpa [VOwned.idsList] using i1)
        generalize deserElemsV k (e :: es) [] s1 = r at hh ⊢
        obtain ⟨ro, rs⟩ := r
        rcases hh with ⟨os, h1, hw, h2, h3⟩ | ⟨h1, h2, h3⟩ <;> simp only at h1 h2 h3 <;> subst h1 <;> simp only
        · left
          exact ⟨_, rfl, hw, g1.trans h2, h3.perm (by perm_av)⟩
        · right
          exact ⟨trivial, g1.bad' ((h2.free _).free _) (by omega), h3.free.free⟩
    | .tbl es, s, L, h => by
      simp only [deserIntoV, dvallocs]
      have hh := deserEntriesV_spec k es none [] s (obj :: L) (fun _ => rfl) trivial
        (by simpa [utBlocks, VOwned.idsEntries] using h)
      simp only [Option.map, hashes, List.map_nil] at hh
      generalize deserEntriesV k es none [] s = r at hh ⊢
      obtain ⟨ro, rs⟩ := r
      rcases hh with ⟨ut', es', h1, hw1, hw2, h2, h3⟩ | ⟨h1, h2, h3⟩ <;> simp only at h1 h2 h3 <;> subst h1 <;> simp only
      · left
        exact ⟨_, rfl, ⟨hw1, hw2⟩, h2, h3.perm (by perm_av)⟩
      · right
        exact ⟨trivial, h2.free _, h3.free⟩
  theorem deserElemsV_spec (k : Nat) : ∀ (es : List VShape) (done : List VOwned) (s : St) (L : List Nat),
      VOwned.WFList done.reverse → Inv s (VOwned.idsList done.reverse ++ L) →
      (∃ os, (deserElemsV k es done s).1 = some os ∧ VOwned.WFList os ∧ Good k (dvallocsList es) s (deserElemsV k es done s).2 ∧
          Inv (deserElemsV k es done s).2 (VOwned.idsList os ++ L)) ∨
      ((deserElemsV k es done s).1 = none ∧ Bad k (dvallocsList es) s (deserElemsV k es done s).2 ∧
          Inv (deserElemsV k es done s).2 L)
    | [], done, s, L, w, h => by
      left
      simp only [deserElemsV, dvallocsList]
      exact ⟨_, rfl, w, Good.refl k s, h⟩
    | sh :: rest, done, s, L, w, h => by
      simp only [deserElemsV, dvallocsList]
      rcases alloc_cases k s with ⟨hk, ha⟩ | ⟨hk, ha⟩ <;> simp only [ha]
      · right
        have ⟨f1, f2⟩ := freeRevV_spec done.reverse _ L w h.fail
        exact ⟨trivial, ((Bad.alloc hk).same f2).mono (by omega), f1⟩
      · have g1 := Good.alloc hk
        have i1 := h.alloc
        generalize ({ count := s.count + 1, evs := s.evs ++ [.alloc (s.count + 1)] } : St) = s1 at g1 i1 ⊢
        generalize s.count + 1 = obj at g1 i1 ⊢
        have hh := deserIntoV_spec k obj sh s1 _ i1
        generalize deserIntoV k obj sh s1 = r at hh ⊢
        obtain ⟨ro, rs⟩ := r
        rcases hh with ⟨o, h1, hwo, h2, h3⟩ | ⟨h1, h2, h3⟩ <;> simp only at h1 h2 h3 <;> subst h1 <;> simp only
        · have w2 : VOwned.WFList (o :: done).reverse := by
            rw [List.reverse_cons, WFList_append]; exact ⟨w, hwo, trivial⟩
          have i2 : Inv rs (VOwned.idsList (o :: done).reverse ++ L) := by
            rw [List.reverse_cons, idsListV_append]
            exact h3.perm (by perm_av)
          rcases deserElemsV_spec k rest (o :: done) _ L w2 i2 with ⟨os, e1, ew, e2, e3⟩ | ⟨e1, e2, e3⟩
          · left
            exact ⟨os, e1, ew, (g1.trans h2).trans' e2 (by omega), e3⟩
          · right
            exact ⟨e1, (g1.trans h2).bad' e2 (by omega), e3⟩
        · right
          have ⟨f1, f2⟩ := freeRevV_spec done.reverse _ L w h3
          exact ⟨trivial, (g1.bad' h2 (by omega)).same f2, f1⟩
  theorem deserEntriesV_spec (k : Nat) : ∀ (src : List (Str × VShape)) (ut : Option UT) (done : List (EKey × VOwned))
      (s : St) (L : List Nat), (done = [] → ut = none) → VOwned.WFEntries done →
      Inv s (utBlocks ut ++ (VOwned.idsEntries done ++ L)) →
      (∃ ut' es', (deserEntriesV k src ut done s).1 = some (ut', es') ∧ (es' = [] → ut' = none) ∧ VOwned.WFEntries es' ∧
          Good k (dvallocsEntries src (ut.map bkOf) (hashes done)) s (deserEntriesV k src ut done s).2 ∧
          Inv (deserEntriesV k src ut done s).2 (utBlocks ut' ++ (VOwned.idsEntries es' ++ L))) ∨
      ((deserEntriesV k src ut done s).1 = none ∧
          Bad k (dvallocsEntries src (ut.map bkOf) (hashes done)) s (deserEntriesV k src ut done s).2 ∧
          Inv (deserEntriesV k src ut done s).2 L)
    | [], ut, done, s, L, hu, w, h => by
      left
      simp only [deserEntriesV, dvallocsEntries]
      exact ⟨ut, done, rfl, hu, w, Good.refl k s, h⟩
    | (key, sh) :: rest, ut, done, s, L, hu, w, h => by
      have hclean : ∀ (s' : St), Inv s' (utBlocks ut ++ (VOwned.idsEntries done ++ L)) →
          Inv (cleanEntriesV ut done s') L ∧ Same s' (cleanEntriesV ut done s') :=
        fun s' hs => cleanEntriesV_spec ut done s' L hu w hs
      simp only [deserEntriesV, dvallocsEntries]
      generalize hN : (bkAdd (ut.map bkOf) (hashes done ++ [hashJen (keyBytes key)]) (hashJen (keyBytes key))) = bk
      rcases alloc_cases k s with ⟨hk, ha⟩ | ⟨hk, ha⟩ <;> simp only [ha]
      · right
        have ⟨c1, c2⟩ := hclean _ h.fail
        exact ⟨trivial, ((Bad.alloc hk).same c2).mono (by omega), c1⟩
      · have g1 := Good.alloc hk
        have i1 := h.alloc
        generalize ({ count := s.count + 1, evs := s.evs ++ [.alloc (s.count + 1)] } : St) = s1 at g1 i1 ⊢
        generalize s.count + 1 = kb at g1 i1 ⊢
        rcases alloc_cases k s1 with ⟨hk, ha⟩ | ⟨hk, ha⟩ <;> simp only [ha]
        · right
          have ⟨c1, c2⟩ := hclean _ (Inv.free i1.fail)
          exact ⟨trivial, (g1.bad' ((Bad.alloc hk).free _) (by omega)).same c2, c1⟩
        · have g2 := g1.trans (Good.alloc hk)
          have i2 := i1.alloc
          generalize ({ count := s1.count + 1, evs := s1.evs ++ [.alloc (s1.count + 1)] } : St) = s2 at g2 i2 ⊢
          generalize s1.count + 1 = ob at g2 i2 ⊢
          rcases alloc_cases k s2 with ⟨hk, ha⟩ | ⟨hk, ha⟩ <;> simp only [ha]
          · right
            have i2f : Inv { count := s2.count + 1, evs := s2.evs ++ [.fail (s2.count + 1)] }
                (ob :: kb :: (utBlocks ut ++ (VOwned.idsEntries done ++ L))) := i2.fail
            have ⟨c1, c2⟩ := hclean _ i2f.free.free
            exact ⟨trivial, (g2.bad' (((Bad.alloc hk).free _).free _) (by omega)).same c2, c1⟩
          · have g3 := g2.trans (Good.alloc hk)
            have i3 := i2.alloc
            generalize ({ count := s2.count + 1, evs := s2.evs ++ [.alloc (s2.count + 1)] } : St) = s3 at g3 i3 ⊢
            generalize s2.count + 1 = ent at g3 i3 ⊢
            have hh := deserIntoV_spec k ent sh s3 _ i3
            generalize deserIntoV k ent sh s3 = r at hh ⊢
            obtain ⟨ro, s4⟩ := r
            rcases hh with ⟨v, h1, hwv, h2, h3⟩ | ⟨h1, h2, h3⟩ <;> simp only at h1 h2 h3 <;> subst h1 <;> simp only
            · have g4 := g3.trans h2
              have i4 : Inv s4 (utBlocks ut ++ (v.ids ++ (ob :: kb :: (VOwned.idsEntries done ++ L)))) := h3.perm (by perm_av)
              have hh := hashAdd_bk k { ut := ut, entries := shadow done }
                (shadowEntry { key := kb, orig := ob, hashv := hashJen (keyBytes key) }) s4 _
                (by rw [utIds_eq_utBlocks]; exact i4)
              simp only [shadow_hashes] at hh
              have he : (shadowEntry { key := kb, orig := ob, hashv := hashJen (keyBytes key) }).hashv = hashJen (keyBytes key) := rfl
              rw [he, hN] at hh
              generalize hashAdd k { ut := ut, entries := shadow done }
                (shadowEntry { key := kb, orig := ob, hashv := hashJen (keyBytes key) }) s4 = r at hh ⊢
              obtain ⟨ro, s5⟩ := r
              rcases hh with ⟨u', a1, ab, a4, a5⟩ | ⟨t, a1, a4, a5⟩ <;> simp only at a1 a4 a5 <;> subst a1 <;> simp only
              · have w' : VOwned.WFEntries (done ++ [({ key := kb, orig := ob, hashv := hashJen (keyBytes key) }, v)]) := by
                  rw [WFEntries_append]; exact ⟨w, hwv, trivial⟩
                have i6 : Inv s5 (utBlocks (some u') ++
                    (VOwned.idsEntries (done ++ [({ key := kb, orig := ob, hashv := hashJen (keyBytes key) }, v)]) ++ L)) := by
                  rw [idsEntries_append]
                  refine a5.perm ?_
                  simp only [VOwned.idsEntries, utBlocks, UT.ids]; perm_av
                have ih := deserEntriesV_spec k rest (some u')
                  (done ++ [({ key := kb, orig := ob, hashv := hashJen (keyBytes key) }, v)]) s5 L
                  WF_tbl_nonempty w' i6
                rw [hashes_append] at ih
                simp only [Option.map] at ih
                rw [ab] at ih
                rcases ih with ⟨ut', es', e1, e2, e3, e4, e5⟩ | ⟨e1, e4, e5⟩
                · left
                  exact ⟨ut', es', e1, e2, e3, ((g4.trans a4).trans' e4 (by omega)), e5⟩
                · right
                  exact ⟨e1, (g4.trans a4).bad' e4 (by omega), e5⟩
              · right
                have i6 : Inv s5 (t ++ (v.ids ++ (ob :: kb :: (utBlocks ut ++ (VOwned.idsEntries done ++ L))))) := by
                  refine a5.perm ?_
                  rw [utIds_eq_utBlocks]
                  perm_av
                have i7 := i6.freeAll t _ _
                have ⟨f1, f2⟩ := freeV_spec v (freeAll t s5) (ob :: kb :: (utBlocks ut ++ (VOwned.idsEntries done ++ L))) hwv i7
                have ⟨c1, c2⟩ := hclean _ f1.free.free
                refine ⟨trivial, ?_, c1⟩
                exact (((((g4.bad a4).same (Same.freeAll t s5)).same f2).free _).free _).same c2 |>.mono (by omega)
            · right
              have i5 : Inv s4 (ob :: kb :: (utBlocks ut ++ (VOwned.idsEntries done ++ L))) := h3
              have ⟨c1, c2⟩ := hclean _ i5.free.free
              exact ⟨trivial, (((g3.bad h2).free _).free _).same c2 |>.mono (by omega), c1⟩
end

/-- number of requests of `cif_value_deserialize` of a blob (fault-free) -/
def deserVAllocs : VBlob → Nat
  | .lst elems => if elems.isEmpty then 0 else 1 + dvallocsList elems
  | .tbl entries => dvallocsEntries entries none []

/-- `cif_value_deserialize` of ANY list / table blob onto an existing object, from any consistent state -/
theorem deserV_spec (k : Nat) (b : VBlob) (s : St) (L : List Nat) (h : Inv s L) :
    (∃ g, (deserV k b s).1 = OK ∧ (deserV k b s).2.1 = some g ∧
        Good k (deserVAllocs b) s (deserV k b s).2.2 ∧ Inv (deserV k b s).2.2 (g ++ L)) ∨
    ((deserV k b s).1 = MEMORY_ERROR ∧ (deserV k b s).2.1 = none ∧
        Bad k (deserVAllocs b) s (deserV k b s).2.2 ∧ Inv (deserV k b s).2.2 L) := by
  cases b with
  | lst elems =>
    cases elems with
    | nil =>
      left
      simp only [deserV, deserVAllocs, List.isEmpty_nil, if_true]
      exact ⟨[], by trivial, by trivial, Good.refl k s, h⟩
    | cons e es =>
      simp only [deserV, deserVAllocs, List.isEmpty_cons, Bool.false_eq_true, if_false]
      rcases alloc_cases k s with ⟨hk, ha⟩ | ⟨hk, ha⟩ <;> simp only [ha]
      · right
        exact ⟨trivial, trivial, (Bad.alloc hk).mono (by omega), h.fail⟩
      · have g1 := Good.alloc hk
        have i1 := h.alloc
        generalize ({ count := s.count + 1, evs := s.evs ++ [.alloc (s.count + 1)] } : St) = s1 at g1 i1 ⊢
        generalize s.count + 1 = arr at g1 i1 ⊢
        have hh := deserElemsV_spec k (e :: es) [] s1 (arr :: L) trivial (by simpa [VOwned.idsList] using i1)
        generalize deserElemsV k (e :: es) [] s1 = r at hh ⊢
        obtain ⟨ro, rs⟩ := r
        rcases hh with ⟨os, h1, _, h2, h3⟩ | ⟨h1, h2, h3⟩ <;> simp only at h1 h2 h3 <;> subst h1 <;> simp only
        · left
          exact ⟨_, by trivial, rfl, g1.trans h2, h3.perm (by perm_av)⟩
        · right
          exact ⟨by trivial, by trivial, g1.bad' (h2.free _) (by omega), h3.free⟩
  | tbl entries =>
    simp only [deserV, deserVAllocs]
    have hh := deserEntriesV_spec k entries none [] s L (fun _ => rfl) trivial
      (by simpa [utBlocks, VOwned.idsEntries] using h)
    simp only [Option.map, hashes, List.map_nil] at hh
    generalize deserEntriesV k entries none [] s = r at hh ⊢
    obtain ⟨ro, rs⟩ := r
    rcases hh with ⟨ut', es', h1, _, _, h2, h3⟩ | ⟨h1, h2, h3⟩ <;> simp only at h1 h2 h3 <;> subst h1 <;> simp only
    · left
      exact ⟨_, by trivial, rfl, h2, by simpa using h3⟩
    · right
      exact ⟨by trivial, by trivial, h2, h3⟩

-- ---------------------------------------------------------------------------------------------------------------
-- summaries (what Props/C17Tree restates)

theorem failIds_snoc_ne (a : List Nat) (k : Nat) : a ++ [k] ≠ a := by
  intro h
  have := congrArg List.length h
  simp at this

/-- `cif_value_clone` of any value from any state in which `rest` is live -/
theorem cloneV_summary (k : Nat) (sh : VShape) (s : St) (rest : List Nat) (hb : Balanced s.evs rest)
    (hc : ∀ i ∈ rest, i ≤ s.count) :
    Balanced (cloneV k sh s).2.evs ((match (cloneV k sh s).1 with | some o => o.ids | none => []) ++ rest) ∧
    ((cloneV k sh s).1.isNone ↔ s.count < k ∧ k ≤ s.count + cloneVAllocs sh) ∧
    ((cloneV k sh s).1.isNone → failIds (cloneV k sh s).2.evs = failIds s.evs ++ [k] ∧ (cloneV k sh s).2.count = k) ∧
    ((cloneV k sh s).1.isSome → failIds (cloneV k sh s).2.evs = failIds s.evs ∧
        (cloneV k sh s).2.count = s.count + cloneVAllocs sh) ∧
    (∀ o, (cloneV k sh s).1 = some o → o.WF) := by
  rcases cloneV_spec k sh s rest ⟨hb, hc⟩ with ⟨o, h1, hw, h2, h3⟩ | ⟨h1, h2, h3⟩
  · rw [h1]
    unfold Good at h2
    refine ⟨h3.1, ⟨fun h => by simp at h, fun h => absurd h h2.2.1⟩, fun h => by simp at h, fun _ => ⟨h2.2.2, h2.1⟩, ?_⟩
    intro o' e; cases e; exact hw
  · rw [h1]
    unfold Bad at h2
    refine ⟨by simpa using h3.1, ⟨fun _ => ⟨h2.1, h2.2.1⟩, fun _ => rfl⟩, fun _ => ⟨h2.2.2.2, h2.2.2.1⟩, fun h => by simp at h, ?_⟩
    intro o' e; cases e

/-- the fault-free run succeeds and makes exactly `cloneVAllocs` requests -/
theorem cloneV_faultfree (sh : VShape) (s : St) (rest : List Nat) (hb : Balanced s.evs rest) (hc : ∀ i ∈ rest, i ≤ s.count) :
    (cloneV 0 sh s).1.isSome ∧ (cloneV 0 sh s).2.count = s.count + cloneVAllocs sh := by
  have h := cloneV_summary 0 sh s rest hb hc
  have hs : (cloneV 0 sh s).1.isSome := by
    cases hn : (cloneV 0 sh s).1 with
    | some o => rfl
    | none =>
      have := h.2.1.mp (by rw [hn]; rfl)
      omega
  exact ⟨hs, (h.2.2.2.1 hs).2⟩

/-- `cif_value_deserialize` of any list / table blob from any state in which `rest` is live -/
theorem deserV_summary (k : Nat) (b : VBlob) (s : St) (rest : List Nat) (hb : Balanced s.evs rest)
    (hc : ∀ i ∈ rest, i ≤ s.count) :
    Balanced (deserV k b s).2.2.evs ((match (deserV k b s).2.1 with | some g => g | none => []) ++ rest) ∧
    ((deserV k b s).1 = OK ∨ (deserV k b s).1 = MEMORY_ERROR) ∧
    ((deserV k b s).1 = OK ↔ (deserV k b s).2.1.isSome) ∧
    ((deserV k b s).1 = MEMORY_ERROR ↔ s.count < k ∧ k ≤ s.count + deserVAllocs b) ∧
    ((deserV k b s).1 = MEMORY_ERROR → failIds (deserV k b s).2.2.evs = failIds s.evs ++ [k] ∧ (deserV k b s).2.2.count = k) ∧
    ((deserV k b s).1 = OK → failIds (deserV k b s).2.2.evs = failIds s.evs ∧
        (deserV k b s).2.2.count = s.count + deserVAllocs b) := by
  rcases deserV_spec k b s rest ⟨hb, hc⟩ with ⟨g, h1, h2, h3, h4⟩ | ⟨h1, h2, h3, h4⟩
  · rw [h1, h2]
    unfold Good at h3
    refine ⟨h4.1, .inl rfl, by simp, ⟨fun h => absurd h OK_ne_MEMORY_ERROR.symm, fun h => absurd h h3.2.1⟩,
      fun h => absurd h OK_ne_MEMORY_ERROR.symm, fun _ => ⟨h3.2.2, h3.1⟩⟩
  · rw [h1, h2]
    unfold Bad at h3
    refine ⟨by simpa using h4.1, .inr rfl, by simp [OK_ne_MEMORY_ERROR], ⟨fun _ => ⟨h3.1, h3.2.1⟩, fun _ => rfl⟩,
      fun _ => ⟨h3.2.2.2, h3.2.2.1⟩, fun h => absurd h OK_ne_MEMORY_ERROR⟩

theorem deserV_faultfree (b : VBlob) (s : St) (rest : List Nat) (hb : Balanced s.evs rest) (hc : ∀ i ∈ rest, i ≤ s.count) :
    (deserV 0 b s).1 = OK ∧ (deserV 0 b s).2.2.count = s.count + deserVAllocs b := by
  have h := deserV_summary 0 b s rest hb hc
  have hs : (deserV 0 b s).1 = OK := by
    rcases h.2.1 with h1 | h1
    · exact h1
    · have := h.2.2.2.1.mp h1; omega
  exact ⟨hs, (h.2.2.2.2.2 hs).2⟩

-- the table-free fragment: the request counts agree with those of Lemmas/LadderClone
mutual
  theorem vallocs_toV : ∀ (sh : Shape), vallocs sh.toV = allocs sh
    | .scalar => rfl
    | .chr => rfl
    | .numb _ => rfl
    | .lst es => by simp only [Shape.toV, vallocs, allocs, vallocsList_toVs es]
  theorem vallocsList_toVs : ∀ (es : List Shape), vallocsList (Shape.toVs es) = allocsList es
    | [] => rfl
    | e :: es => by simp only [Shape.toVs, vallocsList, allocsList, vallocs_toV e, vallocsList_toVs es]
end

end CifModel.Lemmas.Ladder
