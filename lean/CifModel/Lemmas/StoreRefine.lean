import CifModel.Lemmas.StoreInv
import CifModel.Spec.DataModel
/-
  Lemmas/StoreRefine — pieces of the refinement abs ∘ step = specStep ∘ abs (block level).
-/
namespace CifModel.Store
open Gen.ErrCodes

theorem absContainer_code (d : Db) (fuel cid : Nat) (code : Str) : (absContainer d fuel cid code).code = code := by
  cases fuel <;> simp [absContainer, Container.code]

theorem find?_congr' {α} {p q : α → Bool} : ∀ (l : List α), (∀ x ∈ l, p x = q x) → l.find? p = l.find? q
  | [], _ => rfl
  | x :: xs, h => by
    simp only [List.find?_cons, h x List.mem_cons_self]
    split
    · rfl
    · exact find?_congr' xs (fun y hy => h y (List.mem_cons_of_mem _ hy))

theorem any_congr' {α} {p q : α → Bool} : ∀ (l : List α), (∀ x ∈ l, p x = q x) → l.any p = l.any q
  | [], _ => rfl
  | x :: xs, h => by
    simp only [List.any_cons, h x List.mem_cons_self, any_congr' xs (fun y hy => h y (List.mem_cons_of_mem _ hy))]

/-- `abs` looks only at data_block, save_frame, loop, loop_item, item_value -/
theorem absContainer_congr (d d' : Db) (hf : d'.frames = d.frames) (hl : d'.loops = d.loops) (hi : d'.items = d.items) (hv : d'.values = d.values) :
    ∀ fuel, (∀ cid code, absContainer d' fuel cid code = absContainer d fuel cid code) ∧
            (∀ fs, absFrames d' fuel fs = absFrames d fuel fs) := by
  have hloop : ∀ l, absLoop d' l = absLoop d l := by
    intro l; simp only [absLoop, Db.loopItems, Db.loopRows, hi, hv]
  intro fuel
  induction fuel with
  | zero =>
    refine ⟨fun cid code => by simp [absContainer], ?_⟩
    intro fs
    induction fs with
    | nil => simp [absFrames]
    | cons f fs ih => simp [absFrames, absContainer, ih]
  | succ k ih =>
    have hc : ∀ cid code, absContainer d' (k + 1) cid code = absContainer d (k + 1) cid code := by
      intro cid code
      simp only [absContainer, hf, hl, ih.2]
      congr 1
      exact List.map_congr_left (fun l _ => hloop l)
    refine ⟨hc, ?_⟩
    intro fs
    induction fs with
    | nil => simp [absFrames]
    | cons f fs ihf => simp only [absFrames, hc, ihf]


/-- block names are stored normalised (what cif_create_block_internal does; `norm` is C09's function) -/
def BlocksNormOK (norm : Str → Str) (d : Db) : Prop := ∀ b ∈ d.blocks, b.name = norm b.nameOrig

/-- the id the next container gets is not yet in use anywhere (ids come from an AUTOINCREMENT sequence) -/
def IdFresh (d : Db) : Prop :=
  (∀ f ∈ d.frames, f.parent ≠ d.nextId) ∧ (∀ l ∈ d.loops, l.cid ≠ d.nextId) ∧ (∀ b ∈ d.blocks, b.cid ≠ d.nextId)

theorem getBlock_refines (norm : Str → Str) (s : Store) (n : Name) (hn : BlocksNormOK norm s.db) :
    (getBlock s n).1 = s ∧
    (match (getBlock s n).2 with
     | .ok h => specGetBlock norm (abs s.db) n.key = .ok (absContainer s.db (s.db.frames.length + 1) h.id h.code)
     | .error c => specGetBlock norm (abs s.db) n.key = .error c) := by
  have hfind : (abs s.db).find? (fun c => norm c.code == n.key) =
      (s.db.blocks.find? (fun b => b.name == n.key)).map (fun b => absContainer s.db (s.db.frames.length + 1) b.cid b.nameOrig) := by
    unfold abs
    rw [List.find?_map]
    congr 1
    apply find?_congr'
    intro b hb
    simp only [Function.comp, absContainer_code, hn b hb]
  unfold getBlock specGetBlock
  rw [hfind]
  cases hf : s.db.blocks.find? (fun b => b.name == n.key) with
  | none => exact ⟨rfl, rfl⟩
  | some b => exact ⟨rfl, rfl⟩

theorem createBlock_refines (norm : Str → Str) (s : Store) (n : Name) (hac : s.autocommit = true)
    (hn : BlocksNormOK norm s.db) (hfresh : IdFresh s.db) :
    match (createBlock s (some n)).2 with
    | .ok h => specCreateBlock norm (abs s.db) n.key n.orig n.valid = .ok (abs (createBlock s (some n)).1.db) ∧ h.code = n.orig ∧
               (createBlock s (some n)).1.autocommit = true
    | .error c => specCreateBlock norm (abs s.db) n.key n.orig n.valid = .error c ∧ (createBlock s (some n)).1 = s := by
  have hany : (abs s.db).any (fun c => norm c.code == n.key) = s.db.blocks.any (fun b => b.name == n.key) := by
    unfold abs
    rw [List.any_map]
    apply any_congr'
    intro b hb
    simp only [Function.comp, absContainer_code, hn b hb]
  have hb : s.begin = some { s with txn := some s.db } := by simp [Store.begin, hac]
  unfold createBlock specCreateBlock
  simp only [Bool.not_false, Bool.true_and]
  cases hv : n.valid with
  | false => simp
  | true =>
    simp only [Bool.not_true, Bool.false_eq_true, if_false, hb, hany]
    cases hdup : s.db.blocks.any (fun b => b.name == n.key) with
    | true =>
      have : s.db.insertContainer.1.insertBlock s.db.insertContainer.2 n.key n.orig = none := by
        have hd : s.db.insertContainer.1.blocks = s.db.blocks := rfl
        unfold Db.insertBlock
        rw [hd]
        split
        · rfl
        · simp [hdup]
      simp only [this, if_true]
      refine ⟨trivial, ?_⟩
      exact begin_rollback' s _ hb
    | false =>
      have hpk : s.db.blocks.any (fun b => b.cid == s.db.nextId) = false := by
        rw [Bool.eq_false_iff]
        intro h
        obtain ⟨b, hbm, hbe⟩ := List.any_eq_true.mp h
        exact hfresh.2.2 b hbm (by simpa using hbe)
      have hins : s.db.insertContainer.1.insertBlock s.db.insertContainer.2 n.key n.orig =
          some { s.db.insertContainer.1 with blocks := s.db.blocks ++ [{ cid := s.db.nextId, name := n.key, nameOrig := n.orig }] } := by
        unfold Db.insertBlock Db.insertContainer
        simp [hpk, hdup, Db.hasContainer]
      simp only [hins, Bool.false_eq_true, if_false]
      refine ⟨?_, trivial, by simp [Store.commit, Store.autocommit]⟩
      congr 1
      -- abs of the new state: the old blocks are untouched, the new block is empty
      simp only [Store.commit, Store.autocommit, Option.isNone_some, Bool.false_and, Bool.false_eq_true, if_false, Option.getD]
      unfold abs
      simp only [Db.insertContainer, List.map_append, List.map_cons, List.map_nil]
      have hcg := (absContainer_congr s.db
        { s.db with containers := s.db.containers ++ [{ id := s.db.nextId, nextLoopNum := 0 }], nextId := s.db.nextId + 1,
                    blocks := s.db.blocks ++ [{ cid := s.db.nextId, name := n.key, nameOrig := n.orig }] } rfl rfl rfl rfl
        (s.db.frames.length + 1)).1
      congr 1
      · exact (List.map_congr_left (fun b _ => (hcg b.cid b.nameOrig))).symm
      · rw [hcg]
        simp only [absContainer]
        have h1 : s.db.frames.filter (fun f => f.parent == s.db.nextId) = [] := by
          rw [List.filter_eq_nil_iff]; intro f hf; simpa using hfresh.1 f hf
        have h2 : s.db.loops.filter (fun l => l.cid == s.db.nextId) = [] := by
          rw [List.filter_eq_nil_iff]; intro l hl; simpa using hfresh.2.1 l hl
        simp [h1, h2, absFrames]


theorem absFrames_eq_map (d : Db) (fuel : Nat) : ∀ fs, absFrames d fuel fs = fs.map (fun f => absContainer d fuel f.cid f.nameOrig)
  | [] => by simp [absFrames]
  | f :: fs => by simp [absFrames, absFrames_eq_map d fuel fs]

def FramesNormOK (norm : Str → Str) (d : Db) : Prop := ∀ f ∈ d.frames, f.name = norm f.nameOrig

theorem getFrame_refines (norm : Str → Str) (s : Store) (hd : CH) (n : Name) (fuel : Nat) (hn : FramesNormOK norm s.db) :
    (getFrame s hd (some n)).1 = s ∧
    (match (getFrame s hd (some n)).2 with
     | .ok h => (absContainer s.db (fuel + 1) hd.id hd.code).specGetFrame norm n.key n.valid = .ok (absContainer s.db fuel h.id h.code)
     | .error c => (absContainer s.db (fuel + 1) hd.id hd.code).specGetFrame norm n.key n.valid = .error c) := by
  have hfind : (absContainer s.db (fuel + 1) hd.id hd.code).frames.find? (fun f => norm f.code == n.key) =
      (s.db.frames.find? (fun f => f.parent == hd.id && f.name == n.key)).map (fun f => absContainer s.db fuel f.cid f.nameOrig) := by
    simp only [absContainer, Container.frames, absFrames_eq_map]
    rw [List.find?_map, List.find?_filter]
    congr 1
    apply find?_congr'
    intro f hf
    simp only [Function.comp, absContainer_code, hn f hf]
    cases (f.parent == hd.id) <;> cases (norm f.nameOrig == n.key) <;> rfl
  unfold getFrame Container.specGetFrame
  simp only []
  cases hv : n.valid with
  | false => simp
  | true =>
    simp only [Bool.not_true, Bool.false_eq_true, if_false, hfind]
    cases hf : s.db.frames.find? (fun f => f.parent == hd.id && f.name == n.key) with
    | none => exact ⟨rfl, rfl⟩
    | some f => exact ⟨rfl, rfl⟩

end CifModel.Store

namespace CifModel.Store
open Gen.ErrCodes

-- ---- loop level: create_loop ---------------------------------------------------------------------------------------------------

/-- loop numbers of a container stay below its `next_loop_num` (the trigger tr1_unnumbered_loop hands them out in sequence) -/
def LoopNumsBelow (d : Db) (cid : Nat) : Prop :=
  ∀ c ∈ d.containers, c.id = cid → ∀ l ∈ d.loops, l.cid = cid → l.loopNum < c.nextLoopNum

/-- the loops of one container as the data model sees them -/
def absLoops (d : Db) (cid : Nat) : List Loop := (d.loops.filter (fun l => l.cid == cid)).map (absLoop d)

theorem addItems_spec : ∀ (ns : List Name) (d d' : Db) (cid ln : Nat), addItems d cid ln ns = .ok d' →
    d'.items = d.items ++ ns.map (fun n => { cid := cid, name := n.key, nameOrig := n.orig, loopNum := ln }) ∧
    d'.loops = d.loops ∧ d'.values = d.values ∧ d'.frames = d.frames ∧ d'.blocks = d.blocks ∧ d'.containers = d.containers ∧
    (∀ n ∈ ns, d.hasItem cid n.key = false)
  | [], d, d', _, _, he => by
    simp [addItems] at he; subst he
    exact ⟨by simp, rfl, rfl, rfl, rfl, rfl, fun _ h => nomatch h⟩
  | n :: ns, d, d', cid, ln, he => by
    unfold addItems at he
    split at he
    · cases he
    · rename_i d1 hi
      have hd1 : d1 = { d with items := d.items ++ [{ cid := cid, name := n.key, nameOrig := n.orig, loopNum := ln }] } ∧ d.hasItem cid n.key = false := by
        unfold Db.insertItem at hi
        split at hi; · cases hi
        rename_i hfresh
        split at hi; · cases hi
        cases hi
        exact ⟨rfl, by simpa using hfresh⟩
      obtain ⟨i1, l1, v1, f1, b1, c1, hf1⟩ := addItems_spec ns d1 d' cid ln he
      rw [hd1.1] at i1 l1 v1 f1 b1 c1
      refine ⟨by rw [i1]; simp, l1, v1, f1, b1, c1, ?_⟩
      intro m hm
      rcases List.mem_cons.mp hm with rfl | hm'
      · exact hd1.2
      · have := hf1 m hm'
        rw [hd1.1] at this
        cases hx : d.hasItem cid m.key with
        | false => rfl
        | true =>
          have : ({ d with items := d.items ++ [{ cid := cid, name := n.key, nameOrig := n.orig, loopNum := ln }] } : Db).hasItem cid m.key = true := by
            obtain ⟨i, hi', h1, h2⟩ := (hasItem_iff d _ _).mp hx
            exact (hasItem_iff _ _ _).mpr ⟨i, List.mem_append_left _ hi', h1, h2⟩
          simp_all

theorem foldl_max_le (ls : List LoopRow) (m b : Nat) (hm : m ≤ b) (h : ∀ l ∈ ls, l.loopNum ≤ b) :
    ls.foldl (fun m l => max m l.loopNum) m ≤ b := by
  induction ls generalizing m with
  | nil => exact hm
  | cons x xs ih =>
    simp only [List.foldl_cons]
    exact ih _ (Nat.max_le.mpr ⟨hm, h x List.mem_cons_self⟩) (fun l hl => h l (List.mem_cons_of_mem _ hl))

theorem foldl_max_ge (ls : List LoopRow) (m : Nat) : m ≤ ls.foldl (fun m l => max m l.loopNum) m := by
  induction ls generalizing m with
  | nil => exact Nat.le_refl _
  | cons x xs ih => simp only [List.foldl_cons]; exact Nat.le_trans (Nat.le_max_left _ _) (ih _)

theorem foldl_max_mem (ls : List LoopRow) (m : Nat) (x : LoopRow) (hx : x ∈ ls) : x.loopNum ≤ ls.foldl (fun m l => max m l.loopNum) m := by
  induction ls generalizing m with
  | nil => cases hx
  | cons y ys ih =>
    simp only [List.foldl_cons]
    rcases List.mem_cons.mp hx with rfl | hx'
    · exact Nat.le_trans (Nat.le_max_right _ _) (foldl_max_ge ys _)
    · exact ih _ hx'

end CifModel.Store

namespace CifModel.Store
open Gen.ErrCodes

theorem insertLoop_spec (d d1 : Db) (cid : Nat) (cat : Option Str) (he : d.insertLoopUnnumbered cid cat = .ok d1) :
    ∃ c, c ∈ d.containers ∧ c.id = cid ∧ d.hasLoop cid c.nextLoopNum = false ∧
      d1.loops = d.loops ++ [{ cid := cid, loopNum := c.nextLoopNum, category := cat, lastRowNum := 0 }] ∧
      d1.items = d.items ∧ d1.values = d.values ∧ d1.frames = d.frames ∧ d1.blocks = d.blocks := by
  unfold Db.insertLoopUnnumbered at he
  split at he; · cases he
  split at he; · cases he
  rename_i c hc
  split at he; · cases he
  rename_i hfresh
  cases he
  have hmem := List.mem_of_find?_eq_some hc
  have hkey := List.find?_some hc
  exact ⟨c, hmem, by simpa using hkey, by simpa using hfresh, rfl, rfl, rfl, rfl, rfl⟩

/-- create_loop, container-local refinement: on success the container gains exactly one loop — the given category, the given
    names in the given spelling and order, no packet — appended to its loops; every other loop of the CIF (of this and of every
    other container) is, as the data model sees it, what it was; blocks and frames are untouched.
    (Failure leaves the whole store unchanged: `C05_atomic`.) -/
theorem createLoop_refines (d d' : Db) (cid : Nat) (cat : Option Str) (names : List Name) (l : LH) (h : Inv d)
    (hb : LoopNumsBelow d cid) (he : createLoopBody cid cat names d = .ok (d', l)) :
    absLoops d' cid = absLoops d cid ++ [{ category := cat, names := names.map (·.orig), packets := [] }] ∧
    (∀ cid', cid' ≠ cid → absLoops d' cid' = absLoops d cid') ∧
    d'.frames = d.frames ∧ d'.blocks = d.blocks ∧ l.cid = cid ∧ l.category = cat := by
  unfold createLoopBody at he
  split at he
  · split at he <;> cases he
  · rename_i d1 hins
    simp only [] at he
    split at he
    · cases he
    · rename_i d2 hadd
      simp only [Except.ok.injEq, Prod.mk.injEq] at he
      obtain ⟨hd, hl⟩ := he
      subst hd
      obtain ⟨c, hcm, hcid, hfresh, l1, i1, v1, f1, b1⟩ := insertLoop_spec d d1 cid cat hins
      -- the loop number handed to the items is the new loop's
      have hln : d1.maxLoopNum cid = c.nextLoopNum := by
        unfold Db.maxLoopNum
        rw [l1, List.filter_append]
        have : [({ cid := cid, loopNum := c.nextLoopNum, category := cat, lastRowNum := 0 } : LoopRow)].filter (fun l => l.cid == cid) =
            [{ cid := cid, loopNum := c.nextLoopNum, category := cat, lastRowNum := 0 }] := by simp
        rw [this]
        apply Nat.le_antisymm
        · apply foldl_max_le _ _ _ (Nat.zero_le _)
          intro x hx
          rcases List.mem_append.mp hx with hx | hx
          · obtain ⟨hxm, hxc⟩ := List.mem_filter.mp hx
            exact Nat.le_of_lt (hb c hcm hcid x hxm (by simpa using hxc))
          · simp at hx; subst hx; exact Nat.le_refl _
        · exact foldl_max_mem _ 0 { cid := cid, loopNum := c.nextLoopNum, category := cat, lastRowNum := 0 } (List.mem_append_right _ (List.mem_singleton.mpr rfl))
      rw [hln] at hadd hl
      obtain ⟨i2, l2, v2, f2, b2, _, hnew⟩ := addItems_spec names d1 d2 cid c.nextLoopNum hadd
      rw [i1] at i2; rw [l1] at l2; rw [v1] at v2
      -- old loops look the same
      have hA : ∀ r ∈ d.loops, absLoop d2 r = absLoop d r := by
        intro r hr
        have hitems : d2.loopItems r.cid r.loopNum = d.loopItems r.cid r.loopNum := by
          unfold Db.loopItems
          rw [i2, List.filter_append]
          have : (names.map (fun n => ({ cid := cid, name := n.key, nameOrig := n.orig, loopNum := c.nextLoopNum } : ItemRow))).filter
              (fun i => i.cid == r.cid && i.loopNum == r.loopNum) = [] := by
            rw [List.filter_eq_nil_iff]
            intro i hi hk
            obtain ⟨n, _, rfl⟩ := List.mem_map.mp hi
            simp at hk
            have : d.hasLoop cid c.nextLoopNum = true := (hasLoop_iff d _ _).mpr ⟨r, hr, hk.1.symm, hk.2.symm⟩
            rw [hfresh] at this; cases this
          rw [this, List.append_nil]
        simp only [absLoop, Db.loopRows, hitems, v2]
      -- the new loop
      have hB : absLoop d2 { cid := cid, loopNum := c.nextLoopNum, category := cat, lastRowNum := 0 } =
          { category := cat, names := names.map (·.orig), packets := [] } := by
        have hitems : d2.loopItems cid c.nextLoopNum =
            names.map (fun n => ({ cid := cid, name := n.key, nameOrig := n.orig, loopNum := c.nextLoopNum } : ItemRow)) := by
          unfold Db.loopItems
          rw [i2, List.filter_append]
          have h1 : d.items.filter (fun i => i.cid == cid && i.loopNum == c.nextLoopNum) = [] := by
            rw [List.filter_eq_nil_iff]
            intro i hi hk
            simp at hk
            have := h.itemFK i hi
            rw [hk.1, hk.2, hfresh] at this; cases this
          have h2 : (names.map (fun n => ({ cid := cid, name := n.key, nameOrig := n.orig, loopNum := c.nextLoopNum } : ItemRow))).filter
              (fun i => i.cid == cid && i.loopNum == c.nextLoopNum) = names.map (fun n => { cid := cid, name := n.key, nameOrig := n.orig, loopNum := c.nextLoopNum }) := by
            rw [List.filter_eq_self]
            intro i hi
            obtain ⟨n, _, rfl⟩ := List.mem_map.mp hi
            simp
          rw [h1, h2, List.nil_append]
        have hrows : d2.loopRows cid c.nextLoopNum = [] := by
          unfold Db.loopRows
          rw [hitems, v2]
          have : d.values.filter (fun v => v.cid == cid && (names.map (fun n => ({ cid := cid, name := n.key, nameOrig := n.orig, loopNum := c.nextLoopNum } : ItemRow))).any (fun i => i.name == v.name)) = [] := by
            rw [List.filter_eq_nil_iff]
            intro v hv hk
            simp only [Bool.and_eq_true, List.any_eq_true] at hk
            obtain ⟨hvc, i, hi, hin⟩ := hk
            obtain ⟨n, hn, rfl⟩ := List.mem_map.mp hi
            have hfk := h.valueFK v hv
            have hno := hnew n hn
            have hvc' : v.cid = cid := by simpa using hvc
            have hin' : n.key = v.name := by simpa using hin
            have : d1.hasItem cid n.key = d.hasItem v.cid v.name := by
              simp only [Db.hasItem, i1, hvc', hin']
            rw [this, hfk] at hno; cases hno
          rw [this]; rfl
        simp only [absLoop, hitems, hrows, List.map_map, List.map_nil]
        rfl
      refine ⟨?_, ?_, by rw [f2, f1], by rw [b2, b1], by rw [← hl], by rw [← hl]⟩
      · unfold absLoops
        rw [l2, List.filter_append, List.map_append]
        have : [({ cid := cid, loopNum := c.nextLoopNum, category := cat, lastRowNum := 0 } : LoopRow)].filter (fun l => l.cid == cid) =
            [{ cid := cid, loopNum := c.nextLoopNum, category := cat, lastRowNum := 0 }] := by simp
        rw [this, List.map_singleton, hB]
        congr 1
        exact List.map_congr_left (fun r hr => hA r (List.mem_filter.mp hr).1)
      · intro cid' hne
        unfold absLoops
        rw [l2, List.filter_append]
        have : [({ cid := cid, loopNum := c.nextLoopNum, category := cat, lastRowNum := 0 } : LoopRow)].filter (fun l => l.cid == cid') = [] := by
          simp; exact fun h => hne h.symm
        rw [this, List.append_nil]
        exact List.map_congr_left (fun r hr => hA r (List.mem_filter.mp hr).1)

end CifModel.Store

namespace CifModel.Store
open Gen.ErrCodes

-- ---- loop level: add_packet ----------------------------------------------------------------------------------------------------

theorem insertNat_append_max : ∀ (R : List Nat) (x : Nat), (∀ y ∈ R, y < x) → Db.insertNat x R = R ++ [x]
  | [], x, _ => rfl
  | z :: zs, x, h => by
    have hz : z < x := h z List.mem_cons_self
    unfold Db.insertNat
    have h1 : ¬ x < z := by omega
    have h2 : (x == z) = false := by simp; omega
    simp only [h1, if_false, h2, Bool.false_eq_true]
    rw [insertNat_append_max zs x (fun y hy => h y (List.mem_cons_of_mem _ hy))]
    rfl

theorem insertNat_present_max : ∀ (R : List Nat) (x : Nat), (∀ y ∈ R, y < x) → Db.insertNat x (R ++ [x]) = R ++ [x]
  | [], x, _ => by simp [Db.insertNat]
  | z :: zs, x, h => by
    have hz : z < x := h z List.mem_cons_self
    simp only [List.cons_append]
    unfold Db.insertNat
    have h1 : ¬ x < z := by omega
    have h2 : (x == z) = false := by simp; omega
    simp only [h1, if_false, h2, Bool.false_eq_true]
    rw [insertNat_present_max zs x (fun y hy => h y (List.mem_cons_of_mem _ hy))]

/-- inserting the same new maximum one or more times -/
theorem foldl_insert_same (R : List Nat) (x : Nat) (h : ∀ y ∈ R, y < x) : ∀ (vs : List ValueRow), vs ≠ [] → (∀ v ∈ vs, v.rowNum = x) →
    vs.foldl (fun acc v => Db.insertNat v.rowNum acc) R = R ++ [x] := by
  have aux : ∀ (vs : List ValueRow), (∀ v ∈ vs, v.rowNum = x) → vs.foldl (fun acc v => Db.insertNat v.rowNum acc) (R ++ [x]) = R ++ [x] := by
    intro vs
    induction vs with
    | nil => intro _; rfl
    | cons v vs ih =>
      intro hv
      simp only [List.foldl_cons, hv v List.mem_cons_self, insertNat_present_max R x h]
      exact ih (fun w hw => hv w (List.mem_cons_of_mem _ hw))
  intro vs hne hv
  cases vs with
  | nil => exact absurd rfl hne
  | cons v vs =>
    simp only [List.foldl_cons, hv v List.mem_cons_self, insertNat_append_max R x h]
    exact aux vs (fun w hw => hv w (List.mem_cons_of_mem _ hw))

theorem addValues_spec : ∀ (p : List (Str × V)) (d d' : Db) (cid ln row : Nat), addValues d cid ln row p = .ok d' →
    d'.values = d.values ++ p.map (fun e => { cid := cid, name := e.1, rowNum := row, val := e.2 }) ∧
    d'.items = d.items ∧ d'.loops = d.loops ∧ d'.frames = d.frames ∧ d'.blocks = d.blocks ∧ d'.containers = d.containers ∧
    (∀ e ∈ p, (d.loopItems cid ln).any (fun i => i.name == e.1) = true)
  | [], d, d', _, _, _, he => by
    simp [addValues] at he; subst he
    exact ⟨by simp, rfl, rfl, rfl, rfl, rfl, fun _ h => nomatch h⟩
  | (k, v) :: es, d, d', cid, ln, row, he => by
    unfold addValues at he
    split at he
    · cases he
    · rename_i hin
      split at he
      · cases he
      · rename_i d1 hi
        have hd1 : d1 = { d with values := d.values ++ [{ cid := cid, name := k, rowNum := row, val := v }] } := by
          unfold Db.insertValue at hi
          split at hi; · cases hi
          split at hi; · cases hi
          split at hi; · cases hi
          cases hi; rfl
        obtain ⟨v1, i1, l1, f1, b1, c1, hm⟩ := addValues_spec es d1 d' cid ln row he
        rw [hd1] at v1 i1 l1 f1 b1 c1
        refine ⟨by rw [v1]; simp, i1, l1, f1, b1, c1, ?_⟩
        intro e hem
        rcases List.mem_cons.mp hem with rfl | hem'
        · simpa using hin
        · have := hm e hem'
          rw [hd1] at this
          exact this

theorem bumpRowNum_spec (d d1 : Db) (cid ln : Nat) (he : d.bumpRowNum cid ln = .ok d1) :
    d1.loops = d.loops.map (fun l => if l.cid == cid && l.loopNum == ln then { l with lastRowNum := l.lastRowNum + 1 } else l) ∧
    d1.items = d.items ∧ d1.values = d.values ∧ d1.frames = d.frames ∧ d1.blocks = d.blocks ∧ d1.containers = d.containers := by
  unfold Db.bumpRowNum at he
  split at he; · cases he
  cases he; exact ⟨rfl, rfl, rfl, rfl, rfl, rfl⟩

end CifModel.Store

namespace CifModel.Store
open Gen.ErrCodes

/-- stored row numbers of a loop never exceed its row counter (cif_loop_add_packet draws row numbers from last_row_num) -/
def RowsBelow (d : Db) (cid ln : Nat) : Prop :=
  ∀ r ∈ d.loops, r.cid = cid → r.loopNum = ln → ∀ v ∈ d.values, v.cid = cid →
    (d.loopItems cid ln).any (fun i => i.name == v.name) = true → v.rowNum ≤ r.lastRowNum

/-- the packet the data model expects: one value per item of the loop, in the loop's order, the unknown value where the
    given packet has none -/
def packetFor (d : Db) (cid ln : Nat) (pkt : List (Str × V)) : List V :=
  (d.loopItems cid ln).map (fun i => ((pkt.find? (fun e => e.1 == i.name)).map (·.2)).getD .unk)

theorem itemKey_unique : ∀ (is : List ItemRow), is.Pairwise ItemKeyNe → ∀ a ∈ is, ∀ b ∈ is, a.cid = b.cid → a.name = b.name → a = b
  | [], _, a, ha, _, _, _, _ => nomatch ha
  | x :: xs, hp, a, ha, b, hb, h1, h2 => by
    rw [List.pairwise_cons] at hp
    rcases List.mem_cons.mp ha with rfl | ha' <;> rcases List.mem_cons.mp hb with rfl | hb'
    · rfl
    · exact absurd ⟨h1, h2⟩ (hp.1 b hb')
    · exact absurd ⟨h1.symm, h2.symm⟩ (hp.1 a ha')
    · exact itemKey_unique xs hp.2 a ha' b hb' h1 h2

theorem mem_foldl_insertNat : ∀ (vs : List ValueRow) (acc : List Nat) (r : Nat),
    r ∈ vs.foldl (fun acc v => Db.insertNat v.rowNum acc) acc → r ∈ acc ∨ ∃ v ∈ vs, v.rowNum = r
  | [], acc, r, h => Or.inl h
  | v :: vs, acc, r, h => by
    simp only [List.foldl_cons] at h
    rcases mem_foldl_insertNat vs _ r h with h1 | ⟨w, hw, hr⟩
    · rcases mem_insertNat _ _ _ h1 with h2 | h2
      · exact Or.inr ⟨v, List.mem_cons_self, h2.symm⟩
      · exact Or.inl h2
    · exact Or.inr ⟨w, List.mem_cons_of_mem _ hw, hr⟩

theorem fillPacket_spec (d : Db) (cid ln row : Nat) :
    ∃ fill : List ValueRow, (d.fillPacket cid ln row).values = d.values ++ fill ∧
      (d.fillPacket cid ln row).items = d.items ∧ (d.fillPacket cid ln row).loops = d.loops ∧
      (d.fillPacket cid ln row).frames = d.frames ∧ (d.fillPacket cid ln row).blocks = d.blocks ∧
      (∀ w ∈ fill, w.cid = cid ∧ w.rowNum = row ∧ w.val.kindCode = 5 ∧ (d.loopItems cid ln).any (fun i => i.name == w.name) = true) ∧
      (row ≠ 0 → ∀ i ∈ d.loopItems cid ln, d.hasValue cid i.name row = true ∨ ∃ w ∈ fill, w.name = i.name) := by
  unfold Db.fillPacket
  simp only []
  split
  · rename_i hrow
    refine ⟨[], by simp, rfl, rfl, rfl, rfl, (fun _ h => nomatch h), (fun hne => absurd (by simpa using hrow) hne)⟩
  · refine ⟨_, rfl, rfl, rfl, rfl, rfl, ?_, ?_⟩
    · intro w hw
      obtain ⟨i, hi, rfl⟩ := List.mem_map.mp hw
      have hi1 := (List.mem_filter.mp hi).1
      refine ⟨rfl, rfl, rfl, ?_⟩
      rw [List.any_eq_true]
      exact ⟨i, hi1, by simp⟩
    · intro _ i hi
      cases hv : d.hasValue cid i.name row with
      | true => exact Or.inl rfl
      | false =>
        right
        exact ⟨_, List.mem_map.mpr ⟨i, List.mem_filter.mpr ⟨hi, by simp [hv]⟩, rfl⟩, rfl⟩

/-- cif_loop_add_packet, loop by loop: the loop table keeps its rows (the handle's loop counts one more), the item table is
    untouched, the handle's loop shows one more packet at the end, every other loop shows what it showed -/
theorem addPacket_pointwise (d d' : Db) (l : LH) (pkt : List (Str × V)) (h : Inv d) (hrb : RowsBelow d l.cid l.loopNum)
    (hne : pkt ≠ []) (he : addPacketBody l pkt d = .ok (d', ())) :
    d'.loops = d.loops.map (fun x => if x.cid == l.cid && x.loopNum == l.loopNum then { x with lastRowNum := x.lastRowNum + 1 } else x) ∧
    d'.items = d.items ∧
    (∀ x ∈ d.loops, absLoop d' (if x.cid == l.cid && x.loopNum == l.loopNum then { x with lastRowNum := x.lastRowNum + 1 } else x) =
        if x.cid == l.cid && x.loopNum == l.loopNum then
          { absLoop d x with packets := (absLoop d x).packets ++ [packetFor d l.cid l.loopNum pkt] }
        else absLoop d x) ∧
    d'.frames = d.frames ∧ d'.blocks = d.blocks := by
  unfold addPacketBody at he
  split at he
  · split at he <;> cases he
  · rename_i d1 hbump
    split at he
    · cases he
    · rename_i row hrow
      split at he
      · cases he
      · rename_i d2 hadd
        simp only [Except.ok.injEq, Prod.mk.injEq, and_true] at he
        subst he
        obtain ⟨l1, i1, v1, f1, b1, _⟩ := bumpRowNum_spec d d1 _ _ hbump
        obtain ⟨v2, i2, l2, f2, b2, _, hm⟩ := addValues_spec pkt d1 d2 l.cid l.loopNum row hadd
        obtain ⟨fill, v3, i3, l3, f3, b3, hfillp, _⟩ := fillPacket_spec d2 l.cid l.loopNum row
        rw [i1] at i2; rw [l1] at l2; rw [v1] at v2
        rw [i2] at i3; rw [l2] at l3; rw [f2, f1] at f3; rw [b2, b1] at b3
        generalize d2.fillPacket l.cid l.loopNum row = d3 at *
        have hitems : ∀ c n, d3.loopItems c n = d.loopItems c n := by intro c n; simp only [Db.loopItems, i3]
        have hit2 : d2.loopItems l.cid l.loopNum = d.loopItems l.cid l.loopNum := by simp only [Db.loopItems, i2]
        have hm' : ∀ e ∈ pkt, (d.loopItems l.cid l.loopNum).any (fun i => i.name == e.1) = true := by
          intro e he'; have := hm e he'; simpa only [Db.loopItems, i1] using this
        let newvals : List ValueRow := pkt.map (fun e => { cid := l.cid, name := e.1, rowNum := row, val := e.2 }) ++ fill
        have hv3 : d3.values = d.values ++ newvals := by rw [v3, v2, List.append_assoc]
        -- every new row is a value of an item of the target loop, in the new row
        have hP1 : ∀ w ∈ newvals, w.cid = l.cid ∧ w.rowNum = row ∧ (d.loopItems l.cid l.loopNum).any (fun i => i.name == w.name) = true := by
          intro w hw
          rcases List.mem_append.mp hw with hw | hw
          · obtain ⟨e, hep, rfl⟩ := List.mem_map.mp hw
            exact ⟨rfl, rfl, hm' e hep⟩
          · have := hfillp w hw
            exact ⟨this.1, this.2.1, by rw [← hit2]; exact this.2.2.2⟩
        have hP2 : newvals ≠ [] := by
          intro h0
          have : pkt.map (fun e => ({ cid := l.cid, name := e.1, rowNum := row, val := e.2 } : ValueRow)) = [] := (List.append_eq_nil_iff.mp h0).1
          exact hne (by simpa using this)
        -- what the new row holds for an item of the loop
        have hP3 : ∀ i : ItemRow, ((newvals.find? (fun v => v.cid == l.cid && v.name == i.name && v.rowNum == row)).map (·.val)).getD .unk =
            ((pkt.find? (fun e => e.1 == i.name)).map (·.2)).getD .unk := by
          intro i
          simp only [newvals, List.find?_append, List.find?_map]
          have hcomp : ((fun v : ValueRow => v.cid == l.cid && v.name == i.name && v.rowNum == row) ∘
              (fun e : Str × V => ({ cid := l.cid, name := e.1, rowNum := row, val := e.2 } : ValueRow))) = (fun e : Str × V => e.1 == i.name) := by
            funext e; simp [Function.comp]
          rw [hcomp]
          cases hp : pkt.find? (fun e => e.1 == i.name) with
          | some e => rfl
          | none =>
            simp only [Option.map_none, Option.none_or]
            cases hf : fill.find? (fun v => v.cid == l.cid && v.name == i.name && v.rowNum == row) with
            | none => rfl
            | some w =>
              have hk := (hfillp w (List.mem_of_find?_eq_some hf)).2.2.1
              simp only [Option.map_some, Option.getD_some, Option.getD_none]
              cases hw : w.val <;> simp [hw, V.kindCode] at hk ⊢
        let f : LoopRow → LoopRow := fun x => if x.cid == l.cid && x.loopNum == l.loopNum then { x with lastRowNum := x.lastRowNum + 1 } else x
        have hfk : ∀ x, (f x).cid = x.cid ∧ (f x).loopNum = x.loopNum ∧ (f x).category = x.category := by
          intro x; simp only [f]; split <;> exact ⟨rfl, rfl, rfl⟩
        have habs : ∀ x, absLoop d3 (f x) = absLoop d3 x := by
          intro x; simp only [absLoop, (hfk x).1, (hfk x).2.1, (hfk x).2.2]
        have hforeign : ∀ x ∈ d.loops, (x.cid == l.cid && x.loopNum == l.loopNum) = false → ∀ w ∈ newvals,
            (w.cid == x.cid && (d.loopItems x.cid x.loopNum).any (fun i => i.name == w.name)) = false := by
          intro x _ hx w hw
          obtain ⟨hwc, _, hwa⟩ := hP1 w hw
          cases hc : ((w.cid == x.cid) && (d.loopItems x.cid x.loopNum).any (fun i => i.name == w.name)) with
          | false => rfl
          | true =>
            exfalso
            simp only [Bool.and_eq_true, List.any_eq_true] at hc
            obtain ⟨hcid, i, hi, hin⟩ := hc
            simp only [List.any_eq_true] at hwa
            obtain ⟨j, hj, hjn⟩ := hwa
            obtain ⟨him, hik⟩ := List.mem_filter.mp hi
            obtain ⟨hjm, hjk⟩ := List.mem_filter.mp hj
            simp at hik hjk hin hjn hcid
            have : i = j := itemKey_unique d.items h.itemPK i him j hjm (by rw [hik.1, hjk.1, ← hcid, hwc]) (by rw [hin, hjn])
            subst this
            have : (x.cid == l.cid && x.loopNum == l.loopNum) = true := by simp [← hcid, hwc, ← hik.2, hjk.2]
            rw [this] at hx; cases hx
        have hrest : ∀ x ∈ d.loops, (x.cid == l.cid && x.loopNum == l.loopNum) = false → absLoop d3 x = absLoop d x := by
          intro x hx hxm
          have hfil : d3.values.filter (fun v => v.cid == x.cid && (d.loopItems x.cid x.loopNum).any (fun i => i.name == v.name)) =
              d.values.filter (fun v => v.cid == x.cid && (d.loopItems x.cid x.loopNum).any (fun i => i.name == v.name)) := by
            rw [hv3, List.filter_append]
            have : newvals.filter (fun v => v.cid == x.cid && (d.loopItems x.cid x.loopNum).any (fun i => i.name == v.name)) = [] := by
              rw [List.filter_eq_nil_iff]; intro w hw; simp [hforeign x hx hxm w hw]
            rw [this, List.append_nil]
          have hfind : ∀ i ∈ d.loopItems x.cid x.loopNum, ∀ r,
              d3.values.find? (fun v => v.cid == x.cid && v.name == i.name && v.rowNum == r) =
              d.values.find? (fun v => v.cid == x.cid && v.name == i.name && v.rowNum == r) := by
            intro i hi r
            rw [hv3, List.find?_append]
            have : newvals.find? (fun v => v.cid == x.cid && v.name == i.name && v.rowNum == r) = none := by
              rw [List.find?_eq_none]
              intro w hw hq
              have hf := hforeign x hx hxm w hw
              simp only [Bool.and_eq_true] at hq
              have : (w.cid == x.cid && (d.loopItems x.cid x.loopNum).any (fun i => i.name == w.name)) = true := by
                simp only [Bool.and_eq_true, List.any_eq_true]
                exact ⟨hq.1.1, i, hi, by have := hq.1.2; simp at this ⊢; exact this.symm⟩
              rw [this] at hf; cases hf
            rw [this, Option.or_none]
          simp only [absLoop, Db.loopRows, hitems, hfil]
          congr 1
          apply List.map_congr_left
          intro r _
          apply List.map_congr_left
          intro i hi
          rw [hfind i hi r]
        have htarget : ∀ x ∈ d.loops, (x.cid == l.cid && x.loopNum == l.loopNum) = true →
            absLoop d3 x = { absLoop d x with packets := (absLoop d x).packets ++ [packetFor d l.cid l.loopNum pkt] } := by
          intro x hx hxm
          have hxk : x.cid = l.cid ∧ x.loopNum = l.loopNum := by simpa using hxm
          have hrowv : row = x.lastRowNum + 1 := by
            have : d1.lastRowNum l.cid l.loopNum = some row := hrow
            unfold Db.lastRowNum at this
            rw [l1, List.find?_map] at this
            have hcomp : ((fun y : LoopRow => y.cid == l.cid && y.loopNum == l.loopNum) ∘ f) = (fun y : LoopRow => y.cid == l.cid && y.loopNum == l.loopNum) := by
              funext y; simp only [Function.comp, (hfk y).1, (hfk y).2.1]
            rw [hcomp] at this
            cases hf : d.loops.find? (fun y => y.cid == l.cid && y.loopNum == l.loopNum) with
            | none => rw [hf] at this; cases this
            | some y =>
              rw [hf] at this
              have hym := List.mem_of_find?_eq_some hf
              have hyk := List.find?_some hf
              simp at hyk
              have : y = x := loopKey_unique d.loops h.loopPK y hym x hx (by rw [hyk.1, hxk.1]) (by rw [hyk.2, hxk.2])
              subst this
              simp only [Option.map_some, Option.some.injEq, f, hxm, if_true] at this
              exact this.symm
          have hbelow : ∀ v ∈ d.values, v.cid = l.cid → (d.loopItems l.cid l.loopNum).any (fun i => i.name == v.name) = true → v.rowNum < row := by
            intro v hv hc ha
            have := hrb x hx hxk.1 hxk.2 v hv hc ha
            omega
          have hfil : d3.values.filter (fun v => v.cid == l.cid && (d.loopItems l.cid l.loopNum).any (fun i => i.name == v.name)) =
              d.values.filter (fun v => v.cid == l.cid && (d.loopItems l.cid l.loopNum).any (fun i => i.name == v.name)) ++ newvals := by
            rw [hv3, List.filter_append]
            congr 1
            rw [List.filter_eq_self]
            intro w hw
            obtain ⟨hwc, _, hwa⟩ := hP1 w hw
            simp [hwc, hwa]
          have hrows : d3.loopRows l.cid l.loopNum = d.loopRows l.cid l.loopNum ++ [row] := by
            unfold Db.loopRows
            rw [hitems, hfil, List.foldl_append]
            apply foldl_insert_same
            · intro y hy
              rcases mem_foldl_insertNat _ _ _ hy with h0 | ⟨v, hv, hvr⟩
              · cases h0
              · obtain ⟨hvm, hvk⟩ := List.mem_filter.mp hv
                simp only [Bool.and_eq_true] at hvk
                rw [← hvr]
                exact hbelow v hvm (by simpa using hvk.1) hvk.2
            · exact hP2
            · intro w hw; exact (hP1 w hw).2.1
          simp only [absLoop, hxk.1, hxk.2, hrows, hitems, List.map_append, List.map_singleton]
          congr 1
          congr 1
          · apply List.map_congr_left
            intro r hr
            apply List.map_congr_left
            intro i hi
            have hrlt : r < row := by
              rcases mem_foldl_insertNat _ _ _ hr with h0 | ⟨v, hv, hvr⟩
              · cases h0
              · obtain ⟨hvm, hvk⟩ := List.mem_filter.mp hv
                simp only [Bool.and_eq_true] at hvk
                rw [← hvr]
                exact hbelow v hvm (by simpa using hvk.1) hvk.2
            rw [hv3, List.find?_append]
            have : newvals.find? (fun v => v.cid == l.cid && v.name == i.name && v.rowNum == r) = none := by
              rw [List.find?_eq_none]
              intro w hw hq
              have := (hP1 w hw).2.1
              simp at hq
              omega
            rw [this, Option.or_none]
          · unfold packetFor
            congr 1
            apply List.map_congr_left
            intro i hi
            rw [hv3, List.find?_append]
            have hold : d.values.find? (fun v => v.cid == l.cid && v.name == i.name && v.rowNum == row) = none := by
              rw [List.find?_eq_none]
              intro v hv hq
              simp only [Bool.and_eq_true] at hq
              have hlt := hbelow v hv (by simpa using hq.1.1) (by
                simp only [List.any_eq_true]
                exact ⟨i, hi, by have := hq.1.2; simp at this ⊢; exact this.symm⟩)
              have : v.rowNum = row := by simpa using hq.2
              omega
            rw [hold, Option.none_or]
            exact hP3 i
        refine ⟨l3, i3, ?_, f3, b3⟩
        intro x hxm
        have := habs x
        simp only [f] at this
        rw [this]
        cases hc : (x.cid == l.cid && x.loopNum == l.loopNum) with
        | true => simp only [if_true]; exact htarget x hxm hc
        | false => simp only [Bool.false_eq_true, if_false]; exact hrest x hxm hc

/-- add_packet, container-local refinement: on success the target loop gains exactly one packet at the end — the given values,
    the unknown value for the loop's items the packet omits (since fix e266ec6 they are stored as such: `addPacket_total`) — and
    every other loop of the CIF, blocks and frames are what they were.  Hypothesis beyond `Inv`: `RowsBelow` (row numbers ≤
    last_row_num). -/
theorem addPacket_refines (d d' : Db) (l : LH) (pkt : List (Str × V)) (h : Inv d) (hrb : RowsBelow d l.cid l.loopNum)
    (hne : pkt ≠ []) (he : addPacketBody l pkt d = .ok (d', ())) :
    (∀ cid', absLoops d' cid' = (d.loops.filter (fun x => x.cid == cid')).map (fun x =>
        if x.cid == l.cid && x.loopNum == l.loopNum then
          { absLoop d x with packets := (absLoop d x).packets ++ [packetFor d l.cid l.loopNum pkt] }
        else absLoop d x)) ∧
    d'.frames = d.frames ∧ d'.blocks = d.blocks := by
  obtain ⟨l3, _, hpt, f3, b3⟩ := addPacket_pointwise d d' l pkt h hrb hne he
  refine ⟨?_, f3, b3⟩
  intro cid'
  unfold absLoops
  rw [l3, List.filter_map]
  have hcomp : ((fun x : LoopRow => x.cid == cid') ∘
      (fun x : LoopRow => if x.cid == l.cid && x.loopNum == l.loopNum then { x with lastRowNum := x.lastRowNum + 1 } else x)) =
      (fun x : LoopRow => x.cid == cid') := by
    funext y; simp only [Function.comp]; split <;> rfl
  rw [hcomp, List.map_map]
  apply List.map_congr_left
  intro x hx
  exact hpt x (List.mem_filter.mp hx).1

end CifModel.Store

namespace CifModel.Store

/-- item names are stored normalised -/
def ItemsNormOK (norm : Str → Str) (d : Db) : Prop := ∀ i ∈ d.items, i.name = norm i.nameOrig

/-- the packet of `addPacket_refines` is the packet Spec/DataModel's `Loop.specAddPacket` appends -/
theorem packetFor_eq_spec (norm : Str → Str) (d : Db) (x : LoopRow) (pkt : List (Str × V)) (hn : ItemsNormOK norm d) :
    packetFor d x.cid x.loopNum pkt =
      (absLoop d x).names.map (fun n => ((pkt.find? (fun e => e.1 == norm n)).map (·.2)).getD .unk) := by
  simp only [packetFor, absLoop, List.map_map]
  apply List.map_congr_left
  intro i hi
  have := hn i (List.mem_filter.mp hi).1
  simp only [Function.comp, this]

end CifModel.Store

namespace CifModel.Store

/-- the id the next container gets is unused: a consequence of the invariant (foreign keys + ids below the sequence) -/
theorem Inv.idFresh {d : Db} (h : Inv d) : IdFresh d := by
  have hlt : ∀ id, d.hasContainer id = true → id < d.nextId := by
    intro id hid
    obtain ⟨r, hr, hre⟩ := (hasContainer_iff d id).mp hid
    rw [← hre]; exact h.ext.idsBelow r hr
  refine ⟨?_, ?_, ?_⟩
  · intro f hf he; have := hlt _ (h.tree.frameFK f hf).2; omega
  · intro l hl he; have := hlt _ (h.loopFK l hl); omega
  · intro b hb he; have := hlt _ (h.tree.blockFK b hb); omega

end CifModel.Store

namespace CifModel.Store

theorem rowsBelowB_sound (d : Db) (h : d.rowsBelowB = true) (cid ln : Nat) : RowsBelow d cid ln := by
  intro r hr hc hl v hv hvc ha
  unfold Db.rowsBelowB at h
  have := List.all_eq_true.mp (List.all_eq_true.mp h r hr) v hv
  rw [hc, hl] at this
  simp [hvc, ha] at this
  exact this

end CifModel.Store

namespace CifModel.Store

/-- since fix e266ec6: the packet cif_loop_add_packet adds is TOTAL — every item of the loop has a stored value in the new row
    (the given value, or the explicit unknown value), and the new row is the loop's `last_row_num` -/
theorem addPacket_total (d d' : Db) (l : LH) (pkt : List (Str × V)) (he : addPacketBody l pkt d = .ok (d', ())) :
    ∃ row, d'.lastRowNum l.cid l.loopNum = some row ∧ 0 < row ∧
      ∀ i ∈ d'.loopItems l.cid l.loopNum, d'.hasValue l.cid i.name row = true := by
  unfold addPacketBody at he
  split at he
  · split at he <;> cases he
  · rename_i d1 hbump
    split at he
    · cases he
    · rename_i row hrow
      split at he
      · cases he
      · rename_i d2 hadd
        simp only [Except.ok.injEq, Prod.mk.injEq, and_true] at he
        subst he
        obtain ⟨l1, _, _, _, _, _⟩ := bumpRowNum_spec d d1 _ _ hbump
        obtain ⟨v2, i2, l2, _, _, _, _⟩ := addValues_spec pkt d1 d2 l.cid l.loopNum row hadd
        obtain ⟨fill, v3, i3, l3, _, _, _, htot⟩ := fillPacket_spec d2 l.cid l.loopNum row
        have hpos : 0 < row := by
          have : d1.lastRowNum l.cid l.loopNum = some row := hrow
          unfold Db.lastRowNum at this
          rw [l1, List.find?_map] at this
          cases hf : d.loops.find? ((fun y : LoopRow => y.cid == l.cid && y.loopNum == l.loopNum) ∘
              (fun y => if y.cid == l.cid && y.loopNum == l.loopNum then { y with lastRowNum := y.lastRowNum + 1 } else y)) with
          | none => rw [hf] at this; cases this
          | some y =>
            rw [hf] at this
            have hk := List.find?_some hf
            simp only [Function.comp] at hk
            simp only [Option.map_some, Option.some.injEq] at this
            by_cases hm : (y.cid == l.cid && y.loopNum == l.loopNum) = true
            · simp only [hm, if_true] at this; omega
            · simp only [hm, if_false] at hk; exact absurd hk hm
        refine ⟨row, ?_, hpos, ?_⟩
        · show (d2.fillPacket l.cid l.loopNum row).lastRowNum l.cid l.loopNum = some row
          unfold Db.lastRowNum
          rw [l3, l2]; exact hrow
        · intro i hi
          have hi2 : i ∈ d2.loopItems l.cid l.loopNum := by simpa only [Db.loopItems, i3] using hi
          rcases htot (by omega) i hi2 with hv | ⟨w, hw, hwn⟩
          · simp only [Db.hasValue, List.any_eq_true] at hv ⊢
            obtain ⟨v, hvm, hvk⟩ := hv
            exact ⟨v, by rw [v3]; exact List.mem_append_left _ hvm, hvk⟩
          · simp only [Db.hasValue, List.any_eq_true]
            refine ⟨w, by rw [v3]; exact List.mem_append_right _ hw, ?_⟩
            have hp := fillPacket_spec d2 l.cid l.loopNum row
            obtain ⟨fill', v3', _, _, _, _, hfp, _⟩ := hp
            have : fill' = fill := List.append_cancel_left (by rw [← v3', v3])
            subst this
            have := hfp w hw
            simp [this.1, this.2.1, hwn]

end CifModel.Store
