import CifModel.Lemmas.StoreInv
import CifModel.Spec.DataModel
/-
  Lemmas/StoreRefine — pieces of the refinement abs ∘ step = specStep ∘ abs (block level).
-/
namespace CifModel.Store
open Gen.ErrCodes

theorem absContainer_code (d : Db) (fuel cid : Nat) (code : Str) : (absContainer d fuel cid code).code = code := by
  cases fuel <;> simp [absContainer, Container.code]

theorem find?_congr' {α} {p q : α → Bool} : ∀ (l : List α), (∀ x ∈ l, p x = q x) → l.find? p = l.find? q
  | [], _ => rfl
  | x :: xs, h => by
    simp only [List.find?_cons, h x List.mem_cons_self]
    split
    · rfl
    · exact find?_congr' xs (fun y hy => h y (List.mem_cons_of_mem _ hy))

theorem any_congr' {α} {p q : α → Bool} : ∀ (l : List α), (∀ x ∈ l, p x = q x) → l.any p = l.any q
  | [], _ => rfl
  | x :: xs, h => by
    simp only [List.any_cons, h x List.mem_cons_self, any_congr' xs (fun y hy => h y (List.mem_cons_of_mem _ hy))]

/-- `abs` looks only at data_block, save_frame, loop, loop_item, item_value -/
theorem absContainer_congr (d d' : Db) (hf : d'.frames = d.frames) (hl : d'.loops = d.loops) (hi : d'.items = d.items) (hv : d'.values = d.values) :
    ∀ fuel, (∀ cid code, absContainer d' fuel cid code = absContainer d fuel cid code) ∧
            (∀ fs, absFrames d' fuel fs = absFrames d fuel fs) := by
  have hloop : ∀ l, absLoop d' l = absLoop d l := by
    intro l; simp only [absLoop, Db.loopItems, Db.loopRows, hi, hv]
  intro fuel
  induction fuel with
  | zero =>
    refine ⟨fun cid code => by simp [absContainer], ?_⟩
    intro fs
    induction fs with
    | nil => simp [absFrames]
    | cons f fs ih => simp [absFrames, absContainer, ih]
  | succ k ih =>
    have hc : ∀ cid code, absContainer d' (k + 1) cid code = absContainer d (k + 1) cid code := by
      intro cid code
      simp only [absContainer, hf, hl, ih.2]
      congr 1
      exact List.map_congr_left (fun l _ => hloop l)
    refine ⟨hc, ?_⟩
    intro fs
    induction fs with
    | nil => simp [absFrames]
    | cons f fs ihf => simp only [absFrames, hc, ihf]


/-- block names are stored normalised (what cif_create_block_internal does; `norm` is C09's function) -/
def BlocksNormOK (norm : Str → Str) (d : Db) : Prop := ∀ b ∈ d.blocks, b.name = norm b.nameOrig

/-- the id the next container gets is not yet in use anywhere (ids come from an AUTOINCREMENT sequence) -/
def IdFresh (d : Db) : Prop :=
  (∀ f ∈ d.frames, f.parent ≠ d.nextId) ∧ (∀ l ∈ d.loops, l.cid ≠ d.nextId) ∧ (∀ b ∈ d.blocks, b.cid ≠ d.nextId)

theorem getBlock_refines (norm : Str → Str) (s : Store) (n : Name) (hn : BlocksNormOK norm s.db) :
    (getBlock s n).1 = s ∧
    (match (getBlock s n).2 with
     | .ok h => specGetBlock norm (abs s.db) n.key = .ok (absContainer s.db (s.db.frames.length + 1) h.id h.code)
     | .error c => specGetBlock norm (abs s.db) n.key = .error c) := by
  have hfind : (abs s.db).find? (fun c => norm c.code == n.key) =
      (s.db.blocks.find? (fun b => b.name == n.key)).map (fun b => absContainer s.db (s.db.frames.length + 1) b.cid b.nameOrig) := by
    unfold abs
    rw [List.find?_map]
    congr 1
    apply find?_congr'
    intro b hb
    simp only [Function.comp, absContainer_code, hn b hb]
  unfold getBlock specGetBlock
  rw [hfind]
  cases hf : s.db.blocks.find? (fun b => b.name == n.key) with
  | none => exact ⟨rfl, rfl⟩
  | some b => exact ⟨rfl, rfl⟩

theorem createBlock_refines (norm : Str → Str) (s : Store) (n : Name) (hac : s.autocommit = true)
    (hn : BlocksNormOK norm s.db) (hfresh : IdFresh s.db) :
    match (createBlock s (some n)).2 with
    | .ok h => specCreateBlock norm (abs s.db) n.key n.orig n.valid = .ok (abs (createBlock s (some n)).1.db) ∧ h.code = n.orig ∧
               (createBlock s (some n)).1.autocommit = true
    | .error c => specCreateBlock norm (abs s.db) n.key n.orig n.valid = .error c ∧ (createBlock s (some n)).1 = s := by
  have hany : (abs s.db).any (fun c => norm c.code == n.key) = s.db.blocks.any (fun b => b.name == n.key) := by
    unfold abs
    rw [List.any_map]
    apply any_congr'
    intro b hb
    simp only [Function.comp, absContainer_code, hn b hb]
  have hb : s.begin = some { s with txn := some s.db } := by simp [Store.begin, hac]
  unfold createBlock specCreateBlock
  simp only [Bool.not_false, Bool.true_and]
  cases hv : n.valid with
  | false => simp
  | true =>
    simp only [Bool.not_true, Bool.false_eq_true, if_false, hb, hany]
    cases hdup : s.db.blocks.any (fun b => b.name == n.key) with
    | true =>
      have : s.db.insertContainer.1.insertBlock s.db.insertContainer.2 n.key n.orig = none := by
        have hd : s.db.insertContainer.1.blocks = s.db.blocks := rfl
        unfold Db.insertBlock
        rw [hd]
        split
        · rfl
        · simp [hdup]
      simp only [this, if_true]
      refine ⟨trivial, ?_⟩
      exact begin_rollback' s _ hb
    | false =>
      have hpk : s.db.blocks.any (fun b => b.cid == s.db.nextId) = false := by
        rw [Bool.eq_false_iff]
        intro h
        obtain ⟨b, hbm, hbe⟩ := List.any_eq_true.mp h
        exact hfresh.2.2 b hbm (by simpa using hbe)
      have hins : s.db.insertContainer.1.insertBlock s.db.insertContainer.2 n.key n.orig =
          some { s.db.insertContainer.1 with blocks := s.db.blocks ++ [{ cid := s.db.nextId, name := n.key, nameOrig := n.orig }] } := by
        unfold Db.insertBlock Db.insertContainer
        simp [hpk, hdup, Db.hasContainer]
      simp only [hins, Bool.false_eq_true, if_false]
      refine ⟨?_, trivial, by simp [Store.commit, Store.autocommit]⟩
      congr 1
      -- abs of the new state: the old blocks are untouched, the new block is empty
      simp only [Store.commit, Store.autocommit, Option.isNone_some, Bool.false_and, Bool.false_eq_true, if_false, Option.getD]
      unfold abs
      simp only [Db.insertContainer, List.map_append, List.map_cons, List.map_nil]
      have hcg := (absContainer_congr s.db
        { s.db with containers := s.db.containers ++ [{ id := s.db.nextId, nextLoopNum := 0 }], nextId := s.db.nextId + 1,
                    blocks := s.db.blocks ++ [{ cid := s.db.nextId, name := n.key, nameOrig := n.orig }] } rfl rfl rfl rfl
        (s.db.frames.length + 1)).1
      congr 1
      · exact (List.map_congr_left (fun b _ => (hcg b.cid b.nameOrig))).symm
      · rw [hcg]
        simp only [absContainer]
        have h1 : s.db.frames.filter (fun f => f.parent == s.db.nextId) = [] := by
          rw [List.filter_eq_nil_iff]; intro f hf; simpa using hfresh.1 f hf
        have h2 : s.db.loops.filter (fun l => l.cid == s.db.nextId) = [] := by
          rw [List.filter_eq_nil_iff]; intro l hl; simpa using hfresh.2.1 l hl
        simp [h1, h2, absFrames]


theorem absFrames_eq_map (d : Db) (fuel : Nat) : ∀ fs, absFrames d fuel fs = fs.map (fun f => absContainer d fuel f.cid f.nameOrig)
  | [] => by simp [absFrames]
  | f :: fs => by simp [absFrames, absFrames_eq_map d fuel fs]

def FramesNormOK (norm : Str → Str) (d : Db) : Prop := ∀ f ∈ d.frames, f.name = norm f.nameOrig

theorem getFrame_refines (norm : Str → Str) (s : Store) (hd : CH) (n : Name) (fuel : Nat) (hn : FramesNormOK norm s.db) :
    (getFrame s hd (some n)).1 = s ∧
    (match (getFrame s hd (some n)).2 with
     | .ok h => (absContainer s.db (fuel + 1) hd.id hd.code).specGetFrame norm n.key n.valid = .ok (absContainer s.db fuel h.id h.code)
     | .error c => (absContainer s.db (fuel + 1) hd.id hd.code).specGetFrame norm n.key n.valid = .error c) := by
  have hfind : (absContainer s.db (fuel + 1) hd.id hd.code).frames.find? (fun f => norm f.code == n.key) =
      (s.db.frames.find? (fun f => f.parent == hd.id && f.name == n.key)).map (fun f => absContainer s.db fuel f.cid f.nameOrig) := by
    simp only [absContainer, Container.frames, absFrames_eq_map]
    rw [List.find?_map, List.find?_filter]
    congr 1
    apply find?_congr'
    intro f hf
    simp only [Function.comp, absContainer_code, hn f hf]
    cases (f.parent == hd.id) <;> cases (norm f.nameOrig == n.key) <;> rfl
  unfold getFrame Container.specGetFrame
  simp only []
  cases hv : n.valid with
  | false => simp
  | true =>
    simp only [Bool.not_true, Bool.false_eq_true, if_false, hfind]
    cases hf : s.db.frames.find? (fun f => f.parent == hd.id && f.name == n.key) with
    | none => exact ⟨rfl, rfl⟩
    | some f => exact ⟨rfl, rfl⟩

end CifModel.Store
