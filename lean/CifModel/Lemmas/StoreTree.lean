import CifModel.Lemmas.StoreRefineC
import CifModel.Spec.DataModel
/-
  Lemmas/StoreTree — the save-frame tree: `absContainer`'s fuel is immaterial once it exceeds the number of younger frames
  (so `abs`, which uses `frames.length + 1`, shows every container with everything below it), and cif_container_create_frame /
  cif_container_destroy against the documented model, container by container.
-/
namespace CifModel.Store
open Gen.ErrCodes

/-- the number of save frames younger than container `cid`: a bound on the depth of the tree below it -/
def youngerFrames (d : Db) (cid : Nat) : Nat := (d.frames.filter (fun f => decide (cid < f.cid))).length

theorem youngerFrames_lt (d : Db) (cid : Nat) (f : FrameRow) (hf : f ∈ d.frames) (hlt : cid < f.cid) :
    youngerFrames d f.cid < youngerFrames d cid := by
  unfold youngerFrames
  have : d.frames.filter (fun g => decide (f.cid < g.cid)) =
      (d.frames.filter (fun g => decide (cid < g.cid))).filter (fun g => decide (f.cid < g.cid)) := by
    rw [List.filter_filter]
    apply List.filter_congr
    intro g _
    by_cases hg : f.cid < g.cid
    · have : cid < g.cid := by omega
      simp [hg, this]
    · simp [hg]
  rw [this]
  apply List.length_filter_lt_length_iff_exists.mpr
  exact ⟨f, List.mem_filter.mpr ⟨hf, by simpa using hlt⟩, by simp⟩

/-- fuel beyond the number of younger frames changes nothing -/
theorem absContainer_fuel (d : Db) (hord : ∀ f ∈ d.frames, f.parent < f.cid) :
    ∀ (n cid : Nat) (code : Str) (fuel fuel' : Nat), youngerFrames d cid ≤ n → n < fuel → n < fuel' →
      absContainer d fuel cid code = absContainer d fuel' cid code := by
  intro n
  induction n with
  | zero =>
    intro cid code fuel fuel' hy h1 h2
    obtain ⟨k, rfl⟩ : ∃ k, fuel = k + 1 := ⟨fuel - 1, by omega⟩
    obtain ⟨k', rfl⟩ : ∃ k, fuel' = k + 1 := ⟨fuel' - 1, by omega⟩
    have hch : d.frames.filter (fun f => f.parent == cid) = [] := by
      rw [List.filter_eq_nil_iff]
      intro f hf hp
      have hp' : f.parent = cid := by simpa using hp
      have := youngerFrames_lt d cid f hf (by rw [← hp']; exact hord f hf)
      omega
    simp only [absContainer, hch, absFrames]
  | succ m ih =>
    intro cid code fuel fuel' hy h1 h2
    obtain ⟨k, rfl⟩ : ∃ k, fuel = k + 1 := ⟨fuel - 1, by omega⟩
    obtain ⟨k', rfl⟩ : ∃ k, fuel' = k + 1 := ⟨fuel' - 1, by omega⟩
    simp only [absContainer, absFrames_eq_map]
    congr 1
    apply List.map_congr_left
    intro f hf
    obtain ⟨hfm, hp⟩ := List.mem_filter.mp hf
    have hp' : f.parent = cid := by simpa using hp
    have := youngerFrames_lt d cid f hfm (by rw [← hp']; exact hord f hfm)
    exact ih f.cid f.nameOrig k k' (by omega) (by omega) (by omega)

/-- `abs` shows every container in full: any fuel from `frames.length + 1` on gives the same tree -/
theorem absContainer_full (d : Db) (h : Inv d) (cid : Nat) (code : Str) (fuel : Nat) (hf : d.frames.length + 1 ≤ fuel) :
    absContainer d fuel cid code = absContainer d (d.frames.length + 1) cid code :=
  absContainer_fuel d h.tree.frameOrder d.frames.length cid code _ _ (List.length_filter_le _ _) (by omega) (by omega)

/-- the database after a successful cif_container_create_frame -/
def withFrame (d : Db) (par : Nat) (key orig : Str) : Db :=
  { d.insertContainer.1 with frames := d.frames ++ [{ cid := d.nextId, parent := par, name := key, nameOrig := orig }] }

/-- a new frame under `par` changes nothing in the tree of a container younger than `par` (the new container itself included:
    it shows as empty before and after) -/
theorem absContainer_withFrame (d : Db) (h : Inv d) (par : Nat) (key orig : Str) :
    ∀ (k c : Nat) (code : Str), par < c → absContainer (withFrame d par key orig) k c code = absContainer d k c code := by
  intro k
  induction k with
  | zero => intro c code _; simp [absContainer]
  | succ k ih =>
    intro c code hlt
    simp only [absContainer, absFrames_eq_map]
    have hch : (withFrame d par key orig).frames.filter (fun f => f.parent == c) = d.frames.filter (fun f => f.parent == c) := by
      show (d.frames ++ [_]).filter _ = _
      rw [List.filter_append]
      have : ([({ cid := d.nextId, parent := par, name := key, nameOrig := orig } : FrameRow)].filter (fun f => f.parent == c)) = [] := by
        have : (par == c) = false := by simp; omega
        simp [this]
      rw [this, List.append_nil]
    rw [hch]
    congr 1
    apply List.map_congr_left
    intro f hf
    obtain ⟨hfm, hp⟩ := List.mem_filter.mp hf
    have hp' : f.parent = c := by simpa using hp
    have := h.tree.frameOrder f hfm
    exact ih f.cid f.nameOrig (by omega)

theorem createFrame_refines (norm : Str → Str) (s : Store) (hd : CH) (n : Name) (fuel : Nat) (hac : s.autocommit = true)
    (hn : FramesNormOK norm s.db) (h : Inv s.db) (hhd : s.db.hasContainer hd.id = true) :
    match (createFrame s hd (some n)).2 with
    | .ok h' =>
      (absContainer s.db (fuel + 1) hd.id hd.code).specCreateFrame norm n.key n.orig n.valid =
        .ok (absContainer (createFrame s hd (some n)).1.db (fuel + 1) hd.id hd.code) ∧
      (createFrame s hd (some n)).1.db = withFrame s.db hd.id n.key n.orig ∧
      h'.code = n.orig ∧ h'.id = s.db.nextId ∧ (createFrame s hd (some n)).1.autocommit = true
    | .error c =>
      (absContainer s.db (fuel + 1) hd.id hd.code).specCreateFrame norm n.key n.orig n.valid = .error c ∧
      (createFrame s hd (some n)).1 = s := by
  have hfresh := h.idFresh
  have hlt : hd.id < s.db.nextId := by
    obtain ⟨r, hr, hre⟩ := (hasContainer_iff _ _).mp hhd
    rw [← hre]; exact h.ext.idsBelow r hr
  -- "the code is in use" on both sides
  have hany : (absContainer s.db (fuel + 1) hd.id hd.code).frames.any (fun f => norm f.code == n.key) =
      s.db.frames.any (fun f => f.parent == hd.id && f.name == n.key) := by
    simp only [absContainer, Container.frames, absFrames_eq_map]
    rw [List.any_map]
    apply Bool.eq_iff_iff.mpr
    simp only [List.any_eq_true, Function.comp, absContainer_code]
    constructor
    · rintro ⟨f, hf, hk⟩
      obtain ⟨hfm, hp⟩ := List.mem_filter.mp hf
      exact ⟨f, hfm, by rw [hn f hfm]; simp [hp, hk]⟩
    · rintro ⟨f, hfm, hk⟩
      simp only [Bool.and_eq_true] at hk
      exact ⟨f, List.mem_filter.mpr ⟨hfm, hk.1⟩, by rw [← hn f hfm]; exact hk.2⟩
  unfold createFrame Container.specCreateFrame
  simp only []
  cases hv : n.valid with
  | false => simp
  | true =>
    have hb : s.begin = some { s with txn := some s.db } := by unfold Store.begin; simp [hac]
    simp only [Bool.not_true, Bool.not_false, Bool.true_and, Bool.false_eq_true, if_false, hb, hany]
    have hcidfree : s.db.frames.any (fun f => f.cid == s.db.nextId) = false := by
      rw [Bool.eq_false_iff]
      intro ha
      obtain ⟨f, hfm, hfe⟩ := List.any_eq_true.mp ha
      obtain ⟨r, hr, hre⟩ := (hasContainer_iff _ _).mp (h.tree.frameFK f hfm).1
      have := h.ext.idsBelow r hr
      have : f.cid = s.db.nextId := by simpa using hfe
      omega
    cases hdup : s.db.frames.any (fun f => f.parent == hd.id && f.name == n.key) with
    | true =>
      have : s.db.insertContainer.1.insertFrame s.db.insertContainer.2 hd.id n.key n.orig = none := by
        have hd' : s.db.insertContainer.1.frames = s.db.frames := rfl
        unfold Db.insertFrame
        rw [hd']
        split
        · rfl
        · simp [hdup]
      simp only [this, if_true]
      exact ⟨trivial, begin_rollback' s _ hb⟩
    | false =>
      have hins : s.db.insertContainer.1.insertFrame s.db.insertContainer.2 hd.id n.key n.orig = some (withFrame s.db hd.id n.key n.orig) := by
        have hne : (s.db.nextId == hd.id) = false := by simp; omega
        have hc2 : (s.db.containers ++ [({ id := s.db.nextId, nextLoopNum := 0 } : ContainerRow)]).any (fun r => r.id == hd.id) = true := by
          rw [List.any_append]
          have : s.db.containers.any (fun r => r.id == hd.id) = true := hhd
          simp [this]
        unfold Db.insertFrame Db.insertContainer withFrame
        simp [hcidfree, hdup, hne, Db.hasContainer, hc2, Db.insertContainer]
      simp only [hins, Bool.false_eq_true, if_false]
      simp only [Store.commit, Store.autocommit, Option.isNone_some, Bool.false_and, Bool.false_eq_true, if_false, Option.getD]
      refine ⟨?_, by first | rfl | trivial, by first | rfl | trivial, by first | rfl | trivial, by first | rfl | trivial | simp⟩
      congr 1
      -- the container's frames: the old ones, unchanged, and the new, empty one
      simp only [absContainer, absFrames_eq_map, Container.code, Container.frames, Container.loops]
      have hch : (withFrame s.db hd.id n.key n.orig).frames.filter (fun f => f.parent == hd.id) =
          s.db.frames.filter (fun f => f.parent == hd.id) ++ [{ cid := s.db.nextId, parent := hd.id, name := n.key, nameOrig := n.orig }] := by
        show (s.db.frames ++ [_]).filter _ = _
        rw [List.filter_append]
        simp
      rw [hch, List.map_append]
      congr 1
      · congr 1
        · apply List.map_congr_left
          intro f hf
          obtain ⟨hfm, hp⟩ := List.mem_filter.mp hf
          have hp' : f.parent = hd.id := by simpa using hp
          have := h.tree.frameOrder f hfm
          exact (absContainer_withFrame s.db h hd.id n.key n.orig fuel f.cid f.nameOrig (by omega)).symm
        · simp only [List.map_cons, List.map_nil]
          rw [absContainer_withFrame s.db h hd.id n.key n.orig fuel s.db.nextId n.orig hlt]
          cases fuel with
          | zero => simp [absContainer]
          | succ k =>
            simp only [absContainer]
            have h1 : s.db.frames.filter (fun f => f.parent == s.db.nextId) = [] := by
              rw [List.filter_eq_nil_iff]; intro f hf; simpa using hfresh.1 f hf
            have h2 : s.db.loops.filter (fun l => l.cid == s.db.nextId) = [] := by
              rw [List.filter_eq_nil_iff]; intro l hl; simpa using hfresh.2.1 l hl
            simp [h1, h2, absFrames]

/-- the database with the save_frame row of container `id` taken out: the documented tree with that node — and so everything below
    it — cut off wherever it hangs -/
def cutFrame (d : Db) (id : Nat) : Db := { d with frames := d.frames.filter (fun f => !(f.cid == id)) }

/-- cif_container_destroy (the container row exists): what every OTHER container shows afterwards is what it showed before with the
    destroyed node cut off — same loops with the same packets, same frames except the destroyed one, to any depth; the block list
    loses the destroyed block (if it was one) and nothing else.  (Rows of the destroyed container's descendants stay in the tables,
    unreachable: the FK cascade removes only the save_frame rows that mention the destroyed id.) -/
theorem destroyContainer_refines (d : Db) (h : Inv d) (id : Nat) (hex : d.hasContainer id = true) :
    (d.deleteContainer id).1.blocks = d.blocks.filter (fun b => !(b.cid == id)) ∧
    (∀ c, c ≠ id → absLoops (d.deleteContainer id).1 c = absLoops d c) ∧
    (∀ (k c : Nat) (code : Str), c ≠ id → absContainer (d.deleteContainer id).1 k c code = absContainer (cutFrame d id) k c code) := by
  have hn : ((d.containers.filter (fun c => c.id == id)).length == 0) = false := by
    obtain ⟨r, hr, hre⟩ := (hasContainer_iff _ _).mp hex
    have : r ∈ d.containers.filter (fun c => c.id == id) := List.mem_filter.mpr ⟨hr, by simp [hre]⟩
    cases hl : d.containers.filter (fun c => c.id == id) with
    | nil => rw [hl] at this; cases this
    | cons a b => rfl
  let p : LoopRow → Bool := fun l => l.cid == id
  have hr := deleteLoops_refines d p h (fun a b hc _ => by simp only [p, hc])
  -- the result, spelled out: deleteLoops looks at loop / loop_item / item_value only
  have hd' : (d.deleteContainer id).1 =
      { d.deleteLoops p with containers := d.containers.filter (fun c => !(c.id == id)),
                             blocks := d.blocks.filter (fun b => !(b.cid == id)),
                             frames := d.frames.filter (fun f => !(f.cid == id) && !(f.parent == id)) } := by
    unfold Db.deleteContainer
    simp only [hn, Bool.false_eq_true, if_false]
    rfl
  have hloops : ∀ c, c ≠ id → absLoops (d.deleteContainer id).1 c = absLoops d c := by
    intro c hc
    rw [hd']
    unfold absLoops
    show ((d.deleteLoops p).loops.filter (fun l => l.cid == c)).map (absLoop (d.deleteLoops p)) = _
    rw [hr.1, List.filter_filter]
    have : d.loops.filter (fun a => (a.cid == c) && !p a) = d.loops.filter (fun l => l.cid == c) := by
      apply List.filter_congr
      intro l _
      by_cases hl : l.cid = c
      · have : (l.cid == id) = false := by simp [hl, hc]
        simp [p, hl, this]
      · simp [hl]
    rw [this]
    apply List.map_congr_left
    intro y hy
    obtain ⟨hym, hyc⟩ := List.mem_filter.mp hy
    have hyc' : y.cid = c := by simpa using hyc
    exact hr.2.1 y hym (by simp [p, hyc', hc])
  refine ⟨by rw [hd'], hloops, ?_⟩
  intro k
  induction k with
  | zero => intro c code _; simp [absContainer]
  | succ k ih =>
    intro c code hc
    have hl := hloops c hc
    unfold absLoops at hl
    simp only [absContainer, absFrames_eq_map]
    have hch : (d.deleteContainer id).1.frames.filter (fun f => f.parent == c) = (cutFrame d id).frames.filter (fun f => f.parent == c) := by
      rw [hd']
      show (d.frames.filter _).filter _ = (d.frames.filter _).filter _
      rw [List.filter_filter, List.filter_filter]
      apply List.filter_congr
      intro f _
      by_cases hp : f.parent = c
      · subst hp
        have : (f.parent == id) = false := by simpa using hc
        rw [this]; simp
      · have : (f.parent == c) = false := by simpa using hp
        rw [this]; simp
    have hll : (cutFrame d id).loops.filter (fun l => l.cid == c) = d.loops.filter (fun l => l.cid == c) := rfl
    have hla : ∀ y, absLoop (cutFrame d id) y = absLoop d y := fun _ => rfl
    rw [hch, hl, hll]
    congr 1
    · apply List.map_congr_left
      intro f hf
      obtain ⟨hfm, _⟩ := List.mem_filter.mp hf
      have hfm' : f ∈ d.frames.filter (fun f => !(f.cid == id)) := hfm
      have : f.cid ≠ id := by simpa using (List.mem_filter.mp hfm').2
      exact ih f.cid f.nameOrig this

end CifModel.Store
